/-
  Hs.Spec.HaysonDenote — which JSON trees are Hayson documents, and of which value: the relation
  `Denotes w doc`, written from the Project Haystack JSON encoding ("Hayson"), with every freedom the
  encoding leaves to the writer:

  * the members of every object in ANY ORDER (`List.Perm` against the listed members; so `_kind` may stand
    anywhere, first, in the middle or last);
  * OPTIONAL MEMBERS present or absent: `unit` of a number, `dis` of a ref, `tz` of a dateTime,
    `"_kind":"dict"` of a dict (also of a grid meta, a column meta and a row), `meta` of a grid, `ver` in a
    grid meta, `meta` of a column; a unit-less finite number as a bare number token or as a
    `{"_kind":"number","val":…}` object;
  * NUMBER SPELLINGS: a number token is an integer token (`.int i f`: the lexeme is an i64/u64 integer `i`)
    or any other token (`.flt f`: decimal point and/or exponent) — what it denotes is the double `f` that the
    token converts to (`1`, `1.0`, `1e0`, `10E-1` are `.int 1 f`, `.flt f`, `.flt f`, `.flt f` with the same
    `f`); this holds for a bare number, for `val` of a number object and for `lat`/`lng`;
    `"INF"`, `"-INF"`, `"NaN"` as `val` of a number object are the non-finite doubles.

  The value `w` is the value as the tree-level decoder model represents it (Hs.Model.Hayson): dates, times
  and timestamps carry the TEXT of the document (`lexDate`/`lexTime`/`lexDateTime`; chrono evaluates it,
  trusted base), a grid meta / column meta is `.some` exactly when the `meta` member is present
  (absent and empty meta are identified later, by `Same`), a unit is the database symbol of the id in the
  document, a dict has its tags in ascending key order (it is a `BTreeMap`).

  Nothing else is a Hayson document here: no unknown or repeated member names, no member of the wrong JSON
  type.  (The reference READER Hs.Spec.Hayson.readDoc is more lenient — it looks members up by name and
  ignores the others; see Thm/C05.lean `readDoc_lenient`.)

  Core-only imports (Hs.Lemmas.HaysonOrd imports nothing but the model; it supplies `strictSorted`, the
  same predicate C02's `WFj` uses for dict keys).
-/
import Hs.Model.Hayson
import Hs.Lemmas.HaysonOrd
namespace Hs.Spec.Hayson
open Hs Hs.Hayson

/-- a member list -/
abbrev Mems := List (List Char × Json)

/-- the `"_kind": kind` member -/
def kindMem (kind : String) : List Char × Json := (s "_kind", .str (s kind))

/-- a JSON number token spelling the double `f`: an integer token or a decimal/exponent token -/
inductive NumTok : Flt → Json → Prop where
  | int (i : Int) (f : Flt) : NumTok f (.int i f)
  | flt (f : Flt) : NumTok f (.flt f)

/-- the `val` of a number object: a number token, or one of the three strings -/
inductive NumVal : Flt → Json → Prop where
  | tok {f : Flt} {j : Json} : NumTok f j → NumVal f j
  | inf : NumVal (mkFlt 0x7FF0000000000000 "inf") (.str (s "INF"))
  | negInf : NumVal (mkFlt 0xFFF0000000000000 "-inf") (.str (s "-INF"))
  | nan : NumVal (mkFlt 0x7FF8000000000000 "NaN") (.str (s "NaN"))

/-- an optional string member `name`: absent, or present with a JSON string -/
inductive OptStr (name : String) : Option (List Char) → Mems → Prop where
  | absent : OptStr name none []
  | present (x : List Char) : OptStr name (some x) [(s name, .str x)]

/-- the optional `unit` member: absent, or the id (name or symbol) of a database unit, whose symbol the
number carries -/
inductive OptUnit : Option (List Char) → Mems → Prop where
  | absent : OptUnit none []
  | present (id sym : List Char) : Hs.Zinc.unitSymbol id = some sym → OptUnit (some sym) [(s "unit", .str id)]

/-- the optional `"_kind":"dict"` member of a dict object -/
inductive OptKindDict : Mems → Prop where
  | absent : OptKindDict []
  | present : OptKindDict [kindMem "dict"]

/-- the optional `ver` member of a grid meta (absent: version 3.0) -/
inductive OptVer : List Char → Mems → Prop where
  | absent : OptVer (s "3.0") []
  | present (ver : List Char) : OptVer ver [(s "ver", .str ver)]

/-- tag names of a dict: strictly ascending (a `BTreeMap`; so pairwise distinct), none is `_kind` -/
def TagKeys (t : Tags) : Prop := strictSorted t.keys = true ∧ ∀ k ∈ t.keys, k ≠ s "_kind"

mutual
/-- `Denotes w doc`: the JSON tree `doc` is a Hayson document of the value `w` -/
inductive Denotes : Val → Json → Prop where
  | null : Denotes .null .null
  | bool (b : Bool) : Denotes (.bool b) (.bool b)
  | str (x : List Char) : Denotes (.str x) (.str x)
  /-- a bare number token is a unit-less number -/
  | numTok {f : Flt} {j : Json} : NumTok f j → Denotes (.num { v := f, unit := none }) j
  | marker : Denotes .marker (.obj (.cons (s "_kind") (.str (s "marker")) .nil))
  | remove : Denotes .remove (.obj (.cons (s "_kind") (.str (s "remove")) .nil))
  | na : Denotes .na (.obj (.cons (s "_kind") (.str (s "na")) .nil))
  /-- `{"_kind":"number","val":…,"unit"?:…}` in any order -/
  | number {f : Flt} {jv : Json} {u : Option (List Char)} {um : Mems} {ms : Members} :
      NumVal f jv → OptUnit u um → ms.toList.Perm (kindMem "number" :: (s "val", jv) :: um) →
      Denotes (.num { v := f, unit := u }) (.obj ms)
  /-- `{"_kind":"ref","val":…,"dis"?:…}` -/
  | ref {id : List Char} {dis : Option (List Char)} {dm : Mems} {ms : Members} :
      OptStr "dis" dis dm → ms.toList.Perm (kindMem "ref" :: (s "val", .str id) :: dm) →
      Denotes (.ref id dis) (.obj ms)
  | symbol {x : List Char} {ms : Members} :
      ms.toList.Perm [kindMem "symbol", (s "val", .str x)] → Denotes (.sym x) (.obj ms)
  | uri {x : List Char} {ms : Members} :
      ms.toList.Perm [kindMem "uri", (s "val", .str x)] → Denotes (.uri x) (.obj ms)
  | date {x : List Char} {ms : Members} :
      ms.toList.Perm [kindMem "date", (s "val", .str x)] → Denotes (lexDate x) (.obj ms)
  | time {x : List Char} {ms : Members} :
      ms.toList.Perm [kindMem "time", (s "val", .str x)] → Denotes (lexTime x) (.obj ms)
  /-- `{"_kind":"dateTime","val":…,"tz"?:…}` -/
  | dateTime {x : List Char} {tz : Option (List Char)} {zm : Mems} {ms : Members} :
      OptStr "tz" tz zm → ms.toList.Perm (kindMem "dateTime" :: (s "val", .str x) :: zm) →
      Denotes (lexDateTime x tz) (.obj ms)
  | coord {a b : Flt} {ja jb : Json} {ms : Members} :
      NumTok a ja → NumTok b jb → ms.toList.Perm [kindMem "coord", (s "lat", ja), (s "lng", jb)] →
      Denotes (.coord a b) (.obj ms)
  | xstr {ty x : List Char} {ms : Members} :
      ms.toList.Perm [kindMem "xstr", (s "type", .str ty), (s "val", .str x)] → Denotes (.xstr ty x) (.obj ms)
  /-- a JSON array is a list -/
  | list {vs : Vals} {js : Jsons} : DenotesL vs js → Denotes (.list vs) (.arr js)
  /-- a dict object (with or without `"_kind":"dict"`) -/
  | dict {t : Tags} {ms : Members} : DenotesD t ms → Denotes (.dict t) (.obj ms)
  /-- a grid without a `meta` member: no meta, version 3.0 -/
  | gridNoMeta {cols : Cols} {rows : Rows} {cjs rjs : Jsons} {ms : Members} :
      DenotesCols cols cjs → DenotesRows rows rjs →
      ms.toList.Perm [kindMem "grid", (s "cols", .arr cjs), (s "rows", .arr rjs)] →
      Denotes (.grid .none cols rows (s "3.0")) (.obj ms)
  /-- a grid with a `meta` member: its tags except `ver`, which is the grid's version -/
  | gridMeta {t : Tags} {ver : List Char} {cols : Cols} {rows : Rows} {cjs rjs : Jsons}
      {tm km vm : Mems} {mm ms : Members} :
      DenotesM t tm → TagKeys t → (∀ k ∈ t.keys, k ≠ s "ver") → OptKindDict km → OptVer ver vm →
      mm.toList.Perm (km ++ vm ++ tm) →
      DenotesCols cols cjs → DenotesRows rows rjs →
      ms.toList.Perm [kindMem "grid", (s "meta", .obj mm), (s "cols", .arr cjs), (s "rows", .arr rjs)] →
      Denotes (.grid (.some t) cols rows ver) (.obj ms)
/-- the elements of an array, one by one -/
inductive DenotesL : Vals → Jsons → Prop where
  | nil : DenotesL .nil .nil
  | cons {v : Val} {j : Json} {vs : Vals} {js : Jsons} :
      Denotes v j → DenotesL vs js → DenotesL (.cons v vs) (.cons j js)
/-- the tags of a dict, one member per tag (listed in the dict's key order; the object may hold them in
any order) -/
inductive DenotesM : Tags → Mems → Prop where
  | nil : DenotesM .nil []
  | cons {k : List Char} {v : Val} {j : Json} {t : Tags} {tm : Mems} :
      Denotes v j → DenotesM t tm → DenotesM (.cons k v t) ((k, j) :: tm)
/-- a dict object: the tag members in any order, `"_kind":"dict"` optional -/
inductive DenotesD : Tags → Members → Prop where
  | mk {t : Tags} {tm km : Mems} {ms : Members} :
      DenotesM t tm → TagKeys t → OptKindDict km → ms.toList.Perm (km ++ tm) → DenotesD t ms
/-- the column objects `{"name":…,"meta"?:{…}}` -/
inductive DenotesCols : Cols → Jsons → Prop where
  | nil : DenotesCols .nil .nil
  | consNoMeta {n : List Char} {cm : Members} {c : Cols} {js : Jsons} :
      cm.toList.Perm [(s "name", .str n)] → DenotesCols c js →
      DenotesCols (.cons n .none c) (.cons (.obj cm) js)
  | consMeta {n : List Char} {t : Tags} {mm cm : Members} {c : Cols} {js : Jsons} :
      DenotesD t mm → cm.toList.Perm [(s "name", .str n), (s "meta", .obj mm)] → DenotesCols c js →
      DenotesCols (.cons n (.some t) c) (.cons (.obj cm) js)
/-- the row objects: dicts -/
inductive DenotesRows : Rows → Jsons → Prop where
  | nil : DenotesRows .nil .nil
  | cons {r : Tags} {rm : Members} {rs : Rows} {js : Jsons} :
      DenotesD r rm → DenotesRows rs js → DenotesRows (.cons r rs) (.cons (.obj rm) js)
end

/-! ### what the reference reader `readDoc` (Spec/HaysonRead.lean) makes of the same documents

The reference reader represents an EMPTY grid meta / column meta as an absent one (`readerImage`). -/

mutual
/-- the value with every empty grid meta / column meta replaced by an absent one -/
def readerImage : Val → Val
  | .list xs => .list (readerImages xs)
  | .dict d => .dict (readerImageTags d)
  | .grid .none cols rows ver => .grid .none (readerImageCols cols) (readerImageRows rows) ver
  | .grid (.some .nil) cols rows ver => .grid .none (readerImageCols cols) (readerImageRows rows) ver
  | .grid (.some (.cons k v t)) cols rows ver =>
    .grid (.some (.cons k (readerImage v) (readerImageTags t))) (readerImageCols cols) (readerImageRows rows) ver
  | v => v
def readerImages : Vals → Vals
  | .nil => .nil
  | .cons v vs => .cons (readerImage v) (readerImages vs)
def readerImageTags : Tags → Tags
  | .nil => .nil
  | .cons k v t => .cons k (readerImage v) (readerImageTags t)
def readerImageCols : Cols → Cols
  | .nil => .nil
  | .cons n .none c => .cons n .none (readerImageCols c)
  | .cons n (.some .nil) c => .cons n .none (readerImageCols c)
  | .cons n (.some (.cons k v t)) c => .cons n (.some (.cons k (readerImage v) (readerImageTags t))) (readerImageCols c)
def readerImageRows : Rows → Rows
  | .nil => .nil
  | .cons r rs => .cons (readerImageTags r) (readerImageRows rs)
end


end Hs.Spec.Hayson
