import Hs.Thm.C14
#print axioms Hs.C14.inv_step
#print axioms Hs.C14.inv_reachable
#print axioms Hs.C14.cold_inv
#print axioms Hs.C14.cache_inv_reachable
#print axioms Hs.C14.answer_eq_pure
#print axioms Hs.C14.answers_independent
#print axioms Hs.C14.no_partial_value
#print axioms Hs.C14.one_guard
#print axioms Hs.C14.no_hold_and_wait
#print axioms Hs.C14.waiting_holds_nothing
#print axioms Hs.C14.deadlock_free
#print axioms Hs.C14.reflectFull_eq_reflect
#print axioms Hs.C14.C14_holds
