import Hs.Thm.C10
#print axioms Hs.C10.no_unguarded_panic_site
#print axioms Hs.C10.guarded_subs_are_separator_tests
#print axioms Hs.C10.empty_containers_write_nothing
#print axioms Hs.C10.C10_zinc
#print axioms Hs.C10.C10_json
#print axioms Hs.C10.C10_image
