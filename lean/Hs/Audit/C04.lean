import Hs.Thm.C04
#print axioms Hs.C04.reader_escapes_conform
#print axioms Hs.C04.reader_escapes_functional
#print axioms Hs.C04.writer_escapes_conform
#print axioms Hs.C04.writer_reader_inverse
#print axioms Hs.C04.model_realises_reader_table
#print axioms Hs.C04.model_realises_writer_table
#print axioms Hs.C04.control_chars_round_trip
#print axioms Hs.C04.literals_conform
