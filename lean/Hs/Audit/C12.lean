import Hs.Thm.C12
#print axioms Hs.C12.eqv_refl
#print axioms Hs.C12.eqv_symm
#print axioms Hs.C12.eqv_trans
#print axioms Hs.C12.hash_of_eqv
#print axioms Hs.C12.cmp_antisymm
#print axioms Hs.C12.cmp_trans_lt
#print axioms Hs.C12.cmp_trans_gt
#print axioms Hs.C12.cmp_congr_left
#print axioms Hs.C12.cmp_eq_iff_eqv
#print axioms Hs.C12.pcmp_some_eq_cmp
#print axioms Hs.C12.C12_holds
