import Hs.Thm.C03
#print axioms Hs.C03.depth_bound
#print axioms Hs.C03.depth_step_list
#print axioms Hs.C03.too_many_cells
#print axioms Hs.C03.truncated_row
#print axioms Hs.C03.truncated_row2
#print axioms Hs.C03.deep_lists
#print axioms Hs.C03.deep_lists_ok
