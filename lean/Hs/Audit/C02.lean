import Hs.Thm.C02
import Hs.Thm.C05perm
#print axioms Hs.C02.rt_finite_kinds
#print axioms Hs.C02.rt_str
#print axioms Hs.C02.rt_num
#print axioms Hs.C02.rt_num_exact
#print axioms Hs.C02.rt_num_big
#print axioms Hs.C02.rt_ref
#print axioms Hs.C02.rt_uri
#print axioms Hs.C02.rt_symbol
#print axioms Hs.C02.rt_xstr
#print axioms Hs.C02.rt_date
#print axioms Hs.C02.rt_time
#print axioms Hs.C02.rt_dateTime
#print axioms Hs.C02.rt_coord
#print axioms Hs.C02.coord_nonfinite_err
#print axioms Hs.C02.visitMap_tagsJson
#print axioms Hs.C02.rt_val
#print axioms Hs.C02.rt_list
#print axioms Hs.C02.rt_dict
#print axioms Hs.C02.rt_grid
#print axioms Hs.C02.C02_holds
#print axioms Hs.C02.C02_identity
-- C05 (member order): Hs/Thm/C05perm.lean
#print axioms Hs.C05perm.visitMap_perm
#print axioms Hs.C05perm.fromJson_obj_perm
#print axioms Hs.C05perm.hyps_of_perm
#print axioms Hs.C05perm.fromJson_jperm
#print axioms Hs.C05perm.ordOK_val
#print axioms Hs.C05perm.C05_order
