import Hs.Thm.C02
#print axioms Hs.C02.rt_finite_kinds
#print axioms Hs.C02.rt_str
