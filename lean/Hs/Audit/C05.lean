import Hs.Thm.C05
import Hs.Thm.C05perm
#print axioms Hs.C05.find_key_perm
#print axioms Hs.C05.lookup_perm
#print axioms Hs.C05.writer_conforms_scalars
#print axioms Hs.C05.writer_conforms_str
-- member order independence of the library's visitor model (Hs/Thm/C05perm.lean)
#print axioms Hs.C05perm.visitMap_perm
#print axioms Hs.C05perm.fromJson_obj_perm
#print axioms Hs.C05perm.fromJson_jperm
#print axioms Hs.C05perm.ordOK_val
#print axioms Hs.C05perm.C05_order
