import Hs.Thm.C05
import Hs.Thm.C05perm
#print axioms Hs.C05.find_key_perm
#print axioms Hs.C05.lookup_perm
#print axioms Hs.C05.writer_conforms_scalars
#print axioms Hs.C05.writer_conforms_str
-- both directions against the relation `Denotes` (Spec/HaysonDenote.lean): every Hayson document of a value
-- (any member order at any depth, optional members present/absent, either number token class) is decoded to
-- that value; the encoder's document is a Hayson document of the value
#print axioms Hs.C05.C05_read_holds
#print axioms Hs.C05.C05_write_holds
#print axioms Hs.C05.C05_holds
#print axioms Hs.C05.C05_roundtrip
#print axioms Hs.C05.dict_objects_covered
#print axioms Hs.C05.denotes_unique
#print axioms Hs.C05.read_number_spelling
#print axioms Hs.C05.denotes_respell
#print axioms Hs.C05.d_ab_members
#print axioms Hs.C05.d_ab_keys
-- the reference reader (with readDoc's fuel) and the decoder agree on every Hayson document; writer conformance
-- against the reference reader for every well-formed value
#print axioms Hs.C05.C05_reader_agrees
#print axioms Hs.C05.C05_writer_conforms
#print axioms Hs.C05.reader_meta_kind_dict
#print axioms Hs.C05.readDoc_lenient
-- member order independence of the library's visitor model (Hs/Thm/C05perm.lean)
#print axioms Hs.C05perm.visitMap_perm
#print axioms Hs.C05perm.fromJson_obj_perm
#print axioms Hs.C05perm.fromJson_jperm
#print axioms Hs.C05perm.ordOK_val
#print axioms Hs.C05perm.C05_order
