import Hs.Thm.C05
#print axioms Hs.C05.find_key_perm
#print axioms Hs.C05.lookup_perm
#print axioms Hs.C05.writer_conforms_scalars
#print axioms Hs.C05.writer_conforms_str
