import Hs.Thm.C18
#print axioms Hs.C18.no_double_free
#print axioms Hs.C18.no_use_after_free
#print axioms Hs.C18.no_leak
#print axioms Hs.C18.live_is_owned
#print axioms Hs.C18.null_is_error
#print axioms Hs.C18.no_abort
#print axioms Hs.C18.C18_partial_holds
