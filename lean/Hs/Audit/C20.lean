import Hs.Thm.C20
#print axioms Hs.C20.chain_documented
#print axioms Hs.C20.chain_blocks
#print axioms Hs.C20.dis_precedence
#print axioms Hs.C20.dis_default
#print axioms Hs.C20.macro_total
#print axioms Hs.C20.macro_id_without_dollar
#print axioms Hs.C20.match_spec
#print axioms Hs.C20.macro_tag_grammar
#print axioms Hs.C20.tag_macro_matches
#print axioms Hs.C20.brace_macro_matches
#print axioms Hs.C20.key_macro_matches
#print axioms Hs.C20.replace_spec
#print axioms Hs.C20.macro_spec
#print axioms Hs.C20.C20_holds
