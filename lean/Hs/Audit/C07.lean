import Hs.Thm.C07
#print axioms Hs.C07.or_any
#print axioms Hs.C07.and_all
#print axioms Hs.C07.parens_group
#print axioms Hs.C07.and_binds_tighter
#print axioms Hs.C07.has_missing
#print axioms Hs.C07.cmp_holds
#print axioms Hs.C07.wildcard_chain
#print axioms Hs.C07.wildcard_any_hops
#print axioms Hs.C07.wildcard_terminates
#print axioms Hs.C07.term_spec
#print axioms Hs.C07.and_spec
#print axioms Hs.C07.or_spec
#print axioms Hs.C07.grid_filter_all
#print axioms Hs.C07.grid_filter_first
#print axioms Hs.C07.C07_holds
