import Hs.Thm.C15
#print axioms Hs.C15.ids_resolve
#print axioms Hs.C15.entries_are_ids
#print axioms Hs.C15.no_shared_id
#print axioms Hs.C15.getUnit_some
#print axioms Hs.C15.getUnit_none_of_not_id
#print axioms Hs.C15.symbol_mem_ids
#print axioms Hs.C15.symbol_lexable
#print axioms Hs.C15.C15_json
#print axioms Hs.C15.parseUnit_symbol
#print axioms Hs.C15.C15_zinc
#print axioms Hs.C15.C15_zinc_roundtrip
#print axioms Hs.C15.C15_holds
#print axioms Hs.Units.tableOK
#print axioms Hs.Units.table_symbols
#print axioms Hs.Units.table_no_replacement_char
