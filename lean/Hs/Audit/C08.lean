import Hs.Thm.C08
#print axioms Hs.C08.C08_fragment_partial
#print axioms Hs.C08.C08_skeleton_partial
#print axioms Hs.C08.precedence
#print axioms Hs.C08.grouping
#print axioms Hs.C08.path_ends
#print axioms Hs.C08.literal_exact
#print axioms Hs.C08.p1_path_ends
#print axioms Hs.C08.ex_literals
