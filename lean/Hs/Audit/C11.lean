import Hs.Thm.C11
#print axioms Hs.C11.scanner_reads_one_byte_at_a_time
#print axioms Hs.C11.readByte_one
#print axioms Hs.C11.grid_is_collect
#print axioms Hs.C11.rowsLoop_step
