import Hs.Thm.C09
#print axioms Hs.C09.parse_depth_bound
#print axioms Hs.C09.parse_depth_step
#print axioms Hs.C09.wildcard_terminates
#print axioms Hs.C09.relationship_terminates
#print axioms Hs.C09.wildcard_ok
#print axioms Hs.C09.deep_parens
#print axioms Hs.C09.deep_parens_closed
#print axioms Hs.C09.deep_parens_ok
#print axioms Hs.C09.dangling_and
#print axioms Hs.C09.dangling_or
#print axioms Hs.C09.dangling_not
#print axioms Hs.C09.dangling_cmp
#print axioms Hs.C09.unbalanced_open
#print axioms Hs.C09.unbalanced_close
#print axioms Hs.C09.empty_input
