import Hs.Thm.C01
#print axioms Hs.C01.rt_null
#print axioms Hs.C01.rt_marker
#print axioms Hs.C01.rt_remove
#print axioms Hs.C01.rt_na
#print axioms Hs.C01.rt_bool
