import Hs.Thm.C17
#print axioms Hs.C17.list_refines_seq
#print axioms Hs.C17.dict_refines_map
#print axioms Hs.C17.dict_keys_spec
#print axioms Hs.C17.grid_refines_table
#print axioms Hs.C17.ctor_then_getter
#print axioms Hs.C17.codec_passthrough
#print axioms Hs.C17.error_preserves_pool
#print axioms Hs.C17.success_keeps_error
#print axioms Hs.C17.last_error_take
#print axioms Hs.C17.C17_holds
