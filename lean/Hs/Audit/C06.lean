import Hs.Thm.C06
#print axioms Hs.C06.zone_parse_iff
#print axioms Hs.C06.short_name_resolves
#print axioms Hs.C06.short_name_resolves_alias
#print axioms Hs.C06.short_name_lexable
#print axioms Hs.C06.C06_rfc
#print axioms Hs.C06.C06_rfc_accepts
#print axioms Hs.C06.C06_rfc_offset
#print axioms Hs.C06.C06_with_tz
#print axioms Hs.C06.C06_with_tz_instant
#print axioms Hs.C06.C06_zinc_rt
#print axioms Hs.C06.C06_json_rt
#print axioms Hs.C06.C06_capi
#print axioms Hs.C06.C06_holds
#print axioms Hs.C06.sampleDb_ok
#print axioms Hs.C06.sydney_in_domain
