/-
  C11: grids with two columns of the same name, part 3: the mutual induction of C01 (`rdV`, `fromBytes_of_GoodV`) for
  values whose grids may repeat a column name (`GoodVG` = `GoodV` of C01 without the distinctness of the names).
-/
import Hs.Lemmas.ZincImageDup2
import Hs.Lemmas.ZincRtWf
namespace Hs.Zinc
open Hs Hs.Scan

/-- shape of the columns: at least one, identifier names, well-shaped metas (names may repeat) -/
def colsShapeG (cols : Cols) : Bool :=
  (match cols with | .nil => false | _ => true) && colsShapeAux cols

mutual
def GoodVG : Val → Prop
  | .list xs => GoodVsG xs
  | .dict d => keysIdent d = true ∧ keysSorted d.keys = true ∧ GoodTG d
  | .grid md cols rows ver =>
    ver = ['3', '.', '0'] ∧ metaShape md = true ∧ colsShapeG cols = true ∧
      rowsShape cols.names (cols.length == 1) rows = true ∧ GoodOG md ∧ GoodCG cols ∧ GoodRG rows
  | v => TokRt v ∧ FirstOk (enc v true)
def GoodVsG : Vals → Prop
  | .nil => True
  | .cons v vs => GoodVG v ∧ GoodVsG vs
def GoodTG : Tags → Prop
  | .nil => True
  | .cons _ v t => GoodVG v ∧ GoodTG t
def GoodOG : OTags → Prop
  | .none => True
  | .some t => GoodTG t
def GoodCG : Cols → Prop
  | .nil => True
  | .cons _ md c => GoodOG md ∧ GoodCG c
def GoodRG : Rows → Prop
  | .nil => True
  | .cons r rs => GoodTG r ∧ GoodRG rs
end

mutual
theorem rdVG : ∀ v : Val, GoodVG v → RdVal v
  | .list xs, h => RdVal_list (rdVsG xs (by simpa [GoodVG] using h))
  | .dict d, h => by
    simp only [GoodVG] at h
    exact RdVal_dict h.1 h.2.1 (rdTG 44 125 st_dict d h.1 h.2.2)
  | .grid md cols rows ver, h => by
    simp only [GoodVG] at h
    obtain ⟨hver, hms, hcs, hrs, hgo, hgc, hgr⟩ := h
    cases cols with
    | nil => simp [colsShapeG] at hcs
    | cons n cm c =>
      simp only [colsShapeG, Bool.and_eq_true] at hcs
      exact RdVal_gridG md n cm c rows ver
        ⟨hver, rdOGG md hgo hms, rdCG (.cons n cm c) hgc hcs.2,
         rdRG (Cols.names (.cons n cm c)) (Cols.length (.cons n cm c) == 1) rows hgr hrs⟩
  | .null, h => RdVal_of_TokRt (by simp only [GoodVG] at h; exact h.1)
  | .remove, h => RdVal_of_TokRt (by simp only [GoodVG] at h; exact h.1)
  | .marker, h => RdVal_of_TokRt (by simp only [GoodVG] at h; exact h.1)
  | .bool _, h => RdVal_of_TokRt (by simp only [GoodVG] at h; exact h.1)
  | .na, h => RdVal_of_TokRt (by simp only [GoodVG] at h; exact h.1)
  | .num _, h => RdVal_of_TokRt (by simp only [GoodVG] at h; exact h.1)
  | .str _, h => RdVal_of_TokRt (by simp only [GoodVG] at h; exact h.1)
  | .uri _, h => RdVal_of_TokRt (by simp only [GoodVG] at h; exact h.1)
  | .ref _ _, h => RdVal_of_TokRt (by simp only [GoodVG] at h; exact h.1)
  | .sym _, h => RdVal_of_TokRt (by simp only [GoodVG] at h; exact h.1)
  | .date _, h => RdVal_of_TokRt (by simp only [GoodVG] at h; exact h.1)
  | .time _, h => RdVal_of_TokRt (by simp only [GoodVG] at h; exact h.1)
  | .dateTime _, h => RdVal_of_TokRt (by simp only [GoodVG] at h; exact h.1)
  | .coord _ _, h => RdVal_of_TokRt (by simp only [GoodVG] at h; exact h.1)
  | .xstr _ _, h => RdVal_of_TokRt (by simp only [GoodVG] at h; exact h.1)
theorem rdVsG : ∀ xs : Vals, GoodVsG xs → RdVals xs
  | .nil, _ => RdVals_nil
  | .cons v vs, h => by
    simp only [GoodVsG] at h
    exact RdVals_cons (rdVG v h.1) (rdVsG vs h.2)
theorem rdTG (sep term : UInt8) (st : SepTerm sep term) : ∀ t : Tags, keysIdent t = true → GoodTG t → RdTags sep term t
  | .nil, _, _ => RdTags_nil sep term
  | .cons k v t, hk, h => by
    simp only [GoodTG] at h
    exact RdTags_cons st (keysIdent_tail hk) (fun _ => rdVG v h.1) (rdTG sep term st t (keysIdent_tail hk) h.2)
theorem rdTCG (term : UInt8) (st : TermC term) : ∀ t : Tags, keysIdent t = true → GoodTG t → RdTagsC term t
  | .nil, _, _ => RdTagsC_nil term
  | .cons k v t, hk, h => by
    simp only [GoodTG] at h
    exact RdTagsC_cons st (keysIdent_tail hk) (fun _ => rdVG v h.1) (rdTCG term st t (keysIdent_tail hk) h.2)
theorem rdCellG : ∀ t : Tags, GoodTG t → ∀ (n : List Char) (v : Val), t.get? n = some v → RdVal v ∧ GoodVG v
  | .nil, _, n, v, hg => by simp [Tags.get?] at hg
  | .cons k w t, h, n, v, hg => by
    simp only [GoodTG] at h
    by_cases hk : k = n
    · simp only [Tags.get?, hk, if_true, Option.some.injEq] at hg
      subst hg; exact ⟨rdVG w h.1, h.1⟩
    · simp only [Tags.get?, hk, if_false] at hg
      exact rdCellG t h.2 n v hg
theorem rdOGG : ∀ md : OTags, GoodOG md → metaShape md = true → MetaOkG md
  | .none, _, _ => trivial
  | .some t, h, hs => by
    simp only [metaShape, Bool.and_eq_true, Bool.not_eq_eq_eq_not, Bool.not_true] at hs
    simp only [GoodOG] at h
    exact ⟨hs.1.1, hs.1.2, hs.2, rdTG 32 10 st_meta t hs.1.2 h⟩
theorem rdOCG : ∀ md : OTags, GoodOG md → metaShape md = true → MetaOkC md
  | .none, _, _ => trivial
  | .some t, h, hs => by
    simp only [metaShape, Bool.and_eq_true, Bool.not_eq_eq_eq_not, Bool.not_true] at hs
    simp only [GoodOG] at h
    exact ⟨hs.1.1, hs.1.2, hs.2, rdTCG 44 (Or.inl rfl) t hs.1.2 h, rdTCG 10 (Or.inr rfl) t hs.1.2 h⟩
theorem rdCG : ∀ c : Cols, GoodCG c → colsShapeAux c = true → ColsOk c
  | .nil, _, _ => trivial
  | .cons n md c, h, hs => by
    simp only [GoodCG] at h
    obtain ⟨h1, h2, h3⟩ := colsShapeAux_tail hs
    exact ⟨h1, rdOCG md h.1 h2, rdCG c h.2 h3⟩
theorem rdRG (names : List (List Char)) (single : Bool) : ∀ rows : Rows, GoodRG rows → rowsShape names single rows = true →
    RowsOk names single rows
  | .nil, _, _ => trivial
  | .cons r rs, h, hs => by
    simp only [GoodRG] at h
    simp only [rowsShape, Bool.and_eq_true] at hs
    refine ⟨rowOk_of_shape names single r hs.1 (fun n v hv => ?_), rdRG names single rs h.2 hs.2⟩
    obtain ⟨h1, h2⟩ := rdCellG r h.1 n v hv
    exact ⟨h1, firstOk_goodG v h2⟩
theorem firstOk_goodG : ∀ v : Val, GoodVG v → FirstOk (enc v true)
  | .list xs, _ => by rw [enc_list]; exact firstOk_cons _ _ (by decide)
  | .dict d, _ => by rw [enc_dict]; exact firstOk_cons _ _ (by decide)
  | .grid md cols rows ver, h => by
    simp only [GoodVG] at h
    cases cols with
    | nil => simp [colsShapeG] at h
    | cons n cm c =>
      have := enc_grid_nested md n cm c rows ver []
      simp only [List.append_nil] at this
      rw [this]; exact firstOk_cons _ _ (by decide)
  | .null, h => by simp only [GoodVG] at h; exact h.2
  | .remove, h => by simp only [GoodVG] at h; exact h.2
  | .marker, h => by simp only [GoodVG] at h; exact h.2
  | .bool _, h => by simp only [GoodVG] at h; exact h.2
  | .na, h => by simp only [GoodVG] at h; exact h.2
  | .num _, h => by simp only [GoodVG] at h; exact h.2
  | .str _, h => by simp only [GoodVG] at h; exact h.2
  | .uri _, h => by simp only [GoodVG] at h; exact h.2
  | .ref _ _, h => by simp only [GoodVG] at h; exact h.2
  | .sym _, h => by simp only [GoodVG] at h; exact h.2
  | .date _, h => by simp only [GoodVG] at h; exact h.2
  | .time _, h => by simp only [GoodVG] at h; exact h.2
  | .dateTime _, h => by simp only [GoodVG] at h; exact h.2
  | .coord _ _, h => by simp only [GoodVG] at h; exact h.2
  | .xstr _ _, h => by simp only [GoodVG] at h; exact h.2
end

/-- **the round trip for every well-behaved value** -/
theorem fromBytes_of_GoodVG : ∀ (v : Val), GoodVG v → nestV v < 64 → fromBytes (encode v) = .ok (lexImg v)
  | .grid md cols rows ver, h, hn => by
    have hrd := h
    simp only [GoodVG] at h
    obtain ⟨hver, hms, hcs, hrs, hgo, hgc, hgr⟩ := h
    cases cols with
    | nil => simp [colsShapeG] at hcs
    | cons n cm c =>
      simp only [colsShapeG, Bool.and_eq_true] at hcs
      exact fromBytes_gridG md n cm c rows ver
        ⟨hver, rdOGG md hgo hms, rdCG (.cons n cm c) hgc hcs.2,
         rdRG (Cols.names (.cons n cm c)) (Cols.length (.cons n cm c) == 1) rows hgr hrs⟩ hn
  | .list xs, h, hn => fromBytes_of_RdVal (rdVG _ h) (by rw [enc, enc]) hn
  | .dict d, h, hn => fromBytes_of_RdVal (rdVG _ h) (by rw [enc, enc]) hn
  | .null, h, hn => fromBytes_of_RdVal (rdVG _ h) (by simp [enc]) hn
  | .remove, h, hn => fromBytes_of_RdVal (rdVG _ h) (by simp [enc]) hn
  | .marker, h, hn => fromBytes_of_RdVal (rdVG _ h) (by simp [enc]) hn
  | .bool _, h, hn => fromBytes_of_RdVal (rdVG _ h) (by simp [enc]) hn
  | .na, h, hn => fromBytes_of_RdVal (rdVG _ h) (by simp [enc]) hn
  | .num _, h, hn => fromBytes_of_RdVal (rdVG _ h) (by simp [enc]) hn
  | .str _, h, hn => fromBytes_of_RdVal (rdVG _ h) (by simp [enc]) hn
  | .uri _, h, hn => fromBytes_of_RdVal (rdVG _ h) (by simp [enc]) hn
  | .ref _ _, h, hn => fromBytes_of_RdVal (rdVG _ h) (by simp [enc]) hn
  | .sym _, h, hn => fromBytes_of_RdVal (rdVG _ h) (by simp [enc]) hn
  | .date _, h, hn => fromBytes_of_RdVal (rdVG _ h) (by simp [enc]) hn
  | .time _, h, hn => fromBytes_of_RdVal (rdVG _ h) (by simp [enc]) hn
  | .dateTime _, h, hn => fromBytes_of_RdVal (rdVG _ h) (by simp [enc]) hn
  | .coord _ _, h, hn => fromBytes_of_RdVal (rdVG _ h) (by simp [enc]) hn
  | .xstr _ _, h, hn => fromBytes_of_RdVal (rdVG _ h) (by simp [enc]) hn

end Hs.Zinc
