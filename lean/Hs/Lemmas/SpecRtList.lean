/-
  C04 (write direction), rung 5b: lists through `listItems`.
-/
import Hs.Lemmas.SpecRtVal
namespace Hs.Spec
open Hs Hs.Zinc Hs.Scan

def RdVs : Vals → Prop
  | .nil => True
  | .cons v vs => Rd v ∧ RdVs vs

theorem encVals_one (v : Val) : encVals (.cons v .nil) = enc v true := by simp [encVals]
theorem encVals_cons2 (v w : Val) (ws : Vals) :
    encVals (.cons v (.cons w ws)) = enc v true ++ 44 :: encVals (.cons w ws) := by
  simp [encVals]

theorem encVals_start : ∀ (v : Val) (vs : Vals), Rd v → Start (encVals (.cons v vs))
  | v, .nil, h => by rw [encVals_one]; exact h.1
  | v, .cons w ws, h => by
    rw [encVals_cons2]
    obtain ⟨b, r, e, hb⟩ := h.1
    exact ⟨b, r ++ 44 :: encVals (.cons w ws), by rw [e]; simp, hb⟩

theorem listItems_nil (f : Nat) (rest : List UInt8) (acc : List Val) :
    listItems (f + 1) (93 :: rest) acc = some (.list (Vals.ofList acc), rest) := by
  rw [listItems.eq_def]; simp

/-- one element followed by `]` -/
theorem listItems_last (f : Nat) (i : List UInt8) (acc : List Val) (v : Val) (rest : List UInt8)
    (hstart : Start i) (hv : value f i = some (v, 93 :: rest)) :
    listItems (f + 1) i acc = some (.list (Vals.ofList (acc ++ [v])), rest) := by
  obtain ⟨b, r, rfl, hb⟩ := hstart
  have h93 := (start_class hb).2.2.2.2.2.1
  rw [listItems.eq_def]
  simp [h93, hv, skipWs_cons]

/-- one element followed by `,` -/
theorem listItems_more (f : Nat) (i : List UInt8) (acc : List Val) (v : Val) (r2 : List UInt8)
    (hstart : Start i) (hv : value f i = some (v, 44 :: r2)) :
    listItems (f + 1) i acc = listItems f (skipWs r2) (acc ++ [v]) := by
  obtain ⟨b, r, rfl, hb⟩ := hstart
  have h93 := (start_class hb).2.2.2.2.2.1
  rw [listItems.eq_def]
  simp [h93, hv, skipWs_cons]

theorem specImgs_toList_cons (v : Val) (vs : Vals) : (specImgs (.cons v vs)).toList = specImg v :: (specImgs vs).toList := by
  simp [specImgs, Vals.toList]

theorem listItems_rt : ∀ (v : Val) (vs : Vals), RdVs (.cons v vs) →
    ∀ (fuel : Nat) (rest : List UInt8) (acc : List Val), (encVals (.cons v vs)).length + 3 ≤ fuel →
    listItems fuel (encVals (.cons v vs) ++ 93 :: rest) acc =
      some (.list (Vals.ofList (acc ++ (specImgs (.cons v vs)).toList)), rest)
  | v, .nil, h, fuel, rest, acc, hf => by
    obtain ⟨f, rfl⟩ : ∃ f, fuel = f + 1 := ⟨fuel - 1, by omega⟩
    rw [encVals_one] at hf ⊢
    have hv := h.1.2 f (93 :: rest) (Or.inr (Or.inl ⟨93, rest, rfl, by simp⟩)) (by omega)
    have hst : Start (enc v true ++ 93 :: rest) := by
      obtain ⟨b, r, e, hb⟩ := h.1.1
      exact ⟨b, r ++ 93 :: rest, by rw [e]; simp, hb⟩
    rw [listItems_last f _ acc _ rest hst hv]
    simp [specImgs, Vals.toList]
  | v, .cons w ws, h, fuel, rest, acc, hf => by
    obtain ⟨f, rfl⟩ : ∃ f, fuel = f + 1 := ⟨fuel - 1, by omega⟩
    rw [encVals_cons2] at hf ⊢
    simp only [List.length_append, List.length_cons] at hf
    have hv := h.1.2 f (44 :: (encVals (.cons w ws) ++ 93 :: rest)) (Or.inr (Or.inl ⟨44, _, rfl, by simp⟩)) (by omega)
    have hst : Start (enc v true ++ 44 :: (encVals (.cons w ws) ++ 93 :: rest)) := by
      obtain ⟨b, r, e, hb⟩ := h.1.1
      exact ⟨b, r ++ 44 :: (encVals (.cons w ws) ++ 93 :: rest), by rw [e]; simp, hb⟩
    simp only [List.append_assoc, List.cons_append]
    rw [listItems_more f _ acc _ _ hst hv, (encVals_start w ws h.2.1).noWs,
      listItems_rt w ws h.2 f rest _ (by omega), specImgs_toList_cons v]
    simp

/-- **list**: a list frames when its elements do -/
theorem Rd_list (xs : Vals) (h : RdVs xs) : Rd (.list xs) := by
  have he : enc (.list xs) true = 91 :: (encVals xs ++ [93]) := by rw [enc]; simp
  refine ⟨⟨91, _, he, by decide⟩, ?_⟩
  intro fuel rest _ hf
  rw [he] at hf ⊢
  simp only [List.length_cons, List.length_append, List.length_nil] at hf
  obtain ⟨f, rfl⟩ : ∃ f, fuel = f + 1 := ⟨fuel - 1, by omega⟩
  simp only [List.cons_append, List.append_assoc, List.nil_append]
  rw [value.eq_def]
  simp only [beq_self_eq_true, if_true]
  cases xs with
  | nil =>
    obtain ⟨g, rfl⟩ : ∃ g, f = g + 1 := ⟨f - 1, by omega⟩
    simp only [encVals, List.nil_append]
    rw [skipWs_cons (by decide) (by decide), listItems_nil]
    simp [specImg, specImgs, Vals.ofList]
  | cons v vs =>
    rw [(encVals_start v vs h.1).noWs, listItems_rt v vs h f rest [] (by omega)]
    simp [specImg, Vals.ofList_toList]

end Hs.Spec
