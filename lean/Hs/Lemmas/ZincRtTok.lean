/-
  C01 ladder: `TokRt` for the scalar kinds — literals, Str, Uri, Ref, Symbol, XStr, NaN and INF.
-/
import Hs.Lemmas.ZincRtVal
namespace Hs.Zinc
open Hs Hs.Scan

theorem tok_kw (v : Val) (hsc : Scalar v = true) (cs : List Char) (hcs : isUpperName cs = true)
    (henc : enc v true = encChars cs) (hk : keyword cs = some (lexImg v)) : TokRt v := by
  refine ⟨hsc, ?_⟩
  intro s rest fuel hat hs hd hf
  rw [henc] at hat hf
  have := encChars_length_ge cs
  obtain ⟨s', e, h', hs'⟩ := lexRead_kw cs hcs (lexImg v) hk s rest fuel hat hs hd (by omega)
  exact ⟨s', e, Post.of_clean h' hs'⟩

theorem tok_null : TokRt .null := tok_kw .null rfl ['N'] (by decide) (by decide) (by simp [keyword, lexImg])
theorem tok_remove : TokRt .remove := tok_kw .remove rfl ['R'] (by decide) (by decide) (by simp [keyword, lexImg])
theorem tok_marker : TokRt .marker := tok_kw .marker rfl ['M'] (by decide) (by decide) (by simp [keyword, lexImg])
theorem tok_na : TokRt .na := tok_kw .na rfl ['N', 'A'] (by decide) (by decide) (by simp [keyword, lexImg])
theorem tok_bool (b : Bool) : TokRt (.bool b) := by
  cases b
  · exact tok_kw (.bool false) rfl ['F'] (by decide) (by decide) (by simp [keyword, lexImg])
  · exact tok_kw (.bool true) rfl ['T'] (by decide) (by decide) (by simp [keyword, lexImg])

theorem tok_str (cs : List Char) : TokRt (.str cs) := by
  refine ⟨rfl, ?_⟩
  intro s rest fuel hat hs hd hf
  have he : enc (.str cs) true = encQuoted cs := by rw [enc]
  rw [he] at hat hf
  obtain ⟨s', e, h', hs'⟩ := lexRead_str cs s rest fuel hat hs (by omega)
  exact ⟨s', by simpa [lexImg] using e, Post.of_clean h' hs'⟩

theorem tok_uri (cs : List Char) : TokRt (.uri cs) := by
  refine ⟨rfl, ?_⟩
  intro s rest fuel hat hs hd hf
  have he : enc (.uri cs) true = encUri cs := by rw [enc]
  rw [he] at hat hf
  obtain ⟨s', e, h', hs'⟩ := lexRead_uri cs s rest fuel hat hs (by omega)
  exact ⟨s', by simpa [lexImg] using e, Post.of_clean h' hs'⟩

/-- Ref id: non-empty, over the id alphabet (ASCII letters, digits, `~ : - . _`) -/
def isRefId (id : List Char) : Bool := !id.isEmpty && AllB isRefB id

theorem tok_ref (id : List Char) (dis : Option (List Char)) (hid : isRefId id = true) : TokRt (.ref id dis) := by
  simp only [isRefId, Bool.and_eq_true, Bool.not_eq_eq_eq_not, Bool.not_true, List.isEmpty_eq_false_iff] at hid
  refine ⟨rfl, ?_⟩
  intro s rest fuel hat hs hd hf
  have hl := encChars_length_ge id
  cases dis with
  | none =>
    have he : enc (.ref id none) true = 64 :: encChars id := by rw [enc]; simp
    rw [he] at hat hf
    simp only [List.length_cons] at hf
    obtain ⟨s', e, hp⟩ := lexRead_ref_nodis id hid.2 hid.1 s rest fuel hat hs hd (by omega)
    exact ⟨s', by simpa [lexImg] using e, hp⟩
  | some d =>
    have he : enc (.ref id (some d)) true = 64 :: encChars id ++ 32 :: encQuoted d := by rw [enc]; simp
    rw [he] at hat hf
    simp only [List.length_cons, List.length_append] at hf
    obtain ⟨s', e, h', hs'⟩ := lexRead_ref_dis id hid.2 hid.1 d s rest fuel
      (by simpa using hat) hs (by omega)
    exact ⟨s', by simpa [lexImg] using e, Post.of_clean h' hs'⟩

theorem tok_sym (cs : List Char) (hcs : isSymBody cs = true) : TokRt (.sym cs) := by
  refine ⟨rfl, ?_⟩
  intro s rest fuel hat hs hd hf
  have hl := encChars_length_ge cs
  have he : enc (.sym cs) true = 94 :: encChars cs := by rw [enc]; simp
  rw [he] at hat hf
  simp only [List.length_cons] at hf
  obtain ⟨s', e, h', hs'⟩ := lexRead_sym cs hcs s rest fuel hat hs hd (by omega)
  exact ⟨s', by simpa [lexImg] using e, Post.of_clean h' hs'⟩

/-- XStr type: a capitalised ASCII name other than the reserved `C` (Coord) -/
def isXStrType (ty : List Char) : Bool := isUpperName ty && ty != ['C']

theorem tok_xstr (ty v : List Char) (hty : isXStrType ty = true) : TokRt (.xstr ty v) := by
  simp only [isXStrType, Bool.and_eq_true, bne_iff_ne, ne_eq] at hty
  refine ⟨rfl, ?_⟩
  intro s rest fuel hat hs hd hf
  have hl := encChars_length_ge ty
  have he : enc (.xstr ty v) true = encChars ty ++ 40 :: encQuoted v ++ [41] := by
    rw [enc, upperFirst_of_upper hty.1]; simp
  rw [he] at hat hf
  simp only [List.length_cons, List.length_append, List.length_nil] at hf
  obtain ⟨s', e, h', hs'⟩ := lexRead_xstr ty hty.1 hty.2 v s rest fuel (by simpa using hat) hs (by omega)
  exact ⟨s', by simpa [lexImg] using e, Post.of_clean h' hs'⟩

/-- NaN and +INF print as keywords -/
theorem tok_nan (n : Num) (h : Flt.isNaNBits n.v.bits = true) : TokRt (.num n) :=
  tok_kw (.num n) rfl ['N', 'a', 'N'] (by decide) (by rw [enc]; simp [encNum, h]; decide)
    (by simp [lexImg, lexNumI, h, keyword])

theorem tok_posinf (n : Num) (h1 : Flt.isNaNBits n.v.bits = false) (h2 : Flt.isInfBits n.v.bits = true)
    (h3 : Flt.signBit n.v.bits = false) : TokRt (.num n) :=
  tok_kw (.num n) rfl ['I', 'N', 'F'] (by decide) (by rw [enc]; simp [encNum, h1, h2, h3]; decide)
    (by simp [lexImg, lexNumI, h1, h2, h3, keyword])

end Hs.Zinc
