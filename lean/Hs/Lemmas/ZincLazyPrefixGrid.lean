/-
  C11 (lazy rows), part 9: rows of a still-arriving top-level grid, assembled: header, the rows in front of a row
  line, the first token of that line, then ANY continuation; byte counts for the first calls of the iterator.
-/
import Hs.Lemmas.ZincLazyPrefix
namespace Hs.Zinc
open Hs Hs.Scan

/-- the first `k` calls of the iterator (fewer if it reports the end): rows handed out, with the number of bytes
pulled from the reader (out of `total`) at the moment each is handed out -/
def pullsN (F depth : Nat) (names : List (List Char)) (total : Nat) : Nat → RowState → Res (List (Tags × Nat))
  | 0, _ => .ok []
  | k + 1, st =>
    match rowNext F depth st names with
    | .ok (Option.none, _) => .ok []
    | .ok (some row, st') =>
      match pullsN F depth names total k st' with
      | .ok l => .ok ((row, total - st'.p.sc.inp.length) :: l)
      | .err => .err | .panic => .panic | .diverge => .diverge | .depth => .depth
    | .err => .err | .panic => .panic | .diverge => .diverge | .depth => .depth

theorem pullsN_of_handsP (F depth : Nat) (names : List (List Char)) (total : Nat) :
    ∀ (l : List (Tags × List UInt8)) (st : RowState), HandsP F depth names st l →
      pullsN F depth names total l.length st = .ok (l.map (fun x => (x.1, total - (x.2.length - 1))))
  | [], st, _ => by simp [pullsN]
  | (row, text) :: more, st, h => by
    obtain ⟨st', e, hat, hs, hmore⟩ := h
    have ih := pullsN_of_handsP F depth names total more st' hmore
    simp [pullsN, e, ih, hat.inp_length hs]

/-- ends of the first tokens of the lines after each row of `rows`, when the line after the last of them is the
line of `rn` -/
def tokEndsP (names : List (List Char)) (single : Bool) (rn : Tags) : Nat → Rows → List Nat
  | _, .nil => []
  | off, .cons r rs =>
    (match rs with
     | .nil => off + (rowBytes r names single).length + 1 + rowFirstLen rn names
     | .cons r2 _ => off + (rowBytes r names single).length + 1 + rowFirstLen r2 names)
      :: tokEndsP names single rn (off + (rowBytes r names single).length + 1) rs

theorem tokEndsP_length (names : List (List Char)) (single : Bool) (rn : Tags) : ∀ (rows : Rows) (off : Nat),
    (tokEndsP names single rn off rows).length = (lexImgR rows).toList.length
  | .nil, _ => rfl
  | .cons r rs, off => by simp [tokEndsP, lexImgR, Rows.toList, tokEndsP_length names single rn rs]

theorem rowTraceP_length (names : List (List Char)) (single : Bool) (rn : Tags) (X : List UInt8) : ∀ rows : Rows,
    (rowTraceP names single rn X rows).length = rows.length
  | .nil => rfl
  | .cons r rs => by simp [rowTraceP, Rows.length, rowTraceP_length names single rn X rs]

theorem rowTraceP_counts (names : List (List Char)) (single : Bool) (rn : Tags) (X : List UInt8)
    (hk : (rowFirstBytes rn names single).length = rowFirstLen rn names) :
    ∀ (rows : Rows) (off total : Nat),
    total = off + (encRows rows names single).length + rowFirstLen rn names + X.length →
    (rowTraceP names single rn X rows).map (fun x => (x.1, total - (x.2.length - 1))) =
      List.zip (lexImgR rows).toList ((tokEndsP names single rn off rows).map (fun e => min (e + 1) total))
  | .nil, _, _, _ => rfl
  | .cons r rs, off, total, ht => by
    rw [encRows_length_cons] at ht
    have ih := rowTraceP_counts names single rn X hk rs (off + (rowBytes r names single).length + 1) total (by omega)
    simp only [rowTraceP, List.map_cons, tokEndsP, lexImgR, Rows.toList, List.zip_cons_cons, ih]
    congr 1
    cases rs with
    | nil =>
      simp only [encRows, List.length_nil] at ht ⊢
      congr 1; omega
    | cons r2 rs2 =>
      rw [encRows_length_cons] at ht
      simp only [List.length_drop, List.length_append, List.length_cons, hk]
      congr 1; omega

/-- header, rows `rowsP`, the first token of the line of `rn`, then ANY continuation `X` -/
theorem lazy_prefix (md : OTags) (n : List Char) (cm : OTags) (c : Cols)
    (hmeta : MetaOkG md) (hcols : ColsOk (.cons n cm c)) (hnd : (Cols.names (.cons n cm c)).Nodup)
    (rowsP : Rows) (rn : Tags) (X : List UInt8)
    (hrows : RowsOk (Cols.names (.cons n cm c)) (Cols.length (.cons n cm c) == 1) rowsP) (hgr : GoodR rowsP)
    (hrn : RowOk rn (Cols.names (.cons n cm c)) (Cols.length (.cons n cm c) == 1)) (hgn : GoodT rn)
    (hX : FirstEnds rn (Cols.names (.cons n cm c)) X) (D F : Nat)
    (hd : D + nestO md ≤ 64 ∧ D + nestC (.cons n cm c) ≤ 64 ∧ D + nestR rowsP ≤ 64)
    (hF : 4 * ((headerBytes md (.cons n cm c)).length
      + (encRows rowsP (Cols.names (.cons n cm c)) (Cols.length (.cons n cm c) == 1)).length
      + rowFirstLen rn (Cols.names (.cons n cm c))) + 44 ≤ F) :
    ∃ p0 r0,
      lexRead F (Scan.make (headerBytes md (.cons n cm c) ++
        (encRows rowsP (Cols.names (.cons n cm c)) (Cols.length (.cons n cm c) == 1) ++
          (rowFirstBytes rn (Cols.names (.cons n cm c)) (Cols.length (.cons n cm c) == 1) ++ X)))) = .ok p0 ∧
      gridHeader F D p0 = .ok ((lexImgO md, (lexImgC (.cons n cm c)).toList, ['3', '.', '0']), r0) ∧
      HandsP F D (Cols.names (.cons n cm c)) r0
        (rowTraceP (Cols.names (.cons n cm c)) (Cols.length (.cons n cm c) == 1) rn X rowsP) ∧
      (rowFirstBytes rn (Cols.names (.cons n cm c)) (Cols.length (.cons n cm c) == 1)).length
        = rowFirstLen rn (Cols.names (.cons n cm c)) := by
  have hlenH := headerBytes_length md n cm c
  rw [hlenH] at hF
  have hne : Cols.names (.cons n cm c) ≠ [] := by simp [Cols.names]
  generalize hT : headerBytes md (.cons n cm c) ++
        (encRows rowsP (Cols.names (.cons n cm c)) (Cols.length (.cons n cm c) == 1) ++
          (rowFirstBytes rn (Cols.names (.cons n cm c)) (Cols.length (.cons n cm c) == 1) ++ X)) = T
  have hat : At (Scan.make T) T := At_make_all' _
  have hs : (Scan.make T).stash = [] := by
    rw [← hT]; simp [headerBytes, verBytes, Scan.make]
  generalize Scan.make T = s at hat hs ⊢
  rw [← hT] at hat
  simp only [headerBytes, verBytes, List.cons_append, List.nil_append, List.append_assoc] at hat
  obtain ⟨g, rfl⟩ : ∃ g, F = g + 1 := ⟨F - 1, by omega⟩
  obtain ⟨e0, h0⟩ := lexRead_id ['v', 'e', 'r'] isIdent_ver s _ (g + 1)
    (by rw [encChars_ver]; exact hat) (Stop_cons (by decide)) (by simp; omega)
  simp only [List.length_cons, List.length_nil] at e0 h0
  obtain ⟨sQ, p3, p4, p5, mkvs, e1, e2, e3, e4, ht4, hmd, e5, ht5, h5, hs5⟩ := header_chain md hmeta n cm c hcols
    D g (advN 3 s) _ h0 (advN_stash_nil _ _ hs) (by omega) ⟨hd.1, hd.2.1⟩
  have i4 : PS.isChar p4 10 = true := by unfold PS.isChar; rw [ht4]; rfl
  have i5 : PS.isChar p5 10 = true := by unfold PS.isChar; rw [ht5]; rfl
  have c0 : PS.isChar { sc := advN 3 s, tok := .id ['v', 'e', 'r'] } 60 = false := rfl
  have c4 : ∀ sc : Scan, PS.isChar { sc := sc, tok := .ch 58 } 58 = true := fun _ => rfl
  have hgoodcell : ∀ n' v, rn.get? n' = some v → GoodV v := fun n' v hv => (rdCell rn hgn n' v hv).2
  have hpres : (Cols.length (.cons n cm c) == 1) = true → ∀ n' ∈ Cols.names (.cons n cm c), rn.get? n' ≠ none :=
    fun h n' hn => (hrn.cells n' hn).2 h
  have hrows' : ∃ p6, lexRead g p5.sc = .ok p6 ∧
      HandsP (g + 1) D (Cols.names (.cons n cm c)) { p := p6, nestedStart := false, nestedEnd := false }
        (rowTraceP (Cols.names (.cons n cm c)) (Cols.length (.cons n cm c) == 1) rn X rowsP) ∧
      (rowFirstBytes rn (Cols.names (.cons n cm c)) (Cols.length (.cons n cm c) == 1)).length
        = rowFirstLen rn (Cols.names (.cons n cm c)) := by
    cases rowsP with
    | cons r rs =>
      obtain ⟨p6, e6, hh⟩ := handsP_rows (Cols.names (.cons n cm c)) (Cols.length (.cons n cm c) == 1) hne
        (cols_single n cm c) hnd D (g + 1) rn X hrn hgn hX r rs hrows hgr hd.2.2 (by omega) g p5.sc h5 hs5 (by omega)
      -- the length fact does not depend on the scanner: instantiate `rowFirst_gen` on a concrete one
      have hmk := At_make_all' (rowFirstBytes rn (Cols.names (.cons n cm c)) (Cols.length (.cons n cm c) == 1) ++ X)
      have hmks : (Scan.make (rowFirstBytes rn (Cols.names (.cons n cm c)) (Cols.length (.cons n cm c) == 1) ++ X)).stash
          = [] := by
        cases hx : rowFirstBytes rn (Cols.names (.cons n cm c)) (Cols.length (.cons n cm c) == 1) ++ X <;> simp [Scan.make]
      obtain ⟨_, _, _, _, _, _, hk⟩ := rowFirst_gen rn _ _ X hne (cols_single n cm c) hgoodcell hpres hX
        _ (rowFirstLen rn (Cols.names (.cons n cm c)) + 3) hmk hmks (Nat.le_refl _)
      exact ⟨p6, e6, hh, hk⟩
    | nil =>
      simp only [encRows, List.nil_append] at h5
      obtain ⟨q, eq, _, _, _, _, hk⟩ := rowFirst_gen rn _ _ X hne (cols_single n cm c) hgoodcell hpres hX
        p5.sc g h5 hs5 (by omega)
      exact ⟨q, eq, trivial, hk⟩
  obtain ⟨p6, e6, hh, hk⟩ := hrows'
  refine ⟨_, { p := p6, nestedStart := false, nestedEnd := false }, e0, ?_, hh, hk⟩
  rw [gridHeader]
  simp only [c0, Bool.false_eq_true, if_false, PS.read]
  simp only [e1, e2, e3, e4, i4, e5, i5, e6, hmd, c4]
  simp

end Hs.Zinc
