/-
  C04 read direction, grids part 1: one row line through `rowLoop` — cells in column order, a missing cell is
  empty, cells separated by `,` and blanks, the line ended by LF or CRLF.
-/
import Hs.Lemmas.ZincSpellDict
import Hs.Lemmas.ZincRtRows
namespace Hs.Zinc
open Hs Hs.Scan Hs.Spell

theorem FirstW.ok {bs : List UInt8} (h : FirstW bs) : FirstOk bs := h

/-- blanks and a line ending may follow a value -/
theorem DelimW_nl {w nl : List UInt8} (hw : Blanks w) (hn : Nl nl) (rest : List UInt8) : DelimW (w ++ (nl ++ rest)) := by
  obtain ⟨b, r, e, hb⟩ := nl_head hn rest
  rw [e]; exact DelimW_blanks_end hw (by rcases hb with rfl | rfl <;> decide) r

theorem Post.stash_nil_nl {s : Scan} {w nl rest : List UInt8} (hn : Nl nl) (h : Post s (w ++ (nl ++ rest))) :
    w = [] → s.stash = [] := by
  obtain ⟨b, r, e, hb⟩ := nl_head hn rest
  rw [e] at h
  exact h.stash_nil_of (by rcases hb with rfl | rfl <;> decide)

/-! ### the spelled cells of a row -/

/-- the spelled cells agree with the row: a present cell is a framed spelling of its value, a missing cell
is empty -/
def CellsW (r : Tags) (cells : List (List Char × List UInt8)) : Prop :=
  ∀ n, (∀ v, r.get? n = some v → SpOk v (cellText cells n)) ∧ (r.get? n = none → cellText cells n = [])

theorem CellsW_nil : CellsW .nil [] := by
  intro n
  exact ⟨fun v h => by simp [Tags.get?] at h, fun _ => rfl⟩

theorem CellsW_cons {k : List Char} {v : Val} {t : Tags} {bs : List UInt8} {cells : List (List Char × List UInt8)}
    (hv : SpOk v bs) (ht : CellsW t cells) : CellsW (.cons k v t) ((k, bs) :: cells) := by
  intro n
  by_cases hk : k = n
  · subst hk
    constructor
    · intro v' h
      simp only [Tags.get?, if_true, Option.some.injEq] at h
      subst h
      simpa [cellText] using hv
    · intro h; simp [Tags.get?] at h
  · have hk' : (k == n) = false := by simpa using hk
    constructor
    · intro v' h
      simp only [Tags.get?, hk, if_false] at h
      have := (ht n).1 v' h
      simpa [cellText, List.find?_cons, hk'] using this
    · intro h
      simp only [Tags.get?, hk, if_false] at h
      have := (ht n).2 h
      simpa [cellText, List.find?_cons, hk'] using this

/-! ### the cell loop -/

theorem rowLoopW (r : Tags) (cells : List (List Char × List UInt8)) (names : List (List Char)) (single : Bool)
    (hC : CellsW r cells) (hpres : single = true → ∀ n ∈ names, r.get? n ≠ none) (ns : List (List Char))
    (line : List UInt8) (hl : RowLine cells ns line) :
    ∀ (c : Nat), names.drop c = ns →
    ∀ (depth f1 f2 : Nat) (sc : Scan) (acc : List (List Char × Val)) (rest nl w ws : List UInt8), Nl nl → Blanks w →
    NoLF nl rest → Blanks ws →
    depth + nestT r ≤ 64 → At sc (ws ++ (line ++ (w ++ (nl ++ rest)))) → sc.stash.length ≤ 1 → (ws = [] → sc.stash = []) →
    4 * line.length + ws.length + w.length + 14 ≤ f1 → 4 * line.length + ws.length + w.length + 14 ≤ f2 →
    ∃ p p', lexRead f1 sc = .ok p ∧ rowLoop f2 depth p names c acc = .ok (acc ++ cellsOf r ns, p') ∧
      p'.tok = .ch 10 ∧ At p'.sc rest ∧ p'.sc.stash = [] ∧
      ((2 ≤ ns.length ∨ single = true) → p.sc.eof = false ∧ PS.isChar p 10 = false ∧ PS.isChar p 62 = false) := by
  induction hl with
  | one n =>
    intro c hdrop depth f1 f2 sc acc rest nl w ws hn hw hcr hws hdepth hat hs hs0 hf1 hf2
    have hname : names[c]? = some n := by
      have := congrArg List.head? hdrop
      simpa [List.head?_drop] using this
    have hmem : n ∈ names := List.mem_of_getElem? hname
    obtain ⟨g2, rfl⟩ : ∃ g, f2 = g + 2 := ⟨f2 - 2, by omega⟩
    cases hget : r.get? n with
    | none =>
      have hempty := (hC n).2 hget
      rw [hempty] at hat hf1 hf2
      simp only [List.nil_append, List.length_nil] at hat hf1 hf2
      have hsf : single = false := by
        cases single with
        | false => rfl
        | true => exact absurd hget (hpres rfl n hmem)
      obtain ⟨s', e, h', hs'⟩ := lexRead_nlW (ws ++ w) (Blanks.append hws hw) nl hn sc rest (by simpa using hat) hcr hs
        (by intro e; exact hs0 (List.append_eq_nil_iff.mp e).1) f1 (by simp; omega)
      refine ⟨{ sc := s', tok := .ch 10 }, { sc := s', tok := .ch 10 }, e, ?_, rfl, h', hs', ?_⟩
      · rw [rowLoop]
        simp [isChar_ch, cellsOf, hget]
      · intro h; rcases h with h | h
        · simp at h
        · rw [hsf] at h; cases h
    | some v =>
      have hv := (hC n).1 v hget
      have hnest : depth + nestV v < 64 := by have := nest_get? r n v hget; omega
      obtain ⟨p, p1, e1, hne1, hst, e2, hp1⟩ := hv.rd.skip hv.first ws hws depth f1 (g2 + 1) sc (w ++ (nl ++ rest)) hat hs hs0
        (DelimW_nl hw hn rest) (by omega) (by omega) hnest
      obtain ⟨s2, e3, h2, hs2⟩ := lexRead_nlW w hw nl hn p1.sc rest hp1.1 hcr hp1.stash_le (hp1.stash_nil_nl hn) (g2 + 1)
        (by omega)
      have hne : w ++ (nl ++ rest) ≠ [] := by obtain ⟨b, r', e, _⟩ := nl_head hn rest; rw [e]; simp
      refine ⟨p, { sc := s2, tok := .ch 10 }, e1, ?_, rfl, h2, hs2,
        fun _ => ⟨hne1 hne, hst.isChar 10 (by decide), hst.isChar 62 (by decide)⟩⟩
      rw [rowLoop]
      simp only [hst.isChar 44 (by decide), hst.isChar 10 (by decide), hst.tokNone, Bool.false_eq_true, if_false,
        e2, hname, PS.read, e3]
      rw [rowLoop]
      simp [isChar_ch, cellsOf, hget]
  | cons n n2 ns' w0 restl hw0 hl' ih =>
    intro c hdrop depth f1 f2 sc acc rest nl w ws hn hw hcr hws hdepth hat hs hs0 hf1 hf2
    have hname : names[c]? = some n := by
      have := congrArg List.head? hdrop
      simpa [List.head?_drop] using this
    have hmem : n ∈ names := List.mem_of_getElem? hname
    have hdrop' : names.drop (c + 1) = n2 :: ns' := by
      have := congrArg List.tail hdrop
      simpa [List.tail_drop] using this
    simp only [List.length_append, List.length_cons] at hf1 hf2
    obtain ⟨g2, rfl⟩ : ∃ g, f2 = g + 3 := ⟨f2 - 3, by omega⟩
    cases hget : r.get? n with
    | none =>
      have hempty := (hC n).2 hget
      rw [hempty] at hat hf1 hf2
      simp only [List.nil_append, List.length_nil] at hat hf1 hf2
      have hat' : At sc (ws ++ 44 :: (w0 ++ (restl ++ (w ++ (nl ++ rest))))) := by simpa using hat
      obtain ⟨s1, e1, h1, hs1⟩ := lexRead_specialW ws hws sc 44 _ hat' (by decide) (by decide) hs hs0 f1 (by omega)
      obtain ⟨p, p', e3, e4, ht, h', hs', _⟩ := ih (c + 1) hdrop' depth (g2 + 2) (g2 + 2) s1 acc rest nl w w0 hn hw hcr hw0
        hdepth h1 (by simp [hs1]) (fun _ => hs1) (by omega) (by omega)
      have heof : s1.eof = false := by
        obtain ⟨b, r', e, _⟩ := nl_head hn rest
        cases hx : w0 ++ (restl ++ (w ++ (nl ++ rest))) with
        | nil => rw [e] at hx; simp at hx
        | cons x y => rw [hx] at h1; exact h1.eof
      refine ⟨{ sc := s1, tok := .ch 44 }, p', e1, ?_, ht, h', hs',
        fun _ => ⟨heof, by simp [isChar_ch], by simp [isChar_ch]⟩⟩
      rw [rowLoop]
      simp only [isChar_ch, PS.read, e3]
      simp [e4, cellsOf, hget]
    | some v =>
      have hv := (hC n).1 v hget
      have hnest : depth + nestV v < 64 := by have := nest_get? r n v hget; omega
      have hat' : At sc (ws ++ (cellText cells n ++ (44 :: (w0 ++ (restl ++ (w ++ (nl ++ rest))))))) := by simpa using hat
      obtain ⟨p, p1, e1, hne1, hst, e2, hp1⟩ := hv.rd.skip hv.first ws hws depth f1 (g2 + 2) sc _ hat' hs hs0
        (Or.inr (Or.inl ⟨44, _, rfl, by decide⟩)) (by omega) (by omega) hnest
      have hs1 : p1.sc.advance.stash = [] := by rw [At.advance_stash, hp1.clean (by decide)]; rfl
      obtain ⟨q, p', e3, e4, ht, h', hs', _⟩ := ih (c + 1) hdrop' depth (g2 + 1) (g2 + 1) p1.sc.advance
        (acc ++ [(n, lexImg v)]) rest nl w w0 hn hw hcr hw0 hdepth hp1.1.advance (by simp [hs1]) (fun _ => hs1) (by omega)
        (by omega)
      refine ⟨p, p', e1, ?_, ht, h', hs',
        fun _ => ⟨hne1 (by simp), hst.isChar 10 (by decide), hst.isChar 62 (by decide)⟩⟩
      rw [rowLoop]
      simp only [hst.isChar 44 (by decide), hst.isChar 10 (by decide), hst.tokNone, Bool.false_eq_true, if_false,
        e2, hname, PS.read, lexRead_special hp1.1 (by decide) (by decide) (g2 + 1)]
      rw [rowLoop]
      simp only [isChar_ch, PS.read, e3]
      simp [e4, cellsOf, hget]

end Hs.Zinc
