/-
  C04 (write direction), rung 1: the reference reader's `str` and `uri` read back the writer's quoted image of
  every text, whatever follows.
-/
import Hs.Lemmas.SpecRtBasic
namespace Hs.Spec
open Hs Hs.Zinc Hs.Scan

/-! ### Str -/

theorem strBody_quote (fuel : Nat) (r acc : List UInt8) : strBody (fuel + 1) (34 :: r) acc = some (acc, r) := by
  rw [strBody.eq_def]; simp

theorem strBody_plain (fuel : Nat) (b : UInt8) (r acc : List UInt8) (h1 : b ≠ 34) (h2 : b ≠ 92) :
    strBody (fuel + 1) (b :: r) acc = strBody fuel r (acc ++ [b]) := by
  rw [strBody.eq_def]; simp [h1, h2]

theorem strBody_plain_bytes : ∀ (bs : List UInt8), (∀ b ∈ bs, b ≠ 34 ∧ b ≠ 92) →
    ∀ (fuel : Nat) (r acc : List UInt8), strBody (fuel + bs.length) (bs ++ r) acc = strBody fuel r (acc ++ bs)
  | [], _, fuel, r, acc => by simp
  | b :: bs, h, fuel, r, acc => by
    have hb := h b (by simp)
    have : fuel + (b :: bs).length = (fuel + bs.length) + 1 := by simp; omega
    rw [this, List.cons_append, strBody_plain _ _ _ _ hb.1 hb.2,
      strBody_plain_bytes bs (fun x hx => h x (by simp [hx]))]
    simp

theorem strBody_esc (fuel : Nat) (c x : UInt8) (r acc : List UInt8)
    (hx : (c = 110 ∧ x = 10) ∨ (c = 114 ∧ x = 13) ∨ (c = 116 ∧ x = 9) ∨ (c = 34 ∧ x = 34) ∨ (c = 36 ∧ x = 36)
        ∨ (c = 92 ∧ x = 92)) :
    strBody (fuel + 1) (92 :: c :: r) acc = strBody fuel r (acc ++ [x]) := by
  rw [strBody.eq_def]
  rcases hx with ⟨rfl, rfl⟩ | ⟨rfl, rfl⟩ | ⟨rfl, rfl⟩ | ⟨rfl, rfl⟩ | ⟨rfl, rfl⟩ | ⟨rfl, rfl⟩ <;> simp

theorem strBody_escU (fuel : Nat) (n : Nat) (hn : n < 32) (r acc : List UInt8) :
    strBody (fuel + 1) (uEscape n ++ r) acc = strBody fuel r (acc ++ encChar (Char.ofNat n)) := by
  have e1 := hexVal_lower' (n / 4096 % 16) (by omega)
  have e2 := hexVal_lower' (n / 256 % 16) (by omega)
  have e3 := hexVal_lower' (n / 16 % 16) (by omega)
  have e4 := hexVal_lower' (n % 16) (by omega)
  have hu : (n / 4096 % 16) * 4096 + (n / 256 % 16) * 256 + (n / 16 % 16) * 16 + n % 16 = n := by omega
  simp only [uEscape, List.cons_append, List.nil_append]
  rw [strBody.eq_def]
  simp [e1.1, e2.1, e3.1, e4.1, e1.2, e2.2, e3.2, e4.2, hu]

/-- the loop consumes the writer's image of one character and appends the character's UTF-8 bytes -/
theorem strBody_char (c : Char) (r acc : List UInt8) :
    ∃ k, 1 ≤ k ∧ k ≤ (encStrChar c).length ∧
      ∀ fuel, strBody (fuel + k) (encStrChar c ++ r) acc = strBody fuel r (acc ++ encChar c) := by
  have two : ∀ (x y : UInt8) (cc : Char), encStrChar c = [92, x] → encChar cc = [y] → cc = c →
      ((x = 110 ∧ y = 10) ∨ (x = 114 ∧ y = 13) ∨ (x = 116 ∧ y = 9) ∨ (x = 34 ∧ y = 34) ∨ (x = 36 ∧ y = 36)
        ∨ (x = 92 ∧ y = 92)) →
      ∃ k, 1 ≤ k ∧ k ≤ (encStrChar c).length ∧
        ∀ fuel, strBody (fuel + k) (encStrChar c ++ r) acc = strBody fuel r (acc ++ encChar c) := by
    intro x y cc e ey ecc hx
    rw [e]
    refine ⟨1, by simp, by simp, ?_⟩
    intro fuel
    simp only [List.cons_append, List.nil_append]
    rw [strBody_esc fuel x y r acc hx, ← ecc, ey]
  by_cases c1 : c = '"'
  · exact two 34 34 '"' (by simp [encStrChar, c1]) (by decide) c1.symm (by simp)
  by_cases c2 : c = '\t'
  · exact two 116 9 '\t' (by simp [encStrChar, c2]) (by decide) c2.symm (by simp)
  by_cases c3 : c = '\r'
  · exact two 114 13 '\r' (by simp [encStrChar, c3]) (by decide) c3.symm (by simp)
  by_cases c4 : c = '\n'
  · exact two 110 10 '\n' (by simp [encStrChar, c4]) (by decide) c4.symm (by simp)
  by_cases c5 : c = '\\'
  · exact two 92 92 '\\' (by simp [encStrChar, c5]) (by decide) c5.symm (by simp)
  by_cases c6 : c.toNat < 32
  · have e : encStrChar c = uEscape c.toNat := by simp [encStrChar, c1, c2, c3, c4, c5, c6]
    rw [e]
    refine ⟨1, by simp, by simp [uEscape], ?_⟩
    intro fuel
    rw [strBody_escU fuel c.toNat c6, Char.ofNat_toNat]
  by_cases c7 : c = '$'
  · exact two 36 36 '$' (by simp [encStrChar, c7]) (by decide) c7.symm (by simp)
  have e : encStrChar c = encChar c := by simp [encStrChar, c1, c2, c3, c4, c5, c6, c7]
  rw [e]
  have hb : ∀ b ∈ encChar c, b ≠ 34 ∧ b ≠ 92 := by
    intro b hb
    exact ⟨encChar_bytes_ne c 34 (by decide) (fun e => c1 (Char.toNat_inj.mp e)) b hb,
           encChar_bytes_ne c 92 (by decide) (fun e => c5 (Char.toNat_inj.mp e)) b hb⟩
  exact ⟨(encChar c).length, encChar_length_pos c, Nat.le_refl _, fun fuel => strBody_plain_bytes _ hb fuel r acc⟩

theorem strBody_rt : ∀ (cs : List Char) (fuel : Nat) (rest acc : List UInt8),
    (cs.flatMap encStrChar).length < fuel →
    strBody fuel (cs.flatMap encStrChar ++ 34 :: rest) acc = some (acc ++ encChars cs, rest)
  | [], fuel, rest, acc, hf => by
    obtain ⟨f, rfl⟩ : ∃ f, fuel = f + 1 := ⟨fuel - 1, by omega⟩
    simp [strBody_quote, encChars]
  | c :: cs, fuel, rest, acc, hf => by
    simp only [List.flatMap_cons, List.length_append, List.append_assoc] at hf ⊢
    obtain ⟨k, hk1, hk2, e⟩ := strBody_char c (cs.flatMap encStrChar ++ 34 :: rest) acc
    obtain ⟨f, rfl⟩ : ∃ f, fuel = f + k := ⟨fuel - k, by omega⟩
    rw [e, strBody_rt cs f rest _ (by omega), encChars_cons]
    simp

/-- **spec_str**: every text, any following input -/
theorem spec_str (s : List Char) (rest : List UInt8) : str (encQuoted s ++ rest) = some (s, rest) := by
  simp only [encQuoted, List.cons_append, List.nil_append, List.append_assoc, str]
  rw [strBody_rt s _ rest [] (by simp; omega)]
  simp [text, lossy_encChars]

/-! ### Uri -/

theorem uriBody_tick (fuel : Nat) (r acc : List UInt8) : uriBody (fuel + 1) (96 :: r) acc = some (acc, r) := by
  rw [uriBody.eq_def]; simp

theorem uriBody_plain (fuel : Nat) (b : UInt8) (r acc : List UInt8) (h1 : b ≠ 96) (h2 : b ≠ 92) :
    uriBody (fuel + 1) (b :: r) acc = uriBody fuel r (acc ++ [b]) := by
  rw [uriBody.eq_def]; simp [h1, h2]

theorem uriBody_plain_bytes : ∀ (bs : List UInt8), (∀ b ∈ bs, b ≠ 96 ∧ b ≠ 92) →
    ∀ (fuel : Nat) (r acc : List UInt8), uriBody (fuel + bs.length) (bs ++ r) acc = uriBody fuel r (acc ++ bs)
  | [], _, fuel, r, acc => by simp
  | b :: bs, h, fuel, r, acc => by
    have hb := h b (by simp)
    have : fuel + (b :: bs).length = (fuel + bs.length) + 1 := by simp; omega
    rw [this, List.cons_append, uriBody_plain _ _ _ _ hb.1 hb.2,
      uriBody_plain_bytes bs (fun x hx => h x (by simp [hx]))]
    simp

theorem uriBody_esc (fuel : Nat) (c : UInt8) (r acc : List UInt8) (hc : c = 96 ∨ c = 92) :
    uriBody (fuel + 1) (92 :: c :: r) acc = uriBody fuel r (acc ++ [c]) := by
  rw [uriBody.eq_def]
  rcases hc with rfl | rfl <;> simp

theorem uriBody_escU (fuel : Nat) (n : Nat) (hn : n < 32) (r acc : List UInt8) :
    uriBody (fuel + 1) (uEscape n ++ r) acc = uriBody fuel r (acc ++ encChar (Char.ofNat n)) := by
  have e1 := hexVal_lower' (n / 4096 % 16) (by omega)
  have e2 := hexVal_lower' (n / 256 % 16) (by omega)
  have e3 := hexVal_lower' (n / 16 % 16) (by omega)
  have e4 := hexVal_lower' (n % 16) (by omega)
  have hu : (n / 4096 % 16) * 4096 + (n / 256 % 16) * 256 + (n / 16 % 16) * 16 + n % 16 = n := by omega
  simp only [uEscape, List.cons_append, List.nil_append]
  rw [uriBody.eq_def]
  simp [e1.1, e2.1, e3.1, e4.1, e1.2, e2.2, e3.2, e4.2, hu]

theorem uriBody_char (c : Char) (r acc : List UInt8) :
    ∃ k, 1 ≤ k ∧ k ≤ (encUriChar c).length ∧
      ∀ fuel, uriBody (fuel + k) (encUriChar c ++ r) acc = uriBody fuel r (acc ++ encChar c) := by
  by_cases c1 : c = '`'
  · refine ⟨1, by simp, by simp [encUriChar, c1], fun fuel => ?_⟩
    have : encUriChar c = [92, 96] := by simp [encUriChar, c1]
    rw [this, c1]
    simp only [List.cons_append, List.nil_append]
    rw [uriBody_esc fuel 96 r acc (Or.inl rfl)]
    rfl
  by_cases c2 : c = '\\'
  · refine ⟨1, by simp, by simp [encUriChar, c2], fun fuel => ?_⟩
    have : encUriChar c = [92, 92] := by simp [encUriChar, c2]
    rw [this, c2]
    simp only [List.cons_append, List.nil_append]
    rw [uriBody_esc fuel 92 r acc (Or.inr rfl)]
    rfl
  by_cases c3 : c.toNat < 32
  · have e : encUriChar c = uEscape c.toNat := by simp [encUriChar, c1, c2, c3]
    rw [e]
    refine ⟨1, by simp, by simp [uEscape], fun fuel => ?_⟩
    rw [uriBody_escU fuel c.toNat c3, Char.ofNat_toNat]
  have e : encUriChar c = encChar c := by simp [encUriChar, c1, c2, c3]
  rw [e]
  have hb : ∀ b ∈ encChar c, b ≠ 96 ∧ b ≠ 92 := by
    intro b hb
    exact ⟨encChar_bytes_ne c 96 (by decide) (fun e => c1 (Char.toNat_inj.mp e)) b hb,
           encChar_bytes_ne c 92 (by decide) (fun e => c2 (Char.toNat_inj.mp e)) b hb⟩
  exact ⟨(encChar c).length, encChar_length_pos c, Nat.le_refl _, fun fuel => uriBody_plain_bytes _ hb fuel r acc⟩

theorem uriBody_rt : ∀ (cs : List Char) (fuel : Nat) (rest acc : List UInt8),
    (cs.flatMap encUriChar).length < fuel →
    uriBody fuel (cs.flatMap encUriChar ++ 96 :: rest) acc = some (acc ++ encChars cs, rest)
  | [], fuel, rest, acc, hf => by
    obtain ⟨f, rfl⟩ : ∃ f, fuel = f + 1 := ⟨fuel - 1, by omega⟩
    simp [uriBody_tick, encChars]
  | c :: cs, fuel, rest, acc, hf => by
    simp only [List.flatMap_cons, List.length_append, List.append_assoc] at hf ⊢
    obtain ⟨k, hk1, hk2, e⟩ := uriBody_char c (cs.flatMap encUriChar ++ 96 :: rest) acc
    obtain ⟨f, rfl⟩ : ∃ f, fuel = f + k := ⟨fuel - k, by omega⟩
    rw [e, uriBody_rt cs f rest _ (by omega), encChars_cons]
    simp

/-- **spec_uri**: every text (the writer escapes `` ` ``, `\` and control characters; the grammar's reader
undoes exactly these), any following input -/
theorem spec_uri (s : List Char) (rest : List UInt8) : uri (encUri s ++ rest) = some (s, rest) := by
  simp only [encUri, List.cons_append, List.nil_append, List.append_assoc, uri]
  rw [uriBody_rt s _ rest [] (by simp; omega)]
  simp [text, lossy_encChars]

end Hs.Spec
