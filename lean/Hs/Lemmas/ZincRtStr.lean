/-
  C01 ladder, rung 3a: `parseStr` reads back `encQuoted s` for every `s : List Char`, whatever follows.
-/
import Hs.Model.ZincEnc
import Hs.Model.ZincLex
import Hs.Lemmas.ZincRtScan
namespace Hs.Zinc
open Hs Hs.Scan

/-! ### loop steps -/

theorem strLoop_quote {s : Scan} {r : List UInt8} (h : At s (34 :: r)) (fuel : Nat) (acc : List UInt8) :
    strLoop (fuel + 1) s acc = .ok (acc, s) := by
  rw [strLoop]; simp [h.cur]

theorem strLoop_plain {s : Scan} {b : UInt8} {r : List UInt8} (h : At s (b :: r)) (h1 : b ≠ 34) (h2 : b ≠ 92)
    (fuel : Nat) (acc : List UInt8) :
    strLoop (fuel + 1) s acc = strLoop fuel s.advance (acc ++ [b]) := by
  rw [strLoop]; simp [h.cur, h.eof, h1, h2]

/-- bytes other than `"` and `\` are copied verbatim -/
theorem strLoop_plain_bytes (bs : List UInt8) (hbs : ∀ b ∈ bs, b ≠ 34 ∧ b ≠ 92) :
    ∀ (s : Scan) (r : List UInt8) (fuel : Nat) (acc : List UInt8), At s (bs ++ r) →
    strLoop (fuel + bs.length) s acc = strLoop fuel (advN bs.length s) (acc ++ bs) := by
  induction bs with
  | nil => intro s r fuel acc h; simp [advN]
  | cons b bs ih =>
    intro s r fuel acc h
    have hb := hbs b (by simp)
    simp only [List.cons_append] at h
    have e := ih (fun x hx => hbs x (by simp [hx])) s.advance r fuel (acc ++ [b]) h.advance
    have : fuel + (b :: bs).length = (fuel + bs.length) + 1 := by simp; omega
    rw [this, strLoop_plain h hb.1 hb.2, e]; simp [advN]

/-- a two-byte escape whose second byte is not `u` -/
theorem strLoop_esc {s : Scan} {c d : UInt8} {r : List UInt8} {x : UInt8} (h : At s (92 :: c :: d :: r))
    (hx : (c = 110 ∧ x = 10) ∨ (c = 114 ∧ x = 13) ∨ (c = 116 ∧ x = 9) ∨ (c = 34 ∧ x = 34) ∨ (c = 36 ∧ x = 36)
        ∨ (c = 92 ∧ x = 92))
    (fuel : Nat) (acc : List UInt8) :
    strLoop (fuel + 1) s acc = strLoop fuel s.advance.advance (acc ++ [x]) := by
  have h1 := h.advance
  rw [strLoop]
  simp only [h.cur, h.eof, parseStrEscape, h.readQ, h1.cur]
  rcases hx with ⟨rfl, rfl⟩ | ⟨rfl, rfl⟩ | ⟨rfl, rfl⟩ | ⟨rfl, rfl⟩ | ⟨rfl, rfl⟩ | ⟨rfl, rfl⟩ <;> simp

theorem hexVal_lower (n : Nat) (h : n < 16) : isHexB (hexDigitLower n) = true ∧ hexVal (hexDigitLower n) = n := by
  have : ∀ n : Fin 16, isHexB (hexDigitLower n.1) = true ∧ hexVal (hexDigitLower n.1) = n.1 := by decide
  exact this ⟨n, h⟩

/-- the `\u00XY` escape of a control character -/
theorem strLoop_escU {s : Scan} {n : Nat} (hn : n < 32) {d : UInt8} {r : List UInt8} (h : At s (uEscape n ++ d :: r))
    (fuel : Nat) (acc : List UInt8) :
    strLoop (fuel + 1) s acc
      = strLoop fuel s.advance.advance.advance.advance.advance.advance (acc ++ encChar (Char.ofNat n)) := by
  simp only [uEscape, List.cons_append, List.nil_append] at h
  have h1 := h.advance
  have h2 := h1.advance
  have h3 := h2.advance
  have h4 := h3.advance
  have h5 := h4.advance
  have e1 := hexVal_lower (n / 4096 % 16) (by omega)
  have e2 := hexVal_lower (n / 256 % 16) (by omega)
  have e3 := hexVal_lower (n / 16 % 16) (by omega)
  have e4 := hexVal_lower (n % 16) (by omega)
  have hu : (n / 4096 % 16) * 4096 + (n / 256 % 16) * 256 + (n / 16 % 16) * 16 + n % 16 = n := by omega
  rw [strLoop]
  simp only [h.cur, h.eof, parseStrEscape, h.readQ, h1.cur, parseUnicodeEscape, h1.readQ, h2.readQ, h3.readQ,
    h4.readQ, Scan.isHexDigit, h2.cur, h3.cur, h4.cur, h5.cur, e1.1, e2.1, e3.1, e4.1, e1.2, e2.2, e3.2, e4.2, hu]
  have : ¬ (0xD800 ≤ n) := by omega
  simp [this]

/-! ### one character -/

/-- the loop consumes the writer's image of one character and appends the character's UTF-8 bytes;
`k` is the number of loop iterations this takes -/
theorem strLoop_char (c : Char) (s : Scan) (d : UInt8) (r : List UInt8) (acc : List UInt8)
    (h : At s (encStrChar c ++ d :: r)) :
    ∃ k s', 1 ≤ k ∧ k ≤ (encStrChar c).length ∧ At s' (d :: r) ∧ s.pos ≤ s'.pos ∧
      (s.stash = [] → s'.stash = []) ∧
      ∀ fuel, strLoop (fuel + k) s acc = strLoop fuel s' (acc ++ encChar c) := by
  have two : ∀ (x y : UInt8) (cc : Char), encStrChar c = [92, x] → encChar cc = [y] → cc = c →
      ((x = 110 ∧ y = 10) ∨ (x = 114 ∧ y = 13) ∨ (x = 116 ∧ y = 9) ∨ (x = 34 ∧ y = 34) ∨ (x = 36 ∧ y = 36)
        ∨ (x = 92 ∧ y = 92)) →
      ∃ k s', 1 ≤ k ∧ k ≤ (encStrChar c).length ∧ At s' (d :: r) ∧ s.pos ≤ s'.pos ∧
        (s.stash = [] → s'.stash = []) ∧
        ∀ fuel, strLoop (fuel + k) s acc = strLoop fuel s' (acc ++ encChar c) := by
    intro x y cc e ey ecc hx
    rw [e] at h ⊢
    simp only [List.cons_append, List.nil_append] at h
    refine ⟨1, s.advance.advance, by simp, by simp, h.advance.advance,
      Nat.le_trans (At.advance_pos_le _) (At.advance_pos_le _), advN_stash_nil 2 s, ?_⟩
    intro fuel
    rw [strLoop_esc h hx, ← ecc, ey]
  by_cases c1 : c = '"'
  · exact two 34 34 '"' (by simp [encStrChar, c1]) (by decide) c1.symm (by simp)
  by_cases c2 : c = '\t'
  · exact two 116 9 '\t' (by simp [encStrChar, c2]) (by decide) c2.symm (by simp)
  by_cases c3 : c = '\r'
  · exact two 114 13 '\r' (by simp [encStrChar, c3]) (by decide) c3.symm (by simp)
  by_cases c4 : c = '\n'
  · exact two 110 10 '\n' (by simp [encStrChar, c4]) (by decide) c4.symm (by simp)
  by_cases c5 : c = '\\'
  · exact two 92 92 '\\' (by simp [encStrChar, c5]) (by decide) c5.symm (by simp)
  by_cases c6 : c.toNat < 32
  · have e : encStrChar c = uEscape c.toNat := by simp [encStrChar, c1, c2, c3, c4, c5, c6]
    rw [e] at h ⊢
    refine ⟨1, s.advance.advance.advance.advance.advance.advance, by simp, by simp [uEscape], ?_, ?_,
      advN_stash_nil 6 s, ?_⟩
    · have h' := h
      simp only [uEscape, List.cons_append, List.nil_append] at h'
      exact h'.advance.advance.advance.advance.advance.advance
    · iterate 5 refine Nat.le_trans ?_ (At.advance_pos_le _)
      exact At.advance_pos_le _
    · intro fuel
      rw [strLoop_escU c6 h, Char.ofNat_toNat]
  by_cases c7 : c = '$'
  · exact two 36 36 '$' (by simp [encStrChar, c7]) (by decide) c7.symm (by simp)
  have e : encStrChar c = encChar c := by simp [encStrChar, c1, c2, c3, c4, c5, c6, c7]
  rw [e] at h ⊢
  have hb : ∀ b ∈ encChar c, b ≠ 34 ∧ b ≠ 92 := by
    intro b hb
    exact ⟨encChar_bytes_ne c 34 (by decide) (fun e => c1 (Char.toNat_inj.mp e)) b hb,
           encChar_bytes_ne c 92 (by decide) (fun e => c5 (Char.toNat_inj.mp e)) b hb⟩
  refine ⟨(encChar c).length, advN (encChar c).length s, encChar_length_pos c, Nat.le_refl _, h.advN,
    advN_pos_le _ _, advN_stash_nil _ s, ?_⟩
  intro fuel
  exact strLoop_plain_bytes (encChar c) hb s (d :: r) fuel acc h


/-! ### the whole body and `parseStr` -/

theorem strLoop_body (cs : List Char) : ∀ (s : Scan) (r : List UInt8) (fuel : Nat) (acc : List UInt8),
    At s (cs.flatMap encStrChar ++ 34 :: r) → (cs.flatMap encStrChar).length < fuel →
    ∃ s', strLoop fuel s acc = .ok (acc ++ encChars cs, s') ∧ At s' (34 :: r) ∧ s.pos ≤ s'.pos
      ∧ (s.stash = [] → s'.stash = []) := by
  induction cs with
  | nil =>
    intro s r fuel acc h hf
    simp only [List.flatMap_nil, List.nil_append] at h
    obtain ⟨f, rfl⟩ : ∃ f, fuel = f + 1 := ⟨fuel - 1, by omega⟩
    exact ⟨s, by rw [strLoop_quote h]; simp, h, Nat.le_refl _, id⟩
  | cons c cs ih =>
    intro s r fuel acc h hf
    simp only [List.flatMap_cons, List.append_assoc, List.length_append] at h hf
    -- the byte after the image of `c` exists: it is the image of the next character or the quote
    obtain ⟨d, r', hd⟩ : ∃ d r', cs.flatMap encStrChar ++ 34 :: r = d :: r' := by
      cases hx : cs.flatMap encStrChar ++ 34 :: r with
      | nil => simp at hx
      | cons d r' => exact ⟨d, r', rfl⟩
    rw [hd] at h
    obtain ⟨k, s1, hk1, hk2, h1, hp1, hs1, e⟩ := strLoop_char c s d r' acc h
    obtain ⟨f, rfl⟩ : ∃ f, fuel = f + k := ⟨fuel - k, by omega⟩
    rw [← hd] at h1
    obtain ⟨s2, e2, h2, hp2, hs2⟩ := ih s1 r f (acc ++ encChar c) h1 (by omega)
    refine ⟨s2, ?_, h2, Nat.le_trans hp1 hp2, fun hh => hs2 (hs1 hh)⟩
    rw [e, e2, encChars_cons]; simp

/-- **rt_str** (scanner level): `parseStr` reads the writer's quoted image of any string back, whatever
follows the closing quote, and leaves the scanner positioned right after it. -/
theorem parseStr_rt (cs : List Char) (s : Scan) (rest : List UInt8) (fuel : Nat)
    (h : At s (encQuoted cs ++ rest)) (hf : (encQuoted cs).length ≤ fuel) :
    ∃ s', parseStr fuel s = .ok (cs, s') ∧ At s' rest ∧ (s.stash = [] → s'.stash = []) := by
  simp only [encQuoted, List.cons_append, List.nil_append, List.append_assoc, List.length_cons,
    List.length_append, List.length_nil] at h hf
  have h0 := h.advance
  have hp0 : s.advance.pos = s.pos + 1 := by
    cases hx : cs.flatMap encStrChar ++ 34 :: rest with
    | nil => simp at hx
    | cons d r' => rw [hx] at h; exact h.advance_pos
  obtain ⟨s1, e1, h1, hp1, hs1⟩ := strLoop_body cs s.advance rest fuel [] h0 (by omega)
  refine ⟨s1.advance, ?_, h1.advance, fun hh => ?_⟩
  · unfold parseStr
    simp only [h.cur, e1]
    have : (s.pos == s1.pos) = false := by simp; omega
    simp [this, lossy_encChars]
  · have := hs1 (by rw [At.advance_stash, hh]; rfl)
    rw [At.advance_stash, this]; rfl

end Hs.Zinc
