/-
  Hs.Lemmas.HaysonVisit — the decoder visitor as a fold over the decoded members.

  `view ms` pairs every member key with the outcome of decoding the member's value; `runR` is the
  `visit_map` loop over that list.  `visitMap_eq_runR` ties it to the model; everything about member
  order (`runR_perm`) and about sorted input (`runR_sorted`) is then a statement about plain lists.
-/
import Hs.Lemmas.HaysonOrd
namespace Hs.Hayson
open Hs

/-- the members with their values decoded (document order) -/
def view : Members → List (List Char × Res Val)
  | .nil => []
  | .cons k j ms => (k, fromJson j) :: view ms

theorem view_eq_map : ∀ ms : Members, view ms = ms.toList.map (fun p => (p.1, fromJson p.2))
  | .nil => rfl
  | .cons k j ms => by simp [view, Members.toList, view_eq_map ms]

/-- the early return of `visit_map`: accepted by serde_json only when no member is left (`earlyReturn`) -/
def earlyR (last : Bool) (v : Val) : Res Val := if last then .ok v else .err

/-- what `visit_map` does with the value of a `_kind` member; `last`: no member is left after it -/
def kindStep (v : Val) (last : Bool) (cont : List Char → Res Val) : Res Val :=
  match v with
  | .str kd =>
    if kd == s "marker" then earlyR last .marker
    else if kd == s "remove" then earlyR last .remove
    else if kd == s "na" then earlyR last .na
    else if knownKinds.any (fun x => s x == kd) then cont kd
    else .err
  | _ => .err

/-- the `visit_map` loop over decoded members -/
def runR : List (List Char × Res Val) → List Char → List (List Char × Val) → Res Val
  | [], kind, d => finish kind d
  | (k, r) :: l, kind, d =>
    match r with
    | .ok v =>
      if k == s "_kind" then kindStep v l.isEmpty (fun kd => runR l kd d)
      else runR l kind (insertTag k v d)
    | .err => .err | .panic => .panic | .diverge => .diverge | .depth => .depth

theorem earlyReturn_eq (ms : Members) (v : Val) : earlyReturn ms v = earlyR (view ms).isEmpty v := by
  cases ms <;> simp [earlyReturn, earlyR, view]

theorem visitMap_eq_runR : ∀ (ms : Members) (kind : List Char) (d : List (List Char × Val)),
    visitMap ms kind d = runR (view ms) kind d
  | .nil, kind, d => by simp [visitMap, view, runR]
  | .cons k j ms, kind, d => by
    have ih := visitMap_eq_runR ms
    rw [visitMap]
    simp only [view, runR]
    cases hj : fromJson j with
    | ok v =>
      simp only []
      by_cases hk : (k == s "_kind") = true
      · simp only [hk, if_true]
        cases v <;> simp [kindStep, ih, earlyReturn_eq]
      · simp only [hk]
        simp [ih]
    | err => rfl
    | panic => rfl
    | diverge => rfl
    | depth => rfl

theorem fromJson_obj (ms : Members) : fromJson (.obj ms) = runR (view ms) [] [] := by
  rw [fromJson, visitMap_eq_runR]

/-! ### sorted, `_kind`-free input: the entries come back as they are -/

/-- every member decoded -/
def okView (l : List (List Char × Val)) : List (List Char × Res Val) := l.map (fun p => (p.1, .ok p.2))

theorem runR_noKind : ∀ (l : List (List Char × Val)) (kind : List Char) (d : List (List Char × Val)),
    (∀ p ∈ l, p.1 ≠ s "_kind") →
    runR (okView l) kind d = finish kind (l.foldl (fun acc p => insertTag p.1 p.2 acc) d)
  | [], kind, d, _ => by simp [okView, runR]
  | (k, v) :: l, kind, d, h => by
    have hk : ¬ k = s "_kind" := h (k, v) (by simp)
    have ih := runR_noKind l kind (insertTag k v d) (fun p hp => h p (List.mem_cons_of_mem _ hp))
    simp only [okView] at ih
    simp [okView, runR, hk, ih]

/-- **key lemma for containers**: members whose keys are strictly ascending, all above the collected
ones and none `_kind`, whose values all decode, are collected in the same order. -/
theorem runR_sorted (l : List (List Char × Val)) (kind : List Char) (d : List (List Char × Val))
    (hk : ∀ p ∈ l, p.1 ≠ s "_kind")
    (hs : ((d ++ l).map (·.1)).Pairwise (fun a b => ltChars a b = true)) :
    runR (okView l) kind d = finish kind (d ++ l) := by
  rw [runR_noKind l kind d hk, foldl_insertTag_sorted l d hs]

/-- a JSON object whose members decode to strictly ascending `_kind`-free entries is that dict -/
theorem fromJson_obj_sorted (ms : Members) (l : List (List Char × Val))
    (hv : view ms = okView l) (hk : ∀ p ∈ l, p.1 ≠ s "_kind")
    (hs : strictSorted (l.map (·.1)) = true) :
    fromJson (.obj ms) = .ok (.dict (Tags.ofList l)) := by
  have hp := strictSorted_pairwise _ hs
  rw [fromJson_obj, hv, runR_sorted l [] [] hk (by simpa using hp)]
  simp [finish, s]

/-! ### member order -/

/-- a decoded `_kind` value on which `visit_map` returns at once -/
def isEarly (r : Res Val) : Bool :=
  match r with
  | .ok (.str kd) => kd == s "marker" || kd == s "remove" || kd == s "na"
  | _ => false

def IsOk (r : Res Val) : Prop := ∃ v, r = .ok v
def OkOrErr (r : Res Val) : Prop := (∃ v, r = .ok v) ∨ r = .err

/-- the order hypothesis on decoded members: no `_kind` member makes the visitor return early (an early
return is accepted only after the LAST member, so its outcome depends on the position of `_kind` whatever the
other members are), and every failure is the plain `Err` -/
def OrderHyp (l : List (List Char × Res Val)) : Prop :=
  ∀ p ∈ l, OkOrErr p.2 ∧ (p.1 = s "_kind" → isEarly p.2 = false)

theorem kindStep_err (v : Val) (last : Bool) (h : isEarly (.ok v) = false) :
    kindStep v last (fun _ => .err) = .err := by
  cases v <;> simp [kindStep]
  rename_i x
  simp [isEarly] at h
  simp [h]

/-- on a kind that is not an early-return kind, what is left after the member does not matter -/
theorem kindStep_last (v : Val) (b1 b2 : Bool) (c : List Char → Res Val) (h : isEarly (.ok v) = false) :
    kindStep v b1 c = kindStep v b2 c := by
  cases v <;> simp [kindStep]
  rename_i x
  simp [isEarly] at h
  simp [h]

theorem kindStep_congr (v : Val) (last : Bool) (f g : List Char → Res Val) (h : ∀ kd, f kd = g kd) :
    kindStep v last f = kindStep v last g := by
  have : f = g := funext h
  rw [this]

theorem runR_swap (a b : List Char × Res Val) (l : List (List Char × Res Val)) (hne : a.1 ≠ b.1)
    (h : OrderHyp [a, b]) (kind : List Char) (d : List (List Char × Val)) :
    runR (b :: a :: l) kind d = runR (a :: b :: l) kind d := by
  obtain ⟨ka, ra⟩ := a
  obtain ⟨kb, rb⟩ := b
  simp only at hne
  obtain ⟨oa, na⟩ := h (ka, ra) (by simp)
  obtain ⟨ob, nb⟩ := h (kb, rb) (by simp)
  simp only at na nb oa ob
  rcases oa with ⟨va, ea⟩ | ea <;> rcases ob with ⟨vb, eb⟩ | eb
  · subst ea; subst eb
    by_cases ha : ka = s "_kind"
    · have hb : ¬ kb = s "_kind" := fun e => hne (ha.trans e.symm)
      simp only [runR, ha, hb, beq_self_eq_true, if_true, beq_iff_eq, if_false]
      exact kindStep_last va _ _ _ (na ha)
    · by_cases hb : kb = s "_kind"
      · simp only [runR, ha, hb, beq_self_eq_true, if_true, beq_iff_eq, if_false]
        exact kindStep_last vb _ _ _ (nb hb)
      · simp [runR, ha, hb, insertTag_comm ka kb va vb hne d]
  · -- a decoded, b failed
    subst ea; subst eb
    by_cases ha : ka = s "_kind"
    · simp [runR, ha, kindStep_err va _ (na ha)]
    · simp [runR, ha]
  · subst ea; subst eb
    by_cases hb : kb = s "_kind"
    · simp [runR, hb, kindStep_err vb _ (nb hb)]
    · simp [runR, hb]
  · subst ea; subst eb
    simp [runR]

theorem OrderHyp.of_perm {l1 l2 : List (List Char × Res Val)} (hp : l1.Perm l2) (h : OrderHyp l1) :
    OrderHyp l2 := fun p hp2 => h p (hp.mem_iff.mpr hp2)

theorem OrderHyp.tail {a : List Char × Res Val} {l : List (List Char × Res Val)} (h : OrderHyp (a :: l)) :
    OrderHyp l := fun p hp => h p (List.mem_cons_of_mem _ hp)

/-- **member order does not matter**: decoded members with pairwise distinct keys, under `OrderHyp` -/
theorem runR_perm {l1 l2 : List (List Char × Res Val)} (hp : l1.Perm l2) :
    (l1.map (·.1)).Nodup → OrderHyp l1 → ∀ kind d, runR l1 kind d = runR l2 kind d := by
  induction hp with
  | nil => intros; rfl
  | @cons a l1 l2 hp12 ih =>
    intro hn hh kind d
    have hn' := (List.nodup_cons.mp hn).2
    have ih' := ih hn' hh.tail
    have hhd := hh a (by simp)
    obtain ⟨k, r⟩ := a
    cases r with
    | ok v =>
      by_cases hk : k = s "_kind"
      · simp only [runR, hk, beq_self_eq_true, if_true]
        rw [kindStep_last v l1.isEmpty l2.isEmpty _ (hhd.2 hk)]
        exact kindStep_congr v _ _ _ (fun kd => ih' kd d)
      · simp [runR, hk, ih']
    | err => rfl
    | panic => rfl
    | diverge => rfl
    | depth => rfl
  | swap a b l =>
    intro hn hh kind d
    have hne : a.1 ≠ b.1 := by
      intro e
      simp [e] at hn
    have h2 : OrderHyp [a, b] := fun p hp => hh p (by
      rcases List.mem_cons.mp hp with e | hp
      · simp [e]
      · simp at hp; simp [hp])
    exact runR_swap a b l hne h2 kind d
  | trans h1 _ ih1 ih2 =>
    intro hn hh kind d
    rw [ih1 hn hh kind d]
    exact ih2 ((h1.map _).nodup_iff.mp hn) (hh.of_perm h1) kind d

/-- an object with at most one member has one member order -/
theorem perm_eq_of_length_le_one {α : Type} {l1 l2 : List α} (hp : l1.Perm l2) (h : l1.length ≤ 1) : l1 = l2 := by
  match l1, h with
  | [], _ => exact (List.perm_nil.mp hp.symm).symm
  | [a], _ => exact (List.perm_singleton.mp hp.symm).symm

end Hs.Hayson
