/-
  C01: the decidable well-formedness predicate `wfV` and the proof that it implies `GoodV`
  (token statements for all scalar leaves, shapes for dicts and grids).
-/
import Hs.Lemmas.ZincRtTop
import Hs.Lemmas.ZincRtTok2
namespace Hs.Zinc
open Hs Hs.Scan

/-! ### numbers -/

def numOk (n : Num) : Bool :=
  if Flt.isNaNBits n.v.bits then true
  else if Flt.isInfBits n.v.bits then true
  else finiteNumOk n

theorem tok_num (n : Num) (h : numOk n = true) : TokRt (.num n) := by
  unfold numOk at h
  by_cases h1 : Flt.isNaNBits n.v.bits = true
  · exact tok_nan n h1
  · simp only [h1, Bool.false_eq_true, if_false] at h
    simp only [Bool.not_eq_true] at h1
    by_cases h2 : Flt.isInfBits n.v.bits = true
    · by_cases h3 : Flt.signBit n.v.bits = true
      · exact tok_neginf n h1 h2 h3
      · exact tok_posinf n h1 h2 (by simpa using h3)
    · simp only [h2, Bool.false_eq_true, if_false] at h
      exact tok_num_finite n h

/-! ### first bytes -/

theorem digit_or_minus_nows : ∀ b : UInt8, (!(isDigitB b || b == 45 || isUpperB b) || (b != 32 && b != 9 && b != 13 && b != 10)) = true :=
  all_u8 (fun b => (!(isDigitB b || b == 45 || isUpperB b) || (b != 32 && b != 9 && b != 13 && b != 10)))
    (by decide +kernel)

theorem firstOk_of_class (b : UInt8) (r : List UInt8) (h : (isDigitB b || b == 45 || isUpperB b) = true) :
    FirstOk (b :: r) := by
  have := digit_or_minus_nows b
  simp only [h, Bool.not_true, Bool.false_or, Bool.and_eq_true, bne_iff_ne, ne_eq] at this
  exact ⟨b, r, rfl, this.1.1.1, this.1.1.2, this.1.2, this.2⟩

theorem firstOk_num (n : Num) (h : numOk n = true) : FirstOk (enc (.num n) true) := by
  unfold numOk at h
  simp only [enc, encNum]
  by_cases h1 : Flt.isNaNBits n.v.bits = true
  · simp only [h1, if_true]; exact firstOk_cons _ _ (by decide)
  · simp only [h1, Bool.false_eq_true, if_false] at h ⊢
    by_cases h2 : Flt.isInfBits n.v.bits = true
    · simp only [h2, if_true]
      by_cases h3 : Flt.signBit n.v.bits = true
      · simp only [h3, if_true]; exact firstOk_cons _ _ (by decide)
      · simp only [h3, Bool.false_eq_true, if_false]; exact firstOk_cons _ _ (by decide)
    · simp only [h2, Bool.false_eq_true, if_false] at h ⊢
      simp only [finiteNumOk, numTextOk, numBytesOk, Bool.and_eq_true] at h
      obtain ⟨⟨_, hasc, ⟨⟨_, _⟩, _⟩, hfirst⟩, _⟩ := h
      rw [encChars_all_ascii hasc]
      cases hx : n.v.txt.map byteOf with
      | nil => rw [hx] at hfirst; simp at hfirst
      | cons b r =>
        rw [hx] at hfirst
        have hb : (isDigitB b || b == 45 || isUpperB b) = true := by
          simp only [Bool.or_eq_true] at hfirst ⊢
          rcases hfirst with h' | h'
          · exact Or.inl (Or.inl h')
          · exact Or.inl (Or.inr h')
        cases n.unit <;> simp only [List.cons_append] <;> exact firstOk_of_class b _ hb

theorem firstOk_date (d : Date) (h : dateOk d = true) : FirstOk (enc (.date d) true) := by
  simp only [dateOk, Bool.and_eq_true] at h
  obtain ⟨hasc, hm⟩ := h
  simp only [enc]
  rw [encChars_all_ascii hasc]
  split at hm
  · rename_i y0 _ _ _ _ _ _ _ heq
    rw [heq]
    simp only [Bool.and_eq_true] at hm
    exact firstOk_of_class _ _ (by simp [hm.1.1.1.1.1.1.1.1])
  · simp at hm

theorem firstOk_time (t : Time) (h : timeOk t = true) : FirstOk (enc (.time t) true) := by
  simp only [timeOk, Bool.and_eq_true] at h
  obtain ⟨hasc, hm⟩ := h
  simp only [enc]
  rw [encChars_all_ascii hasc]
  split at hm
  · rename_i h0 _ _ _ _ _ _ heq
    rw [heq]
    simp only [Bool.and_eq_true] at hm
    exact firstOk_of_class _ _ (by simp [hm.1.1.1.1.1.1])
  · simp at hm

theorem firstOk_datetime (t : DateTime) (h : dtOk t = true) : FirstOk (enc (.dateTime t) true) := by
  simp only [dtOk, Bool.and_eq_true] at h
  obtain ⟨hasc, hm⟩ := h
  simp only [enc]
  rw [encDateTime_eq, encChars_all_ascii hasc]
  unfold dtBytesOk at hm
  split at hm
  · rename_i y0 _ _ _ _ _ _ _ _ _ _ _ _ _ _ heq
    rw [heq]
    simp only [Bool.and_eq_true] at hm
    exact firstOk_of_class _ _ (by simp [hm.1.1.1.1.1.1.1.1.1.1.1.1.1.1.1])
  · simp at hm

theorem firstOk_xstr (ty v : List Char) (h : isXStrType ty = true) : FirstOk (enc (.xstr ty v) true) := by
  simp only [isXStrType, Bool.and_eq_true] at h
  simp only [enc]
  rw [upperFirst_of_upper h.1]
  cases ty with
  | nil => simp [isUpperName] at h
  | cons c r =>
    have h1 := h.1
    simp only [isUpperName, Bool.and_eq_true, decide_eq_true_eq] at h1
    rw [encChars_cons, encChar_ascii c h1.1.1]
    simp only [List.cons_append, List.nil_append, List.append_assoc]
    exact firstOk_of_class _ _ (by simp [byteOf] at h1; simp [h1.1.2])

/-! ### the decidable predicate -/

mutual
/-- decidable well-formedness: what the Zinc reader needs to return the lexical image of what the writer
printed -/
def wfV : Val → Bool
  | .null => true
  | .remove => true
  | .marker => true
  | .bool _ => true
  | .na => true
  | .num n => numOk n
  | .str _ => true
  | .uri _ => true
  | .ref id _ => isRefId id
  | .sym s => isSymBody s
  | .date d => dateOk d
  | .time t => timeOk t
  | .dateTime t => dtOk t
  | .coord a b => decTextOk a.txt && decTextOk b.txt
  | .xstr ty _ => isXStrType ty
  | .list xs => wfVs xs
  | .dict d => keysIdent d && keysSorted d.keys && wfT d
  | .grid md cols rows ver =>
    ver == ['3', '.', '0'] && metaShape md && colsShape cols && rowsShape cols.names (cols.length == 1) rows
      && wfO md && wfC cols && wfR rows
def wfVs : Vals → Bool
  | .nil => true
  | .cons v vs => wfV v && wfVs vs
def wfT : Tags → Bool
  | .nil => true
  | .cons _ v t => wfV v && wfT t
def wfO : OTags → Bool
  | .none => true
  | .some t => wfT t
def wfC : Cols → Bool
  | .nil => true
  | .cons _ md c => wfO md && wfC c
def wfR : Rows → Bool
  | .nil => true
  | .cons r rs => wfT r && wfR rs
end

mutual
theorem good_of_wf : ∀ v : Val, wfV v = true → GoodV v
  | .null, _ => by simp only [GoodV]; exact ⟨tok_null, by simp only [enc]; exact firstOk_cons _ _ (by decide)⟩
  | .remove, _ => by simp only [GoodV]; exact ⟨tok_remove, by simp only [enc]; exact firstOk_cons _ _ (by decide)⟩
  | .marker, _ => by simp only [GoodV]; exact ⟨tok_marker, by simp only [enc]; exact firstOk_cons _ _ (by decide)⟩
  | .bool b, _ => by
    simp only [GoodV]
    exact ⟨tok_bool b, by cases b <;> (simp only [enc]; exact firstOk_cons _ _ (by decide))⟩
  | .na, _ => by simp only [GoodV]; exact ⟨tok_na, by simp only [enc]; exact firstOk_cons _ _ (by decide)⟩
  | .num n, h => by
    simp only [wfV] at h
    simp only [GoodV]; exact ⟨tok_num n h, firstOk_num n h⟩
  | .str s, _ => by
    simp only [GoodV]; exact ⟨tok_str s, by simp only [enc, encQuoted, List.cons_append, List.nil_append]; exact firstOk_cons _ _ (by decide)⟩
  | .uri s, _ => by
    simp only [GoodV]; exact ⟨tok_uri s, by simp only [enc, encUri, List.cons_append, List.nil_append]; exact firstOk_cons _ _ (by decide)⟩
  | .ref id dis, h => by
    simp only [wfV] at h
    simp only [GoodV]
    refine ⟨tok_ref id dis h, ?_⟩
    cases dis <;> (simp only [enc, List.cons_append, List.nil_append]; exact firstOk_cons _ _ (by decide))
  | .sym s, h => by
    simp only [wfV] at h
    simp only [GoodV]
    exact ⟨tok_sym s h, by simp only [enc, List.cons_append, List.nil_append]; exact firstOk_cons _ _ (by decide)⟩
  | .date d, h => by
    simp only [wfV] at h
    simp only [GoodV]; exact ⟨tok_date d h, firstOk_date d h⟩
  | .time t, h => by
    simp only [wfV] at h
    simp only [GoodV]; exact ⟨tok_time t h, firstOk_time t h⟩
  | .dateTime t, h => by
    simp only [wfV] at h
    simp only [GoodV]; exact ⟨tok_datetime t h, firstOk_datetime t h⟩
  | .coord a b, h => by
    simp only [wfV, Bool.and_eq_true] at h
    simp only [GoodV]
    exact ⟨tok_coord a b h.1 h.2, by simp only [enc, List.cons_append, List.nil_append]; exact firstOk_cons _ _ (by decide)⟩
  | .xstr ty v, h => by
    simp only [wfV] at h
    simp only [GoodV]; exact ⟨tok_xstr ty v h, firstOk_xstr ty v h⟩
  | .list xs, h => by
    simp only [GoodV]; exact goods_of_wf xs (by simpa [wfV] using h)
  | .dict d, h => by
    simp only [wfV, Bool.and_eq_true] at h
    simp only [GoodV]; exact ⟨h.1.1, h.1.2, goodt_of_wf d h.2⟩
  | .grid md cols rows ver, h => by
    simp only [wfV, Bool.and_eq_true, beq_iff_eq] at h
    simp only [GoodV]
    exact ⟨h.1.1.1.1.1.1, h.1.1.1.1.1.2, h.1.1.1.1.2, h.1.1.1.2, goodo_of_wf md h.1.1.2, goodc_of_wf cols h.1.2,
      goodr_of_wf rows h.2⟩
theorem goods_of_wf : ∀ xs : Vals, wfVs xs = true → GoodVs xs
  | .nil, _ => by simp [GoodVs]
  | .cons v vs, h => by
    simp only [wfVs, Bool.and_eq_true] at h
    simp only [GoodVs]; exact ⟨good_of_wf v h.1, goods_of_wf vs h.2⟩
theorem goodt_of_wf : ∀ t : Tags, wfT t = true → GoodT t
  | .nil, _ => by simp [GoodT]
  | .cons _ v t, h => by
    simp only [wfT, Bool.and_eq_true] at h
    simp only [GoodT]; exact ⟨good_of_wf v h.1, goodt_of_wf t h.2⟩
theorem goodo_of_wf : ∀ o : OTags, wfO o = true → GoodO o
  | .none, _ => by simp [GoodO]
  | .some t, h => by
    simp only [wfO] at h
    simp only [GoodO]; exact goodt_of_wf t h
theorem goodc_of_wf : ∀ c : Cols, wfC c = true → GoodC c
  | .nil, _ => by simp [GoodC]
  | .cons _ md c, h => by
    simp only [wfC, Bool.and_eq_true] at h
    simp only [GoodC]; exact ⟨goodo_of_wf md h.1, goodc_of_wf c h.2⟩
theorem goodr_of_wf : ∀ r : Rows, wfR r = true → GoodR r
  | .nil, _ => by simp [GoodR]
  | .cons r rs, h => by
    simp only [wfR, Bool.and_eq_true] at h
    simp only [GoodR]; exact ⟨goodt_of_wf r h.1, goodr_of_wf rs h.2⟩
end

/-- nesting depth as a decidable side condition -/
def depthOk (v : Val) : Bool := nestV v < 64

/-- **C01 for the model**, in the lemma files' vocabulary -/
theorem rt_of_wf (v : Val) (h : wfV v = true) (hn : depthOk v = true) : fromBytes (encode v) = .ok (lexImg v) :=
  fromBytes_of_GoodV v (good_of_wf v h) (by simpa [depthOk] using hn)

end Hs.Zinc
