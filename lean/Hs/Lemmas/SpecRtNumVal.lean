/-
  C04 (write direction), rung 3b: a number text is not taken for a date or a time by the reference reader's
  shape test, and numbers (with and without unit) and coordinates through `scalar`.
-/
import Hs.Lemmas.SpecRtNum
namespace Hs.Spec
open Hs Hs.Zinc Hs.Scan

/-- after the leading digits of a number: nothing, or a byte that is neither a digit nor `-` nor `:` -/
def NumTail (tl : List UInt8) : Prop := ∀ x r, tl = x :: r → isDigitB x = false ∧ x ≠ 45 ∧ x ≠ 58

theorem four_some {i : In} {y : Nat} {r : In} (h : four i = some (y, r)) :
    ∃ a b c d, i = a :: b :: c :: d :: r ∧ isDigitB a = true ∧ isDigitB b = true ∧ isDigitB c = true ∧ isDigitB d = true := by
  unfold four at h
  split at h
  · rename_i a b c d r'
    split at h
    · rename_i hd
      simp only [Bool.and_eq_true] at hd
      simp only [Option.some.injEq, Prod.mk.injEq] at h
      exact ⟨a, b, c, d, by rw [h.2], hd.1.1.1, hd.1.1.2, hd.1.2, hd.2⟩
    · cases h
  · cases h

theorem two_some {i : In} {y : Nat} {r : In} (h : two i = some (y, r)) :
    ∃ a b, i = a :: b :: r ∧ isDigitB a = true ∧ isDigitB b = true := by
  unfold two at h
  split at h
  · rename_i a b r'
    split at h
    · rename_i hd
      simp only [Bool.and_eq_true] at hd
      simp only [Option.some.injEq, Prod.mk.injEq] at h
      exact ⟨a, b, by rw [h.2], hd.1, hd.2⟩
    · cases h
  · cases h

/-- the byte after a run of digits followed by a `NumTail` is never `-` or `:` wherever the run is cut -/
theorem after_digits (ds tl : List UInt8) (hds : ∀ b ∈ ds, isDigitB b = true) (htl : NumTail tl) :
    ∀ (pre r : List UInt8) (x : UInt8), ds ++ tl = pre ++ x :: r → (∀ b ∈ pre, isDigitB b = true) → pre ≠ [] →
      x ≠ 45 ∧ x ≠ 58 := by
  induction ds with
  | nil =>
    intro pre r x e hpre hne
    cases pre with
    | nil => exact absurd rfl hne
    | cons p pre' =>
      simp only [List.nil_append, List.cons_append] at e
      have := (htl p (pre' ++ x :: r) e).1
      rw [hpre p (by simp)] at this; cases this
  | cons d ds ih =>
    intro pre r x e hpre hne
    cases pre with
    | nil => exact absurd rfl hne
    | cons p pre' =>
      simp only [List.cons_append, List.cons.injEq] at e
      cases pre' with
      | nil =>
        simp only [List.nil_append] at e
        cases ds with
        | nil =>
          simp only [List.nil_append] at e
          have := htl x r e.2
          exact ⟨this.2.1, this.2.2⟩
        | cons d2 ds2 =>
          simp only [List.cons_append, List.cons.injEq] at e
          have hd2 := hds d2 (by simp)
          rw [e.2.1] at hd2
          constructor
          · exact digit_ne_45 hd2
          · intro e58; subst e58; revert hd2; decide
      | cons p2 pre2 =>
        exact ih (fun b hb => hds b (by simp [hb])) (p2 :: pre2) r x e.2 (fun b hb => hpre b (by simp [hb])) (by simp)

theorem dateP_none (ds tl : List UInt8) (hds : ∀ b ∈ ds, isDigitB b = true) (htl : NumTail tl) :
    dateP (ds ++ tl) = none := by
  unfold dateP
  cases h4 : four (ds ++ tl) with
  | none => rfl
  | some p =>
    obtain ⟨y, r⟩ := p
    obtain ⟨a, b, c, d, e, ha, hb, hc, hd⟩ := four_some h4
    cases r with
    | nil => rfl
    | cons x r' =>
      have := after_digits ds tl hds htl [a, b, c, d] r' x (by simpa using e)
        (by intro z hz; simp at hz; rcases hz with rfl | rfl | rfl | rfl <;> assumption) (by simp)
      simp [this.1]

theorem dateP_minus (r : List UInt8) : dateP (45 :: r) = none := by
  unfold dateP
  cases h4 : four (45 :: r) with
  | none => rfl
  | some p =>
    obtain ⟨y, r'⟩ := p
    obtain ⟨a, b, c, d, e, ha, _⟩ := four_some h4
    simp only [List.cons.injEq] at e
    rw [← e.1] at ha; exact absurd ha (by decide)

theorem timeP_none (ds tl : List UInt8) (hds : ∀ b ∈ ds, isDigitB b = true) (htl : NumTail tl) :
    timeP (ds ++ tl) = none := by
  unfold timeP
  cases h2 : two (ds ++ tl) with
  | none => rfl
  | some p =>
    obtain ⟨y, r⟩ := p
    obtain ⟨a, b, e, ha, hb⟩ := two_some h2
    cases r with
    | nil => rfl
    | cons x r' =>
      have := after_digits ds tl hds htl [a, b] r' x (by simpa using e)
        (by intro z hz; simp at hz; rcases hz with rfl | rfl <;> assumption) (by simp)
      simp [this.2]

/-! ### the number branch of `scalar` -/

theorem num_dispatch : ∀ b : UInt8, (!(isDigitB b || b == 45) || (b != 34 && b != 96 && b != 64 && b != 94 && !isUpperB b)) = true :=
  all_u8 (fun b => (!(isDigitB b || b == 45) || (b != 34 && b != 96 && b != 64 && b != 94 && !isUpperB b)))
    (by decide +kernel)

theorem scalar_num_nounit (f : Nat) (b : UInt8) (t : List UInt8) (hb : (isDigitB b || b == 45) = true)
    (hinf : (b == 45 && t.take 3 == [73, 78, 70]) = false)
    (hdate : dateP (b :: t) = none) (htime : (if b != 45 then timeP (b :: t) else none) = none)
    (lex r1 : List UInt8) (hdec : decimal true (b :: t) = some (lex, r1))
    (hsp : span isUnitByte r1 = ([], r1)) :
    scalar (f + 1) (b :: t) = some (.num { v := { bits := specBits, txt := chars lex }, unit := none }, r1) := by
  have hd := num_dispatch b
  simp only [hb, Bool.not_true, Bool.false_or, Bool.and_eq_true, bne_iff_ne, ne_eq, Bool.not_eq_eq_eq_not] at hd
  obtain ⟨⟨⟨⟨h34, h96⟩, h64⟩, h94⟩, hup⟩ := hd
  have hb' : (isDigit b || b == 45) = true := hb
  rw [scalar.eq_def]
  simp only [hdate, htime, hdec, hsp, hinf, hb']
  simp [h34, h96, h64, h94, isUpper_eq, hup]

theorem scalar_num_unit (f : Nat) (b : UInt8) (t : List UInt8) (hb : (isDigitB b || b == 45) = true)
    (hinf : (b == 45 && t.take 3 == [73, 78, 70]) = false)
    (hdate : dateP (b :: t) = none) (htime : (if b != 45 then timeP (b :: t) else none) = none)
    (lex r1 : List UInt8) (hdec : decimal true (b :: t) = some (lex, r1))
    (ub r2 : List UInt8) (hsp : span isUnitByte r1 = (ub, r2)) (hne : ub ≠ []) (sym : List Char)
    (hsym : unitSymbol (text ub) = some sym) :
    scalar (f + 1) (b :: t) = some (.num { v := { bits := specBits, txt := chars lex }, unit := some sym }, r2) := by
  have hd := num_dispatch b
  simp only [hb, Bool.not_true, Bool.false_or, Bool.and_eq_true, bne_iff_ne, ne_eq, Bool.not_eq_eq_eq_not] at hd
  obtain ⟨⟨⟨⟨h34, h96⟩, h64⟩, h94⟩, hup⟩ := hd
  have hb' : (isDigit b || b == 45) = true := hb
  rw [scalar.eq_def]
  simp only [hdate, htime, hdec, hsp, hinf, hb', hsym]
  simp [h34, h96, h64, h94, isUpper_eq, hup, hne]

end Hs.Spec
