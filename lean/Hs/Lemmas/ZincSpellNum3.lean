/-
  C04 read direction, numbers (3): coordinates `C( lat , lng )` with blanks and spelled decimals.
-/
import Hs.Lemmas.ZincSpellNum2
namespace Hs.Zinc
open Hs Hs.Scan Hs.Spell

theorem stop_blanks_then {P : UInt8 → Bool} (w : List UInt8) (hw : Blanks w) (c : UInt8) (r : List UInt8)
    (hc : P c = false) (h32 : P 32 = false) (h9 : P 9 = false) : Stop P (w ++ c :: r) := by
  cases w with
  | nil => exact Stop_cons hc
  | cons b w' =>
    rw [List.cons_append]
    rcases Blanks.head hw with rfl | rfl
    · exact Stop_cons h32
    · exact Stop_cons h9

theorem DecShape.first_nb {lex bs : List UInt8} (h : DecShape lex bs) :
    ∃ b r, bs = b :: r ∧ b ≠ 32 ∧ b ≠ 9 := by
  obtain ⟨b, r, e, hb⟩ := h.first'
  have hd := num_dispatch b
  simp only [hb, Bool.not_true, Bool.false_or, Bool.and_eq_true, bne_iff_ne, ne_eq,
    Bool.not_eq_eq_eq_not] at hd
  exact ⟨b, r, e, hd.1.1.1.1.1.1, hd.1.1.1.1.1.2⟩

theorem parseCoordBody_sp (la las lo los w1 w2 w3 w4 : List UInt8) (ha : DecShape la las) (hb : DecShape lo los)
    (h1 : Blanks w1) (h2 : Blanks w2) (h3 : Blanks w3) (h4 : Blanks w4)
    (s : Scan) (rest : List UInt8) (fuel : Nat)
    (h : At s (40 :: (w1 ++ (las ++ (w2 ++ 44 :: (w3 ++ (los ++ (w4 ++ 41 :: rest))))))))
    (hs : s.stash = [])
    (hf : w1.length + las.length + w2.length + w3.length + los.length + w4.length < fuel) :
    ∃ s', parseCoordBody fuel s = .ok (.coord (mkCoordFlt la) (mkCoordFlt lo), s') ∧ At s' rest ∧ s'.stash = [] := by
  obtain ⟨a0, ar, ea, ha32, ha9⟩ := ha.first_nb
  obtain ⟨o0, orr, eo, ho32, ho9⟩ := hb.first_nb
  have h0 := h.advance
  have c1 := consumeSpaces_blanks w1 h1 s.advance a0 (ar ++ (w2 ++ 44 :: (w3 ++ (los ++ (w4 ++ 41 :: rest))))) fuel
    (by rw [ea] at h0; simpa using h0) ha32 ha9 (by omega)
  have hA : At (advN w1.length s.advance) (las ++ (w2 ++ 44 :: (w3 ++ (los ++ (w4 ++ 41 :: rest))))) := h0.advN
  have e1 := ha.parse _ _ fuel hA (stop_blanks_then w2 h2 44 _ (by decide) (by decide) (by decide)) (by omega)
  have hB : At (advN las.length (advN w1.length s.advance)) (w2 ++ 44 :: (w3 ++ (los ++ (w4 ++ 41 :: rest)))) := hA.advN
  have c2 := consumeSpaces_blanks w2 h2 _ 44 _ fuel hB (by decide) (by decide) (by omega)
  have hC : At (advN w2.length (advN las.length (advN w1.length s.advance)))
      (44 :: (w3 ++ (los ++ (w4 ++ 41 :: rest)))) := hB.advN
  have hC' := hC.advance
  have c3 := consumeSpaces_blanks w3 h3 _ o0 (orr ++ (w4 ++ 41 :: rest)) fuel
    (by rw [eo] at hC'; simpa using hC') ho32 ho9 (by omega)
  have hD : At (advN w3.length (advN w2.length (advN las.length (advN w1.length s.advance))).advance)
      (los ++ (w4 ++ 41 :: rest)) := hC'.advN
  have e2 := hb.parse _ _ fuel hD (stop_blanks_then w4 h4 41 _ (by decide) (by decide) (by decide)) (by omega)
  have hE : At (advN los.length (advN w3.length (advN w2.length (advN las.length (advN w1.length s.advance))).advance))
      (w4 ++ 41 :: rest) := hD.advN
  have c4 := consumeSpaces_blanks w4 h4 _ 41 _ fuel hE (by decide) (by decide) (by omega)
  have hF : At (advN w4.length (advN los.length (advN w3.length (advN w2.length (advN las.length
      (advN w1.length s.advance))).advance))) (41 :: rest) := hE.advN
  refine ⟨_, ?_, hF.advance, ?_⟩
  · unfold parseCoordBody
    simp only [h.cur, c1, e1, c2, hC.cur, c3, e2, c4, hF.cur]
    simp
  · have a1 : s.advance.stash = [] := by rw [At.advance_stash, hs]; rfl
    have a2 := advN_stash_nil w2.length _ (advN_stash_nil las.length _ (advN_stash_nil w1.length _ a1))
    have a3 : (advN w2.length (advN las.length (advN w1.length s.advance))).advance.stash = [] := by
      rw [At.advance_stash, a2]; rfl
    have a4 := advN_stash_nil w4.length _ (advN_stash_nil los.length _ (advN_stash_nil w3.length _ a3))
    rw [At.advance_stash, a4]; rfl

theorem tokW_coord (la las lo los w1 w2 w3 w4 : List UInt8) (ha : Decimal la las) (hb : Decimal lo los)
    (h1 : Blanks w1) (h2 : Blanks w2) (h3 : Blanks w3) (h4 : Blanks w4) :
    TokW (67 :: 40 :: (w1 ++ las ++ w2 ++ 44 :: (w3 ++ los ++ w4 ++ [41])))
      (.coord { bits := lexBits, txt := chars la } { bits := lexBits, txt := chars lo }) := by
  intro s rest fuel hat hs hd hf
  obtain ⟨f, rfl⟩ : ∃ f, fuel = f + 1 := ⟨fuel - 1, by omega⟩
  have hC : encChars ['C'] = [67] := by decide
  have hnorm : 67 :: 40 :: (w1 ++ las ++ w2 ++ 44 :: (w3 ++ los ++ w4 ++ [41])) ++ rest =
      67 :: 40 :: (w1 ++ (las ++ (w2 ++ 44 :: (w3 ++ (los ++ (w4 ++ 41 :: rest)))))) := by
    simp
  rw [hnorm] at hat
  simp only [List.length_cons, List.length_append, List.length_nil] at hf
  obtain ⟨hat1, e⟩ := lexRead_upper ['C'] (by decide) s
    (40 :: (w1 ++ (las ++ (w2 ++ 44 :: (w3 ++ (los ++ (w4 ++ 41 :: rest))))))) f
    (by rw [hC]; exact hat) (Stop_cons (by decide)) (by simp; omega)
  obtain ⟨s', e', h', hs'⟩ := parseCoordBody_sp la las lo los w1 w2 w3 w4 ha.shape hb.shape h1 h2 h3 h4
    (advN 1 s) rest f hat1 (advN_stash_nil _ _ hs) (by omega)
  refine ⟨s', ?_, Post.of_clean h' hs'⟩
  simp only [List.length_cons, List.length_nil, Nat.zero_add] at e hat1
  rw [e, hat1.cur, e']
  simp [mkCoordFlt, chars_eq]

end Hs.Zinc
