/-
  C04 read direction: Uri, Ref with display name and XStr on every legal spelling; the writer's text is one of
  the spellings.
-/
import Hs.Lemmas.ZincSpellStr
namespace Hs.Zinc
open Hs Hs.Scan Hs.Spell

/-! ### one character of a Uri -/

/-- `\uXXXX` in a Uri -/
theorem uriLoop_uesc {c : Char} {bs : List UInt8} (hu : UEsc c bs) {s : Scan} {d : UInt8} {r : List UInt8}
    (h : At s (bs ++ d :: r)) (hs : s.stash = []) :
    ∃ s', At s' (d :: r) ∧ s'.stash = [] ∧ s.pos ≤ s'.pos ∧
      ∀ (fuel : Nat) (acc : List UInt8), uriLoop (fuel + 1) s acc = uriLoop fuel s' (acc ++ encChar c) := by
  cases hu with
  | mk d3 d2 d1 d0 hc h3 h2 h1 h0 =>
    simp only [List.cons_append, List.nil_append] at h
    obtain ⟨s0, e0, a0, hs0, _, hp0⟩ := h.peek0' hs
    have a1 := a0.advance
    have e := parseUnicodeEscape_sp hc h3 h2 h1 h0 a1
    refine ⟨s0.advance.advance.advance.advance.advance.advance,
      a1.advance.advance.advance.advance.advance, ?_, ?_, ?_⟩
    · have : s0.advance.stash = [] := advance_stash_nil (by omega)
      exact advN_stash_nil 5 _ this
    · rw [← hp0]; exact advN_pos_le 6 s0
    · intro fuel acc
      rw [uriLoop]
      simp only [h.cur, h.eof, e0, a0.readQ, e]
      simp

/-- `\[ \] \@ \& \= \;`: the byte after the backslash -/
theorem uriLoop_punct {s : Scan} {c d : UInt8} {r : List UInt8} (h : At s (92 :: c :: d :: r)) (hs : s.stash = [])
    (hc : c = 91 ∨ c = 93 ∨ c = 64 ∨ c = 38 ∨ c = 61 ∨ c = 59) :
    ∃ s', At s' (d :: r) ∧ s'.stash = [] ∧ s.pos ≤ s'.pos ∧
      ∀ (fuel : Nat) (acc : List UInt8), uriLoop (fuel + 1) s acc = uriLoop fuel s' (acc ++ [c]) := by
  obtain ⟨s1, e1, h1, hs1, _, hp1⟩ := h.peek0' hs
  have h2 := h1.advance
  refine ⟨s1.advance.advance, h2.advance, ?_, ?_, ?_⟩
  · have : s1.advance.stash = [] := advance_stash_nil (by omega)
    rw [At.advance_stash, this]; rfl
  · rw [← hp1]; exact Nat.le_trans (At.advance_pos_le _) (At.advance_pos_le _)
  · intro fuel acc
    rw [uriLoop]
    simp only [h.cur, h.eof, e1, h1.readQ]
    rcases hc with rfl | rfl | rfl | rfl | rfl | rfl <;> simp

/-- `\: \/ \? \#`: both bytes are kept -/
theorem uriLoop_keep {s : Scan} {c d : UInt8} {r : List UInt8} (h : At s (92 :: c :: d :: r)) (hs : s.stash = [])
    (hc : c = 58 ∨ c = 47 ∨ c = 63 ∨ c = 35) :
    ∃ s', At s' (d :: r) ∧ s'.stash = [] ∧ s.pos ≤ s'.pos ∧
      ∀ (fuel : Nat) (acc : List UInt8), uriLoop (fuel + 1) s acc = uriLoop fuel s' (acc ++ [92, c]) := by
  obtain ⟨s1, e1, h1, hs1, _, hp1⟩ := h.peek0' hs
  have h2 := h1.advance
  refine ⟨s1.advance.advance, h2.advance, ?_, ?_, ?_⟩
  · have : s1.advance.stash = [] := advance_stash_nil (by omega)
    rw [At.advance_stash, this]; rfl
  · rw [← hp1]; exact Nat.le_trans (At.advance_pos_le _) (At.advance_pos_le _)
  · intro fuel acc
    rw [uriLoop]
    simp only [h.cur, h.eof, e1, h1.readQ]
    rcases hc with rfl | rfl | rfl | rfl <;> simp

theorem uriLoop_ch (c : Char) (bs : List UInt8) (hc : UriCh c bs) (s : Scan) (d : UInt8) (r : List UInt8)
    (acc : List UInt8) (h : At s (bs ++ d :: r)) (hs : s.stash = []) :
    ∃ k s', 1 ≤ k ∧ k ≤ bs.length ∧ At s' (d :: r) ∧ s.pos ≤ s'.pos ∧ s'.stash = [] ∧
      ∀ fuel, uriLoop (fuel + k) s acc = uriLoop fuel s' (acc ++ encChar c) := by
  cases hc with
  | raw _ h32 c1 c2 =>
    have hb : ∀ b ∈ encChar c, b ≠ 96 ∧ b ≠ 92 := by
      intro b hb
      exact ⟨encChar_bytes_ne c 96 (by decide) (fun e => c1 (Char.toNat_inj.mp e)) b hb,
             encChar_bytes_ne c 92 (by decide) (fun e => c2 (Char.toNat_inj.mp e)) b hb⟩
    refine ⟨(encChar c).length, advN (encChar c).length s, encChar_length_pos c, Nat.le_refl _, h.advN,
      advN_pos_le _ _, advN_stash_nil _ s hs, ?_⟩
    intro fuel
    exact uriLoop_plain_bytes (encChar c) hb s (d :: r) fuel acc h
  | bquote =>
    obtain ⟨s', h', hs', hp', e'⟩ := uriLoop_esc h hs (Or.inl rfl)
    refine ⟨1, s', by simp, by simp, h', hp', hs', fun fuel => ?_⟩
    rw [e']; rfl
  | bslash =>
    obtain ⟨s', h', hs', hp', e'⟩ := uriLoop_esc h hs (Or.inr rfl)
    refine ⟨1, s', by simp, by simp, h', hp', hs', fun fuel => ?_⟩
    rw [e']; rfl
  | punct _ b hm =>
    simp only [List.mem_cons, Prod.mk.injEq, List.mem_nil_iff, or_false] at hm
    have hcb : (b = 91 ∨ b = 93 ∨ b = 64 ∨ b = 38 ∨ b = 61 ∨ b = 59) ∧ encChar c = [b] := by
      rcases hm with ⟨rfl, rfl⟩ | ⟨rfl, rfl⟩ | ⟨rfl, rfl⟩ | ⟨rfl, rfl⟩ | ⟨rfl, rfl⟩ | ⟨rfl, rfl⟩ <;>
        exact ⟨by simp, by decide⟩
    obtain ⟨s', h', hs', hp', e'⟩ := uriLoop_punct h hs hcb.1
    refine ⟨1, s', by simp, by simp, h', hp', hs', fun fuel => ?_⟩
    rw [e', hcb.2]
  | u _ _ hu =>
    have hl := uesc_length hu
    obtain ⟨s', h', hs', hp', e'⟩ := uriLoop_uesc hu h hs
    exact ⟨1, s', by simp, by omega, h', hp', hs', fun fuel => e' fuel acc⟩

theorem uriLoop_bodyS (cs : List Char) (body : List UInt8) (hb : UriBody cs body) :
    ∀ (s : Scan) (r : List UInt8) (fuel : Nat) (acc : List UInt8),
    At s (body ++ 96 :: r) → s.stash = [] → body.length < fuel →
    ∃ s', uriLoop fuel s acc = .ok (acc ++ encChars cs, s') ∧ At s' (96 :: r) ∧ s.pos ≤ s'.pos
      ∧ s'.stash = [] := by
  induction hb with
  | nil =>
    intro s r fuel acc h hs hf
    simp only [List.nil_append] at h
    obtain ⟨f, rfl⟩ : ∃ f, fuel = f + 1 := ⟨fuel - 1, by omega⟩
    exact ⟨s, by rw [uriLoop_tick h]; simp, h, Nat.le_refl _, hs⟩
  | cons c cs bs bs' hc _ ih =>
    intro s r fuel acc h hs hf
    simp only [List.append_assoc, List.length_append] at h hf
    obtain ⟨d, r', hd⟩ : ∃ d r', bs' ++ 96 :: r = d :: r' := by
      cases hx : bs' ++ 96 :: r with
      | nil => simp at hx
      | cons d r' => exact ⟨d, r', rfl⟩
    rw [hd] at h
    obtain ⟨k, s1, hk1, hk2, h1, hp1, hs1, e⟩ := uriLoop_ch c bs hc s d r' acc h hs
    obtain ⟨f, rfl⟩ : ∃ f, fuel = f + k := ⟨fuel - k, by omega⟩
    rw [← hd] at h1
    obtain ⟨s2, e2, h2, hp2, hs2⟩ := ih s1 r f (acc ++ encChar c) h1 hs1 (by omega)
    refine ⟨s2, ?_, h2, Nat.le_trans hp1 hp2, hs2⟩
    rw [e, e2, encChars_cons]; simp
  | keep c b hm cs bs' _ ih =>
    intro s r fuel acc h hs hf
    simp only [List.cons_append, List.length_cons] at h hf
    simp only [List.mem_cons, Prod.mk.injEq, List.mem_nil_iff, or_false] at hm
    have hcb : (b = 58 ∨ b = 47 ∨ b = 63 ∨ b = 35) ∧ encChar '\\' ++ encChar c = [92, b] := by
      rcases hm with ⟨rfl, rfl⟩ | ⟨rfl, rfl⟩ | ⟨rfl, rfl⟩ | ⟨rfl, rfl⟩ <;> exact ⟨by simp, by decide⟩
    obtain ⟨d, r', hd⟩ : ∃ d r', bs' ++ 96 :: r = d :: r' := by
      cases hx : bs' ++ 96 :: r with
      | nil => simp at hx
      | cons d r' => exact ⟨d, r', rfl⟩
    rw [hd] at h
    obtain ⟨s1, h1, hs1, hp1, e⟩ := uriLoop_keep h hs hcb.1
    obtain ⟨f, rfl⟩ : ∃ f, fuel = f + 1 := ⟨fuel - 1, by omega⟩
    rw [← hd] at h1
    obtain ⟨s2, e2, h2, hp2, hs2⟩ := ih s1 r f (acc ++ [92, b]) h1 hs1 (by omega)
    refine ⟨s2, ?_, h2, Nat.le_trans hp1 hp2, hs2⟩
    rw [e, e2, encChars_cons, encChars_cons, ← hcb.2]; simp

/-- `parseUri` reads every spelling of a Uri back -/
theorem parseUri_sp (cs : List Char) (body : List UInt8) (hb : UriBody cs body) (s : Scan) (rest : List UInt8)
    (fuel : Nat) (h : At s (96 :: (body ++ 96 :: rest))) (hs : s.stash = []) (hf : body.length + 2 ≤ fuel) :
    ∃ s', parseUri fuel s = .ok (cs, s') ∧ At s' rest ∧ s'.stash = [] := by
  have h0 := h.advance
  have hp0 : s.advance.pos = s.pos + 1 := by
    cases hx : body ++ 96 :: rest with
    | nil => simp at hx
    | cons d r' => rw [hx] at h; exact h.advance_pos
  obtain ⟨s1, e1, h1, hp1, hs1⟩ := uriLoop_bodyS cs body hb s.advance rest fuel [] h0
    (by rw [At.advance_stash, hs]; rfl) (by omega)
  refine ⟨s1.advance, ?_, h1.advance, by rw [At.advance_stash, hs1]; rfl⟩
  unfold parseUri
  simp only [h.cur, e1]
  have : (s.pos == s1.pos) = false := by simp; omega
  simp [this, lossy_encChars]

theorem tokW_uri (cs : List Char) (body : List UInt8) (hb : UriBody cs body) :
    TokW (96 :: (body ++ [96])) (.uri cs) := by
  intro s rest fuel hat hs hd hf
  obtain ⟨f, rfl⟩ : ∃ f, fuel = f + 1 := ⟨fuel - 1, by omega⟩
  simp only [List.cons_append, List.append_assoc, List.nil_append, List.length_cons, List.length_append,
    List.length_nil] at hat hf
  obtain ⟨s', e, h', hs'⟩ := parseUri_sp cs body hb s rest f hat hs (by omega)
  refine ⟨s', ?_, Post.of_clean h' hs'⟩
  rw [lexRead]
  simp [hat.eof, hat.cur, e]

/-! ### Ref with display name -/

theorem parseRef_disS (id : List Char) (hid : AllB isRefB id = true) (hne : id ≠ []) (dis : List Char)
    (q : List UInt8) (hq : Quoted dis q) (s : Scan) (rest : List UInt8) (fuel : Nat)
    (h : At s (64 :: (encChars id ++ 32 :: (q ++ rest)))) (hs : s.stash = [])
    (hf : id.length + q.length < fuel) :
    ∃ s', parseRef fuel s = .ok (.ref id (some dis), s') ∧ At s' rest ∧ s'.stash = [] := by
  obtain ⟨e, hp⟩ := encChars_ascii hid
  have hl : (id.map byteOf).length = id.length := by simp
  rw [e] at h
  have h1 : At (advN id.length s.advance) (32 :: (q ++ rest)) := by rw [← hl]; exact h.advance.advN
  have hs1 : (advN id.length s.advance).stash = [] := advN_stash_nil _ _ (by rw [At.advance_stash, hs]; rfl)
  have hne' : (id.map byteOf).isEmpty = false := by cases id <;> simp_all
  obtain ⟨t, hqt⟩ := quoted_shape hq
  have hq' : q ++ rest = 34 :: (t ++ rest) := by rw [hqt]; rfl
  rw [hq'] at h1
  obtain ⟨s2, e2, h2, hs2, _, _⟩ := h1.peek0' hs1
  have h3 := h2.advance
  have hs3 : s2.advance.stash = [] := advance_stash_nil (by omega)
  rw [← hq'] at h3
  obtain ⟨s4, e4, h4, hs4⟩ := parseStr_sp dis q hq s2.advance rest fuel h3 (by omega)
  refine ⟨s4, ?_, h4, hs4 hs3⟩
  unfold parseRef
  simp only [h.cur, bne_self_eq_false, Bool.false_eq_true, if_false]
  rw [refLoop_rt _ hp s.advance _ fuel [] h.advance (Stop_cons (by decide)) (by omega)]
  simp only [List.nil_append, hne', Bool.false_eq_true, if_false, hl]
  rw [← e, lossy_encChars]
  simp [h1.eof, h1.cur, e2, h2.readQ, e4]

theorem tokW_refDis (id dis : List Char) (hid : isRefId id = true) (q : List UInt8) (hq : Quoted dis q) :
    TokW (64 :: (encChars id ++ 32 :: q)) (.ref id (some dis)) := by
  simp only [isRefId, Bool.and_eq_true, Bool.not_eq_eq_eq_not, Bool.not_true, List.isEmpty_eq_false_iff] at hid
  intro s rest fuel hat hs hd hf
  have hl := encChars_length_ge id
  obtain ⟨f, rfl⟩ : ∃ f, fuel = f + 1 := ⟨fuel - 1, by omega⟩
  simp only [List.cons_append, List.append_assoc, List.length_cons, List.length_append] at hat hf
  obtain ⟨s', e, h', hs'⟩ := parseRef_disS id hid.2 hid.1 dis q hq s rest f hat hs (by omega)
  refine ⟨s', ?_, Post.of_clean h' hs'⟩
  rw [lexRead]
  simp [hat.eof, hat.cur, e]

/-! ### XStr -/

theorem parseXStrBody_sp (name v : List Char) (q w1 w2 : List UInt8) (hq : Quoted v q) (hw1 : Blanks w1)
    (hw2 : Blanks w2) (s : Scan) (rest : List UInt8) (fuel : Nat)
    (h : At s (40 :: (w1 ++ (q ++ (w2 ++ 41 :: rest))))) (hs : s.stash = [])
    (hf : w1.length + q.length + w2.length < fuel) :
    ∃ s', parseXStrBody fuel name s = .ok (.xstr name v, s') ∧ At s' rest ∧ s'.stash = [] := by
  have h0 := h.advance
  have hs0 : s.advance.stash = [] := by rw [At.advance_stash, hs]; rfl
  obtain ⟨t, hqt⟩ := quoted_shape hq
  have hq' : q ++ (w2 ++ 41 :: rest) = 34 :: (t ++ (w2 ++ 41 :: rest)) := by rw [hqt]; rfl
  have e1 : consumeSpaces fuel s.advance = .ok (advN w1.length s.advance) := by
    rw [hq'] at h0
    exact consumeSpaces_blanks w1 hw1 s.advance 34 _ fuel h0 (by decide) (by decide) (by omega)
  have h1 : At (advN w1.length s.advance) (q ++ (w2 ++ 41 :: rest)) := h0.advN
  have hs1 : (advN w1.length s.advance).stash = [] := advN_stash_nil _ _ hs0
  obtain ⟨s2, e2, h2, hs2⟩ := parseStr_sp v q hq _ _ fuel h1 (by omega)
  have e3 : consumeSpaces fuel s2 = .ok (advN w2.length s2) :=
    consumeSpaces_blanks w2 hw2 s2 41 rest fuel h2 (by decide) (by decide) (by omega)
  have h3 : At (advN w2.length s2) (41 :: rest) := h2.advN
  have hs3 : (advN w2.length s2).stash = [] := advN_stash_nil _ _ (hs2 hs1)
  refine ⟨(advN w2.length s2).advance, ?_, h3.advance, by rw [At.advance_stash, hs3]; rfl⟩
  unfold parseXStrBody
  simp only [h.cur, e1, e2, e3, h3.cur]
  simp

theorem tokW_xstr (ty v : List Char) (hty : isXStrType ty = true) (q w1 w2 : List UInt8) (hq : Quoted v q)
    (h1 : Blanks w1) (h2 : Blanks w2) : TokW (encChars ty ++ 40 :: (w1 ++ q ++ w2 ++ [41])) (.xstr ty v) := by
  simp only [isXStrType, Bool.and_eq_true, bne_iff_ne, ne_eq] at hty
  intro s rest fuel hat hs hd hf
  have hl := encChars_length_ge ty
  obtain ⟨f, rfl⟩ : ∃ f, fuel = f + 1 := ⟨fuel - 1, by omega⟩
  simp only [List.cons_append, List.append_assoc, List.nil_append, List.length_cons, List.length_append,
    List.length_nil] at hat hf
  obtain ⟨hat1, e⟩ := lexRead_upper ty hty.1 s (40 :: (w1 ++ (q ++ (w2 ++ 41 :: rest)))) f hat
    (Stop_cons (by decide)) (by omega)
  obtain ⟨s', e', h', hs'⟩ := parseXStrBody_sp ty v q w1 w2 hq h1 h2 (advN ty.length s) rest f hat1
    (advN_stash_nil _ _ hs) (by omega)
  refine ⟨s', ?_, Post.of_clean h' hs'⟩
  have hne : (ty == ['C']) = false := by simpa using hty.2
  rw [e, hat1.cur, hne, e']
  simp

/-! ### the writer's text is one of the spellings -/

theorem hexLower_eq (n : Nat) : hexDigitLower n = hexLower n := rfl

theorem uesc_uEscape (c : Char) (h : c.toNat < 32) : UEsc c (uEscape c.toNat) := by
  have e : c.toNat / 4096 % 16 = c.toNat / 4096 := by omega
  unfold uEscape
  rw [e]
  exact UEsc.mk c _ _ _ _ (by omega) ⟨by omega, Or.inl rfl⟩ ⟨by omega, Or.inl rfl⟩ ⟨by omega, Or.inl rfl⟩
    ⟨by omega, Or.inl rfl⟩

theorem strCh_enc (c : Char) : StrCh c (encStrChar c) := by
  by_cases c1 : c = '"'
  · have e : encStrChar c = [92, 34] := by simp [encStrChar, c1]
    rw [e, c1]; exact StrCh.quote
  by_cases c2 : c = '\t'
  · have e : encStrChar c = [92, 116] := by simp [encStrChar, c2]
    rw [e, c2]; exact StrCh.t
  by_cases c3 : c = '\r'
  · have e : encStrChar c = [92, 114] := by simp [encStrChar, c3]
    rw [e, c3]; exact StrCh.r
  by_cases c4 : c = '\n'
  · have e : encStrChar c = [92, 110] := by simp [encStrChar, c4]
    rw [e, c4]; exact StrCh.n
  by_cases c5 : c = '\\'
  · have e : encStrChar c = [92, 92] := by simp [encStrChar, c5]
    rw [e, c5]; exact StrCh.bslash
  by_cases c6 : c.toNat < 32
  · have e : encStrChar c = uEscape c.toNat := by simp [encStrChar, c1, c2, c3, c4, c5, c6]
    rw [e]; exact StrCh.u c _ (uesc_uEscape c c6)
  by_cases c7 : c = '$'
  · have e : encStrChar c = [92, 36] := by simp [encStrChar, c7]
    rw [e, c7]; exact StrCh.dollar
  have e : encStrChar c = encChar c := by simp [encStrChar, c1, c2, c3, c4, c5, c6, c7]
  rw [e]; exact StrCh.raw c (by omega) c1 c5 c7

theorem strBody_enc (s : List Char) : StrBody s (s.flatMap encStrChar) := by
  induction s with
  | nil => exact StrBody.nil
  | cons c cs ih =>
    rw [List.flatMap_cons]
    exact StrBody.cons c cs _ _ (strCh_enc c) ih

/-- the writer's text is one of the spellings -/
theorem quoted_encQuoted (s : List Char) : Quoted s (encQuoted s) :=
  Quoted.mk s _ (strBody_enc s)

theorem uriCh_enc (c : Char) : UriCh c (encUriChar c) := by
  by_cases c1 : c = '`'
  · have e : encUriChar c = [92, 96] := by simp [encUriChar, c1]
    rw [e, c1]; exact UriCh.bquote
  by_cases c2 : c = '\\'
  · have e : encUriChar c = [92, 92] := by simp [encUriChar, c2]
    rw [e, c2]; exact UriCh.bslash
  by_cases c3 : c.toNat < 32
  · have e : encUriChar c = uEscape c.toNat := by simp [encUriChar, c1, c2, c3]
    rw [e]; exact UriCh.u c _ (uesc_uEscape c c3)
  have e : encUriChar c = encChar c := by simp [encUriChar, c1, c2, c3]
  rw [e]; exact UriCh.raw c (by omega) c1 c2

theorem uriBody_enc (s : List Char) : UriBody s (s.flatMap encUriChar) := by
  induction s with
  | nil => exact UriBody.nil
  | cons c cs ih =>
    rw [List.flatMap_cons]
    exact UriBody.cons c cs _ _ (uriCh_enc c) ih

/-- `` `a\:b\[c\u00e9` `` denotes the Uri `a\:b[cé` (seven characters: the `\:` escape is kept verbatim) -/
theorem uriBody_example :
    UriBody "a\\:b[cé".toList [97, 92, 58, 98, 92, 91, 99, 92, 117, 48, 48, 101, 57] :=
  (by decide +kernel : "a\\:b[cé".toList = ['a', '\\', ':', 'b', '[', 'c', 'é']) ▸
  (by decide +kernel : [97] ++ (92 :: 58 :: ([98] ++ ([92, 91] ++ ([99] ++ ([92, 117, 48, 48, 101, 57] ++ [])))))
      = ([97, 92, 58, 98, 92, 91, 99, 92, 117, 48, 48, 101, 57] : List UInt8)) ▸
  UriBody.cons 'a' _ _ _ ((by decide +kernel : encChar 'a' = [97]) ▸ UriCh.raw 'a' (by decide) (by decide) (by decide))
    (UriBody.keep ':' 58 (by decide) _ _
    (UriBody.cons 'b' _ _ _ ((by decide +kernel : encChar 'b' = [98]) ▸ UriCh.raw 'b' (by decide) (by decide) (by decide))
    (UriBody.cons '[' _ _ _ (UriCh.punct '[' 91 (by decide))
    (UriBody.cons 'c' _ _ _ ((by decide +kernel : encChar 'c' = [99]) ▸ UriCh.raw 'c' (by decide) (by decide) (by decide))
    (UriBody.cons 'é' _ _ _ (UriCh.u 'é' _ (UEsc.mk 'é' 48 48 101 57 (by decide) ⟨by decide, Or.inl (by decide)⟩
        ⟨by decide, Or.inl (by decide)⟩ ⟨by decide, Or.inl (by decide)⟩ ⟨by decide, Or.inl (by decide)⟩))
    UriBody.nil)))))

end Hs.Zinc
