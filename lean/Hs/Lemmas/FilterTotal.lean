/-
  Totality of the filter lexer's byte loops and scalar readers (C09): with fuel above the number of
  bytes the scanner can still deliver, each of them ends with a value or an error — never `diverge`
  (fuel ran out), `panic` or `depth` — and never moves the scanner backwards.
  Measure: `unread` = peek buffer + reader + the current byte while the end has not been seen.
-/
import Hs.Model.FilterText
namespace Hs.FText
open Hs Hs.Scan Hs.Zinc

/-- bytes the scanner can still deliver (peek buffer, reader), plus the current one while the end
of the input has not been seen -/
def unread (s : Scan) : Nat := s.stash.length + s.inp.length + (if s.eof then 0 else 1)

/-- a successful `read` delivers one byte; a failed one marks the end and delivers nothing -/
theorem read_unread (s : Scan) :
    (s.read.1.isSome = true ∧ unread s.read.2 + 1 = unread s) ∨
    (s.read.1 = none ∧ s.read.2.eof = true ∧ unread s.read.2 ≤ unread s ∧ unread s.read.2 = 0) := by
  unfold Scan.read
  cases hst : s.stash with
  | cons b r =>
    left
    simp [unread, hst]
    omega
  | nil =>
    simp only [Scan.readByte]
    cases hi : s.inp with
    | nil =>
      right
      simp [unread, hst, hi]
    | cons b r =>
      left
      simp [unread, hst, hi]
      omega

theorem advance_unread (s : Scan) (h : s.eof = false) : unread s.advance < unread s := by
  unfold Scan.advance
  rcases read_unread s with ⟨_, h1⟩ | ⟨_, _, _, h3⟩
  · omega
  · rw [h3]; simp [unread, h]

/-- the loops of the scalar readers all have this shape: while the input has not ended and the
current byte is in the class, take it and advance -/
theorem classLoop_total (f : Nat → Scan → List UInt8 → Res (List UInt8 × Scan))
    (cond : Scan → Bool) (step : Scan → List UInt8 → List UInt8)
    (hf0 : ∀ s acc, f 0 s acc = .diverge)
    (hf : ∀ n s acc, f (n + 1) s acc = if !s.eof && cond s then f n s.advance (step s acc) else .ok (acc, s)) :
    ∀ (fuel : Nat) (s : Scan) (acc : List UInt8), unread s < fuel →
      ∃ acc' s', f fuel s acc = .ok (acc', s') ∧ unread s' ≤ unread s := by
  intro fuel
  induction fuel with
  | zero => intro s acc h; omega
  | succ n ih =>
    intro s acc h
    rw [hf]
    split
    · rename_i hc
      have he : s.eof = false := by simp at hc; exact hc.1
      have hlt := advance_unread s he
      obtain ⟨acc', s', h1, h2⟩ := ih s.advance (step s acc) (by omega)
      exact ⟨acc', s', h1, by omega⟩
    · exact ⟨acc, s, rfl, Nat.le_refl _⟩

theorem literalLoop_total (fuel : Nat) (s : Scan) (acc : List UInt8) (h : unread s < fuel) :
    ∃ acc' s', literalLoop fuel s acc = .ok (acc', s') ∧ unread s' ≤ unread s :=
  classLoop_total literalLoop (fun s => s.isAlphaNum || s.cur == 95) (fun s acc => acc ++ [s.cur])
    (fun _ _ => rfl) (fun _ _ _ => by rw [literalLoop]) fuel s acc h

theorem refLoop_total (fuel : Nat) (s : Scan) (acc : List UInt8) (h : unread s < fuel) :
    ∃ acc' s', refLoop fuel s acc = .ok (acc', s') ∧ unread s' ≤ unread s :=
  classLoop_total refLoop (fun s => s.isAlphaNum || isRefPunct s.cur) (fun s acc => acc ++ [s.cur])
    (fun _ _ => rfl) (fun _ _ _ => by rw [refLoop]) fuel s acc h

theorem decimalLoop_total (fuel : Nat) (s : Scan) (acc : List UInt8) (h : unread s < fuel) :
    ∃ acc' s', decimalLoop fuel s acc = .ok (acc', s') ∧ unread s' ≤ unread s :=
  classLoop_total decimalLoop (fun s => s.isDigit || s.cur == 95 || s.cur == 46 || s.cur == 45)
    (fun s acc => if s.cur != 95 then acc ++ [s.cur] else acc)
    (fun _ _ => rfl) (fun _ _ _ => by rw [decimalLoop]) fuel s acc h

theorem unitLoop_total (fuel : Nat) (s : Scan) (acc : List UInt8) (h : unread s < fuel) :
    ∃ acc' s', unitLoop fuel s acc = .ok (acc', s') ∧ unread s' ≤ unread s :=
  classLoop_total unitLoop (fun s => isUnitChar s) (fun s acc => acc ++ [s.cur])
    (fun _ _ => rfl) (fun _ _ _ => by rw [unitLoop]) fuel s acc h

theorem fracLoop_total (fuel : Nat) (s : Scan) (acc : List UInt8) (h : unread s < fuel) :
    ∃ acc' s', fracLoop fuel s acc = .ok (acc', s') ∧ unread s' ≤ unread s :=
  classLoop_total fracLoop (fun s => s.isDigit) (fun s acc => acc ++ [s.cur])
    (fun _ _ => rfl) (fun _ _ _ => by rw [fracLoop]) fuel s acc h

theorem tzNameLoop_total (fuel : Nat) (s : Scan) (acc : List UInt8) (h : unread s < fuel) :
    ∃ acc' s', tzNameLoop fuel s acc = .ok (acc', s') ∧ unread s' ≤ unread s :=
  classLoop_total tzNameLoop (fun s => s.isAlphaNum || s.cur == 95 || s.cur == 47 || s.cur == 43 || s.cur == 45)
    (fun s acc => acc ++ [s.cur])
    (fun _ _ => rfl) (fun _ _ _ => by rw [tzNameLoop]) fuel s acc h


/-- an outcome the property allows: a value or an error -/
def Fine {α : Type} (r : Res α) : Prop := r ≠ .panic ∧ r ≠ .diverge ∧ r ≠ .depth

theorem fine_ok {α : Type} (a : α) : Fine (Res.ok a) := by simp [Fine]
theorem fine_err {α : Type} : Fine (Res.err : Res α) := by simp [Fine]

theorem cws_total : ∀ (fuel : Nat) (s : Scan), unread s < fuel →
    ∃ s', consumeWhiteSpaces fuel s = .ok s' ∧ unread s' ≤ unread s := by
  intro fuel
  induction fuel with
  | zero => intro s h; omega
  | succ n ih =>
    intro s h
    unfold consumeWhiteSpaces
    split
    · exact ⟨s, rfl, Nat.le_refl _⟩
    · rcases read_unread s with ⟨h1, h2⟩ | ⟨h1, _, h3, _⟩
      · split
        · rename_i x s' heq
          rw [heq] at h2
          simp only at h2
          obtain ⟨s'', h3, h4⟩ := ih s' (by omega)
          exact ⟨s'', h3, by omega⟩
        · rename_i s' heq
          rw [heq] at h1; simp at h1
      · split
        · rename_i x s' heq; rw [heq] at h1; simp at h1
        · rename_i s' heq
          rw [heq] at h3
          exact ⟨s', rfl, h3⟩


theorem css_total : ∀ (fuel : Nat) (s : Scan), unread s < fuel →
    ∃ s', consumeSpaces fuel s = .ok s' ∧ unread s' ≤ unread s := by
  intro fuel
  induction fuel with
  | zero => intro s h; omega
  | succ n ih =>
    intro s h
    unfold consumeSpaces
    split
    · exact ⟨s, rfl, Nat.le_refl _⟩
    · rcases read_unread s with ⟨h1, h2⟩ | ⟨h1, _, h3, _⟩
      · split
        · rename_i x s' heq
          rw [heq] at h2
          simp only at h2
          obtain ⟨s'', h3, h4⟩ := ih s' (by omega)
          exact ⟨s'', h3, by omega⟩
        · rename_i s' heq
          rw [heq] at h1; simp at h1
      · split
        · rename_i x s' heq; rw [heq] at h1; simp at h1
        · rename_i s' heq
          rw [heq] at h3
          exact ⟨s', rfl, h3⟩

theorem advance_le (s : Scan) : unread s.advance ≤ unread s := by
  unfold Scan.advance
  rcases read_unread s with ⟨_, h1⟩ | ⟨_, _, h3, _⟩ <;> omega

theorem readQ_unread {s s1 : Scan} (h : s.readQ = .ok s1) : unread s1 + 1 = unread s := by
  unfold Scan.readQ at h
  rcases read_unread s with ⟨h1, h2⟩ | ⟨h1, _⟩
  · cases hr : s.read with
    | mk o s' =>
      rw [hr] at h h1 h2
      cases o with
      | none => simp at h1
      | some b => simp only [Res.ok.injEq] at h; subst h; exact h2
  · cases hr : s.read with
    | mk o s' =>
      rw [hr] at h h1
      simp only at h1
      subst h1
      simp at h

/-- an escape reader's outcome: an error, or bytes and a scanner that has not gone backwards -/
def EscOk (s : Scan) (r : Res (List UInt8 × Scan)) : Prop :=
  r = .err ∨ ∃ bs s', r = .ok (bs, s') ∧ unread s' ≤ unread s

theorem parseUnicodeEscape_spec (s : Scan) : EscOk s (parseUnicodeEscape s) := by
  unfold parseUnicodeEscape
  split
  · exact Or.inl rfl
  · split
    · rename_i s1 h1
      have u1 := readQ_unread h1
      split
      · exact Or.inl rfl
      · split
        · rename_i s2 h2
          have u2 := readQ_unread h2
          split
          · exact Or.inl rfl
          · split
            · rename_i s3 h3
              have u3 := readQ_unread h3
              split
              · exact Or.inl rfl
              · split
                · rename_i s4 h4
                  have u4 := readQ_unread h4
                  split
                  · exact Or.inl rfl
                  · exact Or.inr ⟨_, s4, rfl, by omega⟩
                · exact Or.inl rfl
            · exact Or.inl rfl
        · exact Or.inl rfl
    · exact Or.inl rfl

/-- … that has moved on by at least one byte -/
def EscOk1 (s : Scan) (r : Res (List UInt8 × Scan)) : Prop :=
  r = .err ∨ ∃ bs s', r = .ok (bs, s') ∧ unread s' + 1 ≤ unread s

theorem parseStrEscape_spec (s : Scan) : EscOk1 s (parseStrEscape s) := by
  unfold parseStrEscape
  split
  · rename_i s1 h1
    have u1 := readQ_unread h1
    simp only
    repeat' split
    all_goals first
      | exact Or.inl rfl
      | exact Or.inr ⟨_, s1, rfl, by omega⟩
      | (rcases parseUnicodeEscape_spec s1 with h | ⟨bs, s', h, hu⟩
         · exact Or.inl h
         · exact Or.inr ⟨bs, s', h, by omega⟩)
  · exact Or.inl rfl

/-- `Fine` for a reader's result together with "the scanner has not gone backwards" -/
def FineLe {α : Type} (s : Scan) (r : Res (α × Scan)) : Prop :=
  r = .err ∨ ∃ a s', r = .ok (a, s') ∧ unread s' ≤ unread s

theorem FineLe.fine {α : Type} {s : Scan} {r : Res (α × Scan)} (h : FineLe s r) : Fine r := by
  rcases h with h | ⟨a, s', h, _⟩ <;> subst h <;> simp [Fine]

theorem FineLe.mono {α : Type} {s1 s : Scan} {r : Res (α × Scan)} (hm : unread s1 ≤ unread s) (h : FineLe s1 r) :
    FineLe s r := by
  rcases h with h | ⟨a, s', h, hu⟩
  · exact Or.inl h
  · exact Or.inr ⟨a, s', h, by omega⟩

/-- the body loop of `parse_str` ends with a value or an error -/
theorem strLoop_fine : ∀ (fuel : Nat) (s : Scan) (acc : List UInt8), unread s < fuel → FineLe s (strLoop fuel s acc) := by
  intro fuel
  induction fuel with
  | zero => intro s acc h; omega
  | succ n ih =>
    intro s acc h
    unfold strLoop
    split
    · exact Or.inr ⟨_, _, rfl, Nat.le_refl _⟩
    · split
      · exact Or.inl rfl
      · rename_i he
        have he' : s.eof = false := by simpa using he
        split
        · rcases parseStrEscape_spec s with h1 | ⟨bs, s', h1, hu⟩
          · rw [h1]; exact Or.inl rfl
          · rw [h1]
            simp only
            have := advance_le s'
            exact FineLe.mono (by omega) (ih _ _ (by omega))
        · have hadv := advance_unread s he'
          exact FineLe.mono (by omega) (ih _ _ (by omega))


theorem peek_unread (s : Scan) : unread s.peek.2 ≤ unread s := by
  unfold Scan.peek Scan.readByte
  cases hi : s.inp with
  | nil => simp [unread, hi]
  | cons b r => simp [unread, hi]; omega

theorem uriLoop_fine : ∀ (fuel : Nat) (s : Scan) (acc : List UInt8), unread s < fuel → FineLe s (uriLoop fuel s acc) := by
  intro fuel
  induction fuel with
  | zero => intro s acc h; omega
  | succ n ih =>
    intro s acc h
    unfold uriLoop
    split
    · exact Or.inr ⟨_, _, rfl, Nat.le_refl _⟩
    · split
      · exact Or.inl rfl
      · rename_i he
        have he' : s.eof = false := by simpa using he
        have hadv := advance_unread s he'
        split
        · cases hpk : s.peek with
          | mk o s1 =>
            have hp := peek_unread s
            rw [hpk] at hp
            simp only at hp
            cases o with
            | none => exact Or.inl rfl
            | some nx =>
              simp only
              split
              · split
                · rename_i s2 h2
                  have := readQ_unread h2
                  have := advance_le s2
                  exact FineLe.mono (by omega) (ih _ _ (by omega))
                · exact Or.inl rfl
              · split
                · split
                  · rename_i s2 h2
                    have := readQ_unread h2
                    have := advance_le s2
                    exact FineLe.mono (by omega) (ih _ _ (by omega))
                  · exact Or.inl rfl
                · split
                  · rename_i s2 h2
                    have u2 := readQ_unread h2
                    rcases parseUnicodeEscape_spec s2 with h3 | ⟨bs, s3, h3, hu⟩
                    · rw [h3]; exact Or.inl rfl
                    · rw [h3]
                      simp only
                      have := advance_le s3
                      exact FineLe.mono (by omega) (ih _ _ (by omega))
                  · exact Or.inl rfl
        · exact FineLe.mono (by omega) (ih _ _ (by omega))


theorem parseStr_fine (fuel : Nat) (s : Scan) (h : unread s < fuel) : FineLe s (parseStr fuel s) := by
  unfold parseStr
  simp only
  split
  · exact Or.inl rfl
  · have hadv := advance_le s
    rcases strLoop_fine fuel s.advance [] (by omega) with h1 | ⟨acc, s', h1, hu⟩
    · rw [h1]; exact Or.inl rfl
    · rw [h1]
      simp only
      split
      · exact Or.inl rfl
      · exact Or.inr ⟨_, _, rfl, by have := advance_le s'; omega⟩

theorem parseUri_fine (fuel : Nat) (s : Scan) (h : unread s < fuel) : FineLe s (parseUri fuel s) := by
  unfold parseUri
  simp only
  split
  · exact Or.inl rfl
  · have hadv := advance_le s
    rcases uriLoop_fine fuel s.advance [] (by omega) with h1 | ⟨acc, s', h1, hu⟩
    · rw [h1]; exact Or.inl rfl
    · rw [h1]
      simp only
      split
      · exact Or.inl rfl
      · exact Or.inr ⟨_, _, rfl, by have := advance_le s'; omega⟩

theorem parseLiteral_fine (fuel : Nat) (s : Scan) (h : unread s < fuel) : FineLe s (parseLiteral fuel s) := by
  unfold parseLiteral
  obtain ⟨acc, s', h1, hu⟩ := literalLoop_total fuel s [] h
  rw [h1]
  simp only
  split
  · exact Or.inl rfl
  · exact Or.inr ⟨_, _, rfl, hu⟩

theorem parseId_fine (fuel : Nat) (s : Scan) (h : unread s < fuel) : FineLe s (parseId fuel s) := by
  unfold parseId
  split
  · exact Or.inl rfl
  · exact parseLiteral_fine fuel s h

theorem parseSymbol_fine (fuel : Nat) (s : Scan) (h : unread s < fuel) : FineLe s (parseSymbol fuel s) := by
  unfold parseSymbol
  split
  · exact Or.inl rfl
  · simp only
    split
    · exact Or.inl rfl
    · have hadv := advance_le s
      obtain ⟨acc, s', h1, hu⟩ := refLoop_total fuel s.advance [] (by omega)
      rw [h1]
      simp only
      split
      · exact Or.inl rfl
      · exact Or.inr ⟨_, _, rfl, by omega⟩

theorem parseRef_fine (fuel : Nat) (s : Scan) (h : unread s < fuel) : FineLe s (parseRef fuel s) := by
  unfold parseRef
  split
  · exact Or.inl rfl
  · have hadv := advance_le s
    obtain ⟨acc, s1, h1, hu⟩ := refLoop_total fuel s.advance [] (by omega)
    rw [h1]
    simp only
    split
    · exact Or.inl rfl
    · split
      · cases hpk : s1.peek with
        | mk o s2 =>
          have hp := peek_unread s1
          rw [hpk] at hp
          simp only at hp
          cases o with
          | none => exact Or.inr ⟨_, _, rfl, by omega⟩
          | some nx =>
            simp only
            split
            · split
              · rename_i s3 h3
                have u3 := readQ_unread h3
                rcases parseStr_fine fuel s3 (by omega) with h4 | ⟨dis, s4, h4, hu4⟩
                · rw [h4]; exact Or.inl rfl
                · rw [h4]; exact Or.inr ⟨_, _, rfl, by omega⟩
              · exact Or.inl rfl
            · exact Or.inr ⟨_, _, rfl, by omega⟩
      · exact Or.inr ⟨_, _, rfl, by omega⟩


/-! ### the numeric reader -/

/-- like `FineLe`, with slack `k` (the `is_eof = false` reset of `parse_number_date_time` revives the
current byte) -/
def FineK {α : Type} (k : Nat) (s : Scan) (r : Res (α × Scan)) : Prop :=
  r = .err ∨ ∃ a s', r = .ok (a, s') ∧ unread s' ≤ unread s + k

theorem FineLe.toK {α : Type} {s : Scan} {r : Res (α × Scan)} (h : FineLe s r) : FineK 0 s r := by
  rcases h with h | ⟨a, s', h, hu⟩
  · exact Or.inl h
  · exact Or.inr ⟨a, s', h, by omega⟩

theorem parseDecimal_fine (fuel : Nat) (s : Scan) (h : unread s < fuel) : FineLe s (parseDecimal fuel s) := by
  unfold parseDecimal
  obtain ⟨acc, s', h1, hu⟩ := decimalLoop_total fuel s [] h
  rw [h1]
  simp only
  split
  · exact Or.inr ⟨_, _, rfl, hu⟩
  · exact Or.inl rfl

theorem parseExponent_fine (fuel : Nat) (s : Scan) (h : unread s < fuel) : FineLe s (parseExponent fuel s) := by
  unfold parseExponent
  split
  · exact Or.inl rfl
  · simp only
    have hadv := advance_le s
    split
    · split
      · rename_i s2 h2
        have u2 := readQ_unread h2
        rcases parseDecimal_fine fuel s2 (by omega) with h3 | ⟨ex, s3, h3, hu3⟩
        · rw [h3]; exact Or.inl rfl
        · rw [h3]; exact Or.inr ⟨_, _, rfl, by omega⟩
      · exact Or.inl rfl
    · rcases parseDecimal_fine fuel s.advance (by omega) with h3 | ⟨ex, s3, h3, hu3⟩
      · rw [h3]; exact Or.inl rfl
      · rw [h3]; exact Or.inr ⟨_, _, rfl, by omega⟩

end Hs.FText
