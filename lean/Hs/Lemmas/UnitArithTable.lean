/-
  Hs.Lemmas.UnitArithTable — facts about the REGENERATED unit table `Hs.Gen.UnitsQ` (443 units, 946
  entries at the time of writing), each by one linear kernel evaluation over the whole table and lifted
  to `∀ u ∈ units`.  Re-checked whenever units_generated.rs changes.
-/
import Hs.Lemmas.UnitArith
import Hs.Gen.UnitsQ
namespace Hs.UnitArith
open Hs Hs.Gen.UnitsQ

/-- the row-wise facts the theorems of C16 need -/
def rowOk (u : QUnit) : Bool :=
  decide (0 < u.scale)                                   -- no zero (or negative) scale
    && (match u.dims with | some d => d.small | none => true)   -- exponents in −64 … 63
    && !u.ids.isEmpty                                    -- so it is not `Unit::default()`
    && (!u.isByte || decide (u.dims = none))             -- byte units all have `dimensions: None`

theorem rows_ok : units.all rowOk = true := by decide +kernel

theorem units_length : units.length = 443 := by decide +kernel

theorem entries_idx_ok : entries.all (fun e => decide (e.2 < 443)) = true := by decide +kernel

theorem rowOk_of_mem {u : QUnit} (h : u ∈ units) : rowOk u = true :=
  List.all_eq_true.mp rows_ok u h

/-- no database unit has scale 0 (all scales are positive) -/
theorem scale_pos {u : QUnit} (h : u ∈ units) : 0 < u.scale := by
  have := rowOk_of_mem h
  simp only [rowOk, Bool.and_eq_true, decide_eq_true_eq] at this
  exact this.1.1.1

theorem scale_ne_zero {u : QUnit} (h : u ∈ units) : u.scale ≠ 0 := ne_of_gt (scale_pos h)

theorem dims_small {u : QUnit} (h : u ∈ units) {d : Dims} (hd : u.dims = some d) : d.small = true := by
  have := rowOk_of_mem h
  simp only [rowOk, Bool.and_eq_true, hd] at this
  exact this.1.1.2

theorem ne_default {u : QUnit} (h : u ∈ units) : u ≠ defaultUnit := by
  have := rowOk_of_mem h
  simp only [rowOk, Bool.and_eq_true] at this
  intro e
  rw [e] at this
  simp [defaultUnit] at this

/-- on the database the byte rule of `convert_to` adds nothing: byte units all have the same (no) dimension -/
theorem byte_dims {u : QUnit} (h : u ∈ units) (hb : u.isByte = true) : u.dims = none := by
  have := rowOk_of_mem h
  simp only [rowOk, Bool.and_eq_true, hb] at this
  simpa using this.2

/-- the units behind the `UNITS` entries, in the order of the array literal -/
def dbEntries : List QUnit := entryUnits units entries

theorem dbEntries_subset : ∀ u ∈ dbEntries, u ∈ units := by
  apply entryUnits_subset
  intro e he
  have := List.all_eq_true.mp entries_idx_ok e he
  rw [units_length]
  simpa using this

/-- no sum or difference of two database dimension vectors leaves the `i8` range -/
theorem dims_add_sub_in_i8 {a b : QUnit} (ha : a ∈ units) (hb : b ∈ units) {d1 d2 : Dims}
    (h1 : a.dims = some d1) (h2 : b.dims = some d2) :
    (d1.add d2).inI8 = true ∧ (d1.sub d2).inI8 = true :=
  Dims.small_add_sub d1 d2 (dims_small ha h1) (dims_small hb h2)

end Hs.UnitArith
