/-
  Hs.Lemmas.ZincTotalSat — C03: the outcome predicate `Res.Sat` used by every totality lemma, and the
  small tactic kit (`res_auto`) that walks the code-mirroring `if`/`match` trees of the model.

  `r.Sat fuel m Q` says: `r` is not `panic`, not `depth`; if it is `ok a` then `Q a`; and if it is
  `diverge` then `fuel ≤ m` (read: "the fuel was not above the budget `m`").
-/
import Lean
import Hs.Lemmas.ZincTotalScan
namespace Hs
open Scan

def Res.Sat {α} (r : Res α) (fuel m : Nat) (Q : α → Prop) : Prop :=
  match r with
  | .ok a => Q a
  | .err => True
  | .panic => False
  | .depth => False
  | .diverge => fuel ≤ m

@[simp] theorem Res.Sat_ok {α} (a : α) (fuel m) (Q : α → Prop) : (Res.ok a).Sat fuel m Q = Q a := rfl
@[simp] theorem Res.Sat_err {α} (fuel m) (Q : α → Prop) : (Res.err : Res α).Sat fuel m Q = True := rfl
@[simp] theorem Res.Sat_panic {α} (fuel m) (Q : α → Prop) : (Res.panic : Res α).Sat fuel m Q = False := rfl
@[simp] theorem Res.Sat_depth {α} (fuel m) (Q : α → Prop) : (Res.depth : Res α).Sat fuel m Q = False := rfl
@[simp] theorem Res.Sat_diverge {α} (fuel m) (Q : α → Prop) :
    (Res.diverge : Res α).Sat fuel m Q = (fuel ≤ m) := rfl

theorem Res.Sat.mono {α} {r : Res α} {fuel m fuel' m'} {Q Q' : α → Prop}
    (h : r.Sat fuel m Q) (hf : fuel ≤ m → fuel' ≤ m') (hq : ∀ a, Q a → Q' a) : r.Sat fuel' m' Q' := by
  cases r <;> simp_all

theorem Res.Sat.of_eq {α} {r v : Res α} {fuel m} {Q : α → Prop}
    (h : r.Sat fuel m Q) (e : r = v) : v.Sat fuel m Q := e ▸ h

theorem Res.Sat.ne_panic {α} {r : Res α} {fuel m} {Q : α → Prop} (h : r.Sat fuel m Q) : r ≠ .panic := by
  intro e; rw [e] at h; exact h
theorem Res.Sat.ne_depth {α} {r : Res α} {fuel m} {Q : α → Prop} (h : r.Sat fuel m Q) : r ≠ .depth := by
  intro e; rw [e] at h; exact h
theorem Res.Sat.ne_diverge {α} {r : Res α} {fuel m} {Q : α → Prop} (h : r.Sat fuel m Q) (hf : m < fuel) :
    r ≠ .diverge := by
  intro e; rw [e] at h; exact absurd h (Nat.not_le.2 hf)
theorem Res.Sat.post {α} {r : Res α} {fuel m} {Q : α → Prop} (h : r.Sat fuel m Q) {a} (e : r = .ok a) : Q a := by
  rw [e] at h; exact h

theorem Res.Sat.and {α} {r : Res α} {fuel m fuel' m'} {Q Q' : α → Prop}
    (h : r.Sat fuel m Q) (h' : r.Sat fuel' m' Q') : r.Sat fuel m (fun a => Q a ∧ Q' a) := by
  cases r <;> simp_all

theorem Res.Sat.ok_intro {α} {a : α} {fuel m} {Q : α → Prop} (h : Q a) : (Res.ok a).Sat fuel m Q := h
theorem Res.Sat.err_intro {α} {fuel m} {Q : α → Prop} : (Res.err : Res α).Sat fuel m Q := True.intro
theorem Res.Sat.diverge_intro {α} {fuel m} {Q : α → Prop} (h : fuel ≤ m) :
    (Res.diverge : Res α).Sat fuel m Q := h

theorem Res.Sat.ite_intro {α} {c : Prop} [Decidable c] {a b : Res α} {fuel m} {Q : α → Prop}
    (ht : c → a.Sat fuel m Q) (hf : ¬c → b.Sat fuel m Q) : (if c then a else b).Sat fuel m Q := by
  split
  · exact ht ‹_›
  · exact hf ‹_›

/-- lexer-level spec of a fuelled reader: the measure does not grow; `diverge` only with `fuel ≤ mu` -/
abbrev LS {α} (r : Res (α × Scan)) (fuel : Nat) (s : Scan) : Prop :=
  r.Sat fuel s.mu (fun o => o.2.mu ≤ s.mu)
/-- the same for a reader without loops (`diverge` impossible) -/
abbrev LS0 {α} (r : Res (α × Scan)) (s : Scan) : Prop :=
  r.Sat 1 0 (fun o => o.2.mu ≤ s.mu)
/-- readers returning just the scanner -/
abbrev SS (r : Res Scan) (fuel : Nat) (s : Scan) : Prop :=
  r.Sat fuel s.mu (fun s' => s'.mu ≤ s.mu)
abbrev SS0 (r : Res Scan) (s : Scan) : Prop :=
  r.Sat 1 0 (fun s' => s'.mu ≤ s.mu)

theorem LS.tail {α} {r : Res (α × Scan)} {n s s'} (h : LS r n s') (hlt : s'.mu < s.mu) : LS r (n+1) s :=
  Res.Sat.mono h (by omega) (by intro a (h : a.2.mu ≤ _); show a.2.mu ≤ _; omega)
theorem SS.tail {r : Res Scan} {n s s'} (h : SS r n s') (hlt : s'.mu < s.mu) : SS r (n+1) s :=
  Res.Sat.mono h (by omega) (by intro a (h : a.mu ≤ _); show a.mu ≤ _; omega)

grind_pattern advance_mu => mu (advance s)
grind_pattern advance_mu_lt => mu (advance s)

/-- arithmetic side goals: facts about `mu` collected in the context, plus `advance` -/
syntax "res_arith" : tactic
macro_rules | `(tactic| res_arith) => `(tactic| first | omega | grind)

/-- close a `Sat` goal from another `Sat` fact about the same outcome (weakening by arithmetic) -/
syntax "res_from " term : tactic
macro_rules | `(tactic| res_from $t) => `(tactic|
  exact Res.Sat.mono $t (by res_arith) (by intro a h; first | exact True.intro | ((try dsimp only at h ⊢); res_arith)))

open Lean Elab Tactic Meta in
/-- `h : f a b … = outcome`: add what the spec of `f` says about `outcome`.  The spec is the lemma `f_spec`
if it exists, else the field `ih.f` of a local induction hypothesis `ih` (mutual induction on fuel). -/
elab "res_fact_named " h:ident : tactic => withMainContext do
  let hd ← getLocalDeclFromUserName h.getId
  let ty ← instantiateMVars hd.type
  let some (_, lhs, _) := ty.eq? | throwError "res_fact_named: not an equation"
  let .const n _ := lhs.consumeMData.getAppFn.consumeMData | throwError "res_fact_named: no head constant"
  let specName := n.appendAfter "_spec"
  let specId ←
    if (← getEnv).contains specName then pure (mkIdent specName)
    else
      let .str _ short := n | throwError "res_fact_named: anonymous"
      unless (← getLCtx).findFromUserName? `ih |>.isSome do throwError "res_fact_named: no spec for {n}"
      pure (mkIdent (Name.mkStr2 "ih" short))
  evalTactic (← `(tactic|
    (have hh := Res.Sat.of_eq ($specId ..) $h
     simp only [Res.Sat_ok, Res.Sat_err, Res.Sat_panic, Res.Sat_depth, Res.Sat_diverge] at hh)))

open Lean Elab Tactic Meta in
/-- the goal is `Res.Sat (f a b …) …`: weaken the spec of `f` (lemma `f_spec`, else `ih.f`) to the goal -/
elab "res_tail_named" : tactic => withMainContext do
  let g ← whnfR (← instantiateMVars (← getMainTarget))
  match g.getAppFnArgs with
  | (``Hs.Res.Sat, args) =>
    let .const n _ := args[1]!.consumeMData.getAppFn.consumeMData | throwError "res_tail_named: no head constant"
    let specName := n.appendAfter "_spec"
    let specId ←
      if (← getEnv).contains specName then pure (mkIdent specName)
      else
        let .str _ short := n | throwError "res_tail_named: anonymous"
        unless (← getLCtx).findFromUserName? `ih |>.isSome do throwError "res_tail_named: no spec for {n}"
        pure (mkIdent (Name.mkStr2 "ih" short))
    evalTactic (← `(tactic| res_from ($specId ..)))
  | _ => throwError "res_tail_named: not a Sat goal"

/-- derive the consequences of a hypothesis `h : call = outcome`: a registered rule (`res_use`), else the
lemma `f_spec` named after the called function, else the scanner primitives -/
syntax "res_fact " ident : tactic
macro_rules | `(tactic| res_fact $h) => `(tactic|
  first
  | res_fact_named $h
  | have := readQ_mu $h
  | have := read_mu_some $h
  | have := read_mu_none $h
  | have := read_mu $h
  | have := peek_mu $h
  | skip)

/-- close a goal that is the spec of a call to an already specified function (extensible by `res_use`) -/
syntax "res_tail" : tactic
macro_rules | `(tactic| res_tail) => `(tactic| res_tail_named)

syntax "res_use_fact " term : command
syntax "res_use_tail " term : command
/-- register a proved spec `t : (f _ _).Sat …` with `res_fact` and `res_tail` -/
syntax "res_use " term : command
macro_rules
  | `(command| res_use_fact $t) => `(command|
    macro_rules | `(tactic| res_fact $$h) => `(tactic|
      (have hh := Res.Sat.of_eq $t $$h
       simp only [Res.Sat_ok, Res.Sat_err, Res.Sat_panic, Res.Sat_depth, Res.Sat_diverge] at hh)))
macro_rules
  | `(command| res_use_tail $t) => `(command|
    macro_rules | `(tactic| res_tail) => `(tactic| res_from $t))
macro_rules
  | `(command| res_use $t) => `(res_use_fact $t res_use_tail $t)

open Lean Elab Tactic Meta in
/-- succeeds iff the goal is `Res.Sat r …` and the head symbol of `r` is the given constant (a purely
syntactic test: keeps the unifier away from the big `if`/`match` trees) -/
elab "res_is " c:ident : tactic => do
  let g ← whnfR (← instantiateMVars (← getMainTarget))
  let n ← realizeGlobalConstNoOverload c
  match g.getAppFnArgs with
  | (``Hs.Res.Sat, args) =>
    let r := args[1]!.consumeMData
    unless r.getAppFn.consumeMData.isConstOf n do throwError "res_is: head is not {n}"
  | _ => throwError "res_is: not a Sat goal"

syntax "res_leaf" : tactic
macro_rules | `(tactic| res_leaf) => `(tactic|
  first
  | (res_is Res.err; exact Res.Sat.err_intro)
  | (res_is Res.ok; refine Res.Sat.ok_intro ?_; first | exact True.intro | ((try dsimp only); res_arith))
  | (res_is Res.diverge; refine Res.Sat.diverge_intro ?_; res_arith))

syntax "res_step" : tactic
macro_rules | `(tactic| res_step) => `(tactic|
  first
  | (res_is ite; refine Res.Sat.ite_intro (fun hc => ?_) (fun hc => ?_))
  | (split <;> (try (rename_i heq; res_fact heq))))

/-- split a bind-like `match e with …` whose scrutinee `e` is an inline expression (a `let`-bound block of the
model): its spec (budget `m`, post-condition `Q`) is proved on the spot by `res_auto` -/
syntax "res_split_inline " term:max term:max term:max : tactic

syntax "res_auto" : tactic
macro_rules | `(tactic| res_auto) => `(tactic|
  repeat' (first | res_leaf | res_step | dsimp only | res_tail | fail "res_auto: stuck"))

macro_rules
  | `(tactic| res_split_inline $fuel $m $Q) => `(tactic|
    (split <;>
      (rename_i heq
       have hh := Res.Sat.of_eq (fuel := $fuel) (m := $m) (Q := $Q) (by res_auto) heq
       simp only [Res.Sat_ok, Res.Sat_err, Res.Sat_panic, Res.Sat_depth, Res.Sat_diverge] at hh)))

end Hs
