/-
  Hs.Lemmas.FilterTotal2Lex — C09: the filter lexer (`Lexer::read` of filter/lexer.rs) is total and makes
  progress.  For every scanner state `lexRead`
  * never yields `panic` / `depth`, and `diverge` only when `fuel ≤ mu + 1`
    (one re-entry after a run of white space, as in the Zinc lexer);
  * leaves the scanner measure `Scan.mu` no larger than it found it — also when it fails
    (`Hs.Lemmas.FilterTotal2Err`) — and strictly smaller when it returns a token away from the end of the input;
  * returns the token `none` only together with `eof`.
  The outcome predicate `TokR.Sat` is `Res.Sat` for the lexer's outcome type `TokR` (its `err` carries a scanner).
-/
import Hs.Lemmas.FilterTotal2Err
import Hs.Model.FilterText
namespace Hs.FText
open Hs Hs.Scan Hs.Zinc

/-- `r` is not `panic`, not `depth`; `ok s t` satisfies `Qok s t`; `err s` satisfies `Qerr s`; `diverge` only with
`fuel ≤ m` -/
def TokR.Sat (r : TokR) (fuel m : Nat) (Qok : Scan → FTok → Prop) (Qerr : Scan → Prop) : Prop :=
  match r with
  | .ok s t => Qok s t
  | .err s => Qerr s
  | .panic => False
  | .depth => False
  | .diverge => fuel ≤ m

@[simp] theorem TokR.Sat_ok (s t fuel m Qok Qerr) : (TokR.ok s t).Sat fuel m Qok Qerr = Qok s t := rfl
@[simp] theorem TokR.Sat_err (s fuel m Qok Qerr) : (TokR.err s).Sat fuel m Qok Qerr = Qerr s := rfl
@[simp] theorem TokR.Sat_panic (fuel m Qok Qerr) : TokR.panic.Sat fuel m Qok Qerr = False := rfl
@[simp] theorem TokR.Sat_depth (fuel m Qok Qerr) : TokR.depth.Sat fuel m Qok Qerr = False := rfl
@[simp] theorem TokR.Sat_diverge (fuel m Qok Qerr) : TokR.diverge.Sat fuel m Qok Qerr = (fuel ≤ m) := rfl

theorem TokR.Sat.mono {r : TokR} {fuel m fuel' m' Qok Qok' Qerr Qerr'}
    (h : r.Sat fuel m Qok Qerr) (hf : fuel ≤ m → fuel' ≤ m') (hok : ∀ s t, Qok s t → Qok' s t)
    (herr : ∀ s, Qerr s → Qerr' s) : r.Sat fuel' m' Qok' Qerr' := by
  cases r <;> simp_all

theorem TokR.Sat.ne_panic {r : TokR} {fuel m Qok Qerr} (h : r.Sat fuel m Qok Qerr) : r ≠ .panic := by
  intro e; rw [e] at h; exact h
theorem TokR.Sat.ne_depth {r : TokR} {fuel m Qok Qerr} (h : r.Sat fuel m Qok Qerr) : r ≠ .depth := by
  intro e; rw [e] at h; exact h
theorem TokR.Sat.ne_diverge {r : TokR} {fuel m Qok Qerr} (h : r.Sat fuel m Qok Qerr) (hf : m < fuel) :
    r ≠ .diverge := by
  intro e; rw [e] at h; exact absurd h (Nat.not_le.2 hf)
theorem TokR.Sat.post_ok {r : TokR} {fuel m Qok Qerr} (h : r.Sat fuel m Qok Qerr) {s t} (e : r = .ok s t) :
    Qok s t := by
  rw [e] at h; exact h
theorem TokR.Sat.post_err {r : TokR} {fuel m Qok Qerr} (h : r.Sat fuel m Qok Qerr) {s} (e : r = .err s) :
    Qerr s := by
  rw [e] at h; exact h

/-- close a `TokR.Sat` goal from another `TokR.Sat` fact about the same outcome (weakening by arithmetic) -/
syntax "tok_from " term : tactic
macro_rules | `(tactic| tok_from $t) => `(tactic|
  exact TokR.Sat.mono $t (by res_arith) (by intro a b h; (try dsimp only at h ⊢); res_arith)
    (by intro a h; (try dsimp only at h ⊢); res_arith))

theorem TokR.Sat.ite_intro {c : Prop} [Decidable c] {a b : TokR} {fuel m Qok Qerr}
    (ht : c → a.Sat fuel m Qok Qerr) (hf : ¬c → b.Sat fuel m Qok Qerr) :
    (if c then a else b).Sat fuel m Qok Qerr := by
  split
  · exact ht ‹_›
  · exact hf ‹_›

open Lean Elab Tactic Meta in
/-- succeeds iff the goal is `TokR.Sat r …` and the head symbol of `r` is the given constant (syntactic test) -/
elab "tok_is " c:ident : tactic => do
  let g ← whnfR (← instantiateMVars (← getMainTarget))
  let n ← realizeGlobalConstNoOverload c
  match g.getAppFnArgs with
  | (``Hs.FText.TokR.Sat, args) =>
    let r := args[0]!.consumeMData
    unless r.getAppFn.consumeMData.isConstOf n do throwError "tok_is: head is not {n}"
  | _ => throwError "tok_is: not a TokR.Sat goal"

syntax "tok_leaf" : tactic
macro_rules | `(tactic| tok_leaf) => `(tactic|
  (simp only [TokR.Sat_ok, TokR.Sat_err, TokR.Sat_panic, TokR.Sat_depth, TokR.Sat_diverge]; res_arith))

/-- walk the `if`/`match` tree of a lexer function (the analogue of `res_auto`); calls in tail position are
left to the caller -/
syntax "tok_auto" : tactic
macro_rules | `(tactic| tok_auto) => `(tactic|
  repeat' (first
    | (tok_is ite; refine TokR.Sat.ite_intro (fun hc => ?_) (fun hc => ?_))
    | (split <;> (try (rename_i heq; res_fact heq)))
    | dsimp only
    | tok_leaf))

/-! ### strict progress of the readers the lexer starts on a byte of their alphabet -/

/-- budget and strict progress in one statement -/
abbrev LB {α} (r : Res (α × Scan)) (fuel : Nat) (s : Scan) : Prop :=
  r.Sat fuel s.mu (fun o => o.2.mu ≤ s.mu ∧ o.2.mu < s.mu)

theorem parseStr_both (fuel : Nat) (s) (he : s.eof = false := by assumption) : LB (parseStr fuel s) fuel s :=
  (parseStr_spec fuel s).and (parseStr_strict fuel s)
theorem parseUri_both (fuel : Nat) (s) (he : s.eof = false := by assumption) : LB (parseUri fuel s) fuel s :=
  (parseUri_spec fuel s).and (parseUri_strict fuel s)
theorem parseRef_both (fuel : Nat) (s) (he : s.eof = false := by assumption) : LB (parseRef fuel s) fuel s :=
  (parseRef_spec fuel s).and (parseRef_strict fuel s)
theorem parseSymbol_both (fuel : Nat) (s) (he : s.eof = false := by assumption) : LB (parseSymbol fuel s) fuel s :=
  (parseSymbol_spec fuel s).and (parseSymbol_strict fuel s)
theorem parseId_both (fuel : Nat) (s) (he : s.eof = false := by assumption) : LB (parseId fuel s) fuel s :=
  (parseId_spec fuel s).and (parseId_strict fuel s)
theorem ndt_both (fuel : Nat) (s) (he : s.eof = false := by assumption)
    (hd : (isDigitB s.cur || s.cur == 45) = true := by assumption) : LB (parseNumberDateTime fuel s) fuel s :=
  (parseNumberDateTime_spec fuel s).and (parseNumberDateTime_strict fuel s he hd)
res_use (parseStr_both _ _)
res_use (parseUri_both _ _)
res_use (parseRef_both _ _)
res_use (parseSymbol_both _ _)
res_use (parseId_both _ _)
res_use (ndt_both _ _)

/-- `consume_white_spaces` on a white-space byte makes progress -/
theorem consumeWhiteSpaces_strict {n : Nat} {s s' : Scan} (hs : s.isWhiteSpace = true) (he : s.eof = false)
    (h : consumeWhiteSpaces (n + 1) s = .ok s') : s'.mu < s.mu := by
  rw [consumeWhiteSpaces] at h
  simp only [hs, Bool.not_true, Bool.false_eq_true, if_false] at h
  split at h
  · next b s1 hr =>
    have h1 := read_mu_some hr
    have h2 := (consumeWhiteSpaces_spec n s1).post h
    omega
  · next s1 hr =>
    cases h
    exact (read_mu_none hr).2.1 he

/-! ### `greater_or_less`, `parse_path`, the identifier arm -/

theorem greaterOrLess_spec (s : Scan) (t0 t1 : FTok) (he : s.eof = false) :
    (greaterOrLess s t0 t1).Sat 1 0 (fun s' t => s'.mu < s.mu ∧ (t = t0 ∨ t = t1)) (fun s' => s'.mu ≤ s.mu) := by
  unfold greaterOrLess
  have h0 := mu_not_eof he
  split
  · next ch s1 hp =>
    have k := peek_some hp
    have km := peek_mu_some hp
    have he1 : s1.eof = false := by rw [k.2.1, he]
    have := advance_mu_lt he1
    tok_auto
  · next s1 hp =>
    have k := peek_none hp
    have hm := mu_eof k.2.1
    tok_auto

/-- `parse_path`: each further segment consumes at least one byte -/
theorem pathLoop_spec : ∀ fuel s acc,
    (pathLoop fuel s acc).Sat fuel (s.mu + 1) (fun s' t => s'.mu ≤ s.mu ∧ t ≠ .none) (fun s' => s'.mu ≤ s.mu) := by
  intro fuel
  induction fuel with
  | zero => intro s acc; exact Nat.zero_le _
  | succ n ih =>
    intro s acc
    rw [pathLoop]
    split
    · tok_leaf
    · next he =>
      have he : s.eof = false := by simpa using he
      tok_auto
      all_goals tok_from (ih _ _)

/-- the `a..z` arm of `Lexer::read` -/
theorem lexId_spec (fuel : Nat) (s : Scan) (he : s.eof = false) :
    (lexId fuel s).Sat fuel s.mu (fun s' t => s'.mu < s.mu ∧ t ≠ .none) (fun s' => s'.mu ≤ s.mu) := by
  unfold lexId
  tok_auto
  all_goals tok_from (pathLoop_spec _ _ _)

/-! ### `Lexer::read` -/

/-- budget `mu + 1`; the measure does not grow (whether a token or an error comes back); a token read away
from the end of the input consumes at least one byte; the token `none` is the end-of-input token -/
theorem lexRead_spec : ∀ fuel s,
    (lexRead fuel s).Sat fuel (s.mu + 1)
      (fun s' t => s'.mu ≤ s.mu ∧ (s.eof = false → s'.mu < s.mu) ∧ (t = .none → s'.eof = true))
      (fun s' => s'.mu ≤ s.mu) := by
  intro fuel
  induction fuel with
  | zero => intro s; exact Nat.zero_le _
  | succ n ih =>
    intro s
    rw [lexRead]
    refine TokR.Sat.ite_intro (fun he => ?_) (fun he => ?_)
    · simp only [TokR.Sat_ok]; exact ⟨Nat.le_refl _, (fun h => by rw [he] at h; cases h), (fun _ => he)⟩
    · have he : s.eof = false := by simpa using he
      have hn := ndtErr_mu n s he
      dsimp only
      refine TokR.Sat.ite_intro (fun hc => ?_) (fun hc => ?_)
      · have hs : s.isWhiteSpace = true := by
          simp only [Bool.or_eq_true, beq_iff_eq] at hc
          simp only [isWhiteSpace, isSpace, isNewline, Bool.or_eq_true, beq_iff_eq]
          rcases hc with ((h | h) | h) | h <;> simp [h]
        split
        · next s' heq =>
          have := consumeWhiteSpaces_strict hs he heq
          tok_from (ih s')
        · tok_leaf
        · next heq => exact ((consumeWhiteSpaces_spec _ _).ne_panic heq).elim
        · next heq =>
          have := Res.Sat.of_eq (consumeWhiteSpaces_spec _ _) heq
          simp only [Res.Sat_diverge] at this
          tok_leaf
        · next heq => exact ((consumeWhiteSpaces_spec _ _).ne_depth heq).elim
      · tok_auto
        · tok_from (greaterOrLess_spec s .lt .le he)
        · tok_from (greaterOrLess_spec s .gt .ge he)
        · tok_from (lexId_spec n s he)

end Hs.FText
