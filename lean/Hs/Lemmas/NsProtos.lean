/-
  Hs.Lemmas.NsProtos — what `protos` returns (Hs.Model.NsProtos).
-/
import Hs.Model.NsProtos
namespace Hs.NsA
open Hs Hs.Ns

theorem pget_pinsert (k : Name) (v : Nat) (d : PDict) (k' : Name) :
    pget (pinsert k v d) k' = if k' = k then some v else pget d k' := by
  induction d with
  | nil =>
    simp only [pinsert, pget, List.find?_cons, List.find?_nil]
    by_cases h : k = k'
    · subst h; simp
    · have h' : ¬ k' = k := fun e => h e.symm
      simp [h, h']
  | cons kv r ih =>
    unfold pinsert
    by_cases hk : kv.1 = k
    · simp only [hk, if_true]
      by_cases h : k = k'
      · subst h; simp [pget]
      · have h' : ¬ k' = k := fun e => h e.symm
        have h2 : ¬ kv.1 = k' := fun e => h (hk ▸ e)
        simp [pget, List.find?_cons, h, h', h2]
    · simp only [hk, if_false]
      by_cases h2 : kv.1 = k'
      · have h' : ¬ k' = k := fun e => hk (h2 ▸ e)
        simp [pget, List.find?_cons, h2, h']
      · have := ih
        simp only [pget, List.find?_cons, h2, decide_false] at this ⊢
        exact this

/-- a merged prototype: the flattened values first, the child's own tags otherwise -/
theorem pget_mergeInto (f c : PDict) (k : Name) :
    pget (mergeInto f c) k = (pget f k).or (pget c k) := by
  induction f with
  | nil => simp [mergeInto, pget]
  | cons kv r ih =>
    have : mergeInto (kv :: r) c = pinsert kv.1 kv.2 (mergeInto r c) := rfl
    rw [this, pget_pinsert]
    by_cases h : k = kv.1
    · subst h; simp [pget, List.find?_cons]
    · have h' : ¬ kv.1 = k := fun e => h e.symm
      simp only [h, if_false, ih]
      simp [pget, List.find?_cons, h']

theorem mem_flattened (fuel : Nat) (ns : Ns) (fl : List Name) (parent : PDict) (k : Name) (v : Nat) :
    (k, v) ∈ flattened fuel ns fl parent ↔
      (k, v) ∈ parent ∧ v ≠ 0 ∧ ∃ sym, sym ∈ fl ∧ fitsB fuel ns k sym = true := by
  simp [flattened, List.mem_filter]

theorem mem_protosFromDef (fuel : Nat) (ns : Ns) (pd : ProtoDefs) (parent : PDict) (name : Name) (p : PDict) :
    p ∈ protosFromDef fuel ns pd parent name ↔
      ∃ spec cs, plookup pd name = some spec ∧ spec.children = some cs ∧
        ∃ c, c ∈ cs ∧ p = mergeInto (flattened fuel ns spec.flatten parent) c := by
  unfold protosFromDef
  cases hl : plookup pd name with
  | none => simp
  | some spec =>
    dsimp only
    cases hc : spec.children with
    | none => simp [hc]
    | some cs =>
      simp only [List.mem_map, Option.some.injEq]
      constructor
      · rintro ⟨c, hc1, hc2⟩
        exact ⟨spec, cs, rfl, hc, c, hc1, hc2.symm⟩
      · rintro ⟨spec', cs', h1, h2, c, hc1, hc2⟩
        subst h1
        rw [hc] at h2
        cases h2
        exact ⟨c, hc1, hc2.symm⟩

theorem mem_protos (fuel : Nat) (ns : Ns) (pd : ProtoDefs) (parent : PDict) (p : PDict) :
    p ∈ protos fuel ns pd parent ↔
      ∃ name v, (name, v) ∈ parent ∧ p ∈ protosFromDef fuel ns pd parent name := by
  unfold protos
  simp only [List.mem_flatMap]
  constructor
  · rintro ⟨kv, h1, h2⟩; exact ⟨kv.1, kv.2, h1, h2⟩
  · rintro ⟨n, v, h1, h2⟩; exact ⟨(n, v), h1, h2⟩

end Hs.NsA
