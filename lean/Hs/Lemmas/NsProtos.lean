/-
  Hs.Lemmas.NsProtos — what `protos` returns (Hs.Model.NsProtos).
-/
import Hs.Model.NsProtos
namespace Hs.NsA
open Hs Hs.Ns

theorem pget_pinsert (k : Name) (v : Nat) (d : PDict) (k' : Name) :
    pget (pinsert k v d) k' = if k' = k then some v else pget d k' := by
  induction d with
  | nil =>
    simp only [pinsert, pget, List.find?_cons, List.find?_nil]
    by_cases h : k = k'
    · subst h; simp
    · have h' : ¬ k' = k := fun e => h e.symm
      simp [h, h']
  | cons kv r ih =>
    unfold pinsert
    by_cases hk : kv.1 = k
    · simp only [hk, if_true]
      by_cases h : k = k'
      · subst h; simp [pget]
      · have h' : ¬ k' = k := fun e => h e.symm
        have h2 : ¬ kv.1 = k' := fun e => h (hk ▸ e)
        simp [pget, List.find?_cons, h, h', h2]
    · simp only [hk, if_false]
      by_cases h2 : kv.1 = k'
      · have h' : ¬ k' = k := fun e => hk (h2 ▸ e)
        simp [pget, List.find?_cons, h2, h']
      · have := ih
        simp only [pget, List.find?_cons, h2, decide_false] at this ⊢
        exact this

/-- a merged prototype: the flattened values first, the child's own tags otherwise -/
theorem pget_mergeInto (f c : PDict) (k : Name) :
    pget (mergeInto f c) k = (pget f k).or (pget c k) := by
  induction f with
  | nil => simp [mergeInto, pget]
  | cons kv r ih =>
    have : mergeInto (kv :: r) c = pinsert kv.1 kv.2 (mergeInto r c) := rfl
    rw [this, pget_pinsert]
    by_cases h : k = kv.1
    · subst h; simp [pget, List.find?_cons]
    · have h' : ¬ kv.1 = k := fun e => h e.symm
      simp only [h, if_false, ih]
      simp [pget, List.find?_cons, h']

theorem pget_none_of_not_key (d : PDict) (k : Name) (h : k ∉ d.map Prod.fst) : pget d k = none := by
  induction d with
  | nil => rfl
  | cons kv r ih =>
    simp only [List.map_cons, List.mem_cons, not_or] at h
    have h1 : ¬ kv.1 = k := fun e => h.1 e.symm
    have := ih h.2
    simp only [pget, List.find?_cons, h1, decide_false] at this ⊢
    exact this

/-- the loop of inserts as the code runs it (first to last) builds the same dict: the keys of a dict are distinct -/
theorem pget_mergeLoop (f : PDict) (hn : (f.map Prod.fst).Nodup) (c : PDict) (k : Name) :
    pget (mergeLoop f c) k = (pget f k).or (pget c k) := by
  induction f generalizing c with
  | nil => simp [mergeLoop, pget]
  | cons kv r ih =>
    simp only [List.map_cons, List.nodup_cons] at hn
    have : mergeLoop (kv :: r) c = mergeLoop r (pinsert kv.1 kv.2 c) := rfl
    rw [this, ih hn.2, pget_pinsert]
    by_cases h : k = kv.1
    · subst h
      rw [pget_none_of_not_key r _ hn.1]
      simp [pget, List.find?_cons]
    · have h' : ¬ kv.1 = k := fun e => h e.symm
      simp [pget, List.find?_cons, h, h']

theorem pget_cons (kv : Name × Nat) (r : PDict) (k : Name) :
    pget (kv :: r) k = if kv.1 = k then some kv.2 else pget r k := by
  by_cases h : kv.1 = k <;> simp [pget, List.find?_cons, h]

/-- a loop of conditional inserts of a dict's own entries -/
theorem pget_foldl_insert (c : Name × Nat → Bool) (l : PDict) (hn : (l.map Prod.fst).Nodup) (acc : PDict) (k : Name) :
    pget (l.foldl (fun acc kv => if c kv then pinsert kv.1 kv.2 acc else acc) acc) k =
      match pget l k with
      | some v => if c (k, v) then some v else pget acc k
      | none => pget acc k := by
  induction l generalizing acc with
  | nil => rfl
  | cons kv r ih =>
    simp only [List.map_cons, List.nodup_cons] at hn
    simp only [List.foldl_cons]
    rw [ih hn.2, pget_cons]
    by_cases h : kv.1 = k
    · subst h
      rw [pget_none_of_not_key r _ hn.1]
      simp only [if_true]
      by_cases hc : c kv = true
      · simp [hc, pget_pinsert]
      · simp [hc]
    · simp only [h, if_false]
      have hacc : pget (if c kv = true then pinsert kv.1 kv.2 acc else acc) k = pget acc k := by
        by_cases hc : c kv = true
        · have h' : ¬ k = kv.1 := fun e => h e.symm
          simp [hc, pget_pinsert, h']
        · simp [hc]
      rw [hacc]

theorem pget_filter (p : Name × Nat → Bool) (l : PDict) (hn : (l.map Prod.fst).Nodup) (k : Name) :
    pget (l.filter p) k =
      match pget l k with
      | some v => if p (k, v) then some v else none
      | none => none := by
  induction l with
  | nil => rfl
  | cons kv r ih =>
    simp only [List.map_cons, List.nodup_cons] at hn
    rw [pget_cons]
    by_cases h : kv.1 = k
    · subst h
      simp only [if_true]
      by_cases hp : p kv = true
      · simp [List.filter_cons, hp, pget_cons]
      · have hr : pget r kv.1 = none := pget_none_of_not_key r _ hn.1
        have hp' : p kv = false := by simpa using hp
        rw [List.filter_cons, hp']
        simp only [Bool.false_eq_true, if_false]
        rw [ih hn.2, hr]
    · simp only [h, if_false]
      by_cases hp : p kv = true
      · simp only [List.filter_cons, hp, if_true]
        rw [pget_cons]
        simp only [h, if_false]
        exact ih hn.2
      · have hp' : p kv = false := by simpa using hp
        rw [List.filter_cons, hp']
        exact ih hn.2

theorem ite_bool_aux (a b c : Bool) (x y : Option Nat) :
    (if (a && c) = true then x else if (b && a) = true then x else y) = if (a && (b || c)) = true then x else y := by
  cases a <;> cases b <;> cases c <;> simp

theorem pget_flattenedLoop_aux (fuel : Nat) (ns : Ns) (parent : PDict) (hn : (parent.map Prod.fst).Nodup) (k : Name) :
    ∀ (fl : List Name) (acc : PDict),
      pget (fl.foldl (fun acc sym => flatInner fuel ns sym parent acc) acc) k =
        match pget parent k with
        | some v => if (v != 0 && fl.any (fun s => fitsB fuel ns k s)) = true then some v else pget acc k
        | none => pget acc k := by
  intro fl
  induction fl with
  | nil => intro acc; cases pget parent k <;> simp
  | cons s r ih =>
    intro acc
    simp only [List.foldl_cons]
    rw [ih]
    have hin := pget_foldl_insert (fun kv => fitsB fuel ns kv.1 s && kv.2 != 0) parent hn acc k
    have : pget (flatInner fuel ns s parent acc) k =
        match pget parent k with
        | some v => if (fitsB fuel ns k s && v != 0) = true then some v else pget acc k
        | none => pget acc k := hin
    rw [this]
    cases pget parent k with
    | none => rfl
    | some v =>
      simp only [List.any_cons]
      exact ite_bool_aux _ _ _ _ _

theorem pget_flattenedLoop (fuel : Nat) (ns : Ns) (fl : List Name) (parent : PDict) (hn : (parent.map Prod.fst).Nodup)
    (k : Name) : pget (flattenedLoop fuel ns fl parent) k = pget (flattened fuel ns fl parent) k := by
  unfold flattenedLoop flattened
  rw [pget_flattenedLoop_aux fuel ns parent hn k fl [], pget_filter _ parent hn k]
  cases pget parent k with
  | none => rfl
  | some v => simp [pget]

theorem mem_keys_pinsert (k : Name) (v : Nat) (d : PDict) (x : Name) :
    x ∈ (pinsert k v d).map Prod.fst ↔ x = k ∨ x ∈ d.map Prod.fst := by
  induction d with
  | nil => simp [pinsert]
  | cons kv r ih =>
    unfold pinsert
    by_cases h : kv.1 = k
    · simp only [h, if_true, List.map_cons, List.mem_cons]
      constructor
      · rintro (h1 | h1)
        · exact .inl h1
        · exact .inr (.inr h1)
      · rintro (h1 | h1 | h1)
        · exact .inl h1
        · exact .inl h1
        · exact .inr h1
    · simp only [h, if_false, List.map_cons, List.mem_cons, ih]
      constructor
      · rintro (h1 | h1 | h1)
        · exact .inr (.inl h1)
        · exact .inl h1
        · exact .inr (.inr h1)
      · rintro (h1 | h1 | h1)
        · exact .inr (.inl h1)
        · exact .inl h1
        · exact .inr (.inr h1)

theorem nodup_keys_pinsert (k : Name) (v : Nat) (d : PDict) (hn : (d.map Prod.fst).Nodup) :
    ((pinsert k v d).map Prod.fst).Nodup := by
  induction d with
  | nil => simp [pinsert]
  | cons kv r ih =>
    simp only [List.map_cons, List.nodup_cons] at hn
    unfold pinsert
    by_cases h : kv.1 = k
    · simp only [h, if_true, List.map_cons, List.nodup_cons]
      exact ⟨h ▸ hn.1, hn.2⟩
    · simp only [h, if_false, List.map_cons, List.nodup_cons]
      refine ⟨?_, ih hn.2⟩
      rw [mem_keys_pinsert]
      rintro (h1 | h1)
      · exact h h1
      · exact hn.1 h1

theorem nodup_keys_foldl_insert (c : Name × Nat → Bool) (l : PDict) (acc : PDict) (hn : (acc.map Prod.fst).Nodup) :
    ((l.foldl (fun acc kv => if c kv then pinsert kv.1 kv.2 acc else acc) acc).map Prod.fst).Nodup := by
  induction l generalizing acc with
  | nil => exact hn
  | cons kv r ih =>
    simp only [List.foldl_cons]
    apply ih
    by_cases hc : c kv = true
    · simp only [hc, if_true]; exact nodup_keys_pinsert _ _ _ hn
    · simp only [hc]; exact hn

theorem nodup_keys_flattenedLoop (fuel : Nat) (ns : Ns) (fl : List Name) (parent : PDict) :
    ((flattenedLoop fuel ns fl parent).map Prod.fst).Nodup := by
  unfold flattenedLoop
  suffices h : ∀ (acc : PDict), (acc.map Prod.fst).Nodup →
      ((fl.foldl (fun acc sym => flatInner fuel ns sym parent acc) acc).map Prod.fst).Nodup from h [] (by simp)
  induction fl with
  | nil => intro acc h; exact h
  | cons s r ih =>
    intro acc h
    simp only [List.foldl_cons]
    exact ih _ (nodup_keys_foldl_insert (fun kv => fitsB fuel ns kv.1 s && kv.2 != 0) parent acc h)

/-- the merged prototype of the loops as written has, tag by tag, the values of the specified one -/
theorem pget_mergeLoop_flattenedLoop (fuel : Nat) (ns : Ns) (fl : List Name) (parent : PDict)
    (hn : (parent.map Prod.fst).Nodup) (c : PDict) :
    pget (mergeLoop (flattenedLoop fuel ns fl parent) c) = pget (mergeInto (flattened fuel ns fl parent) c) := by
  funext k
  rw [pget_mergeLoop _ (nodup_keys_flattenedLoop fuel ns fl parent), pget_mergeInto,
    pget_flattenedLoop fuel ns fl parent hn]

theorem protosFromDefLoop_eq (fuel : Nat) (ns : Ns) (pd : ProtoDefs) (parent : PDict)
    (hn : (parent.map Prod.fst).Nodup) (name : Name) :
    (protosFromDefLoop fuel ns pd parent name).map pget = (protosFromDef fuel ns pd parent name).map pget := by
  unfold protosFromDefLoop protosFromDef
  cases plookup pd name with
  | none => rfl
  | some spec =>
    dsimp only
    cases spec.children with
    | none => rfl
    | some cs =>
      dsimp only
      rw [List.map_map, List.map_map]
      apply List.map_congr_left
      intro c _
      exact pget_mergeLoop_flattenedLoop fuel ns spec.flatten parent hn c

theorem mem_flattened (fuel : Nat) (ns : Ns) (fl : List Name) (parent : PDict) (k : Name) (v : Nat) :
    (k, v) ∈ flattened fuel ns fl parent ↔
      (k, v) ∈ parent ∧ v ≠ 0 ∧ ∃ sym, sym ∈ fl ∧ fitsB fuel ns k sym = true := by
  simp [flattened, List.mem_filter]

theorem mem_protosFromDef (fuel : Nat) (ns : Ns) (pd : ProtoDefs) (parent : PDict) (name : Name) (p : PDict) :
    p ∈ protosFromDef fuel ns pd parent name ↔
      ∃ spec cs, plookup pd name = some spec ∧ spec.children = some cs ∧
        ∃ c, c ∈ cs ∧ p = mergeInto (flattened fuel ns spec.flatten parent) c := by
  unfold protosFromDef
  cases hl : plookup pd name with
  | none => simp
  | some spec =>
    dsimp only
    cases hc : spec.children with
    | none => simp [hc]
    | some cs =>
      simp only [List.mem_map, Option.some.injEq]
      constructor
      · rintro ⟨c, hc1, hc2⟩
        exact ⟨spec, cs, rfl, hc, c, hc1, hc2.symm⟩
      · rintro ⟨spec', cs', h1, h2, c, hc1, hc2⟩
        subst h1
        rw [hc] at h2
        cases h2
        exact ⟨c, hc1, hc2.symm⟩

theorem mem_protos (fuel : Nat) (ns : Ns) (pd : ProtoDefs) (parent : PDict) (p : PDict) :
    p ∈ protos fuel ns pd parent ↔
      ∃ name v, (name, v) ∈ parent ∧ p ∈ protosFromDef fuel ns pd parent name := by
  unfold protos
  simp only [List.mem_flatMap]
  constructor
  · rintro ⟨kv, h1, h2⟩; exact ⟨kv.1, kv.2, h1, h2⟩
  · rintro ⟨n, v, h1, h2⟩; exact ⟨(n, v), h1, h2⟩

end Hs.NsA
