/-
  C04 (write direction), rung 5f: all rows through `rows`, the grid through `grid` (top level and nested `<< … >>`).
-/
import Hs.Lemmas.SpecRtRows
namespace Hs.Spec
open Hs Hs.Zinc Hs.Scan

/-! ### rows -/

structure RowOkS (r : Tags) (names : List (List Char)) (single : Bool) : Prop where
  cells : CellsOkS r names single
  sorted : keysSorted r.keys = true
  sub : ∀ k ∈ r.keys, k ∈ names

def RowsOkS (names : List (List Char)) (single : Bool) : Rows → Prop
  | .nil => True
  | .cons r rs => RowOkS r names single ∧ RowsOkS names single rs

/-- a row line starts with the first byte of a value or with `,` -/
theorem row_first (r : Tags) (names : List (List Char)) (single : Bool) (tl : List UInt8)
    (hne : names ≠ []) (hsingle : names.length = 1 → single = true) (hok : CellsOkS r names single) :
    ∃ b t, rowBytes r names single ++ 10 :: tl = b :: t ∧ (isStartB b = true ∨ b = 44) := by
  cases names with
  | nil => exact absurd rfl hne
  | cons n ns =>
    obtain ⟨hcell, hpres⟩ := hok n (by simp)
    cases ns with
    | nil =>
      have hs : single = true := hsingle rfl
      cases hget : r.get? n with
      | none => exact absurd hget (hpres hs)
      | some v =>
        obtain ⟨b, rr, e, hb⟩ := (hcell v hget).1
        exact ⟨b, rr ++ 10 :: tl, by simp [rowBytes, cellBytes, hget, e], Or.inl hb⟩
    | cons n2 ns2 =>
      cases hget : r.get? n with
      | none =>
        cases single with
        | true => exact absurd hget (hpres rfl)
        | false => exact ⟨44, _, by simp [rowBytes, cellBytes, hget]; rfl, Or.inr rfl⟩
      | some v =>
        obtain ⟨b, rr, e, hb⟩ := (hcell v hget).1
        exact ⟨b, rr ++ 44 :: (rowBytes r (n2 :: ns2) single ++ 10 :: tl), by simp [rowBytes, cellBytes, hget, e],
          Or.inl hb⟩

theorem rows_step (f : Nat) (b : UInt8) (t : In) (hb : isStartB b = true ∨ b = 44) (names : List (List Char))
    (acc : List Tags) (kvs : List (List Char × Val)) (r1 : In)
    (hc : cells f (b :: t) names [] = some (kvs, r1)) :
    rows (f + 1) (b :: t) names acc = rows f r1 names (acc ++ [Hs.Spec.dictOf kvs]) := by
  have hcl : b ≠ 62 ∧ b ≠ 10 ∧ b ≠ 13 := by
    rcases hb with hb | rfl
    · have := start_class hb
      exact ⟨this.2.2.2.2.2.2.1, this.2.2.1, this.2.2.2.1⟩
    · decide
  have hnl : nl (b :: t) = none := by
    unfold nl
    split
    · rename_i heq; cases heq; exact absurd rfl hcl.2.1
    · rename_i heq; cases heq; exact absurd rfl hcl.2.2
    · rename_i heq; cases heq; exact absurd rfl hcl.2.2
    · rfl
  rw [rows.eq_def]
  simp [hcl.1, hnl, hc]

theorem rows_end_nested (f : Nat) (rest : In) (names : List (List Char)) (acc : List Tags) :
    rows (f + 1) (62 :: 62 :: rest) names acc = some (acc, 62 :: 62 :: rest) := by
  rw [rows.eq_def]; simp

theorem rows_end_top (f : Nat) (names : List (List Char)) (acc : List Tags) :
    rows (f + 1) [10] names acc = some (acc, []) := by
  rw [rows.eq_def]; simp [nl]

/-- the text left after the rows: `>>` and what follows (nested), nothing (top level) -/
def afterRows (nested : Bool) (rest : List UInt8) : List UInt8 := if nested then 62 :: 62 :: rest else []

theorem specImgR_toList_cons (r : Tags) (rs : Rows) :
    (specImgR (.cons r rs)).toList = specImgT r :: (specImgR rs).toList := by
  simp [specImgR, Rows.toList]

theorem rows_rt (names : List (List Char)) (single nested : Bool) (rest : List UInt8) (hne : names ≠ [])
    (hsingle : names.length = 1 → single = true) (hnd : names.Nodup) :
    ∀ (rws : Rows), RowsOkS names single rws → ∀ (fuel : Nat) (acc : List Tags),
    (encRows rws names single).length + 3 ≤ fuel →
    rows fuel (encRows rws names single ++ tailR nested rest) names acc =
      some (acc ++ (specImgR rws).toList, afterRows nested rest)
  | .nil, _, fuel, acc, hf => by
    obtain ⟨f, rfl⟩ : ∃ f, fuel = f + 1 := ⟨fuel - 1, by omega⟩
    simp only [encRows, List.nil_append, tailR, afterRows]
    cases nested with
    | true => simp [rows_end_nested, specImgR, Rows.toList]
    | false => simp [rows_end_top, specImgR, Rows.toList]
  | .cons r rs, hok, fuel, acc, hf => by
    obtain ⟨f, rfl⟩ : ∃ f, fuel = f + 1 := ⟨fuel - 1, by omega⟩
    rw [encRows_cons] at hf ⊢
    simp only [List.length_append, List.length_cons] at hf
    simp only [List.append_assoc, List.cons_append]
    obtain ⟨b, t, e, hb⟩ := row_first r names single (encRows rs names single ++ tailR nested rest) hne hsingle hok.1.cells
    have hc := cells_rt r single names hne hok.1.cells f (encRows rs names single ++ tailR nested rest) [] (by omega)
    rw [e] at hc ⊢
    rw [rows_step f b t hb names acc _ _ hc]
    simp only [List.nil_append]
    rw [dictOf_cellsOfS r names hnd hok.1.sub hok.1.sorted, rows_rt names single nested rest hne hsingle hnd rs hok.2 f _ (by omega),
      specImgR_toList_cons]
    simp

/-! ### the grid -/

structure GridOkS (md : OTags) (cols : Cols) (rws : Rows) (ver : List Char) : Prop where
  okVer : ver = ['3', '.', '0']
  okMeta : metaShape md = true
  rdMeta : RdO md
  okCols : ColsOkS cols
  rdCols : RdC cols
  okNodup : cols.names.Nodup
  okRows : RowsOkS cols.names (cols.length == 1) rws

theorem specImgC_names : ∀ c : Cols, (specImgC c).toList.map (·.1) = c.names
  | .nil => rfl
  | .cons n md c => by simp [specImgC, Cols.toList, Cols.names, specImgC_names c]

theorem str_ver (tl : List UInt8) : str (34 :: 51 :: 46 :: 48 :: 34 :: tl) = some (['3', '.', '0'], tl) := by
  have := spec_str ['3', '.', '0'] tl
  have e : encQuoted ['3', '.', '0'] = [34, 51, 46, 48, 34] := by decide
  rw [e] at this
  simpa using this

/-- **grid** from `ver` on (both the nested and the top-level entry end up here) -/
theorem grid_rt (md : OTags) (n : List Char) (cm : OTags) (c : Cols) (rws : Rows) (ver : List Char)
    (hok : GridOkS md (.cons n cm c) rws ver) (nested : Bool) (rest : List UInt8) (fuel : Nat)
    (hf : (metaPart md).length + colsLen (.cons n cm c)
      + (encRows rws (Cols.names (.cons n cm c)) (Cols.length (.cons n cm c) == 1)).length + 4 ≤ fuel) :
    grid fuel (gridBody md (.cons n cm c) rws nested rest) =
      some (specImg (.grid md (.cons n cm c) rws ver), afterRows nested rest) := by
  obtain ⟨f, rfl⟩ : ∃ f, fuel = f + 1 := ⟨fuel - 1, by omega⟩
  have hne : Cols.names (.cons n cm c) ≠ [] := by simp [Cols.names]
  obtain ⟨mkvs, hm1, hm2⟩ := meta_rt ctx_meta md hok.okMeta hok.rdMeta f
    (encCols (.cons n cm c) ++ 10 :: (encRows rws (Cols.names (.cons n cm c)) (Cols.length (.cons n cm c) == 1)
      ++ tailR nested rest)) (by omega)
  have hc := cols_rt n cm c hok.okCols hok.rdCols f
    (encRows rws (Cols.names (.cons n cm c)) (Cols.length (.cons n cm c) == 1) ++ tailR nested rest) [] (by omega)
  have hr := rows_rt (Cols.names (.cons n cm c)) (Cols.length (.cons n cm c) == 1) nested rest hne
    (cols_single n cm c) hok.okNodup rws hok.okRows f [] (by omega)
  simp only [gridBody, verBytes, List.cons_append, List.nil_append]
  rw [grid.eq_def]
  simp only [skipWs_cons (show (34 : UInt8) ≠ 32 by decide) (show (34 : UInt8) ≠ 9 by decide), str_ver, hm1,
    skipWs_cons (show (10 : UInt8) ≠ 32 by decide) (show (10 : UInt8) ≠ 9 by decide), nl_lf, hc, List.nil_append,
    specImgC_names, hr, hm2]
  simp [specImg, Cols.ofList_toList, Rows.ofList_toList, hok.okVer]

/-- **grid** (nested): `<< … >>` through `value` -/
theorem Rd_grid (md : OTags) (n : List Char) (cm : OTags) (c : Cols) (rws : Rows) (ver : List Char)
    (hok : GridOkS md (.cons n cm c) rws ver) : Rd (.grid md (.cons n cm c) rws ver) := by
  have he := enc_grid_nested md n cm c rws ver []
  simp only [List.append_nil] at he
  refine ⟨⟨60, _, he, by decide⟩, ?_⟩
  intro fuel rest _ hf
  rw [enc_grid_length] at hf
  rw [enc_grid_nested]
  obtain ⟨f, rfl⟩ : ∃ f, fuel = f + 1 := ⟨fuel - 1, by omega⟩
  have hg := grid_rt md n cm c rws ver hok true rest f (by omega)
  rw [value.eq_def]
  simp only [skipWs_cons (show (10 : UInt8) ≠ 32 by decide) (show (10 : UInt8) ≠ 9 by decide), nl_lf, hg, afterRows]
  simp

end Hs.Spec
