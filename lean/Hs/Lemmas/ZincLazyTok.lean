/-
  C11 (lazy rows), part 1: where the scanner stands after the FIRST token of a value's text.
  For a scalar the first token is the whole text; for a list, dict or nested grid it is the opening
  bracket (`[`, `{`, `<`).  `firstTok_at` is the lexer-level statement the look-ahead bound rests on:
  one `lexRead` from a clean scanner at `enc v true ++ rest` leaves the scanner positioned at the text that
  remains after the first `firstTokLen v` bytes.
-/
import Hs.Lemmas.ZincRtWf
namespace Hs.Zinc
open Hs Hs.Scan

/-- length in bytes of the first token of the text the writer prints for `v` -/
def firstTokLen : Val → Nat
  | .list _ => 1
  | .dict _ => 1
  | .grid _ _ _ _ => 1
  | v => (enc v true).length

theorem firstTok_scalar {v : Val} (h : TokRt v) (s : Scan) (rest : List UInt8) (f : Nat)
    (hat : At s (enc v true ++ rest)) (hs : s.stash = []) (hd : Delim rest) (hf : (enc v true).length + 3 ≤ f) :
    ∃ p, lexRead f s = .ok p ∧ At p.sc ((enc v true).drop (enc v true).length ++ rest) ∧
      (rest.head? ≠ some 32 → p.sc.stash = []) := by
  obtain ⟨s', e, hp⟩ := h.2 s rest f hat hs hd hf
  exact ⟨_, e, by simpa using hp.1, hp.2.2⟩

theorem firstTok_open {s : Scan} {c : UInt8} {body rest : List UInt8} (hat : At s ((c :: body) ++ rest))
    (hs : s.stash = []) (hc : isSpecial c = true) (h13 : c ≠ 13) (f : Nat) (hf : 1 ≤ f) :
    ∃ p, lexRead f s = .ok p ∧ At p.sc ((c :: body).drop 1 ++ rest) ∧ (rest.head? ≠ some 32 → p.sc.stash = []) := by
  obtain ⟨g, rfl⟩ : ∃ g, f = g + 1 := ⟨f - 1, by omega⟩
  refine ⟨_, lexRead_special (by simpa using hat) hc h13 g, ?_, fun _ => ?_⟩
  · simpa using At.advance (by simpa using hat)
  · show s.advance.stash = []
    rw [At.advance_stash, hs]; rfl

/-- **the first token**: one `lexRead` at the text of a well-behaved value stops right after its first token; the
peek stash is empty afterwards unless a space follows (the Ref reader peeks one byte past a space) -/
theorem firstTok_at : ∀ v : Val, GoodV v → ∀ (s : Scan) (rest : List UInt8) (f : Nat),
    At s (enc v true ++ rest) → s.stash = [] → Delim rest → (enc v true).length + 3 ≤ f →
    ∃ p, lexRead f s = .ok p ∧ At p.sc ((enc v true).drop (firstTokLen v) ++ rest) ∧
      (rest.head? ≠ some 32 → p.sc.stash = [])
  | .list xs, _, s, rest, f, hat, hs, _, hf => by
    rw [enc_list] at hat
    have := firstTok_open hat hs (by decide) (by decide) f (by omega)
    simpa [firstTokLen, enc_list] using this
  | .dict d, _, s, rest, f, hat, hs, _, hf => by
    rw [enc_dict] at hat
    have := firstTok_open hat hs (by decide) (by decide) f (by omega)
    simpa [firstTokLen, enc_dict] using this
  | .grid md cols rows ver, h, s, rest, f, hat, hs, _, hf => by
    simp only [GoodV] at h
    cases cols with
    | nil => simp [colsShape] at h
    | cons n cm c =>
      have e := enc_grid_nested md n cm c rows ver []
      simp only [List.append_nil] at e
      rw [e] at hat
      have := firstTok_open hat hs (by decide) (by decide) f (by omega)
      simpa [firstTokLen, e] using this
  | .null, h, s, rest, f, hat, hs, hd, hf => by simp only [GoodV] at h; exact firstTok_scalar h.1 s rest f hat hs hd hf
  | .remove, h, s, rest, f, hat, hs, hd, hf => by simp only [GoodV] at h; exact firstTok_scalar h.1 s rest f hat hs hd hf
  | .marker, h, s, rest, f, hat, hs, hd, hf => by simp only [GoodV] at h; exact firstTok_scalar h.1 s rest f hat hs hd hf
  | .bool _, h, s, rest, f, hat, hs, hd, hf => by simp only [GoodV] at h; exact firstTok_scalar h.1 s rest f hat hs hd hf
  | .na, h, s, rest, f, hat, hs, hd, hf => by simp only [GoodV] at h; exact firstTok_scalar h.1 s rest f hat hs hd hf
  | .num _, h, s, rest, f, hat, hs, hd, hf => by simp only [GoodV] at h; exact firstTok_scalar h.1 s rest f hat hs hd hf
  | .str _, h, s, rest, f, hat, hs, hd, hf => by simp only [GoodV] at h; exact firstTok_scalar h.1 s rest f hat hs hd hf
  | .uri _, h, s, rest, f, hat, hs, hd, hf => by simp only [GoodV] at h; exact firstTok_scalar h.1 s rest f hat hs hd hf
  | .ref _ _, h, s, rest, f, hat, hs, hd, hf => by simp only [GoodV] at h; exact firstTok_scalar h.1 s rest f hat hs hd hf
  | .sym _, h, s, rest, f, hat, hs, hd, hf => by simp only [GoodV] at h; exact firstTok_scalar h.1 s rest f hat hs hd hf
  | .date _, h, s, rest, f, hat, hs, hd, hf => by simp only [GoodV] at h; exact firstTok_scalar h.1 s rest f hat hs hd hf
  | .time _, h, s, rest, f, hat, hs, hd, hf => by simp only [GoodV] at h; exact firstTok_scalar h.1 s rest f hat hs hd hf
  | .dateTime _, h, s, rest, f, hat, hs, hd, hf => by simp only [GoodV] at h; exact firstTok_scalar h.1 s rest f hat hs hd hf
  | .coord _ _, h, s, rest, f, hat, hs, hd, hf => by simp only [GoodV] at h; exact firstTok_scalar h.1 s rest f hat hs hd hf
  | .xstr _ _, h, s, rest, f, hat, hs, hd, hf => by simp only [GoodV] at h; exact firstTok_scalar h.1 s rest f hat hs hd hf

theorem firstTokLen_le : ∀ v : Val, GoodV v → 1 ≤ firstTokLen v ∧ firstTokLen v ≤ (enc v true).length := by
  intro v h
  obtain ⟨b, r, e, _⟩ := firstOk_good v h
  have hl : 1 ≤ (enc v true).length := by rw [e]; simp
  cases v <;> simp only [firstTokLen] <;> omega

end Hs.Zinc
