/-
  C11, decoder image invariant: the Date and Coord readers on ARBITRARY input.  A date the reader returns carries
  the ten bytes `dddd-dd-dd` it read and the calendar fields chrono makes of them (`dateOk`); the two components of a
  coordinate carry decimal texts `f64::from_str` accepts, over digits `.` `-` (`decTextOk`): exactly the lexemes the
  round trip of C01 covers, so these two kinds need no hypothesis in C11.
-/
import Hs.Lemmas.ZincImageIds
namespace Hs.Zinc
open Hs Hs.Scan

theorem asciiChars_ascii : ∀ bs : List UInt8, (∀ b ∈ bs, b.toNat < 128) →
    (asciiChars bs).all (fun c => c.toNat < 128) = true ∧ (asciiChars bs).map byteOf = bs
  | [], _ => ⟨rfl, rfl⟩
  | b :: bs, h => by
    obtain ⟨a1, a2⟩ := asciiChars_ascii bs (fun x hx => h x (by simp [hx]))
    have hb := h b (by simp)
    simp only [asciiChars, List.map_cons, List.all_cons, Bool.and_eq_true, decide_eq_true_eq] at a1 a2 ⊢
    exact ⟨⟨by rw [chr_toNat b hb]; exact hb, a1⟩, by rw [byteOf_chr b hb, a2]⟩

theorem isDigitB_ascii : ∀ b : UInt8, isDigitB b = true → b.toNat < 128 := by
  have h := all_u8 (fun b => !isDigitB b || decide (b.toNat < 128)) (by decide +kernel)
  intro b hb
  have := h b
  simpa [hb] using this

theorem isNumB_ascii : ∀ b : UInt8, isNumB b = true → b.toNat < 128 := by
  have h := all_u8 (fun b => !isNumB b || decide (b.toNat < 128)) (by decide +kernel)
  intro b hb
  have := h b
  simpa [hb] using this

/-! ### Date -/

theorem takeDigits_img : ∀ (n : Nat) (s : Scan) (acc acc' : List UInt8) (s' : Scan),
    takeDigits n s acc = .ok (acc', s') → ∃ ds, acc' = acc ++ ds ∧ ds.length = n ∧ ∀ b ∈ ds, isDigitB b = true
  | 0, s, acc, acc', s', h => by
    simp only [takeDigits, Res.ok.injEq, Prod.mk.injEq] at h
    exact ⟨[], by simp [h.1], rfl, by simp⟩
  | n + 1, s, acc, acc', s', h => by
    rw [takeDigits] at h
    by_cases hc : isDigitB s.cur = true
    · rw [if_pos hc] at h
      obtain ⟨ds, e, hl, hd⟩ := takeDigits_img n _ _ _ _ h
      refine ⟨s.cur :: ds, by rw [e]; simp, by simp [hl], ?_⟩
      intro b hm
      rcases List.mem_cons.mp hm with rfl | hm
      · exact hc
      · exact hd b hm
    · rw [if_neg hc] at h; simp at h

theorem len4 {α} (l : List α) (h : l.length = 4) : ∃ a b c d, l = [a, b, c, d] := by
  match l, h with
  | [a, b, c, d], _ => exact ⟨a, b, c, d, rfl⟩
theorem len2 {α} (l : List α) (h : l.length = 2) : ∃ a b, l = [a, b] := by
  match l, h with
  | [a, b], _ => exact ⟨a, b, rfl⟩

/-- the raw date text is `dddd-dd-dd` -/
theorem parseDateRaw_img (s : Scan) (raw : List UInt8) (s' : Scan) (h : parseDateRaw s = .ok (raw, s')) :
    ∃ y0 y1 y2 y3 m0 m1 d0 d1, raw = [y0, y1, y2, y3, 45, m0, m1, 45, d0, d1] ∧
      isDigitB y0 = true ∧ isDigitB y1 = true ∧ isDigitB y2 = true ∧ isDigitB y3 = true ∧ isDigitB m0 = true ∧
      isDigitB m1 = true ∧ isDigitB d0 = true ∧ isDigitB d1 = true := by
  unfold parseDateRaw at h
  split at h
  · rename_i y s1 hy
    split at h
    · simp at h
    · split at h
      · rename_i m s2 hm
        split at h
        · simp at h
        · split at h
          · rename_i d s3 hd
            simp only [Res.ok.injEq, Prod.mk.injEq] at h
            obtain ⟨ys, ey, ly, hys⟩ := takeDigits_img 4 _ _ _ _ hy
            obtain ⟨ms, em, lm, hms⟩ := takeDigits_img 2 _ _ _ _ hm
            obtain ⟨ds, ed, ld, hds⟩ := takeDigits_img 2 _ _ _ _ hd
            obtain ⟨y0, y1, y2, y3, rfl⟩ := len4 ys ly
            obtain ⟨m0, m1, rfl⟩ := len2 ms lm
            obtain ⟨d0, d1, rfl⟩ := len2 ds ld
            simp only [List.nil_append] at ey em ed
            subst ey em ed
            refine ⟨y0, y1, y2, y3, m0, m1, d0, d1, by rw [← h.1]; rfl, ?_⟩
            exact ⟨hys y0 (by simp), hys y1 (by simp), hys y2 (by simp), hys y3 (by simp), hms m0 (by simp),
              hms m1 (by simp), hds d0 (by simp), hds d1 (by simp)⟩
          all_goals simp at h
      all_goals simp at h
  all_goals simp at h

/-- **every date `parse_date` returns is one C01's round trip covers** (any input) -/
theorem parseDate_img (s : Scan) (d : Date) (s' : Scan) (h : parseDate s = .ok (d, s')) : dateOk d = true := by
  unfold parseDate at h
  split at h
  · rename_i raw s1 hr
    split at h
    · rename_i d' hmk
      simp only [Res.ok.injEq, Prod.mk.injEq] at h
      obtain ⟨rfl, _⟩ := h
      obtain ⟨y0, y1, y2, y3, m0, m1, d0, d1, rfl, h0, h1, h2, h3, h4, h5, h6, h7⟩ := parseDateRaw_img s raw s1 hr
      have htxt : d'.txt = asciiChars [y0, y1, y2, y3, 45, m0, m1, 45, d0, d1] := by
        unfold mkDate at hmk
        simp only [] at hmk
        split at hmk
        · simp only [Option.some.injEq] at hmk
          rw [← hmk]
        · simp at hmk
      have hasc : ∀ b ∈ [y0, y1, y2, y3, 45, m0, m1, 45, d0, d1], b.toNat < 128 := by
        intro b hb
        simp only [List.mem_cons, List.not_mem_nil, or_false] at hb
        rcases hb with rfl | rfl | rfl | rfl | rfl | rfl | rfl | rfl | rfl | rfl
        all_goals first | exact isDigitB_ascii _ ‹_› | decide
      obtain ⟨a1, a2⟩ := asciiChars_ascii _ hasc
      unfold dateOk
      rw [htxt, a1, a2]
      simp [h0, h1, h2, h3, h4, h5, h6, h7, hmk]
    · simp at h
  · simp at h

/-! ### decimals, Coord -/

theorem decimalLoop_img : ∀ (f : Nat) (s : Scan) (acc acc' : List UInt8) (s' : Scan),
    decimalLoop f s acc = .ok (acc', s') → ∃ bs, acc' = acc ++ bs ∧ ∀ b ∈ bs, isNumB b = true
  | 0, _, _, _, _, h => by simp [decimalLoop] at h
  | f + 1, s, acc, acc', s', h => by
    rw [decimalLoop] at h
    by_cases hc : (!s.eof && (s.isDigit || s.cur == 95 || s.cur == 46 || s.cur == 45)) = true
    · rw [if_pos hc] at h
      obtain ⟨bs, e, hb⟩ := decimalLoop_img f _ _ _ _ h
      by_cases h95 : (s.cur != 95) = true
      · rw [if_pos h95] at e
        refine ⟨s.cur :: bs, by rw [e]; simp, ?_⟩
        intro b hm
        rcases List.mem_cons.mp hm with rfl | hm
        · simp only [Bool.and_eq_true, Bool.or_eq_true, Scan.isDigit] at hc
          simp only [bne_iff_ne, ne_eq] at h95
          simp only [isNumB, Bool.or_eq_true]
          rcases hc.2 with ((h' | h') | h') | h'
          · exact Or.inl (Or.inl h')
          · exact absurd (by simpa using h') h95
          · exact Or.inl (Or.inr h')
          · exact Or.inr h'
        · exact hb b hm
      · rw [if_neg h95] at e
        exact ⟨bs, e, hb⟩
    · rw [if_neg hc] at h
      simp only [Res.ok.injEq, Prod.mk.injEq] at h
      exact ⟨[], by simp [h.1], by simp⟩

/-- **`parse_decimal` returns texts over digits `.` `-` that `f64::from_str` accepts** (any input) -/
theorem parseDecimal_img (f : Nat) (s : Scan) (acc : List UInt8) (s' : Scan) (h : parseDecimal f s = .ok (acc, s')) :
    decBytesOk acc = true := by
  unfold parseDecimal at h
  split at h
  · rename_i a s1 hl
    obtain ⟨bs, e, hb⟩ := decimalLoop_img f _ _ _ _ hl
    simp only [List.nil_append] at e
    subst e
    split at h
    · rename_i hv
      simp only [Res.ok.injEq, Prod.mk.injEq] at h
      rw [← h.1]
      simp only [decBytesOk, Bool.and_eq_true, List.all_eq_true]
      exact ⟨hb, hv⟩
    · simp at h
  all_goals simp at h

theorem decTextOk_of_bytes (bs : List UInt8) (h : decBytesOk bs = true) : decTextOk (asciiChars bs) = true := by
  have hall : ∀ b ∈ bs, b.toNat < 128 := by
    intro b hb
    simp only [decBytesOk, Bool.and_eq_true, List.all_eq_true] at h
    exact isNumB_ascii b (h.1 b hb)
  obtain ⟨a1, a2⟩ := asciiChars_ascii bs hall
  unfold decTextOk
  rw [a1, a2, h]; rfl

end Hs.Zinc
