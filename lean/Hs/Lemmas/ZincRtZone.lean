/-
  C01 ladder, rung 4g: the zone part of a timestamp (`parse_time_zone`): `Z`, `Z Name`, `±hh:mm Name`.
-/
import Hs.Lemmas.ZincRtTime
namespace Hs.Zinc
open Hs Hs.Scan

theorem takeDigits_rt (ds : List UInt8) (hds : ∀ b ∈ ds, isDigitB b = true) :
    ∀ (s : Scan) (rest : List UInt8) (acc : List UInt8), At s (ds ++ rest) →
    takeDigits ds.length s acc = .ok (acc ++ ds, advN ds.length s) := by
  induction ds with
  | nil => intro s rest acc _; simp [takeDigits, advN]
  | cons b bs ih =>
    intro s rest acc h
    simp only [List.cons_append] at h
    simp only [List.length_cons, takeDigits, h.cur, hds b (by simp), if_true, advN]
    rw [ih (fun x hx => hds x (by simp [hx])) s.advance rest _ h.advance]
    simp

/-- zone name characters after the first: letters, digits, `_ / + -` -/
def isTzB (b : UInt8) : Bool := isAlnumB b || b == 95 || b == 47 || b == 43 || b == 45

theorem tzNameLoop_rt (bs : List UInt8) (hbs : ∀ b ∈ bs, isTzB b = true) :
    ∀ (s : Scan) (rest : List UInt8) (fuel : Nat) (acc : List UInt8), At s (bs ++ rest) → Stop isTzB rest →
    bs.length < fuel → tzNameLoop fuel s acc = .ok (acc ++ bs, advN bs.length s) := by
  induction bs with
  | nil =>
    intro s rest fuel acc h hst hf
    obtain ⟨f, rfl⟩ : ∃ f, fuel = f + 1 := ⟨fuel - 1, by omega⟩
    rw [tzNameLoop]
    cases rest with
    | nil => simp [At.eof_nil h, advN]
    | cons b r =>
      have := hst b r rfl
      simp only [isTzB, isAlnumB] at this
      simp [h.eof, h.cur, Scan.isAlphaNum, Scan.isDigit, Scan.isLower, Scan.isUpper, this, advN]
  | cons b bs ih =>
    intro s rest fuel acc h hst hf
    obtain ⟨f, rfl⟩ : ∃ f, fuel = f + 1 := ⟨fuel - 1, by omega⟩
    have hb := hbs b (by simp)
    simp only [isTzB, isAlnumB] at hb
    simp only [List.cons_append] at h
    rw [tzNameLoop]
    simp only [h.eof, h.cur, Scan.isAlphaNum, Scan.isDigit, Scan.isLower, Scan.isUpper, hb]
    simp only [Bool.not_false, Bool.and_self, if_true]
    rw [ih (fun x hx => hbs x (by simp [hx])) s.advance rest f _ h.advance hst (by simpa using hf)]
    simp [advN]

/-- a zone name on the wire: an upper-case letter, then at least one more zone-name character -/
def tzNameOk (name : List UInt8) : Bool :=
  match name with
  | n0 :: n1 :: nr => isUpperB n0 && (n1 :: nr).all isTzB
  | _ => false

theorem parseTzName_rt (name : List UInt8) (hn : tzNameOk name = true) (s : Scan) (rest : List UInt8) (fuel : Nat)
    (h : At s (name ++ rest)) (hst : Stop isTzB rest) (hf : name.length < fuel) :
    parseTzName fuel s = .ok (name, advN name.length s) := by
  cases name with
  | nil => simp [tzNameOk] at hn
  | cons n0 tl =>
    cases tl with
    | nil => simp [tzNameOk] at hn
    | cons n1 nr =>
      simp only [tzNameOk, Bool.and_eq_true, List.all_eq_true] at hn
      simp only [List.cons_append] at h
      unfold parseTzName
      simp only [h.cur, hn.1, Bool.not_true, Bool.false_eq_true, if_false]
      have := tzNameLoop_rt (n1 :: nr) hn.2 s.advance rest fuel [n0] (by simpa using h.advance) hst
        (by simp at hf ⊢; omega)
      rw [this]
      simp [advN]

theorem delim_stop_tz {rest : List UInt8} (h : Delim rest) : Stop isTzB rest := h.stop (by decide)

/-- `Z` alone (UTC) -/
theorem parseTimeZone_Z (s : Scan) (rest : List UInt8) (fuel : Nat) (h : At s (90 :: rest)) (hs : s.stash = [])
    (hd : Delim rest) :
    ∃ s', parseTimeZone fuel s = .ok ([90], s') ∧ Post s' rest := by
  unfold parseTimeZone
  simp only [h.cur, beq_self_eq_true, if_true]
  rcases hd with rfl | ⟨b, r, rfl, hb⟩ | ⟨y, r, rfl, hy⟩
  · -- end of input: the peek fails and raises `is_eof`
    have hp := h.peek_none (by simp [hs])
    obtain ⟨he, hc, hu⟩ := h
    rw [hs] at hu
    simp only [List.nil_append] at hu
    refine ⟨{ s with eof := true }, ?_, ⟨by simp [At, hs, hu], by simp [hs], fun _ => by simp [hs]⟩⟩
    rw [hp]
    simp
  · obtain ⟨s1, e1, h1, hs1, _, _⟩ := h.peek0' hs
    have hb32 : b ≠ 32 := by rcases hb with rfl | rfl | rfl | rfl <;> decide
    refine ⟨s1.advance, ?_, Post.of_clean h1.advance (advance_stash_nil (by omega))⟩
    rw [e1]
    rcases hb with rfl | rfl | rfl | rfl <;> simp [h1.eof, h1.readQ]
  · obtain ⟨s1, e1, h1, hs1, _, _⟩ := h.peek0' hs
    obtain ⟨s2, e2, h2, hs2, _, _⟩ := h1.peek_some' (k := 1) hs1 (c := y) (by simp)
    have hyu : isUpperB y = false := by
      cases hu : isUpperB y with
      | false => rfl
      | true =>
        exfalso
        have := lower_dispatch y
        simp [hy, hu] at this
    refine ⟨s2.advance, ?_, ⟨h2.advance, by rw [At.advance_stash]; cases hx : s2.stash <;> simp_all,
      fun hh => absurd rfl hh⟩⟩
    rw [e1]
    simp only [e2, hyu]
    simp [h2.eof, h2.readQ]


/-- `Z Name` (a zone with offset zero) -/
theorem parseTimeZone_ZName (name : List UInt8) (hn : tzNameOk name = true) (s : Scan) (rest : List UInt8)
    (fuel : Nat) (h : At s (90 :: 32 :: (name ++ rest))) (hs : s.stash = []) (hst : Stop isTzB rest)
    (hf : name.length < fuel) :
    ∃ s', parseTimeZone fuel s = .ok (90 :: 32 :: name, s') ∧ At s' rest ∧ s'.stash = [] := by
  obtain ⟨n0, n1, nr, rfl, hup⟩ : ∃ n0 n1 nr, name = n0 :: n1 :: nr ∧ isUpperB n0 = true := by
    cases name with
    | nil => simp [tzNameOk] at hn
    | cons n0 tl =>
      cases tl with
      | nil => simp [tzNameOk] at hn
      | cons n1 nr =>
        simp only [tzNameOk, Bool.and_eq_true] at hn
        exact ⟨n0, n1, nr, rfl, hn.1⟩
  simp only [List.cons_append] at h
  obtain ⟨s1, e1, h1, hs1, _, _⟩ := h.peek0' hs
  obtain ⟨s2, e2, h2, hs2, _, _⟩ := h1.peek_some' (k := 1) hs1 (c := n0) (by simp)
  have h3 := h2.advance
  have h4 := h3.advance
  have hs4 : s2.advance.advance.stash = [] := by
    rw [At.advance_stash, At.advance_stash]
    cases hx : s2.stash with
    | nil => rfl
    | cons a tl =>
      cases tl with
      | nil => rfl
      | cons b tl2 =>
        cases tl2 with
        | nil => rfl
        | cons c tl3 => rw [hx] at hs2; simp at hs2
  have e5 := parseTzName_rt (n0 :: n1 :: nr) hn s2.advance.advance rest fuel (by simpa using h4) hst hf
  refine ⟨advN (n0 :: n1 :: nr).length s2.advance.advance, ?_,
    At.advN (by simpa using h4), advN_stash_nil _ _ hs4⟩
  unfold parseTimeZone
  simp only [h.cur, beq_self_eq_true, if_true, e1, e2, hup, Scan.advanceBy, h2.read, h3.read, e5]
  simp

/-- `+hh:mm Name` / `-hh:mm Name` -/
theorem parseTimeZone_offset (sg o0 o1 o2 o3 : UInt8) (hsg : sg = 43 ∨ sg = 45)
    (ho0 : isDigitB o0 = true) (ho1 : isDigitB o1 = true) (ho2 : isDigitB o2 = true) (ho3 : isDigitB o3 = true)
    (name : List UInt8) (hn : tzNameOk name = true) (s : Scan) (rest : List UInt8)
    (fuel : Nat) (h : At s (sg :: o0 :: o1 :: 58 :: o2 :: o3 :: 32 :: (name ++ rest))) (hs : s.stash = [])
    (hst : Stop isTzB rest) (hf : name.length < fuel) :
    ∃ s', parseTimeZone fuel s = .ok (sg :: o0 :: o1 :: 58 :: o2 :: o3 :: 32 :: name, s') ∧ At s' rest ∧
      s'.stash = [] := by
  have h1 := h.advance
  have h2 := h1.advance
  have h3 := h2.advance
  have h4 := h3.advance
  have h5 := h4.advance
  have h6 := h5.advance
  have h7 := h6.advance
  have hs7 : s.advance.advance.advance.advance.advance.advance.advance.stash = [] := advN_stash_nil 7 s hs
  have e8 := parseTzName_rt name hn _ rest fuel h7 hst hf
  have hne : (sg == 90) = false := by rcases hsg with rfl | rfl <;> decide
  have hsg' : (sg == 43 || sg == 45) = true := by rcases hsg with rfl | rfl <;> decide
  refine ⟨advN name.length s.advance.advance.advance.advance.advance.advance.advance, ?_, h7.advN,
    advN_stash_nil _ _ hs7⟩
  unfold parseTimeZone
  simp only [h.cur, hne, Bool.false_eq_true, if_false, hsg', Bool.not_true, takeDigits, h1.cur, ho0, if_true, h2.cur,
    ho1, h3.cur, bne_self_eq_false, h4.cur, ho2, h5.cur, ho3, h6.cur, e8]
  simp

end Hs.Zinc
