/-
  C01 ladder, rung 4d: coordinates `C(lat,lng)`.
-/
import Hs.Lemmas.ZincRtNum2
namespace Hs.Zinc
open Hs Hs.Scan

theorem parseDecimal_rt (tb : List UInt8) (htb : ∀ b ∈ tb, isNumB b = true) (hvalid : validDecimal tb = true)
    (s : Scan) (rest : List UInt8) (fuel : Nat) (h : At s (tb ++ rest)) (hst : Stop isDecB rest)
    (hf : tb.length < fuel) :
    parseDecimal fuel s = .ok (tb, advN tb.length s) := by
  unfold parseDecimal
  rw [decimalLoop_rt tb htb s rest fuel [] h hst hf]
  simp [hvalid]

theorem num_not_space : ∀ b : UInt8, (!isNumB b || (b != 32 && b != 9)) = true :=
  all_u8 (fun b => (!isNumB b || (b != 32 && b != 9))) (by decide +kernel)

theorem isSpace_false_of_num {s : Scan} {b : UInt8} (hc : s.cur = b) (hb : isNumB b = true) : s.isSpace = false := by
  have := num_not_space b
  simp only [hb, Bool.not_true, Bool.false_or, Bool.and_eq_true, bne_iff_ne, ne_eq] at this
  exact isSpace_of_cur hc this.1 this.2

/-- decimal text of a coordinate component: digits, `.`, `-`, accepted by `f64::from_str` -/
def decBytesOk (tb : List UInt8) : Bool := tb.all isNumB && validDecimal tb

theorem decBytesOk_head {tb : List UInt8} (h : decBytesOk tb = true) :
    ∃ b r, tb = b :: r ∧ isNumB b = true := by
  simp only [decBytesOk, Bool.and_eq_true, List.all_eq_true] at h
  cases tb with
  | nil => exact absurd h.2 (by decide)
  | cons b r => exact ⟨b, r, rfl, h.1 b (by simp)⟩

theorem parseCoordBody_rt (la lo : List UInt8) (hla : decBytesOk la = true) (hlo : decBytesOk lo = true)
    (s : Scan) (rest : List UInt8) (fuel : Nat) (h : At s (40 :: (la ++ 44 :: (lo ++ 41 :: rest))))
    (hs : s.stash = []) (hf : la.length + lo.length + 1 < fuel) :
    ∃ s', parseCoordBody fuel s = .ok (.coord (mkCoordFlt la) (mkCoordFlt lo), s') ∧ At s' rest ∧ s'.stash = [] := by
  obtain ⟨f, rfl⟩ : ∃ f, fuel = f + 1 := ⟨fuel - 1, by omega⟩
  have hla' := hla
  have hlo' := hlo
  simp only [decBytesOk, Bool.and_eq_true, List.all_eq_true] at hla' hlo'
  obtain ⟨a0, ar, ea, ha0⟩ := decBytesOk_head hla
  obtain ⟨o0, orr, eo, ho0⟩ := decBytesOk_head hlo
  have h0 := h.advance
  have e1 := parseDecimal_rt la hla'.1 hla'.2 s.advance _ (f + 1) h0 (Stop_cons (by decide)) (by omega)
  have h2 : At (advN la.length s.advance) (44 :: (lo ++ 41 :: rest)) := h0.advN
  have h3 := h2.advance
  have e4 := parseDecimal_rt lo hlo'.1 hlo'.2 (advN la.length s.advance).advance _ (f + 1) h3
    (Stop_cons (by decide)) (by omega)
  have h5 : At (advN lo.length (advN la.length s.advance).advance) (41 :: rest) := h3.advN
  have sp0 : s.advance.isSpace = false := by
    have := h0; rw [ea] at this; exact isSpace_false_of_num this.cur ha0
  have sp2 : (advN la.length s.advance).isSpace = false := isSpace_of_cur h2.cur (by decide) (by decide)
  have sp3 : (advN la.length s.advance).advance.isSpace = false := by
    have := h3; rw [eo] at this; exact isSpace_false_of_num this.cur ho0
  have sp5 : (advN lo.length (advN la.length s.advance).advance).isSpace = false :=
    isSpace_of_cur h5.cur (by decide) (by decide)
  refine ⟨(advN lo.length (advN la.length s.advance).advance).advance, ?_, h5.advance, ?_⟩
  · unfold parseCoordBody
    simp [h.cur, consumeSpaces_none sp0, e1, consumeSpaces_none sp2, h2.cur, consumeSpaces_none sp3, e4,
      consumeSpaces_none sp5, h5.cur]
  · have a1 : s.advance.stash = [] := by rw [At.advance_stash, hs]; rfl
    have a2 := advN_stash_nil la.length _ a1
    have a3 : (advN la.length s.advance).advance.stash = [] := by rw [At.advance_stash, a2]; rfl
    have a4 := advN_stash_nil lo.length _ a3
    rw [At.advance_stash, a4]; rfl

theorem lexRead_coord (la lo : List UInt8) (hla : decBytesOk la = true) (hlo : decBytesOk lo = true)
    (s : Scan) (rest : List UInt8) (fuel : Nat) (h : At s (67 :: 40 :: (la ++ 44 :: (lo ++ 41 :: rest))))
    (hs : s.stash = []) (hf : la.length + lo.length + 5 ≤ fuel) :
    ∃ s', lexRead fuel s = .ok { sc := s', tok := .val (.coord (mkCoordFlt la) (mkCoordFlt lo)) } ∧ At s' rest
      ∧ s'.stash = [] := by
  obtain ⟨f, rfl⟩ : ∃ f, fuel = f + 1 := ⟨fuel - 1, by omega⟩
  have hC : encChars ['C'] = [67] := by decide
  obtain ⟨hat, e⟩ := lexRead_upper ['C'] (by decide) s (40 :: (la ++ 44 :: (lo ++ 41 :: rest))) f
    (by rw [hC]; exact h) (Stop_cons (by decide)) (by simp; omega)
  obtain ⟨s', e', h', hs'⟩ := parseCoordBody_rt la lo hla hlo (advN 1 s) rest f hat (advN_stash_nil _ _ hs) (by omega)
  refine ⟨s', ?_, h', hs'⟩
  simp only [List.length_cons, List.length_nil, Nat.zero_add] at e hat
  rw [e, hat.cur, e']
  simp

end Hs.Zinc
