/-
  `dictOf` (the model of collecting into a `BTreeMap`) rebuilds a dict whose keys are strictly ascending.
-/
import Hs.Model.ZincParse
namespace Hs.Zinc
open Hs

theorem leChars_antisymm : ∀ (a b : List Char), leChars a b = true → leChars b a = true → a = b
  | [], [], _, _ => rfl
  | [], _ :: _, _, h => by simp [leChars] at h
  | _ :: _, [], h, _ => by simp [leChars] at h
  | x :: xs, y :: ys, h1, h2 => by
    simp only [leChars] at h1 h2
    by_cases c1 : x.toNat < y.toNat
    · have : ¬ (y.toNat < x.toNat) := by omega
      have c3 : y.toNat > x.toNat := c1
      simp [this, c3] at h2
    · by_cases c2 : x.toNat > y.toNat
      · simp [c1, c2] at h1
      · have c2' : ¬ (y.toNat < x.toNat) := c2
        have c1' : ¬ (y.toNat > x.toNat) := c1
        simp only [c1, c2, c1', c2', if_false] at h1 h2
        have e : x = y := Char.toNat_inj.mp (by omega)
        rw [e, leChars_antisymm xs ys h1 h2]

/-- strict key order -/
def ltKey (a b : List Char) : Bool := leChars a b && a != b

def keysSorted : List (List Char) → Bool
  | [] => true
  | k :: ks => ks.all (ltKey k) && keysSorted ks

theorem insertSorted_last (k : List Char) (v : Val) :
    ∀ l : List (List Char × Val), (∀ x ∈ l, ltKey x.1 k = true) → insertSorted k v l = l ++ [(k, v)]
  | [], _ => rfl
  | (k', v') :: rest, h => by
    have hk := h (k', v') (by simp)
    simp only [ltKey, Bool.and_eq_true, bne_iff_ne, ne_eq] at hk
    have h1 : (k == k') = false := by
      simp only [beq_eq_false_iff_ne, ne_eq]; exact fun e => hk.2 e.symm
    have h2 : leChars k k' = false := by
      cases hle : leChars k k' with
      | false => rfl
      | true => exact absurd (leChars_antisymm k' k hk.1 hle) hk.2
    simp only [insertSorted, h1, h2, Bool.false_eq_true, if_false, List.cons_append]
    rw [insertSorted_last k v rest (fun x hx => h x (by simp [hx]))]

theorem foldl_insertSorted : ∀ (l acc : List (List Char × Val)),
    (∀ x ∈ acc, ∀ y ∈ l, ltKey x.1 y.1 = true) → keysSorted (l.map (·.1)) = true →
    l.foldl (fun acc p => insertSorted p.1 p.2 acc) acc = acc ++ l
  | [], acc, _, _ => by simp
  | (k, v) :: rest, acc, h, hs => by
    simp only [List.map_cons, keysSorted, Bool.and_eq_true, List.all_eq_true, List.mem_map] at hs
    simp only [List.foldl_cons]
    rw [insertSorted_last k v acc (fun x hx => h x hx (k, v) (by simp))]
    rw [foldl_insertSorted rest (acc ++ [(k, v)]) ?_ hs.2]
    · simp
    · intro x hx y hy
      simp only [List.mem_append, List.mem_singleton] at hx
      rcases hx with hx | rfl
      · exact h x hx y (by simp [hy])
      · exact hs.1 y.1 ⟨y, hy, rfl⟩

theorem Tags.ofList_toList : ∀ t : Tags, Tags.ofList t.toList = t
  | .nil => rfl
  | .cons k v t => by simp [Tags.toList, Tags.ofList, Tags.ofList_toList t]

theorem Tags.keys_toList : ∀ t : Tags, t.toList.map (·.1) = t.keys
  | .nil => rfl
  | .cons k v t => by simp [Tags.toList, Tags.keys, Tags.keys_toList t]

/-- collecting the entries of a dict with strictly ascending keys gives the dict back -/
theorem dictOf_toList (t : Tags) (h : keysSorted t.keys = true) : dictOf t.toList = t := by
  unfold dictOf
  rw [foldl_insertSorted t.toList [] (by simp) (by rw [Tags.keys_toList]; exact h)]
  simp [Tags.ofList_toList]

end Hs.Zinc
