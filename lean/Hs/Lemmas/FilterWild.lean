/-
  Hs.Lemmas.FilterWild — the `while let` loop of `WildcardEq::eval` (visited set `resolved_refs`)
  against the specification "the Ref chain reaches the target": the visited set never cuts off a
  chain that would still reach the target, and the loop ends within `records + 2` rounds.
-/
import Hs.Lemmas.Filter
namespace Hs

/-- the Ref chain, followed on the values the resolver hands back (`n` hops at most) -/
def chaseV (res : Resolver) (p : FPath) (target : List Char) : Nat → Val → Bool
  | 0, _ => false
  | n + 1, cur =>
    match cur with
    | .ref id _ =>
      id == target ||
        (match res.resolveRef id with
         | some d => chaseV res p target n (res.resolveFor d p)
         | none => false)
    | _ => false

theorem chaseV_zero (res : Resolver) (p : FPath) (t : List Char) (cur : Val) :
    chaseV res p t 0 cur = false := by
  simp [chaseV]

theorem chaseV_ref (res : Resolver) (p : FPath) (t : List Char) (n : Nat) (id : List Char)
    (dis : Option (List Char)) :
    chaseV res p t (n + 1) (.ref id dis) =
      (id == t ||
        (match res.resolveRef id with
         | some d => chaseV res p t n (res.resolveFor d p)
         | none => false)) := by
  simp [chaseV]

theorem chaseV_ref_dis (res : Resolver) (p : FPath) (t : List Char) (n : Nat) (id : List Char)
    (d1 d2 : Option (List Char)) :
    chaseV res p t n (.ref id d1) = chaseV res p t n (.ref id d2) := by
  cases n with
  | zero => simp [chaseV]
  | succ n => simp [chaseV]

theorem chaseV_notRef (res : Resolver) (p : FPath) (t : List Char) (n : Nat) (cur : Val)
    (h : ∀ id dis, cur ≠ .ref id dis) : chaseV res p t n cur = false := by
  cases n with
  | zero => simp [chaseV]
  | succ n =>
    cases cur <;> simp [chaseV]
    case ref id dis => exact absurd rfl (h id dis)

/-- invariant of the loop: from every Ref already in `resolved_refs` the chain leads on to the
current value, in strictly fewer hops than it needs to reach the target -/
def WildInv (res : Resolver) (p : FPath) (t : List Char) (seen : List (List Char)) (cur : Val) : Prop :=
  ∀ s, s ∈ seen → ∀ n, chaseV res p t n (.ref s none) = true →
    ∃ m, m < n ∧ chaseV res p t m cur = true

theorem exists_ref_of_not (cur : Val) (hc : ¬ ∀ id dis, cur ≠ .ref id dis) :
    ∃ id dis, cur = .ref id dis := by
  cases cur <;> simp at hc ⊢

theorem wildLoop_notRef (res : Resolver) (p : FPath) (t : List Char) (fuel : Nat)
    (seen : List (List Char)) (cur : Val) (hc : ∀ id dis, cur ≠ .ref id dis) :
    wildLoop res p t (fuel + 1) seen cur = some false := by
  cases cur <;> simp [wildLoop]
  case ref id dis => exact absurd rfl (hc id dis)

/-- the loop answers `true` only when the chain reaches the target (within the rounds it ran) -/
theorem wildLoop_true (res : Resolver) (p : FPath) (t : List Char)
    (hne : ∀ id d, res.resolveRef id = some d → d.isEmpty = false) :
    ∀ (fuel : Nat) (seen : List (List Char)) (cur : Val),
      wildLoop res p t fuel seen cur = some true → chaseV res p t fuel cur = true
  | 0, _, _, h => by simp [wildLoop] at h
  | fuel + 1, seen, cur, h => by
    by_cases hc : ∀ id dis, cur ≠ .ref id dis
    · rw [wildLoop_notRef res p t fuel seen cur hc] at h
      exact absurd h (by simp)
    · obtain ⟨id, dis, hcur⟩ := exists_ref_of_not cur hc
      subst hcur
      rw [wildLoop] at h
      rw [chaseV_ref]
      by_cases ht : id = t
      · simp [ht]
      · rw [if_neg ht] at h
        by_cases hs : seen.contains id = true
        · rw [if_pos hs] at h
          exact absurd h (by simp)
        · rw [if_neg hs] at h
          cases hr : res.resolveRef id with
          | none => rw [hr] at h; exact absurd h (by simp)
          | some d =>
            simp only [hr, hne id d hr, Bool.not_false, if_true] at h
            simp [wildLoop_true res p t hne fuel (id :: seen) _ h]

/-- the loop answers `false` only when the chain never reaches the target -/
theorem wildLoop_false (res : Resolver) (p : FPath) (t : List Char)
    (hne : ∀ id d, res.resolveRef id = some d → d.isEmpty = false) :
    ∀ (fuel : Nat) (seen : List (List Char)) (cur : Val), WildInv res p t seen cur →
      wildLoop res p t fuel seen cur = some false → ∀ n, chaseV res p t n cur = false
  | 0, _, _, _, h => by simp [wildLoop] at h
  | fuel + 1, seen, cur, hinv, h => by
    by_cases hc : ∀ id dis, cur ≠ .ref id dis
    · intro n; exact chaseV_notRef res p t n cur hc
    · have ⟨id, dis, hcur⟩ : ∃ id dis, cur = .ref id dis := by
        cases cur <;> simp at hc ⊢
      subst hcur
      rw [wildLoop] at h
      by_cases ht : id = t
      · simp [ht] at h
      · simp only [ht, if_false] at h
        by_cases hs : seen.contains id = true
        · -- a Ref seen before: the chain is in a cycle that does not contain the target
          have hmem : id ∈ seen := by simpa using hs
          intro n
          induction n using Nat.strongRecOn with
          | _ n ih =>
            cases hv : chaseV res p t n (.ref id dis) with
            | false => rfl
            | true =>
              have hv' : chaseV res p t n (.ref id none) = true := by
                rw [chaseV_ref_dis res p t n id none dis]; exact hv
              obtain ⟨m, hm, hmv⟩ := hinv id hmem n hv'
              rw [ih m hm] at hmv
              exact absurd hmv (by simp)
        · rw [if_neg hs] at h
          cases hr : res.resolveRef id with
          | none =>
            intro n
            cases n with
            | zero => exact chaseV_zero ..
            | succ n => simp [chaseV_ref, hr, ht]
          | some d =>
            simp only [hr, hne id d hr, Bool.not_false, if_true] at h
            have hinv' : WildInv res p t (id :: seen) (res.resolveFor d p) := by
              intro s hsm n hn
              have step : ∀ k, chaseV res p t k (.ref id none) = true →
                  ∃ m, m < k ∧ chaseV res p t m (res.resolveFor d p) = true := by
                intro k hk
                cases k with
                | zero => simp [chaseV] at hk
                | succ k =>
                  rw [chaseV_ref] at hk
                  simp only [hr, Bool.or_eq_true, beq_iff_eq, ht, false_or] at hk
                  exact ⟨k, Nat.lt_succ_self k, hk⟩
              rcases List.mem_cons.1 hsm with rfl | hs'
              · exact step n hn
              · obtain ⟨m, hm, hmv⟩ := hinv s hs' n hn
                rw [chaseV_ref_dis res p t m id dis none] at hmv
                obtain ⟨m', hm', hmv'⟩ := step m hmv
                exact ⟨m', Nat.lt_trans hm' hm, hmv'⟩
            have ih := wildLoop_false res p t hne fuel (id :: seen) _ hinv' h
            intro n
            cases n with
            | zero => exact chaseV_zero ..
            | succ n => simp [chaseV_ref, hr, ht, ih n]

/-- the loop ends while fuel remains, for any measure of the visited set that drops with every
Ref the resolver knows and that is visited for the first time -/
theorem wildLoop_some (res : Resolver) (p : FPath) (t : List Char) (mu : List (List Char) → Nat)
    (hmu : ∀ seen id d, res.resolveRef id = some d → seen.contains id = false →
      mu (id :: seen) < mu seen) :
    ∀ (fuel : Nat) (seen : List (List Char)) (cur : Val), mu seen < fuel →
      ∃ b, wildLoop res p t fuel seen cur = some b
  | 0, _, _, h => absurd h (Nat.not_lt_zero _)
  | fuel + 1, seen, cur, h => by
    by_cases hc : ∀ id dis, cur ≠ .ref id dis
    · exact ⟨false, wildLoop_notRef res p t fuel seen cur hc⟩
    · obtain ⟨id, dis, hcur⟩ := exists_ref_of_not cur hc
      subst hcur
      rw [wildLoop]
      by_cases ht : id = t
      · exact ⟨true, by rw [if_pos ht]⟩
      · rw [if_neg ht]
        by_cases hs : seen.contains id = true
        · exact ⟨false, by rw [if_pos hs]⟩
        · rw [if_neg hs]
          cases hr : res.resolveRef id with
          | none => exact ⟨false, rfl⟩
          | some d =>
            have hlt : mu (id :: seen) < fuel :=
              Nat.lt_of_lt_of_le (hmu seen id d hr (by simpa using hs)) (Nat.le_of_lt_succ h)
            simp only []
            split
            · exact wildLoop_some res p t mu hmu fuel (id :: seen) _ hlt
            · exact wildLoop_some res p t mu hmu fuel (id :: seen) _ hlt

/-! ### the record resolver of the harness -/

theorem filter_length_le {α} (p q : α → Bool) (hpq : ∀ x, q x = true → p x = true) :
    ∀ (l : List α), (l.filter q).length ≤ (l.filter p).length
  | [] => by simp
  | x :: xs => by
    have ih := filter_length_le p q hpq xs
    simp only [List.filter_cons]
    cases hq : q x with
    | true => simp [hpq x hq]; exact ih
    | false => cases hp : p x <;> simp <;> omega

theorem filter_length_lt {α} (p q : α → Bool) (hpq : ∀ x, q x = true → p x = true) (a : α)
    (hpa : p a = true) (hqa : q a = false) :
    ∀ (l : List α), a ∈ l → (l.filter q).length < (l.filter p).length
  | [], h => by simp at h
  | x :: xs, hmem => by
    have hle := filter_length_le p q hpq xs
    simp only [List.filter_cons]
    rcases List.mem_cons.1 hmem with rfl | hin
    · simp [hpa, hqa]; omega
    · have ih := filter_length_lt p q hpq a hpa hqa xs hin
      cases hq : q x with
      | true => simp [hpq x hq]; exact ih
      | false => cases hp : p x <;> simp <;> omega

/-- a record whose `id` is a Ref that has not been visited -/
def unseenRec (seen : List (List Char)) (r : Tags) : Bool :=
  match r.refId with
  | some i => !seen.contains i
  | none => false

/-- the measure: records not yet visited -/
def unseenCount (recs : List Tags) (seen : List (List Char)) : Nat :=
  (recs.filter (unseenRec seen)).length

theorem recsResolveRef_some (recs : List Tags) (id : List Char) (d : Tags)
    (h : recsResolveRef recs id = some d) : d ∈ recs ∧ d.refId = some id := by
  unfold recsResolveRef at h
  refine ⟨List.mem_of_find?_eq_some h, ?_⟩
  have := List.find?_some h
  simpa using this

theorem recsResolveRef_nonempty (recs : List Tags) (id : List Char) (d : Tags)
    (h : recsResolveRef recs id = some d) : d.isEmpty = false := by
  have h2 := (recsResolveRef_some recs id d h).2
  cases d with
  | nil => simp [Tags.refId, Tags.get?] at h2
  | cons k v t => rfl

theorem unseenCount_drop (recs : List Tags) (seen : List (List Char)) (id : List Char) (d : Tags)
    (hr : recsResolveRef recs id = some d) (hs : seen.contains id = false) :
    unseenCount recs (id :: seen) < unseenCount recs seen := by
  obtain ⟨hmem, hid⟩ := recsResolveRef_some recs id d hr
  refine filter_length_lt (unseenRec seen) (unseenRec (id :: seen)) ?_ d ?_ ?_ recs hmem
  · intro x hx
    unfold unseenRec at hx ⊢
    cases hxi : x.refId with
    | none => simp [hxi] at hx
    | some i =>
      simp only [hxi] at hx ⊢
      simp only [List.contains_cons, Bool.not_eq_true', Bool.or_eq_false_iff] at hx
      simpa using hx.2
  · simpa [unseenRec, hid] using hs
  · simp [unseenRec, hid]

/-- With `records + 2` rounds of fuel the loop of the model always ends … -/
theorem wildLoop_terminates (recs : List Tags) (p : FPath) (t : List Char) (cur : Val) :
    ∃ b, wildLoop (recsResolver recs) p t (recs.length + 2) [] cur = some b := by
  refine wildLoop_some (recsResolver recs) p t (unseenCount recs) ?_ (recs.length + 2) [] cur ?_
  · intro seen id d hr hs
    exact unseenCount_drop recs seen id d hr hs
  · have : unseenCount recs [] ≤ recs.length := List.length_filter_le _ _
    omega

/-- … and its answer is "the chain reaches the target within `records + 2` hops" -/
theorem wildLoop_spec (recs : List Tags) (p : FPath) (t : List Char) (cur : Val) :
    (wildLoop (recsResolver recs) p t (recs.length + 2) [] cur).getD false =
      chaseV (recsResolver recs) p t (recs.length + 2) cur := by
  have hne : ∀ id d, (recsResolver recs).resolveRef id = some d → d.isEmpty = false :=
    fun id d h => recsResolveRef_nonempty recs id d h
  obtain ⟨b, hb⟩ := wildLoop_terminates recs p t cur
  rw [hb]
  cases b with
  | true => simp [wildLoop_true _ p t hne _ _ _ hb]
  | false =>
    have hinv : WildInv (recsResolver recs) p t [] cur := by intro s hs; simp at hs
    simp [wildLoop_false _ p t hne _ _ _ hinv hb]

/-- the bound is no restriction: a chain that reaches the target at all reaches it within
`records + 2` hops -/
theorem chaseV_bounded (recs : List Tags) (p : FPath) (t : List Char) (cur : Val) (n : Nat)
    (h : chaseV (recsResolver recs) p t n cur = true) :
    chaseV (recsResolver recs) p t (recs.length + 2) cur = true := by
  have hne : ∀ id d, (recsResolver recs).resolveRef id = some d → d.isEmpty = false :=
    fun id d h => recsResolveRef_nonempty recs id d h
  obtain ⟨b, hb⟩ := wildLoop_terminates recs p t cur
  cases b with
  | true => exact wildLoop_true _ p t hne _ _ _ hb
  | false =>
    have hinv : WildInv (recsResolver recs) p t [] cur := by intro s hs; simp at hs
    rw [wildLoop_false _ p t hne _ _ _ hinv hb n] at h
    exact absurd h (by simp)

/-- the chain of the specification (on records, through `lookupSpec`) is the chain on the values
`Recs::resolve_for` hands back -/
theorem chaseSpec_eq (recs : List Tags) (env : SpecEnv) (henv : env.deref = recsResolveRef recs)
    (p : FPath) (t : List Char) :
    ∀ (n : Nat) (d : Tags),
      chaseSpec env p t n d = chaseV (recsResolver recs) p t n (recsResolveFor recs d p)
  | 0, d => by simp [chaseSpec, chaseV]
  | n + 1, d => by
    rw [chaseSpec, recsResolveFor_spec, henv]
    cases hl : lookupSpec (recsResolveRef recs) d p with
    | none => simp [orNull, chaseV]
    | some v =>
      cases v <;> simp only [orNull] <;> try (simp [chaseV])
      case ref id dis =>
        cases hd : recsResolveRef recs id with
        | none => simp [recsResolver, hd]
        | some d' =>
          simp only [recsResolver, hd]
          rw [chaseSpec_eq recs env henv p t n d']
          rfl

end Hs
