/-
  Hs.Lemmas.NsGraph — the specification graph of a def namespace (`Edge`, `RawEdge`; `Acyclic` only to tell
  which examples are cyclic: no theorem assumes it) and what `Namespace::make` guarantees: distinct def names,
  the `subtypes` index is the inverted `is` relation, the `conjuncts_keys` index finds exactly the conjunct
  defs; the direct super/subtypes of any symbol are def names (the finite universe of the work-list loops).
-/
import Hs.Lemmas.NsWl
namespace Hs.Ns
open Relation

/-! ### the specification graph -/

/-- `a` is defined and lists the symbol `b` in its `is` list (`b` may be undefined) -/
def RawEdge (g : Defs) (a b : Name) : Prop := ∃ d, get g a = some d ∧ b ∈ d.is

/-- edge of the subtype graph: `a` is defined, lists `b` in `is`, and `b` is defined -/
def Edge (g : Defs) (a b : Name) : Prop := ∃ d, get g a = some d ∧ b ∈ d.is ∧ defined g b = true

/-- Acyclicity as a topological numbering (`r b < r a` along every `is` item) bounded by the number of defs.
Undefined symbols have no outgoing edge, so cycles can only run through defined defs: `RawEdge`-acyclic and
`Edge`-acyclic are the same thing (`acyclic_of_edge_rank`).  NO theorem of C13 assumes it any more (the
traversals expand a def once); it is kept to state that the cyclic examples are cyclic (`not_acyclic_of_cycle`). -/
def Acyclic (g : Defs) : Prop :=
  ∃ r : Name → Nat, (∀ a b, RawEdge g a b → r b < r a) ∧ ∀ a, r a ≤ g.length

def Names (g : Defs) : List Name := g.map (fun d => d.name)

/-! ### `get` -/

theorem get_some {g : Defs} {s : Name} {d : Def} (h : get g s = some d) : d ∈ g ∧ d.name = s := by
  unfold get at h
  exact ⟨List.mem_of_find?_eq_some h, by simpa using List.find?_some h⟩

theorem get_of_mem {g : Defs} (hn : (Names g).Nodup) {d : Def} (hd : d ∈ g) : get g d.name = some d := by
  induction g with
  | nil => cases hd
  | cons e g ih =>
    simp only [Names, List.map_cons, List.nodup_cons] at hn
    unfold get
    simp only [List.find?_cons]
    by_cases he : e.name = d.name
    · rcases List.mem_cons.1 hd with rfl | hd'
      · simp
      · exfalso
        apply hn.1
        rw [he]
        exact List.mem_map.2 ⟨d, hd', rfl⟩
    · simp only [he, decide_false]
      rcases List.mem_cons.1 hd with rfl | hd'
      · exact absurd rfl he
      · exact ih hn.2 hd'

theorem defined_iff {g : Defs} {s : Name} : defined g s = true ↔ ∃ d, get g s = some d := by
  unfold defined
  cases get g s <;> simp

theorem defined_iff_mem {g : Defs} {s : Name} : defined g s = true ↔ s ∈ Names g := by
  rw [defined_iff]
  constructor
  · rintro ⟨d, hd⟩
    obtain ⟨h1, h2⟩ := get_some hd
    exact List.mem_map.2 ⟨d, h1, h2⟩
  · intro h
    obtain ⟨d, hd, rfl⟩ := List.mem_map.1 h
    unfold get
    cases hf : List.find? (fun e => decide (e.name = d.name)) g with
    | some e => exact ⟨e, rfl⟩
    | none =>
      have := List.find?_eq_none.1 hf d hd
      simp at this

theorem edge_raw {g : Defs} {a b : Name} (h : Edge g a b) : RawEdge g a b := by
  obtain ⟨d, h1, h2, _⟩ := h; exact ⟨d, h1, h2⟩

/-- an `Edge`-ranking bounded below the number of defs gives `Acyclic` -/
theorem acyclic_of_edge_rank (g : Defs) (r : Name → Nat) (hr : ∀ a b, Edge g a b → r b < r a)
    (hb : ∀ a, defined g a = true → r a < g.length) : Acyclic g := by
  refine ⟨fun a => if defined g a then r a + 1 else 0, ?_, ?_⟩
  · rintro a b ⟨d, hd, hb'⟩
    have ha : defined g a = true := defined_iff.2 ⟨d, hd⟩
    simp only [ha, if_true]
    by_cases hdb : defined g b = true
    · simp only [hdb, if_true]
      have := hr a b ⟨d, hd, hb', hdb⟩
      omega
    · simp [hdb]
  · intro a
    by_cases ha : defined g a = true
    · simp only [ha, if_true]; have := hb a ha; omega
    · simp [ha]

/-- a def that reaches itself along `is` items rules out every topological numbering -/
theorem not_acyclic_of_cycle {g : Defs} {a : Name} (h : TransGen (RawEdge g) a a) : ¬ Acyclic g := by
  rintro ⟨r, hr, _⟩
  have hlt : ∀ x y, TransGen (RawEdge g) x y → r y < r x := by
    intro x y hxy
    induction hxy with
    | single h1 => exact hr _ _ h1
    | tail _ h1 ih => exact Nat.lt_trans (hr _ _ h1) ih
  exact Nat.lt_irrefl _ (hlt a a h)

/-! ### direct supertypes -/

theorem mem_supertypesOf {g : Defs} {s b : Name} : b ∈ supertypesOf g s ↔ Edge g s b := by
  unfold supertypesOf Edge
  cases hg : get g s with
  | none => simp
  | some d =>
    simp only [List.mem_filterMap, Option.some.injEq, exists_eq_left', Def.is]
    constructor
    · rintro ⟨it, hit, h⟩
      cases it with
      | none => simp at h
      | some c =>
        by_cases hc : defined g c = true
        · simp only [hc, if_true, Option.some.injEq] at h
          subst h
          exact ⟨⟨some c, hit, rfl⟩, hc⟩
        · simp [hc] at h
    · rintro ⟨⟨it, hit, h⟩, hdef⟩
      simp only [id] at h
      subst h
      exact ⟨some b, hit, by simp [hdef]⟩

/-- the direct supertypes of ANY symbol are def names: the universe of `all_supertypes_of` -/
theorem supertypesOf_in_names (g : Defs) (a b : Name) (h : b ∈ supertypesOf g a) : b ∈ Names g := by
  obtain ⟨_, _, _, hb⟩ := mem_supertypesOf.1 h
  exact defined_iff_mem.1 hb

theorem length_names (g : Defs) : (Names g).length = g.length := by simp [Names]

theorem le_sum_of_mem {l : List Nat} {x : Nat} (h : x ∈ l) : x ≤ l.sum := by
  induction l with
  | nil => cases h
  | cons a l ih =>
    simp only [List.sum_cons]
    rcases List.mem_cons.1 h with rfl | h
    · omega
    · have := ih h; omega

theorem length_supertypesOf_le (g : Defs) (s : Name) : (supertypesOf g s).length ≤ totalIs g := by
  unfold supertypesOf
  cases hg : get g s with
  | none => simp
  | some d =>
    obtain ⟨hd, _⟩ := get_some hg
    refine Nat.le_trans (List.length_filterMap_le _ _) ?_
    unfold totalIs
    exact le_sum_of_mem (List.mem_map.2 ⟨d, hd, rfl⟩)

/-! ### `upsert` / `mkDefs`: names are distinct -/

theorem names_upsert (d : Def) (g : Defs) :
    Names (upsert d g) = if d.name ∈ Names g then Names g else Names g ++ [d.name] := by
  induction g with
  | nil => simp [upsert, Names]
  | cons e g ih =>
    unfold upsert
    by_cases h : e.name = d.name
    · simp [h, Names]
    · simp only [h, if_false]
      have h' : ¬ d.name = e.name := fun x => h x.symm
      simp only [Names, List.map_cons, List.mem_cons, h', false_or] at ih ⊢
      rw [ih]
      by_cases hm : d.name ∈ List.map (fun d => d.name) g
      · simp only [if_pos hm]
        exact congrArg _ (if_pos hm)
      · simp only [if_neg hm, List.cons_append]
        exact congrArg _ (if_neg hm)

theorem nodup_upsert (d : Def) (g : Defs) (h : (Names g).Nodup) : (Names (upsert d g)).Nodup := by
  rw [names_upsert]
  split
  · exact h
  · rename_i hn
    refine List.nodup_append.2 ⟨h, by simp, ?_⟩
    intro x hx y hy
    simp only [List.mem_singleton] at hy
    subst hy
    intro hxy
    subst hxy
    exact hn hx

theorem nodup_mkDefs (rows : List Row) : (Names (mkDefs rows)).Nodup := by
  unfold mkDefs
  suffices h : ∀ (g : Defs), (Names g).Nodup → (Names (rows.foldl rowStep g)).Nodup from h [] (by simp [Names])
  induction rows with
  | nil => intro g hg; exact hg
  | cons r rows ih =>
    intro g hg
    simp only [List.foldl_cons]
    apply ih
    unfold rowStep
    cases r.name with
    | none => exact hg
    | some n => exact nodup_upsert _ _ hg

/-! ### association-list indexes -/

theorem mem_lookup_pushAt {β : Type} (k k' : Name) (v x : β) (m : List (Name × List β)) :
    x ∈ lookup k (pushAt k' v m) ↔ x ∈ lookup k m ∨ (k = k' ∧ x = v) := by
  induction m with
  | nil =>
    simp only [pushAt, lookup]
    by_cases h : k' = k
    · simp [h]
    · have h' : ¬ k = k' := fun x => h x.symm
      simp [h, h']
  | cons e m ih =>
    obtain ⟨k0, vs⟩ := e
    simp only [pushAt]
    by_cases h0 : k0 = k'
    · subst h0
      simp only [if_true, lookup]
      by_cases h : k0 = k
      · subst h; simp [or_comm]
      · have h' : ¬ k = k0 := fun x => h x.symm
        simp [h, h']
    · simp only [h0, if_false, lookup]
      by_cases h : k0 = k
      · subst h
        have h' : ¬ k0 = k' := h0
        simp [h']
      · simp only [h, if_false]; exact ih

theorem length_lookup_pushAt {β : Type} (k k' : Name) (v : β) (m : List (Name × List β)) :
    (lookup k (pushAt k' v m)).length ≤ (lookup k m).length + 1 := by
  induction m with
  | nil =>
    simp only [pushAt, lookup]
    by_cases h : k' = k <;> simp [h]
  | cons e m ih =>
    obtain ⟨k0, vs⟩ := e
    simp only [pushAt]
    by_cases h0 : k0 = k'
    · subst h0
      simp only [if_true, lookup]
      by_cases h : k0 = k <;> simp [h]
    · simp only [h0, if_false, lookup]
      by_cases h : k0 = k
      · simp [h]
      · simp only [h, if_false]; exact ih

theorem mem_lookup_pushAll (k n x : Name) (ss : List Name) (m : List (Name × List Name)) :
    x ∈ lookup k (ss.foldl (fun m s => pushAt s n m) m) ↔ x ∈ lookup k m ∨ (k ∈ ss ∧ x = n) := by
  induction ss generalizing m with
  | nil => simp
  | cons s ss ih =>
    simp only [List.foldl_cons, List.mem_cons]
    rw [ih, mem_lookup_pushAt]
    constructor
    · rintro ((h | ⟨h1, h2⟩) | ⟨h1, h2⟩)
      · exact Or.inl h
      · exact Or.inr ⟨Or.inl h1, h2⟩
      · exact Or.inr ⟨Or.inr h1, h2⟩
    · rintro (h | ⟨h1 | h1, h2⟩)
      · exact Or.inl (Or.inl h)
      · exact Or.inl (Or.inr ⟨h1, h2⟩)
      · exact Or.inr ⟨h1, h2⟩

theorem length_lookup_pushAll (k n : Name) (ss : List Name) (m : List (Name × List Name)) :
    (lookup k (ss.foldl (fun m s => pushAt s n m) m)).length ≤ (lookup k m).length + ss.length := by
  induction ss generalizing m with
  | nil => simp
  | cons s ss ih =>
    simp only [List.foldl_cons, List.length_cons]
    have h1 := ih (pushAt s n m)
    have h2 := length_lookup_pushAt k s n m
    omega

theorem mem_lookup_subtypes_fold (k x : Name) (g : Defs) (m : List (Name × List Name)) :
    x ∈ lookup k (g.foldl (fun m d => d.is.foldl (fun m s => pushAt s d.name m) m) m) ↔
      x ∈ lookup k m ∨ ∃ d ∈ g, d.name = x ∧ k ∈ d.is := by
  induction g generalizing m with
  | nil => simp
  | cons e g ih =>
    simp only [List.foldl_cons]
    rw [ih, mem_lookup_pushAll]
    constructor
    · rintro ((h | ⟨h1, h2⟩) | ⟨d, hd, h⟩)
      · exact Or.inl h
      · exact Or.inr ⟨e, List.mem_cons_self, h2.symm, h1⟩
      · exact Or.inr ⟨d, List.mem_cons_of_mem _ hd, h⟩
    · rintro (h | ⟨d, hd, h1, h2⟩)
      · exact Or.inl (Or.inl h)
      · rcases List.mem_cons.1 hd with rfl | hd
        · exact Or.inl (Or.inr ⟨h2, h1.symm⟩)
        · exact Or.inr ⟨d, hd, h1, h2⟩

theorem length_lookup_subtypes_fold (k : Name) (g : Defs) (m : List (Name × List Name)) :
    (lookup k (g.foldl (fun m d => d.is.foldl (fun m s => pushAt s d.name m) m) m)).length ≤
      (lookup k m).length + totalIs g := by
  induction g generalizing m with
  | nil => simp [totalIs]
  | cons e g ih =>
    simp only [List.foldl_cons]
    have h1 := ih (e.is.foldl (fun m s => pushAt s e.name m) m)
    have h2 := length_lookup_pushAll k e.name e.is m
    have h3 : e.is.length ≤ e.isRaw.length := List.length_filterMap_le _ _
    simp only [totalIs, List.map_cons, List.sum_cons] at h1 ⊢
    omega

/-- the `subtypes` index is the inverted `is` relation -/
theorem mem_subtypesOf (rows : List Row) (s x : Name) :
    x ∈ subtypesOf (make rows) s ↔ RawEdge (make rows).defs x s := by
  unfold subtypesOf make computeSubtypes RawEdge
  simp only
  rw [mem_lookup_subtypes_fold]
  simp only [lookup, List.not_mem_nil, false_or]
  constructor
  · rintro ⟨d, hd, rfl, hk⟩
    exact ⟨d, get_of_mem (nodup_mkDefs rows) hd, hk⟩
  · rintro ⟨d, hd, hk⟩
    obtain ⟨h1, h2⟩ := get_some hd
    exact ⟨d, h1, h2, hk⟩

/-- the direct subtypes of ANY symbol (defined or only mentioned) are def names: the universe of
`all_subtypes_of` -/
theorem subtypesOf_in_names (rows : List Row) (a b : Name) (h : b ∈ subtypesOf (make rows) a) :
    b ∈ Names (make rows).defs := by
  obtain ⟨d, hd, _⟩ := (mem_subtypesOf rows a b).1 h
  exact defined_iff_mem.1 (defined_iff.2 ⟨d, hd⟩)

theorem length_subtypesOf_le (rows : List Row) (s : Name) :
    (subtypesOf (make rows) s).length ≤ totalIs (make rows).defs := by
  unfold subtypesOf make computeSubtypes
  simp only
  have := length_lookup_subtypes_fold s (mkDefs rows) []
  simpa [lookup] using this

/-! ### conjuncts -/

theorem splitDash_ne_nil (s : List Char) : splitDash s ≠ [] := by
  cases s with
  | nil => simp [splitDash]
  | cons c cs =>
    unfold splitDash
    split
    · simp
    · split <;> simp

theorem joinDash_cons_cons (c : Char) (p : List Char) (ps : List (List Char)) :
    joinDash ((c :: p) :: ps) = c :: joinDash (p :: ps) := by
  cases ps <;> simp [joinDash]

theorem joinDash_splitDash (s : List Char) : joinDash (splitDash s) = s := by
  induction s with
  | nil => simp [splitDash, joinDash]
  | cons c cs ih =>
    unfold splitDash
    by_cases hc : c = '-'
    · simp only [hc, if_true]
      cases hs : splitDash cs with
      | nil => exact absurd hs (splitDash_ne_nil cs)
      | cons q ps =>
        rw [hs] at ih
        simp [joinDash, ih]
    · simp only [hc, if_false]
      cases hs : splitDash cs with
      | nil => exact absurd hs (splitDash_ne_nil cs)
      | cons q ps =>
        rw [hs] at ih
        simp only
        rw [joinDash_cons_cons, ih]

/-- a name without `-` is its own single part -/
theorem splitDash_of_not_conjunct (s : List Char) (h : isConjunct s = false) : splitDash s = [s] := by
  induction s with
  | nil => rfl
  | cons c cs ih =>
    have hmem : ¬ '-' ∈ c :: cs := by
      intro hm
      have : isConjunct (c :: cs) = true := by
        unfold isConjunct; exact List.contains_iff_mem.2 hm
      rw [h] at this; cases this
    have hc : c ≠ '-' := fun e => hmem (by rw [e]; exact List.mem_cons_self)
    have hcs : isConjunct cs = false := by
      cases hx : isConjunct cs with
      | false => rfl
      | true =>
        exfalso
        unfold isConjunct at hx
        exact hmem (List.mem_cons_of_mem _ (List.contains_iff_mem.1 hx))
    unfold splitDash
    simp only [hc, if_false, ih hcs]

/-- `str::split('-')` yields one part more than there are dashes -/
theorem length_splitDash (s : List Char) : (splitDash s).length = s.count '-' + 1 := by
  induction s with
  | nil => rfl
  | cons c cs ih =>
    unfold splitDash
    by_cases hc : c = '-'
    · simp only [hc, if_true, List.length_cons, ih, List.count_cons_self]
    · simp only [hc, if_false]
      have hne : (c == '-') = false := by simpa using hc
      cases hs : splitDash cs with
      | nil => exact absurd hs (splitDash_ne_nil cs)
      | cons q ps =>
        rw [hs] at ih
        simp only [List.length_cons] at ih ⊢
        rw [List.count_cons, hne]
        simpa using ih

/-- a conjunct name (it contains `-`) has at least two parts: there is no one-part conjunct -/
theorem two_le_length_splitDash (s : List Char) (h : isConjunct s = true) : 2 ≤ (splitDash s).length := by
  rw [length_splitDash]
  have : 0 < s.count '-' := List.count_pos_iff.2 (List.contains_iff_mem.1 h)
  omega

/-- no part contains a dash -/
theorem not_dash_mem_splitDash (s p : List Char) (hp : p ∈ splitDash s) : ¬ '-' ∈ p := by
  induction s generalizing p with
  | nil =>
    simp only [splitDash, List.mem_singleton] at hp
    subst hp; simp
  | cons c cs ih =>
    unfold splitDash at hp
    by_cases hc : c = '-'
    · simp only [hc, if_true, List.mem_cons] at hp
      rcases hp with rfl | hp
      · simp
      · exact ih p hp
    · simp only [hc, if_false] at hp
      cases hs : splitDash cs with
      | nil => exact absurd hs (splitDash_ne_nil cs)
      | cons q ps =>
        rw [hs] at hp ih
        simp only [List.mem_cons] at hp
        rcases hp with rfl | hp
        · intro hm
          rcases List.mem_cons.1 hm with e | hm
          · exact hc e.symm
          · exact ih q List.mem_cons_self hm
        · exact ih p (List.mem_cons_of_mem _ hp)

theorem mem_lookup_conj_fold (k : Name) (parts : List Name) (g : Defs) (m : List (Name × List (List Name))) :
    parts ∈ lookup k (g.foldl conjStep m) ↔
      parts ∈ lookup k m ∨ ∃ d ∈ g, isConjunct d.name = true ∧ splitDash d.name = k :: parts := by
  induction g generalizing m with
  | nil => simp
  | cons e g ih =>
    simp only [List.foldl_cons]
    rw [ih]
    unfold conjStep
    by_cases hc : isConjunct e.name = true
    · simp only [hc, if_true]
      cases hs : splitDash e.name with
      | nil => exact absurd hs (splitDash_ne_nil _)
      | cons p ps =>
        simp only
        rw [mem_lookup_pushAt]
        constructor
        · rintro ((h | ⟨h1, h2⟩) | ⟨d, hd, h⟩)
          · exact Or.inl h
          · exact Or.inr ⟨e, List.mem_cons_self, hc, by rw [hs, h1, h2]⟩
          · exact Or.inr ⟨d, List.mem_cons_of_mem _ hd, h⟩
        · rintro (h | ⟨d, hd, h1, h2⟩)
          · exact Or.inl (Or.inl h)
          · rcases List.mem_cons.1 hd with rfl | hd
            · rw [hs] at h2
              simp only [List.cons.injEq] at h2
              exact Or.inl (Or.inr ⟨h2.1.symm, h2.2.symm⟩)
            · exact Or.inr ⟨d, hd, h1, h2⟩
    · simp only [hc]
      constructor
      · rintro (h | ⟨d, hd, h⟩)
        · exact Or.inl h
        · exact Or.inr ⟨d, List.mem_cons_of_mem _ hd, h⟩
      · rintro (h | ⟨d, hd, h1, h2⟩)
        · exact Or.inl h
        · rcases List.mem_cons.1 hd with rfl | hd
          · exact absurd h1 hc
          · exact Or.inr ⟨d, hd, h1, h2⟩

/-- `find_conjuncts` finds exactly the conjunct defs all of whose parts are in `markers` -/
theorem mem_findConjuncts (rows : List Row) (markers : List Name) (x : Name) :
    x ∈ findConjuncts (make rows) markers ↔
      defined (make rows).defs x = true ∧ isConjunct x = true ∧ ∀ p ∈ splitDash x, p ∈ markers := by
  unfold findConjuncts
  simp only [List.mem_flatMap, List.mem_filterMap]
  have hck : (make rows).conjKeys = computeConjKeys (mkDefs rows) := rfl
  have hdefs : (make rows).defs = mkDefs rows := rfl
  rw [hck, hdefs]
  unfold computeConjKeys
  constructor
  · rintro ⟨m, hm, parts, hparts, h⟩
    rw [mem_lookup_conj_fold] at hparts
    simp only [lookup, List.not_mem_nil, false_or] at hparts
    obtain ⟨d, hd, hconj, hsplit⟩ := hparts
    split at h
    · rename_i hall
      have hj : joinDash (m :: parts) = d.name := by rw [← hsplit]; exact joinDash_splitDash _
      simp only [hj] at h
      split at h
      · rename_i hdn
        simp only [Option.some.injEq] at h
        subst h
        refine ⟨hdn, hconj, ?_⟩
        intro p hp
        rw [hsplit] at hp
        rcases List.mem_cons.1 hp with rfl | hp
        · exact hm
        · have := List.all_eq_true.1 hall p hp
          simpa using this
      · cases h
    · cases h
  · rintro ⟨hdef, hconj, hparts⟩
    obtain ⟨d, hd⟩ := defined_iff.1 hdef
    obtain ⟨hdg, hdn⟩ := get_some hd
    cases hs : splitDash x with
    | nil => exact absurd hs (splitDash_ne_nil _)
    | cons m parts =>
      rw [hs] at hparts
      refine ⟨m, hparts m List.mem_cons_self, parts, ?_, ?_⟩
      · rw [mem_lookup_conj_fold]
        exact Or.inr ⟨d, hdg, by rw [hdn]; exact hconj, by rw [hdn]; exact hs⟩
      · have hall : (parts.all fun p => markers.contains p) = true := by
          apply List.all_eq_true.2
          intro p hp
          simpa using hparts p (List.mem_cons_of_mem _ hp)
        have hj : joinDash (m :: parts) = x := by rw [← hs]; exact joinDash_splitDash _
        rw [if_pos hall]
        simp only [hj]
        rw [if_pos hdef]

end Hs.Ns
