/-
  C04 read direction: token statements (`TokW`) for Ref without display name, Symbol and Date before any
  legal continuation (`DelimW`).
-/
import Hs.Lemmas.ZincSpellBase
import Hs.Lemmas.ZincRtTok2
namespace Hs.Zinc
open Hs Hs.Scan Hs.Spell

/-! ### Ref, Symbol -/

theorem lexRead_ref_nodisW (id : List Char) (hid : AllB isRefB id = true) (hne : id ≠ [])
    (s : Scan) (rest : List UInt8) (fuel : Nat) (h : At s (64 :: encChars id ++ rest)) (hs : s.stash = [])
    (hd : DelimW rest) (hf : id.length + 2 ≤ fuel) :
    ∃ s', lexRead fuel s = .ok { sc := s', tok := .val (.ref id none) } ∧ Post s' rest := by
  obtain ⟨f, rfl⟩ : ∃ f, fuel = f + 1 := ⟨fuel - 1, by omega⟩
  obtain ⟨s', e, h', hs1, hs2⟩ := parseRef_nodis id hid hne s rest f h hs hd.refEnd (by omega)
  refine ⟨s', ?_, h', hs1, hs2⟩
  simp only [List.cons_append] at h
  rw [lexRead]
  simp [h.eof, h.cur, e]

theorem tokW_ref (id : List Char) (hid : isRefId id = true) : TokW (64 :: encChars id) (.ref id none) := by
  simp only [isRefId, Bool.and_eq_true, Bool.not_eq_eq_eq_not, Bool.not_true, List.isEmpty_eq_false_iff] at hid
  intro s rest fuel hat hs hd hf
  have hl := encChars_length_ge id
  simp only [List.length_cons] at hf
  exact lexRead_ref_nodisW id hid.2 hid.1 s rest fuel hat hs hd (by omega)

theorem lexRead_symW (cs : List Char) (hcs : isSymBody cs = true)
    (s : Scan) (rest : List UInt8) (fuel : Nat) (h : At s (94 :: encChars cs ++ rest)) (hs : s.stash = [])
    (hd : DelimW rest) (hf : cs.length + 2 ≤ fuel) :
    ∃ s', lexRead fuel s = .ok { sc := s', tok := .val (.sym cs) } ∧ At s' rest ∧ s'.stash = [] := by
  obtain ⟨f, rfl⟩ : ∃ f, fuel = f + 1 := ⟨fuel - 1, by omega⟩
  obtain ⟨e, h'⟩ := parseSymbol_rt cs hcs s rest f h hd.stop_ref (by omega)
  refine ⟨_, ?_, h', advN_stash_nil _ _ (by rw [At.advance_stash, hs]; rfl)⟩
  simp only [List.cons_append] at h
  rw [lexRead]
  simp [h.eof, h.cur, e]

theorem tokW_sym (cs : List Char) (hcs : isSymBody cs = true) : TokW (94 :: encChars cs) (.sym cs) := by
  intro s rest fuel hat hs hd hf
  have hl := encChars_length_ge cs
  simp only [List.length_cons] at hf
  obtain ⟨s', e, h', hs'⟩ := lexRead_symW cs hcs s rest fuel hat hs hd (by omega)
  exact ⟨s', e, Post.of_clean h' hs'⟩

/-! ### Date -/

theorem lexRead_dateW (d : Date) (hok : dateOk d = true) (s : Scan) (rest : List UInt8) (fuel : Nat)
    (h : At s (encChars d.txt ++ rest)) (hs : s.stash = []) (hd : DelimW rest) (hf : 2 ≤ fuel) :
    ∃ s', lexRead fuel s = .ok { sc := s', tok := .val (.date d) } ∧ At s' rest ∧ s'.stash = [] := by
  obtain ⟨f, rfl⟩ : ∃ f, fuel = f + 1 := ⟨fuel - 1, by omega⟩
  simp only [dateOk, Bool.and_eq_true] at hok
  obtain ⟨hasc, hm⟩ := hok
  rw [encChars_all_ascii hasc] at h
  split at hm
  · rename_i y0 y1 y2 y3 m0 m1 d0 d1 heq
    simp only [Bool.and_eq_true, beq_iff_eq] at hm
    obtain ⟨⟨⟨⟨⟨⟨⟨⟨hy0, hy1⟩, hy2⟩, hy3⟩, hm0⟩, hm1⟩, hd0⟩, hd1⟩, hmk⟩ := hm
    rw [heq] at h
    simp only [List.cons_append, List.nil_append] at h
    have hseq := eq_at_of_At h hs
    rw [pk_zero] at hseq
    rw [lexRead_ndt h (by simp [hy0])]
    cases rest with
    | nil =>
      obtain ⟨s', e, h', hs'⟩ := ndt_date_eof y0 y1 y2 y3 m0 m1 d0 d1 hy0 hy1 hy2 hy3 hm0 hm1 hd0 hd1 d hmk
        s.lastPeek s.pos f
      refine ⟨s', ?_, h', hs'⟩
      rw [hseq, e]
    | cons x r =>
      obtain ⟨s', e, h', hs'⟩ := ndt_date y0 y1 y2 y3 m0 m1 d0 d1 hy0 hy1 hy2 hy3 hm0 hm1 hd0 hd1 d hmk
        x r (fun e => hd.head_ne 84 (by decide) r (by rw [e])) s.lastPeek s.pos f
      refine ⟨s', ?_, h', hs'⟩
      rw [hseq, e]
  · simp at hm

theorem tokW_date (d : Date) (h : dateOk d = true) : TokW (encChars d.txt) (.date d) := by
  intro s rest fuel hat hs hd hf
  obtain ⟨s', e, h', hs'⟩ := lexRead_dateW d h s rest fuel hat hs hd (by omega)
  exact ⟨s', e, Post.of_clean h' hs'⟩

/-! ### first bytes -/

theorem digit_nowsW : ∀ b : UInt8, (!isDigitB b || (b != 32 && b != 9 && b != 13 && b != 10)) = true :=
  all_u8 (fun b => (!isDigitB b || (b != 32 && b != 9 && b != 13 && b != 10))) (by decide +kernel)

theorem firstW_of_digit (b : UInt8) (r : List UInt8) (h : isDigitB b = true) : FirstW (b :: r) := by
  have := digit_nowsW b
  simp only [h, Bool.not_true, Bool.false_or, Bool.and_eq_true, bne_iff_ne, ne_eq] at this
  exact ⟨b, r, rfl, this.1.1.1, this.1.1.2, this.1.2, this.2⟩

theorem firstW_date (d : Date) (h : dateOk d = true) : FirstW (encChars d.txt) := by
  simp only [dateOk, Bool.and_eq_true] at h
  obtain ⟨hasc, hm⟩ := h
  rw [encChars_all_ascii hasc]
  split at hm
  · rename_i y0 _ _ _ _ _ _ _ heq
    rw [heq]
    simp only [Bool.and_eq_true] at hm
    exact firstW_of_digit _ _ hm.1.1.1.1.1.1.1.1
  · simp at hm

end Hs.Zinc
