/-
  Hs.Lemmas.ZincTotalMeasure — C03: the parser-level measure.  `PS.M p` = bytes the scanner has not
  consumed (`Scan.mu`) + one unit for a pending token (`tok ≠ none`).  A `read` never increases it:
  the token it returns is paid for by the bytes it consumed.
-/
import Hs.Lemmas.ZincTotalLexStrict
import Hs.Model.ZincParse
namespace Hs
open Scan
namespace Zinc

/-- bytes not yet consumed plus one for the token in hand -/
def PS.M (p : PS) : Nat := p.sc.mu + (if p.tokNone then 0 else 1)

theorem PS.M_def (p : PS) : p.M = p.sc.mu + (if p.tokNone then 0 else 1) := rfl

theorem PS.M_bounds (p : PS) : p.sc.mu ≤ p.M ∧ p.M ≤ p.sc.mu + 1 := by
  unfold PS.M; split <;> omega

theorem PS.tokNone_of_isChar {p : PS} {c : UInt8} (h : p.isChar c = true) : p.tokNone = false := by
  unfold PS.isChar at h; unfold PS.tokNone
  split at h <;> simp_all

theorem PS.tokNone_of_id {p : PS} {k} (h : p.tok = Tok.id k) : p.tokNone = false := by
  simp [PS.tokNone, h]
theorem PS.tokNone_of_val {p : PS} {v} (h : p.tok = Tok.val v) : p.tokNone = false := by
  simp [PS.tokNone, h]
theorem PS.tokNone_of_ch {p : PS} {c} (h : p.tok = Tok.ch c) : p.tokNone = false := by
  simp [PS.tokNone, h]
theorem PS.tokNone_of_none {p : PS} (h : p.tok = Tok.none) : p.tokNone = true := by
  simp [PS.tokNone, h]

theorem PS.M_of_isChar {p : PS} {c : UInt8} (h : p.isChar c = true) : p.M = p.sc.mu + 1 := by
  simp [PS.M, PS.tokNone_of_isChar h]

/-- `parser.lexer.read()`: the new state's measure (token included) is at most the bytes that were
left before; the end-of-input token comes with `is_eof`; budget `mu + 1`. -/
theorem PS.read_spec (fuel : Nat) (p : PS) :
    (PS.read fuel p).Sat fuel (p.sc.mu + 1)
      (fun p1 => p1.M ≤ p.sc.mu ∧ (p1.tokNone = true → p1.isEof = true)) := by
  unfold PS.read
  have h1 := lexRead_spec fuel p.sc
  have h3 := lexRead_tokNone fuel p.sc
  cases he : p.sc.eof with
  | true =>
    cases fuel with
    | zero => exact Nat.zero_le _
    | succ n =>
      rw [lexRead_at_eof n p.sc he]
      refine Res.Sat.ok_intro ⟨?_, fun _ => he⟩
      simp [PS.M, PS.tokNone]
  | false =>
    have h2 := lexRead_strict fuel p.sc he
    cases h : lexRead fuel p.sc with
    | ok l =>
      rw [h] at h1 h2 h3
      simp only [Res.Sat_ok] at h1 h2 h3
      refine Res.Sat.ok_intro ⟨?_, ?_⟩
      · have := PS.M_bounds l; omega
      · intro ht
        apply h3
        unfold PS.tokNone at ht
        split at ht
        · assumption
        · cases ht
    | err => exact Res.Sat.err_intro
    | panic => rw [h] at h1; exact h1
    | depth => rw [h] at h1; exact h1
    | diverge => rw [h] at h1; exact h1

end Zinc
end Hs
