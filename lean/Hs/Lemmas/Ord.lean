/-
  Hs.Lemmas.Ord — a small theory of "comparison functions that behave like a total preorder
  at one point", closed under the constructions Rust's derived `Ord` uses (lexicographic
  pairs, `Option`, lists, variant index then payload).  Point-wise, so that it can serve as the
  induction hypothesis of a structural induction on the first argument.
-/
namespace Hs

/-- `c` behaves like a total preorder at `a`, against all `b d` satisfying `P`. -/
structure OrdAt {α : Type} (P : α → Prop) (c : α → α → Ordering) (a : α) : Prop where
  swap  : ∀ b, P b → c b a = (c a b).swap
  eq_l  : ∀ b d, P b → P d → c a b = .eq → c a d = c b d
  lt_lt : ∀ b d, P b → P d → c a b = .lt → c b d = .lt → c a d = .lt
  lt_eq : ∀ b d, P b → P d → c a b = .lt → c b d = .eq → c a d = .lt
  gt_gt : ∀ b d, P b → P d → c a b = .gt → c b d = .gt → c a d = .gt
  gt_eq : ∀ b d, P b → P d → c a b = .gt → c b d = .eq → c a d = .gt

theorem OrdAt.congr {α} {P : α → Prop} {c c' : α → α → Ordering} {a : α}
    (h : OrdAt P c a) (hc : ∀ x y, c' x y = c x y) : OrdAt P c' a := by
  have : c' = c := funext fun x => funext fun y => hc x y
  rw [this]; exact h

theorem OrdAt.mono {α} {P Q : α → Prop} {c : α → α → Ordering} {a : α}
    (h : OrdAt P c a) (hq : ∀ x, Q x → P x) : OrdAt Q c a :=
  ⟨fun b hb => h.swap b (hq b hb),
   fun b d hb hd => h.eq_l b d (hq b hb) (hq d hd),
   fun b d hb hd => h.lt_lt b d (hq b hb) (hq d hd),
   fun b d hb hd => h.lt_eq b d (hq b hb) (hq d hd),
   fun b d hb hd => h.gt_gt b d (hq b hb) (hq d hd),
   fun b d hb hd => h.gt_eq b d (hq b hb) (hq d hd)⟩

/-- Pull back along an embedding of representations. -/
theorem OrdAt.comap {α β} {P : β → Prop} {c : β → β → Ordering} (f : α → β) {a : α}
    (h : OrdAt P c (f a)) : OrdAt (fun x => P (f x)) (fun x y => c (f x) (f y)) a :=
  ⟨fun b hb => h.swap (f b) hb,
   fun b d hb hd => h.eq_l (f b) (f d) hb hd,
   fun b d hb hd => h.lt_lt (f b) (f d) hb hd,
   fun b d hb hd => h.lt_eq (f b) (f d) hb hd,
   fun b d hb hd => h.gt_gt (f b) (f d) hb hd,
   fun b d hb hd => h.gt_eq (f b) (f d) hb hd⟩

/-- Every other point that matters is `mk` of something (used for one enum variant). -/
theorem OrdAt.of_mk {α β} {P : α → Prop} {c : α → α → Ordering} (mk : β → α)
    (c' : β → β → Ordering) (P' : β → Prop)
    (hrep : ∀ b, P b → ∃ b', b = mk b' ∧ P' b')
    (hc : ∀ x y, c (mk x) (mk y) = c' x y)
    {s : β} (h : OrdAt P' c' s) : OrdAt P c (mk s) := by
  refine ⟨?_, ?_, ?_, ?_, ?_, ?_⟩
  · intro b hb; obtain ⟨b', rfl, hb'⟩ := hrep b hb; rw [hc, hc]; exact h.swap b' hb'
  all_goals
    intro b d hb hd
    obtain ⟨b', rfl, hb'⟩ := hrep b hb
    obtain ⟨d', rfl, hd'⟩ := hrep d hd
    simp only [hc]
  · exact h.eq_l b' d' hb' hd'
  · exact h.lt_lt b' d' hb' hd'
  · exact h.lt_eq b' d' hb' hd'
  · exact h.gt_gt b' d' hb' hd'
  · exact h.gt_eq b' d' hb' hd'

/-- A constant comparison (unit-like payloads). -/
theorem OrdAt.const {α} {P : α → Prop} (a : α) : OrdAt P (fun _ _ => Ordering.eq) a := by
  refine ⟨?_, ?_, ?_, ?_, ?_, ?_⟩
  · intro _ _; rfl
  · intro _ _ _ _ _; rfl
  all_goals intro _ _ _ _ h; cases h

/-! ### lexicographic pair -/

theorem OrdAt.lex {α β} {P1 : α → Prop} {P2 : β → Prop}
    {c1 : α → α → Ordering} {c2 : β → β → Ordering} {a : α} {x : β}
    (h1 : OrdAt P1 c1 a) (h2 : OrdAt P2 c2 x) :
    OrdAt (fun p : α × β => P1 p.1 ∧ P2 p.2)
      (fun p q => (c1 p.1 q.1).then (c2 p.2 q.2)) (a, x) := by
  refine ⟨?_, ?_, ?_, ?_, ?_, ?_⟩
  · rintro ⟨b, y⟩ ⟨hb, hy⟩
    simp only [h1.swap b hb, h2.swap y hy]
    cases c1 a b <;> simp [Ordering.then, Ordering.swap]
  · rintro ⟨b, y⟩ ⟨d, z⟩ ⟨hb, hy⟩ ⟨hd, hz⟩ h
    simp only at h ⊢
    cases hab : c1 a b <;> rw [hab] at h <;> simp [Ordering.then] at h
    rw [h1.eq_l b d hb hd hab, h2.eq_l y z hy hz h]
  · rintro ⟨b, y⟩ ⟨d, z⟩ ⟨hb, hy⟩ ⟨hd, hz⟩ h h'
    simp only at h h' ⊢
    cases hab : c1 a b <;> rw [hab] at h <;> simp [Ordering.then] at h
    · cases hbd : c1 b d <;> rw [hbd] at h' <;> simp [Ordering.then] at h'
      · rw [h1.lt_lt b d hb hd hab hbd]; rfl
      · rw [h1.lt_eq b d hb hd hab hbd]; rfl
    · rw [h1.eq_l b d hb hd hab]
      cases hbd : c1 b d <;> rw [hbd] at h' <;> simp [Ordering.then] at h' ⊢
      exact h2.lt_lt y z hy hz h h'
  · rintro ⟨b, y⟩ ⟨d, z⟩ ⟨hb, hy⟩ ⟨hd, hz⟩ h h'
    simp only at h h' ⊢
    cases hbd : c1 b d <;> rw [hbd] at h' <;> simp [Ordering.then] at h'
    cases hab : c1 a b <;> rw [hab] at h <;> simp [Ordering.then] at h
    · rw [h1.lt_eq b d hb hd hab hbd]; rfl
    · rw [h1.eq_l b d hb hd hab, hbd]; simp [Ordering.then]
      exact h2.lt_eq y z hy hz h h'
  · rintro ⟨b, y⟩ ⟨d, z⟩ ⟨hb, hy⟩ ⟨hd, hz⟩ h h'
    simp only at h h' ⊢
    cases hab : c1 a b <;> rw [hab] at h <;> simp [Ordering.then] at h
    · rw [h1.eq_l b d hb hd hab]
      cases hbd : c1 b d <;> rw [hbd] at h' <;> simp [Ordering.then] at h' ⊢
      exact h2.gt_gt y z hy hz h h'
    · cases hbd : c1 b d <;> rw [hbd] at h' <;> simp [Ordering.then] at h'
      · rw [h1.gt_eq b d hb hd hab hbd]; rfl
      · rw [h1.gt_gt b d hb hd hab hbd]; rfl
  · rintro ⟨b, y⟩ ⟨d, z⟩ ⟨hb, hy⟩ ⟨hd, hz⟩ h h'
    simp only at h h' ⊢
    cases hbd : c1 b d <;> rw [hbd] at h' <;> simp [Ordering.then] at h'
    cases hab : c1 a b <;> rw [hab] at h <;> simp [Ordering.then] at h
    · rw [h1.eq_l b d hb hd hab, hbd]; simp [Ordering.then]
      exact h2.gt_eq y z hy hz h h'
    · rw [h1.gt_eq b d hb hd hab hbd]; rfl

/-! ### Option (None < Some) -/

def cmpOptG {α} (c : α → α → Ordering) : Option α → Option α → Ordering
  | none, none => .eq
  | none, some _ => .lt
  | some _, none => .gt
  | some a, some b => c a b

def optP {α} (P : α → Prop) : Option α → Prop
  | none => True
  | some a => P a

theorem OrdAt.opt {α} {P : α → Prop} {c : α → α → Ordering} {o : Option α}
    (h : ∀ a, o = some a → OrdAt P c a) : OrdAt (optP P) (cmpOptG c) o := by
  cases o with
  | none =>
    refine ⟨?_, ?_, ?_, ?_, ?_, ?_⟩
    · intro b _; cases b <;> rfl
    all_goals intro b d _ _
    · intro h; cases b <;> simp [cmpOptG] at h; cases d <;> rfl
    · intro _ _; cases b <;> cases d <;> simp_all [cmpOptG]
    · intro _ _; cases b <;> cases d <;> simp_all [cmpOptG]
    · intro h; cases b <;> simp [cmpOptG] at h
    · intro h; cases b <;> simp [cmpOptG] at h
  | some a =>
    have ha := h a rfl
    refine ⟨?_, ?_, ?_, ?_, ?_, ?_⟩
    · intro b hb; cases b with
      | none => rfl
      | some b => exact ha.swap b hb
    all_goals intro b d hb hd
    · intro h; cases b with
      | none => simp [cmpOptG] at h
      | some b => cases d with
        | none => rfl
        | some d => exact ha.eq_l b d hb hd h
    · intro h h'; cases b with
      | none => simp [cmpOptG] at h
      | some b => cases d with
        | none => simp [cmpOptG] at h'
        | some d => exact ha.lt_lt b d hb hd h h'
    · intro h h'; cases b with
      | none => simp [cmpOptG] at h
      | some b => cases d with
        | none => simp [cmpOptG] at h'
        | some d => exact ha.lt_eq b d hb hd h h'
    · intro h h'; cases b with
      | none => cases d <;> simp_all [cmpOptG]
      | some b => cases d with
        | none => rfl
        | some d => exact ha.gt_gt b d hb hd h h'
    · intro h h'; cases b with
      | none => cases d <;> simp_all [cmpOptG]
      | some b => cases d with
        | none => rfl
        | some d => exact ha.gt_eq b d hb hd h h'

/-! ### key first, then a payload comparison that is only meaningful for equal keys -/

theorem OrdAt.keyThen {α} {P : α → Prop} (k : α → Nat) {c2 : α → α → Ordering} {a : α}
    (h : OrdAt (fun b => P b ∧ k b = k a) c2 a) :
    OrdAt P (fun x y => (compare (k x) (k y)).then (c2 x y)) a := by
  have cmpEq : ∀ {m n : Nat}, m = n → compare m n = .eq := fun h => by simp [h]
  have cmpLt : ∀ {m n : Nat}, m < n → compare m n = .lt := fun h => by simp [Nat.compare_eq_lt, h]
  have cmpGt : ∀ {m n : Nat}, n < m → compare m n = .gt := fun h => by simp [Nat.compare_eq_gt, h]
  refine ⟨?_, ?_, ?_, ?_, ?_, ?_⟩
  · intro b hb
    rcases Nat.lt_trichotomy (k a) (k b) with hl | he | hg
    · simp [cmpLt hl, cmpGt hl, Ordering.then, Ordering.swap]
    · simp only [cmpEq he, cmpEq he.symm, Ordering.then]; exact h.swap b ⟨hb, he.symm⟩
    · simp [cmpLt hg, cmpGt hg, Ordering.then, Ordering.swap]
  all_goals
    intro b d hb hd
  · intro hab
    rcases Nat.lt_trichotomy (k a) (k b) with hl | he | hg
    · simp [cmpLt hl, Ordering.then] at hab
    · simp only [cmpEq he, Ordering.then] at hab
      rcases Nat.lt_trichotomy (k a) (k d) with hl' | he' | hg'
      · simp [cmpLt hl', cmpLt (he ▸ hl'), Ordering.then]
      · simp only [cmpEq he', cmpEq (he.symm.trans he'), Ordering.then]
        exact h.eq_l b d ⟨hb, he.symm⟩ ⟨hd, he'.symm⟩ hab
      · simp [cmpGt hg', cmpGt (he ▸ hg'), Ordering.then]
    · simp [cmpGt hg, Ordering.then] at hab
  · intro hab hbd
    rcases Nat.lt_trichotomy (k a) (k b) with hl | he | hg
    · rcases Nat.lt_trichotomy (k b) (k d) with hl' | he' | hg'
      · simp [cmpLt (Nat.lt_trans hl hl'), Ordering.then]
      · simp [cmpLt (he' ▸ hl), Ordering.then]
      · simp [cmpGt hg', Ordering.then] at hbd
    · simp only [cmpEq he, Ordering.then] at hab
      rcases Nat.lt_trichotomy (k b) (k d) with hl' | he' | hg'
      · simp [cmpLt (he ▸ hl'), Ordering.then]
      · simp only [cmpEq he', Ordering.then] at hbd
        simp only [cmpEq (he.trans he'), Ordering.then]
        exact h.lt_lt b d ⟨hb, he.symm⟩ ⟨hd, (he.trans he').symm⟩ hab hbd
      · simp [cmpGt hg', Ordering.then] at hbd
    · simp [cmpGt hg, Ordering.then] at hab
  · intro hab hbd
    rcases Nat.lt_trichotomy (k b) (k d) with hl' | he' | hg'
    · simp [cmpLt hl', Ordering.then] at hbd
    · simp only [cmpEq he', Ordering.then] at hbd
      rcases Nat.lt_trichotomy (k a) (k b) with hl | he | hg
      · simp [cmpLt (he' ▸ hl), Ordering.then]
      · simp only [cmpEq he, Ordering.then] at hab
        simp only [cmpEq (he.trans he'), Ordering.then]
        exact h.lt_eq b d ⟨hb, he.symm⟩ ⟨hd, (he.trans he').symm⟩ hab hbd
      · simp [cmpGt hg, Ordering.then] at hab
    · simp [cmpGt hg', Ordering.then] at hbd
  · intro hab hbd
    rcases Nat.lt_trichotomy (k a) (k b) with hl | he | hg
    · simp [cmpLt hl, Ordering.then] at hab
    · simp only [cmpEq he, Ordering.then] at hab
      rcases Nat.lt_trichotomy (k b) (k d) with hl' | he' | hg'
      · simp [cmpLt hl', Ordering.then] at hbd
      · simp only [cmpEq he', Ordering.then] at hbd
        simp only [cmpEq (he.trans he'), Ordering.then]
        exact h.gt_gt b d ⟨hb, he.symm⟩ ⟨hd, (he.trans he').symm⟩ hab hbd
      · simp [cmpGt (he ▸ hg'), Ordering.then]
    · rcases Nat.lt_trichotomy (k b) (k d) with hl' | he' | hg'
      · simp [cmpLt hl', Ordering.then] at hbd
      · simp [cmpGt (he' ▸ hg), Ordering.then]
      · simp [cmpGt (Nat.lt_trans hg' hg), Ordering.then]
  · intro hab hbd
    rcases Nat.lt_trichotomy (k b) (k d) with hl' | he' | hg'
    · simp [cmpLt hl', Ordering.then] at hbd
    · simp only [cmpEq he', Ordering.then] at hbd
      rcases Nat.lt_trichotomy (k a) (k b) with hl | he | hg
      · simp [cmpLt hl, Ordering.then] at hab
      · simp only [cmpEq he, Ordering.then] at hab
        simp only [cmpEq (he.trans he'), Ordering.then]
        exact h.gt_eq b d ⟨hb, he.symm⟩ ⟨hd, (he.trans he').symm⟩ hab hbd
      · simp [cmpGt (he' ▸ hg), Ordering.then]
    · simp [cmpGt hg', Ordering.then] at hbd

/-! ### comparisons induced by a key into a linear order -/

theorem OrdAt.ofNatKey {α} {P : α → Prop} (k : α → Nat) (a : α) :
    OrdAt P (fun x y => compare (k x) (k y)) a := by
  have h := OrdAt.keyThen (P := P) k (c2 := fun _ _ => Ordering.eq) (a := a) (OrdAt.const a)
  exact h.congr (fun x y => by cases compare (k x) (k y) <;> rfl)

theorem OrdAt.ofIntKey {α} {P : α → Prop} (k : α → Int) (a : α) :
    OrdAt P (fun x y => compare (k x) (k y)) a := by
  refine ⟨?_, ?_, ?_, ?_, ?_, ?_⟩
  · intro b _
    rcases Int.lt_trichotomy (k a) (k b) with h | h | h
    · rw [Int.compare_eq_lt.2 h, Int.compare_eq_gt.2 h]; rfl
    · rw [h]; simp
    · rw [Int.compare_eq_gt.2 h, Int.compare_eq_lt.2 h]; rfl
  all_goals intro b d _ _
  · intro h; rw [Int.compare_eq_eq] at h; rw [h]
  · intro h h'; rw [Int.compare_eq_lt] at *; omega
  · intro h h'; rw [Int.compare_eq_lt] at *; rw [Int.compare_eq_eq] at h'; omega
  · intro h h'; rw [Int.compare_eq_gt] at *; omega
  · intro h h'; rw [Int.compare_eq_gt] at *; rw [Int.compare_eq_eq] at h'; omega

end Hs
