/-
  Scanner view lemmas for the filter text proofs (C08): `Views s v` says that the scanner `s` is
  positioned on the byte string `v` (current byte = head of `v`, nothing peeked), whatever its
  stale byte, position counter and `last_peek` are.  Pass-through lemmas for the byte loops the
  filter lexer runs over printed text (`consume_white_spaces`, `parse_literal`, `parse_id`).
-/
import Hs.Model.FilterText
namespace Hs.FText
open Hs Hs.Scan Hs.Zinc

/-- the scanner is positioned on `v` -/
def Views (s : Scan) (v : List UInt8) : Prop :=
  s.stash = [] ∧
  match v with
  | [] => s.eof = true ∧ s.inp = []
  | b :: r => s.eof = false ∧ s.cur = b ∧ s.inp = r

theorem Views.nil_eof {s : Scan} (h : Views s []) : s.eof = true := h.2.1
theorem Views.cons_eof {s : Scan} {b : UInt8} {r : List UInt8} (h : Views s (b :: r)) : s.eof = false := h.2.1
theorem Views.cons_cur {s : Scan} {b : UInt8} {r : List UInt8} (h : Views s (b :: r)) : s.cur = b := h.2.2.1

theorem views_make (bs : List UInt8) : Views (Scan.make bs) bs := by
  cases bs <;> simp [Scan.make, Views]

/-- `read` on a scanner positioned on `b :: r` -/
theorem Views.read {s : Scan} {b : UInt8} {r : List UInt8} (h : Views s (b :: r)) :
    s.read.1 = r.head? ∧ Views s.read.2 r := by
  obtain ⟨hs, he, hc, hi⟩ := h
  cases r with
  | nil =>
    simp [Scan.read, Scan.readByte, hs, hi, Views]
  | cons c r' =>
    simp [Scan.read, Scan.readByte, hs, hi, Views, he]

theorem Views.advance {s : Scan} {b : UInt8} {r : List UInt8} (h : Views s (b :: r)) :
    Views s.advance r := h.read.2

/-- `read` at the end of the input fails and leaves the scanner at the end -/
theorem Views.read_nil {s : Scan} (h : Views s []) : s.read.1 = none ∧ Views s.read.2 [] := by
  obtain ⟨hs, he, hi⟩ := h
  simp [Scan.read, Scan.readByte, hs, hi, Views]

/-- when the last byte has been consumed it stays in `cur` -/
theorem Views.advance_last {s : Scan} {b : UInt8} (h : Views s [b]) : s.advance.cur = b := by
  obtain ⟨hs, he, hc, hi⟩ := h
  simp [Scan.advance, Scan.read, Scan.readByte, hs, hi, hc]

def isWsB (b : UInt8) : Bool := b == 32 || b == 9 || b == 13 || b == 10

theorem isWhiteSpace_eq (s : Scan) : s.isWhiteSpace = isWsB s.cur := by
  simp [Scan.isWhiteSpace, Scan.isSpace, Scan.isNewline, isWsB, Bool.or_assoc]

/-- `v` is empty or starts with a byte that is not white space -/
def NoWsHead (v : List UInt8) : Prop :=
  match v with
  | [] => True
  | b :: _ => isWsB b = false

/-- `consume_white_spaces` skips a run of white space and stops on the first other byte (or at the
end of the input) -/
theorem cws_skip (sp : List UInt8) (hsp : ∀ b ∈ sp, isWsB b = true) (v : List UInt8) (hv : NoWsHead v) :
    ∀ (fuel : Nat) (s : Scan), Views s (sp ++ v) → sp.length < fuel →
      ∃ s', consumeWhiteSpaces fuel s = .ok s' ∧ Views s' v := by
  induction sp with
  | nil =>
    intro fuel s hs hf
    cases fuel with
    | zero => omega
    | succ n =>
      cases v with
      | nil =>
        unfold consumeWhiteSpaces
        split
        · exact ⟨s, rfl, hs⟩
        · have hr := Views.read_nil hs
          split
          · rename_i heq; rw [heq] at hr; simp at hr
          · rename_i s' heq; rw [heq] at hr; exact ⟨s', rfl, hr.2⟩
      | cons b r =>
        have hc := Views.cons_cur hs
        unfold consumeWhiteSpaces
        simp only [List.nil_append] at hs
        have : s.isWhiteSpace = false := by rw [isWhiteSpace_eq, hc]; exact hv
        simp [this]
        exact hs
  | cons a sp ih =>
    intro fuel s hs hf
    cases fuel with
    | zero => omega
    | succ n =>
      simp only [List.cons_append] at hs
      have hc := Views.cons_cur hs
      have ha : isWsB a = true := hsp a (by simp)
      have hw : s.isWhiteSpace = true := by rw [isWhiteSpace_eq, hc]; exact ha
      have hr := Views.read hs
      unfold consumeWhiteSpaces
      simp only [hw, Bool.not_true, Bool.false_eq_true, if_false]
      have ih' := ih (fun b hb => hsp b (by simp [hb]))
      split
      · rename_i x s' heq
        rw [heq] at hr
        exact ih' n s' hr.2 (by simp at hf; omega)
      · rename_i s' heq
        rw [heq] at hr
        -- the read failed: the run of white space ended the input
        have h1 : (sp ++ v).head? = none := hr.1.symm
        have h2 : sp ++ v = [] := by cases h : sp ++ v <;> simp_all
        have h3 : v = [] := by cases sp <;> simp_all
        subst h3
        refine ⟨s', rfl, ?_⟩
        rw [h2] at hr; exact hr.2

/-- on a byte that is not white space (the stale byte at the end of the input included)
`consume_white_spaces` does nothing -/
theorem cws_noop (n : Nat) (s : Scan) (h : isWsB s.cur = false) : consumeWhiteSpaces (n + 1) s = .ok s := by
  unfold consumeWhiteSpaces
  simp [isWhiteSpace_eq, h]

/-- identifier continuation byte: `is_alpha_num() || cur == b'_'` -/
def idByte (b : UInt8) : Bool := isDigitB b || isLowerB b || isUpperB b || b == 95

theorem isIdCont_eq (s : Scan) : (s.isAlphaNum || s.cur == 95) = idByte s.cur := by
  simp [Scan.isAlphaNum, Scan.isDigit, Scan.isLower, Scan.isUpper, idByte]

/-- `v` is empty or starts with a byte that cannot continue an identifier -/
def NoIdHead (v : List UInt8) : Prop :=
  match v with
  | [] => True
  | b :: _ => idByte b = false

theorem literalLoop_pass (w : List UInt8) (hw : ∀ b ∈ w, idByte b = true) (rest : List UInt8)
    (hrest : NoIdHead rest) :
    ∀ (fuel : Nat) (s : Scan) (acc : List UInt8), Views s (w ++ rest) → w.length < fuel →
      ∃ s', literalLoop fuel s acc = .ok (acc ++ w, s') ∧ Views s' rest ∧
        (rest = [] → w ≠ [] → idByte s'.cur = true) := by
  induction w with
  | nil =>
    intro fuel s acc hs hf
    cases fuel with
    | zero => omega
    | succ n =>
      unfold literalLoop
      cases rest with
      | nil =>
        have := Views.nil_eof hs
        simp [this]
        exact hs
      | cons b r =>
        simp only [List.nil_append] at hs
        have hc := Views.cons_cur hs
        have he := Views.cons_eof hs
        have : (s.isAlphaNum || s.cur == 95) = false := by rw [isIdCont_eq, hc]; exact hrest
        simp [he, this]
        exact hs
  | cons a w ih =>
    intro fuel s acc hs hf
    cases fuel with
    | zero => omega
    | succ n =>
      simp only [List.cons_append] at hs
      have hc := Views.cons_cur hs
      have he := Views.cons_eof hs
      have ha : idByte a = true := hw a (by simp)
      have : (s.isAlphaNum || s.cur == 95) = true := by rw [isIdCont_eq, hc]; exact ha
      unfold literalLoop
      simp only [he, this, Bool.not_false, Bool.and_self, if_true]
      obtain ⟨s', h1, h2, h3⟩ := ih (fun b hb => hw b (by simp [hb])) n s.advance (acc ++ [s.cur]) hs.advance (by simp at hf; omega)
      refine ⟨s', ?_, h2, ?_⟩
      · rw [h1, hc]; simp
      · intro hr _
        cases w with
        | cons b w' => exact h3 hr (by simp)
        | nil =>
          -- the identifier's last byte stays in `cur` when the input ends
          subst hr
          simp only [List.append_nil] at hs
          have hadv : s.advance.cur = a := by rw [Views.advance_last hs]
          have heof := Views.nil_eof hs.advance
          cases n with
          | zero => simp at hf
          | succ m =>
            unfold literalLoop at h1
            simp only [heof, Bool.not_true, Bool.false_and, Bool.false_eq_true, if_false, Res.ok.injEq,
              Prod.mk.injEq] at h1
            rw [← h1.2, hadv]; exact ha

/-- UTF-8: one ASCII byte is one character -/
theorem utf8Lossy_ascii (w : List UInt8) (hw : ∀ b ∈ w, b < 128) :
    ∀ fuel, w.length < fuel → utf8Lossy fuel w = w.map chr := by
  induction w with
  | nil => intro fuel hf; cases fuel <;> simp [utf8Lossy]
  | cons a w ih =>
    intro fuel hf
    cases fuel with
    | zero => omega
    | succ n =>
      have ha : a < 128 := hw a (by simp)
      have : a < 0x80 := ha
      unfold utf8Lossy
      simp only [this, if_true, List.map_cons, chr]
      rw [ih (fun b hb => hw b (by simp [hb])) n (by simp at hf; omega)]

theorem lossy_ascii (w : List UInt8) (hw : ∀ b ∈ w, b < 128) : lossy w = w.map chr := by
  unfold lossy
  exact utf8Lossy_ascii w hw _ (by omega)


theorem encChar_ascii_nat : ∀ n, n < 128 → String.utf8EncodeChar (Char.ofNat n) = [UInt8.ofNat n] := by
  decide +kernel

theorem encChar_chr (b : UInt8) (h : b < 128) : encChar (chr b) = [b] := by
  have hb : b.toNat < 128 := h
  unfold encChar chr
  rw [encChar_ascii_nat _ hb]
  simp

theorem encChars_ascii (w : List UInt8) (hw : ∀ b ∈ w, b < 128) : encChars (w.map chr) = w := by
  induction w with
  | nil => rfl
  | cons a w ih =>
    simp only [encChars, List.map_cons, List.flatMap_cons]
    rw [encChar_chr a (hw a (by simp))]
    have := ih (fun b hb => hw b (by simp [hb]))
    simp only [encChars] at this
    rw [this]; rfl


theorem idByte_lt (b : UInt8) (h : idByte b = true) : b < 128 := by
  have : b.toNat < 128 := by
    simp only [idByte, isDigitB, isLowerB, isUpperB, Bool.or_eq_true, Bool.and_eq_true, decide_eq_true_eq,
      beq_iff_eq, UInt8.le_iff_toNat_le] at h
    rcases h with ((h | h) | h) | h
    · have := h.2; simp at this; omega
    · have := h.2; simp at this; omega
    · have := h.2; simp at this; omega
    · subst h; decide
  exact this

/-- the bytes of an ASCII text -/
def segBytes (seg : List Char) : List UInt8 := seg.map (fun c => UInt8.ofNat c.toNat)

/-- shape of an identifier: a lower-case letter, then letters, digits, `_` -/
def idBytesB : List UInt8 → Bool
  | [] => false
  | b :: r => isLowerB b && r.all idByte

/-- `seg` is an identifier (`parse_id`'s language): ASCII, lower-case start, then `[A-Za-z0-9_]*` -/
def IdSeg (seg : List Char) : Prop := seg = (segBytes seg).map chr ∧ idBytesB (segBytes seg) = true

instance (seg : List Char) : Decidable (IdSeg seg) := by unfold IdSeg; exact inferInstance

theorem isLower_idByte (b : UInt8) (h : isLowerB b = true) : idByte b = true := by simp [idByte, h]

theorem idBytesB_all {w : List UInt8} (h : idBytesB w = true) : ∀ b ∈ w, idByte b = true := by
  cases w with
  | nil => simp [idBytesB] at h
  | cons a r =>
    simp only [idBytesB, Bool.and_eq_true, List.all_eq_true] at h
    intro b hb
    cases hb with
    | head => exact isLower_idByte _ h.1
    | tail _ hb => exact h.2 b hb

theorem IdSeg.enc {seg : List Char} (h : IdSeg seg) : encChars seg = segBytes seg := by
  have := encChars_ascii (segBytes seg) (fun b hb => idByte_lt b (idBytesB_all h.2 b hb))
  rw [← h.1] at this; exact this

theorem IdSeg.lossy {seg : List Char} (h : IdSeg seg) : lossy (segBytes seg) = seg := by
  rw [lossy_ascii _ (fun b hb => idByte_lt b (idBytesB_all h.2 b hb))]; exact h.1.symm

example : IdSeg "siteRef".toList := by decide

/-- `parse_id` reads an identifier that is followed by the end of the input or by a byte that cannot
continue it -/
theorem parseId_seg (seg : List Char) (hseg : IdSeg seg) (rest : List UInt8) (hrest : NoIdHead rest)
    (fuel : Nat) (s : Scan) (hs : Views s (segBytes seg ++ rest)) (hf : (segBytes seg).length < fuel) :
    ∃ s', parseId fuel s = .ok (seg, s') ∧ Views s' rest ∧ (rest = [] → idByte s'.cur = true) := by
  obtain ⟨s', h1, h2, h3⟩ := literalLoop_pass (segBytes seg) (idBytesB_all hseg.2) rest hrest fuel s [] hs hf
  have hne : segBytes seg ≠ [] := by
    intro h; have := hseg.2; rw [h] at this; simp [idBytesB] at this
  refine ⟨s', ?_, h2, fun hr => h3 hr hne⟩
  have hne : segBytes seg ≠ [] := by
    intro h; have := hseg.2; rw [h] at this; simp [idBytesB] at this
  cases hw : segBytes seg with
  | nil => exact absurd hw hne
  | cons b r =>
    have hlow : isLowerB b = true := by
      have := hseg.2; rw [hw] at this; simp only [idBytesB, Bool.and_eq_true] at this; exact this.1
    rw [hw] at hs
    simp only [List.cons_append] at hs
    have hc := Views.cons_cur hs
    unfold parseId parseLiteral
    simp only [Scan.isLower, hc, hlow, Bool.not_true, Bool.false_eq_true, if_false]
    rw [h1]
    simp only [List.nil_append, hw]
    simp
    rw [← hw]; exact hseg.lossy


end Hs.FText
