/-
  Hs.Lemmas.ZincTotalParse — C03: fuel sufficiency of the Zinc parser.  For every function of the
  parser's `mutual` block: no `panic`/`depth`, the measure does not grow, and `diverge` is only possible
  when `fuel ≤ 8 * measure + c` (a per-function constant `c < 64`).  Mutual induction on the fuel.

  Why the budgets close: every loop iteration either exits or consumes a token, a token costs at least
  one unit of `PS.M`, and one unit of measure buys 8 units of fuel — more than the longest chain of
  calls between two `read`s (`parseValue → parseGrid → rowsLoop → rowNext → rowLoop → parseValue`).
-/
import Hs.Lemmas.ZincTotalMeasure
namespace Hs
open Scan
namespace Zinc

/-- iterator measure: one more unit while the iterator has not seen the end of the input -/
def RowState.K (r : RowState) : Nat := r.p.M + (if r.p.isEof then 0 else 1)

theorem RowState.K_def (r : RowState) : r.K = r.p.M + (if r.p.isEof then 0 else 1) := rfl

grind_pattern PS.M_def => PS.M p
grind_pattern RowState.K_def => RowState.K r
grind_pattern PS.tokNone_of_isChar => PS.isChar p c
grind_pattern PS.tokNone_of_id => p.tok, Tok.id k
grind_pattern PS.tokNone_of_val => p.tok, Tok.val v
grind_pattern PS.tokNone_of_ch => p.tok, Tok.ch c
grind_pattern PS.tokNone_of_none => p.tok, Tok.none

theorem PS.isChar_mk (sc : Scan) (p : PS) (c : UInt8) : PS.isChar { sc := sc, tok := p.tok } c = p.isChar c := rfl
theorem PS.tokNone_mk (sc : Scan) (p : PS) : PS.tokNone { sc := sc, tok := p.tok } = p.tokNone := rfl
theorem PS.isEof_mk (sc : Scan) (t : Tok) : PS.isEof { sc := sc, tok := t } = sc.eof := rfl
theorem PS.isChar_unique {p : PS} {a b : UInt8} (ha : p.isChar a = true) (hb : p.isChar b = true) : a = b := by
  unfold PS.isChar at ha hb
  split at ha
  · simp_all
  · cases ha

grind_pattern PS.isChar_mk => PS.isChar { sc := sc, tok := p.tok } c
grind_pattern PS.tokNone_mk => PS.tokNone { sc := sc, tok := p.tok }
grind_pattern PS.isEof_mk => PS.isEof { sc := sc, tok := t }
grind_pattern PS.isChar_unique => PS.isChar p a, PS.isChar p b

/-- the statements proved together by induction on the fuel -/
structure Specs (fuel : Nat) : Prop where
  parseValue : ∀ d p, (parseValue fuel d p).Sat fuel (8 * p.M + 40)
    (fun o => o.2.sc.mu ≤ p.sc.mu ∧ (p.tokNone = true → o.2 = p))
  parseList : ∀ d p, (parseList fuel d p).Sat fuel (8 * p.M + 36) (fun o => o.2.sc.mu ≤ p.sc.mu)
  listLoop : ∀ d p e acc, (listLoop fuel d p e acc).Sat fuel (8 * p.sc.mu + 41) (fun o => o.2.sc.mu ≤ p.sc.mu)
  parseDict : ∀ d p, (parseDict fuel d p).Sat fuel (8 * p.M + 30) (fun o => o.2.sc.mu ≤ p.sc.mu)
  dictParts : ∀ d p e acc, (dictParts fuel d p e acc).Sat fuel (8 * p.M + 30) (fun o => o.2.sc.mu ≤ p.sc.mu)
  colMeta : ∀ d p acc, (colMeta fuel d p acc).Sat fuel (8 * p.M + 30) (fun o => o.2.sc.mu ≤ p.sc.mu)
  gridColumns : ∀ d p acc, (gridColumns fuel d p acc).Sat fuel (8 * p.sc.mu + 30)
    (fun o => o.2.sc.mu ≤ p.sc.mu)
  consumeEnd : ∀ r, (consumeEnd fuel r).Sat fuel (8 * r.p.M + 10)
    (fun o => o.p.M ≤ r.p.M ∧ (r.p.isChar 10 = true → o.p.isEof = true ∨ o.p.M < r.p.M))
  rowLoop : ∀ d p cols k acc, (rowLoop fuel d p cols k acc).Sat fuel (8 * p.M + 41)
    (fun o => o.2.M ≤ p.M ∧ o.2.isChar 10 = true)
  rowNext : ∀ d r cols, (rowNext fuel d r cols).Sat fuel (8 * r.p.M + 42)
    (fun o => o.2.K + (if o.1.isSome then 1 else 0) ≤ r.K)
  rowsLoop : ∀ d r cols acc, (rowsLoop fuel d r cols acc).Sat fuel (8 * r.K + 43) (fun o => o.2.K ≤ r.K)
  gridHeader : ∀ d p, (gridHeader fuel d p).Sat fuel (8 * p.M + 30) (fun o => o.2.p.M + 2 ≤ p.M)
  parseGrid : ∀ d p, (parseGrid fuel d p).Sat fuel (8 * p.M + 38) (fun o => o.2.sc.mu ≤ p.sc.mu)

/-- arithmetic over the parser measures (unfolds `M`/`K`, knows which tokens are pending) -/
macro_rules | `(tactic| res_arith) => `(tactic| first | omega | grind)

theorem parseValue_step {n} (ih : Specs n) : ∀ d p, (parseValue (n + 1) d p).Sat (n + 1) (8 * p.M + 40)
    (fun o => o.2.sc.mu ≤ p.sc.mu ∧ (p.tokNone = true → o.2 = p)) := by
  intro d p; rw [parseValue]; res_auto

theorem parseList_step {n} (ih : Specs n) : ∀ d p, (parseList (n + 1) d p).Sat (n + 1) (8 * p.M + 36)
    (fun o => o.2.sc.mu ≤ p.sc.mu) := by
  intro d p; rw [parseList]; res_auto

theorem listLoop_step {n} (ih : Specs n) : ∀ d p e acc,
    (listLoop (n + 1) d p e acc).Sat (n + 1) (8 * p.sc.mu + 41) (fun o => o.2.sc.mu ≤ p.sc.mu) := by
  intro d p e acc; rw [listLoop]; res_auto

theorem parseDict_step {n} (ih : Specs n) : ∀ d p, (parseDict (n + 1) d p).Sat (n + 1) (8 * p.M + 30)
    (fun o => o.2.sc.mu ≤ p.sc.mu) := by
  intro d p; rw [parseDict]; res_auto

theorem dictParts_step {n} (ih : Specs n) : ∀ d p e acc,
    (dictParts (n + 1) d p e acc).Sat (n + 1) (8 * p.M + 30) (fun o => o.2.sc.mu ≤ p.sc.mu) := by
  intro d p e acc; rw [dictParts]; res_auto

theorem colMeta_step {n} (ih : Specs n) : ∀ d p acc,
    (colMeta (n + 1) d p acc).Sat (n + 1) (8 * p.M + 30) (fun o => o.2.sc.mu ≤ p.sc.mu) := by
  intro d p acc; rw [colMeta]; res_auto

theorem gridColumns_step {n} (ih : Specs n) : ∀ d p acc,
    (gridColumns (n + 1) d p acc).Sat (n + 1) (8 * p.sc.mu + 30) (fun o => o.2.sc.mu ≤ p.sc.mu) := by
  intro d p acc; rw [gridColumns]; res_auto

theorem rowLoop_step {n} (ih : Specs n) : ∀ d p cols k acc,
    (rowLoop (n + 1) d p cols k acc).Sat (n + 1) (8 * p.M + 41)
      (fun o => o.2.M ≤ p.M ∧ o.2.isChar 10 = true) := by
  intro d p cols k acc; rw [rowLoop]; res_auto

theorem rowNext_step {n} (ih : Specs n) : ∀ d r cols,
    (rowNext (n + 1) d r cols).Sat (n + 1) (8 * r.p.M + 42)
      (fun o => o.2.K + (if o.1.isSome then 1 else 0) ≤ r.K) := by
  intro d r cols; rw [rowNext]; res_auto

theorem rowsLoop_step {n} (ih : Specs n) : ∀ d r cols acc,
    (rowsLoop (n + 1) d r cols acc).Sat (n + 1) (8 * r.K + 43) (fun o => o.2.K ≤ r.K) := by
  intro d r cols acc; rw [rowsLoop]; res_auto

theorem parseGrid_step {n} (ih : Specs n) : ∀ d p,
    (parseGrid (n + 1) d p).Sat (n + 1) (8 * p.M + 38) (fun o => o.2.sc.mu ≤ p.sc.mu) := by
  intro d p; rw [parseGrid]; res_auto

set_option linter.unusedVariables false in
theorem consumeEnd_step {n} (ih : Specs n) : ∀ r, (consumeEnd (n + 1) r).Sat (n + 1) (8 * r.p.M + 10)
    (fun o => o.p.M ≤ r.p.M ∧ (r.p.isChar 10 = true → o.p.isEof = true ∨ o.p.M < r.p.M)) := by
  intro r; rw [consumeEnd]
  dsimp only
  res_split_inline (n + 1) (r.p.M + 2)
    (fun (p1 : PS) => p1.M ≤ r.p.M ∧
      (r.p.isChar 10 = true → (p1.isEof = true ∧ p1.isChar 10 = true) ∨ p1.M < r.p.M))
  all_goals res_auto

theorem gridHeader_step {n} (ih : Specs n) : ∀ d p,
    (gridHeader (n + 1) d p).Sat (n + 1) (8 * p.M + 30) (fun o => o.2.p.M + 2 ≤ p.M) := by
  intro d p; rw [gridHeader]
  dsimp only
  res_split_inline (n + 1) (p.M + 2) (fun (o : Bool × PS) => o.2.M ≤ p.M)
  all_goals res_auto

theorem specsAll : ∀ fuel, Specs fuel := by
  intro fuel
  induction fuel with
  | zero =>
    constructor <;> intros
    · rw [parseValue]; exact Nat.zero_le _
    · rw [parseList]; exact Nat.zero_le _
    · rw [listLoop]; exact Nat.zero_le _
    · rw [parseDict]; exact Nat.zero_le _
    · rw [dictParts]; exact Nat.zero_le _
    · rw [colMeta]; exact Nat.zero_le _
    · rw [gridColumns]; exact Nat.zero_le _
    · rw [consumeEnd]; exact Nat.zero_le _
    · rw [rowLoop]; exact Nat.zero_le _
    · rw [rowNext]; exact Nat.zero_le _
    · rw [rowsLoop]; exact Nat.zero_le _
    · rw [gridHeader]; exact Nat.zero_le _
    · rw [parseGrid]; exact Nat.zero_le _
  | succ n ih =>
    exact {
      parseValue := parseValue_step ih
      parseList := parseList_step ih
      listLoop := listLoop_step ih
      parseDict := parseDict_step ih
      dictParts := dictParts_step ih
      colMeta := colMeta_step ih
      gridColumns := gridColumns_step ih
      consumeEnd := consumeEnd_step ih
      rowLoop := rowLoop_step ih
      rowNext := rowNext_step ih
      rowsLoop := rowsLoop_step ih
      gridHeader := gridHeader_step ih
      parseGrid := parseGrid_step ih }

/-! ### the specs as stand-alone lemmas -/

theorem parseValue_spec (fuel d p) : (parseValue fuel d p).Sat fuel (8 * p.M + 40)
    (fun o => o.2.sc.mu ≤ p.sc.mu ∧ (p.tokNone = true → o.2 = p)) := (specsAll fuel).parseValue d p
theorem consumeEnd_spec (fuel r) : (consumeEnd fuel r).Sat fuel (8 * r.p.M + 10)
    (fun o => o.p.M ≤ r.p.M ∧ (r.p.isChar 10 = true → o.p.isEof = true ∨ o.p.M < r.p.M)) :=
  (specsAll fuel).consumeEnd r
theorem rowLoop_spec (fuel d p cols k acc) : (rowLoop fuel d p cols k acc).Sat fuel (8 * p.M + 41)
    (fun o => o.2.M ≤ p.M ∧ o.2.isChar 10 = true) := (specsAll fuel).rowLoop d p cols k acc
theorem rowNext_spec (fuel d r cols) : (rowNext fuel d r cols).Sat fuel (8 * r.p.M + 42)
    (fun o => o.2.K + (if o.1.isSome then 1 else 0) ≤ r.K) := (specsAll fuel).rowNext d r cols
theorem rowsLoop_spec (fuel d r cols acc) : (rowsLoop fuel d r cols acc).Sat fuel (8 * r.K + 43)
    (fun o => o.2.K ≤ r.K) := (specsAll fuel).rowsLoop d r cols acc
theorem gridHeader_spec (fuel d p) : (gridHeader fuel d p).Sat fuel (8 * p.M + 30)
    (fun o => o.2.p.M + 2 ≤ p.M) := (specsAll fuel).gridHeader d p
theorem parseGrid_spec (fuel d p) : (parseGrid fuel d p).Sat fuel (8 * p.M + 38)
    (fun o => o.2.sc.mu ≤ p.sc.mu) := (specsAll fuel).parseGrid d p

/-- `decode::from_str` is total: `fuelFor n = 8 n + 64` is enough for every input of `n` bytes -/
theorem fromBytes_spec (bs : List UInt8) : (fromBytes bs).Sat 1 0 (fun _ => True) := by
  unfold fromBytes
  dsimp only
  have hm := mu_make bs
  have hf : fuelFor bs.length = 8 * bs.length + 64 := rfl
  res_auto

end Zinc
end Hs
