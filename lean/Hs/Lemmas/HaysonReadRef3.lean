/-
  Hs.Lemmas.HaysonReadRef3 — the reference reader on the grid object, column objects and rows (members in any
  order), and the induction on the derivation of `Denotes`: the reference reader reads every Hayson document
  of a value as that value (`reader_denotes`; empty meta as absent meta: `readerImage`), with the fuel
  `readDoc` gives it.
-/
import Hs.Lemmas.HaysonReadRef2
set_option linter.unusedSimpArgs false
namespace Hs.Spec.Hayson
open Hs Hs.Hayson

/-! ### the grid object -/

theorem gridKind_facts :
    (s "grid" == s "dict") = false ∧ (s "grid" == s "marker") = false ∧ (s "grid" == s "remove") = false ∧
    (s "grid" == s "na") = false ∧ (s "grid" == s "number") = false ∧ (s "grid" == s "ref") = false ∧
    (s "grid" == s "symbol") = false ∧ (s "grid" == s "uri") = false ∧ (s "grid" == s "date") = false ∧
    (s "grid" == s "time") = false ∧ (s "grid" == s "dateTime") = false ∧ (s "grid" == s "coord") = false ∧
    (s "grid" == s "xstr") = false ∧ (s "grid" == s "grid") = true := by decide

theorem rdr_gridMeta {ms mm : Members} {cjs rjs : Jsons} {t' : Tags} {ver : List Char}
    {cs : List (List Char × OTags)} {rs : List Tags}
    (hp : ms.toList.Perm [kindMem "grid", (s "meta", .obj mm), (s "cols", .arr cjs), (s "rows", .arr rjs)])
    (hver : (strOf (lookup mm.toList "ver")).getD (s "3.0") = ver)
    (htr : TagsRead t' (mm.toList.filter (fun p => p.1 != s "ver" && p.1 != s "_kind")))
    (hs : strictSorted t'.keys = true)
    (hc : ∀ f, 2 * sizes cjs + 1 ≤ f → readCols f cjs.toList = some cs)
    (hr : ∀ f, 2 * sizes rjs + 1 ≤ f → readRows f rjs.toList = some rs)
    (n : Nat) (hn : 2 * size (.obj ms) ≤ n) :
    read n (.obj ms) = some (.grid (if t'.isEmpty then .none else .some t') (Cols.ofList cs) (Rows.ofList rs) ver) := by
  obtain ⟨n', rfl⟩ := succ_of_two_le (show 2 ≤ n by have := size_pos (.obj ms); omega)
  simp only [size, sizem_eq] at hn
  have m1 : size (.obj mm) ≤ sizeL ms.toList := size_le_sizeL _ (s "meta", .obj mm) (hp.mem_iff.mpr (by simp))
  have m2 : size (.arr cjs) ≤ sizeL ms.toList := size_le_sizeL _ (s "cols", .arr cjs) (hp.mem_iff.mpr (by simp))
  have m3 : size (.arr rjs) ≤ sizeL ms.toList := size_le_sizeL _ (s "rows", .arr rjs) (hp.mem_iff.mpr (by simp))
  simp only [size, sizem_eq] at m1 m2 m3
  obtain ⟨kvs, h1, h2, h3⟩ := htr.readTags hs n'
    (by have := sizeL_filter (fun p => p.1 != s "ver" && p.1 != s "_kind") mm.toList; omega)
  have h4 := hc n' (by omega)
  have h5 := hr n' (by omega)
  have hlk : lookup [kindMem "grid", (s "meta", .obj mm), (s "cols", .arr cjs), (s "rows", .arr rjs)] "_kind"
      = some (.str (s "grid")) := by simp [lookup, kindMem, s]
  have hl1 : lookup [kindMem "grid", (s "meta", .obj mm), (s "cols", .arr cjs), (s "rows", .arr rjs)] "meta"
      = some (.obj mm) := by simp [lookup, kindMem, s]
  have hl2 : lookup [kindMem "grid", (s "meta", .obj mm), (s "cols", .arr cjs), (s "rows", .arr rjs)] "cols"
      = some (.arr cjs) := by simp [lookup, kindMem, s]
  have hl3 : lookup [kindMem "grid", (s "meta", .obj mm), (s "cols", .arr cjs), (s "rows", .arr rjs)] "rows"
      = some (.arr rjs) := by simp [lookup, kindMem, s]
  obtain ⟨e1, e2, e3, e4, e5, e6, e7, e8, e9, e10, e11, e12, e13, e14⟩ := gridKind_facts
  rw [read_obj_of_perm hp (by simp [kindMem, s]) hlk e1, Hs.Spec.Hayson.read]
  simp only [Members.toList_ofList, hlk, hl1, hl2, hl3, e1, e2, e3, e4, e5, e6, e7, e8, e9, e10, e11, e12, e13, e14,
    h1, h4, h5, hver, Option.map_some, h2, h3]
  simp

theorem rdr_gridNoMeta {ms : Members} {cjs rjs : Jsons} {cs : List (List Char × OTags)} {rs : List Tags}
    (hp : ms.toList.Perm [kindMem "grid", (s "cols", .arr cjs), (s "rows", .arr rjs)])
    (hc : ∀ f, 2 * sizes cjs + 1 ≤ f → readCols f cjs.toList = some cs)
    (hr : ∀ f, 2 * sizes rjs + 1 ≤ f → readRows f rjs.toList = some rs)
    (n : Nat) (hn : 2 * size (.obj ms) ≤ n) :
    read n (.obj ms) = some (.grid .none (Cols.ofList cs) (Rows.ofList rs) (s "3.0")) := by
  obtain ⟨n', rfl⟩ := succ_of_two_le (show 2 ≤ n by have := size_pos (.obj ms); omega)
  simp only [size, sizem_eq] at hn
  have m2 : size (.arr cjs) ≤ sizeL ms.toList := size_le_sizeL _ (s "cols", .arr cjs) (hp.mem_iff.mpr (by simp))
  have m3 : size (.arr rjs) ≤ sizeL ms.toList := size_le_sizeL _ (s "rows", .arr rjs) (hp.mem_iff.mpr (by simp))
  simp only [size] at m2 m3
  have h4 := hc n' (by omega)
  have h5 := hr n' (by omega)
  have hlk : lookup [kindMem "grid", (s "cols", .arr cjs), (s "rows", .arr rjs)] "_kind"
      = some (.str (s "grid")) := by simp [lookup, kindMem, s]
  have hl1 : lookup [kindMem "grid", (s "cols", .arr cjs), (s "rows", .arr rjs)] "meta" = none := by
    simp [lookup, kindMem, s]
  have hl2 : lookup [kindMem "grid", (s "cols", .arr cjs), (s "rows", .arr rjs)] "cols"
      = some (.arr cjs) := by simp [lookup, kindMem, s]
  have hl3 : lookup [kindMem "grid", (s "cols", .arr cjs), (s "rows", .arr rjs)] "rows"
      = some (.arr rjs) := by simp [lookup, kindMem, s]
  obtain ⟨e1, e2, e3, e4, e5, e6, e7, e8, e9, e10, e11, e12, e13, e14⟩ := gridKind_facts
  rw [read_obj_of_perm hp (by simp [kindMem, s]) hlk e1, Hs.Spec.Hayson.read]
  simp only [Members.toList_ofList, hlk, hl1, hl2, hl3, e1, e2, e3, e4, e5, e6, e7, e8, e9, e10, e11, e12, e13, e14,
    h4, h5]
  simp

/-! ### column objects and rows -/

theorem rdr_colNoMeta {n : List Char} {cm : Members} {cs : List Json} {rest : List (List Char × OTags)}
    (hp : cm.toList.Perm [(s "name", .str n)]) (f : Nat) (hrest : readCols f cs = some rest) :
    readCols (f + 1) (.obj cm :: cs) = some ((n, .none) :: rest) := by
  have hl1 : lookup cm.toList "name" = some (.str n) := by
    rw [lookup_of_perm hp (by simp)]; simp [lookup]
  have hl2 : lookup cm.toList "meta" = none := by
    rw [lookup_of_perm hp (by simp)]; simp [lookup, s]
  rw [Hs.Spec.Hayson.readCols]
  simp only [hl1, hl2, hrest, strOf]

theorem rdr_colMeta {n : List Char} {t' : Tags} {mm cm : Members} {cs : List Json}
    {rest : List (List Char × OTags)} (hp : cm.toList.Perm [(s "name", .str n), (s "meta", .obj mm)])
    (htr : TagsRead t' (mm.toList.filter (fun p => p.1 != s "_kind"))) (hs : strictSorted t'.keys = true) (f : Nat)
    (hf : 2 * sizeL mm.toList + 1 ≤ f) (hrest : readCols f cs = some rest) :
    readCols (f + 1) (.obj cm :: cs) = some ((n, if t'.isEmpty then .none else .some t') :: rest) := by
  have hl1 : lookup cm.toList "name" = some (.str n) := by
    rw [lookup_of_perm hp (by simp [s])]; simp [lookup, s]
  have hl2 : lookup cm.toList "meta" = some (.obj mm) := by
    rw [lookup_of_perm hp (by simp [s])]; simp [lookup, s]
  obtain ⟨kvs, h1, h2, h3⟩ := htr.readTags hs f
    (by have := sizeL_filter (fun p => p.1 != s "_kind") mm.toList; omega)
  rw [Hs.Spec.Hayson.readCols]
  simp only [hl1, hl2, hrest, strOf, h1, Option.map_some, h2, h3]

theorem rdr_row {t' : Tags} {rm : Members} {rs : List Json} {rest : List Tags}
    (htr : TagsRead t' (rm.toList.filter (fun p => p.1 != s "_kind"))) (hs : strictSorted t'.keys = true)
    (f : Nat) (hf : 2 * sizeL rm.toList + 1 ≤ f) (hrest : readRows f rs = some rest) :
    readRows (f + 1) (.obj rm :: rs) = some (t' :: rest) := by
  obtain ⟨kvs, h1, h2, _⟩ := htr.readTags hs f
    (by have := sizeL_filter (fun p => p.1 != s "_kind") rm.toList; omega)
  rw [Hs.Spec.Hayson.readRows]
  simp only [h1, hrest, h2]

/-! ### `readerImage` -/

theorem readerImageTags_toList_keys : ∀ t : Tags, (readerImageTags t).keys = t.keys
  | .nil => rfl
  | .cons k v t => by simp [readerImageTags, Tags.keys, readerImageTags_toList_keys t]

theorem tagKeys_readerImage {t : Tags} (hk : TagKeys t) : TagKeys (readerImageTags t) := by
  unfold TagKeys at *
  rw [readerImageTags_toList_keys]
  exact hk

theorem readerImage_gridSome (t : Tags) (c : Cols) (r : Rows) (ver : List Char) :
    readerImage (.grid (.some t) c r ver) =
      .grid (if (readerImageTags t).isEmpty then .none else .some (readerImageTags t))
        (readerImageCols c) (readerImageRows r) ver := by
  cases t <;> simp [readerImage, readerImageTags, Tags.isEmpty]

theorem readerImageCols_some (n : List Char) (t : Tags) (c : Cols) :
    readerImageCols (.cons n (.some t) c) =
      .cons n (if (readerImageTags t).isEmpty then .none else .some (readerImageTags t)) (readerImageCols c) := by
  cases t <;> simp [readerImageCols, readerImageTags, Tags.isEmpty]

theorem sizes_cons_le (j : Json) (js : Jsons) : size j + sizes js = sizes (.cons j js) := by
  simp [sizes]

/-! ### the induction -/

mutual
theorem reader_val : {w : Val} → {doc : Json} → Denotes w doc →
    ∀ n, 2 * size doc ≤ n → read n doc = some (readerImage w)
  | _, _, .null, n, hn => by
    obtain ⟨n', rfl⟩ := succ_of_two_le (by simpa [size] using hn)
    simp [Hs.Spec.Hayson.read, readerImage]
  | _, _, .bool b, n, hn => by
    obtain ⟨n', rfl⟩ := succ_of_two_le (by simpa [size] using hn)
    simp [Hs.Spec.Hayson.read, readerImage]
  | _, _, .str x, n, hn => by
    obtain ⟨n', rfl⟩ := succ_of_two_le (by simpa [size] using hn)
    simp [Hs.Spec.Hayson.read, readerImage]
  | _, _, .numTok h, n, hn => by simpa [readerImage] using rdr_numTok h n hn
  | _, _, .marker, n, hn => by
    obtain ⟨n', rfl⟩ := succ_of_two_le (show 2 ≤ n by simp [size, sizem] at hn; omega)
    simp [Hs.Spec.Hayson.read, readerImage, lookup, Members.toList, s]
  | _, _, .remove, n, hn => by
    obtain ⟨n', rfl⟩ := succ_of_two_le (show 2 ≤ n by simp [size, sizem] at hn; omega)
    simp [Hs.Spec.Hayson.read, readerImage, lookup, Members.toList, s]
  | _, _, .na, n, hn => by
    obtain ⟨n', rfl⟩ := succ_of_two_le (show 2 ≤ n by simp [size, sizem] at hn; omega)
    simp [Hs.Spec.Hayson.read, readerImage, lookup, Members.toList, s]
  | _, _, .number (ms := ms) hv hu hp, n, hn => by
    simpa [readerImage] using rdr_number hv hu hp n (Nat.le_trans (two_le_size_obj ms) hn)
  | _, _, .ref (ms := ms) hd hp, n, hn => by
    simpa [readerImage] using rdr_ref hd hp n (Nat.le_trans (two_le_size_obj ms) hn)
  | _, _, .symbol (ms := ms) hp, n, hn => by
    simpa [readerImage] using rdr_symbol hp n (Nat.le_trans (two_le_size_obj ms) hn)
  | _, _, .uri (ms := ms) hp, n, hn => by
    simpa [readerImage] using rdr_uri hp n (Nat.le_trans (two_le_size_obj ms) hn)
  | _, _, .date (ms := ms) hp, n, hn => by
    simpa [readerImage, lexDate] using rdr_date hp n (Nat.le_trans (two_le_size_obj ms) hn)
  | _, _, .time (ms := ms) hp, n, hn => by
    simpa [readerImage, lexTime] using rdr_time hp n (Nat.le_trans (two_le_size_obj ms) hn)
  | _, _, .dateTime (ms := ms) hz hp, n, hn => by
    simpa [readerImage, lexDateTime] using rdr_dateTime hz hp n (Nat.le_trans (two_le_size_obj ms) hn)
  | _, _, .coord (ms := ms) ha hb hp, n, hn => by
    simpa [readerImage] using rdr_coord ha hb hp n (Nat.le_trans (two_le_size_obj ms) hn)
  | _, _, .xstr (ms := ms) hp, n, hn => by
    simpa [readerImage] using rdr_xstr hp n (Nat.le_trans (two_le_size_obj ms) hn)
  | _, _, .list (vs := vs) (js := js) hl, n, hn => by
    obtain ⟨n', rfl⟩ := succ_of_two_le (show 2 ≤ n by have := size_pos (.arr js); omega)
    have := reader_list hl n' (by simp only [size] at hn; omega)
    simp [Hs.Spec.Hayson.read, this, readerImage, Vals.ofList_toList]
  | _, _, .dict hd, n, hn => by
    simpa [readerImage] using rdr_dictObj (reader_dictD hd) n hn
  | _, _, .gridNoMeta (cols := cols) (rows := rows) (cjs := cjs) (rjs := rjs) (ms := ms) hc hr hp, n, hn => by
    rw [rdr_gridNoMeta hp (reader_cols hc) (reader_rows hr) n hn]
    simp [readerImage, Cols.ofList_toList, Rows.ofList_toList]
  | _, _, .gridMeta (t := t) (cols := cols) (rows := rows) (cjs := cjs) (rjs := rjs) (mm := mm) (ms := ms)
      hm hk hnv hkm hvm hpm hc hr hp, n, hn => by
    obtain ⟨hv, hrd⟩ := reader_mems hm
    obtain ⟨hver, htr⟩ := rdr_meta hv hrd (tagKeys_readerImage hk)
      (by rw [readerImageTags_toList_keys]; exact hnv) hkm hvm hpm
    rw [rdr_gridMeta hp hver htr (tagKeys_readerImage hk).1 (reader_cols hc) (reader_rows hr) n hn,
      readerImage_gridSome, Cols.ofList_toList, Rows.ofList_toList]
theorem reader_list : {vs : Vals} → {js : Jsons} → DenotesL vs js →
    ∀ n, 2 * sizes js + 1 ≤ n → readAll n js.toList = some (readerImages vs).toList
  | _, _, .nil, n, hn => by
    obtain ⟨n', rfl⟩ : ∃ n', n = n' + 1 := ⟨n - 1, by omega⟩
    simp [readAll, Jsons.toList, readerImages, Vals.toList]
  | _, _, .cons (j := j) (js := js) hv hl, n, hn => by
    obtain ⟨n', rfl⟩ : ∃ n', n = n' + 1 := ⟨n - 1, by omega⟩
    simp only [sizes] at hn
    have hj := size_pos j
    have h1 := reader_val hv n' (by omega)
    have h2 := reader_list hl n' (by omega)
    simp [readAll, Jsons.toList, readerImages, Vals.toList, h1, h2]
theorem reader_mems : {t : Tags} → {tm : Mems} → DenotesM t tm →
    tm.map rd = (readerImageTags t).toList ∧ ∀ p ∈ tm, Readable p
  | _, _, .nil => by simp [readerImageTags, Tags.toList]
  | _, _, .cons (k := k) (v := v) (j := j) hv hm => by
    have h1 := reader_val hv
    obtain ⟨h2, h3⟩ := reader_mems hm
    have e : rd (k, j) = (k, readerImage v) := by
      simp [rd, h1 (2 * size j) (Nat.le_refl _)]
    constructor
    · simp [readerImageTags, Tags.toList, e, h2]
    · intro p hp
      rcases List.mem_cons.mp hp with e' | hp
      · subst e'
        intro f hf
        rw [e]
        exact h1 f hf
      · exact h3 p hp
theorem reader_dictD : {t : Tags} → {ms : Members} → DenotesD t ms → DictRead (readerImageTags t) ms
  | _, _, .mk (tm := tm) (km := km) (ms := ms) hm hk hkm hp => by
    obtain ⟨h2, h3⟩ := reader_mems hm
    exact ⟨tm, km, hkm, hp, h2, h3, tagKeys_readerImage hk⟩
theorem reader_cols : {c : Cols} → {js : Jsons} → DenotesCols c js →
    ∀ n, 2 * sizes js + 1 ≤ n → readCols n js.toList = some (readerImageCols c).toList
  | _, _, .nil, n, hn => by
    obtain ⟨n', rfl⟩ : ∃ n', n = n' + 1 := ⟨n - 1, by omega⟩
    simp [readCols, Jsons.toList, readerImageCols, Cols.toList]
  | _, _, .consNoMeta (cm := cm) (js := js) hp hc, n, hn => by
    obtain ⟨n', rfl⟩ : ∃ n', n = n' + 1 := ⟨n - 1, by omega⟩
    simp only [sizes] at hn
    have hpos := size_pos (.obj cm)
    have h2 := reader_cols hc n' (by omega)
    simp only [Jsons.toList, readerImageCols, Cols.toList]
    exact rdr_colNoMeta hp n' h2
  | _, _, .consMeta (t := t) (mm := mm) (cm := cm) (js := js) hd hp hc, n, hn => by
    obtain ⟨n', rfl⟩ : ∃ n', n = n' + 1 := ⟨n - 1, by omega⟩
    simp only [sizes, size, sizem_eq] at hn
    have h2 := reader_cols hc n' (by omega)
    have hdr := reader_dictD hd
    have m1 : size (.obj mm) ≤ sizeL cm.toList := size_le_sizeL _ (s "meta", .obj mm) (hp.mem_iff.mpr (by simp))
    simp only [size, sizem_eq] at m1
    obtain ⟨_, _, _, _, _, _, hk'⟩ := id hdr
    simp only [Jsons.toList, readerImageCols_some, Cols.toList]
    exact rdr_colMeta hp hdr.tagsRead hk'.1 n' (by omega) h2
theorem reader_rows : {r : Rows} → {js : Jsons} → DenotesRows r js →
    ∀ n, 2 * sizes js + 1 ≤ n → readRows n js.toList = some (readerImageRows r).toList
  | _, _, .nil, n, hn => by
    obtain ⟨n', rfl⟩ : ∃ n', n = n' + 1 := ⟨n - 1, by omega⟩
    simp [readRows, Jsons.toList, readerImageRows, Rows.toList]
  | _, _, .cons (rm := rm) (js := js) hd hr, n, hn => by
    obtain ⟨n', rfl⟩ : ∃ n', n = n' + 1 := ⟨n - 1, by omega⟩
    simp only [sizes, size, sizem_eq] at hn
    have h2 := reader_rows hr n' (by omega)
    have hdr := reader_dictD hd
    obtain ⟨_, _, _, _, _, _, hk'⟩ := id hdr
    simp only [Jsons.toList, readerImageRows, Rows.toList]
    exact rdr_row hdr.tagsRead hk'.1 n' (by omega) h2
end

/-- **the reference reader reads every Hayson document of a value as that value** (an empty grid/column
meta as an absent one) -/
theorem reader_denotes {w : Val} {doc : Json} (h : Denotes w doc) :
    readDoc doc = some (readerImage w) :=
  reader_val h _ (by omega)

end Hs.Spec.Hayson
