/-
  C01 ladder, rung 3b: `parseUri` reads back `encUri s` for every `s : List Char` (no hypothesis on the
  characters is needed: control characters travel as `\u00XY`).
-/
import Hs.Lemmas.ZincRtStr
namespace Hs.Zinc
open Hs Hs.Scan

theorem uriLoop_tick {s : Scan} {r : List UInt8} (h : At s (96 :: r)) (fuel : Nat) (acc : List UInt8) :
    uriLoop (fuel + 1) s acc = .ok (acc, s) := by
  rw [uriLoop]; simp [h.cur]

theorem uriLoop_plain {s : Scan} {b : UInt8} {r : List UInt8} (h : At s (b :: r)) (h1 : b ≠ 96) (h2 : b ≠ 92)
    (fuel : Nat) (acc : List UInt8) :
    uriLoop (fuel + 1) s acc = uriLoop fuel s.advance (acc ++ [b]) := by
  rw [uriLoop]; simp [h.cur, h.eof, h1, h2]

theorem uriLoop_plain_bytes (bs : List UInt8) (hbs : ∀ b ∈ bs, b ≠ 96 ∧ b ≠ 92) :
    ∀ (s : Scan) (r : List UInt8) (fuel : Nat) (acc : List UInt8), At s (bs ++ r) →
    uriLoop (fuel + bs.length) s acc = uriLoop fuel (advN bs.length s) (acc ++ bs) := by
  induction bs with
  | nil => intro s r fuel acc h; simp [advN]
  | cons b bs ih =>
    intro s r fuel acc h
    have hb := hbs b (by simp)
    simp only [List.cons_append] at h
    have e := ih (fun x hx => hbs x (by simp [hx])) s.advance r fuel (acc ++ [b]) h.advance
    have : fuel + (b :: bs).length = (fuel + bs.length) + 1 := by simp; omega
    rw [this, uriLoop_plain h hb.1 hb.2, e]; simp [advN]

/-- `\`` and `\\` -/
theorem uriLoop_esc {s : Scan} {c d : UInt8} {r : List UInt8} (h : At s (92 :: c :: d :: r)) (hs : s.stash = [])
    (hc : c = 96 ∨ c = 92) :
    ∃ s', At s' (d :: r) ∧ s'.stash = [] ∧ s.pos ≤ s'.pos ∧
      ∀ (fuel : Nat) (acc : List UInt8), uriLoop (fuel + 1) s acc = uriLoop fuel s' (acc ++ [c]) := by
  obtain ⟨s1, e1, h1, hs1, _, hp1⟩ := h.peek0' hs
  have h2 := h1.advance
  refine ⟨s1.advance.advance, h2.advance, ?_, ?_, ?_⟩
  · have : s1.advance.stash = [] := advance_stash_nil (by omega)
    rw [At.advance_stash, this]; rfl
  · rw [← hp1]; exact Nat.le_trans (At.advance_pos_le _) (At.advance_pos_le _)
  · intro fuel acc
    rw [uriLoop]
    simp only [h.cur, h.eof, e1, h1.readQ]
    rcases hc with rfl | rfl <;> simp

/-- `\u00XY` -/
theorem uriLoop_escU {s : Scan} {n : Nat} (hn : n < 32) {d : UInt8} {r : List UInt8}
    (h : At s (uEscape n ++ d :: r)) (hs : s.stash = []) :
    ∃ s', At s' (d :: r) ∧ s'.stash = [] ∧ s.pos ≤ s'.pos ∧
      ∀ (fuel : Nat) (acc : List UInt8),
        uriLoop (fuel + 1) s acc = uriLoop fuel s' (acc ++ encChar (Char.ofNat n)) := by
  simp only [uEscape, List.cons_append, List.nil_append] at h
  obtain ⟨s0, e0, h0, hs0, _, hp0⟩ := h.peek0' hs
  have h1 := h0.advance
  have h2 := h1.advance
  have h3 := h2.advance
  have h4 := h3.advance
  have h5 := h4.advance
  have e1 := hexVal_lower (n / 4096 % 16) (by omega)
  have e2 := hexVal_lower (n / 256 % 16) (by omega)
  have e3 := hexVal_lower (n / 16 % 16) (by omega)
  have e4 := hexVal_lower (n % 16) (by omega)
  have hu : (n / 4096 % 16) * 4096 + (n / 256 % 16) * 256 + (n / 16 % 16) * 16 + n % 16 = n := by omega
  refine ⟨s0.advance.advance.advance.advance.advance.advance, h5.advance, ?_, ?_, ?_⟩
  · have : s0.advance.stash = [] := advance_stash_nil (by omega)
    exact advN_stash_nil 5 _ this
  · rw [← hp0]; exact advN_pos_le 6 s0
  · intro fuel acc
    rw [uriLoop]
    simp only [h.cur, h.eof, e0, h0.readQ, parseUnicodeEscape, h1.cur, h1.readQ, h2.readQ, h3.readQ,
      h4.readQ, Scan.isHexDigit, h2.cur, h3.cur, h4.cur, h5.cur, e1.1, e2.1, e3.1, e4.1, e1.2, e2.2, e3.2, e4.2, hu]
    have : ¬ (0xD800 ≤ n) := by omega
    simp [this]

theorem uriLoop_char (c : Char) (s : Scan) (d : UInt8) (r : List UInt8) (acc : List UInt8)
    (h : At s (encUriChar c ++ d :: r)) (hs : s.stash = []) :
    ∃ k s', 1 ≤ k ∧ k ≤ (encUriChar c).length ∧ At s' (d :: r) ∧ s.pos ≤ s'.pos ∧ s'.stash = [] ∧
      ∀ fuel, uriLoop (fuel + k) s acc = uriLoop fuel s' (acc ++ encChar c) := by
  by_cases c1 : c = '`'
  · have e : encUriChar c = [92, 96] := by simp [encUriChar, c1]
    rw [e] at h ⊢
    obtain ⟨s', h', hs', hp', e'⟩ := uriLoop_esc h hs (Or.inl rfl)
    refine ⟨1, s', by simp, by simp, h', hp', hs', fun fuel => ?_⟩
    rw [e', c1]; rfl
  by_cases c2 : c = '\\'
  · have e : encUriChar c = [92, 92] := by simp [encUriChar, c2]
    rw [e] at h ⊢
    obtain ⟨s', h', hs', hp', e'⟩ := uriLoop_esc h hs (Or.inr rfl)
    refine ⟨1, s', by simp, by simp, h', hp', hs', fun fuel => ?_⟩
    rw [e', c2]; rfl
  by_cases c3 : c.toNat < 32
  · have e : encUriChar c = uEscape c.toNat := by simp [encUriChar, c1, c2, c3]
    rw [e] at h ⊢
    obtain ⟨s', h', hs', hp', e'⟩ := uriLoop_escU c3 h hs
    refine ⟨1, s', by simp, by simp [uEscape], h', hp', hs', fun fuel => ?_⟩
    rw [e', Char.ofNat_toNat]
  have e : encUriChar c = encChar c := by simp [encUriChar, c1, c2, c3]
  rw [e] at h ⊢
  have hb : ∀ b ∈ encChar c, b ≠ 96 ∧ b ≠ 92 := by
    intro b hb
    exact ⟨encChar_bytes_ne c 96 (by decide) (fun e => c1 (Char.toNat_inj.mp e)) b hb,
           encChar_bytes_ne c 92 (by decide) (fun e => c2 (Char.toNat_inj.mp e)) b hb⟩
  refine ⟨(encChar c).length, advN (encChar c).length s, encChar_length_pos c, Nat.le_refl _, h.advN,
    advN_pos_le _ _, advN_stash_nil _ s hs, ?_⟩
  intro fuel
  exact uriLoop_plain_bytes (encChar c) hb s (d :: r) fuel acc h

theorem uriLoop_body (cs : List Char) : ∀ (s : Scan) (r : List UInt8) (fuel : Nat) (acc : List UInt8),
    At s (cs.flatMap encUriChar ++ 96 :: r) → s.stash = [] → (cs.flatMap encUriChar).length < fuel →
    ∃ s', uriLoop fuel s acc = .ok (acc ++ encChars cs, s') ∧ At s' (96 :: r) ∧ s.pos ≤ s'.pos
      ∧ s'.stash = [] := by
  induction cs with
  | nil =>
    intro s r fuel acc h hs hf
    simp only [List.flatMap_nil, List.nil_append] at h
    obtain ⟨f, rfl⟩ : ∃ f, fuel = f + 1 := ⟨fuel - 1, by omega⟩
    exact ⟨s, by rw [uriLoop_tick h]; simp, h, Nat.le_refl _, hs⟩
  | cons c cs ih =>
    intro s r fuel acc h hs hf
    simp only [List.flatMap_cons, List.append_assoc, List.length_append] at h hf
    obtain ⟨d, r', hd⟩ : ∃ d r', cs.flatMap encUriChar ++ 96 :: r = d :: r' := by
      cases hx : cs.flatMap encUriChar ++ 96 :: r with
      | nil => simp at hx
      | cons d r' => exact ⟨d, r', rfl⟩
    rw [hd] at h
    obtain ⟨k, s1, hk1, hk2, h1, hp1, hs1, e⟩ := uriLoop_char c s d r' acc h hs
    obtain ⟨f, rfl⟩ : ∃ f, fuel = f + k := ⟨fuel - k, by omega⟩
    rw [← hd] at h1
    obtain ⟨s2, e2, h2, hp2, hs2⟩ := ih s1 r f (acc ++ encChar c) h1 hs1 (by omega)
    refine ⟨s2, ?_, h2, Nat.le_trans hp1 hp2, hs2⟩
    rw [e, e2, encChars_cons]; simp

/-- **rt_uri** (scanner level): no hypothesis on the characters. -/
theorem parseUri_rt (cs : List Char) (s : Scan) (rest : List UInt8) (fuel : Nat)
    (h : At s (encUri cs ++ rest)) (hs : s.stash = []) (hf : (encUri cs).length ≤ fuel) :
    ∃ s', parseUri fuel s = .ok (cs, s') ∧ At s' rest ∧ s'.stash = [] := by
  simp only [encUri, List.cons_append, List.nil_append, List.append_assoc, List.length_cons,
    List.length_append, List.length_nil] at h hf
  have h0 := h.advance
  have hp0 : s.advance.pos = s.pos + 1 := by
    cases hx : cs.flatMap encUriChar ++ 96 :: rest with
    | nil => simp at hx
    | cons d r' => rw [hx] at h; exact h.advance_pos
  obtain ⟨s1, e1, h1, hp1, hs1⟩ := uriLoop_body cs s.advance rest fuel [] h0
    (by rw [At.advance_stash, hs]; rfl) (by omega)
  refine ⟨s1.advance, ?_, h1.advance, by rw [At.advance_stash, hs1]; rfl⟩
  unfold parseUri
  simp only [h.cur, e1]
  have : (s.pos == s1.pos) = false := by simp; omega
  simp [this, lossy_encChars]

end Hs.Zinc
