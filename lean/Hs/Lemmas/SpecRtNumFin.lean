/-
  C04 (write direction), rung 3c: finite numbers with and without unit, coordinates: from the well-formedness
  predicates to the value the reference reader returns.
-/
import Hs.Lemmas.SpecRtNumVal
namespace Hs.Spec
open Hs Hs.Zinc Hs.Scan

/-- what follows the decimal text of a number -/
structure AfterNum (T : List UInt8) : Prop where
  cont : Stop isDecCont T
  tail : NumTail T
  noexp : NoExp T

theorem delim_head {rest : List UInt8} (hd : Delim rest) :
    ∀ b r, rest = b :: r → b = 44 ∨ b = 93 ∨ b = 125 ∨ b = 10 ∨ b = 32 := by
  intro b r e
  rcases hd with rfl | ⟨b', r', rfl, hb⟩ | ⟨x, r', rfl, _⟩
  · cases e
  · cases e; rcases hb with h | h | h | h <;> simp [h]
  · cases e; simp

theorem afterNum_delim {rest : List UInt8} (hd : Delim rest) : AfterNum rest := by
  refine ⟨hd.stop (by decide), ?_, ?_⟩
  · intro x r e
    rcases delim_head hd x r e with h | h | h | h | h <;> subst h <;> decide
  · intro e r he h101
    rcases delim_head hd e r he with h | h | h | h | h <;> subst h <;> rcases h101 with h | h <;> cases h

theorem unit_classes : ∀ b : UInt8, (!isUnitB b || (isUnitByte b && !isDigitB b && b != 46 && b != 45 && b != 58 && b != 43)) = true :=
  all_u8 (fun b => (!isUnitB b || (isUnitByte b && !isDigitB b && b != 46 && b != 45 && b != 58 && b != 43)))
    (by decide +kernel)

theorem unit_class {b : UInt8} (h : isUnitB b = true) :
    isUnitByte b = true ∧ isDigitB b = false ∧ b ≠ 46 ∧ b ≠ 45 ∧ b ≠ 58 ∧ b ≠ 43 := by
  have := unit_classes b
  simp only [h, Bool.not_true, Bool.false_or, Bool.and_eq_true, bne_iff_ne, ne_eq, Bool.not_eq_eq_eq_not] at this
  exact ⟨this.1.1.1.1.1, this.1.1.1.1.2, this.1.1.1.2, this.1.1.2, this.1.2, this.2⟩

theorem afterNum_unit (u : List Char) (hu : unitOk (some u) = true) (rest : List UInt8) (hd : Delim rest) :
    AfterNum (encChars u ++ rest) := by
  simp only [unitOk, Bool.and_eq_true, Bool.not_eq_eq_eq_not, Bool.not_true, List.isEmpty_eq_false_iff,
    List.all_eq_true, bne_iff_ne, ne_eq] at hu
  obtain ⟨⟨⟨⟨hne, hall⟩, h95⟩, _⟩, _⟩ := hu
  cases hU : encChars u with
  | nil => exact absurd hU hne
  | cons u0 ur =>
    rw [hU] at hall h95
    have h0 := unit_class (hall u0 (by simp))
    have h95' : u0 ≠ 95 := by simpa using h95
    refine ⟨Stop_cons (by simp [isDecCont, isDigit_eq, h0.2.1, h95', h0.2.2.1]), ?_, ?_⟩
    · intro x r e
      simp only [List.cons_append, List.cons.injEq] at e
      rw [← e.1]; exact ⟨h0.2.1, h0.2.2.2.1, h0.2.2.2.2.1⟩
    · intro e r he h101 c r' hr
      simp only [List.cons_append, List.cons.injEq] at he
      rw [← he.2] at hr
      cases ur with
      | nil =>
        simp only [List.nil_append] at hr
        rcases delim_head hd c r' hr with h | h | h | h | h <;> subst h <;> decide
      | cons u1 ur' =>
        simp only [List.cons_append, List.cons.injEq] at hr
        have h1 := unit_class (hall u1 (by simp))
        rw [← hr.1]; exact ⟨h1.2.1, h1.2.2.2.2.2, h1.2.2.2.1⟩

theorem span_unit (u : List Char) (hu : unitOk (some u) = true) (rest : List UInt8) (hd : Delim rest) :
    span isUnitByte (encChars u ++ rest) = (encChars u, rest) := by
  simp only [unitOk, Bool.and_eq_true, List.all_eq_true] at hu
  refine span_all _ _ rest (fun b hb => (unit_class (hu.1.1.1.2 b hb)).1) (hd.stop (by decide))

theorem span_unit_none (rest : List UInt8) (hd : Delim rest) : span isUnitByte rest = ([], rest) := by
  simpa using span_all isUnitByte [] rest (by simp) (hd.stop (by decide))

/-- the dispatch facts of a strict decimal followed by an `AfterNum` -/
theorem strict_facts (tb : List UInt8) (h : strictDec tb = true) (T : List UInt8) (hT : AfterNum T) :
    ∃ b t, tb ++ T = b :: t ∧ (isDigitB b || b == 45) = true ∧ (b == 45 && t.take 3 == [73, 78, 70]) = false ∧
      dateP (b :: t) = none ∧ (if b != 45 then timeP (b :: t) else none) = none := by
  have body_facts : ∀ body, DecParts body →
      (∃ d t, body ++ T = d :: t ∧ isDigitB d = true) ∧ dateP (body ++ T) = none ∧ timeP (body ++ T) = none := by
    intro body hp
    obtain ⟨b, ip, fp, rfl, hip, hfp⟩ := hp
    have htl : NumTail (fp ++ T) := by
      rcases hfp with rfl | ⟨c, fr, rfl, _⟩
      · simpa using hT.tail
      · intro x r e
        simp only [List.cons_append, List.cons.injEq] at e
        rw [← e.1]; decide
    refine ⟨⟨b, ip ++ fp ++ T, by simp, hip b (by simp)⟩, ?_, ?_⟩
    · rw [List.append_assoc]; exact dateP_none _ _ hip htl
    · rw [List.append_assoc]; exact timeP_none _ _ hip htl
  unfold strictDec at h
  split at h
  · rename_i body
    obtain ⟨⟨d, t, e, hd⟩, _, _⟩ := body_facts body (strictBody_parts h)
    refine ⟨45, body ++ T, rfl, by decide, ?_, dateP_minus _, by simp⟩
    rw [e]
    have : d ≠ 73 := by intro e; subst e; revert hd; decide
    simp [this]
  · rename_i body _
    obtain ⟨⟨d, t, e, hd⟩, h1, h2⟩ := body_facts tb (strictBody_parts h)
    have h45 := digit_ne_45 hd
    refine ⟨d, t, e, by simp [hd], by simp [h45], by rw [← e]; exact h1, ?_⟩
    rw [← e]; simp [h45, h2]

/-- **number**: strict decimal text, database unit, any delimiter -/
theorem scalar_num_finite (f : Nat) (tb : List UInt8) (hs : strictDec tb = true) (uo : Option (List Char))
    (hu : unitOk uo = true) (rest : List UInt8) (hd : Delim rest) :
    scalar (f + 1) (tb ++ (unitBytes uo ++ rest)) =
      some (.num { v := { bits := specBits, txt := chars tb }, unit := uo }, rest) := by
  cases uo with
  | none =>
    simp only [unitBytes, List.nil_append]
    have hT := afterNum_delim hd
    obtain ⟨b, t, e, hb, hinf, hdate, htime⟩ := strict_facts tb hs rest hT
    have hdec := decimal_rt true tb hs rest hT.cont (fun _ => hT.noexp)
    rw [e] at hdec ⊢
    exact scalar_num_nounit f b t hb hinf hdate htime tb rest hdec (span_unit_none rest hd)
  | some u =>
    simp only [unitBytes]
    have hT := afterNum_unit u hu rest hd
    obtain ⟨b, t, e, hb, hinf, hdate, htime⟩ := strict_facts tb hs _ hT
    have hdec := decimal_rt true tb hs _ hT.cont (fun _ => hT.noexp)
    rw [e] at hdec ⊢
    have hu' := hu
    simp only [unitOk, Bool.and_eq_true, Bool.not_eq_eq_eq_not, Bool.not_true, List.isEmpty_eq_false_iff,
      beq_iff_eq] at hu'
    exact scalar_num_unit f b t hb hinf hdate htime tb _ hdec (encChars u) rest (span_unit u hu rest hd)
      hu'.1.1.1.1 u (by rw [text, lossy_encChars]; exact hu'.2)

/-! ### coordinates -/

theorem strict_first {tb : List UInt8} (h : strictDec tb = true) :
    ∃ b t, tb = b :: t ∧ (isDigitB b || b == 45) = true := by
  obtain ⟨b, t, e, hb, _⟩ := strict_facts tb h [] (afterNum_delim (Or.inl rfl))
  exact ⟨b, t, by simpa using e, hb⟩

theorem first_nows : ∀ b : UInt8, (!(isDigitB b || b == 45) || (b != 32 && b != 9)) = true :=
  all_u8 (fun b => (!(isDigitB b || b == 45) || (b != 32 && b != 9))) (by decide +kernel)

theorem skipWs_strict {tb : List UInt8} (h : strictDec tb = true) (T : List UInt8) : skipWs (tb ++ T) = tb ++ T := by
  obtain ⟨b, t, rfl, hb⟩ := strict_first h
  have := first_nows b
  simp only [hb, Bool.not_true, Bool.false_or, Bool.and_eq_true, bne_iff_ne, ne_eq] at this
  exact skipWs_cons this.1 this.2

/-- **coord**: `C(lat,lng)` with strict decimal components, any following input -/
theorem scalar_coord (f : Nat) (la lo : List UInt8) (hla : strictDec la = true) (hlo : strictDec lo = true)
    (rest : List UInt8) :
    scalar (f + 1) (67 :: 40 :: (la ++ 44 :: (lo ++ 41 :: rest))) =
      some (.coord { bits := specBits, txt := chars la } { bits := specBits, txt := chars lo }, rest) := by
  have hsp : span isIdChar (67 :: 40 :: (la ++ 44 :: (lo ++ 41 :: rest))) = ([67], 40 :: (la ++ 44 :: (lo ++ 41 :: rest))) := by
    rw [isIdChar_fun]
    exact span_all isLitB [67] _ (by decide) (Stop_cons (by decide))
  have h1 := decimal_rt false la hla (44 :: (lo ++ 41 :: rest)) (Stop_cons (by decide)) (fun h => by cases h)
  have h2 := decimal_rt false lo hlo (41 :: rest) (Stop_cons (by decide)) (fun h => by cases h)
  rw [scalar.eq_def]
  simp only [hsp]
  simp [isUpper, skipWs_strict hla, skipWs_strict hlo, h1, h2, skipWs_cons]

end Hs.Spec
