/-
  Hs.Lemmas.HaysonRead1 — reading one Hayson object whose members stand in any order: the visitor's
  outcome is the outcome on the members in the order the specification lists them (`fromJson_obj_of_perm`),
  and the scalar kinds (number, ref, symbol, uri, date, time, dateTime, coord, xstr) evaluated on that order.
-/
import Hs.Spec.HaysonDenote
import Hs.Lemmas.HaysonVisit
set_option linter.unusedSimpArgs false
namespace Hs.Spec.Hayson
open Hs Hs.Hayson

/-- the listed members with their values decoded -/
def decView (L : Mems) : List (List Char × Res Val) := L.map (fun p => (p.1, fromJson p.2))

/-- **any member order**: an object whose members are a reordering of `L` (distinct names, every value
decodes, `_kind` — if present — not one of the early-return kinds marker/remove/na) is decoded like `L` in
the listed order -/
theorem fromJson_obj_of_perm (ms : Members) (L : Mems) (hp : ms.toList.Perm L)
    (hd : (L.map (·.1)).Nodup)
    (hne : ∀ p ∈ L, p.1 = s "_kind" → isEarly (fromJson p.2) = false)
    (hok : ∀ p ∈ L, ∃ v, fromJson p.2 = .ok v) :
    fromJson (.obj ms) = runR (decView L) [] [] := by
  rw [fromJson_obj, view_eq_map]
  have hp' : (decView L).Perm (ms.toList.map (fun p => (p.1, fromJson p.2))) := (hp.symm).map _
  have hn : ((decView L).map (·.1)).Nodup := by
    simpa [decView, List.map_map, Function.comp_def] using hd
  have hh : OrderHyp (decView L) := by
    intro p hp
    obtain ⟨q, hq, e⟩ := List.mem_map.mp hp
    subst e
    exact ⟨Or.inl (hok q hq), hne q hq⟩
  exact (runR_perm hp' hn hh [] []).symm

/-- `"_kind": kind` with a kind that is not marker/remove/na, beside members not named `_kind` -/
theorem noEarly_kindMems (kind : String) (rest : Mems)
    (hk : isEarly (.ok (.str (s kind))) = false) (hr : ∀ p ∈ rest, p.1 ≠ s "_kind") :
    ∀ p ∈ kindMem kind :: rest, p.1 = s "_kind" → isEarly (fromJson p.2) = false := by
  intro p hp hpk
  rcases List.mem_cons.mp hp with e | hp
  · subst e; simpa [kindMem, fromJson] using hk
  · exact absurd hpk (hr p hp)

theorem noEarly_noKind (L : Mems) (hr : ∀ p ∈ L, p.1 ≠ s "_kind") :
    ∀ p ∈ L, p.1 = s "_kind" → isEarly (fromJson p.2) = false :=
  fun p hp hk => absurd hk (hr p hp)

theorem numTok_decodes {f : Flt} {j : Json} (h : NumTok f j) :
    fromJson j = .ok (.num { v := f, unit := none }) := by
  cases h <;> simp [fromJson]

/-! ### scalar kinds -/

theorem read_number {f : Flt} {jv : Json} {u : Option (List Char)} {um : Mems} {ms : Members}
    (hv : NumVal f jv) (hu : OptUnit u um) (hp : ms.toList.Perm (kindMem "number" :: (s "val", jv) :: um)) :
    fromJson (.obj ms) = .ok (.num { v := f, unit := u }) := by
  cases hu with
  | absent =>
    rw [fromJson_obj_of_perm ms _ hp (by simp [kindMem, s])
      (noEarly_kindMems "number" _ (by decide) (by simp [s]))
      (by
        intro p hp
        simp at hp
        rcases hp with e | e
        · subst e; simp [kindMem, fromJson]
        · subst e
          cases hv with
          | tok h => exact ⟨_, numTok_decodes h⟩
          | inf => simp [fromJson]
          | negInf => simp [fromJson]
          | nan => simp [fromJson])]
    cases hv with
    | tok h =>
      simp [decView, kindMem, fromJson, numTok_decodes h, runR, kindStep, s, knownKinds, insertTag, finish,
        getStr, getTag, getNum]
    | inf =>
      simp [decView, kindMem, fromJson, runR, kindStep, s, knownKinds, insertTag, finish, getStr, getTag, getNum]
    | negInf =>
      simp [decView, kindMem, fromJson, runR, kindStep, s, knownKinds, insertTag, finish, getStr, getTag, getNum]
    | nan =>
      simp [decView, kindMem, fromJson, runR, kindStep, s, knownKinds, insertTag, finish, getStr, getTag, getNum]
  | present id sym hsym =>
    rw [fromJson_obj_of_perm ms _ hp (by simp [kindMem, s])
      (noEarly_kindMems "number" _ (by decide) (by simp [s]))
      (by
        intro p hp
        simp at hp
        rcases hp with e | e | e
        · subst e; simp [kindMem, fromJson]
        · subst e
          cases hv with
          | tok h => exact ⟨_, numTok_decodes h⟩
          | inf => simp [fromJson]
          | negInf => simp [fromJson]
          | nan => simp [fromJson]
        · subst e; simp [fromJson])]
    cases hv with
    | tok h =>
      simp [decView, kindMem, fromJson, numTok_decodes h, runR, kindStep, s, knownKinds, insertTag, leChars, finish,
        getStr, getTag, getNum, hsym]
    | inf =>
      simp [decView, kindMem, fromJson, runR, kindStep, s, knownKinds, insertTag, leChars, finish, getStr, getTag,
        getNum, hsym]
    | negInf =>
      simp [decView, kindMem, fromJson, runR, kindStep, s, knownKinds, insertTag, leChars, finish, getStr, getTag,
        getNum, hsym]
    | nan =>
      simp [decView, kindMem, fromJson, runR, kindStep, s, knownKinds, insertTag, leChars, finish, getStr, getTag,
        getNum, hsym]

theorem read_ref {id : List Char} {dis : Option (List Char)} {dm : Mems} {ms : Members}
    (hd : OptStr "dis" dis dm) (hp : ms.toList.Perm (kindMem "ref" :: (s "val", .str id) :: dm)) :
    fromJson (.obj ms) = .ok (.ref id dis) := by
  cases hd with
  | absent =>
    rw [fromJson_obj_of_perm ms _ hp (by simp [kindMem, s])
      (noEarly_kindMems "ref" _ (by decide) (by simp [s]))
      (by intro p hp; simp at hp; rcases hp with e | e <;> subst e <;> simp [kindMem, fromJson])]
    simp [decView, kindMem, fromJson, runR, kindStep, s, knownKinds, insertTag, leChars, finish, getStr, getTag]
  | present x =>
    rw [fromJson_obj_of_perm ms _ hp (by simp [kindMem, s])
      (noEarly_kindMems "ref" _ (by decide) (by simp [s]))
      (by intro p hp; simp at hp; rcases hp with e | e | e <;> subst e <;> simp [kindMem, fromJson])]
    simp [decView, kindMem, fromJson, runR, kindStep, s, knownKinds, insertTag, leChars, finish, getStr, getTag]

theorem read_symbol {x : List Char} {ms : Members}
    (hp : ms.toList.Perm [kindMem "symbol", (s "val", .str x)]) : fromJson (.obj ms) = .ok (.sym x) := by
  rw [fromJson_obj_of_perm ms _ hp (by simp [kindMem, s])
      (noEarly_kindMems "symbol" _ (by decide) (by simp [s]))
    (by intro p hp; simp at hp; rcases hp with e | e <;> subst e <;> simp [kindMem, fromJson])]
  simp [decView, kindMem, fromJson, runR, kindStep, s, knownKinds, insertTag, leChars, finish, getStr, getTag]

theorem read_uri {x : List Char} {ms : Members}
    (hp : ms.toList.Perm [kindMem "uri", (s "val", .str x)]) : fromJson (.obj ms) = .ok (.uri x) := by
  rw [fromJson_obj_of_perm ms _ hp (by simp [kindMem, s])
      (noEarly_kindMems "uri" _ (by decide) (by simp [s]))
    (by intro p hp; simp at hp; rcases hp with e | e <;> subst e <;> simp [kindMem, fromJson])]
  simp [decView, kindMem, fromJson, runR, kindStep, s, knownKinds, insertTag, leChars, finish, getStr, getTag]

theorem read_date {x : List Char} {ms : Members}
    (hp : ms.toList.Perm [kindMem "date", (s "val", .str x)]) : fromJson (.obj ms) = .ok (lexDate x) := by
  rw [fromJson_obj_of_perm ms _ hp (by simp [kindMem, s])
      (noEarly_kindMems "date" _ (by decide) (by simp [s]))
    (by intro p hp; simp at hp; rcases hp with e | e <;> subst e <;> simp [kindMem, fromJson])]
  simp [decView, kindMem, fromJson, runR, kindStep, s, knownKinds, insertTag, leChars, finish, getStr, getTag]

theorem read_time {x : List Char} {ms : Members}
    (hp : ms.toList.Perm [kindMem "time", (s "val", .str x)]) : fromJson (.obj ms) = .ok (lexTime x) := by
  rw [fromJson_obj_of_perm ms _ hp (by simp [kindMem, s])
      (noEarly_kindMems "time" _ (by decide) (by simp [s]))
    (by intro p hp; simp at hp; rcases hp with e | e <;> subst e <;> simp [kindMem, fromJson])]
  simp [decView, kindMem, fromJson, runR, kindStep, s, knownKinds, insertTag, leChars, finish, getStr, getTag]

theorem read_dateTime {x : List Char} {tz : Option (List Char)} {zm : Mems} {ms : Members}
    (hz : OptStr "tz" tz zm) (hp : ms.toList.Perm (kindMem "dateTime" :: (s "val", .str x) :: zm)) :
    fromJson (.obj ms) = .ok (lexDateTime x tz) := by
  cases hz with
  | absent =>
    rw [fromJson_obj_of_perm ms _ hp (by simp [kindMem, s])
      (noEarly_kindMems "dateTime" _ (by decide) (by simp [s]))
      (by intro p hp; simp at hp; rcases hp with e | e <;> subst e <;> simp [kindMem, fromJson])]
    simp [decView, kindMem, fromJson, runR, kindStep, s, knownKinds, insertTag, leChars, finish, getStr, getTag]
  | present z =>
    rw [fromJson_obj_of_perm ms _ hp (by simp [kindMem, s])
      (noEarly_kindMems "dateTime" _ (by decide) (by simp [s]))
      (by intro p hp; simp at hp; rcases hp with e | e | e <;> subst e <;> simp [kindMem, fromJson])]
    simp [decView, kindMem, fromJson, runR, kindStep, s, knownKinds, insertTag, leChars, finish, getStr, getTag]

theorem read_coord {a b : Flt} {ja jb : Json} {ms : Members} (ha : NumTok a ja) (hb : NumTok b jb)
    (hp : ms.toList.Perm [kindMem "coord", (s "lat", ja), (s "lng", jb)]) :
    fromJson (.obj ms) = .ok (.coord a b) := by
  rw [fromJson_obj_of_perm ms _ hp (by simp [kindMem, s])
      (noEarly_kindMems "coord" _ (by decide) (by simp [s]))
    (by
      intro p hp
      simp at hp
      rcases hp with e | e | e
      · subst e; simp [kindMem, fromJson]
      · subst e; exact ⟨_, numTok_decodes ha⟩
      · subst e; exact ⟨_, numTok_decodes hb⟩)]
  simp [decView, kindMem, fromJson, numTok_decodes ha, numTok_decodes hb, runR, kindStep, s, knownKinds, insertTag,
    leChars, finish, getNum, getTag]

theorem read_xstr {ty x : List Char} {ms : Members}
    (hp : ms.toList.Perm [kindMem "xstr", (s "type", .str ty), (s "val", .str x)]) :
    fromJson (.obj ms) = .ok (.xstr ty x) := by
  rw [fromJson_obj_of_perm ms _ hp (by simp [kindMem, s])
      (noEarly_kindMems "xstr" _ (by decide) (by simp [s]))
    (by intro p hp; simp at hp; rcases hp with e | e | e <;> subst e <;> simp [kindMem, fromJson])]
  simp [decView, kindMem, fromJson, runR, kindStep, s, knownKinds, insertTag, leChars, finish, getStr, getTag]

end Hs.Spec.Hayson
