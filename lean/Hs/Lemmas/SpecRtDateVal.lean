/-
  C04 (write direction), rung 4b: dates, times, timestamps: from the well-formedness predicates (`dateOk`, `timeOk`,
  `dtOk`) to the value the reference reader returns.
-/
import Hs.Lemmas.SpecRtDate
namespace Hs.Spec
open Hs Hs.Zinc Hs.Scan

theorem scalar_date (f : Nat) (d : Date) (hok : dateOk d = true) (rest : List UInt8) (hd : Delim rest) :
    scalar (f + 1) (encChars d.txt ++ rest) = some (.date d, rest) := by
  simp only [dateOk, Bool.and_eq_true] at hok
  obtain ⟨hasc, hm⟩ := hok
  rw [encChars_all_ascii hasc]
  split at hm
  · rename_i y0 y1 y2 y3 m0 m1 d0 d1 heq
    simp only [Bool.and_eq_true, beq_iff_eq] at hm
    obtain ⟨⟨⟨⟨⟨⟨⟨⟨hy0, hy1⟩, hy2⟩, hy3⟩, hm0⟩, hm1⟩, hd0⟩, hd1⟩, hmk⟩ := hm
    rw [heq]
    simp only [List.cons_append, List.nil_append]
    exact scalar_date_core f y0 _ hy0 d rest (dateP_rt y0 y1 y2 y3 m0 m1 d0 d1 hy0 hy1 hy2 hy3 hm0 hm1 hd0 hd1 d hmk rest)
      (delim_not_T hd)
  · simp at hm

theorem dateP_time_shape (h0 h1 : UInt8) (r : List UInt8) : dateP (h0 :: h1 :: 58 :: r) = none := by
  unfold dateP
  cases h4 : four (h0 :: h1 :: 58 :: r) with
  | none => rfl
  | some p =>
    obtain ⟨y, r'⟩ := p
    obtain ⟨a, b, c, d, e, _, _, hc, _⟩ := four_some h4
    simp only [List.cons.injEq] at e
    rw [← e.2.2.1] at hc; exact absurd hc (by decide)

theorem scalar_time (f : Nat) (t : Time) (hok : timeOk t = true) (rest : List UInt8) (hd : Delim rest) :
    scalar (f + 1) (encChars t.txt ++ rest) = some (.time t, rest) := by
  simp only [timeOk, Bool.and_eq_true] at hok
  obtain ⟨hasc, hm⟩ := hok
  rw [encChars_all_ascii hasc]
  split at hm
  · rename_i h0 h1 m0 m1 s0 s1 tl heq
    simp only [Bool.and_eq_true] at hm
    obtain ⟨⟨⟨⟨⟨⟨hh0, hh1⟩, hm0⟩, hm1⟩, hs0⟩, hs1⟩, htl⟩ := hm
    rw [heq]
    simp only [List.cons_append]
    refine scalar_time_core f h0 _ hh0 (dateP_time_shape h0 h1 _) t rest ?_
    split at htl
    · simp only [beq_iff_eq] at htl
      simp only [List.nil_append]
      exact timeP_nofrac h0 h1 m0 m1 s0 s1 hh0 hh1 hm0 hm1 hs0 hs1 t htl rest (delim_not_dot hd)
    · rename_i f0 fr
      simp only [Bool.and_eq_true, beq_iff_eq, List.all_eq_true] at htl
      simp only [List.cons_append]
      exact timeP_frac h0 h1 m0 m1 s0 s1 hh0 hh1 hm0 hm1 hs0 hs1 f0 fr htl.1 t htl.2 rest (delim_stop_digit hd)
    · simp at htl
  · simp at hm

theorem zone_head {z : List UInt8} (hz : zoneOk z = true) :
    ∃ z0 zr, z = z0 :: zr ∧ isDigitB z0 = false ∧ z0 ≠ 46 := by
  unfold zoneOk at hz
  split at hz
  · exact ⟨90, [], rfl, by decide, by decide⟩
  · exact ⟨90, _, rfl, by decide, by decide⟩
  · rename_i _ sg o0 o1 o2 o3 name _
    simp only [Bool.and_eq_true, Bool.or_eq_true, beq_iff_eq] at hz
    rcases hz.1.1.1.1.1.1 with rfl | rfl
    · exact ⟨43, _, rfl, by decide, by decide⟩
    · exact ⟨45, _, rfl, by decide, by decide⟩
  · simp at hz

theorem take_prefix (w rest : List UInt8) : (w ++ rest).take ((w ++ rest).length - rest.length) = w := by
  simp

/-- **timestamp**: the token text comes back -/
theorem scalar_datetime_bytes (f : Nat) (w : List UInt8) (hok : dtBytesOk w = true) (rest : List UInt8)
    (hd : Delim rest) :
    scalar (f + 1) (w ++ rest) = some (dtVal (chars w), rest) := by
  have hfin : ∀ (b : UInt8) (t : List UInt8), w ++ rest = b :: t →
      scalar (f + 1) (b :: t) = some (dtVal (chars ((b :: t).take ((b :: t).length - rest.length))), rest) →
      scalar (f + 1) (w ++ rest) = some (dtVal (chars w), rest) := by
    intro b t e h
    rw [← e, take_prefix] at h
    exact h
  unfold dtBytesOk at hok
  split at hok
  · rename_i y0 y1 y2 y3 m0 m1 d0 d1 h0 h1 i0 i1 s0 s1 tl
    simp only [Bool.and_eq_true] at hok
    obtain ⟨⟨⟨⟨⟨⟨⟨⟨⟨⟨⟨⟨⟨⟨⟨hy0, hy1⟩, hy2⟩, hy3⟩, hm0⟩, hm1⟩, hd0⟩, hd1⟩, hh0⟩, hh1⟩, hi0⟩, hi1⟩, hs0⟩, hs1⟩, hmk⟩, htl⟩ := hok
    obtain ⟨d, hd'⟩ := Option.isSome_iff_exists.mp hmk
    refine hfin y0 (y1 :: y2 :: y3 :: 45 :: m0 :: m1 :: 45 :: d0 :: d1 :: 84 :: h0 :: h1 :: 58 :: i0 :: i1 :: 58 ::
      s0 :: s1 :: (tl ++ rest)) (by simp) ?_
    have hdate := dateP_rt y0 y1 y2 y3 m0 m1 d0 d1 hy0 hy1 hy2 hy3 hm0 hm1 hd0 hd1 d hd'
      (84 :: h0 :: h1 :: 58 :: i0 :: i1 :: 58 :: s0 :: s1 :: (tl ++ rest))
    split at htl
    · rename_i f0 more
      simp only [Bool.and_eq_true] at htl
      obtain ⟨⟨hf0, hmt⟩, hz⟩ := htl
      obtain ⟨tm, htm⟩ := Option.isSome_iff_exists.mp hmt
      have hsplit : more = more.takeWhile isDigitB ++ more.dropWhile isDigitB := (List.takeWhile_append_dropWhile).symm
      have hfr : ∀ b ∈ f0 :: more.takeWhile isDigitB, isDigitB b = true := by
        intro b hb
        simp only [List.mem_cons] at hb
        rcases hb with rfl | hb
        · exact hf0
        · have := List.all_takeWhile (p := isDigitB) (l := more)
          rw [List.all_eq_true] at this
          exact this b hb
      obtain ⟨z0, zr, ez, hz0, _⟩ := zone_head hz
      have hst : Stop isDigitB (more.dropWhile isDigitB ++ rest) := by
        rw [ez]; exact Stop_cons hz0
      have htime := timeP_frac h0 h1 i0 i1 s0 s1 hh0 hh1 hi0 hi1 hs0 hs1 f0 (more.takeWhile isDigitB) hfr tm htm
        (more.dropWhile isDigitB ++ rest) hst
      have hzone := zoneP_rt _ hz rest hd
      have e1 : (46 :: f0 :: more ++ rest) = 46 :: f0 :: (more.takeWhile isDigitB ++ (more.dropWhile isDigitB ++ rest)) := by
        rw [← List.append_assoc, ← hsplit]; rfl
      rw [← e1] at htime
      exact scalar_datetime_core f y0 _ hy0 d _ hdate tm _ htime rest hzone
    · simp only [Bool.and_eq_true] at htl
      obtain ⟨tm, htm⟩ := Option.isSome_iff_exists.mp htl.1
      obtain ⟨z0, zr, ez, _, hz46⟩ := zone_head htl.2
      have htime := timeP_nofrac h0 h1 i0 i1 s0 s1 hh0 hh1 hi0 hi1 hs0 hs1 tm htm (tl ++ rest)
        (by rw [ez]; intro r e; simp only [List.cons_append, List.cons.injEq] at e; exact hz46 e.1)
      have hzone := zoneP_rt _ htl.2 rest hd
      exact scalar_datetime_core f y0 _ hy0 d _ hdate tm _ htime rest hzone
  · simp at hok

theorem scalar_datetime (f : Nat) (t : DateTime) (hok : dtOk t = true) (rest : List UInt8) (hd : Delim rest) :
    scalar (f + 1) (encDateTime t ++ rest) = some (dtVal (dtText t), rest) := by
  simp only [dtOk, Bool.and_eq_true] at hok
  rw [encDateTime_eq, encChars_all_ascii hok.1, scalar_datetime_bytes f _ hok.2 rest hd,
    chars_map_byteOf (all_ascii_mem hok.1)]

end Hs.Spec
