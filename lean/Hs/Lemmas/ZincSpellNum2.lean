/-
  C04 read direction, numbers (2): `parse_number` on a spelled decimal with optional exponent and unit.
-/
import Hs.Lemmas.ZincSpellNum
namespace Hs.Zinc
open Hs Hs.Scan Hs.Spell

/-! ### `parse_number` in stages -/

/-- the exponent stage of `parse_number` -/
def afterExpF (fuel : Nat) (s1 : Scan) : Res (Option (List UInt8 × List UInt8) × Scan) :=
  if !s1.eof && (s1.cur == 101 || s1.cur == 69) then
    match s1.peek with
    | (Option.none, _) => .err
    | (some nx, s2) =>
      if nx == 43 || nx == 45 || isDigitB nx then
        match parseExponent fuel s2 with
        | .ok (e, s3) => .ok (some e, s3)
        | .err => .err | .panic => .panic | .diverge => .diverge | .depth => .depth
      else .ok (Option.none, s2)
  else .ok (Option.none, s1)

/-- the unit stage of `parse_number` -/
def afterUnitF (fuel : Nat) (s3 : Scan) : Res (Option (List Char) × Scan) :=
  if !s3.eof && isUnitChar s3 then
    match unitLoop fuel s3 [] with
    | .ok (ub, s4) =>
      match unitSymbol (lossy ub) with
      | some sym => .ok (some sym, s4)
      | Option.none => .err
    | .err => .err | .panic => .panic | .diverge => .diverge | .depth => .depth
  else .ok (Option.none, s3)

theorem parseNumber_eq (fuel : Nat) (s : Scan) : parseNumber fuel s =
    (match parseDecimal fuel s with
     | .ok (dec, s1) =>
       match afterExpF fuel s1 with
       | .ok (exp, s3) =>
         match afterUnitF fuel s3 with
         | .ok (unit, s4) =>
           match exp with
           | some (sign, ex) => if exponentOk sign ex then .ok (mkNum dec exp unit, s4) else .err
           | Option.none => .ok (mkNum dec exp unit, s4)
         | .err => .err | .panic => .panic | .diverge => .diverge | .depth => .depth
       | .err => .err | .panic => .panic | .diverge => .diverge | .depth => .depth
     | .err => .err | .panic => .panic | .diverge => .diverge | .depth => .depth) := rfl

/-! ### what follows the numeral -/

theorem DelimW.stop_dec {rest : List UInt8} (h : DelimW rest) : Stop isDecB rest := h.stop (by decide)
theorem DelimW.stop_unit {rest : List UInt8} (h : DelimW rest) : Stop isUnitB rest := h.stop (by decide)

theorem e_isUnitB {b : UInt8} (h : (b == 101 || b == 69) = true) : isUnitB b = true := by
  simp only [Bool.or_eq_true, beq_iff_eq] at h
  rcases h with rfl | rfl <;> decide

/-- the facts `unitOk` states about a unit symbol -/
theorem unitOk_some {u : List Char} (hu : unitOk (some u) = true) :
    ∃ b0 ub', encChars u = b0 :: ub' ∧ isUnitB b0 = true ∧ b0 ≠ 95 ∧ (∀ b ∈ encChars u, isUnitB b = true) ∧
      ((b0 == 101 || b0 == 69) = true → ∃ y ys, ub' = y :: ys) ∧ unitSymbol u = some u := by
  simp only [unitOk, Bool.and_eq_true, Bool.not_eq_eq_eq_not, Bool.not_true, List.isEmpty_eq_false_iff,
    List.all_eq_true, bne_iff_ne, ne_eq, beq_iff_eq] at hu
  obtain ⟨⟨⟨⟨hne, hall⟩, h95⟩, he1, he2⟩, hsym⟩ := hu
  cases hx : encChars u with
  | nil => exact absurd hx hne
  | cons b0 ub' =>
    refine ⟨b0, ub', rfl, hall b0 (by rw [hx]; simp), ?_, by rw [← hx]; exact hall, ?_, hsym⟩
    · intro e; apply h95; rw [hx, e]; rfl
    · intro hee
      cases ub' with
      | cons y ys => exact ⟨y, ys, rfl⟩
      | nil =>
        exfalso
        simp only [Bool.or_eq_true, beq_iff_eq] at hee
        rcases hee with rfl | rfl
        · exact he1 hx
        · exact he2 hx

theorem stop_dec_unit_rest (uo : Option (List Char)) (hu : unitOk uo = true) (rest : List UInt8) (hd : DelimW rest) :
    Stop isDecB (unitBytes uo ++ rest) := by
  cases uo with
  | none => simpa [unitBytes] using hd.stop_dec
  | some u =>
    obtain ⟨b0, ub', hub, hb0, hb0', _, _, _⟩ := unitOk_some hu
    simp only [unitBytes, hub, List.cons_append]
    apply Stop_cons
    have := unit_not_dec b0
    simp only [hb0, Bool.not_true, Bool.false_or, Bool.or_eq_true, beq_iff_eq, hb0', false_or,
      Bool.not_eq_eq_eq_not] at this
    exact this

theorem afterDec_unit_restW (uo : Option (List Char)) (hu : unitOk uo = true) (rest : List UInt8) (hd : DelimW rest) :
    AfterDec (unitBytes uo ++ rest) := by
  intro x r hx
  cases uo with
  | none =>
    simp only [unitBytes, List.nil_append] at hx
    have h1 := hd.stop_digit x r hx
    exact ⟨h1, fun e => hd.head_ne 58 (by decide) r (by rw [hx, e]),
      fun e => hd.head_ne 45 (by decide) r (by rw [hx, e])⟩
  | some u =>
    obtain ⟨b0, ub', hub, hb0, _, _, _, _⟩ := unitOk_some hu
    simp only [unitBytes, hub, List.cons_append, List.cons.injEq] at hx
    have := unit_afterdec b0
    rw [← hx.1]
    simp only [hb0, Bool.not_true, Bool.false_or, Bool.and_eq_true, bne_iff_ne, ne_eq,
      Bool.not_eq_eq_eq_not] at this
    exact ⟨this.1.1, this.1.2, this.2⟩

/-! ### the exponent stage when there is no exponent -/

theorem afterExp_noexp (uo : Option (List Char)) (hu : unitOk uo = true) (rest : List UInt8) (hd : DelimW rest)
    (fuel : Nat) (s1 : Scan) (h : At s1 (unitBytes uo ++ rest)) (hs : s1.stash = []) :
    ∃ s2, afterExpF fuel s1 = .ok (Option.none, s2) ∧ At s2 (unitBytes uo ++ rest) ∧
      s2.stash.length ≤ (unitBytes uo).length := by
  cases uo with
  | none =>
    simp only [unitBytes, List.nil_append, List.length_nil] at h ⊢
    refine ⟨s1, ?_, h, by simp [hs]⟩
    cases rest with
    | nil => simp [afterExpF, At.eof_nil h]
    | cons b r =>
      have hb : (b == 101 || b == 69) = false := by
        cases hx : (b == 101 || b == 69) with
        | false => rfl
        | true => have := hd.stop_unit b r rfl; rw [e_isUnitB hx] at this; cases this
      simp [afterExpF, h.eof, h.cur, hb]
  | some u =>
    obtain ⟨b0, ub', hub, hb0, _, hall, hnext, _⟩ := unitOk_some hu
    simp only [unitBytes] at h ⊢
    have h' := h
    rw [hub, List.cons_append] at h'
    by_cases hee : (b0 == 101 || b0 == 69) = true
    · obtain ⟨y, ys, rfl⟩ := hnext hee
      simp only [List.cons_append] at h'
      obtain ⟨s2, e2, hat2, hs2, _, _⟩ := h'.peek0' hs
      have hy : isUnitB y = true := hall y (by rw [hub]; simp)
      have hxn : (y == 43 || y == 45 || isDigitB y) = false := by
        have := unit_not_expnext y
        simp only [hy, Bool.not_true, Bool.false_or, Bool.and_eq_true, bne_iff_ne, ne_eq,
          Bool.not_eq_eq_eq_not] at this
        simp [this.1.1, this.1.2, this.2]
      refine ⟨s2, ?_, by rw [hub]; simpa using hat2, by rw [hs2, hub]; simp⟩
      simp [afterExpF, h'.eof, h'.cur, hee, e2, hxn]
    · simp only [Bool.not_eq_true] at hee
      refine ⟨s1, ?_, h, by simp [hs]⟩
      simp [afterExpF, h'.eof, h'.cur, hee]

/-! ### the unit stage -/

theorem afterUnit_rt (uo : Option (List Char)) (hu : unitOk uo = true) (rest : List UInt8) (hd : DelimW rest)
    (fuel : Nat) (s3 : Scan) (h : At s3 (unitBytes uo ++ rest)) (hf : (unitBytes uo).length < fuel) :
    afterUnitF fuel s3 = .ok (uo, advN (unitBytes uo).length s3) := by
  cases uo with
  | none =>
    simp only [unitBytes, List.nil_append, List.length_nil, advN] at h ⊢
    cases rest with
    | nil => simp [afterUnitF, At.eof_nil h]
    | cons b r =>
      have := hd.stop_unit b r rfl
      simp [afterUnitF, h.eof, isUnitChar_eq, h.cur, this]
  | some u =>
    obtain ⟨b0, ub', hub, hb0, _, hall, _, hsym⟩ := unitOk_some hu
    simp only [unitBytes] at h hf ⊢
    have e := unitLoop_rt (encChars u) hall s3 rest fuel [] h hd.stop_unit hf
    simp only [List.nil_append] at e
    have h' := h
    rw [hub, List.cons_append] at h'
    have hc : isUnitChar s3 = true := by rw [isUnitChar_eq, h'.cur]; exact hb0
    simp [afterUnitF, h'.eof, hc, e, lossy_encChars, hsym]

/-! ### the exponent stage on an exponent -/

theorem validDecimal_digits (ex : List UInt8) (h : ∀ d ∈ ex, isDigitB d = true) (hne : ex ≠ []) :
    validDecimal ex = true := by
  cases ex with
  | nil => exact absurd rfl hne
  | cons d r =>
    rw [validDecimal_pos _ _ (digit_ne_45' (h d (by simp)))]
    exact vbody_int _ h hne

theorem integralDecimal_digits (ex : List UInt8) (h : ∀ d ∈ ex, isDigitB d = true) (hne : ex ≠ []) :
    integralDecimal ex = true := by
  obtain ⟨_, d⟩ := takeWhile_digits ex [] h (Stop_nil _)
  simp only [List.append_nil] at d
  cases ex with
  | nil => exact absurd rfl hne
  | cons d0 r =>
    have h45 : d0 ≠ 45 := digit_ne_45' (h d0 (by simp))
    have : integralDecimal (d0 :: r) =
        (match (d0 :: r).dropWhile isDigitB with
         | [] => true
         | 46 :: fr => fr.all (· == 48)
         | _ => false) := by
      unfold integralDecimal
      split
      · rename_i heq; cases heq; exact absurd rfl h45
      · rfl
    rw [this, d]

theorem exponentOk_digits (sg ex : List UInt8) (h : ∀ d ∈ ex, isDigitB d = true) (hne : ex ≠ []) :
    exponentOk sg ex = true := by
  unfold exponentOk exponentPrintsIntegral
  rw [integralDecimal_digits ex h hne]
  cases ex with
  | nil => exact absurd rfl hne
  | cons d0 r =>
    have h45 : d0 ≠ 45 := digit_ne_45' (h d0 (by simp))
    simp [h45]

theorem parseDecimal_digits (ex exS : List UInt8) (hx : Digits ex exS)
    (s : Scan) (rest : List UInt8) (fuel : Nat) (h : At s (exS ++ rest)) (hst : Stop isDecB rest)
    (hf : exS.length < fuel) :
    parseDecimal fuel s = .ok (ex, advN exS.length s) := by
  obtain ⟨d, r, e⟩ := hx.head'
  have hne : ex ≠ [] := by rw [e.1]; simp
  have := parseDecimal_sp exS hx.dec (by rw [hx.filt]; exact validDecimal_digits ex hx.digits hne) s rest fuel h hst hf
  rw [hx.filt] at this
  exact this

theorem afterExp_exp (e : UInt8) (he : e = 101 ∨ e = 69) (sg : List UInt8) (hsg : ExpSign sg)
    (ex exS : List UInt8) (hx : Digits ex exS) (U : List UInt8) (hst : Stop isDecB U)
    (fuel : Nat) (s1 : Scan) (h : At s1 (e :: (sg ++ (exS ++ U)))) (hs : s1.stash = [])
    (hf : exS.length < fuel) :
    ∃ s3, afterExpF fuel s1 = .ok (some (sg, ex), s3) ∧ At s3 U ∧ s3.stash = [] := by
  obtain ⟨d0, r0, e0, hd0, _⟩ := hx.head
  have hee : (e == 101 || e == 69) = true := by rcases he with rfl | rfl <;> decide
  have hd43 : (d0 == 43) = false := by
    cases hx : (d0 == 43) with
    | false => rfl
    | true => rw [beq_iff_eq] at hx; subst hx; revert hd0; decide
  have hd45 : (d0 == 45) = false := by simpa using digit_ne_45' hd0
  rcases hsg with rfl | rfl | rfl
  · -- no sign
    simp only [List.nil_append] at h
    have h' := h
    rw [e0, List.cons_append] at h'
    obtain ⟨s2, e2, hat2, hs2, _, _⟩ := h'.peek0' hs
    have hat2' : At s2 (e :: (exS ++ U)) := by rw [e0]; exact hat2
    have ha := hat2'.advance
    have ha' := hat2.advance
    have hsa : s2.advance.stash = [] := advance_stash_nil (by omega)
    have ed := parseDecimal_digits ex exS hx s2.advance U fuel ha hst hf
    refine ⟨advN exS.length s2.advance, ?_, ha.advN, advN_stash_nil _ _ hsa⟩
    simp [afterExpF, h'.eof, h'.cur, hee, e2, hd0, parseExponent, hat2.cur, ha'.cur, hd43, hd45, ed]
  · -- `+`
    simp only [List.cons_append, List.nil_append] at h
    obtain ⟨s2, e2, hat2, hs2, _, _⟩ := h.peek0' hs
    have ha := hat2.advance
    have hsa : s2.advance.stash = [] := advance_stash_nil (by omega)
    have ha' := ha
    rw [e0, List.cons_append] at ha'
    have hb := ha.advance
    have hsb : s2.advance.advance.stash = [] := by rw [At.advance_stash, hsa]; rfl
    have ed := parseDecimal_digits ex exS hx s2.advance.advance U fuel hb hst hf
    refine ⟨advN exS.length s2.advance.advance, ?_, hb.advN, advN_stash_nil _ _ hsb⟩
    simp [afterExpF, h.eof, h.cur, hee, e2, parseExponent, hat2.cur, ha.cur, ha'.readQ, ed]
  · -- `-`
    simp only [List.cons_append, List.nil_append] at h
    obtain ⟨s2, e2, hat2, hs2, _, _⟩ := h.peek0' hs
    have ha := hat2.advance
    have hsa : s2.advance.stash = [] := advance_stash_nil (by omega)
    have ha' := ha
    rw [e0, List.cons_append] at ha'
    have hb := ha.advance
    have hsb : s2.advance.advance.stash = [] := by rw [At.advance_stash, hsa]; rfl
    have ed := parseDecimal_digits ex exS hx s2.advance.advance U fuel hb hst hf
    refine ⟨advN exS.length s2.advance.advance, ?_, hb.advN, advN_stash_nil _ _ hsb⟩
    simp [afterExpF, h.eof, h.cur, hee, e2, parseExponent, hat2.cur, ha.cur, ha'.readQ, ed]

/-! ### `parse_number` on a spelling -/

theorem parseNumber_dec (lex bs : List UInt8) (hsh : DecShape lex bs) (uo : Option (List Char))
    (hu : unitOk uo = true) (s : Scan) (rest : List UInt8) (fuel : Nat)
    (h : At s (bs ++ (unitBytes uo ++ rest))) (hs : s.stash.length ≤ bs.length) (hd : DelimW rest)
    (hf : bs.length + (unitBytes uo).length + 1 ≤ fuel) :
    ∃ s', parseNumber fuel s = .ok (mkNum lex Option.none uo, s') ∧ At s' rest ∧ s'.stash = [] := by
  have hs1 : (advN bs.length s).stash = [] := by
    rw [advN_stash]; exact List.drop_eq_nil_of_le hs
  have h1 : At (advN bs.length s) (unitBytes uo ++ rest) := h.advN
  have e1 := hsh.parse s _ fuel h (stop_dec_unit_rest uo hu rest hd) (by omega)
  obtain ⟨s2, e2, h2, hs2⟩ := afterExp_noexp uo hu rest hd fuel _ h1 hs1
  have e3 := afterUnit_rt uo hu rest hd fuel s2 h2 (by omega)
  refine ⟨advN (unitBytes uo).length s2, ?_, h2.advN, ?_⟩
  · rw [parseNumber_eq, e1]
    simp only [e2, e3]
  · rw [advN_stash]; exact List.drop_eq_nil_of_le hs2

theorem parseNumber_exp (lex bs : List UInt8) (hsh : DecShape lex bs) (e : UInt8) (he : e = 101 ∨ e = 69)
    (sg : List UInt8) (hsg : ExpSign sg) (ex exS : List UInt8) (hx : Digits ex exS) (uo : Option (List Char))
    (hu : unitOk uo = true) (s : Scan) (rest : List UInt8) (fuel : Nat)
    (h : At s (bs ++ e :: (sg ++ (exS ++ (unitBytes uo ++ rest))))) (hs : s.stash.length ≤ bs.length)
    (hd : DelimW rest) (hf : bs.length + exS.length + (unitBytes uo).length + 1 ≤ fuel) :
    ∃ s', parseNumber fuel s = .ok (mkNum lex (some (sg, ex)) uo, s') ∧ At s' rest ∧ s'.stash = [] := by
  have hs1 : (advN bs.length s).stash = [] := by
    rw [advN_stash]; exact List.drop_eq_nil_of_le hs
  have h1 : At (advN bs.length s) (e :: (sg ++ (exS ++ (unitBytes uo ++ rest)))) := h.advN
  have hste : Stop isDecB (e :: (sg ++ (exS ++ (unitBytes uo ++ rest)))) :=
    Stop_cons (by rcases he with rfl | rfl <;> decide)
  have e1 := hsh.parse s _ fuel h hste (by omega)
  obtain ⟨s3, e2, h3, hs3⟩ := afterExp_exp e he sg hsg ex exS hx _ (stop_dec_unit_rest uo hu rest hd) fuel _ h1 hs1
    (by omega)
  have e3 := afterUnit_rt uo hu rest hd fuel s3 h3 (by omega)
  obtain ⟨d, r, ed, _⟩ := hx.head'
  have eo := exponentOk_digits sg ex hx.digits (by rw [ed]; simp)
  refine ⟨advN (unitBytes uo).length s3, ?_, h3.advN, advN_stash_nil _ _ hs3⟩
  rw [parseNumber_eq, e1]
  simp only [e2, e3, eo, if_true]

/-! ### the lexer on a spelled number -/

theorem lexRead_dec (lex bs : List UInt8) (hsh : DecShape lex bs) (uo : Option (List Char))
    (hu : unitOk uo = true) (s : Scan) (rest : List UInt8) (fuel : Nat)
    (h : At s (bs ++ (unitBytes uo ++ rest))) (hs : s.stash = []) (hd : DelimW rest)
    (hf : bs.length + (unitBytes uo).length + 2 ≤ fuel) :
    ∃ s', lexRead fuel s = .ok { sc := s', tok := .val (mkNum lex Option.none uo) } ∧ At s' rest ∧ s'.stash = [] := by
  obtain ⟨f, rfl⟩ : ∃ f, fuel = f + 1 := ⟨fuel - 1, by omega⟩
  obtain ⟨s1, e1, h1, hs1⟩ := ndt_number_sp lex bs hsh _ (afterDec_unit_restW uo hu rest hd) s f h hs
  obtain ⟨s', e', h', hs'⟩ := parseNumber_dec lex bs hsh uo hu s1 rest f h1 hs1 hd (by omega)
  refine ⟨s', ?_, h', hs'⟩
  obtain ⟨b0, r0, rfl, hb0⟩ := hsh.first'
  simp only [List.cons_append] at h
  rw [lexRead_ndt h hb0, e1, e']

theorem lexRead_exp (lex bs : List UInt8) (hsh : DecShape lex bs) (e : UInt8) (he : e = 101 ∨ e = 69)
    (sg : List UInt8) (hsg : ExpSign sg) (ex exS : List UInt8) (hx : Digits ex exS) (uo : Option (List Char))
    (hu : unitOk uo = true) (s : Scan) (rest : List UInt8) (fuel : Nat)
    (h : At s (bs ++ e :: (sg ++ (exS ++ (unitBytes uo ++ rest))))) (hs : s.stash = [])
    (hd : DelimW rest) (hf : bs.length + exS.length + (unitBytes uo).length + 2 ≤ fuel) :
    ∃ s', lexRead fuel s = .ok { sc := s', tok := .val (mkNum lex (some (sg, ex)) uo) } ∧ At s' rest ∧
      s'.stash = [] := by
  obtain ⟨f, rfl⟩ : ∃ f, fuel = f + 1 := ⟨fuel - 1, by omega⟩
  have hU : AfterDec (e :: (sg ++ (exS ++ (unitBytes uo ++ rest)))) := by
    intro x r hx
    cases hx
    rcases he with rfl | rfl <;> decide
  obtain ⟨s1, e1, h1, hs1⟩ := ndt_number_sp lex bs hsh _ hU s f h hs
  obtain ⟨s', e', h', hs'⟩ := parseNumber_exp lex bs hsh e he sg hsg ex exS hx uo hu s1 rest f h1 hs1 hd (by omega)
  refine ⟨s', ?_, h', hs'⟩
  obtain ⟨b0, r0, rfl, hb0⟩ := hsh.first'
  simp only [List.cons_append] at h
  rw [lexRead_ndt h hb0, e1, e']

/-! ### `TokW`, `FirstW` for numbers -/

theorem tokW_num (n : Num) (bs : List UInt8) (h : NumSp n bs) (hu : numOkS n = true) :
    TokW bs (.num (lexNumI n)) := by
  cases h with
  | nan h1 =>
    have := tokW_kw ['N', 'a', 'N'] (by decide) _ (by rfl)
    have hE : encChars ['N', 'a', 'N'] = [78, 97, 78] := by decide
    rw [hE] at this
    simpa [lexNumI, h1] using this
  | posInf h1 h2 h3 =>
    have := tokW_kw ['I', 'N', 'F'] (by decide) _ (by rfl)
    have hE : encChars ['I', 'N', 'F'] = [73, 78, 70] := by decide
    rw [hE] at this
    simpa [lexNumI, h1, h2, h3] using this
  | negInf h1 h2 h3 =>
    intro s rest fuel hat hs hd hf
    obtain ⟨s', e, h', hs'⟩ := lexRead_neginf s rest fuel (by simpa using hat) hs (by omega)
    refine ⟨s', ?_, Post.of_clean h' hs'⟩
    rw [e]
    simp [lexNumI, h1, h2, h3]
  | dec h1 h2 lex bs0 hd0 ht =>
    have huo : unitOk n.unit = true := by simpa [numOkS, h1, h2] using hu
    intro s rest fuel hat hs hd hf
    rw [unitText_eq] at hat hf
    simp only [List.length_append] at hf
    obtain ⟨s', e, h', hs'⟩ := lexRead_dec lex bs0 hd0.shape n.unit huo s rest fuel (by simpa using hat) hs hd
      (by omega)
    refine ⟨s', ?_, Post.of_clean h' hs'⟩
    rw [e]
    simp [mkNum, lexNumI, h1, h2, ht, chars_eq]
  | exp h1 h2 lex bs0 hd0 e he sg hsg ex exS hx ht =>
    have huo : unitOk n.unit = true := by simpa [numOkS, h1, h2] using hu
    intro s rest fuel hat hs hd hf
    rw [unitText_eq] at hat hf
    simp only [List.length_append, List.length_cons] at hf
    obtain ⟨s', e', h', hs'⟩ := lexRead_exp lex bs0 hd0.shape e he sg hsg ex exS hx n.unit huo s rest fuel
      (by simpa using hat) hs hd (by omega)
    refine ⟨s', ?_, Post.of_clean h' hs'⟩
    rw [e']
    simp [mkNum, lexNumI, h1, h2, ht, chars_eq]

theorem firstW_of_num {b : UInt8} (r : List UInt8) (hb : (isDigitB b || b == 45) = true) : FirstW (b :: r) := by
  have hd := num_dispatch b
  simp only [hb, Bool.not_true, Bool.false_or, Bool.and_eq_true, bne_iff_ne, ne_eq,
    Bool.not_eq_eq_eq_not] at hd
  refine ⟨b, r, rfl, hd.1.1.1.1.1.1, hd.1.1.1.1.1.2, ?_, ?_⟩
  · intro e; subst e; exact absurd hd.2 (by decide)
  · intro e; subst e; exact absurd hd.2 (by decide)

theorem firstW_decimal {lex bs : List UInt8} (h : Decimal lex bs) (rest : List UInt8) : FirstW (bs ++ rest) := by
  obtain ⟨b, r, rfl, hb⟩ := h.shape.first'
  exact firstW_of_num _ hb

theorem firstW_num (n : Num) (bs : List UInt8) (h : NumSp n bs) : FirstW bs := by
  cases h with
  | nan h1 => exact ⟨78, _, rfl, by decide, by decide, by decide, by decide⟩
  | posInf h1 h2 h3 => exact ⟨73, _, rfl, by decide, by decide, by decide, by decide⟩
  | negInf h1 h2 h3 => exact ⟨45, _, rfl, by decide, by decide, by decide, by decide⟩
  | dec h1 h2 lex bs0 hd0 ht => exact firstW_decimal hd0 _
  | exp h1 h2 lex bs0 hd0 e he sg hsg ex exS hx ht =>
    rw [List.append_assoc]
    exact firstW_decimal hd0 _

end Hs.Zinc
