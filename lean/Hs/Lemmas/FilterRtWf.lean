/-
  C08: the well-formedness predicate of the full property as an executable check.  `wfO f` evaluates
  `AllO2 f` (every term well formed, literals `OkLit2`), so `WF2 f` is decidable and can be
  established for a concrete tree by evaluation.
-/
import Hs.Lemmas.FilterRtParse
namespace Hs.FText
open Hs Hs.Scan Hs.Zinc

instance (p : Path) : Decidable (WFPath p) := by unfold WFPath; exact inferInstance

def Ors.isNil : Ors → Bool
  | .nil => true
  | _ => false
def Ands.isNil : Ands → Bool
  | .nil => true
  | _ => false

theorem Ors.isNil_iff (o : Ors) : o.isNil = false ↔ o ≠ .nil := by cases o <;> simp [Ors.isNil]
theorem Ands.isNil_iff (a : Ands) : a.isNil = false ↔ a ≠ .nil := by cases a <;> simp [Ands.isNil]

mutual
/-- `OkT2` as a check -/
def wfT : Term → Bool
  | .parens o => !o.isNil && wfO o
  | .has p => decide (WFPath p ∧ p ≠ kwNot)
  | .missing p => decide (WFPath p)
  | .isA s => decide (SymSeg s)
  | .weq p r => decide ((WFPath p ∧ p ≠ kwNot) ∧ RefSeg r.id)
  | .rel r t ref =>
    decide (IdSeg r) &&
      (match t with
       | some x => decide (SymSeg x)
       | Option.none => true) &&
      (match ref with
       | some rv => decide (RefSeg rv.id)
       | Option.none => true)
  | .cmp p _ v => decide ((WFPath p ∧ p ≠ kwNot) ∧ OkLit2 v)
def wfA : Ands → Bool
  | .nil => true
  | .cons t ts => wfT t && wfA ts
def wfO : Ors → Bool
  | .nil => true
  | .cons a as => (!a.isNil && wfA a) && wfO as
end

mutual
theorem wfT_iff : (t : Term) → (wfT t = true ↔ OkT2 t)
  | .parens o => by
    simp only [wfT, OkT2, Bool.and_eq_true, Bool.not_eq_eq_eq_not, Bool.not_true, Ors.isNil_iff, wfO_iff o]
  | .has p => by simp [wfT, OkT2]
  | .missing p => by simp [wfT, OkT2]
  | .isA s => by simp [wfT, OkT2]
  | .weq p r => by simp [wfT, OkT2]
  | .rel r t ref => by
    cases t <;> cases ref <;> simp [wfT, OkT2, and_assoc]
  | .cmp p _ v => by simp [wfT, OkT2]
theorem wfA_iff : (a : Ands) → (wfA a = true ↔ AllA2 a)
  | .nil => by simp [wfA, AllA2]
  | .cons t ts => by simp only [wfA, AllA2, Bool.and_eq_true, wfT_iff t, wfA_iff ts]
theorem wfO_iff : (o : Ors) → (wfO o = true ↔ AllO2 o)
  | .nil => by simp [wfO, AllO2]
  | .cons a as => by
    simp only [wfO, AllO2, Bool.and_eq_true, Bool.not_eq_eq_eq_not, Bool.not_true, Ands.isNil_iff, wfA_iff a,
      wfO_iff as]
end

instance (t : Term) : Decidable (OkT2 t) := decidable_of_iff _ (wfT_iff t)
instance (a : Ands) : Decidable (AllA2 a) := decidable_of_iff _ (wfA_iff a)
instance (o : Ors) : Decidable (AllO2 o) := decidable_of_iff _ (wfO_iff o)

/-- the well-formedness predicate of the property: a non-empty `Or` of non-empty `And`s of well-formed
terms, at most 64 nested groups -/
def WF2 (f : Ors) : Prop := f ≠ .nil ∧ AllO2 f ∧ nestO f ≤ 64

instance (f : Ors) : Decidable (WF2 f) :=
  decidable_of_iff (f.isNil = false ∧ AllO2 f ∧ nestO f ≤ 64) (by simp [WF2, Ors.isNil_iff])

end Hs.FText
