/-
  C11 (lazy rows), part 4: from scanner positions to byte counts.  `pulls` is the iterator driven to its end,
  recording with every row handed out how many bytes had been pulled from the reader at that moment
  (`total - inp.length`: what the driver prints and what a counting reader measures under the real iterator).
  `tokEnds` lists, for every row, the offset in the text at which the first token of the following line ends.
-/
import Hs.Lemmas.ZincLazyGrid
namespace Hs.Zinc
open Hs Hs.Scan

/-- a clean scanner positioned at `text` has everything after the current byte still unread -/
theorem _root_.Hs.At.inp_length {s : Scan} {text : List UInt8} (h : At s text) (hs : s.stash = []) :
    s.inp.length = text.length - 1 := by
  cases text with
  | nil => simp [h.2.2]
  | cons b r =>
    have := h.unread
    rw [hs] at this
    simp at this
    simp [this]

/-- the lazy iterator driven until it reports the end (at most `n` calls): every row handed out, with the number
of bytes pulled from the reader (out of `total`) at the moment it is handed out -/
def pulls (F depth : Nat) (names : List (List Char)) (total : Nat) : Nat → RowState → Res (List (Tags × Nat))
  | 0, _ => .diverge
  | n + 1, st =>
    match rowNext F depth st names with
    | .ok (Option.none, _) => .ok []
    | .ok (some row, st') =>
      match pulls F depth names total n st' with
      | .ok l => .ok ((row, total - st'.p.sc.inp.length) :: l)
      | .err => .err | .panic => .panic | .diverge => .diverge | .depth => .depth
    | .err => .err | .panic => .panic | .diverge => .diverge | .depth => .depth

theorem pulls_of_hands (F depth : Nat) (names : List (List Char)) (total : Nat) :
    ∀ (l : List (Tags × List UInt8)) (n : Nat) (st : RowState), Hands F depth names st l → l.length < n →
      pulls F depth names total n st = .ok (l.map (fun x => (x.1, total - (x.2.length - 1))))
  | [], n, st, h, hn => by
    obtain ⟨m, rfl⟩ : ∃ m, n = m + 1 := ⟨n - 1, by omega⟩
    obtain ⟨st', e⟩ := h
    simp [pulls, e]
  | (row, text) :: more, n, st, h, hn => by
    obtain ⟨m, rfl⟩ : ∃ m, n = m + 1 := ⟨n - 1, by simp at hn; omega⟩
    obtain ⟨st', e, hat, hs, hmore⟩ := h
    have ih := pulls_of_hands F depth names total more m st' hmore (by simp at hn; omega)
    simp [pulls, e, ih, hat.inp_length hs]

/-- for every row of `rows`, the offset at which the first token of the FOLLOWING line ends; `off` is the offset of
the first line of `rows`.  The line after the last row is the blank line that ends the grid: its newline is
the token. -/
def tokEnds (names : List (List Char)) (single : Bool) : Nat → Rows → List Nat
  | _, .nil => []
  | off, .cons r rs =>
    (match rs with
     | .nil => off + (rowBytes r names single).length + 1 + 1
     | .cons r2 _ => off + (rowBytes r names single).length + 1 + rowFirstLen r2 names)
      :: tokEnds names single (off + (rowBytes r names single).length + 1) rs

theorem rows_length_tokEnds (names : List (List Char)) (single : Bool) : ∀ (rows : Rows) (off : Nat),
    (tokEnds names single off rows).length = (lexImgR rows).toList.length
  | .nil, _ => rfl
  | .cons r rs, off => by simp [tokEnds, lexImgR, Rows.toList, rows_length_tokEnds names single rs]

/-- the positions recorded by `rowTrace`, as byte counts -/
theorem rowTrace_counts (names : List (List Char)) (single : Bool) : ∀ (rows : Rows) (off total : Nat),
    total = off + (encRows rows names single).length + 1 →
    (rowTrace names single rows).map (fun x => (x.1, total - (x.2.length - 1))) =
      List.zip (lexImgR rows).toList ((tokEnds names single off rows).map (fun e => min (e + 1) total))
  | .nil, _, _, _ => rfl
  | .cons r rs, off, total, ht => by
    rw [encRows_length_cons] at ht
    have ih := rowTrace_counts names single rs (off + (rowBytes r names single).length + 1) total (by omega)
    simp only [rowTrace, List.map_cons, tokEnds, lexImgR, Rows.toList, List.zip_cons_cons, ih]
    congr 1
    cases rs with
    | nil =>
      simp only [afterTok, encRows, List.length_nil] at ht ⊢
      congr 1; omega
    | cons r2 rs2 =>
      rw [encRows_length_cons] at ht
      simp only [afterTok, List.length_drop, List.length_append, List.length_cons, List.length_nil]
      congr 1; omega

theorem rowTrace_length (names : List (List Char)) (single : Bool) : ∀ rows : Rows,
    (rowTrace names single rows).length = (lexImgR rows).toList.length
  | .nil => rfl
  | .cons r rs => by simp [rowTrace, lexImgR, Rows.toList, rowTrace_length names single rs]

end Hs.Zinc
