/-
  C04 (write direction), rung 5d: grid meta / column meta and the column line through `tags` and `cols`.
-/
import Hs.Lemmas.SpecRtTags
namespace Hs.Spec
open Hs Hs.Zinc Hs.Scan

def RdO : OTags → Prop
  | .none => True
  | .some t => RdT t

def RdC : Cols → Prop
  | .nil => True
  | .cons _ md c => RdO md ∧ RdC c

/-- the meta of a grid or of a column: absent → no tags, present → the dict comes back -/
theorem meta_rt {term : UInt8} (ctx : TagCtx 32 term false) (md : OTags) (hs : metaShape md = true) (hr : RdO md)
    (fuel : Nat) (rest : List UInt8) (hf : (metaPart md).length + 3 ≤ fuel) :
    ∃ kvs, tags fuel (skipWs (metaPart md ++ term :: rest)) false [] = some (kvs, term :: rest) ∧
      (if kvs.isEmpty then OTags.none else OTags.some (Hs.Spec.dictOf kvs)) = specImgO md := by
  have hterm : term ≠ 32 ∧ term ≠ 9 ∧ isLowerB term = false := by
    rcases ctx.term_cases with h | h | h <;> rw [h] <;> decide
  cases md with
  | none =>
    obtain ⟨f, rfl⟩ : ∃ f, fuel = f + 1 := ⟨fuel - 1, by omega⟩
    refine ⟨[], ?_, by simp [specImgO]⟩
    simp only [metaPart, List.nil_append]
    rw [skipWs_cons hterm.1 hterm.2.1, tags_end f _ false [] (ident_none (by intro b r e; cases e; exact hterm.2.2))]
  | some t =>
    cases t with
    | nil => simp [metaShape, Tags.isEmpty] at hs
    | cons k v t' =>
      simp only [metaShape, Bool.and_eq_true] at hs
      have hk := hs.1.2
      have hk' := hk
      simp only [keysIdent, Bool.and_eq_true] at hk'
      have hmp : metaPart (.some (.cons k v t')) = 32 :: encTags (.cons k v t') 32 := by simp [metaPart, Tags.isEmpty]
      rw [hmp] at hf ⊢
      simp only [List.length_cons] at hf
      obtain ⟨b, r, e, hb⟩ := encTags_lower k v t' 32 hk'.1 (term :: rest)
      have hnw : skipWs (32 :: encTags (.cons k v t') 32 ++ term :: rest) = encTags (.cons k v t') 32 ++ term :: rest := by
        simp only [List.cons_append]
        rw [skipWs_space, e]; exact skipWs_cons (lower_nows hb).1 (lower_nows hb).2
      refine ⟨(specImgT (.cons k v t')).toList, ?_, ?_⟩
      · rw [hnw, tags_rt ctx k v t' hk hr fuel rest [] (by omega)]
        simp
      · rw [dictOf_specImgT _ hs.2]
        simp [specImgT, Tags.toList, specImgO]

theorem specImgC_toList_cons (n : List Char) (md : OTags) (c : Cols) :
    (specImgC (.cons n md c)).toList = (n, specImgO md) :: (specImgC c).toList := by
  simp [specImgC, Cols.toList]

theorem metaPart_stop (md : OTags) (term : UInt8) (hterm : isLitB term = false) (after : List UInt8) :
    Stop isLitB (metaPart md ++ term :: after) := by
  cases md with
  | none => exact Stop_cons hterm
  | some t =>
    cases t with
    | nil => simpa [metaPart, Tags.isEmpty] using Stop_cons (P := isLitB) (r := after) hterm
    | cons k v t' => simp only [metaPart, Tags.isEmpty]; exact Stop_cons (by decide)

/-- one column: its name and meta up to the terminator -/
theorem cols_step {term : UInt8} (ctx : TagCtx 32 term false) (n : List Char) (md : OTags) (hn : isIdent n = true)
    (hs : metaShape md = true) (hr : RdO md) (f : Nat) (after : List UInt8)
    (acc : List (List Char × OTags)) (hf : (metaPart md).length + 3 ≤ f) :
    cols (f + 1) (encChars n ++ metaPart md ++ term :: after) acc =
      if term = 44 then cols f after (acc ++ [(n, specImgO md)])
      else (nl (term :: after)).map fun r4 => (acc ++ [(n, specImgO md)], r4) := by
  have hterm : term ≠ 32 ∧ term ≠ 9 ∧ isLitB term = false := by
    rcases ctx.term_cases with h | h | h <;> rw [h] <;> decide
  obtain ⟨b, r, e, hb⟩ := isIdent_head hn
  have hnw : skipWs (encChars n ++ metaPart md ++ term :: after) = encChars n ++ (metaPart md ++ term :: after) := by
    rw [List.append_assoc, e]; exact skipWs_cons (lower_nows hb).1 (lower_nows hb).2
  have hid := ident_rt n hn _ (metaPart_stop md term hterm.2.2 after)
  obtain ⟨kvs, hk, hmd⟩ := meta_rt ctx md hs hr f after hf
  rw [cols.eq_def]
  simp only [hnw, hid, hk, hmd, skipWs_cons hterm.1 hterm.2.1]
  rcases ctx.term_cases with h | h | h
  · rcases ctx with ⟨h', _⟩ | ⟨_, _, h' | h'⟩
    · cases h'
    · rw [h] at h'; cases h'
    · rw [h] at h'; cases h'
  · subst h; simp [nl]
  · subst h; simp

def ColsOkS : Cols → Prop
  | .nil => True
  | .cons n md c => isIdent n = true ∧ metaShape md = true ∧ ColsOkS c

theorem cols_rt : ∀ (n : List Char) (md : OTags) (c : Cols), ColsOkS (.cons n md c) → RdC (.cons n md c) →
    ∀ (fuel : Nat) (rest : List UInt8) (acc : List (List Char × OTags)), colsLen (.cons n md c) + 3 ≤ fuel →
    cols fuel (encCols (.cons n md c) ++ 10 :: rest) acc = some (acc ++ (specImgC (.cons n md c)).toList, rest)
  | n, md, .nil, hok, hr, fuel, rest, acc, hf => by
    obtain ⟨f, rfl⟩ : ∃ f, fuel = f + 1 := ⟨fuel - 1, by omega⟩
    simp only [colsLen, List.length_append] at hf
    rw [encCols_one, cols_step ctx_meta n md hok.1 hok.2.1 hr.1 f rest acc (by omega)]
    simp [nl, specImgC, Cols.toList]
  | n, md, .cons n2 md2 c, hok, hr, fuel, rest, acc, hf => by
    obtain ⟨f, rfl⟩ : ∃ f, fuel = f + 1 := ⟨fuel - 1, by omega⟩
    simp only [colsLen, List.length_append] at hf
    rw [encCols_cons2]
    simp only [List.append_assoc, List.cons_append]
    rw [← List.append_assoc, cols_step ctx_colmeta n md hok.1 hok.2.1 hr.1 f _ acc (by omega)]
    simp only [if_true]
    rw [cols_rt n2 md2 c hok.2.2 hr.2 f rest _ (by simp only [colsLen, List.length_append]; omega),
      specImgC_toList_cons n md]
    simp

end Hs.Spec
