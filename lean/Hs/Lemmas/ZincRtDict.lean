/-
  C01 ladder, rung 5: tags (`dictParts`) for both separators — `,` inside `{}` and ` ` in grid meta —
  and `parseDict`.
-/
import Hs.Lemmas.ZincRtVal
import Hs.Lemmas.ZincRtDictOf
namespace Hs.Zinc
open Hs Hs.Scan

def isMarker : Val → Bool
  | .marker => true
  | _ => false

/-- what follows a tag's name: nothing for a Marker, `:value` otherwise -/
def valPart (v : Val) : List UInt8 := if isMarker v then [] else 58 :: enc v true

theorem encTags_one (k : List Char) (v : Val) (sep : UInt8) :
    encTags (.cons k v .nil) sep = encChars k ++ valPart v := by
  cases v <;> simp [encTags, valPart, isMarker]
theorem encTags_cons2 (k : List Char) (v : Val) (k2 : List Char) (v2 : Val) (t : Tags) (sep : UInt8) :
    encTags (.cons k v (.cons k2 v2 t)) sep = encChars k ++ valPart v ++ sep :: encTags (.cons k2 v2 t) sep := by
  cases v <;> simp [encTags, valPart, isMarker]

/-- the text after a tag: the terminator, or the separator and the remaining tags -/
def tailOf (sep term : UInt8) (rest : List UInt8) : Tags → List UInt8
  | .nil => term :: rest
  | .cons k v t => sep :: (encTags (.cons k v t) sep ++ term :: rest)

theorem encTags_split (k : List Char) (v : Val) (t : Tags) (sep term : UInt8) (rest : List UInt8) :
    encTags (.cons k v t) sep ++ term :: rest = encChars k ++ (valPart v ++ tailOf sep term rest t) := by
  cases t with
  | nil => rw [encTags_one]; simp [tailOf]
  | cons k2 v2 t2 => rw [encTags_cons2]; simp [tailOf]

/-- length of the separator and the remaining tags -/
def sepLen (sep : UInt8) : Tags → Nat
  | .nil => 0
  | .cons k v t => 1 + (encTags (.cons k v t) sep).length

theorem encTags_length (k : List Char) (v : Val) (t : Tags) (sep : UInt8) :
    (encTags (.cons k v t) sep).length = (encChars k).length + (valPart v).length + sepLen sep t := by
  cases t with
  | nil => rw [encTags_one]; simp [sepLen]
  | cons k2 v2 t2 => rw [encTags_cons2]; simp [sepLen]; omega

/-- all keys are identifiers -/
def keysIdent : Tags → Bool
  | .nil => true
  | .cons k _ t => isIdent k && keysIdent t

structure SepTerm (sep term : UInt8) : Prop where
  sep : sep = 44 ∨ sep = 32
  term : term = 125 ∨ term = 10

theorem isIdent_head {k : List Char} (h : isIdent k = true) :
    ∃ b r, encChars k = b :: r ∧ isLowerB b = true := by
  cases k with
  | nil => simp [isIdent] at h
  | cons c r =>
    simp only [isIdent, Bool.and_eq_true, decide_eq_true_eq] at h
    exact ⟨byteOf c, encChars r, by rw [encChars_cons, encChar_ascii c h.1.1]; rfl, h.1.2⟩

theorem Delim_tailOf {sep term : UInt8} (st : SepTerm sep term) (rest : List UInt8) (t : Tags)
    (hk : keysIdent t = true) : Delim (tailOf sep term rest t) := by
  cases t with
  | nil =>
    right; left
    refine ⟨term, rest, rfl, ?_⟩
    rcases st.term with h | h <;> simp [h]
  | cons k v t' =>
    simp only [keysIdent, Bool.and_eq_true] at hk
    rcases st.sep with h | h
    · right; left; exact ⟨sep, _, rfl, by simp [h]⟩
    · right; right
      obtain ⟨b, r, e, hb⟩ := isIdent_head hk.1
      refine ⟨b, r ++ (valPart v ++ tailOf sep term rest t'), ?_, hb⟩
      show sep :: (encTags (.cons k v t') sep ++ term :: rest) = _
      rw [encTags_split, e, h]; simp

/-- the loop of `parse_dict_parts` positioned on the name of the first of the remaining tags -/
def RdTags (sep term : UInt8) (t : Tags) : Prop :=
  ∀ (k : List Char) (v : Val) (t' : Tags), t = .cons k v t' →
  ∀ (depth fuel : Nat) (p : PS) (ec : Bool) (acc : List (List Char × Val)) (rest : List UInt8),
    p.tok = .id k → At p.sc (valPart v ++ tailOf sep term rest t') → p.sc.stash = [] →
    4 * (encTags t sep).length + 10 ≤ fuel → depth + nestT t ≤ 64 →
    ∃ p', dictParts fuel depth p ec acc = .ok (acc ++ (lexImgT t).toList, p') ∧ p'.tok = .ch term ∧
      At p'.sc rest ∧ p'.sc.stash = []

theorem isEof_mk (s : Scan) (t : Tok) : PS.isEof { sc := s, tok := t } = s.eof := rfl

theorem stop_lit_tail {sep term : UInt8} (st : SepTerm sep term) (rest : List UInt8) (v : Val) (t : Tags) :
    Stop isLitB (valPart v ++ tailOf sep term rest t) := by
  have h58 : isLitB 58 = false := by decide
  have hsep : isLitB sep = false := by rcases st.sep with h | h <;> rw [h] <;> decide
  have hterm : isLitB term = false := by rcases st.term with h | h <;> rw [h] <;> decide
  unfold valPart
  by_cases hm : isMarker v = true
  · simp only [hm, if_true, List.nil_append]
    cases t with
    | nil => exact Stop_cons hterm
    | cons _ _ _ => exact Stop_cons hsep
  · simp only [hm, if_false, Bool.false_eq_true, List.cons_append]
    exact Stop_cons h58

/-- from the end of one tag to the end of all tags -/
theorem dict_next {sep term : UInt8} (st : SepTerm sep term) (t : Tags) (hk : keysIdent t = true)
    (ih : RdTags sep term t) (depth f g : Nat) (sc : Scan) (acc : List (List Char × Val)) (rest : List UInt8)
    (hp : Post sc (tailOf sep term rest t))
    (hf : 4 * sepLen sep t + 8 ≤ f) (hg : 4 * sepLen sep t + 8 ≤ g) (hn : depth + nestT t ≤ 64) :
    ∃ p4 p', lexRead f sc = .ok p4 ∧ PS.isChar p4 58 = false ∧
      dictParts g depth p4 true acc = .ok (acc ++ (lexImgT t).toList, p') ∧ p'.tok = .ch term ∧
      At p'.sc rest ∧ p'.sc.stash = [] := by
  have hterm44 : (term == 44) = false := by rcases st.term with h | h <;> rw [h] <;> decide
  have hterm58 : (term == 58) = false := by rcases st.term with h | h <;> rw [h] <;> decide
  have htermS : isSpecial term = true := by rcases st.term with h | h <;> rw [h] <;> decide
  have hterm13 : term ≠ 13 := by rcases st.term with h | h <;> rw [h] <;> decide
  have hterm32 : term ≠ 32 := by rcases st.term with h | h <;> rw [h] <;> decide
  cases t with
  | nil =>
    simp only [tailOf] at hp
    obtain ⟨f', rfl⟩ : ∃ f', f = f' + 1 := ⟨f - 1, by omega⟩
    obtain ⟨g', rfl⟩ : ∃ g', g = g' + 1 := ⟨g - 1, by omega⟩
    refine ⟨{ sc := sc.advance, tok := .ch term }, { sc := sc.advance, tok := .ch term },
      lexRead_special hp.1 htermS hterm13 f', by simp [isChar_ch, hterm58], ?_, rfl, hp.1.advance, ?_⟩
    · rw [dictParts]
      simp only [isEof_mk, isChar_ch, hterm44, Bool.and_false, Bool.false_eq_true, if_false]
      by_cases he : sc.advance.eof = true <;> simp [he, lexImgT, Tags.toList]
    · show sc.advance.stash = []
      rw [At.advance_stash, hp.clean hterm32]; rfl
  | cons k v t' =>
    simp only [keysIdent, Bool.and_eq_true] at hk
    have hp0 : Post sc (sep :: (encTags (.cons k v t') sep ++ term :: rest)) := hp
    rw [encTags_split] at hp0
    have hlenk : k.length ≤ (encChars k).length := encChars_length_ge k
    have hlen := encTags_length k v t' sep
    simp only [sepLen] at hf hg
    obtain ⟨b, r, ek, hb⟩ := isIdent_head hk.1
    rcases st.sep with hsep | hsep
    · -- `,`: a token of its own
      subst hsep
      obtain ⟨f', rfl⟩ : ∃ f', f = f' + 1 := ⟨f - 1, by omega⟩
      obtain ⟨g', rfl⟩ : ∃ g', g = g' + 2 := ⟨g - 2, by omega⟩
      have h1 := hp0.1.advance
      have hs1 : sc.advance.stash = [] := by rw [At.advance_stash, hp0.clean (by decide)]; rfl
      obtain ⟨e5, h5⟩ := lexRead_id k hk.1 sc.advance _ (g' + 1) h1 (stop_lit_tail st rest v t') (by omega)
      obtain ⟨p', e', ht', h', hs'⟩ := ih k v t' rfl depth (g' + 1) { sc := advN k.length sc.advance, tok := .id k }
        false acc rest rfl h5 (advN_stash_nil _ _ hs1) (by omega) hn
      refine ⟨{ sc := sc.advance, tok := .ch 44 }, p', lexRead_special hp0.1 (by decide) (by decide) f',
        by simp [isChar_ch], ?_, ht', h', hs'⟩
      have heof : sc.advance.eof = false := by
        rw [ek] at h1; simp only [List.cons_append] at h1; exact h1.eof
      rw [dictParts]
      simp only [isEof_mk, heof, isChar_ch, PS.read, e5]
      simp [e']
    · -- ` `: skipped by the lexer
      subst hsep
      obtain ⟨f', rfl⟩ : ∃ f', f = f' + 2 := ⟨f - 2, by omega⟩
      have hp1 := hp0
      rw [ek] at hp1
      simp only [List.cons_append] at hp1
      have hbne : b ≠ 32 ∧ b ≠ 9 := by
        constructor <;> (intro e; subst e; revert hb; decide)
      obtain ⟨e1, h1, hs1⟩ := lexRead_space hp1.1 hbne hp1.2.1 f'
      have h1' : At sc.advance (encChars k ++ (valPart v ++ tailOf 32 term rest t')) := by
        rw [ek]; simpa using h1
      obtain ⟨e5, h5⟩ := lexRead_id k hk.1 sc.advance _ (f' + 1) h1' (stop_lit_tail st rest v t') (by omega)
      obtain ⟨p', e', ht', h', hs'⟩ := ih k v t' rfl depth g { sc := advN k.length sc.advance, tok := .id k }
        true acc rest rfl h5 (advN_stash_nil _ _ hs1) (by omega) hn
      exact ⟨{ sc := advN k.length sc.advance, tok := .id k }, p', by rw [e1, e5], rfl, e', ht', h', hs'⟩


theorem RdTags_nil (sep term : UInt8) : RdTags sep term .nil := by
  intro k v t' e; cases e

theorem lexImg_marker {v : Val} (h : isMarker v = true) : v = .marker ∧ lexImg v = .marker := by
  cases v <;> simp [isMarker] at h
  exact ⟨rfl, by simp [lexImg]⟩

theorem RdTags_cons {sep term : UInt8} (st : SepTerm sep term) {k : List Char} {v : Val} {t' : Tags}
    (hkt : keysIdent t' = true) (hv : isMarker v = false → RdVal v)
    (ih : RdTags sep term t') : RdTags sep term (.cons k v t') := by
  intro k0 v0 t0 e0
  cases e0
  intro depth fuel p ec acc rest htok hat hs hf hn
  obtain ⟨f, rfl⟩ : ∃ f, fuel = f + 1 := ⟨fuel - 1, by omega⟩
  have hlen := encTags_length k v t' sep
  simp only [nestT] at hn
  have hnot44 : PS.isChar p 44 = false := by unfold PS.isChar; rw [htok]
  by_cases hm : isMarker v = true
  · -- Marker: the name alone
    obtain ⟨rfl, hmi⟩ := lexImg_marker hm
    simp only [valPart, isMarker, if_true, List.nil_append] at hat
    have hpost : Post p.sc (tailOf sep term rest t') := Post.of_clean hat hs
    obtain ⟨p4, p', e4, h58, e', ht', h', hs'⟩ := dict_next st t' hkt ih depth f f p.sc
      (acc ++ [(k, .marker)]) rest hpost (by omega) (by omega) (by omega)
    refine ⟨p', ?_, ht', h', hs'⟩
    have heof : p.sc.eof = false := by
      cases t' <;> exact hat.eof
    rw [dictParts]
    simp only [PS.isEof, heof, hnot44, Bool.and_false, Bool.false_eq_true, if_false, htok, PS.read, e4, h58]
    by_cases he : p4.sc.eof = true
    · -- the terminator was the last byte: `dictParts` would return at once
      obtain ⟨f', rfl⟩ : ∃ f', f = f' + 1 := ⟨f - 1, by omega⟩
      rw [dictParts] at e'
      simp only [PS.isEof, he, if_true] at e'
      simp only [he, if_true]
      rw [e']; simp [lexImgT, Tags.toList, lexImg]
    · simp only [he, Bool.false_eq_true, if_false, e']
      simp [lexImgT, Tags.toList, lexImg]
  · -- `name:value`
    have hm' : isMarker v = false := by simpa using hm
    have hvp : valPart v = 58 :: enc v true := by simp [valPart, hm']
    rw [hvp] at hat hlen
    simp only [List.cons_append, List.length_cons] at hat hlen
    have h1 := hat.advance
    have hs1 : p.sc.advance.stash = [] := by rw [At.advance_stash, hs]; rfl
    obtain ⟨p2, p3, e2, _, hst, e3, hp3⟩ := hv hm' depth f f p.sc.advance _ h1 hs1 (Delim_tailOf st rest t' hkt)
      (by omega) (by omega) (by omega)
    obtain ⟨p4, p', e4, _, e', ht', h', hs'⟩ := dict_next st t' hkt ih depth f f p3.sc
      (acc ++ [(k, lexImg v)]) rest hp3 (by omega) (by omega) (by omega)
    refine ⟨p', ?_, ht', h', hs'⟩
    obtain ⟨f', rfl⟩ : ∃ f', f = f' + 1 := ⟨f - 1, by omega⟩
    have heof1 : p.sc.advance.eof = false := by
      cases hx : enc v true ++ tailOf sep term rest t' with
      | nil => cases t' <;> simp [tailOf] at hx
      | cons b r => rw [hx] at h1; exact h1.eof
    rw [dictParts]
    simp only [PS.isEof, hat.eof, hnot44, Bool.and_false, Bool.false_eq_true, if_false, htok, PS.read,
      lexRead_special hat (by decide) (by decide) f', heof1, isChar_ch, e2, e3, e4, e']
    simp [lexImgT, Tags.toList]


theorem enc_dict (d : Tags) (b : Bool) : enc (.dict d) b = 123 :: (encTags d 44 ++ [125]) := by rw [enc]; simp

theorem lexImgT_keys : ∀ t : Tags, (lexImgT t).keys = t.keys
  | .nil => rfl
  | .cons k v t => by simp [lexImgT, Tags.keys, lexImgT_keys t]

theorem st_dict : SepTerm 44 125 := ⟨Or.inl rfl, Or.inl rfl⟩
theorem st_meta : SepTerm 32 10 := ⟨Or.inr rfl, Or.inr rfl⟩

theorem RdVal_dict {d : Tags} (hk : keysIdent d = true) (hsort : keysSorted d.keys = true)
    (h : RdTags 44 125 d) : RdVal (.dict d) := by
  intro depth f1 f2 s rest hat hs hd hf1 hf2 hn
  rw [enc_dict] at hat hf1 hf2
  simp only [List.cons_append, List.append_assoc, List.length_cons, List.length_append, List.length_nil] at hat hf1 hf2
  simp only [nestV] at hn
  obtain ⟨g1, rfl⟩ : ∃ g, f1 = g + 1 := ⟨f1 - 1, by omega⟩
  obtain ⟨g2, rfl⟩ : ∃ g, f2 = g + 3 := ⟨f2 - 3, by omega⟩
  have hnd : ¬ (depth ≥ maxNestingDepth) := by unfold maxNestingDepth; omega
  have h1 := hat.advance
  have hs1 : s.advance.stash = [] := by rw [At.advance_stash, hs]; rfl
  have hfin : dictOf (lexImgT d).toList = lexImgT d := dictOf_toList _ (by rw [lexImgT_keys]; exact hsort)
  cases d with
  | nil =>
    simp only [encTags, List.nil_append] at h1
    refine ⟨_, { sc := s.advance.advance, tok := .ch 125 }, lexRead_special hat (by decide) (by decide) g1,
      fun _ => h1.eof, Or.inr (Or.inl rfl), ?_, Post.of_clean h1.advance (by rw [At.advance_stash, hs1]; rfl)⟩
    rw [parseValue]
    simp only [hnd, if_false]
    rw [parseDict]
    simp only [isChar_ch, PS.read, lexRead_special h1 (by decide) (by decide) g2]
    rw [dictParts]
    simp only [isEof_mk, isChar_ch]
    by_cases he : s.advance.advance.eof = true <;> simp [he, lexImg, lexImgT, dictOf, Tags.ofList, isChar_ch]
  | cons k v t' =>
    simp only [keysIdent, Bool.and_eq_true] at hk
    have hlenk : k.length ≤ (encChars k).length := encChars_length_ge k
    have hlen := encTags_length k v t' 44
    have h1' : At s.advance (encChars k ++ (valPart v ++ tailOf 44 125 rest t')) := by
      rw [← encTags_split]; exact h1
    obtain ⟨e5, h5⟩ := lexRead_id k hk.1 s.advance _ (g2 + 1) h1' (stop_lit_tail st_dict rest v t') (by omega)
    obtain ⟨p', e', ht', h', hs'⟩ := h k v t' rfl (depth + 1) (g2 + 1)
      { sc := advN k.length s.advance, tok := .id k } false [] rest rfl h5 (advN_stash_nil _ _ hs1) (by omega)
      (by simp only [nestT] at hn ⊢; omega)
    have heof1 : s.advance.eof = false := by
      obtain ⟨b, r, ek, _⟩ := isIdent_head hk.1
      have := h1'; rw [ek] at this; simp only [List.cons_append] at this; exact this.eof
    refine ⟨_, p', lexRead_special hat (by decide) (by decide) g1, fun _ => heof1, Or.inr (Or.inl rfl), ?_,
      Post.of_clean h' hs'⟩
    rw [parseValue]
    simp only [hnd, if_false]
    rw [parseDict]
    simp only [isChar_ch, PS.read, e5, e']
    have : PS.isChar p' 125 = true := by unfold PS.isChar; rw [ht']; rfl
    simp [this, lexImg, hfin]

end Hs.Zinc
