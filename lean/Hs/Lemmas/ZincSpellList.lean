/-
  C04 read direction: values after blanks, and lists `[ v , v , ]` with blanks after `[`, after each value and
  after each comma, with or without a trailing comma.
-/
import Hs.Lemmas.ZincSpellBase
namespace Hs.Zinc
open Hs Hs.Scan Hs.Spell

/-- the framing statement of a spelled value, and its first byte -/
structure SpOk (v : Val) (bs : List UInt8) : Prop where
  rd : RdB bs (lexImg v) (nestV v)
  first : FirstW bs

/-- a value after blanks -/
theorem RdB.skip {bs : List UInt8} {img : Val} {n : Nat} (h : RdB bs img n) (hfirst : FirstW bs)
    (ws : List UInt8) (hws : Blanks ws) (depth f1 f2 : Nat) (s : Scan) (rest : List UInt8)
    (hat : At s (ws ++ (bs ++ rest))) (hs : s.stash.length ≤ 1) (hs0 : ws = [] → s.stash = [])
    (hd : DelimW rest) (hf1 : 4 * bs.length + ws.length + 10 ≤ f1) (hf2 : 4 * bs.length + 8 ≤ f2)
    (hn : depth + n < 64) :
    ∃ p p', lexRead f1 s = .ok p ∧ (rest ≠ [] → p.sc.eof = false) ∧ Starts p ∧
      parseValue f2 depth p = .ok (img, p') ∧ Post p'.sc rest := by
  obtain ⟨b, r, rfl, hb1, hb2, _, _⟩ := hfirst
  obtain ⟨f, rfl⟩ : ∃ f, f1 = f + 1 := ⟨f1 - 1, by omega⟩
  obtain ⟨s', f', hat', hst', hf', _, e⟩ := lexRead_skip ws hws s b (r ++ rest) (by simpa using hat) hb1 hb2 hs hs0 f
    (by omega)
  obtain ⟨p, p', e1, h2, h3, h4, h5⟩ := h depth (f' + 1) f2 s' rest (by simpa using hat') hst' hd (by omega) hf2 hn
  exact ⟨p, p', by rw [e, e1], h2, h3, h4, h5⟩

/-- blanks and then an end byte may follow a value -/
theorem DelimW_blanks_end {w : List UInt8} (hw : Blanks w) {c : UInt8} (hc : isEndB c = true) (rest : List UInt8) :
    DelimW (w ++ c :: rest) := by
  cases w with
  | nil => exact Or.inr (Or.inl ⟨c, rest, rfl, hc⟩)
  | cons b w' =>
    right; right
    cases w' with
    | nil => exact ⟨b, c, rest, rfl, Blanks.head hw, Or.inr (Or.inr (Or.inl hc))⟩
    | cons b' w'' =>
      refine ⟨b, b', w'' ++ c :: rest, rfl, Blanks.head hw, ?_⟩
      rcases Blanks.head (Blanks.tail hw) with h | h
      · exact Or.inl h
      · exact Or.inr (Or.inl h)

/-- the stash conditions a `Post` state offers to the next token that starts after the blanks `w` -/
theorem Post.stash_le {s : Scan} {rest : List UInt8} (h : Post s rest) : s.stash.length ≤ 1 := h.2.1
theorem Post.stash_nil_of {s : Scan} {w : List UInt8} {c : UInt8} {rest : List UInt8} (h : Post s (w ++ c :: rest))
    (hc : c ≠ 32) : w = [] → s.stash = [] := by
  intro hw; subst hw
  exact h.2.2 (by simpa using hc)

/-! ### lists -/

/-- the item loop of `parse_list` on the spelled items `body` of `xs`, after the blanks `ws` -/
def RdItems (xs : Vals) (body : List UInt8) : Prop :=
  ∀ (depth fuel : Nat) (p : PS) (acc : List Val) (rest ws : List UInt8), Blanks ws →
    At p.sc (ws ++ (body ++ 93 :: rest)) → p.sc.stash.length ≤ 1 → (ws = [] → p.sc.stash = []) →
    4 * body.length + ws.length + 12 ≤ fuel → depth + nestVs xs ≤ 64 →
    ∃ p', listLoop fuel depth p false acc = .ok (.list (Vals.ofList (acc ++ (lexImgs xs).toList)), p') ∧
      At p'.sc rest ∧ p'.sc.stash = []

/-- blanks and the closing bracket -/
theorem listLoop_closeW (fuel depth : Nat) (p : PS) (ec : Bool) (acc : List Val) (rest ws : List UInt8)
    (hws : Blanks ws) (h : At p.sc (ws ++ 93 :: rest)) (hs : p.sc.stash.length ≤ 1) (hs0 : ws = [] → p.sc.stash = [])
    (hf : ws.length + 3 ≤ fuel) :
    ∃ p', listLoop fuel depth p ec acc = .ok (.list (Vals.ofList acc), p') ∧ At p'.sc rest ∧ p'.sc.stash = [] := by
  obtain ⟨f, rfl⟩ : ∃ f, fuel = f + 1 := ⟨fuel - 1, by omega⟩
  obtain ⟨s', e, h', hs'⟩ := lexRead_specialW ws hws p.sc 93 rest h (by decide) (by decide) hs hs0 f (by omega)
  refine ⟨{ sc := s', tok := .ch 93 }, ?_, h', hs'⟩
  rw [listLoop]
  simp only [PS.read, e]
  simp [isChar_ch]

theorem RdItems_nil : RdItems .nil [] := by
  intro depth fuel p acc rest ws hws h hs hs0 hf hn
  simp only [List.nil_append] at h
  obtain ⟨p', e, h', hs'⟩ := listLoop_closeW fuel depth p false acc rest ws hws h hs hs0 (by omega)
  exact ⟨p', by simpa [lexImgs, Vals.toList] using e, h', hs'⟩

/-- blanks, a comma, and the continuation of the loop -/
theorem listLoop_comma (fuel depth : Nat) (p : PS) (acc : List Val) (after w : List UInt8)
    (hw : Blanks w) (h : At p.sc (w ++ 44 :: after)) (hs : p.sc.stash.length ≤ 1) (hs0 : w = [] → p.sc.stash = [])
    (hf : w.length + 3 ≤ fuel) :
    ∃ p1 : PS, listLoop (fuel + 1) depth p true acc = listLoop fuel depth p1 false acc ∧ At p1.sc after ∧
      p1.sc.stash = [] := by
  obtain ⟨s', e, h', hs'⟩ := lexRead_specialW w hw p.sc 44 after h (by decide) (by decide) hs hs0 fuel (by omega)
  refine ⟨{ sc := s', tok := .ch 44 }, ?_, h', hs'⟩
  rw [listLoop]
  simp only [PS.read, e]
  simp [isChar_ch]

/-- one value of the loop: from the blanks before it to the state after it -/
theorem listLoop_value {v : Val} {bs : List UInt8} (hv : SpOk v bs) (fuel depth : Nat) (p : PS) (acc : List Val)
    (after ws : List UInt8) (hws : Blanks ws) (h : At p.sc (ws ++ (bs ++ after))) (hs : p.sc.stash.length ≤ 1)
    (hs0 : ws = [] → p.sc.stash = []) (hd : DelimW after) (hne : after ≠ [])
    (hf : 4 * bs.length + ws.length + 10 ≤ fuel) (hn : depth + nestV v < 64) :
    ∃ p2 : PS, listLoop (fuel + 1) depth p false acc = listLoop fuel depth p2 true (acc ++ [lexImg v]) ∧
      Post p2.sc after := by
  obtain ⟨p1, p2, e1, _, hst, e2, hp2⟩ := hv.rd.skip hv.first ws hws depth fuel fuel p.sc after h hs hs0 hd hf
    (by omega) hn
  refine ⟨p2, ?_, hp2⟩
  have heof : p2.sc.eof = false := by
    cases after with
    | nil => exact absurd rfl hne
    | cons b r => exact hp2.1.eof
  rw [listLoop]
  simp only [PS.read, e1]
  simp only [hst.isChar 93 (by decide), Bool.false_eq_true, if_false, e2, PS.isEof, heof]

theorem RdItems_last {v : Val} {bs w : List UInt8} (hv : SpOk v bs) (hw : Blanks w) :
    RdItems (.cons v .nil) (bs ++ w) := by
  intro depth fuel p acc rest ws hws h hs hs0 hf hn
  obtain ⟨f, rfl⟩ : ∃ f, fuel = f + 1 := ⟨fuel - 1, by omega⟩
  simp only [nestVs] at hn
  simp only [List.length_append] at hf
  have h' : At p.sc (ws ++ (bs ++ (w ++ 93 :: rest))) := by simpa using h
  obtain ⟨p2, e2, hp2⟩ := listLoop_value hv f depth p acc (w ++ 93 :: rest) ws hws h' hs hs0
    (DelimW_blanks_end hw (by decide) rest) (by simp) (by omega) (by omega)
  obtain ⟨p', e', hat', hs'⟩ := listLoop_closeW f depth p2 true (acc ++ [lexImg v]) rest w hw hp2.1 hp2.stash_le
    (hp2.stash_nil_of (by decide)) (by omega)
  refine ⟨p', ?_, hat', hs'⟩
  rw [e2, e']
  simp [lexImgs, Vals.toList]

theorem RdItems_lastComma {v : Val} {bs w w' : List UInt8} (hv : SpOk v bs) (hw : Blanks w) (hw' : Blanks w') :
    RdItems (.cons v .nil) (bs ++ w ++ 44 :: w') := by
  intro depth fuel p acc rest ws hws h hs hs0 hf hn
  obtain ⟨f, rfl⟩ : ∃ f, fuel = f + 2 := ⟨fuel - 2, by omega⟩
  simp only [nestVs] at hn
  simp only [List.length_append, List.length_cons] at hf
  have h' : At p.sc (ws ++ (bs ++ (w ++ 44 :: (w' ++ 93 :: rest)))) := by simpa using h
  obtain ⟨p2, e2, hp2⟩ := listLoop_value hv (f + 1) depth p acc (w ++ 44 :: (w' ++ 93 :: rest)) ws hws h' hs hs0
    (DelimW_blanks_end hw (by decide) _) (by simp) (by omega) (by omega)
  obtain ⟨p3, e3, hat3, hs3⟩ := listLoop_comma f depth p2 (acc ++ [lexImg v]) (w' ++ 93 :: rest) w hw hp2.1
    hp2.stash_le (hp2.stash_nil_of (by decide)) (by omega)
  obtain ⟨p', e', hat', hs'⟩ := listLoop_closeW f depth p3 false (acc ++ [lexImg v]) rest w' hw' hat3
    (by simp [hs3]) (fun _ => hs3) (by omega)
  refine ⟨p', ?_, hat', hs'⟩
  rw [e2, e3, e']
  simp [lexImgs, Vals.toList]

theorem RdItems_cons {v v2 : Val} {vs : Vals} {bs w w' body : List UInt8} (hv : SpOk v bs) (hw : Blanks w)
    (hw' : Blanks w') (ih : RdItems (.cons v2 vs) body) :
    RdItems (.cons v (.cons v2 vs)) (bs ++ w ++ 44 :: (w' ++ body)) := by
  intro depth fuel p acc rest ws hws h hs hs0 hf hn
  obtain ⟨f, rfl⟩ : ∃ f, fuel = f + 2 := ⟨fuel - 2, by omega⟩
  simp only [nestVs] at hn
  simp only [List.length_append, List.length_cons] at hf
  have h' : At p.sc (ws ++ (bs ++ (w ++ 44 :: (w' ++ (body ++ 93 :: rest))))) := by simpa using h
  obtain ⟨p2, e2, hp2⟩ := listLoop_value hv (f + 1) depth p acc (w ++ 44 :: (w' ++ (body ++ 93 :: rest))) ws hws h'
    hs hs0 (DelimW_blanks_end hw (by decide) _) (by simp) (by omega) (by omega)
  obtain ⟨p3, e3, hat3, hs3⟩ := listLoop_comma f depth p2 (acc ++ [lexImg v]) (w' ++ (body ++ 93 :: rest)) w hw hp2.1
    hp2.stash_le (hp2.stash_nil_of (by decide)) (by omega)
  obtain ⟨p', e', hat', hs'⟩ := ih depth f p3 (acc ++ [lexImg v]) rest w' hw' hat3 (by simp [hs3]) (fun _ => hs3)
    (by omega) (by simp only [nestVs]; omega)
  refine ⟨p', ?_, hat', hs'⟩
  rw [e2, e3, e']
  simp [lexImgs, Vals.toList]

/-- `[` blanks items `]` -/
theorem SpOk_list {xs : Vals} {w body : List UInt8} (hw : Blanks w) (h : RdItems xs body) :
    SpOk (.list xs) (91 :: (w ++ body ++ [93])) := by
  refine ⟨?_, ⟨91, _, rfl, by decide, by decide, by decide, by decide⟩⟩
  intro depth f1 f2 s rest hat hs hd hf1 hf2 hn
  simp only [List.cons_append, List.append_assoc, List.length_cons, List.length_append, List.length_nil,
    List.nil_append] at hat hf1 hf2
  simp only [nestV] at hn
  obtain ⟨g1, rfl⟩ : ∃ g, f1 = g + 1 := ⟨f1 - 1, by omega⟩
  obtain ⟨g2, rfl⟩ : ∃ g, f2 = g + 2 := ⟨f2 - 2, by omega⟩
  have hs1 : s.advance.stash = [] := by rw [At.advance_stash, hs]; rfl
  obtain ⟨p', e', h', hs'⟩ := h (depth + 1) g2 { sc := s.advance, tok := .ch 91 } [] rest w hw
    (by simpa using hat.advance) (by simp [hs1]) (fun _ => hs1) (by omega) (by omega)
  have heof1 : s.advance.eof = false := by
    cases hx : w ++ (body ++ 93 :: rest) with
    | nil => simp at hx
    | cons b r => have := hat.advance; rw [hx] at this; exact this.eof
  refine ⟨_, p', lexRead_special hat (by decide) (by decide) g1, fun _ => heof1, Or.inl rfl, ?_, Post.of_clean h' hs'⟩
  rw [parseValue]
  have : ¬ (depth ≥ maxNestingDepth) := by unfold maxNestingDepth; omega
  simp only [this, if_false]
  rw [parseList]
  simp only [isChar_ch, e']
  simp [lexImg, Vals.ofList_toList]

end Hs.Zinc
