/-
  A Boolean equality test on the mutual value types with its soundness proof, so that concrete facts of the
  form `fromBytes t = .ok v` can be checked by evaluation in the kernel (`decide +kernel` on `isOkEq`).
-/
import Hs.Model.Val
namespace Hs
open Hs

mutual
def beqV : Val → Val → Bool
  | .null, .null => true
  | .remove, .remove => true
  | .marker, .marker => true
  | .bool a, .bool b => a == b
  | .na, .na => true
  | .num a, .num b => decide (a = b)
  | .str a, .str b => decide (a = b)
  | .uri a, .uri b => decide (a = b)
  | .ref a d, .ref b e => decide (a = b) && decide (d = e)
  | .sym a, .sym b => decide (a = b)
  | .date a, .date b => decide (a = b)
  | .time a, .time b => decide (a = b)
  | .dateTime a, .dateTime b => decide (a = b)
  | .coord a b, .coord c d => decide (a = c) && decide (b = d)
  | .xstr a b, .xstr c d => decide (a = c) && decide (b = d)
  | .list a, .list b => beqVs a b
  | .dict a, .dict b => beqT a b
  | .grid m c r v, .grid m' c' r' v' => beqO m m' && beqC c c' && beqR r r' && decide (v = v')
  | _, _ => false
def beqVs : Vals → Vals → Bool
  | .nil, .nil => true
  | .cons a as, .cons b bs => beqV a b && beqVs as bs
  | _, _ => false
def beqT : Tags → Tags → Bool
  | .nil, .nil => true
  | .cons k a as, .cons k' b bs => decide (k = k') && beqV a b && beqT as bs
  | _, _ => false
def beqO : OTags → OTags → Bool
  | .none, .none => true
  | .some a, .some b => beqT a b
  | _, _ => false
def beqC : Cols → Cols → Bool
  | .nil, .nil => true
  | .cons n m c, .cons n' m' c' => decide (n = n') && beqO m m' && beqC c c'
  | _, _ => false
def beqR : Rows → Rows → Bool
  | .nil, .nil => true
  | .cons a as, .cons b bs => beqT a b && beqR as bs
  | _, _ => false
end

mutual
theorem beqV_sound : ∀ a b : Val, beqV a b = true → a = b
  | .list a, .list b, h => by simp only [beqV] at h; rw [beqVs_sound a b h]
  | .dict a, .dict b, h => by simp only [beqV] at h; rw [beqT_sound a b h]
  | .grid m c r v, .grid m' c' r' v', h => by
    simp only [beqV, Bool.and_eq_true, decide_eq_true_eq] at h
    rw [beqO_sound m m' h.1.1.1, beqC_sound c c' h.1.1.2, beqR_sound r r' h.1.2, h.2]
  | .null, b, h => by cases b <;> simp_all [beqV]
  | .remove, b, h => by cases b <;> simp_all [beqV]
  | .marker, b, h => by cases b <;> simp_all [beqV]
  | .bool _, b, h => by cases b <;> simp_all [beqV]
  | .na, b, h => by cases b <;> simp_all [beqV]
  | .num _, b, h => by cases b <;> simp_all [beqV]
  | .str _, b, h => by cases b <;> simp_all [beqV]
  | .uri _, b, h => by cases b <;> simp_all [beqV]
  | .ref _ _, b, h => by cases b <;> simp_all [beqV]
  | .sym _, b, h => by cases b <;> simp_all [beqV]
  | .date _, b, h => by cases b <;> simp_all [beqV]
  | .time _, b, h => by cases b <;> simp_all [beqV]
  | .dateTime _, b, h => by cases b <;> simp_all [beqV]
  | .coord _ _, b, h => by cases b <;> simp_all [beqV]
  | .xstr _ _, b, h => by cases b <;> simp_all [beqV]
  | .list _, .null, h | .list _, .remove, h | .list _, .marker, h | .list _, .bool _, h | .list _, .na, h
  | .list _, .num _, h | .list _, .str _, h | .list _, .uri _, h | .list _, .ref _ _, h | .list _, .sym _, h
  | .list _, .date _, h | .list _, .time _, h | .list _, .dateTime _, h | .list _, .coord _ _, h
  | .list _, .xstr _ _, h | .list _, .dict _, h | .list _, .grid _ _ _ _, h => by simp [beqV] at h
  | .dict _, .null, h | .dict _, .remove, h | .dict _, .marker, h | .dict _, .bool _, h | .dict _, .na, h
  | .dict _, .num _, h | .dict _, .str _, h | .dict _, .uri _, h | .dict _, .ref _ _, h | .dict _, .sym _, h
  | .dict _, .date _, h | .dict _, .time _, h | .dict _, .dateTime _, h | .dict _, .coord _ _, h
  | .dict _, .xstr _ _, h | .dict _, .list _, h | .dict _, .grid _ _ _ _, h => by simp [beqV] at h
  | .grid _ _ _ _, .null, h | .grid _ _ _ _, .remove, h | .grid _ _ _ _, .marker, h | .grid _ _ _ _, .bool _, h
  | .grid _ _ _ _, .na, h | .grid _ _ _ _, .num _, h | .grid _ _ _ _, .str _, h | .grid _ _ _ _, .uri _, h
  | .grid _ _ _ _, .ref _ _, h | .grid _ _ _ _, .sym _, h | .grid _ _ _ _, .date _, h | .grid _ _ _ _, .time _, h
  | .grid _ _ _ _, .dateTime _, h | .grid _ _ _ _, .coord _ _, h | .grid _ _ _ _, .xstr _ _, h
  | .grid _ _ _ _, .list _, h | .grid _ _ _ _, .dict _, h => by simp [beqV] at h
theorem beqVs_sound : ∀ a b : Vals, beqVs a b = true → a = b
  | .nil, .nil, _ => rfl
  | .cons a as, .cons b bs, h => by
    simp only [beqVs, Bool.and_eq_true] at h
    rw [beqV_sound a b h.1, beqVs_sound as bs h.2]
  | .nil, .cons _ _, h => by simp [beqVs] at h
  | .cons _ _, .nil, h => by simp [beqVs] at h
theorem beqT_sound : ∀ a b : Tags, beqT a b = true → a = b
  | .nil, .nil, _ => rfl
  | .cons k a as, .cons k' b bs, h => by
    simp only [beqT, Bool.and_eq_true, decide_eq_true_eq] at h
    rw [h.1.1, beqV_sound a b h.1.2, beqT_sound as bs h.2]
  | .nil, .cons _ _ _, h => by simp [beqT] at h
  | .cons _ _ _, .nil, h => by simp [beqT] at h
theorem beqO_sound : ∀ a b : OTags, beqO a b = true → a = b
  | .none, .none, _ => rfl
  | .some a, .some b, h => by simp only [beqO] at h; rw [beqT_sound a b h]
  | .none, .some _, h => by simp [beqO] at h
  | .some _, .none, h => by simp [beqO] at h
theorem beqC_sound : ∀ a b : Cols, beqC a b = true → a = b
  | .nil, .nil, _ => rfl
  | .cons n m c, .cons n' m' c', h => by
    simp only [beqC, Bool.and_eq_true, decide_eq_true_eq] at h
    rw [h.1.1, beqO_sound m m' h.1.2, beqC_sound c c' h.2]
  | .nil, .cons _ _ _, h => by simp [beqC] at h
  | .cons _ _ _, .nil, h => by simp [beqC] at h
theorem beqR_sound : ∀ a b : Rows, beqR a b = true → a = b
  | .nil, .nil, _ => rfl
  | .cons a as, .cons b bs, h => by
    simp only [beqR, Bool.and_eq_true] at h
    rw [beqT_sound a b h.1, beqR_sound as bs h.2]
  | .nil, .cons _ _, h => by simp [beqR] at h
  | .cons _ _, .nil, h => by simp [beqR] at h
end

/-- `r` is `ok v` -/
def isOkEq (r : Res Val) (v : Val) : Bool :=
  match r with
  | .ok w => beqV w v
  | _ => false

theorem isOkEq_sound {r : Res Val} {v : Val} (h : isOkEq r v = true) : r = .ok v := by
  cases r <;> simp [isOkEq] at h
  rw [beqV_sound _ _ h]

end Hs
