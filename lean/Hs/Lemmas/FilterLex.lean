/-
  The filter lexer on the tokens of printed filter text (C08): paths (`parse_id`, the identifier arm
  of `Lexer::read`, `parse_path`), parentheses, the end of the input, one separating space.
-/
import Hs.Lemmas.FilterScan
namespace Hs.FText
open Hs Hs.Scan Hs.Zinc

theorem forall_u8 (P : UInt8 → Bool) (h : ∀ n, n < 256 → P (UInt8.ofNat n) = true) : ∀ c, P c = true := by
  intro c
  have := h c.toNat c.toNat_lt
  simpa using this

/-- the bytes `Lexer::read` dispatches on before its identifier arm, and the two that follow an
identifier specially -/
def special (c : UInt8) : Bool :=
  c == 10 || c == 13 || c == 9 || c == 32 || c == 34 || c == 96 || c == 64 || c == 94 || isDigitB c || c == 45
    || c == 40 || c == 41 || c == 61 || c == 33 || c == 60 || c == 62 || c == 42 || c == 63

theorem lower_not_special : ∀ c : UInt8, (!isLowerB c || (!special c && !isWsB c && idByte c)) = true := by
  apply forall_u8
  decide +kernel

theorem lexRead_lower (F : Nat) (s : Scan) (he : s.eof = false) (hl : isLowerB s.cur = true) :
    lexRead (F + 1) s = lexId F s := by
  have h := lower_not_special s.cur
  simp only [hl, Bool.not_true, Bool.false_or, special, Bool.and_eq_true, Bool.not_eq_true',
    Bool.or_eq_false_iff] at h
  obtain ⟨⟨h1, _⟩, _⟩ := h
  unfold lexRead
  simp [he, h1, hl]


theorem idByte_facts : ∀ c : UInt8, (!idByte c || (!isWsB c && !(c == 45) && !(c == 63))) = true := by
  apply forall_u8
  decide +kernel

theorem idByte_not_ws {c : UInt8} (h : idByte c = true) : isWsB c = false ∧ (c == 45) = false ∧ (c == 63) = false := by
  have := idByte_facts c
  simp only [h, Bool.not_true, Bool.false_or, Bool.and_eq_true, Bool.not_eq_true'] at this
  exact ⟨this.1.1, this.1.2, this.2⟩

theorem lower_facts {c : UInt8} (h : isLowerB c = true) : isWsB c = false ∧ idByte c = true := by
  have := lower_not_special c
  simp only [h, Bool.not_true, Bool.false_or, Bool.and_eq_true, Bool.not_eq_true'] at this
  exact ⟨this.1.2, this.2⟩

/-- `Path` printed with the segments' ASCII bytes -/
def pathBytes : Path → List UInt8
  | [] => []
  | [seg] => segBytes seg
  | seg :: rest => segBytes seg ++ arrow ++ pathBytes rest

theorem printPath_eq : ∀ (p : Path), (∀ seg ∈ p, IdSeg seg) → printPath p = pathBytes p
  | [], _ => rfl
  | [seg], h => by simp [printPath, pathBytes, (h seg (by simp)).enc]
  | seg :: seg2 :: rest, h => by
    have ih := printPath_eq (seg2 :: rest) (fun x hx => h x (by simp [hx]))
    simp only [printPath, pathBytes, (h seg (by simp)).enc]
    rw [ih]

theorem segBytes_head {seg : List Char} (h : IdSeg seg) :
    ∃ b r, segBytes seg = b :: r ∧ isLowerB b = true := by
  have h2 := h.2
  cases hw : segBytes seg with
  | nil => rw [hw] at h2; simp [idBytesB] at h2
  | cons b r => rw [hw] at h2; simp only [idBytesB, Bool.and_eq_true] at h2; exact ⟨b, r, rfl, h2.1⟩

theorem pathBytes_head : ∀ (p : Path), p ≠ [] → (∀ seg ∈ p, IdSeg seg) →
    ∃ b r, pathBytes p = b :: r ∧ isLowerB b = true
  | [], h, _ => absurd rfl h
  | [seg], _, h => by simpa [pathBytes] using segBytes_head (h seg (by simp))
  | seg :: seg2 :: rest, _, h => by
    obtain ⟨b, r, h1, h2⟩ := segBytes_head (h seg (by simp))
    exact ⟨b, r ++ arrow ++ pathBytes (seg2 :: rest), by simp [pathBytes, h1], h2⟩

/-- what may follow a path in printed filter text: the end of the input, or one space and then a
byte that is neither white space nor `?` nor `-` -/
def PDelim (rest : List UInt8) : Prop :=
  rest = [] ∨ ∃ c r, rest = 32 :: c :: r ∧ isWsB c = false ∧ (c == 63) = false ∧ (c == 45) = false

/-- the text without the space the identifier arm consumes -/
def afterSp : List UInt8 → List UInt8
  | [] => []
  | _ :: t => t

theorem PDelim.noId {rest : List UInt8} (h : PDelim rest) : NoIdHead rest := by
  rcases h with h | ⟨c, r, h, _⟩ <;> subst h <;> simp [NoIdHead] ; decide

/-- the tail of `parse_path` and of the identifier arm after one segment has been read: the segment is
followed by `rest` -/
theorem seg_end (rest : List UInt8) (hd : PDelim rest) (n : Nat) (s1 : Scan) (hs1 : Views s1 rest)
    (hst : rest = [] → idByte s1.cur = true) :
    ∃ s2, consumeWhiteSpaces (n + 2) s1 = .ok s2 ∧ Views s2 (afterSp rest) ∧ (s2.cur == 45) = false
      ∧ (s2.cur == 63) = false := by
  rcases hd with h | ⟨c, r, h, hc1, hc2, hc3⟩
  · subst h
    have hid := idByte_not_ws (hst rfl)
    exact ⟨s1, cws_noop _ s1 hid.1, hs1, hid.2.1, hid.2.2⟩
  · subst h
    obtain ⟨s2, h1, h2⟩ := cws_skip [32] (by simp [isWsB]) (c :: r) hc1 (n + 2) s1 hs1 (by simp)
    have := Views.cons_cur h2
    exact ⟨s2, h1, h2, by rw [this]; exact hc3, by rw [this]; exact hc2⟩

theorem pathLoop_ok : ∀ (ps : Path), ps ≠ [] → (∀ seg ∈ ps, IdSeg seg) → ∀ (rest : List UInt8), PDelim rest →
    ∀ (fuel : Nat) (s : Scan) (acc : Path), Views s (pathBytes ps ++ rest) → (pathBytes ps).length + 3 ≤ fuel →
      ∃ s', pathLoop fuel s acc = .ok s' (.path (acc ++ ps)) ∧ Views s' (afterSp rest)
  | [], h, _, _, _, _, _, _, _, _ => absurd rfl h
  | [seg], _, hwf, rest, hd, fuel, s, acc, hs, hf => by
    have hseg := hwf seg (by simp)
    obtain ⟨b, r, hb, hlow⟩ := segBytes_head hseg
    simp only [pathBytes] at hs hf
    obtain ⟨F, rfl⟩ : ∃ F, fuel = F + 3 := ⟨fuel - 3, by omega⟩
    have he : s.eof = false := by rw [hb] at hs; exact Views.cons_eof hs
    obtain ⟨s1, h1, h2, h3⟩ := parseId_seg seg hseg rest hd.noId (F + 2) s hs (by omega)
    obtain ⟨s2, h4, h5, h6, _⟩ := seg_end rest hd F s1 h2 h3
    refine ⟨s2, ?_, h5⟩
    unfold pathLoop
    simp only [he, Bool.false_eq_true, if_false, h1, h4, h6]
  | seg :: seg2 :: ps, _, hwf, rest, hd, fuel, s, acc, hs, hf => by
    have hseg := hwf seg (by simp)
    obtain ⟨b, r, hb, hlow⟩ := segBytes_head hseg
    have hwf' : ∀ x ∈ seg2 :: ps, IdSeg x := fun x hx => hwf x (by simp [hx])
    obtain ⟨b2, r2, hb2, hlow2⟩ := pathBytes_head (seg2 :: ps) (by simp) hwf'
    simp only [pathBytes, List.append_assoc] at hs hf
    obtain ⟨F, rfl⟩ : ∃ F, fuel = F + 3 := ⟨fuel - 3, by omega⟩
    have he : s.eof = false := by rw [hb] at hs; exact Views.cons_eof hs
    have hno : NoIdHead (arrow ++ (pathBytes (seg2 :: ps) ++ rest)) := by simp [arrow, NoIdHead]; decide
    obtain ⟨s1, h1, h2, _⟩ := parseId_seg seg hseg _ hno (F + 2) s hs (by simp [List.length_append] at hf; omega)
    simp only [arrow, List.cons_append, List.nil_append] at h2
    have hc1 := Views.cons_cur h2
    have hws1 : isWsB s1.cur = false := by rw [hc1]; decide
    have hr := Views.read h2
    have hc3 := Views.cons_cur hr.2
    have hs5 := Views.advance hr.2
    rw [hb2] at hs5
    simp only [List.cons_append] at hs5
    have hc5 := Views.cons_cur hs5
    have hws5 : isWsB s1.read.2.advance.cur = false := by rw [hc5]; exact (lower_facts hlow2).1
    have ih := pathLoop_ok (seg2 :: ps) (by simp) hwf' rest hd (F + 2) s1.read.2.advance (acc ++ [seg])
      (by rw [hb2]; exact hs5) (by simp [arrow, List.length_append] at hf ⊢; omega)
    obtain ⟨s', h7, h8⟩ := ih
    refine ⟨s', ?_, h8⟩
    unfold pathLoop
    simp only [he, Bool.false_eq_true, if_false, h1, cws_noop _ s1 hws1, hc1]
    cases hrd : s1.read with
    | mk o s3 =>
      rw [hrd] at hr hc3 hws5 h7 hc5
      simp only at hr hc3 hws5 h7 hc5
      have ho : o = some 62 := by simpa using hr.1
      subst ho
      simp only [beq_self_eq_true, if_true, hc3, bne_self_eq_false, Bool.false_eq_true, if_false,
        cws_noop _ _ hws5, Scan.isLower, hc5, hlow2, Bool.not_true]
      rw [h7]; simp


/-- the identifier arm of `Lexer::read` on a printed path -/
theorem lexId_path : ∀ (p : Path), p ≠ [] → (∀ seg ∈ p, IdSeg seg) → ∀ (rest : List UInt8), PDelim rest →
    ∀ (fuel : Nat) (s : Scan), Views s (pathBytes p ++ rest) → (pathBytes p).length + 4 ≤ fuel →
      ∃ s', lexId fuel s = .ok s' (.path p) ∧ Views s' (afterSp rest)
  | [], h, _, _, _, _, _, _, _ => absurd rfl h
  | [seg], _, hwf, rest, hd, fuel, s, hs, hf => by
    have hseg := hwf seg (by simp)
    simp only [pathBytes] at hs hf
    obtain ⟨F, rfl⟩ : ∃ F, fuel = F + 4 := ⟨fuel - 4, by omega⟩
    obtain ⟨s1, h1, h2, h3⟩ := parseId_seg seg hseg rest hd.noId (F + 4) s hs (by omega)
    unfold lexId
    rw [h1]
    rcases hd with h | ⟨c, r, h, hc1, hc2, hc3⟩
    · subst h
      exact ⟨s1, by simp [Views.nil_eof h2], h2⟩
    · have hd' : PDelim rest := Or.inr ⟨c, r, h, hc1, hc2, hc3⟩
      obtain ⟨s2, h4, h5, h6, h7⟩ := seg_end rest hd' (F + 2) s1 h2 h3
      subst h
      refine ⟨s2, ?_, h5⟩
      simp only [Views.cons_eof h2, Bool.false_eq_true, if_false, h4, h6, h7]
  | seg :: seg2 :: ps, _, hwf, rest, hd, fuel, s, hs, hf => by
    have hseg := hwf seg (by simp)
    have hwf' : ∀ x ∈ seg2 :: ps, IdSeg x := fun x hx => hwf x (by simp [hx])
    obtain ⟨b2, r2, hb2, hlow2⟩ := pathBytes_head (seg2 :: ps) (by simp) hwf'
    simp only [pathBytes, List.append_assoc] at hs hf
    obtain ⟨F, rfl⟩ : ∃ F, fuel = F + 4 := ⟨fuel - 4, by omega⟩
    have hno : NoIdHead (arrow ++ (pathBytes (seg2 :: ps) ++ rest)) := by simp [arrow, NoIdHead]; decide
    obtain ⟨s1, h1, h2, _⟩ := parseId_seg seg hseg _ hno (F + 4) s hs (by simp [List.length_append] at hf; omega)
    simp only [arrow, List.cons_append, List.nil_append] at h2
    have hc1 := Views.cons_cur h2
    have hws1 : isWsB s1.cur = false := by rw [hc1]; decide
    have hr := Views.read h2
    have hc3 := Views.cons_cur hr.2
    have hr2 := Views.read hr.2
    have hs5 := hr2.2
    rw [hb2] at hs5 hr2
    simp only [List.cons_append] at hs5 hr2
    have hc5 := Views.cons_cur hs5
    have hws5 : isWsB s1.read.2.read.2.cur = false := by rw [hc5]; exact (lower_facts hlow2).1
    have ih := pathLoop_ok (seg2 :: ps) (by simp) hwf' rest hd (F + 4) s1.read.2.read.2 [seg]
      (by rw [hb2]; exact hs5) (by simp [arrow, List.length_append] at hf ⊢; omega)
    obtain ⟨s', h7, h8⟩ := ih
    refine ⟨s', ?_, h8⟩
    unfold lexId
    simp only [h1, Views.cons_eof h2, Bool.false_eq_true, if_false, cws_noop _ s1 hws1, hc1]
    cases hrd : s1.read with
    | mk o s3 =>
      rw [hrd] at hr hc3 hws5 h7 hr2
      simp only at hr hc3 hws5 h7 hr2
      have ho : o = some 62 := by simpa using hr.1
      subst ho
      cases hrd2 : s3.read with
      | mk o2 s4 =>
        rw [hrd2] at hws5 h7 hr2
        simp only at hws5 h7 hr2
        have ho2 : o2 = some b2 := by simpa using hr2.1
        subst ho2
        have e1 : ((45 : UInt8) == 63) = false := by decide
        simp only [hc3, e1, beq_self_eq_true, Bool.false_eq_true, if_false, if_true, hrd2, cws_noop _ _ hws5]
        rw [h7]; simp

/-! ### `Lexer::read` on the tokens of printed text -/

theorem lexRead_eof (F : Nat) (s : Scan) (h : Views s []) : lexRead (F + 1) s = .ok s .none := by
  unfold lexRead; simp [Views.nil_eof h]

theorem lexRead_lparen (F : Nat) (s : Scan) (r : List UInt8) (h : Views s (40 :: r)) :
    lexRead (F + 1) s = .ok s.advance .lparen ∧ Views s.advance r := by
  refine ⟨?_, h.advance⟩
  unfold lexRead
  simp [Views.cons_eof h, Views.cons_cur h, isDigitB]

theorem lexRead_rparen (F : Nat) (s : Scan) (r : List UInt8) (h : Views s (41 :: r)) :
    lexRead (F + 1) s = .ok s.advance .rparen ∧ Views s.advance r := by
  refine ⟨?_, h.advance⟩
  unfold lexRead
  simp [Views.cons_eof h, Views.cons_cur h, isDigitB]

theorem lexRead_path (p : Path) (hne : p ≠ []) (hwf : ∀ seg ∈ p, IdSeg seg) (rest : List UInt8)
    (hd : PDelim rest) (fuel : Nat) (s : Scan) (hs : Views s (pathBytes p ++ rest))
    (hf : (pathBytes p).length + 5 ≤ fuel) :
    ∃ s', lexRead fuel s = .ok s' (.path p) ∧ Views s' (afterSp rest) := by
  obtain ⟨F, rfl⟩ : ∃ F, fuel = F + 1 := ⟨fuel - 1, by omega⟩
  obtain ⟨b, r, hb, hlow⟩ := pathBytes_head p hne hwf
  have hs' := hs
  rw [hb] at hs'
  simp only [List.cons_append] at hs'
  rw [lexRead_lower F s (Views.cons_eof hs') (by rw [Views.cons_cur hs']; exact hlow)]
  exact lexId_path p hne hwf rest hd F s hs (by omega)

/-- one space before a token is skipped -/
theorem lexRead_space (F : Nat) (s : Scan) (c : UInt8) (r : List UInt8) (hc : isWsB c = false)
    (h : Views s (32 :: c :: r)) : ∃ s', lexRead (F + 2) s = lexRead (F + 1) s' ∧ Views s' (c :: r) := by
  obtain ⟨s', h1, h2⟩ := cws_skip [32] (by simp [isWsB]) (c :: r) hc (F + 2) s h (by simp)
  refine ⟨s', ?_, h2⟩
  conv => lhs; unfold lexRead
  simp [Views.cons_eof h, Views.cons_cur h, h1]

/-! ### Ref / Symbol bodies -/

/-- `is_alpha_num() || is_any_of("~:-._")` -/
def refByte (b : UInt8) : Bool := isDigitB b || isLowerB b || isUpperB b || isRefPunct b

theorem isRefCont_eq (s : Scan) : (s.isAlphaNum || isRefPunct s.cur) = refByte s.cur := by
  simp [Scan.isAlphaNum, Scan.isDigit, Scan.isLower, Scan.isUpper, refByte]

def NoRefHead (v : List UInt8) : Prop :=
  match v with
  | [] => True
  | b :: _ => refByte b = false

theorem refLoop_pass (w : List UInt8) (hw : ∀ b ∈ w, refByte b = true) (rest : List UInt8)
    (hrest : NoRefHead rest) :
    ∀ (fuel : Nat) (s : Scan) (acc : List UInt8), Views s (w ++ rest) → w.length < fuel →
      ∃ s', refLoop fuel s acc = .ok (acc ++ w, s') ∧ Views s' rest := by
  induction w with
  | nil =>
    intro fuel s acc hs hf
    cases fuel with
    | zero => omega
    | succ n =>
      unfold refLoop
      cases rest with
      | nil =>
        have := Views.nil_eof hs
        simp [this]
        exact hs
      | cons b r =>
        simp only [List.nil_append] at hs
        have hc := Views.cons_cur hs
        have he := Views.cons_eof hs
        have : (s.isAlphaNum || isRefPunct s.cur) = false := by rw [isRefCont_eq, hc]; exact hrest
        simp [he, this]
        exact hs
  | cons a w ih =>
    intro fuel s acc hs hf
    cases fuel with
    | zero => omega
    | succ n =>
      simp only [List.cons_append] at hs
      have hc := Views.cons_cur hs
      have he := Views.cons_eof hs
      have ha : refByte a = true := hw a (by simp)
      have : (s.isAlphaNum || isRefPunct s.cur) = true := by rw [isRefCont_eq, hc]; exact ha
      unfold refLoop
      simp only [he, this, Bool.not_false, Bool.and_self, if_true]
      obtain ⟨s', h1, h2⟩ := ih (fun b hb => hw b (by simp [hb])) n s.advance (acc ++ [s.cur]) hs.advance (by simp at hf; omega)
      refine ⟨s', ?_, h2⟩
      rw [h1, hc]; simp

theorem refByte_facts : ∀ c : UInt8, (!refByte c || (decide (c < 128) && !isWsB c)) = true := by
  apply forall_u8
  decide +kernel

theorem refByte_lt {c : UInt8} (h : refByte c = true) : c < 128 := by
  have := refByte_facts c
  simp only [h, Bool.not_true, Bool.false_or, Bool.and_eq_true, decide_eq_true_eq] at this
  exact this.1

/-- a Ref id / Symbol body as the Zinc readers accept it: ASCII over `[A-Za-z0-9~:._-]`, not empty -/
def RefSeg (seg : List Char) : Prop :=
  seg = (segBytes seg).map chr ∧ segBytes seg ≠ [] ∧ (segBytes seg).all refByte = true

instance (seg : List Char) : Decidable (RefSeg seg) := by unfold RefSeg; exact inferInstance

/-- a Symbol body starts with a lower-case letter -/
def SymSeg (seg : List Char) : Prop :=
  RefSeg seg ∧ (match segBytes seg with | b :: _ => isLowerB b | [] => false) = true

instance (seg : List Char) : Decidable (SymSeg seg) := by unfold SymSeg; exact inferInstance

theorem RefSeg.all {seg : List Char} (h : RefSeg seg) : ∀ b ∈ segBytes seg, refByte b = true := by
  have := h.2.2; simpa [List.all_eq_true] using this

theorem RefSeg.enc {seg : List Char} (h : RefSeg seg) : encChars seg = segBytes seg := by
  have := encChars_ascii (segBytes seg) (fun b hb => refByte_lt (h.all b hb))
  rw [← h.1] at this; exact this

theorem RefSeg.lossy {seg : List Char} (h : RefSeg seg) : lossy (segBytes seg) = seg := by
  rw [lossy_ascii _ (fun b hb => refByte_lt (h.all b hb))]; exact h.1.symm

example : RefSeg "p:demo:r:2a9f-1b".toList := by decide
example : SymSeg "hot-water".toList := by decide

/-- `^sym` followed by the end of the input or a byte outside the symbol alphabet -/
theorem lexRead_sym (sym : List Char) (hsym : SymSeg sym) (rest : List UInt8) (hrest : NoRefHead rest)
    (fuel : Nat) (s : Scan) (hs : Views s (94 :: (segBytes sym ++ rest))) (hf : (segBytes sym).length + 3 ≤ fuel) :
    ∃ s', lexRead fuel s = .ok s' (.val (.sym sym)) ∧ Views s' rest := by
  obtain ⟨F, rfl⟩ : ∃ F, fuel = F + 1 := ⟨fuel - 1, by omega⟩
  have hadv := hs.advance
  obtain ⟨s', h1, h2⟩ := refLoop_pass (segBytes sym) hsym.1.all rest hrest F s.advance [] hadv (by omega)
  refine ⟨s', ?_, h2⟩
  have hlow : s.advance.isLower = true := by
    have h3 := hsym.2
    cases hb : segBytes sym with
    | nil => rw [hb] at h3; simp at h3
    | cons b r =>
      rw [hb] at h3 hadv
      simp only [List.cons_append] at hadv
      simp only [Scan.isLower, Views.cons_cur hadv]; exact h3
  unfold lexRead
  simp only [Views.cons_eof hs, Views.cons_cur hs]
  have e : ∀ k : UInt8, k ≠ 94 → ((94 : UInt8) == k) = false := by intro k hk; simp; exact fun h => hk h.symm
  simp only [Bool.false_eq_true, if_false, e 10 (by decide), e 13 (by decide), e 9 (by decide), e 32 (by decide),
    e 34 (by decide), e 96 (by decide), e 64 (by decide), Bool.or_self, beq_self_eq_true, if_true]
  unfold parseSymbol
  simp only [Views.cons_cur hs, bne_self_eq_false, Bool.false_eq_true, if_false, hlow, Bool.not_true]
  rw [h1]
  simp only [List.nil_append]
  have hne : (segBytes sym).isEmpty = false := by
    cases hb : segBytes sym with
    | nil => exact absurd hb hsym.1.2.1
    | cons b r => rfl
  simp only [hne, Bool.false_eq_true, if_false, hsym.1.lossy]


/-- the scanner has looked one byte ahead: it stands on a space, the first byte `c` of `T` is in the
peek buffer (this is how `parse_ref` leaves it when no display name follows) -/
def Stashed (s : Scan) (T : List UInt8) : Prop :=
  ∃ c r, T = c :: r ∧ s.eof = false ∧ s.cur = 32 ∧ s.stash = [c] ∧ s.inp = r

/-- `peek` on a scanner positioned on `b :: c :: r` -/
theorem Views.peek {s : Scan} {b c : UInt8} {r : List UInt8} (h : Views s (b :: c :: r)) :
    s.peek.1 = some c ∧ s.peek.2.eof = false ∧ s.peek.2.cur = b ∧ s.peek.2.stash = [c] ∧ s.peek.2.inp = r := by
  obtain ⟨hs, he, hc, hi⟩ := h
  simp [Scan.peek, Scan.readByte, hs, hi, he, hc]

/-- reading from the peek buffer -/
theorem read_stashed {s : Scan} {c : UInt8} {r : List UInt8} (he : s.eof = false) (hst : s.stash = [c]) (hi : s.inp = r) :
    s.read.1 = some c ∧ Views s.read.2 (c :: r) := by
  simp [Scan.read, hst, Views, he, hi]

/-- `@id` followed by the end of the input, or by one space and a byte that is not `"` -/
theorem lexRead_ref (id : List Char) (hid : RefSeg id) (rest : List UInt8)
    (hrest : rest = [] ∨ ∃ c r, rest = 32 :: c :: r ∧ (c == 34) = false)
    (fuel : Nat) (s : Scan) (hs : Views s (64 :: (segBytes id ++ rest))) (hf : (segBytes id).length + 3 ≤ fuel) :
    ∃ s', lexRead fuel s = .ok s' (.val (.ref id none)) ∧
      ((rest = [] ∧ Views s' []) ∨ (∃ T, rest = 32 :: T ∧ Stashed s' T)) := by
  obtain ⟨F, rfl⟩ : ∃ F, fuel = F + 1 := ⟨fuel - 1, by omega⟩
  have hadv := hs.advance
  have hno : NoRefHead rest := by
    rcases hrest with h | ⟨c, r, h, _⟩ <;> subst h <;> simp [NoRefHead]; decide
  obtain ⟨s1, h1, h2⟩ := refLoop_pass (segBytes id) hid.all rest hno F s.advance [] hadv (by omega)
  have hne : (segBytes id).isEmpty = false := by
    cases hb : segBytes id with
    | nil => exact absurd hb hid.2.1
    | cons b r => rfl
  have e : ∀ k : UInt8, k ≠ 64 → ((64 : UInt8) == k) = false := by intro k hk; simp; exact fun h => hk h.symm
  rcases hrest with h | ⟨c, r, h, hc⟩
  · subst h
    refine ⟨s1, ?_, Or.inl ⟨rfl, h2⟩⟩
    unfold lexRead
    simp only [Views.cons_eof hs, Views.cons_cur hs]
    simp only [Bool.false_eq_true, if_false, e 10 (by decide), e 13 (by decide), e 9 (by decide), e 32 (by decide),
      e 34 (by decide), e 96 (by decide), Bool.or_self, beq_self_eq_true, if_true]
    unfold parseRef
    simp only [Views.cons_cur hs, bne_self_eq_false, Bool.false_eq_true, if_false, h1, List.nil_append, hne, hid.lossy]
    simp [Views.nil_eof h2]
  · subst h
    have hp := Views.peek h2
    refine ⟨s1.peek.2, ?_, Or.inr ⟨c :: r, rfl, c, r, rfl, hp.2.1, ?_, hp.2.2.2.1, hp.2.2.2.2⟩⟩
    · unfold lexRead
      simp only [Views.cons_eof hs, Views.cons_cur hs]
      simp only [Bool.false_eq_true, if_false, e 10 (by decide), e 13 (by decide), e 9 (by decide), e 32 (by decide),
        e 34 (by decide), e 96 (by decide), Bool.or_self, beq_self_eq_true, if_true]
      unfold parseRef
      simp only [Views.cons_cur hs, bne_self_eq_false, Bool.false_eq_true, if_false, h1, List.nil_append, hne, hid.lossy]
      simp only [Views.cons_eof h2, Views.cons_cur h2, Bool.not_false, beq_self_eq_true, Bool.and_self, if_true]
      cases hpk : s1.peek with
      | mk o s2 =>
        rw [hpk] at hp
        simp only at hp
        rw [hp.1]
        simp only [hc, Bool.false_eq_true, if_false]
    · exact hp.2.2.1

/-! ### operators -/

/-- `greater_or_less` on `<` / `>` followed by a space, and on `<=` / `>=` -/
theorem gol_single (s : Scan) (b : UInt8) (r : List UInt8) (t0 t1 : FTok) (hs : Views s (b :: 32 :: r)) :
    ∃ s', greaterOrLess s t0 t1 = .ok s' t0 ∧ Views s' (32 :: r) := by
  have hp := Views.peek hs
  have hrd := read_stashed hp.2.1 hp.2.2.2.1 hp.2.2.2.2
  refine ⟨s.peek.2.advance, ?_, hrd.2⟩
  unfold greaterOrLess
  cases hpk : s.peek with
  | mk o s1 =>
    rw [hpk] at hp
    simp only at hp
    rw [hp.1]
    simp

theorem gol_double (s : Scan) (b : UInt8) (r : List UInt8) (t0 t1 : FTok) (hs : Views s (b :: 61 :: r)) :
    ∃ s', greaterOrLess s t0 t1 = .ok s' t1 ∧ Views s' r := by
  have hp := Views.peek hs
  have hrd := read_stashed hp.2.1 hp.2.2.2.1 hp.2.2.2.2
  refine ⟨s.peek.2.read.2.advance, ?_, hrd.2.advance⟩
  unfold greaterOrLess
  cases hpk : s.peek with
  | mk o s1 =>
    rw [hpk] at hp hrd
    simp only at hp hrd
    rw [hp.1]
    simp only [beq_self_eq_true, if_true]
    cases hr2 : s1.read with
    | mk o2 s2 =>
      rw [hr2] at hrd
      simp only at hrd
      rw [hrd.1]


def opTok : CmpOp → FTok
  | .eq => .eq | .ne => .ne | .lt => .lt | .le => .le | .gt => .gt | .ge => .ge

/-- a comparison operator followed by a space -/
theorem lexRead_op (op : CmpOp) (r : List UInt8) (F : Nat) (s : Scan) (hs : Views s (printOp op ++ 32 :: r)) :
    ∃ s', lexRead (F + 1) s = .ok s' (opTok op) ∧ Views s' (32 :: r) := by
  cases op with
  | eq =>
    simp only [printOp, List.cons_append, List.nil_append] at hs
    have hr := hs.read
    refine ⟨s.read.2.advance, ?_, hr.2.advance⟩
    unfold lexRead
    simp only [Views.cons_eof hs, Views.cons_cur hs]
    have e : ∀ k : UInt8, k ≠ 61 → ((61 : UInt8) == k) = false := by intro k hk; simp; exact fun h => hk h.symm
    simp only [Bool.false_eq_true, if_false, e 10 (by decide), e 13 (by decide), e 9 (by decide), e 32 (by decide),
      e 34 (by decide), e 96 (by decide), e 64 (by decide), e 94 (by decide), e 45 (by decide), e 40 (by decide),
      e 41 (by decide), Bool.or_self, isDigitB, beq_self_eq_true, if_true]
    cases hrd : s.read with
    | mk o s1 =>
      rw [hrd] at hr
      simp only at hr
      have : o = some 61 := by simpa using hr.1
      subst this
      simp [Views.cons_cur hr.2, opTok]
  | ne =>
    simp only [printOp, List.cons_append, List.nil_append] at hs
    have hr := hs.read
    refine ⟨s.read.2.advance, ?_, hr.2.advance⟩
    unfold lexRead
    simp only [Views.cons_eof hs, Views.cons_cur hs]
    have e : ∀ k : UInt8, k ≠ 33 → ((33 : UInt8) == k) = false := by intro k hk; simp; exact fun h => hk h.symm
    simp only [Bool.false_eq_true, if_false, e 10 (by decide), e 13 (by decide), e 9 (by decide), e 32 (by decide),
      e 34 (by decide), e 96 (by decide), e 64 (by decide), e 94 (by decide), e 45 (by decide), e 40 (by decide),
      e 41 (by decide), e 61 (by decide), Bool.or_self, isDigitB, beq_self_eq_true, if_true]
    cases hrd : s.read with
    | mk o s1 =>
      rw [hrd] at hr
      simp only at hr
      have : o = some 61 := by simpa using hr.1
      subst this
      simp [Views.cons_cur hr.2, opTok]
  | lt =>
    simp only [printOp, List.cons_append, List.nil_append] at hs
    obtain ⟨s', h1, h2⟩ := gol_single s 60 r .lt .le hs
    refine ⟨s', ?_, h2⟩
    unfold lexRead
    simp only [Views.cons_eof hs, Views.cons_cur hs]
    have e : ∀ k : UInt8, k ≠ 60 → ((60 : UInt8) == k) = false := by intro k hk; simp; exact fun h => hk h.symm
    simp only [Bool.false_eq_true, if_false, e 10 (by decide), e 13 (by decide), e 9 (by decide), e 32 (by decide),
      e 34 (by decide), e 96 (by decide), e 64 (by decide), e 94 (by decide), e 45 (by decide), e 40 (by decide),
      e 41 (by decide), e 61 (by decide), e 33 (by decide), Bool.or_self, isDigitB, beq_self_eq_true, if_true]
    rw [h1]; rfl
  | le =>
    simp only [printOp, List.cons_append, List.nil_append] at hs
    obtain ⟨s', h1, h2⟩ := gol_double s 60 (32 :: r) .lt .le hs
    refine ⟨s', ?_, h2⟩
    unfold lexRead
    simp only [Views.cons_eof hs, Views.cons_cur hs]
    have e : ∀ k : UInt8, k ≠ 60 → ((60 : UInt8) == k) = false := by intro k hk; simp; exact fun h => hk h.symm
    simp only [Bool.false_eq_true, if_false, e 10 (by decide), e 13 (by decide), e 9 (by decide), e 32 (by decide),
      e 34 (by decide), e 96 (by decide), e 64 (by decide), e 94 (by decide), e 45 (by decide), e 40 (by decide),
      e 41 (by decide), e 61 (by decide), e 33 (by decide), Bool.or_self, isDigitB, beq_self_eq_true, if_true]
    rw [h1]; rfl
  | gt =>
    simp only [printOp, List.cons_append, List.nil_append] at hs
    obtain ⟨s', h1, h2⟩ := gol_single s 62 r .gt .ge hs
    refine ⟨s', ?_, h2⟩
    unfold lexRead
    simp only [Views.cons_eof hs, Views.cons_cur hs]
    have e : ∀ k : UInt8, k ≠ 62 → ((62 : UInt8) == k) = false := by intro k hk; simp; exact fun h => hk h.symm
    simp only [Bool.false_eq_true, if_false, e 10 (by decide), e 13 (by decide), e 9 (by decide), e 32 (by decide),
      e 34 (by decide), e 96 (by decide), e 64 (by decide), e 94 (by decide), e 45 (by decide), e 40 (by decide),
      e 41 (by decide), e 61 (by decide), e 33 (by decide), e 60 (by decide), Bool.or_self, isDigitB, beq_self_eq_true, if_true]
    rw [h1]; rfl
  | ge =>
    simp only [printOp, List.cons_append, List.nil_append] at hs
    obtain ⟨s', h1, h2⟩ := gol_double s 62 (32 :: r) .gt .ge hs
    refine ⟨s', ?_, h2⟩
    unfold lexRead
    simp only [Views.cons_eof hs, Views.cons_cur hs]
    have e : ∀ k : UInt8, k ≠ 62 → ((62 : UInt8) == k) = false := by intro k hk; simp; exact fun h => hk h.symm
    simp only [Bool.false_eq_true, if_false, e 10 (by decide), e 13 (by decide), e 9 (by decide), e 32 (by decide),
      e 34 (by decide), e 96 (by decide), e 64 (by decide), e 94 (by decide), e 45 (by decide), e 40 (by decide),
      e 41 (by decide), e 61 (by decide), e 33 (by decide), e 60 (by decide), Bool.or_self, isDigitB, beq_self_eq_true, if_true]
    rw [h1]; rfl


/-- `*==` followed by a space -/
theorem lexRead_weq (r : List UInt8) (F : Nat) (s : Scan) (hs : Views s (42 :: 61 :: 61 :: 32 :: r)) :
    ∃ s', lexRead (F + 1) s = .ok s' .weq ∧ Views s' (32 :: r) := by
  have hr1 := hs.read
  have hr2 := hr1.2.read
  have hr3 := hr2.2.read
  refine ⟨s.read.2.read.2.read.2, ?_, hr3.2⟩
  unfold lexRead
  simp only [Views.cons_eof hs, Views.cons_cur hs]
  have e : ∀ k : UInt8, k ≠ 42 → ((42 : UInt8) == k) = false := by intro k hk; simp; exact fun h => hk h.symm
  simp only [Bool.false_eq_true, if_false, e 10 (by decide), e 13 (by decide), e 9 (by decide), e 32 (by decide),
    e 34 (by decide), e 96 (by decide), e 64 (by decide), e 94 (by decide), e 45 (by decide), e 40 (by decide),
    e 41 (by decide), e 61 (by decide), e 33 (by decide), e 60 (by decide), e 62 (by decide), Bool.or_self, isDigitB,
    beq_self_eq_true, if_true]
  cases hrd1 : s.read with
  | mk o1 s1 =>
    rw [hrd1] at hr1 hr2 hr3
    simp only at hr1 hr2 hr3
    have : o1 = some 61 := by simpa using hr1.1
    subst this
    simp only
    unfold expectAndConsumeSeq
    simp only [Views.cons_cur hr1.2, bne_self_eq_false, Bool.false_eq_true, if_false]
    cases hrd2 : s1.read with
    | mk o2 s2 =>
      rw [hrd2] at hr2 hr3
      simp only at hr2 hr3
      have : o2 = some 61 := by simpa using hr2.1
      subst this
      simp only
      unfold expectAndConsumeSeq
      simp only [Views.cons_cur hr2.2, bne_self_eq_false, Bool.false_eq_true, if_false]
      cases hrd3 : s2.read with
      | mk o3 s3 =>
        rw [hrd3] at hr3
        simp only at hr3
        have : o3 = some 32 := by simpa using hr3.1
        subst this
        simp [expectAndConsumeSeq]

/-- a relation name: `name?` -/
theorem lexRead_rel (name : List Char) (hname : IdSeg name) (r : List UInt8) (fuel : Nat) (s : Scan)
    (hs : Views s (segBytes name ++ 63 :: r)) (hf : (segBytes name).length + 4 ≤ fuel) :
    ∃ s', lexRead fuel s = .ok s' (.rel name) ∧ Views s' r := by
  obtain ⟨F, rfl⟩ : ∃ F, fuel = F + 2 := ⟨fuel - 2, by omega⟩
  obtain ⟨b, w, hb, hlow⟩ := segBytes_head hname
  have hs' := hs
  rw [hb] at hs'
  simp only [List.cons_append] at hs'
  rw [lexRead_lower (F + 1) s (Views.cons_eof hs') (by rw [Views.cons_cur hs']; exact hlow)]
  obtain ⟨s1, h1, h2, _⟩ := parseId_seg name hname (63 :: r) (by simp [NoIdHead]; decide) (F + 1) s hs (by omega)
  refine ⟨s1.advance, ?_, h2.advance⟩
  unfold lexId
  have hws : isWsB s1.cur = false := by rw [Views.cons_cur h2]; decide
  simp only [h1, Views.cons_eof h2, Bool.false_eq_true, if_false, cws_noop _ s1 hws, Views.cons_cur h2,
    beq_self_eq_true, if_true]

/-! ### Str literals over ASCII -/

/-- `write_quoted_str`'s treatment of one ASCII character, on bytes -/
def escB (b : UInt8) : List UInt8 :=
  if b == 34 then [92, 34]
  else if b == 9 then [92, 116]
  else if b == 13 then [92, 114]
  else if b == 10 then [92, 110]
  else if b == 92 then [92, 92]
  else if b < 32 then uEscape b.toNat
  else if b == 36 then [92, 36]
  else [b]

theorem encStrChar_ascii_nat : ∀ n, n < 128 → encStrChar (Char.ofNat n) = escB (UInt8.ofNat n) := by
  decide +kernel

theorem encStrChar_chr (b : UInt8) (h : b < 128) : encStrChar (chr b) = escB b := by
  have hb : b.toNat < 128 := h
  unfold chr
  rw [encStrChar_ascii_nat _ hb]
  simp

theorem flatMap_encStrChar (w : List UInt8) (hw : ∀ b ∈ w, b < 128) :
    (w.map chr).flatMap encStrChar = w.flatMap escB := by
  induction w with
  | nil => rfl
  | cons a w ih =>
    simp only [List.map_cons, List.flatMap_cons]
    rw [encStrChar_chr a (hw a (by simp)), ih (fun b hb => hw b (by simp [hb]))]

/-- position counter: a successful read moves it on -/
theorem Views.read_pos {s : Scan} {b c : UInt8} {r : List UInt8} (h : Views s (b :: c :: r)) :
    s.read.2.pos = s.pos + 1 := by
  obtain ⟨hs, he, hc, hi⟩ := h
  simp [Scan.read, Scan.readByte, hs, hi]

theorem read_pos_le (s : Scan) : s.pos ≤ s.read.2.pos := by
  unfold Scan.read Scan.readByte
  cases hs : s.stash <;> cases hi : s.inp <;> simp

/-- the classes of `escB` -/
def rawB (b : UInt8) : Bool := !(b == 34) && !(b == 9) && !(b == 13) && !(b == 10) && !(b == 92) && !(b < 32) && !(b == 36)

theorem escB_raw (b : UInt8) (h : rawB b = true) : escB b = [b] ∧ (b == 34) = false ∧ (b == 92) = false := by
  simp only [rawB, Bool.and_eq_true, Bool.not_eq_true', decide_eq_false_iff_not] at h
  obtain ⟨⟨⟨⟨⟨⟨h1, h2⟩, h3⟩, h4⟩, h5⟩, h6⟩, h7⟩ := h
  refine ⟨?_, h1, h5⟩
  simp [escB, h1, h2, h3, h4, h5, h6, h7]

/-- one raw byte -/
theorem strLoop_raw (b : UInt8) (hb : rawB b = true) (rest : List UInt8) (F : Nat) (s : Scan) (acc : List UInt8)
    (hs : Views s (b :: rest)) :
    strLoop (F + 1) s acc = strLoop F s.advance (acc ++ [b]) ∧ Views s.advance rest ∧ s.pos ≤ s.advance.pos := by
  obtain ⟨_, h1, h2⟩ := escB_raw b hb
  refine ⟨?_, hs.advance, read_pos_le s⟩
  conv => lhs; unfold strLoop
  simp [Views.cons_cur hs, Views.cons_eof hs, h1, h2]

/-- a two-byte escape `\e` standing for the byte `b` -/
theorem strLoop_esc2 (e b : UInt8) (he : (e = 110 ∧ b = 10) ∨ (e = 114 ∧ b = 13) ∨ (e = 116 ∧ b = 9) ∨
      (e = 34 ∧ b = 34) ∨ (e = 36 ∧ b = 36) ∨ (e = 92 ∧ b = 92))
    (rest : List UInt8) (F : Nat) (s : Scan) (acc : List UInt8) (hs : Views s (92 :: e :: rest)) :
    ∃ s', strLoop (F + 1) s acc = strLoop F s' (acc ++ [b]) ∧ Views s' rest ∧ s.pos ≤ s'.pos := by
  have hr := hs.read
  have hp := read_pos_le s
  have hp2 := read_pos_le s.read.2
  refine ⟨s.read.2.advance, ?_, hr.2.advance, Nat.le_trans hp hp2⟩
  conv => lhs; unfold strLoop
  have e1 : ((92 : UInt8) == 34) = false := by decide
  simp only [Views.cons_cur hs, Views.cons_eof hs, e1, Bool.false_eq_true, if_false, beq_self_eq_true, if_true]
  unfold parseStrEscape Scan.readQ
  cases hrd : s.read with
  | mk o s1 =>
    rw [hrd] at hr
    simp only at hr
    have : o = some e := by simpa using hr.1
    subst this
    simp only [Views.cons_cur hr.2]
    rcases he with h | h | h | h | h | h <;> obtain ⟨rfl, rfl⟩ := h <;> simp [Scan.advance]


theorem readQ_views {s : Scan} {b c : UInt8} {r : List UInt8} (h : Views s (b :: c :: r)) :
    ∃ s1, s.readQ = .ok s1 ∧ Views s1 (c :: r) ∧ s.pos ≤ s1.pos := by
  have hr := h.read
  have hp := read_pos_le s
  unfold Scan.readQ
  cases hrd : s.read with
  | mk o s1 =>
    rw [hrd] at hr hp
    simp only at hr hp
    have : o = some c := by simpa using hr.1
    subst this
    exact ⟨s1, rfl, hr.2, hp⟩

theorem uesc_facts : ∀ n, n < 32 →
    uEscape n = [92, 117, 48, 48, hexDigitLower (n / 16), hexDigitLower (n % 16)] ∧
    isHexB (hexDigitLower (n / 16)) = true ∧ isHexB (hexDigitLower (n % 16)) = true ∧
    hexVal 48 * 4096 + hexVal 48 * 256 + hexVal (hexDigitLower (n / 16)) * 16 + hexVal (hexDigitLower (n % 16)) = n := by
  decide +kernel

/-- a control character written as `\u00XX` -/
theorem strLoop_uesc (n : Nat) (hn : n < 32) (rest : List UInt8) (F : Nat) (s : Scan) (acc : List UInt8)
    (hs : Views s (uEscape n ++ rest)) :
    ∃ s', strLoop (F + 1) s acc = strLoop F s' (acc ++ [UInt8.ofNat n]) ∧ Views s' rest ∧ s.pos ≤ s'.pos := by
  obtain ⟨hu, hx1, hx2, hval⟩ := uesc_facts n hn
  rw [hu] at hs
  simp only [List.cons_append, List.nil_append] at hs
  obtain ⟨s1, r1, v1, p1⟩ := readQ_views hs
  obtain ⟨s2, r2, v2, p2⟩ := readQ_views v1
  obtain ⟨s3, r3, v3, p3⟩ := readQ_views v2
  obtain ⟨s4, r4, v4, p4⟩ := readQ_views v3
  obtain ⟨s5, r5, v5, p5⟩ : ∃ s5, s4.readQ = .ok s5 ∧ Views s5 (hexDigitLower (n % 16) :: rest) ∧ s4.pos ≤ s5.pos :=
    readQ_views v4
  have hp6 := read_pos_le s5
  refine ⟨s5.advance, ?_, v5.advance, by unfold Scan.advance; omega⟩
  conv => lhs; unfold strLoop
  have e1 : ((92 : UInt8) == 34) = false := by decide
  simp only [Views.cons_cur hs, Views.cons_eof hs, e1, Bool.false_eq_true, if_false, beq_self_eq_true, if_true]
  unfold parseStrEscape
  rw [r1]
  simp only [Views.cons_cur v1]
  have e : ∀ k : UInt8, k ≠ 117 → ((117 : UInt8) == k) = false := by intro k hk; simp; exact fun h => hk h.symm
  simp only [e 98 (by decide), e 102 (by decide), e 110 (by decide), e 114 (by decide), e 116 (by decide),
    e 34 (by decide), e 36 (by decide), e 39 (by decide), e 96 (by decide), e 92 (by decide),
    Bool.false_eq_true, if_false, beq_self_eq_true, if_true]
  unfold parseUnicodeEscape
  simp only [Views.cons_cur v1, bne_self_eq_false, Bool.false_eq_true, if_false, r2, r3, r4, r5,
    Scan.isHexDigit, Views.cons_cur v2, Views.cons_cur v3, Views.cons_cur v4, Views.cons_cur v5, hx1, hx2,
    Bool.not_true]
  have h48 : isHexB 48 = true := by decide
  simp only [h48, Bool.not_true, Bool.false_eq_true, if_false, hval]
  have hsur : ¬ (0xD800 ≤ n ∧ n ≤ 0xDFFF) := by omega
  have henc : encChar (Char.ofNat n) = [UInt8.ofNat n] := by
    unfold encChar; exact encChar_ascii_nat n (by omega)
  simp [hsur, henc]


/-- one character of a printed Str -/
theorem strLoop_step (b : UInt8) (rest : List UInt8) (F : Nat) (s : Scan) (acc : List UInt8)
    (hs : Views s (escB b ++ rest)) :
    ∃ s', strLoop (F + 1) s acc = strLoop F s' (acc ++ [b]) ∧ Views s' rest ∧ s.pos ≤ s'.pos := by
  unfold escB at hs
  split at hs
  · rename_i h; have : b = 34 := by simpa using h
    subst this; exact strLoop_esc2 34 34 (by simp) rest F s acc hs
  · split at hs
    · rename_i h; have : b = 9 := by simpa using h
      subst this; exact strLoop_esc2 116 9 (by simp) rest F s acc hs
    · split at hs
      · rename_i h; have : b = 13 := by simpa using h
        subst this; exact strLoop_esc2 114 13 (by simp) rest F s acc hs
      · split at hs
        · rename_i h; have : b = 10 := by simpa using h
          subst this; exact strLoop_esc2 110 10 (by simp) rest F s acc hs
        · split at hs
          · rename_i h; have : b = 92 := by simpa using h
            subst this; exact strLoop_esc2 92 92 (by simp) rest F s acc hs
          · split at hs
            · rename_i h
              have hn : b.toNat < 32 := h
              have := strLoop_uesc b.toNat hn rest F s acc hs
              simpa using this
            · split at hs
              · rename_i h; have : b = 36 := by simpa using h
                subst this; exact strLoop_esc2 36 36 (by simp) rest F s acc hs
              · rename_i h1 h2 h3 h4 h5 h6 h7
                have hraw : rawB b = true := by
                  simp only [rawB, Bool.and_eq_true, Bool.not_eq_true', decide_eq_false_iff_not]
                  exact ⟨⟨⟨⟨⟨⟨by simpa using h1, by simpa using h2⟩, by simpa using h3⟩, by simpa using h4⟩,
                    by simpa using h5⟩, h6⟩, by simpa using h7⟩
                obtain ⟨h8, h9, h10⟩ := strLoop_raw b hraw rest F s acc hs
                exact ⟨s.advance, h8, h9, h10⟩

/-- the body of a printed Str up to its closing quote -/
theorem strLoop_body (w : List UInt8) (rest : List UInt8) :
    ∀ (fuel : Nat) (s : Scan) (acc : List UInt8), Views s (w.flatMap escB ++ 34 :: rest) → w.length < fuel →
      ∃ s', strLoop fuel s acc = .ok (acc ++ w, s') ∧ Views s' (34 :: rest) ∧ s.pos ≤ s'.pos := by
  induction w with
  | nil =>
    intro fuel s acc hs hf
    cases fuel with
    | zero => omega
    | succ n =>
      simp only [List.flatMap_nil, List.nil_append] at hs
      refine ⟨s, ?_, hs, Nat.le_refl _⟩
      unfold strLoop
      simp [Views.cons_cur hs]
  | cons a w ih =>
    intro fuel s acc hs hf
    cases fuel with
    | zero => omega
    | succ n =>
      simp only [List.flatMap_cons, List.append_assoc] at hs
      obtain ⟨s1, h1, h2, h3⟩ := strLoop_step a _ n s acc hs
      obtain ⟨s', h4, h5, h6⟩ := ih n s1 (acc ++ [a]) h2 (by simp at hf; omega)
      refine ⟨s', ?_, h5, Nat.le_trans h3 h6⟩
      rw [h1, h4]; simp

/-- ASCII text -/
def AsciiStr (cs : List Char) : Prop := cs = (segBytes cs).map chr ∧ (segBytes cs).all (· < 128) = true

instance (cs : List Char) : Decidable (AsciiStr cs) := by unfold AsciiStr; exact inferInstance

theorem AsciiStr.lt {cs : List Char} (h : AsciiStr cs) : ∀ b ∈ segBytes cs, b < 128 := by
  have := h.2; simpa [List.all_eq_true] using this

/-- `parse_str` on a printed ASCII Str -/
theorem parseStr_quoted (cs : List Char) (hcs : AsciiStr cs) (rest : List UInt8) (fuel : Nat) (s : Scan)
    (hs : Views s (encQuoted cs ++ rest)) (hf : (segBytes cs).length + 2 ≤ fuel) :
    ∃ s', parseStr fuel s = .ok (cs, s') ∧ Views s' rest := by
  have henc : encQuoted cs ++ rest = 34 :: ((segBytes cs).flatMap escB ++ 34 :: rest) := by
    unfold encQuoted
    rw [hcs.1, flatMap_encStrChar _ hcs.lt]
    simp [← hcs.1]
  rw [henc] at hs
  -- at least the closing quote follows the opening one
  have hnext : ∃ c r, (segBytes cs).flatMap escB ++ 34 :: rest = c :: r := by
    cases h : (segBytes cs).flatMap escB ++ 34 :: rest with
    | nil => simp at h
    | cons c r => exact ⟨c, r, rfl⟩
  obtain ⟨c, r, hcr⟩ := hnext
  have hpos : s.advance.pos = s.pos + 1 := by
    rw [hcr] at hs; exact Views.read_pos hs
  obtain ⟨s1, h1, h2, h3⟩ := strLoop_body (segBytes cs) rest fuel s.advance [] hs.advance (by omega)
  refine ⟨s1.advance, ?_, h2.advance⟩
  unfold parseStr
  simp only [Views.cons_cur hs, bne_self_eq_false, Bool.false_eq_true, if_false, h1, List.nil_append]
  have hne : (s.pos == s1.pos) = false := by simp; omega
  simp only [hne, Bool.false_eq_true, if_false]
  rw [lossy_ascii _ hcs.lt, ← hcs.1]

example : AsciiStr "a \"q\"\n\t$x\\ \u0001".toList := by decide


/-- a printed ASCII Str as a token -/
theorem lexRead_str (cs : List Char) (hcs : AsciiStr cs) (rest : List UInt8) (fuel : Nat) (s : Scan)
    (hs : Views s (encQuoted cs ++ rest)) (hf : (segBytes cs).length + 3 ≤ fuel) :
    ∃ s', lexRead fuel s = .ok s' (.val (.str cs)) ∧ Views s' rest := by
  obtain ⟨F, rfl⟩ : ∃ F, fuel = F + 1 := ⟨fuel - 1, by omega⟩
  obtain ⟨s', h1, h2⟩ := parseStr_quoted cs hcs rest F s hs (by omega)
  refine ⟨s', ?_, h2⟩
  have hs' : Views s (34 :: (cs.flatMap encStrChar ++ [34] ++ rest)) := by simpa [encQuoted] using hs
  unfold lexRead
  simp only [Views.cons_eof hs', Views.cons_cur hs']
  have e : ∀ k : UInt8, k ≠ 34 → ((34 : UInt8) == k) = false := by intro k hk; simp; exact fun h => hk h.symm
  simp only [Bool.false_eq_true, if_false, e 10 (by decide), e 13 (by decide), e 9 (by decide), e 32 (by decide),
    Bool.or_self, beq_self_eq_true, if_true, h1]

/-- `@id "dis"` followed by anything -/
theorem lexRead_refdis (id dis : List Char) (hid : RefSeg id) (hdis : AsciiStr dis) (rest : List UInt8)
    (fuel : Nat) (s : Scan) (hs : Views s (64 :: (segBytes id ++ 32 :: (encQuoted dis ++ rest))))
    (hf : (segBytes id).length + (segBytes dis).length + 5 ≤ fuel) :
    ∃ s', lexRead fuel s = .ok s' (.val (.ref id (some dis))) ∧ Views s' rest := by
  obtain ⟨F, rfl⟩ : ∃ F, fuel = F + 1 := ⟨fuel - 1, by omega⟩
  have hadv := hs.advance
  have hq : ∃ q, encQuoted dis ++ rest = 34 :: q := ⟨dis.flatMap encStrChar ++ 34 :: rest, by simp [encQuoted]⟩
  obtain ⟨q, hq⟩ := hq
  have hno : NoRefHead (32 :: (encQuoted dis ++ rest)) := by simp [NoRefHead]; decide
  obtain ⟨s1, h1, h2⟩ := refLoop_pass (segBytes id) hid.all _ hno F s.advance [] hadv (by omega)
  have hne : (segBytes id).isEmpty = false := by
    cases hb : segBytes id with
    | nil => exact absurd hb hid.2.1
    | cons b r => rfl
  rw [hq] at h2
  have hp := Views.peek h2
  have hrd := read_stashed hp.2.1 hp.2.2.2.1 hp.2.2.2.2
  rw [← hq] at hrd
  obtain ⟨s4, h4, h5⟩ := parseStr_quoted dis hdis rest F s1.peek.2.read.2 hrd.2 (by omega)
  refine ⟨s4, ?_, h5⟩
  have e : ∀ k : UInt8, k ≠ 64 → ((64 : UInt8) == k) = false := by intro k hk; simp; exact fun h => hk h.symm
  unfold lexRead
  simp only [Views.cons_eof hs, Views.cons_cur hs]
  simp only [Bool.false_eq_true, if_false, e 10 (by decide), e 13 (by decide), e 9 (by decide), e 32 (by decide),
    e 34 (by decide), e 96 (by decide), Bool.or_self, beq_self_eq_true, if_true]
  unfold parseRef
  simp only [Views.cons_cur hs, bne_self_eq_false, Bool.false_eq_true, if_false, h1, List.nil_append, hne, hid.lossy]
  simp only [Views.cons_eof h2, Views.cons_cur h2, Bool.not_false, beq_self_eq_true, Bool.and_self, if_true]
  cases hpk : s1.peek with
  | mk o s2 =>
    rw [hpk] at hp hrd h4
    simp only at hp hrd h4
    rw [hp.1]
    simp only [beq_self_eq_true, if_true]
    unfold Scan.readQ
    cases hr2 : s2.read with
    | mk o2 s3 =>
      rw [hr2] at hrd h4
      simp only at hrd h4
      rw [hrd.1]
      simp only [h4]

/-! ### Uri literals over ASCII -/

/-- `impl ToZinc for Uri`'s treatment of one ASCII character, on bytes -/
def escU (b : UInt8) : List UInt8 :=
  if b == 96 then [92, 96]
  else if b == 92 then [92, 92]
  else if b < 32 then uEscape b.toNat
  else [b]

theorem encUriChar_ascii_nat : ∀ n, n < 128 → encUriChar (Char.ofNat n) = escU (UInt8.ofNat n) := by
  decide +kernel

theorem flatMap_encUriChar (w : List UInt8) (hw : ∀ b ∈ w, b < 128) :
    (w.map chr).flatMap encUriChar = w.flatMap escU := by
  induction w with
  | nil => rfl
  | cons a w ih =>
    simp only [List.map_cons, List.flatMap_cons]
    have ha : a.toNat < 128 := hw a (by simp)
    have : encUriChar (chr a) = escU a := by
      unfold chr; rw [encUriChar_ascii_nat _ ha]; simp
    rw [this, ih (fun b hb => hw b (by simp [hb]))]

/-- one raw byte -/
theorem uriLoop_raw (b : UInt8) (h1 : (b == 96) = false) (h2 : (b == 92) = false) (rest : List UInt8) (F : Nat)
    (s : Scan) (acc : List UInt8) (hs : Views s (b :: rest)) :
    uriLoop (F + 1) s acc = uriLoop F s.advance (acc ++ [b]) ∧ Views s.advance rest ∧ s.pos ≤ s.advance.pos := by
  refine ⟨?_, hs.advance, read_pos_le s⟩
  conv => lhs; unfold uriLoop
  simp [Views.cons_cur hs, Views.cons_eof hs, h1, h2]

/-- `` \` `` and `\\` -/
theorem uriLoop_esc2 (e : UInt8) (he : e = 96 ∨ e = 92) (c : UInt8) (rest : List UInt8) (F : Nat) (s : Scan)
    (acc : List UInt8) (hs : Views s (92 :: e :: c :: rest)) :
    ∃ s', uriLoop (F + 1) s acc = uriLoop F s' (acc ++ [e]) ∧ Views s' (c :: rest) ∧ s.pos ≤ s'.pos := by
  have hp := Views.peek hs
  have hrd := read_stashed hp.2.1 hp.2.2.2.1 hp.2.2.2.2
  have hpos1 : s.peek.2.pos = s.pos := by simp [Scan.peek, Scan.readByte]; cases s.inp <;> simp
  have hpos2 := read_pos_le s.peek.2
  have hpos3 := read_pos_le s.peek.2.read.2
  refine ⟨s.peek.2.read.2.advance, ?_, hrd.2.advance, by unfold Scan.advance; omega⟩
  conv => lhs; unfold uriLoop
  have e1 : ((92 : UInt8) == 96) = false := by decide
  simp only [Views.cons_cur hs, Views.cons_eof hs, e1, Bool.false_eq_true, if_false, beq_self_eq_true, if_true]
  cases hpk : s.peek with
  | mk o s1 =>
    rw [hpk] at hp hrd
    simp only at hp hrd
    rw [hp.1]
    simp only
    unfold Scan.readQ
    cases hr2 : s1.read with
    | mk o2 s2 =>
      rw [hr2] at hrd
      simp only at hrd
      rw [hrd.1]
      rcases he with rfl | rfl <;> simp


/-- `parse_str_unicode_escape` on `u00XX` (cursor on `u`) -/
theorem unicodeEscape_views (n : Nat) (hn : n < 32) (rest : List UInt8) (s1 : Scan)
    (v1 : Views s1 (117 :: 48 :: 48 :: hexDigitLower (n / 16) :: hexDigitLower (n % 16) :: rest)) :
    ∃ s5, parseUnicodeEscape s1 = .ok ([UInt8.ofNat n], s5) ∧ Views s5 (hexDigitLower (n % 16) :: rest) ∧ s1.pos ≤ s5.pos := by
  obtain ⟨_, hx1, hx2, hval⟩ := uesc_facts n hn
  obtain ⟨s2, r2, v2, p2⟩ := readQ_views v1
  obtain ⟨s3, r3, v3, p3⟩ := readQ_views v2
  obtain ⟨s4, r4, v4, p4⟩ := readQ_views v3
  obtain ⟨s5, r5, v5, p5⟩ : ∃ s5, s4.readQ = .ok s5 ∧ Views s5 (hexDigitLower (n % 16) :: rest) ∧ s4.pos ≤ s5.pos :=
    readQ_views v4
  refine ⟨s5, ?_, v5, by omega⟩
  unfold parseUnicodeEscape
  simp only [Views.cons_cur v1, bne_self_eq_false, Bool.false_eq_true, if_false, r2, r3, r4, r5,
    Scan.isHexDigit, Views.cons_cur v2, Views.cons_cur v3, Views.cons_cur v4, Views.cons_cur v5, hx1, hx2,
    Bool.not_true]
  have h48 : isHexB 48 = true := by decide
  simp only [h48, Bool.not_true, Bool.false_eq_true, if_false, hval]
  have hsur : ¬ (0xD800 ≤ n ∧ n ≤ 0xDFFF) := by omega
  have henc : encChar (Char.ofNat n) = [UInt8.ofNat n] := by
    unfold encChar; exact encChar_ascii_nat n (by omega)
  simp [hsur, henc]

/-- a control character written as `\u00XX` inside a Uri -/
theorem uriLoop_uesc (n : Nat) (hn : n < 32) (rest : List UInt8) (F : Nat) (s : Scan) (acc : List UInt8)
    (hs : Views s (uEscape n ++ rest)) :
    ∃ s', uriLoop (F + 1) s acc = uriLoop F s' (acc ++ [UInt8.ofNat n]) ∧ Views s' rest ∧ s.pos ≤ s'.pos := by
  obtain ⟨hu, _, _, _⟩ := uesc_facts n hn
  rw [hu] at hs
  simp only [List.cons_append, List.nil_append] at hs
  have hp := Views.peek hs
  have hrd := read_stashed hp.2.1 hp.2.2.2.1 hp.2.2.2.2
  have hpos1 : s.peek.2.pos = s.pos := by simp [Scan.peek, Scan.readByte]; cases s.inp <;> simp
  have hpos2 := read_pos_le s.peek.2
  obtain ⟨s5, h5, v5, p5⟩ := unicodeEscape_views n hn rest s.peek.2.read.2 hrd.2
  have hpos3 := read_pos_le s5
  refine ⟨s5.advance, ?_, v5.advance, by unfold Scan.advance; omega⟩
  conv => lhs; unfold uriLoop
  have e1 : ((92 : UInt8) == 96) = false := by decide
  simp only [Views.cons_cur hs, Views.cons_eof hs, e1, Bool.false_eq_true, if_false, beq_self_eq_true, if_true]
  cases hpk : s.peek with
  | mk o s1 =>
    rw [hpk] at hp hrd h5
    simp only at hp hrd h5
    rw [hp.1]
    simp only
    have e : ∀ k : UInt8, k ≠ 117 → ((117 : UInt8) == k) = false := by intro k hk; simp; exact fun h => hk h.symm
    simp only [e 58 (by decide), e 47 (by decide), e 63 (by decide), e 35 (by decide), e 91 (by decide),
      e 93 (by decide), e 64 (by decide), e 96 (by decide), e 38 (by decide), e 61 (by decide), e 59 (by decide),
      e 92 (by decide), Bool.or_self, Bool.false_eq_true, if_false]
    unfold Scan.readQ
    cases hr2 : s1.read with
    | mk o2 s2 =>
      rw [hr2] at hrd h5
      simp only at hrd h5
      rw [hrd.1]
      simp only [h5]

/-- one character of a printed Uri (something — at least the closing backtick — follows) -/
theorem uriLoop_step (b : UInt8) (c : UInt8) (rest : List UInt8) (F : Nat) (s : Scan) (acc : List UInt8)
    (hs : Views s (escU b ++ c :: rest)) :
    ∃ s', uriLoop (F + 1) s acc = uriLoop F s' (acc ++ [b]) ∧ Views s' (c :: rest) ∧ s.pos ≤ s'.pos := by
  unfold escU at hs
  split at hs
  · rename_i h; have : b = 96 := by simpa using h
    subst this; exact uriLoop_esc2 96 (Or.inl rfl) c rest F s acc hs
  · split at hs
    · rename_i h; have : b = 92 := by simpa using h
      subst this; exact uriLoop_esc2 92 (Or.inr rfl) c rest F s acc hs
    · split at hs
      · rename_i h
        have hn : b.toNat < 32 := h
        have := uriLoop_uesc b.toNat hn (c :: rest) F s acc hs
        simpa using this
      · rename_i h1 h2 h3
        obtain ⟨h8, h9, h10⟩ := uriLoop_raw b (by simpa using h1) (by simpa using h2) (c :: rest) F s acc hs
        exact ⟨s.advance, h8, h9, h10⟩

theorem uriLoop_body (w : List UInt8) (rest : List UInt8) :
    ∀ (fuel : Nat) (s : Scan) (acc : List UInt8), Views s (w.flatMap escU ++ 96 :: rest) → w.length < fuel →
      ∃ s', uriLoop fuel s acc = .ok (acc ++ w, s') ∧ Views s' (96 :: rest) ∧ s.pos ≤ s'.pos := by
  induction w with
  | nil =>
    intro fuel s acc hs hf
    cases fuel with
    | zero => omega
    | succ n =>
      simp only [List.flatMap_nil, List.nil_append] at hs
      refine ⟨s, ?_, hs, Nat.le_refl _⟩
      unfold uriLoop
      simp [Views.cons_cur hs]
  | cons a w ih =>
    intro fuel s acc hs hf
    cases fuel with
    | zero => omega
    | succ n =>
      simp only [List.flatMap_cons, List.append_assoc] at hs
      have hnext : ∃ c r, w.flatMap escU ++ 96 :: rest = c :: r := by
        cases h : w.flatMap escU ++ 96 :: rest with
        | nil => simp at h
        | cons c r => exact ⟨c, r, rfl⟩
      obtain ⟨c, r, hcr⟩ := hnext
      rw [hcr] at hs
      obtain ⟨s1, h1, h2, h3⟩ := uriLoop_step a c r n s acc hs
      rw [← hcr] at h2
      obtain ⟨s', h4, h5, h6⟩ := ih n s1 (acc ++ [a]) h2 (by simp at hf; omega)
      refine ⟨s', ?_, h5, Nat.le_trans h3 h6⟩
      rw [h1, h4]; simp

/-- `parse_uri` on a printed ASCII Uri, as a token -/
theorem lexRead_uri (cs : List Char) (hcs : AsciiStr cs) (rest : List UInt8) (fuel : Nat) (s : Scan)
    (hs : Views s (encUri cs ++ rest)) (hf : (segBytes cs).length + 3 ≤ fuel) :
    ∃ s', lexRead fuel s = .ok s' (.val (.uri cs)) ∧ Views s' rest := by
  obtain ⟨F, rfl⟩ : ∃ F, fuel = F + 1 := ⟨fuel - 1, by omega⟩
  have henc : encUri cs ++ rest = 96 :: ((segBytes cs).flatMap escU ++ 96 :: rest) := by
    have e : cs.flatMap encUriChar = (segBytes cs).flatMap escU := by
      conv => lhs; rw [hcs.1]
      exact flatMap_encUriChar _ hcs.lt
    unfold encUri
    rw [e]; simp
  rw [henc] at hs
  have hnext : ∃ c r, (segBytes cs).flatMap escU ++ 96 :: rest = c :: r := by
    cases h : (segBytes cs).flatMap escU ++ 96 :: rest with
    | nil => simp at h
    | cons c r => exact ⟨c, r, rfl⟩
  obtain ⟨c, r, hcr⟩ := hnext
  have hpos : s.advance.pos = s.pos + 1 := by
    rw [hcr] at hs; exact Views.read_pos hs
  obtain ⟨s1, h1, h2, h3⟩ := uriLoop_body (segBytes cs) rest F s.advance [] hs.advance (by omega)
  refine ⟨s1.advance, ?_, h2.advance⟩
  unfold lexRead
  simp only [Views.cons_eof hs, Views.cons_cur hs]
  have e : ∀ k : UInt8, k ≠ 96 → ((96 : UInt8) == k) = false := by intro k hk; simp; exact fun h => hk h.symm
  simp only [Bool.false_eq_true, if_false, e 10 (by decide), e 13 (by decide), e 9 (by decide), e 32 (by decide),
    e 34 (by decide), Bool.or_self, beq_self_eq_true, if_true]
  unfold parseUri
  simp only [Views.cons_cur hs, bne_self_eq_false, Bool.false_eq_true, if_false, h1, List.nil_append]
  have hne : (s.pos == s1.pos) = false := by simp; omega
  simp only [hne, Bool.false_eq_true, if_false]
  rw [lossy_ascii _ hcs.lt, ← hcs.1]

end Hs.FText
