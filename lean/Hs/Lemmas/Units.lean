/-
  Hs.Lemmas.Units — general lemmas for C15 (nothing here looks at the contents of the unit table):
  * an injective `Nat` key for strings and a kernel-reducible merge sort whose result is a permutation of
    its input: two linear-time certificates (`TableOK`) then give "the `UNITS` entries are exactly the ids of
    the units, and no key occurs twice";
  * `HashMap` lookup under that certificate;
  * UTF-8 encoding is injective;
  * the framing lemmas of the Zinc number lexer.
-/
import Hs.Model.Units
namespace Hs.Units
open Hs Hs.Gen.Units

/-! ### an injective key -/

def keyBase : Nat := 0x110000

/-- little-endian base-`0x110000` digits above a leading 1 -/
def keyOf : List Char → Nat
  | [] => 1
  | c :: cs => c.toNat + keyBase * keyOf cs

theorem keyOf_pos : ∀ s, 0 < keyOf s
  | [] => by simp [keyOf]
  | c :: cs => by
    have := keyOf_pos cs
    simp only [keyOf, keyBase]
    have : 0 < 0x110000 * keyOf cs := Nat.mul_pos (by decide) this
    omega

theorem char_lt_base (c : Char) : c.toNat < keyBase := by
  have h := c.valid
  simp only [keyBase, Char.toNat]
  rcases h with h | h
  · have : c.val.toNat < 0xd800 := h
    omega
  · have : c.val.toNat < 0x110000 := h.2
    omega

theorem keyOf_inj : ∀ a b : List Char, keyOf a = keyOf b → a = b
  | [], [] => fun _ => rfl
  | [], c :: cs => by
    intro h
    have hp := keyOf_pos cs
    simp only [keyOf, keyBase] at h
    have : 0x110000 ≤ 0x110000 * keyOf cs := Nat.le_mul_of_pos_right _ hp
    omega
  | c :: cs, [] => by
    intro h
    have hp := keyOf_pos cs
    simp only [keyOf, keyBase] at h
    have : 0x110000 ≤ 0x110000 * keyOf cs := Nat.le_mul_of_pos_right _ hp
    omega
  | c :: cs, d :: ds => by
    intro h
    have hc := char_lt_base c
    have hd := char_lt_base d
    simp only [keyOf] at h
    have h1 : (c.toNat + keyBase * keyOf cs) % keyBase = (d.toNat + keyBase * keyOf ds) % keyBase := by rw [h]
    have h2 : (c.toNat + keyBase * keyOf cs) / keyBase = (d.toNat + keyBase * keyOf ds) / keyBase := by rw [h]
    have hb : 0 < keyBase := by decide
    rw [Nat.add_mul_mod_self_left, Nat.add_mul_mod_self_left, Nat.mod_eq_of_lt hc, Nat.mod_eq_of_lt hd] at h1
    rw [Nat.add_mul_div_left _ _ hb, Nat.add_mul_div_left _ _ hb, Nat.div_eq_of_lt hc, Nat.div_eq_of_lt hd,
      Nat.zero_add, Nat.zero_add] at h2
    have := keyOf_inj cs ds h2
    have hcd : c = d := Char.toNat_inj.1 h1
    rw [this, hcd]

/-! ### a merge sort the kernel can run -/

abbrev KI := Nat × Nat

def mergeF : Nat → List KI → List KI → List KI
  | 0, xs, ys => xs ++ ys
  | f + 1, xs, ys =>
    match xs, ys with
    | [], ys => ys
    | xs, [] => xs
    | x :: xs', y :: ys' =>
      if x.1 ≤ y.1 then x :: mergeF f xs' (y :: ys') else y :: mergeF f (x :: xs') ys'

def mergePairs (fuel : Nat) : List (List KI) → List (List KI)
  | a :: b :: rest => mergeF fuel a b :: mergePairs fuel rest
  | [a] => [a]
  | [] => []

def mergeAll (fuel : Nat) : Nat → List (List KI) → List KI
  | 0, ls => ls.flatten
  | r + 1, ls =>
    match ls with
    | [] => []
    | [a] => a
    | a :: b :: rest => mergeAll fuel r (mergePairs fuel (a :: b :: rest))

def msort (l : List KI) : List KI := mergeAll l.length l.length (l.map fun x => [x])

/-- strictly ascending in the first component -/
def strictAsc : List KI → Bool
  | a :: b :: rest => decide (a.1 < b.1) && strictAsc (b :: rest)
  | _ => true

theorem mergeF_perm : ∀ (f : Nat) (xs ys : List KI), (mergeF f xs ys).Perm (xs ++ ys)
  | 0, xs, ys => by simp [mergeF]
  | f + 1, [], ys => by simp [mergeF]
  | f + 1, x :: xs, [] => by simp [mergeF]
  | f + 1, x :: xs, y :: ys => by
    simp only [mergeF]
    split
    · exact (mergeF_perm f xs (y :: ys)).cons x
    · have h := (mergeF_perm f (x :: xs) ys).cons y
      refine h.trans ?_
      exact (List.perm_middle (a := y) (l₁ := x :: xs) (l₂ := ys)).symm

theorem mergePairs_perm (f : Nat) : ∀ ls : List (List KI), (mergePairs f ls).flatten.Perm ls.flatten
  | [] => by simp [mergePairs]
  | [a] => by simp [mergePairs]
  | a :: b :: rest => by
    simp only [mergePairs, List.flatten_cons]
    rw [← List.append_assoc]
    exact (mergeF_perm f a b).append (mergePairs_perm f rest)

theorem mergeAll_perm (f : Nat) : ∀ (r : Nat) (ls : List (List KI)), (mergeAll f r ls).Perm ls.flatten
  | 0, ls => by simp [mergeAll]
  | r + 1, [] => by simp [mergeAll]
  | r + 1, [a] => by simp [mergeAll]
  | r + 1, a :: b :: rest => by
    simp only [mergeAll]
    exact (mergeAll_perm f r _).trans (mergePairs_perm f _)

theorem flatten_singletons : ∀ l : List KI, (l.map fun x => [x]).flatten = l
  | [] => rfl
  | x :: xs => by simp [flatten_singletons xs]

theorem msort_perm (l : List KI) : (msort l).Perm l := by
  have := mergeAll_perm l.length l.length (l.map fun x => [x])
  rwa [flatten_singletons] at this

theorem strictAsc_head_lt : ∀ (l : List KI) (a : KI), strictAsc (a :: l) = true → ∀ b ∈ l, a.1 < b.1
  | [], _, _ => by simp
  | c :: l, a, h => by
    simp only [strictAsc, Bool.and_eq_true, decide_eq_true_eq] at h
    intro b hb
    rcases List.mem_cons.1 hb with rfl | hb
    · exact h.1
    · exact Nat.lt_trans h.1 (strictAsc_head_lt l c h.2 b hb)

theorem strictAsc_tail : ∀ (l : List KI) (a : KI), strictAsc (a :: l) = true → strictAsc l = true
  | [], _, _ => rfl
  | c :: l, a, h => by
    simp only [strictAsc, Bool.and_eq_true] at h
    exact h.2

theorem strictAsc_nodup : ∀ l : List KI, strictAsc l = true → (l.map (·.1)).Nodup
  | [], _ => by simp
  | a :: l, h => by
    simp only [List.map_cons, List.nodup_cons, List.mem_map]
    refine ⟨?_, strictAsc_nodup l (strictAsc_tail l a h)⟩
    rintro ⟨b, hb, hab⟩
    have := strictAsc_head_lt l a h b hb
    omega

/-! ### the ids of the units, flattened -/

def flatIdsFrom (i : Nat) : List Row → List (List Char × Nat)
  | [] => []
  | u :: us => (u.ids.map fun s => (s, i)) ++ flatIdsFrom (i + 1) us

/-- every (id, index of its unit), in table order -/
def flatIds : List (List Char × Nat) := flatIdsFrom 0 units

theorem mem_flatIdsFrom {s : List Char} {j : Nat} :
    ∀ (us : List Row) (i : Nat), (s, j) ∈ flatIdsFrom i us ↔ i ≤ j ∧ ∃ u, us[j - i]? = some u ∧ s ∈ u.ids
  | [], i => by simp [flatIdsFrom]
  | u :: us, i => by
    simp only [flatIdsFrom, List.mem_append, List.mem_map, Prod.mk.injEq, mem_flatIdsFrom us (i + 1)]
    constructor
    · rintro (⟨s', hs', rfl, rfl⟩ | ⟨hle, u', hu', hs'⟩)
      · exact ⟨Nat.le_refl _, u, by simp, hs'⟩
      · refine ⟨by omega, u', ?_, hs'⟩
        have : j - i = (j - (i + 1)) + 1 := by omega
        rw [this, List.getElem?_cons_succ]; exact hu'
    · rintro ⟨hle, u', hu', hs'⟩
      by_cases hij : j = i
      · subst hij
        simp only [Nat.sub_self, List.getElem?_cons_zero, Option.some.injEq] at hu'
        subst hu'
        exact .inl ⟨s, hs', rfl, rfl⟩
      · refine .inr ⟨by omega, u', ?_, hs'⟩
        have : j - i = (j - (i + 1)) + 1 := by omega
        rw [this, List.getElem?_cons_succ] at hu'; exact hu'

theorem mem_flatIds {s : List Char} {j : Nat} : (s, j) ∈ flatIds ↔ ∃ u, units[j]? = some u ∧ s ∈ u.ids := by
  simp [flatIds, mem_flatIdsFrom]

def keyed (l : List (List Char × Nat)) : List KI := l.map fun e => (keyOf e.1, e.2)

theorem keyed_inj {a b : List Char × Nat} (h : (keyOf a.1, a.2) = (keyOf b.1, b.2)) : a = b := by
  obtain ⟨a1, a2⟩ := a
  obtain ⟨b1, b2⟩ := b
  simp only [Prod.mk.injEq] at h
  rw [keyOf_inj _ _ h.1, h.2]

theorem mem_keyed {e : List Char × Nat} {l : List (List Char × Nat)} : (keyOf e.1, e.2) ∈ keyed l ↔ e ∈ l := by
  simp only [keyed, List.mem_map]
  constructor
  · rintro ⟨e', he', h⟩
    rw [← keyed_inj h]; exact he'
  · intro h; exact ⟨e, h, rfl⟩

theorem nodup_of_map {α β : Type} (f : α → β) {l : List α} (h : (l.map f).Nodup) : l.Nodup := by
  have := List.pairwise_map.1 h
  exact this.imp fun {a b} hne heq => hne (congrArg f heq)

theorem nodup_keys_of_keyed {l : List (List Char × Nat)} (h : ((keyed l).map (·.1)).Nodup) : (l.map (·.1)).Nodup := by
  have : (keyed l).map (·.1) = (l.map (·.1)).map keyOf := by simp [keyed, List.map_map, Function.comp_def]
  rw [this] at h
  exact nodup_of_map _ h

/-- The two certificates the kernel checks on the generated table (`es` = the `UNITS` entries, `fs` = the ids of
the units flattened); both are linear up to the `n log n` of the sort. -/
structure TableOK (es fs : List (List Char × Nat)) : Prop where
  same : msort (keyed es) = msort (keyed fs)
  asc : strictAsc (msort (keyed es)) = true

section
variable {es fs : List (List Char × Nat)}

theorem TableOK.perm (h : TableOK es fs) : (keyed es).Perm (keyed fs) := by
  have h1 := msort_perm (keyed es)
  have h2 := msort_perm (keyed fs)
  rw [← h.same] at h2
  exact h1.symm.trans h2

theorem TableOK.mem_iff (h : TableOK es fs) (e : List Char × Nat) : e ∈ es ↔ e ∈ fs := by
  rw [← mem_keyed, ← mem_keyed (l := fs)]
  exact h.perm.mem_iff

theorem TableOK.entries_nodup (h : TableOK es fs) : (es.map (·.1)).Nodup := by
  apply nodup_keys_of_keyed
  have := strictAsc_nodup _ h.asc
  exact ((msort_perm (keyed es)).map (·.1)).nodup_iff.1 this

theorem TableOK.flatIds_nodup (h : TableOK es fs) : (fs.map (·.1)).Nodup := by
  apply nodup_keys_of_keyed
  have := strictAsc_nodup _ h.asc
  rw [h.same] at this
  exact ((msort_perm (keyed fs)).map (·.1)).nodup_iff.1 this

end

/-! ### `HashMap` lookup -/

theorem findIdx_none {s : List Char} : ∀ {l : List (List Char × Nat)}, s ∉ l.map (·.1) → findIdx s l = none
  | [], _ => rfl
  | (k, i) :: rest, h => by
    simp only [List.map_cons, List.mem_cons, not_or] at h
    simp only [findIdx, findIdx_none h.2]
    rw [if_neg (fun hk => h.1 hk.symm)]

theorem findIdx_some_mem {s : List Char} {i : Nat} :
    ∀ {l : List (List Char × Nat)}, findIdx s l = some i → (s, i) ∈ l
  | [], h => by simp [findIdx] at h
  | (k, j) :: rest, h => by
    simp only [findIdx] at h
    cases hr : findIdx s rest with
    | some j' =>
      rw [hr] at h
      simp only [Option.some.injEq] at h
      subst h
      exact List.mem_cons_of_mem _ (findIdx_some_mem hr)
    | none =>
      rw [hr] at h
      simp only at h
      split at h
      · next hk => cases h; subst hk; exact List.mem_cons_self ..
      · cases h

theorem findIdx_of_mem_nodup {s : List Char} {i : Nat} :
    ∀ {l : List (List Char × Nat)}, (l.map (·.1)).Nodup → (s, i) ∈ l → findIdx s l = some i
  | [], _, h => by simp at h
  | (k, j) :: rest, hn, h => by
    simp only [List.map_cons, List.nodup_cons] at hn
    rcases List.mem_cons.1 h with h | h
    · simp only [Prod.mk.injEq] at h
      obtain ⟨rfl, rfl⟩ := h
      simp only [findIdx, findIdx_none hn.1]
      simp
    · have := findIdx_of_mem_nodup hn.2 h
      simp [findIdx, this]

/-! ### UTF-8 is injective -/

theorem utf8_inj {a b : List Char} (h : utf8 a = utf8 b) : a = b := by
  have h1 : a.utf8Encode = b.utf8Encode := by
    simp only [List.utf8Encode]
    have : a.flatMap String.utf8EncodeChar = b.flatMap String.utf8EncodeChar := h
    rw [this]
  have h2 : String.ofList a = String.ofList b := by
    rw [← String.toByteArray_inj, String.toByteArray_ofList, String.toByteArray_ofList, h1]
  have := congrArg String.toList h2
  rwa [String.toList_ofList, String.toList_ofList] at this

theorem findIdxBytes_utf8 (s : List Char) : ∀ l : List (List Char × Nat), findIdxBytes (utf8 s) l = findIdx s l
  | [] => rfl
  | (k, i) :: rest => by
    simp only [findIdxBytes, findIdx, findIdxBytes_utf8 s rest]
    by_cases hk : k = s
    · subst hk; simp
    · have : utf8 k ≠ utf8 s := fun h => hk (utf8_inj h)
      simp [hk, this]

theorem getUnitOfBytes_utf8 (s : List Char) : getUnitOfBytes (utf8 s) = getUnit s := by
  unfold getUnitOfBytes getUnit getUnitIdx
  rw [findIdxBytes_utf8]

/-! ### framing lemmas of the number lexer -/

theorem parseUnit_reads : ∀ (s rest : List UInt8), (∀ b ∈ s, isUnitChar b = true) → Delim rest →
    parseUnit (s ++ rest) = (s, rest)
  | [], rest, _, hd => by
    rcases hd with rfl | ⟨b, r, rfl, hb⟩
    · rfl
    · simp [parseUnit, hb]
  | b :: s, rest, hs, hd => by
    have hb : isUnitChar b = true := hs b (List.mem_cons_self ..)
    have ih := parseUnit_reads s rest (fun x hx => hs x (List.mem_cons_of_mem _ hx)) hd
    simp [parseUnit, hb, ih]

theorem scanDecimal_reads : ∀ (d r : List UInt8), DecimalText d →
    (r = [] ∨ ∃ b r', r = b :: r' ∧ isDecChar b = false) → scanDecimal (d ++ r) = (d, r)
  | [], r, _, hr => by
    rcases hr with rfl | ⟨b, r', rfl, hb⟩
    · rfl
    · simp [scanDecimal, hb]
  | b :: d, r, hd, hr => by
    have hb := hd b (List.mem_cons_self ..)
    have ih := scanDecimal_reads d r (fun x hx => hd x (List.mem_cons_of_mem _ hx)) hr
    simp [scanDecimal, hb.1, hb.2, ih]

theorem lexExponent_none (s rest : List UInt8) (hp : expPrefix s = false) (hne : s ≠ []) :
    lexExponent (s ++ rest) = .ok (none, s ++ rest) := by
  match s, hne with
  | [b], _ =>
    have hb : expLetters.contains b = false := hp
    simp only [List.cons_append, List.nil_append, lexExponent, hb, Bool.false_eq_true, if_false]
  | b :: c :: s', _ =>
    simp only [List.cons_append, lexExponent]
    cases hb : expLetters.contains b with
    | false => simp only [Bool.false_eq_true, if_false]
    | true =>
      have hc : (expNext.contains c || isDigit c) = false := by
        have hp' : (expLetters.contains b && (expNext.contains c || isDigit c)) = false := hp
        rw [hb, Bool.true_and] at hp'
        exact hp'
      simp only [hc, if_true, Bool.false_eq_true, if_false]

/-- The composed framing statement: a decimal text followed by a lexable symbol and a delimiter splits
back into exactly that decimal and that symbol. -/
theorem lexNumberText_reads (d s rest : List UInt8) (hd : DecimalText d)
    (hs : ∀ b ∈ s, isUnitChar b = true) (hne : s ≠ [])
    (hfirst : ∀ b, s.head? = some b → isDecChar b = false) (hexp : expPrefix s = false) (hrest : Delim rest) :
    lexNumberText (d ++ s ++ rest) = .ok ⟨d, none, some s, rest⟩ := by
  obtain ⟨b, s', rfl⟩ := List.exists_cons_of_ne_nil hne
  have hb : isUnitChar b = true := hs b (List.mem_cons_self ..)
  have h1 : scanDecimal (d ++ (b :: s' ++ rest)) = (d, b :: s' ++ rest) :=
    scanDecimal_reads d _ hd (.inr ⟨b, s' ++ rest, rfl, hfirst b rfl⟩)
  have h2 := lexExponent_none (b :: s') rest hexp hne
  have h3 := parseUnit_reads (b :: s') rest hs hrest
  simp only [lexNumberText, List.append_assoc, h1, h2]
  simp only [List.cons_append] at h3 ⊢
  simp [hb, h3]

end Hs.Units
