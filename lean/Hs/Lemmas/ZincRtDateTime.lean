/-
  C01 ladder, rung 4h: timestamps `dddd-dd-ddTdd:dd:dd[.d+]` + zone through `parse_number_date_time`
  and `parse_datetime`.  The decoded value is the token's text (see the header of ZincLex.lean).
-/
import Hs.Lemmas.ZincRtZone
namespace Hs.Zinc
open Hs Hs.Scan

/-- the zone name resolves (`UTC` is accepted without the table) -/
def nameResolves (name : List UInt8) : Bool := name == [85, 84, 67] || tzResolves name

/-- the zone part of a timestamp token -/
def zoneOk (z : List UInt8) : Bool :=
  match z with
  | [90] => true
  | 90 :: 32 :: name => tzNameOk name && nameResolves name
  | sg :: o0 :: o1 :: 58 :: o2 :: o3 :: 32 :: name =>
    (sg == 43 || sg == 45) && isDigitB o0 && isDigitB o1 && isDigitB o2 && isDigitB o3 && tzNameOk name
      && nameResolves name
  | _ => false

/-- the check `parse_datetime` makes on the zone name -/
def zoneCheck (z : List UInt8) : Bool :=
  match zoneNameOf z with
  | Option.none => false
  | some name => name != [85, 84, 67] && !tzResolves name

theorem zoneCheck_of_resolves {name : List UInt8} (h : nameResolves name = true) :
    (name != [85, 84, 67] && !tzResolves name) = false := by
  simp only [nameResolves, Bool.or_eq_true, beq_iff_eq] at h
  rcases h with h | h
  · simp [h]
  · simp [h]

/-- the zone part is read back, the scanner is left after it, and the name check passes -/
theorem parseTimeZone_any (z : List UInt8) (hz : zoneOk z = true) (s : Scan) (rest : List UInt8) (fuel : Nat)
    (h : At s (z ++ rest)) (hs : s.stash = []) (hd : Delim rest) (hf : z.length < fuel) :
    ∃ s', parseTimeZone fuel s = .ok (z, s') ∧ Post s' rest ∧
      (zoneNameOf z = Option.none ∨
        ∃ name, zoneNameOf z = some name ∧ (name != [85, 84, 67] && !tzResolves name) = false) ∧
      ∃ z0 zr, z = z0 :: zr ∧ isDigitB z0 = false ∧ z0 ≠ 46 := by
  unfold zoneOk at hz
  split at hz
  · obtain ⟨s', e, hp⟩ := parseTimeZone_Z s rest fuel (by simpa using h) hs hd
    exact ⟨s', e, hp, Or.inl (by simp [zoneNameOf]), 90, [], rfl, by decide, by decide⟩
  · rename_i name
    simp only [Bool.and_eq_true] at hz
    obtain ⟨s', e, h', hs'⟩ := parseTimeZone_ZName name hz.1 s rest fuel (by simpa using h) hs (delim_stop_tz hd)
      (by simp at hf; omega)
    refine ⟨s', e, Post.of_clean h' hs', ?_, 90, 32 :: name, rfl, by decide, by decide⟩
    have : zoneNameOf (90 :: 32 :: name) = some name := by
      cases name with
      | nil => simp [tzNameOk] at hz
      | cons a tl => simp [zoneNameOf]
    exact Or.inr ⟨name, this, zoneCheck_of_resolves hz.2⟩
  · rename_i _ sg o0 o1 o2 o3 name _
    simp only [Bool.and_eq_true, Bool.or_eq_true, beq_iff_eq] at hz
    obtain ⟨⟨⟨⟨⟨⟨hsg, ho0⟩, ho1⟩, ho2⟩, ho3⟩, hn⟩, hres⟩ := hz
    obtain ⟨s', e, h', hs'⟩ := parseTimeZone_offset sg o0 o1 o2 o3 hsg ho0 ho1 ho2 ho3 name hn s rest fuel
      (by simpa using h) hs (delim_stop_tz hd) (by simp at hf; omega)
    refine ⟨s', e, Post.of_clean h' hs', ?_, sg, _, rfl, ?_, ?_⟩
    · have : zoneNameOf (sg :: o0 :: o1 :: 58 :: o2 :: o3 :: 32 :: name) = some name := by
        rcases hsg with rfl | rfl <;> simp [zoneNameOf]
      exact Or.inr ⟨name, this, zoneCheck_of_resolves hres⟩
    · rcases hsg with rfl | rfl <;> decide
    · rcases hsg with rfl | rfl <;> decide
  · simp at hz


theorem At_make_all'' (bs : List UInt8) : At (Scan.make bs) bs := by
  cases bs with
  | nil => simp [Scan.make, At]
  | cons b r => exact At_make b r

/-- a decoded timestamp: its token text -/
def dtVal (txt : List Char) : Val := .dateTime ⟨0, 0, 0, [], [], txt⟩

/-- timestamp without a fraction -/
theorem ndt_datetime (y0 y1 y2 y3 m0 m1 d0 d1 h0 h1 i0 i1 s0 s1 : UInt8)
    (hy0 : isDigitB y0 = true) (hy1 : isDigitB y1 = true) (hy2 : isDigitB y2 = true) (hy3 : isDigitB y3 = true)
    (hm0 : isDigitB m0 = true) (hm1 : isDigitB m1 = true) (hd0 : isDigitB d0 = true) (hd1 : isDigitB d1 = true)
    (hh0 : isDigitB h0 = true) (hh1 : isDigitB h1 = true) (hi0 : isDigitB i0 = true) (hi1 : isDigitB i1 = true)
    (hs0 : isDigitB s0 = true) (hs1 : isDigitB s1 = true)
    (hmk : (mkDate [y0, y1, y2, y3, 45, m0, m1, 45, d0, d1]).isSome = true)
    (hmt : (mkTime [h0, h1, 58, i0, i1, 58, s0, s1] Option.none).isSome = true)
    (z : List UInt8) (hz : zoneOk z = true) (rest : List UInt8) (hd : Delim rest)
    (lp : UInt8) (pos fuel : Nat) (hf : z.length < fuel) :
    ∃ s', parseNumberDateTime fuel (Scan.at y0 (y1 :: y2 :: y3 :: 45 :: m0 :: m1 :: 45 :: d0 :: d1 :: 84 :: h0 :: h1
        :: 58 :: i0 :: i1 :: 58 :: s0 :: s1 :: (z ++ rest)) lp pos)
      = .ok (dtVal (asciiChars (y0 :: y1 :: y2 :: y3 :: 45 :: m0 :: m1 :: 45 :: d0 :: d1 :: 84 :: h0 :: h1 :: 58 :: i0
            :: i1 :: 58 :: s0 :: s1 :: z)), s') ∧ Post s' rest := by
  obtain ⟨d, hd'⟩ := Option.isSome_iff_exists.mp hmk
  obtain ⟨t, ht'⟩ := Option.isSome_iff_exists.mp hmt
  obtain ⟨z0, zr, rfl⟩ : ∃ z0 zr, z = z0 :: zr := by
    cases z with
    | nil => simp [zoneOk] at hz
    | cons a b => exact ⟨a, b, rfl⟩
  have hat : At (Scan.at z0 (zr ++ rest) 84
      (pos + 1 + 1 + 1 + 1 + 1 + 1 + 1 + 1 + 1 + 1 + 1 + 1 + 1 + 1 + 1 + 1 + 1 + 1 + 1)) ((z0 :: zr) ++ rest) := At_at ..
  obtain ⟨s', e, hp, hzc, z0', zr', hzz, hz0, hz046⟩ := parseTimeZone_any (z0 :: zr) hz _ rest fuel hat rfl hd hf
  cases hzz
  refine ⟨s', ?_, hp⟩
  simp only [Scan.at] at e
  unfold parseNumberDateTime
  simp only [Scan.at, digit_ne_minus hy0, Bool.false_eq_true, if_false, List.cons_append]
  rcases hzc with hnone | ⟨name, hsome, hres⟩
  · simp [ndtPeeks, Scan.peek, Scan.readByte, hy0, hy1, hy2, hy3, isPartialDate, hm0, hm1, hd0, hd1, hz046,
      parseDateTime, parseDateRaw, parseTimeRaw, takeDigits, Scan.advance, Scan.read, hd', ht', hh0, hh1, hi0, hi1,
      hs0, hs1, e, hnone, dtVal]
  · simp [ndtPeeks, Scan.peek, Scan.readByte, hy0, hy1, hy2, hy3, isPartialDate, hm0, hm1, hd0, hd1, hz046,
      parseDateTime, parseDateRaw, parseTimeRaw, takeDigits, Scan.advance, Scan.read, hd', ht', hh0, hh1, hi0, hi1,
      hs0, hs1, e, hsome, hres, dtVal]


/-- timestamp with a fraction -/
theorem ndt_datetime_frac (y0 y1 y2 y3 m0 m1 d0 d1 h0 h1 i0 i1 s0 s1 : UInt8)
    (hy0 : isDigitB y0 = true) (hy1 : isDigitB y1 = true) (hy2 : isDigitB y2 = true) (hy3 : isDigitB y3 = true)
    (hm0 : isDigitB m0 = true) (hm1 : isDigitB m1 = true) (hd0 : isDigitB d0 = true) (hd1 : isDigitB d1 = true)
    (hh0 : isDigitB h0 = true) (hh1 : isDigitB h1 = true) (hi0 : isDigitB i0 = true) (hi1 : isDigitB i1 = true)
    (hs0 : isDigitB s0 = true) (hs1 : isDigitB s1 = true)
    (f0 : UInt8) (fr : List UInt8) (hfr : ∀ b ∈ f0 :: fr, isDigitB b = true)
    (hmk : (mkDate [y0, y1, y2, y3, 45, m0, m1, 45, d0, d1]).isSome = true)
    (hmt : (mkTime [h0, h1, 58, i0, i1, 58, s0, s1] (some (f0 :: fr))).isSome = true)
    (z : List UInt8) (hz : zoneOk z = true) (rest : List UInt8) (hd : Delim rest)
    (lp : UInt8) (pos fuel : Nat) (hf : fr.length + 1 + z.length < fuel) :
    ∃ s', parseNumberDateTime fuel (Scan.at y0 (y1 :: y2 :: y3 :: 45 :: m0 :: m1 :: 45 :: d0 :: d1 :: 84 :: h0 :: h1
        :: 58 :: i0 :: i1 :: 58 :: s0 :: s1 :: 46 :: f0 :: (fr ++ (z ++ rest))) lp pos)
      = .ok (dtVal (asciiChars (y0 :: y1 :: y2 :: y3 :: 45 :: m0 :: m1 :: 45 :: d0 :: d1 :: 84 :: h0 :: h1 :: 58 :: i0
            :: i1 :: 58 :: s0 :: s1 :: 46 :: f0 :: (fr ++ z))), s') ∧ Post s' rest := by
  obtain ⟨d, hd'⟩ := Option.isSome_iff_exists.mp hmk
  obtain ⟨t, ht'⟩ := Option.isSome_iff_exists.mp hmt
  have hat : At (Scan.at f0 (fr ++ (z ++ rest)) 84
      (pos + 1 + 1 + 1 + 1 + 1 + 1 + 1 + 1 + 1 + 1 + 1 + 1 + 1 + 1 + 1 + 1 + 1 + 1 + 1 + 1))
      ((f0 :: fr) ++ (z ++ rest)) := At_at ..
  have hstz : ∃ z0 zr, z = z0 :: zr ∧ isDigitB z0 = false := by
    obtain ⟨_, _, _, _, z0, zr, e, h0', _⟩ := parseTimeZone_any z hz (Scan.make (z ++ rest)) rest (z.length + 1)
      (At_make_all'' _) (by cases hx : z ++ rest <;> simp [Scan.make]) hd (by omega)
    exact ⟨z0, zr, e, h0'⟩
  have hstop : Stop isDigitB (z ++ rest) := by
    obtain ⟨z0, zr, rfl, h0'⟩ := hstz
    exact Stop_cons h0'
  have efr := fracLoop_rt (f0 :: fr) hfr _ (z ++ rest) fuel [] hat hstop (by simp; omega)
  have hat2 : At (advN (f0 :: fr).length (Scan.at f0 (fr ++ (z ++ rest)) 84
      (pos + 1 + 1 + 1 + 1 + 1 + 1 + 1 + 1 + 1 + 1 + 1 + 1 + 1 + 1 + 1 + 1 + 1 + 1 + 1 + 1))) (z ++ rest) := hat.advN
  obtain ⟨s', e, hp, hzc, _⟩ := parseTimeZone_any z hz _ rest fuel hat2 (advN_stash_nil _ _ rfl) hd (by omega)
  refine ⟨s', ?_, hp⟩
  simp only [Scan.at, List.nil_append, List.length_cons] at efr e
  unfold parseNumberDateTime
  simp only [Scan.at, digit_ne_minus hy0, Bool.false_eq_true, if_false, List.cons_append]
  rcases hzc with hnone | ⟨name, hsome, hres⟩
  · simp [ndtPeeks, Scan.peek, Scan.readByte, hy0, hy1, hy2, hy3, isPartialDate, hm0, hm1, hd0, hd1,
      parseDateTime, parseDateRaw, parseTimeRaw, takeDigits, Scan.advance, Scan.read, Scan.readQ, hd', ht', hh0, hh1,
      hi0, hi1, hs0, hs1, efr, e, hnone, dtVal]
  · simp [ndtPeeks, Scan.peek, Scan.readByte, hy0, hy1, hy2, hy3, isPartialDate, hm0, hm1, hd0, hd1,
      parseDateTime, parseDateRaw, parseTimeRaw, takeDigits, Scan.advance, Scan.read, Scan.readQ, hd', ht', hh0, hh1,
      hi0, hi1, hs0, hs1, efr, e, hsome, hres, dtVal]


/-- a timestamp token: date, `T`, time, optional fraction, zone; calendar fields valid; zone name resolvable -/
def dtBytesOk (w : List UInt8) : Bool :=
  match w with
  | y0 :: y1 :: y2 :: y3 :: 45 :: m0 :: m1 :: 45 :: d0 :: d1 :: 84 :: h0 :: h1 :: 58 :: i0 :: i1 :: 58 :: s0 :: s1 :: tl =>
    isDigitB y0 && isDigitB y1 && isDigitB y2 && isDigitB y3 && isDigitB m0 && isDigitB m1 && isDigitB d0
      && isDigitB d1 && isDigitB h0 && isDigitB h1 && isDigitB i0 && isDigitB i1 && isDigitB s0 && isDigitB s1
      && (mkDate [y0, y1, y2, y3, 45, m0, m1, 45, d0, d1]).isSome &&
    (match tl with
     | 46 :: f0 :: more =>
       isDigitB f0 && (mkTime [h0, h1, 58, i0, i1, 58, s0, s1] (some (f0 :: more.takeWhile isDigitB))).isSome
         && zoneOk (more.dropWhile isDigitB)
     | z => (mkTime [h0, h1, 58, i0, i1, 58, s0, s1] Option.none).isSome && zoneOk z)
  | _ => false

theorem lexRead_datetime (w : List UInt8) (hok : dtBytesOk w = true) (s : Scan) (rest : List UInt8) (fuel : Nat)
    (h : At s (w ++ rest)) (hs : s.stash = []) (hd : Delim rest) (hf : w.length + 2 ≤ fuel) :
    ∃ s', lexRead fuel s = .ok { sc := s', tok := .val (dtVal (asciiChars w)) } ∧ Post s' rest := by
  obtain ⟨f, rfl⟩ : ∃ f, fuel = f + 1 := ⟨fuel - 1, by omega⟩
  unfold dtBytesOk at hok
  split at hok
  · rename_i y0 y1 y2 y3 m0 m1 d0 d1 h0 h1 i0 i1 s0 s1 tl
    simp only [Bool.and_eq_true] at hok
    obtain ⟨⟨⟨⟨⟨⟨⟨⟨⟨⟨⟨⟨⟨⟨⟨hy0, hy1⟩, hy2⟩, hy3⟩, hm0⟩, hm1⟩, hd0⟩, hd1⟩, hh0⟩, hh1⟩, hi0⟩, hi1⟩, hs0⟩, hs1⟩, hmk⟩, htl⟩ := hok
    simp only [List.cons_append] at h
    have hseq := eq_at_of_At h hs
    rw [pk_zero] at hseq
    rw [lexRead_ndt h (by simp [hy0])]
    simp only [List.length_cons] at hf
    split at htl
    · rename_i f0 more
      simp only [Bool.and_eq_true] at htl
      obtain ⟨⟨hf0, hmt⟩, hz⟩ := htl
      have hsplit : more = more.takeWhile isDigitB ++ more.dropWhile isDigitB := (List.takeWhile_append_dropWhile).symm
      have hfr : ∀ b ∈ f0 :: more.takeWhile isDigitB, isDigitB b = true := by
        intro b hb
        simp only [List.mem_cons] at hb
        rcases hb with rfl | hb
        · exact hf0
        · have := List.all_takeWhile (p := isDigitB) (l := more)
          rw [List.all_eq_true] at this
          exact this b hb
      have hlen : (more.takeWhile isDigitB).length + (more.dropWhile isDigitB).length = more.length := by
        have := congrArg List.length hsplit
        simp only [List.length_append] at this
        omega
      simp only [List.length_cons] at hf
      obtain ⟨s', e, hp⟩ := ndt_datetime_frac y0 y1 y2 y3 m0 m1 d0 d1 h0 h1 i0 i1 s0 s1 hy0 hy1 hy2 hy3 hm0 hm1 hd0 hd1
        hh0 hh1 hi0 hi1 hs0 hs1 f0 (more.takeWhile isDigitB) hfr hmk hmt (more.dropWhile isDigitB) hz rest hd
        s.lastPeek s.pos f (by omega)
      refine ⟨s', ?_, hp⟩
      rw [hseq]
      have e1 : (46 :: f0 :: more ++ rest) = 46 :: f0 :: (more.takeWhile isDigitB ++ (more.dropWhile isDigitB ++ rest)) := by
        rw [← List.append_assoc, ← hsplit]; rfl
      have e2 : 46 :: f0 :: (more.takeWhile isDigitB ++ more.dropWhile isDigitB) = 46 :: f0 :: more := by
        rw [← hsplit]
      rw [e1, e, e2]
    · simp only [Bool.and_eq_true] at htl
      obtain ⟨s', e, hp⟩ := ndt_datetime y0 y1 y2 y3 m0 m1 d0 d1 h0 h1 i0 i1 s0 s1 hy0 hy1 hy2 hy3 hm0 hm1 hd0 hd1
        hh0 hh1 hi0 hi1 hs0 hs1 hmk htl.1 tl htl.2 rest hd s.lastPeek s.pos f (by omega)
      refine ⟨s', ?_, hp⟩
      rw [hseq, e]
  · simp at hok

end Hs.Zinc
