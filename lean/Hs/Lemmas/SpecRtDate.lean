/-
  C04 (write direction), rung 4: dates, times and timestamps through the reference reader (`dateP`, `timeP`,
  `zoneP` and the shape test of `scalar`).
-/
import Hs.Lemmas.SpecRtNumFin
namespace Hs.Spec
open Hs Hs.Zinc Hs.Scan

theorem digitsNat_eq (bs : List UInt8) : Hs.Spec.digitsNat bs = Hs.Zinc.digitsNat bs := rfl

/-! ### the parts -/

theorem dateP_rt (y0 y1 y2 y3 m0 m1 d0 d1 : UInt8)
    (hy0 : isDigitB y0 = true) (hy1 : isDigitB y1 = true) (hy2 : isDigitB y2 = true) (hy3 : isDigitB y3 = true)
    (hm0 : isDigitB m0 = true) (hm1 : isDigitB m1 = true) (hd0 : isDigitB d0 = true) (hd1 : isDigitB d1 = true)
    (d : Date) (hmk : mkDate [y0, y1, y2, y3, 45, m0, m1, 45, d0, d1] = some d) (rest : List UInt8) :
    dateP (y0 :: y1 :: y2 :: y3 :: 45 :: m0 :: m1 :: 45 :: d0 :: d1 :: rest) = some (d, rest) := by
  unfold mkDate at hmk
  simp only [List.take, List.drop] at hmk
  split at hmk
  · rename_i hc
    simp only [Option.some.injEq] at hmk
    unfold dateP
    simp only [four, two, isDigit_eq, hy0, hy1, hy2, hy3, hm0, hm1, hd0, hd1, Bool.and_self, if_true, digitsNat_eq, hc]
    simp [← hmk, chars_eq]
  · cases hmk

theorem span_digits (ds rest : List UInt8) (hds : ∀ b ∈ ds, isDigitB b = true) (hst : Stop isDigitB rest) :
    span isDigit (ds ++ rest) = (ds, rest) := span_all isDigitB ds rest hds hst

def timeFrac (r3 : In) : Nat × In := match r3 with
  | 46 :: c :: r => if isDigit c then let (f, t) := span isDigit (c :: r); (Hs.Zinc.fracNanos f, t) else (0, r3)
  | _ => (0, r3)

def timeMk (h mi s : Nat) (fr : Nat × In) : Option (Time × In) :=
  if h < 24 && mi < 60 && s ≤ 60 then
    let (s', ns') := if s == 60 then (59, fr.1 + 1000000000) else (s, fr.1)
    some ({ h := h, mi := mi, s := s', ns := ns', txt := Hs.Zinc.timeText h mi s' ns' }, fr.2)
  else none

theorem timeP_eq (h0 h1 m0 m1 s0 s1 : UInt8)
    (hh0 : isDigitB h0 = true) (hh1 : isDigitB h1 = true) (hm0 : isDigitB m0 = true) (hm1 : isDigitB m1 = true)
    (hs0 : isDigitB s0 = true) (hs1 : isDigitB s1 = true) (r3 : List UInt8) :
    timeP (h0 :: h1 :: 58 :: m0 :: m1 :: 58 :: s0 :: s1 :: r3) =
      timeMk (Hs.Zinc.digitsNat [h0, h1]) (Hs.Zinc.digitsNat [m0, m1]) (Hs.Zinc.digitsNat [s0, s1]) (timeFrac r3) := by
  unfold timeP
  simp only [two, isDigit_eq, hh0, hh1, hm0, hm1, hs0, hs1, Bool.and_self, if_true, digitsNat_eq]
  rfl

theorem timeMk_none (hms : List UInt8) (t : Time) (hmk : mkTime hms none = some t) (rest : List UInt8) :
    timeMk (Hs.Zinc.digitsNat (hms.take 2)) (Hs.Zinc.digitsNat ((hms.drop 3).take 2))
      (Hs.Zinc.digitsNat ((hms.drop 6).take 2)) (0, rest) = some (t, rest) := by
  unfold timeMk
  simp only [mkTime, Bool.and_true] at hmk
  split at hmk
  · rename_i hc
    rw [if_pos hc]
    simp only [Option.some.injEq] at hmk
    subst hmk
    by_cases h60 : (Zinc.digitsNat (List.take 2 (List.drop 6 hms)) == 60) = true <;> simp [h60]
  · cases hmk

theorem timeMk_some (hms f : List UInt8) (t : Time) (hmk : mkTime hms (some f) = some t) (rest : List UInt8) :
    timeMk (Hs.Zinc.digitsNat (hms.take 2)) (Hs.Zinc.digitsNat ((hms.drop 3).take 2))
      (Hs.Zinc.digitsNat ((hms.drop 6).take 2)) (fracNanos f, rest) = some (t, rest) := by
  unfold timeMk
  simp only [mkTime] at hmk
  split at hmk
  · rename_i hc
    simp only [Bool.and_eq_true] at hc
    have hc' := hc.1
    simp only [← Bool.and_eq_true] at hc'
    rw [if_pos hc']
    simp only [Option.some.injEq] at hmk
    subst hmk
    by_cases h60 : (Zinc.digitsNat (List.take 2 (List.drop 6 hms)) == 60) = true <;> simp [h60]
  · cases hmk

theorem timeFrac_none {rest : List UInt8} (h : ∀ r, rest ≠ 46 :: r) : timeFrac rest = (0, rest) := by
  unfold timeFrac
  split
  · rename_i c r; exact absurd rfl (h (c :: r))
  · rfl

theorem timeFrac_some (f0 : UInt8) (fr rest : List UInt8) (hfr : ∀ b ∈ f0 :: fr, isDigitB b = true)
    (hst : Stop isDigitB rest) : timeFrac (46 :: f0 :: (fr ++ rest)) = (fracNanos (f0 :: fr), rest) := by
  have hsp := span_digits (f0 :: fr) rest hfr hst
  simp only [List.cons_append] at hsp
  have hf0 : isDigit f0 = true := hfr f0 (by simp)
  simp [timeFrac, hf0, hsp]

theorem timeP_nofrac (h0 h1 m0 m1 s0 s1 : UInt8)
    (hh0 : isDigitB h0 = true) (hh1 : isDigitB h1 = true) (hm0 : isDigitB m0 = true) (hm1 : isDigitB m1 = true)
    (hs0 : isDigitB s0 = true) (hs1 : isDigitB s1 = true)
    (t : Time) (hmk : mkTime [h0, h1, 58, m0, m1, 58, s0, s1] none = some t) (rest : List UInt8)
    (hrest : ∀ r, rest ≠ 46 :: r) :
    timeP (h0 :: h1 :: 58 :: m0 :: m1 :: 58 :: s0 :: s1 :: rest) = some (t, rest) := by
  rw [timeP_eq h0 h1 m0 m1 s0 s1 hh0 hh1 hm0 hm1 hs0 hs1, timeFrac_none hrest]
  exact timeMk_none _ t hmk rest

theorem timeP_frac (h0 h1 m0 m1 s0 s1 : UInt8)
    (hh0 : isDigitB h0 = true) (hh1 : isDigitB h1 = true) (hm0 : isDigitB m0 = true) (hm1 : isDigitB m1 = true)
    (hs0 : isDigitB s0 = true) (hs1 : isDigitB s1 = true)
    (f0 : UInt8) (fr : List UInt8) (hfr : ∀ b ∈ f0 :: fr, isDigitB b = true)
    (t : Time) (hmk : mkTime [h0, h1, 58, m0, m1, 58, s0, s1] (some (f0 :: fr)) = some t) (rest : List UInt8)
    (hst : Stop isDigitB rest) :
    timeP (h0 :: h1 :: 58 :: m0 :: m1 :: 58 :: s0 :: s1 :: 46 :: f0 :: (fr ++ rest)) = some (t, rest) := by
  rw [timeP_eq h0 h1 m0 m1 s0 s1 hh0 hh1 hm0 hm1 hs0 hs1, timeFrac_some f0 fr rest hfr hst]
  exact timeMk_some _ _ t hmk rest

/-! ### the zone part -/

theorem upper_tz : ∀ b : UInt8, (!isUpperB b || isTzB b) = true :=
  all_u8 (fun b => (!isUpperB b || isTzB b)) (by decide +kernel)

theorem span_tzname (name rest : List UInt8) (hn : tzNameOk name = true) (hst : Stop isTzB rest) :
    ∃ c r, name = c :: r ∧ isUpperB c = true ∧ span isTzChar (c :: (r ++ rest)) = (name, rest) := by
  cases name with
  | nil => simp [tzNameOk] at hn
  | cons n0 tl =>
    cases tl with
    | nil => simp [tzNameOk] at hn
    | cons n1 nr =>
      simp only [tzNameOk, Bool.and_eq_true, List.all_eq_true] at hn
      refine ⟨n0, n1 :: nr, rfl, hn.1, ?_⟩
      have h0 : isTzB n0 = true := by
        have := upper_tz n0
        simpa [hn.1] using this
      have := span_all isTzB (n0 :: n1 :: nr) rest (by
        intro b hb
        simp only [List.mem_cons] at hb
        rcases hb with rfl | hb
        · exact h0
        · exact hn.2 b (by simpa using hb)) hst
      simpa [isTzChar_eq, show isTzChar = isTzB from funext isTzChar_eq] using this

theorem lower_not_upper : ∀ b : UInt8, (!isLowerB b || !isUpperB b) = true :=
  all_u8 (fun b => (!isLowerB b || !isUpperB b)) (by decide +kernel)

/-- **zone**: `Z`, `Z Name`, `±hh:mm Name` followed by a delimiter -/
theorem zoneP_rt (z : List UInt8) (hz : zoneOk z = true) (rest : List UInt8) (hd : Delim rest) :
    zoneP (z ++ rest) = some ((), rest) := by
  unfold zoneOk at hz
  split at hz
  · -- `Z`
    rcases hd with rfl | ⟨b, r, rfl, hb⟩ | ⟨x, r, rfl, hx⟩
    · simp [zoneP]
    · have : b ≠ 32 := by rcases hb with h | h | h | h <;> rw [h] <;> decide
      simp [zoneP, this]
    · have := lower_not_upper x
      simp only [hx, Bool.not_true, Bool.false_or, Bool.not_eq_eq_eq_not] at this
      simp [zoneP, isUpper_eq, this]
  · rename_i name
    simp only [Bool.and_eq_true] at hz
    obtain ⟨c, r, rfl, hc, hsp⟩ := span_tzname name rest hz.1 (delim_stop_tz hd)
    simp [zoneP, isUpper_eq, hc, hsp]
  · rename_i _ sg o0 o1 o2 o3 name _
    simp only [Bool.and_eq_true, Bool.or_eq_true, beq_iff_eq] at hz
    obtain ⟨⟨⟨⟨⟨⟨hsg, ho0⟩, ho1⟩, ho2⟩, ho3⟩, hn⟩, _⟩ := hz
    obtain ⟨c, r, rfl, hc, hsp⟩ := span_tzname name rest hn (delim_stop_tz hd)
    rcases hsg with rfl | rfl <;>
      simp [zoneP, two, isDigit_eq, ho0, ho1, ho2, ho3, isUpper_eq, hc, hsp]
  · simp at hz

/-! ### the shape test of `scalar` -/

theorem digit_dispatch : ∀ b : UInt8, (!isDigitB b || (b != 34 && b != 96 && b != 64 && b != 94 && !isUpperB b && b != 45)) = true :=
  all_u8 (fun b => (!isDigitB b || (b != 34 && b != 96 && b != 64 && b != 94 && !isUpperB b && b != 45)))
    (by decide +kernel)

theorem digit_disp {b : UInt8} (h : isDigitB b = true) :
    b ≠ 34 ∧ b ≠ 96 ∧ b ≠ 64 ∧ b ≠ 94 ∧ isUpperB b = false ∧ b ≠ 45 := by
  have := digit_dispatch b
  simp only [h, Bool.not_true, Bool.false_or, Bool.and_eq_true, bne_iff_ne, ne_eq, Bool.not_eq_eq_eq_not] at this
  exact ⟨this.1.1.1.1.1, this.1.1.1.1.2, this.1.1.1.2, this.1.1.2, this.1.2, this.2⟩

theorem scalar_date_core (f : Nat) (b : UInt8) (t : List UInt8) (hb : isDigitB b = true) (d : Date) (r1 : List UInt8)
    (hdate : dateP (b :: t) = some (d, r1)) (hT : ∀ r, r1 ≠ 84 :: r) :
    scalar (f + 1) (b :: t) = some (.date d, r1) := by
  obtain ⟨h34, h96, h64, h94, hup, h45⟩ := digit_disp hb
  have hb' : isDigit b = true := hb
  rw [scalar.eq_def]
  simp only [hdate]
  cases r1 with
  | nil => simp [h34, h96, h64, h94, isUpper_eq, hup, h45, hb']
  | cons x r =>
    have : x ≠ 84 := fun e => hT r (by rw [e])
    simp [h34, h96, h64, h94, isUpper_eq, hup, h45, hb']

theorem scalar_time_core (f : Nat) (b : UInt8) (t : List UInt8) (hb : isDigitB b = true)
    (hdate : dateP (b :: t) = none) (tm : Time) (r1 : List UInt8) (htime : timeP (b :: t) = some (tm, r1)) :
    scalar (f + 1) (b :: t) = some (.time tm, r1) := by
  obtain ⟨h34, h96, h64, h94, hup, h45⟩ := digit_disp hb
  have hb' : isDigit b = true := hb
  rw [scalar.eq_def]
  simp only [hdate, htime]
  simp [h34, h96, h64, h94, isUpper_eq, hup, h45, hb']

theorem scalar_datetime_core (f : Nat) (b : UInt8) (t : List UInt8) (hb : isDigitB b = true) (d : Date)
    (r1 : List UInt8) (hdate : dateP (b :: t) = some (d, 84 :: r1)) (tm : Time) (r2 : List UInt8)
    (htime : timeP r1 = some (tm, r2)) (r3 : List UInt8) (hzone : zoneP r2 = some ((), r3)) :
    scalar (f + 1) (b :: t) =
      some (.dateTime { secs := 0, ns := 0, off := 0, zone := [], tzid := [],
                        txt := chars ((b :: t).take ((b :: t).length - r3.length)) }, r3) := by
  obtain ⟨h34, h96, h64, h94, hup, h45⟩ := digit_disp hb
  have hb' : isDigit b = true := hb
  rw [scalar.eq_def]
  simp only [hdate, htime, hzone]
  simp [h34, h96, h64, h94, isUpper_eq, hup, h45, hb']

end Hs.Spec
