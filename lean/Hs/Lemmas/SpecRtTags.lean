/-
  C04 (write direction), rung 5c: tags through `tags` — `,`-separated inside `{}`, space-separated in grid meta and
  column meta (terminated by the newline, or by the `,` before the next column) — and dicts.
-/
import Hs.Lemmas.SpecRtList
namespace Hs.Spec
open Hs Hs.Zinc Hs.Scan

/-! ### `dictOf` of the reference reader is the library model's -/

theorem nameLe_eq : ∀ a b : List Char, nameLe a b = leChars a b
  | [], _ => by simp [nameLe, leChars]
  | _ :: _, [] => by simp [nameLe, leChars]
  | x :: xs, y :: ys => by
    simp only [nameLe, leChars, nameLe_eq xs ys]

theorem insertTag_eq (k : List Char) (v : Val) : ∀ l, insertTag k v l = insertSorted k v l
  | [] => rfl
  | (k', v') :: rest => by simp [insertTag, insertSorted, nameLe_eq, insertTag_eq k v rest]

theorem dictOf_eq (kvs : List (List Char × Val)) : Hs.Spec.dictOf kvs = Hs.Zinc.dictOf kvs := by
  unfold Hs.Spec.dictOf Hs.Zinc.dictOf
  have : (fun (acc : List (List Char × Val)) (p : List Char × Val) => insertTag p.1 p.2 acc)
       = (fun acc p => insertSorted p.1 p.2 acc) := by
    funext acc p; exact insertTag_eq _ _ _
  rw [this]

theorem specImgT_keys : ∀ t : Tags, (specImgT t).keys = t.keys
  | .nil => rfl
  | .cons k v t => by simp [specImgT, Tags.keys, specImgT_keys t]

/-- the reader's `dictOf` rebuilds a dict with strictly ascending keys -/
theorem dictOf_specImgT (t : Tags) (h : keysSorted t.keys = true) :
    Hs.Spec.dictOf (specImgT t).toList = specImgT t := by
  rw [dictOf_eq]
  exact dictOf_toList _ (by rw [specImgT_keys]; exact h)

/-! ### one tag -/

/-- what `tags` does after one tag (name and value) has been read, `r3` being the text after it -/
def tagsCont (f : Nat) (braced : Bool) (acc' : List (List Char × Val)) (r3 : In) :
    Option (List (List Char × Val) × In) :=
  match skipWs r3 with
  | 44 :: r5 => if braced then tags f (skipWs r5) braced acc' else some (acc', r3)
  | _ => if (skipWs r3).length < r3.length then tags f (skipWs r3) braced acc' else some (acc', r3)

theorem tags_step_marker (f : Nat) (i : In) (braced : Bool) (acc : List (List Char × Val)) (k : List Char) (r1 : In)
    (hid : ident i = some (k, r1)) (h58 : ∀ r, r1 ≠ 58 :: r) :
    tags (f + 1) i braced acc = tagsCont f braced (acc ++ [(k, .marker)]) r1 := by
  rw [tags.eq_def]
  simp only [hid]
  cases r1 with
  | nil => rfl
  | cons c r =>
    have : c ≠ 58 := fun e => h58 r (by rw [e])
    rfl

theorem tags_step_val (f : Nat) (i : In) (braced : Bool) (acc : List (List Char × Val)) (k : List Char) (r2 : In)
    (hid : ident i = some (k, 58 :: r2)) (v : Val) (r3 : In) (hv : value f (skipWs r2) = some (v, r3)) :
    tags (f + 1) i braced acc = tagsCont f braced (acc ++ [(k, v)]) r3 := by
  rw [tags.eq_def]
  simp only [hid, hv]
  rfl

theorem tags_end (f : Nat) (i : In) (braced : Bool) (acc : List (List Char × Val)) (h : ident i = none) :
    tags (f + 1) i braced acc = some (acc, i) := by
  rw [tags.eq_def]
  simp only [h]

/-- after the tag: `,` inside braces -/
theorem tagsCont_comma_braced (f : Nat) (acc' : List (List Char × Val)) (r5 : In) :
    tagsCont f true acc' (44 :: r5) = tags f (skipWs r5) true acc' := by
  simp [tagsCont, skipWs_cons]

/-- after the tag: `,` outside braces ends the tags (column meta) -/
theorem tagsCont_comma_open (f : Nat) (acc' : List (List Char × Val)) (r5 : In) :
    tagsCont f false acc' (44 :: r5) = some (acc', 44 :: r5) := by
  simp [tagsCont, skipWs_cons]

/-- after the tag: a space and the next tag -/
theorem tagsCont_space (f : Nat) (braced : Bool) (acc' : List (List Char × Val)) (x : UInt8) (r : In)
    (hx : isLowerB x = true) :
    tagsCont f braced acc' (32 :: x :: r) = tags f (x :: r) braced acc' := by
  have h1 : x ≠ 32 := by intro e; subst e; revert hx; decide
  have h2 : x ≠ 9 := by intro e; subst e; revert hx; decide
  have h3 : x ≠ 44 := by intro e; subst e; revert hx; decide
  have : skipWs (32 :: x :: r) = x :: r := by rw [skipWs_space, skipWs_cons h1 h2]
  simp [tagsCont, this, h3]

/-- after the tag: the terminator (`}` or newline) -/
theorem tagsCont_term (f : Nat) (braced : Bool) (acc' : List (List Char × Val)) (c : UInt8) (r : In)
    (h1 : c ≠ 32) (h2 : c ≠ 9) (h3 : c ≠ 44) :
    tagsCont f braced acc' (c :: r) = some (acc', c :: r) := by
  simp [tagsCont, skipWs_cons h1 h2, h3]

/-! ### all tags -/

def RdT : Tags → Prop
  | .nil => True
  | .cons _ v t => Rd v ∧ RdT t

/-- separator / terminator / `braced` flag combinations of writer output -/
def TagCtx (sep term : UInt8) (braced : Bool) : Prop :=
  (sep = 44 ∧ braced = true ∧ term = 125) ∨ (sep = 32 ∧ braced = false ∧ (term = 10 ∨ term = 44))

theorem TagCtx.sep_cases {sep term : UInt8} {braced : Bool} (h : TagCtx sep term braced) : sep = 44 ∨ sep = 32 := by
  rcases h with ⟨h, _⟩ | ⟨h, _⟩ <;> simp [h]
theorem TagCtx.term_cases {sep term : UInt8} {braced : Bool} (h : TagCtx sep term braced) :
    term = 125 ∨ term = 10 ∨ term = 44 := by
  rcases h with ⟨_, _, h⟩ | ⟨_, _, h | h⟩ <;> simp [h]

theorem delim_tail {sep term : UInt8} {braced : Bool} (ctx : TagCtx sep term braced) (rest : List UInt8) (t : Tags)
    (hk : keysIdent t = true) : Delim (tailOf sep term rest t) := by
  cases t with
  | nil =>
    right; left
    refine ⟨term, rest, rfl, ?_⟩
    rcases ctx.term_cases with h | h | h <;> simp [h]
  | cons k v t' =>
    simp only [keysIdent, Bool.and_eq_true] at hk
    rcases ctx.sep_cases with h | h
    · right; left; exact ⟨sep, _, rfl, by simp [h]⟩
    · right; right
      obtain ⟨b, r, e, hb⟩ := isIdent_head hk.1
      refine ⟨b, r ++ (valPart v ++ tailOf sep term rest t'), ?_, hb⟩
      show sep :: (encTags (.cons k v t') sep ++ term :: rest) = _
      rw [encTags_split, e, h]; simp

theorem stop_lit_tail' {sep term : UInt8} {braced : Bool} (ctx : TagCtx sep term braced) (rest : List UInt8)
    (v : Val) (t : Tags) : Stop isLitB (valPart v ++ tailOf sep term rest t) := by
  have h58 : isLitB 58 = false := by decide
  have hsep : isLitB sep = false := by rcases ctx.sep_cases with h | h <;> rw [h] <;> decide
  have hterm : isLitB term = false := by rcases ctx.term_cases with h | h | h <;> rw [h] <;> decide
  unfold valPart
  by_cases hm : isMarker v = true
  · simp only [hm, if_true, List.nil_append]
    cases t with
    | nil => exact Stop_cons hterm
    | cons _ _ _ => exact Stop_cons hsep
  · simp only [hm, if_false, Bool.false_eq_true, List.cons_append]
    exact Stop_cons h58

theorem specImgT_toList_cons (k : List Char) (v : Val) (t : Tags) :
    (specImgT (.cons k v t)).toList = (k, specImg v) :: (specImgT t).toList := by
  simp [specImgT, Tags.toList]

theorem specImg_marker {v : Val} (h : isMarker v = true) : specImg v = .marker := by
  cases v <;> simp [isMarker] at h
  simp [specImg]

/-- where `tags` stands after a tag: at the end, or before the next tag -/
def tagsNext (f : Nat) (braced : Bool) (sep term : UInt8) (rest : List UInt8) (acc' : List (List Char × Val)) :
    Tags → Option (List (List Char × Val) × In)
  | .nil => some (acc', term :: rest)
  | .cons k v t => tags f (encTags (.cons k v t) sep ++ term :: rest) braced acc'

/-- the continuation after a tag, on the text the writer puts there -/
theorem tagsCont_tail {sep term : UInt8} {braced : Bool} (ctx : TagCtx sep term braced) (f : Nat)
    (acc' : List (List Char × Val)) (rest : List UInt8) (t : Tags) (hk : keysIdent t = true) :
    tagsCont f braced acc' (tailOf sep term rest t) = tagsNext f braced sep term rest acc' t := by
  cases t with
  | nil =>
    simp only [tailOf, tagsNext]
    rcases ctx with ⟨_, rfl, rfl⟩ | ⟨_, rfl, rfl | rfl⟩
    · exact tagsCont_term f _ acc' 125 rest (by decide) (by decide) (by decide)
    · exact tagsCont_term f _ acc' 10 rest (by decide) (by decide) (by decide)
    · exact tagsCont_comma_open f acc' rest
  | cons k v t' =>
    simp only [keysIdent, Bool.and_eq_true] at hk
    obtain ⟨b, r, e, hb⟩ := isIdent_head hk.1
    have hsplit : encTags (.cons k v t') sep ++ term :: rest = b :: (r ++ (valPart v ++ tailOf sep term rest t')) := by
      rw [encTags_split, e]; simp
    simp only [tailOf, tagsNext]
    rw [hsplit]
    rcases ctx with ⟨rfl, rfl, _⟩ | ⟨rfl, rfl, _⟩
    · have h1 : b ≠ 32 := by intro e; subst e; revert hb; decide
      have h2 : b ≠ 9 := by intro e; subst e; revert hb; decide
      rw [tagsCont_comma_braced, skipWs_cons h1 h2]
    · rw [tagsCont_space f _ acc' b _ hb]

/-- one tag and the step to the next -/
theorem tags_one {sep term : UInt8} {braced : Bool} (ctx : TagCtx sep term braced)
    (k : List Char) (v : Val) (t : Tags) (hk : keysIdent (.cons k v t) = true) (hv : Rd v)
    (f : Nat) (rest : List UInt8) (acc : List (List Char × Val))
    (hf : (encTags (.cons k v t) sep).length + 2 ≤ f) :
    tags (f + 1) (encTags (.cons k v t) sep ++ term :: rest) braced acc =
      tagsNext f braced sep term rest (acc ++ [(k, specImg v)]) t := by
  simp only [keysIdent, Bool.and_eq_true] at hk
  rw [encTags_length] at hf
  rw [encTags_split]
  have hid := ident_rt k hk.1 _ (stop_lit_tail' ctx rest v t)
  by_cases hm : isMarker v = true
  · have hvp : valPart v = [] := by simp [valPart, hm]
    rw [hvp] at hid ⊢
    simp only [List.nil_append] at hid ⊢
    have h58 : ∀ r, tailOf sep term rest t ≠ 58 :: r := by
      intro r e
      cases t with
      | nil =>
        simp only [tailOf, List.cons.injEq] at e
        rcases ctx.term_cases with h | h | h <;> rw [h] at e <;> exact absurd e.1 (by decide)
      | cons _ _ _ =>
        simp only [tailOf, List.cons.injEq] at e
        rcases ctx.sep_cases with h | h <;> rw [h] at e <;> exact absurd e.1 (by decide)
    rw [tags_step_marker f _ braced acc k _ hid h58, tagsCont_tail ctx f _ rest t hk.2, specImg_marker hm]
  · have hvp : valPart v = 58 :: enc v true := by simp [valPart, hm]
    rw [hvp] at hid hf ⊢
    simp only [List.cons_append, List.length_cons] at hid hf ⊢
    have hval := hv.2 f (tailOf sep term rest t) (delim_tail ctx rest t hk.2) (by omega)
    rw [← hv.1.noWs] at hval
    rw [tags_step_val f _ braced acc k _ hid _ _ hval, tagsCont_tail ctx f _ rest t hk.2]

theorem tags_rt {sep term : UInt8} {braced : Bool} (ctx : TagCtx sep term braced) :
    ∀ (k : List Char) (v : Val) (t : Tags), keysIdent (.cons k v t) = true → RdT (.cons k v t) →
    ∀ (fuel : Nat) (rest : List UInt8) (acc : List (List Char × Val)),
      (encTags (.cons k v t) sep).length + 3 ≤ fuel →
      tags fuel (encTags (.cons k v t) sep ++ term :: rest) braced acc =
        some (acc ++ (specImgT (.cons k v t)).toList, term :: rest)
  | k, v, .nil, hk, hr, fuel, rest, acc, hf => by
    obtain ⟨f, rfl⟩ : ∃ f, fuel = f + 1 := ⟨fuel - 1, by omega⟩
    rw [tags_one ctx k v .nil hk hr.1 f rest acc (by omega)]
    simp [tagsNext, specImgT, Tags.toList]
  | k, v, .cons k2 v2 t2, hk, hr, fuel, rest, acc, hf => by
    obtain ⟨f, rfl⟩ : ∃ f, fuel = f + 1 := ⟨fuel - 1, by omega⟩
    have hk2 : keysIdent (.cons k2 v2 t2) = true := by
      simp only [keysIdent, Bool.and_eq_true] at hk ⊢; exact hk.2
    have hlen := encTags_length k v (.cons k2 v2 t2) sep
    simp only [sepLen] at hlen
    rw [tags_one ctx k v _ hk hr.1 f rest acc (by omega)]
    simp only [tagsNext]
    rw [tags_rt ctx k2 v2 t2 hk2 hr.2 f rest _ (by omega), specImgT_toList_cons k v]
    simp

theorem ctx_dict : TagCtx 44 125 true := Or.inl ⟨rfl, rfl, rfl⟩
theorem ctx_meta : TagCtx 32 10 false := Or.inr ⟨rfl, rfl, Or.inl rfl⟩
theorem ctx_colmeta : TagCtx 32 44 false := Or.inr ⟨rfl, rfl, Or.inr rfl⟩

theorem encTags_lower (k : List Char) (v : Val) (t : Tags) (sep : UInt8) (hk : isIdent k = true) (tl : List UInt8) :
    ∃ b r, encTags (.cons k v t) sep ++ tl = b :: r ∧ isLowerB b = true := by
  obtain ⟨b, r, e, hb⟩ := isIdent_head hk
  cases t with
  | nil => rw [encTags_one, e]; exact ⟨b, r ++ valPart v ++ tl, by simp, hb⟩
  | cons k2 v2 t2 =>
    rw [encTags_cons2, e]
    exact ⟨b, r ++ valPart v ++ sep :: encTags (.cons k2 v2 t2) sep ++ tl, by simp, hb⟩

theorem lower_nows {b : UInt8} (h : isLowerB b = true) : b ≠ 32 ∧ b ≠ 9 := by
  constructor <;> (intro e; subst e; revert h; decide)

/-- **dict**: identifier keys in strictly ascending order, values that frame -/
theorem Rd_dict (d : Tags) (hk : keysIdent d = true) (hs : keysSorted d.keys = true) (h : RdT d) : Rd (.dict d) := by
  have he : enc (.dict d) true = 123 :: (encTags d 44 ++ [125]) := by rw [enc]; simp
  refine ⟨⟨123, _, he, by decide⟩, ?_⟩
  intro fuel rest _ hf
  rw [he] at hf ⊢
  simp only [List.length_cons, List.length_append, List.length_nil] at hf
  obtain ⟨f, rfl⟩ : ∃ f, fuel = f + 1 := ⟨fuel - 1, by omega⟩
  simp only [List.cons_append, List.append_assoc, List.nil_append]
  rw [value.eq_def]
  simp only [show ((123 : UInt8) == 91) = false by decide, beq_self_eq_true, Bool.false_eq_true, if_false, if_true]
  cases d with
  | nil =>
    obtain ⟨g, rfl⟩ : ∃ g, f = g + 1 := ⟨f - 1, by omega⟩
    simp only [encTags, List.nil_append]
    rw [skipWs_cons (by decide) (by decide), tags_end g _ true [] (ident_none (by intro b r e; cases e; decide))]
    simp [skipWs_cons, specImg, specImgT, Hs.Spec.dictOf, Tags.ofList]
  | cons k v t =>
    have hk' := hk
    simp only [keysIdent, Bool.and_eq_true] at hk'
    obtain ⟨b, r, e, hb⟩ := encTags_lower k v t 44 hk'.1 (125 :: rest)
    have hnw : skipWs (encTags (.cons k v t) 44 ++ 125 :: rest) = encTags (.cons k v t) 44 ++ 125 :: rest := by
      rw [e]; exact skipWs_cons (lower_nows hb).1 (lower_nows hb).2
    rw [hnw, tags_rt ctx_dict k v t hk h f rest [] (by omega)]
    simp only [List.nil_append]
    rw [skipWs_cons (by decide) (by decide), dictOf_specImgT _ hs]
    simp [specImg]

end Hs.Spec
