/-
  C01 ladder: from the framing statement `RdVal` to `fromBytes (encode v)`, and the mutual induction over
  values built from scalars, lists and dicts.
-/
import Hs.Lemmas.ZincRtDict
import Hs.Lemmas.ZincRtTok
import Hs.Lemmas.ZincRtGrid
namespace Hs.Zinc
open Hs Hs.Scan

theorem At_make_all (bs : List UInt8) : At (Scan.make bs) bs := by
  cases bs with
  | nil => simp [Scan.make, At]
  | cons b r => exact At_make b r

/-- the top level: a value whose framing statement holds, and whose top-level text is its nested text
(everything except a grid), round-trips through `fromBytes ∘ encode` -/
theorem fromBytes_of_RdVal {v : Val} (h : RdVal v) (he : enc v false = enc v true) (hn : nestV v < 64) :
    fromBytes (encode v) = .ok (lexImg v) := by
  unfold encode fromBytes fuelFor
  rw [he]
  have hat : At (Scan.make (enc v true)) (enc v true ++ []) := by simpa using At_make_all (enc v true)
  have hs : (Scan.make (enc v true)).stash = [] := by
    cases hx : enc v true <;> simp [Scan.make]
  have hle : 4 * (enc v true).length + 8 ≤ 8 * (enc v true).length + 64 := by omega
  obtain ⟨p, p', e1, _, _, e2, _⟩ := h 0 (8 * (enc v true).length + 64) (8 * (enc v true).length + 64)
    (Scan.make (enc v true)) [] hat hs (Or.inl rfl) hle hle (by omega)
  simp [e1, e2]

/-! ### well-behaved values: every scalar leaf satisfies its token statement -/

def nodupB : List (List Char) → Bool
  | [] => true
  | k :: ks => !ks.contains k && nodupB ks

theorem nodupB_nodup : ∀ ks : List (List Char), nodupB ks = true → ks.Nodup
  | [], _ => List.Pairwise.nil
  | k :: ks, h => by
    simp only [nodupB, Bool.and_eq_true, Bool.not_eq_eq_eq_not, Bool.not_true] at h
    refine List.nodup_cons.mpr ⟨?_, nodupB_nodup ks h.2⟩
    intro hm
    have : ks.contains k = true := by simpa using hm
    rw [this] at h; exact absurd h.1 (by decide)

/-- shape of a meta dict (grid meta, column meta): absent, or non-empty with identifier keys in ascending order -/
def metaShape : OTags → Bool
  | .none => true
  | .some t => !t.isEmpty && keysIdent t && keysSorted t.keys

/-- shape of the columns: at least one, identifier names, all distinct, well-shaped metas -/
def colsShapeAux : Cols → Bool
  | .nil => true
  | .cons n md c => isIdent n && metaShape md && colsShapeAux c
def colsShape (cols : Cols) : Bool :=
  (match cols with | .nil => false | _ => true) && colsShapeAux cols && nodupB cols.names

/-- shape of the rows: keys ascending and among the column names; a single-column grid has no missing cell -/
def rowShape (names : List (List Char)) (single : Bool) (r : Tags) : Bool :=
  keysSorted r.keys && r.keys.all (fun k => names.contains k) &&
    (!single || names.all (fun n => (r.get? n).isSome))
def rowsShape (names : List (List Char)) (single : Bool) : Rows → Bool
  | .nil => true
  | .cons r rs => rowShape names single r && rowsShape names single rs

mutual
def GoodV : Val → Prop
  | .list xs => GoodVs xs
  | .dict d => keysIdent d = true ∧ keysSorted d.keys = true ∧ GoodT d
  | .grid md cols rows ver =>
    ver = ['3', '.', '0'] ∧ metaShape md = true ∧ colsShape cols = true ∧
      rowsShape cols.names (cols.length == 1) rows = true ∧ GoodO md ∧ GoodC cols ∧ GoodR rows
  | v => TokRt v ∧ FirstOk (enc v true)
def GoodVs : Vals → Prop
  | .nil => True
  | .cons v vs => GoodV v ∧ GoodVs vs
def GoodT : Tags → Prop
  | .nil => True
  | .cons _ v t => GoodV v ∧ GoodT t
def GoodO : OTags → Prop
  | .none => True
  | .some t => GoodT t
def GoodC : Cols → Prop
  | .nil => True
  | .cons _ md c => GoodO md ∧ GoodC c
def GoodR : Rows → Prop
  | .nil => True
  | .cons r rs => GoodT r ∧ GoodR rs
end

theorem keysIdent_tail {k : List Char} {v : Val} {t : Tags} (h : keysIdent (.cons k v t) = true) :
    keysIdent t = true := by
  simp only [keysIdent, Bool.and_eq_true] at h; exact h.2

theorem firstOk_cons (b : UInt8) (r : List UInt8) (h : b ≠ 32 ∧ b ≠ 9 ∧ b ≠ 13 ∧ b ≠ 10) : FirstOk (b :: r) :=
  ⟨b, r, rfl, h⟩

theorem colsShapeAux_tail {n : List Char} {md : OTags} {c : Cols} (h : colsShapeAux (.cons n md c) = true) :
    isIdent n = true ∧ metaShape md = true ∧ colsShapeAux c = true := by
  simp only [colsShapeAux, Bool.and_eq_true] at h; exact ⟨h.1.1, h.1.2, h.2⟩

theorem rowOk_of_shape (names : List (List Char)) (single : Bool) (r : Tags)
    (hs : rowShape names single r = true)
    (hcell : ∀ n v, r.get? n = some v → RdVal v ∧ FirstOk (enc v true)) : RowOk r names single := by
  simp only [rowShape, Bool.and_eq_true, List.all_eq_true, Bool.or_eq_true, Bool.not_eq_eq_eq_not, Bool.not_true] at hs
  obtain ⟨⟨h1, h2⟩, h3⟩ := hs
  refine ⟨?_, ?_, h1, ?_⟩
  · intro n hn
    refine ⟨fun v hv => (hcell n v hv).1, ?_⟩
    intro hsingle
    rcases h3 with h3 | h3
    · rw [hsingle] at h3; cases h3
    · have := h3 n hn
      intro e; rw [e] at this; cases this
  · intro n _ v hv; exact (hcell n v hv).2
  · intro k hk
    have := h2 k hk
    simpa using this

mutual
theorem rdV : ∀ v : Val, GoodV v → RdVal v
  | .list xs, h => RdVal_list (rdVs xs (by simpa [GoodV] using h))
  | .dict d, h => by
    simp only [GoodV] at h
    exact RdVal_dict h.1 h.2.1 (rdT 44 125 st_dict d h.1 h.2.2)
  | .grid md cols rows ver, h => by
    simp only [GoodV] at h
    obtain ⟨hver, hms, hcs, hrs, hgo, hgc, hgr⟩ := h
    cases cols with
    | nil => simp [colsShape] at hcs
    | cons n cm c =>
      simp only [colsShape, Bool.and_eq_true] at hcs
      exact RdVal_grid md n cm c rows ver
        ⟨hver, rdOG md hgo hms, rdC (.cons n cm c) hgc hcs.1.2, nodupB_nodup _ hcs.2,
         rdR (Cols.names (.cons n cm c)) (Cols.length (.cons n cm c) == 1) rows hgr hrs⟩
  | .null, h => RdVal_of_TokRt (by simp only [GoodV] at h; exact h.1)
  | .remove, h => RdVal_of_TokRt (by simp only [GoodV] at h; exact h.1)
  | .marker, h => RdVal_of_TokRt (by simp only [GoodV] at h; exact h.1)
  | .bool _, h => RdVal_of_TokRt (by simp only [GoodV] at h; exact h.1)
  | .na, h => RdVal_of_TokRt (by simp only [GoodV] at h; exact h.1)
  | .num _, h => RdVal_of_TokRt (by simp only [GoodV] at h; exact h.1)
  | .str _, h => RdVal_of_TokRt (by simp only [GoodV] at h; exact h.1)
  | .uri _, h => RdVal_of_TokRt (by simp only [GoodV] at h; exact h.1)
  | .ref _ _, h => RdVal_of_TokRt (by simp only [GoodV] at h; exact h.1)
  | .sym _, h => RdVal_of_TokRt (by simp only [GoodV] at h; exact h.1)
  | .date _, h => RdVal_of_TokRt (by simp only [GoodV] at h; exact h.1)
  | .time _, h => RdVal_of_TokRt (by simp only [GoodV] at h; exact h.1)
  | .dateTime _, h => RdVal_of_TokRt (by simp only [GoodV] at h; exact h.1)
  | .coord _ _, h => RdVal_of_TokRt (by simp only [GoodV] at h; exact h.1)
  | .xstr _ _, h => RdVal_of_TokRt (by simp only [GoodV] at h; exact h.1)
theorem rdVs : ∀ xs : Vals, GoodVs xs → RdVals xs
  | .nil, _ => RdVals_nil
  | .cons v vs, h => by
    simp only [GoodVs] at h
    exact RdVals_cons (rdV v h.1) (rdVs vs h.2)
theorem rdT (sep term : UInt8) (st : SepTerm sep term) : ∀ t : Tags, keysIdent t = true → GoodT t → RdTags sep term t
  | .nil, _, _ => RdTags_nil sep term
  | .cons k v t, hk, h => by
    simp only [GoodT] at h
    exact RdTags_cons st (keysIdent_tail hk) (fun _ => rdV v h.1) (rdT sep term st t (keysIdent_tail hk) h.2)
theorem rdTC (term : UInt8) (st : TermC term) : ∀ t : Tags, keysIdent t = true → GoodT t → RdTagsC term t
  | .nil, _, _ => RdTagsC_nil term
  | .cons k v t, hk, h => by
    simp only [GoodT] at h
    exact RdTagsC_cons st (keysIdent_tail hk) (fun _ => rdV v h.1) (rdTC term st t (keysIdent_tail hk) h.2)
theorem rdCell : ∀ t : Tags, GoodT t → ∀ (n : List Char) (v : Val), t.get? n = some v → RdVal v ∧ GoodV v
  | .nil, _, n, v, hg => by simp [Tags.get?] at hg
  | .cons k w t, h, n, v, hg => by
    simp only [GoodT] at h
    by_cases hk : k = n
    · simp only [Tags.get?, hk, if_true, Option.some.injEq] at hg
      subst hg; exact ⟨rdV w h.1, h.1⟩
    · simp only [Tags.get?, hk, if_false] at hg
      exact rdCell t h.2 n v hg
theorem rdOG : ∀ md : OTags, GoodO md → metaShape md = true → MetaOkG md
  | .none, _, _ => trivial
  | .some t, h, hs => by
    simp only [metaShape, Bool.and_eq_true, Bool.not_eq_eq_eq_not, Bool.not_true] at hs
    simp only [GoodO] at h
    exact ⟨hs.1.1, hs.1.2, hs.2, rdT 32 10 st_meta t hs.1.2 h⟩
theorem rdOC : ∀ md : OTags, GoodO md → metaShape md = true → MetaOkC md
  | .none, _, _ => trivial
  | .some t, h, hs => by
    simp only [metaShape, Bool.and_eq_true, Bool.not_eq_eq_eq_not, Bool.not_true] at hs
    simp only [GoodO] at h
    exact ⟨hs.1.1, hs.1.2, hs.2, rdTC 44 (Or.inl rfl) t hs.1.2 h, rdTC 10 (Or.inr rfl) t hs.1.2 h⟩
theorem rdC : ∀ c : Cols, GoodC c → colsShapeAux c = true → ColsOk c
  | .nil, _, _ => trivial
  | .cons n md c, h, hs => by
    simp only [GoodC] at h
    obtain ⟨h1, h2, h3⟩ := colsShapeAux_tail hs
    exact ⟨h1, rdOC md h.1 h2, rdC c h.2 h3⟩
theorem rdR (names : List (List Char)) (single : Bool) : ∀ rows : Rows, GoodR rows → rowsShape names single rows = true →
    RowsOk names single rows
  | .nil, _, _ => trivial
  | .cons r rs, h, hs => by
    simp only [GoodR] at h
    simp only [rowsShape, Bool.and_eq_true] at hs
    refine ⟨rowOk_of_shape names single r hs.1 (fun n v hv => ?_), rdR names single rs h.2 hs.2⟩
    obtain ⟨h1, h2⟩ := rdCell r h.1 n v hv
    exact ⟨h1, firstOk_good v h2⟩
theorem firstOk_good : ∀ v : Val, GoodV v → FirstOk (enc v true)
  | .list xs, _ => by rw [enc_list]; exact firstOk_cons _ _ (by decide)
  | .dict d, _ => by rw [enc_dict]; exact firstOk_cons _ _ (by decide)
  | .grid md cols rows ver, h => by
    simp only [GoodV] at h
    cases cols with
    | nil => simp [colsShape] at h
    | cons n cm c =>
      have := enc_grid_nested md n cm c rows ver []
      simp only [List.append_nil] at this
      rw [this]; exact firstOk_cons _ _ (by decide)
  | .null, h => by simp only [GoodV] at h; exact h.2
  | .remove, h => by simp only [GoodV] at h; exact h.2
  | .marker, h => by simp only [GoodV] at h; exact h.2
  | .bool _, h => by simp only [GoodV] at h; exact h.2
  | .na, h => by simp only [GoodV] at h; exact h.2
  | .num _, h => by simp only [GoodV] at h; exact h.2
  | .str _, h => by simp only [GoodV] at h; exact h.2
  | .uri _, h => by simp only [GoodV] at h; exact h.2
  | .ref _ _, h => by simp only [GoodV] at h; exact h.2
  | .sym _, h => by simp only [GoodV] at h; exact h.2
  | .date _, h => by simp only [GoodV] at h; exact h.2
  | .time _, h => by simp only [GoodV] at h; exact h.2
  | .dateTime _, h => by simp only [GoodV] at h; exact h.2
  | .coord _ _, h => by simp only [GoodV] at h; exact h.2
  | .xstr _ _, h => by simp only [GoodV] at h; exact h.2
end

/-- **the round trip for every well-behaved value** -/
theorem fromBytes_of_GoodV : ∀ (v : Val), GoodV v → nestV v < 64 → fromBytes (encode v) = .ok (lexImg v)
  | .grid md cols rows ver, h, hn => by
    have hrd := h
    simp only [GoodV] at h
    obtain ⟨hver, hms, hcs, hrs, hgo, hgc, hgr⟩ := h
    cases cols with
    | nil => simp [colsShape] at hcs
    | cons n cm c =>
      simp only [colsShape, Bool.and_eq_true] at hcs
      exact fromBytes_grid md n cm c rows ver
        ⟨hver, rdOG md hgo hms, rdC (.cons n cm c) hgc hcs.1.2, nodupB_nodup _ hcs.2,
         rdR (Cols.names (.cons n cm c)) (Cols.length (.cons n cm c) == 1) rows hgr hrs⟩ hn
  | .list xs, h, hn => fromBytes_of_RdVal (rdV _ h) (by rw [enc, enc]) hn
  | .dict d, h, hn => fromBytes_of_RdVal (rdV _ h) (by rw [enc, enc]) hn
  | .null, h, hn => fromBytes_of_RdVal (rdV _ h) (by simp [enc]) hn
  | .remove, h, hn => fromBytes_of_RdVal (rdV _ h) (by simp [enc]) hn
  | .marker, h, hn => fromBytes_of_RdVal (rdV _ h) (by simp [enc]) hn
  | .bool _, h, hn => fromBytes_of_RdVal (rdV _ h) (by simp [enc]) hn
  | .na, h, hn => fromBytes_of_RdVal (rdV _ h) (by simp [enc]) hn
  | .num _, h, hn => fromBytes_of_RdVal (rdV _ h) (by simp [enc]) hn
  | .str _, h, hn => fromBytes_of_RdVal (rdV _ h) (by simp [enc]) hn
  | .uri _, h, hn => fromBytes_of_RdVal (rdV _ h) (by simp [enc]) hn
  | .ref _ _, h, hn => fromBytes_of_RdVal (rdV _ h) (by simp [enc]) hn
  | .sym _, h, hn => fromBytes_of_RdVal (rdV _ h) (by simp [enc]) hn
  | .date _, h, hn => fromBytes_of_RdVal (rdV _ h) (by simp [enc]) hn
  | .time _, h, hn => fromBytes_of_RdVal (rdV _ h) (by simp [enc]) hn
  | .dateTime _, h, hn => fromBytes_of_RdVal (rdV _ h) (by simp [enc]) hn
  | .coord _ _, h, hn => fromBytes_of_RdVal (rdV _ h) (by simp [enc]) hn
  | .xstr _ _, h, hn => fromBytes_of_RdVal (rdV _ h) (by simp [enc]) hn

end Hs.Zinc
