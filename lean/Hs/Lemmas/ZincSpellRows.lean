/-
  C04 read direction, grids part 2: the row iterator (`consume_end`, `RowIterator::next`, `rowsLoop`) on the
  spelled rows followed by the grid's end: `>>` (nested), the end of the input or one more line ending (top level).
-/
import Hs.Lemmas.ZincSpellRow
namespace Hs.Zinc
open Hs Hs.Scan Hs.Spell

/-! ### `consume_white_spaces` -/

theorem cws_eof {s : Scan} (h : At s []) (fuel : Nat) :
    ∃ s', Scan.consumeWhiteSpaces (fuel + 1) s = .ok s' ∧ At s' [] ∧ s'.stash = [] := by
  obtain ⟨he, hst, hi⟩ := h
  rw [Scan.consumeWhiteSpaces]
  by_cases hw : s.isWhiteSpace = true
  · refine ⟨{ s with eof := true }, ?_, ⟨rfl, hst, hi⟩, hst⟩
    simp [hw, Scan.read, hst, Scan.readByte, hi]
  · exact ⟨s, by simp [hw], ⟨he, hst, hi⟩, hst⟩

theorem isWhiteSpace_of {s : Scan} {b : UInt8} (hc : s.cur = b) (hb : b = 32 ∨ b = 9 ∨ b = 13 ∨ b = 10) :
    s.isWhiteSpace = true := by
  unfold Scan.isWhiteSpace Scan.isSpace Scan.isNewline
  rw [hc]
  rcases hb with rfl | rfl | rfl | rfl <;> rfl

theorem White.tail {b : UInt8} {ws : List UInt8} (h : White (b :: ws)) : White ws := fun x hx => h x (by simp [hx])
theorem White.nil : White [] := by intro b hb; cases hb
theorem White.append {a b : List UInt8} (ha : White a) (hb : White b) : White (a ++ b) := by
  intro x hx
  rcases List.mem_append.mp hx with h | h
  · exact ha x h
  · exact hb x h
theorem Blanks.white {w : List UInt8} (h : Blanks w) : White w := by
  intro b hb
  rcases h b hb with e | e
  · exact Or.inl e
  · exact Or.inr (Or.inl e)
theorem Nl.white {nl : List UInt8} (h : Nl nl) : White nl := by
  cases h <;> (intro b hb; simp at hb; rcases hb with rfl | rfl <;> simp) <;> (intro b hb; simp at hb; subst hb; simp)

/-- white space up to the end of the input -/
theorem cws_white (W : List UInt8) (hW : White W) :
    ∀ (s : Scan) (fuel : Nat), At s W → W.length + 1 ≤ fuel →
    ∃ s', Scan.consumeWhiteSpaces fuel s = .ok s' ∧ At s' [] ∧ s'.stash = [] := by
  induction W with
  | nil =>
    intro s fuel h hf
    obtain ⟨f, rfl⟩ : ∃ f, fuel = f + 1 := ⟨fuel - 1, by omega⟩
    exact cws_eof h f
  | cons b W ih =>
    intro s fuel h hf
    obtain ⟨f, rfl⟩ : ∃ f, fuel = f + 1 := ⟨fuel - 1, by omega⟩
    have hws := isWhiteSpace_of h.cur (hW b (by simp))
    rw [Scan.consumeWhiteSpaces]
    simp only [hws, Bool.not_true, Bool.false_eq_true, if_false]
    cases W with
    | nil =>
      have h' := h.advance
      exact ⟨s.advance, by rw [h.read_last], h', h'.2.1⟩
    | cons c W' =>
      rw [h.read]
      exact ih (White.tail hW) s.advance f h.advance (by simpa using hf)

/-- white space followed by text that does not start with white space -/
theorem cws_white_then (W : List UInt8) (hW : White W) (text : List UInt8) (hfo : FirstW text) :
    ∀ (s : Scan) (fuel : Nat), At s (W ++ text) → W.length + 1 ≤ fuel →
    Scan.consumeWhiteSpaces fuel s = .ok (advN W.length s) := by
  obtain ⟨x, r, rfl, hx⟩ := hfo
  induction W with
  | nil =>
    intro s fuel h hf
    obtain ⟨f, rfl⟩ : ∃ f, fuel = f + 1 := ⟨fuel - 1, by omega⟩
    simp only [List.nil_append] at h
    rw [cws_none h ⟨x, r, rfl, hx⟩ f]; rfl
  | cons b W ih =>
    intro s fuel h hf
    obtain ⟨f, rfl⟩ : ∃ f, fuel = f + 1 := ⟨fuel - 1, by omega⟩
    simp only [List.cons_append] at h
    have hws := isWhiteSpace_of h.cur (hW b (by simp))
    obtain ⟨c, r', hc⟩ : ∃ c r', W ++ x :: r = c :: r' := by
      cases hx' : W ++ x :: r with
      | nil => simp at hx'
      | cons c r' => exact ⟨c, r', rfl⟩
    have hrd : s.read = (some c, s.advance) := by rw [hc] at h; exact h.read
    rw [Scan.consumeWhiteSpaces]
    simp only [hws, Bool.not_true, Bool.false_eq_true, if_false, hrd]
    rw [ih (White.tail hW) s.advance f h.advance (by simpa using hf)]
    rfl

/-! ### the end of a grid -/

/-- `GridEnd nested tail final`: what follows the last row's line ending, and where the scanner is left -/
inductive GridEnd : Bool → List UInt8 → List UInt8 → Prop
  | nested (rest : List UInt8) : GridEnd true (62 :: 62 :: rest) rest
  | top : GridEnd false [] []
  | topNl (w nl trail : List UInt8) (hw : Blanks w) (hn : Nl nl) (ht : White trail) : GridEnd false (w ++ (nl ++ trail)) []

theorem GridEnd.white {tail final : List UInt8} (h : GridEnd false tail final) : White tail ∧ final = [] := by
  cases h with
  | top => exact ⟨White.nil, rfl⟩
  | topNl w nl trail hw hn ht => exact ⟨White.append (Blanks.white hw) (White.append (Nl.white hn) ht), rfl⟩

/-- `consume_end` after the line ending of the last row -/
theorem consumeEnd_last {nested : Bool} {tail final : List UInt8} (hE : GridEnd nested tail final) (g : Nat) (p2 : PS)
    (ht2 : p2.tok = .ch 10) (h2 : At p2.sc tail) (hs2 : p2.sc.stash = []) (hfu : nested = false → tail.length ≤ g) :
    ∃ r3 : RowState, consumeEnd (g + 3) { p := p2, nestedStart := nested, nestedEnd := false } = .ok r3 ∧
      (r3.p.isEof || r3.nestedEnd) = true ∧ At r3.p.sc final ∧ r3.p.sc.stash = [] := by
  have hp2_10 : PS.isChar p2 10 = true := by unfold PS.isChar; rw [ht2]; rfl
  cases nested with
  | true =>
    cases hE with
    | nested =>
      have hfo : FirstOk (62 :: 62 :: final) := ⟨62, _, rfl, by decide, by decide, by decide, by decide⟩
      refine ⟨{ p := { sc := p2.sc.advance.advance, tok := .ch 62 }, nestedStart := true, nestedEnd := true }, ?_,
        by simp, h2.advance.advance, advN_stash_nil 2 _ hs2⟩
      rw [consumeEnd]
      simp [hp2_10, cws_none h2 hfo, PS.isEof, h2.eof, PS.read, lexRead_special h2 (by decide) (by decide) (g + 1),
        isChar_ch, lexRead_special h2.advance (by decide) (by decide) (g + 1)]
  | false =>
    obtain ⟨hW, rfl⟩ := hE.white
    obtain ⟨s', e, h', hs'⟩ := cws_white tail hW p2.sc (g + 3) h2 (by have := hfu rfl; omega)
    refine ⟨{ p := { p2 with sc := s' }, nestedStart := false, nestedEnd := false }, ?_, ?_, h', hs'⟩
    · rw [consumeEnd]
      simp [hp2_10, e, PS.isEof, h'.eof_nil]
    · simp [PS.isEof, h'.eof_nil]

/-! ### rows -/

/-- what a spelled row needs: its cells, a first byte that is not white space, keys ascending column names -/
structure RowOkW (r : Tags) (names : List (List Char)) (single : Bool) (line : List UInt8) : Prop where
  cells : ∃ cs, CellsW r cs ∧ RowLine cs names line
  pres : single = true → ∀ n ∈ names, r.get? n ≠ none
  sorted : keysSorted r.keys = true
  sub : ∀ k ∈ r.keys, k ∈ names

/-- a lone CR that is the last byte of the grid text: then the text after the grid does not start with LF
(`tlf = false`) -/
def CrOk (nl rest : List UInt8) (tlf : Bool) : Prop := nl = [13] → rest = [] → tlf = false

/-- the spelled rows -/
inductive RowsOkW (names : List (List Char)) (single tlf : Bool) : Rows → List UInt8 → Prop
  | nil : RowsOkW names single tlf .nil []
  | cons (r : Tags) (rs : Rows) (line w nl rest : List UInt8) (hr : RowOkW r names single line) (hw : Blanks w)
      (hn : Nl nl) (hcr : CrOk nl rest tlf) (t : RowsOkW names single tlf rs rest) :
      RowsOkW names single tlf (.cons r rs) (line ++ w ++ nl ++ rest)

/-- a row line starts with a byte that is not white space -/
theorem firstW_row {r : Tags} {names : List (List Char)} {single : Bool} {line : List UInt8}
    (h : RowOkW r names single line) (hsingle : names.length = 1 → single = true) (x : List UInt8) :
    FirstW (line ++ x) := by
  obtain ⟨cs, hC, hl⟩ := h.cells
  cases hl with
  | one n =>
    have hs : single = true := hsingle rfl
    cases hget : r.get? n with
    | none => exact absurd hget (h.pres hs n (by simp))
    | some v =>
      obtain ⟨b, rr, e, hb⟩ := ((hC n).1 v hget).first
      exact ⟨b, rr ++ x, by rw [e]; simp, hb⟩
  | cons n n2 ns w restl hw hl' =>
    cases hget : r.get? n with
    | none =>
      rw [(hC n).2 hget]
      exact ⟨44, _, by simp; rfl, by decide, by decide, by decide, by decide⟩
    | some v =>
      obtain ⟨b, rr, e, hb⟩ := ((hC n).1 v hget).first
      exact ⟨b, rr ++ (44 :: (w ++ restl) ++ x), by rw [e]; simp, hb⟩

theorem RowsOkW.head_ne {names : List (List Char)} {single tlf : Bool} {rows : Rows} {body : List UInt8}
    (h : RowsOkW names single tlf rows body) (hsingle : names.length = 1 → single = true) (hne : body ≠ []) (x : List UInt8) :
    (body ++ x).head? ≠ some 10 := by
  cases h with
  | nil => exact absurd rfl hne
  | cons r rs line w nl rest hr hw hn hcr t =>
    obtain ⟨b, rr, e, hb⟩ := firstW_row hr hsingle (w ++ nl ++ rest ++ x)
    have : line ++ w ++ nl ++ rest ++ x = b :: rr := by simpa using e
    rw [this]
    simp only [List.head?_cons, ne_eq, Option.some.injEq]
    exact hb.2.2.2

/-- the row iterator on one or more rows -/
theorem rowsLoopW (names : List (List Char)) (single nested tlf : Bool) (tail final : List UInt8)
    (hE : GridEnd nested tail final) (htl : tlf = false → tail.head? ≠ some 10) (hne : names ≠ [])
    (hsingle : names.length = 1 → single = true)
    (hnd : names.Nodup) (depth : Nat) (rows : Rows) (body : List UInt8) (hok : RowsOkW names single tlf rows body) :
    ∀ (r : Tags) (rs : Rows), rows = .cons r rs → depth + nestR rows ≤ 64 →
    ∀ (f1 f2 : Nat) (sc : Scan) (acc : List Tags), At sc (body ++ tail) → sc.stash = [] →
    4 * body.length + 20 ≤ f1 → 4 * body.length + 20 ≤ f2 → (nested = false → 4 * body.length + tail.length + 20 ≤ f2) →
    ∃ p r', lexRead f1 sc = .ok p ∧ p.sc.eof = false ∧ PS.isChar p 10 = false ∧ PS.isChar p 62 = false ∧
      rowsLoop f2 depth { p := p, nestedStart := nested, nestedEnd := false } names acc
        = .ok (acc ++ (lexImgR rows).toList, r') ∧
      At r'.p.sc final ∧ r'.p.sc.stash = [] := by
  induction hok with
  | nil => intro r rs e; cases e
  | cons r0 rs0 line w nl rest hrow hw hn hcr hrest ih =>
    intro r rs e hdep f1 f2 sc acc hat hs hf1 hf2 hfu
    cases e
    simp only [nestR] at hdep
    simp only [List.append_assoc, List.length_append] at hat hf1 hf2 hfu
    have hnl : 1 ≤ nl.length := by cases hn <;> simp
    obtain ⟨g, rfl⟩ : ∃ g, f2 = g + 5 := ⟨f2 - 5, by omega⟩
    obtain ⟨cs, hC, hl⟩ := hrow.cells
    have hnolf : NoLF nl (rest ++ tail) := by
      intro e
      by_cases hr : rest = []
      · subst hr; simpa using htl (hcr e rfl)
      · exact hrest.head_ne hsingle hr tail
    obtain ⟨p, p2, e1, e2, ht2, h2, hs2, hfirst⟩ := rowLoopW r0 cs names single hC hrow.pres names line hl 0 rfl depth f1
      (g + 3) sc [] (rest ++ tail) nl w [] hn hw hnolf Blanks.nil (by omega) (by simpa using hat) (by simp [hs]) (fun _ => hs)
      (by simp; omega) (by simp; omega)
    have hsz : 2 ≤ names.length ∨ single = true := by
      cases names with
      | nil => exact absurd rfl hne
      | cons n ns =>
        cases ns with
        | nil => exact Or.inr (hsingle rfl)
        | cons _ _ => left; simp
    obtain ⟨heof, h10, h62⟩ := hfirst hsz
    have hdict : dictOf (cellsOf r0 names) = lexImgT r0 := dictOf_cellsOf r0 names hnd hrow.sub hrow.sorted
    simp only [List.nil_append] at e2
    have hnext : rowNext (g + 4) depth { p := p, nestedStart := nested, nestedEnd := false } names =
        (match consumeEnd (g + 3) { p := p2, nestedStart := nested, nestedEnd := false } with
          | .ok r3 => .ok (some (lexImgT r0), r3)
          | .err => .err | .panic => .panic | .diverge => .diverge | .depth => .depth) := by
      rw [rowNext]
      simp only [PS.isEof, heof, Bool.or_false, Bool.false_eq_true, if_false]
      rw [consumeEnd_noop (g + 2) p nested false h10 h62]
      simp only [heof, Bool.or_false, Bool.false_eq_true, if_false, e2, hdict]
      rfl
    cases hrest with
    | cons r2 rs2 line2 w2 nl2 rest2 hrow2 hw2 hn2 hcr2 hrest2 =>
      have hfo : FirstW (line2 ++ w2 ++ nl2 ++ rest2 ++ tail) := by
        have := firstW_row hrow2 hsingle (w2 ++ nl2 ++ rest2 ++ tail)
        simpa using this
      obtain ⟨q, r', eq, hqe, hq10, hq62, eloop, hfin, hsfin⟩ := ih r2 rs2 rfl (by omega) (g + 2) (g + 4) p2.sc
        (acc ++ [lexImgT r0]) h2 hs2 (by omega) (by omega) (fun h => by have := hfu h; omega)
      refine ⟨p, r', e1, heof, h10, h62, ?_, hfin, hsfin⟩
      rw [rowsLoop, hnext, consumeEnd_next (g + 2) p2 q nested _ ht2 h2 hfo.ok eq hq62]
      simp only [eloop, lexImgR_toList_cons]
      simp
    | nil =>
      simp only [List.nil_append] at h2
      obtain ⟨r3, e3, hend, h3, hs3⟩ := consumeEnd_last hE g p2 ht2 h2 hs2 (fun h => by have := hfu h; omega)
      refine ⟨p, r3, e1, heof, h10, h62, ?_, h3, hs3⟩
      rw [rowsLoop, hnext, e3]
      simp only []
      rw [rowsLoop, rowNext]
      simp [hend, lexImgR, Rows.toList]

/-- a line ending (after blanks) followed by white space only: one `.ch 10` token, white space is left -/
theorem lexRead_nl_white (w nl trail : List UInt8) (hw : Blanks w) (hn : Nl nl) (ht : White trail) (s : Scan)
    (h : At s (w ++ (nl ++ trail))) (hs : s.stash = []) (fuel : Nat) (hf : w.length + 2 ≤ fuel) :
    ∃ s' t', lexRead fuel s = .ok { sc := s', tok := .ch 10 } ∧ At s' t' ∧ White t' ∧ t'.length ≤ trail.length ∧
      s'.stash = [] := by
  by_cases hc : nl = [13] ∧ trail.head? = some 10
  · obtain ⟨rfl, h10⟩ := hc
    cases trail with
    | nil => simp at h10
    | cons x t =>
      simp only [List.head?_cons, Option.some.injEq] at h10
      subst h10
      obtain ⟨s', e, h', hs'⟩ := lexRead_nlW w hw [13, 10] Nl.crlf s t (by simpa using h) (fun e => by cases e)
        (by simp [hs]) (fun _ => hs) fuel hf
      exact ⟨s', t, e, h', White.tail ht, by simp, hs'⟩
  · have hno : NoLF nl trail := by
      intro e; intro h10; exact hc ⟨e, h10⟩
    obtain ⟨s', e, h', hs'⟩ := lexRead_nlW w hw nl hn s trail h hno (by simp [hs]) (fun _ => hs) fuel hf
    exact ⟨s', trail, e, h', ht, Nat.le_refl _, hs'⟩

/-- all rows (possibly none) and the end of the grid -/
theorem rows_allW (names : List (List Char)) (single nested tlf : Bool) (tail final : List UInt8)
    (hE : GridEnd nested tail final) (htl : tlf = false → tail.head? ≠ some 10) (hne : names ≠ [])
    (hsingle : names.length = 1 → single = true)
    (hnd : names.Nodup) (depth : Nat) (rows : Rows) (body : List UInt8) (hok : RowsOkW names single tlf rows body)
    (hdep : depth + nestR rows ≤ 64) (g : Nat) (sc6 : Scan) (hat : At sc6 (body ++ tail)) (hs : sc6.stash = [])
    (hf : 4 * body.length + 20 ≤ g) (hfu : nested = false → 4 * body.length + tail.length + 20 ≤ g) :
    ∃ p6 r', lexRead g sc6 = .ok p6 ∧
      rowsLoop (g + 1) depth { p := p6, nestedStart := nested, nestedEnd := false } names []
        = .ok ((lexImgR rows).toList, r') ∧
      At r'.p.sc final ∧ r'.p.sc.stash = [] := by
  cases hok with
  | cons r rs line w nl rest hr hw hn hcr t =>
    obtain ⟨p, r', e1, _, _, _, e2, h', hs'⟩ := rowsLoopW names single nested tlf tail final hE htl hne hsingle hnd depth _ _
      (RowsOkW.cons r rs line w nl rest hr hw hn hcr t) r rs rfl hdep g (g + 1) sc6 [] hat hs hf (by omega)
      (fun h => by have := hfu h; omega)
    exact ⟨p, r', e1, by simpa using e2, h', hs'⟩
  | nil =>
    simp only [List.nil_append] at hat
    obtain ⟨g', rfl⟩ : ∃ g', g = g' + 3 := ⟨g - 3, by omega⟩
    cases hE with
    | top =>
      refine ⟨{ sc := sc6, tok := .none }, { p := { sc := sc6, tok := .none }, nestedStart := false, nestedEnd := false },
        lexRead_eof hat _, ?_, hat, hs⟩
      rw [rowsLoop, rowNext]
      simp [PS.isEof, hat.eof_nil, lexImgR, Rows.toList]
    | topNl w nl trail hw hn ht =>
      have hfu' := hfu rfl
      simp only [List.length_append, List.length_nil] at hfu'
      obtain ⟨s', t', e, h', hwt, hlt, hs'⟩ := lexRead_nl_white w nl trail hw hn ht sc6 hat hs (g' + 3) (by omega)
      by_cases he : s'.eof = true
      · refine ⟨{ sc := s', tok := .ch 10 }, { p := { sc := s', tok := .ch 10 }, nestedStart := false, nestedEnd := false },
          e, ?_, ?_, hs'⟩
        · rw [rowsLoop, rowNext]
          simp [PS.isEof, he, lexImgR, Rows.toList]
        · cases t' with
          | nil => exact h'
          | cons b r => rw [h'.eof] at he; cases he
      · obtain ⟨s2, e2, h2, hs2⟩ := cws_white t' hwt s' (g' + 2) h' (by omega)
        refine ⟨{ sc := s', tok := .ch 10 }, { p := { sc := s2, tok := .ch 10 }, nestedStart := false, nestedEnd := false },
          e, ?_, h2, hs2⟩
        rw [rowsLoop, rowNext]
        simp only [PS.isEof, he, Bool.or_false, Bool.false_eq_true, if_false]
        rw [consumeEnd]
        simp [isChar_ch, e2, PS.isEof, h2.eof_nil, lexImgR, Rows.toList]
    | nested =>
      refine ⟨{ sc := sc6.advance, tok := .ch 62 },
        { p := { sc := sc6.advance.advance, tok := .ch 62 }, nestedStart := true, nestedEnd := true },
        lexRead_special hat (by decide) (by decide) _, ?_, hat.advance.advance, advN_stash_nil 2 _ hs⟩
      rw [rowsLoop, rowNext]
      simp only [PS.isEof, hat.advance.eof, Bool.or_false, Bool.false_eq_true, if_false]
      rw [consumeEnd]
      simp [isChar_ch, PS.read, lexRead_special hat.advance (by decide) (by decide) g', lexImgR, Rows.toList]

end Hs.Zinc
