/-
  C04 read direction, grids part 2: the row iterator (`consume_end`, `RowIterator::next`, `rowsLoop`) on the
  spelled rows followed by the grid's end: `>>` (nested), the end of the input or one more line ending (top level).
-/
import Hs.Lemmas.ZincSpellRow
namespace Hs.Zinc
open Hs Hs.Scan Hs.Spell

/-! ### `consume_white_spaces` -/

theorem cws_eof {s : Scan} (h : At s []) (fuel : Nat) :
    ∃ s', Scan.consumeWhiteSpaces (fuel + 1) s = .ok s' ∧ At s' [] ∧ s'.stash = [] := by
  obtain ⟨he, hst, hi⟩ := h
  rw [Scan.consumeWhiteSpaces]
  by_cases hw : s.isWhiteSpace = true
  · refine ⟨{ s with eof := true }, ?_, ⟨rfl, hst, hi⟩, hst⟩
    simp [hw, Scan.read, hst, Scan.readByte, hi]
  · exact ⟨s, by simp [hw], ⟨he, hst, hi⟩, hst⟩

/-- a line ending at the very end of the input -/
theorem cws_nl_end {s : Scan} {nl : List UInt8} (hn : Nl nl) (h : At s nl) (fuel : Nat) :
    ∃ s', Scan.consumeWhiteSpaces (fuel + 3) s = .ok s' ∧ At s' [] ∧ s'.stash = [] := by
  cases hn with
  | lf =>
    have h' := h.advance
    refine ⟨s.advance, ?_, h', h'.2.1⟩
    rw [Scan.consumeWhiteSpaces]
    simp [Scan.isWhiteSpace, Scan.isSpace, Scan.isNewline, h.cur, h.read_last]
  | crlf =>
    have h' := h.advance.advance
    refine ⟨s.advance.advance, ?_, h', h'.2.1⟩
    rw [Scan.consumeWhiteSpaces]
    simp only [Scan.isWhiteSpace, Scan.isSpace, Scan.isNewline, h.cur, h.read]
    rw [Scan.consumeWhiteSpaces]
    simp [Scan.isWhiteSpace, Scan.isSpace, Scan.isNewline, h.advance.cur, h.advance.read_last]

/-- a line ending followed by text that does not start with white space -/
theorem cws_nl_then {s : Scan} {nl text : List UInt8} (hn : Nl nl) (h : At s (nl ++ text)) (hfo : FirstW text)
    (fuel : Nat) : Scan.consumeWhiteSpaces (fuel + 3) s = .ok (advN nl.length s) := by
  obtain ⟨b, r, rfl, hb⟩ := hfo
  cases hn with
  | lf =>
    simp only [List.cons_append, List.nil_append] at h
    rw [Scan.consumeWhiteSpaces]
    simp only [Scan.isWhiteSpace, Scan.isSpace, Scan.isNewline, h.cur, h.read]
    rw [cws_none h.advance ⟨b, r, rfl, hb⟩ (fuel + 1)]
    simp [advN]
  | crlf =>
    simp only [List.cons_append, List.nil_append] at h
    rw [Scan.consumeWhiteSpaces]
    simp only [Scan.isWhiteSpace, Scan.isSpace, Scan.isNewline, h.cur, h.read]
    rw [Scan.consumeWhiteSpaces]
    simp only [Scan.isWhiteSpace, Scan.isSpace, Scan.isNewline, h.advance.cur, h.advance.read]
    rw [cws_none h.advance.advance ⟨b, r, rfl, hb⟩ fuel]
    simp [advN]

/-! ### the end of a grid -/

/-- `GridEnd nested tail final`: what follows the last row's line ending, and where the scanner is left -/
inductive GridEnd : Bool → List UInt8 → List UInt8 → Prop
  | nested (rest : List UInt8) : GridEnd true (62 :: 62 :: rest) rest
  | top : GridEnd false [] []
  | topNl (nl : List UInt8) (hn : Nl nl) : GridEnd false nl []

/-- `consume_end` after the line ending of the last row -/
theorem consumeEnd_last {nested : Bool} {tail final : List UInt8} (hE : GridEnd nested tail final) (g : Nat) (p2 : PS)
    (ht2 : p2.tok = .ch 10) (h2 : At p2.sc tail) (hs2 : p2.sc.stash = []) :
    ∃ r3 : RowState, consumeEnd (g + 3) { p := p2, nestedStart := nested, nestedEnd := false } = .ok r3 ∧
      (r3.p.isEof || r3.nestedEnd) = true ∧ At r3.p.sc final ∧ r3.p.sc.stash = [] := by
  have hp2_10 : PS.isChar p2 10 = true := by unfold PS.isChar; rw [ht2]; rfl
  cases hE with
  | nested =>
    have hfo : FirstOk (62 :: 62 :: final) := ⟨62, _, rfl, by decide, by decide, by decide, by decide⟩
    refine ⟨{ p := { sc := p2.sc.advance.advance, tok := .ch 62 }, nestedStart := true, nestedEnd := true }, ?_,
      by simp, h2.advance.advance, advN_stash_nil 2 _ hs2⟩
    rw [consumeEnd]
    simp [hp2_10, cws_none h2 hfo, PS.isEof, h2.eof, PS.read, lexRead_special h2 (by decide) (by decide) (g + 1),
      isChar_ch, lexRead_special h2.advance (by decide) (by decide) (g + 1)]
  | top =>
    obtain ⟨s', e, h', hs'⟩ := cws_eof h2 (g + 2)
    refine ⟨{ p := { p2 with sc := s' }, nestedStart := false, nestedEnd := false }, ?_, ?_, h', hs'⟩
    · rw [consumeEnd]
      simp [hp2_10, e, PS.isEof, h'.eof_nil]
    · simp [PS.isEof, h'.eof_nil]
  | topNl nl hn =>
    obtain ⟨s', e, h', hs'⟩ := cws_nl_end hn h2 g
    refine ⟨{ p := { p2 with sc := s' }, nestedStart := false, nestedEnd := false }, ?_, ?_, h', hs'⟩
    · rw [consumeEnd]
      simp [hp2_10, e, PS.isEof, h'.eof_nil]
    · simp [PS.isEof, h'.eof_nil]

/-! ### rows -/

/-- what a spelled row needs: its cells, a first byte that is not white space, keys ascending column names -/
structure RowOkW (r : Tags) (names : List (List Char)) (single : Bool) (line : List UInt8) : Prop where
  cells : ∃ cs, CellsW r cs ∧ RowLine cs names line
  pres : single = true → ∀ n ∈ names, r.get? n ≠ none
  sorted : keysSorted r.keys = true
  sub : ∀ k ∈ r.keys, k ∈ names

/-- the spelled rows -/
inductive RowsOkW (names : List (List Char)) (single : Bool) : Rows → List UInt8 → Prop
  | nil : RowsOkW names single .nil []
  | cons (r : Tags) (rs : Rows) (line nl rest : List UInt8) (hr : RowOkW r names single line) (hn : Nl nl)
      (t : RowsOkW names single rs rest) : RowsOkW names single (.cons r rs) (line ++ nl ++ rest)

/-- a row line starts with a byte that is not white space -/
theorem firstW_row {r : Tags} {names : List (List Char)} {single : Bool} {line : List UInt8}
    (h : RowOkW r names single line) (hsingle : names.length = 1 → single = true) (tl : List UInt8) {nl : List UInt8}
    (hn : Nl nl) : FirstW (line ++ (nl ++ tl)) := by
  obtain ⟨cs, hC, hl⟩ := h.cells
  cases hl with
  | one n =>
    have hs : single = true := hsingle rfl
    cases hget : r.get? n with
    | none => exact absurd hget (h.pres hs n (by simp))
    | some v =>
      obtain ⟨b, rr, e, hb⟩ := ((hC n).1 v hget).first
      exact ⟨b, rr ++ (nl ++ tl), by rw [e]; simp, hb⟩
  | cons n n2 ns w restl hw hl' =>
    cases hget : r.get? n with
    | none =>
      rw [(hC n).2 hget]
      exact ⟨44, _, by simp; rfl, by decide, by decide, by decide, by decide⟩
    | some v =>
      obtain ⟨b, rr, e, hb⟩ := ((hC n).1 v hget).first
      exact ⟨b, rr ++ (44 :: (w ++ restl) ++ (nl ++ tl)), by rw [e]; simp, hb⟩

/-- the row iterator on one or more rows -/
theorem rowsLoopW (names : List (List Char)) (single nested : Bool) (tail final : List UInt8)
    (hE : GridEnd nested tail final) (hne : names ≠ []) (hsingle : names.length = 1 → single = true)
    (hnd : names.Nodup) (depth : Nat) (rows : Rows) (body : List UInt8) (hok : RowsOkW names single rows body) :
    ∀ (r : Tags) (rs : Rows), rows = .cons r rs → depth + nestR rows ≤ 64 →
    ∀ (f1 f2 : Nat) (sc : Scan) (acc : List Tags), At sc (body ++ tail) → sc.stash = [] →
    4 * body.length + 20 ≤ f1 → 4 * body.length + 20 ≤ f2 →
    ∃ p r', lexRead f1 sc = .ok p ∧ p.sc.eof = false ∧ PS.isChar p 10 = false ∧ PS.isChar p 62 = false ∧
      rowsLoop f2 depth { p := p, nestedStart := nested, nestedEnd := false } names acc
        = .ok (acc ++ (lexImgR rows).toList, r') ∧
      At r'.p.sc final ∧ r'.p.sc.stash = [] := by
  induction hok with
  | nil => intro r rs e; cases e
  | cons r0 rs0 line nl rest hrow hn hrest ih =>
    intro r rs e hdep f1 f2 sc acc hat hs hf1 hf2
    cases e
    simp only [nestR] at hdep
    simp only [List.append_assoc, List.length_append] at hat hf1 hf2
    have hnl : 1 ≤ nl.length := by cases hn <;> simp
    obtain ⟨g, rfl⟩ : ∃ g, f2 = g + 5 := ⟨f2 - 5, by omega⟩
    obtain ⟨cs, hC, hl⟩ := hrow.cells
    obtain ⟨p, p2, e1, e2, ht2, h2, hs2, hfirst⟩ := rowLoopW r0 cs names single hC hrow.pres names line hl 0 rfl depth f1
      (g + 3) sc [] (rest ++ tail) nl [] hn Blanks.nil (by omega) (by simpa using hat) (by simp [hs]) (fun _ => hs)
      (by simp; omega) (by simp; omega)
    have hsz : 2 ≤ names.length ∨ single = true := by
      cases names with
      | nil => exact absurd rfl hne
      | cons n ns =>
        cases ns with
        | nil => exact Or.inr (hsingle rfl)
        | cons _ _ => left; simp
    obtain ⟨heof, h10, h62⟩ := hfirst hsz
    have hdict : dictOf (cellsOf r0 names) = lexImgT r0 := dictOf_cellsOf r0 names hnd hrow.sub hrow.sorted
    simp only [List.nil_append] at e2
    have hnext : rowNext (g + 4) depth { p := p, nestedStart := nested, nestedEnd := false } names =
        (match consumeEnd (g + 3) { p := p2, nestedStart := nested, nestedEnd := false } with
          | .ok r3 => .ok (some (lexImgT r0), r3)
          | .err => .err | .panic => .panic | .diverge => .diverge | .depth => .depth) := by
      rw [rowNext]
      simp only [PS.isEof, heof, Bool.or_false, Bool.false_eq_true, if_false]
      rw [consumeEnd_noop (g + 2) p nested false h10 h62]
      simp only [heof, Bool.or_false, Bool.false_eq_true, if_false, e2, hdict]
      rfl
    cases hrest with
    | cons r2 rs2 line2 nl2 rest2 hrow2 hn2 hrest2 =>
      have hfo : FirstW (line2 ++ nl2 ++ rest2 ++ tail) := by
        have := firstW_row hrow2 hsingle (rest2 ++ tail) hn2
        simpa using this
      obtain ⟨q, r', eq, hqe, hq10, hq62, eloop, hfin, hsfin⟩ := ih r2 rs2 rfl (by omega) (g + 2) (g + 4) p2.sc
        (acc ++ [lexImgT r0]) h2 hs2 (by omega) (by omega)
      refine ⟨p, r', e1, heof, h10, h62, ?_, hfin, hsfin⟩
      rw [rowsLoop, hnext, consumeEnd_next (g + 2) p2 q nested _ ht2 h2 hfo.ok eq hq62]
      simp only [eloop, lexImgR_toList_cons]
      simp
    | nil =>
      simp only [List.nil_append] at h2
      obtain ⟨r3, e3, hend, h3, hs3⟩ := consumeEnd_last hE g p2 ht2 h2 hs2
      refine ⟨p, r3, e1, heof, h10, h62, ?_, h3, hs3⟩
      rw [rowsLoop, hnext, e3]
      simp only []
      rw [rowsLoop, rowNext]
      simp [hend, lexImgR, Rows.toList]

/-- all rows (possibly none) and the end of the grid -/
theorem rows_allW (names : List (List Char)) (single nested : Bool) (tail final : List UInt8)
    (hE : GridEnd nested tail final) (hne : names ≠ []) (hsingle : names.length = 1 → single = true)
    (hnd : names.Nodup) (depth : Nat) (rows : Rows) (body : List UInt8) (hok : RowsOkW names single rows body)
    (hdep : depth + nestR rows ≤ 64) (g : Nat) (sc6 : Scan) (hat : At sc6 (body ++ tail)) (hs : sc6.stash = [])
    (hf : 4 * body.length + 20 ≤ g) :
    ∃ p6 r', lexRead g sc6 = .ok p6 ∧
      rowsLoop (g + 1) depth { p := p6, nestedStart := nested, nestedEnd := false } names []
        = .ok ((lexImgR rows).toList, r') ∧
      At r'.p.sc final ∧ r'.p.sc.stash = [] := by
  cases hok with
  | cons r rs line nl rest hr hn t =>
    obtain ⟨p, r', e1, _, _, _, e2, h', hs'⟩ := rowsLoopW names single nested tail final hE hne hsingle hnd depth _ _
      (RowsOkW.cons r rs line nl rest hr hn t) r rs rfl hdep g (g + 1) sc6 [] hat hs hf (by omega)
    exact ⟨p, r', e1, by simpa using e2, h', hs'⟩
  | nil =>
    simp only [List.nil_append] at hat
    obtain ⟨g', rfl⟩ : ∃ g', g = g' + 3 := ⟨g - 3, by omega⟩
    cases hE with
    | top =>
      refine ⟨{ sc := sc6, tok := .none }, { p := { sc := sc6, tok := .none }, nestedStart := false, nestedEnd := false },
        lexRead_eof hat _, ?_, hat, hs⟩
      rw [rowsLoop, rowNext]
      simp [PS.isEof, hat.eof_nil, lexImgR, Rows.toList]
    | topNl _ hn =>
      obtain ⟨s', e, h', hs'⟩ := lexRead_nl tail hn sc6 [] (by simpa using hat) (by simp [hs]) (g' + 2)
      refine ⟨{ sc := s', tok := .ch 10 }, { p := { sc := s', tok := .ch 10 }, nestedStart := false, nestedEnd := false },
        e, ?_, h', hs'⟩
      rw [rowsLoop, rowNext]
      simp [PS.isEof, h'.eof_nil, lexImgR, Rows.toList]
    | nested =>
      refine ⟨{ sc := sc6.advance, tok := .ch 62 },
        { p := { sc := sc6.advance.advance, tok := .ch 62 }, nestedStart := true, nestedEnd := true },
        lexRead_special hat (by decide) (by decide) _, ?_, hat.advance.advance, advN_stash_nil 2 _ hs⟩
      rw [rowsLoop, rowNext]
      simp only [PS.isEof, hat.advance.eof, Bool.or_false, Bool.false_eq_true, if_false]
      rw [consumeEnd]
      simp [isChar_ch, PS.read, lexRead_special hat.advance (by decide) (by decide) g', lexImgR, Rows.toList]

end Hs.Zinc
