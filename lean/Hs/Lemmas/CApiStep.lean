/-
  Lemmas for C17 / C18 about single calls: failing paths, sentinels, aborts, null arguments.
-/
import Hs.Model.CApi
namespace Hs.CApi
open Hs

theorem cstep_of_ok {s : CState} {op : COp} {s' : CState} {r : COk} (h : cexec s op = .ok (s', r)) :
    cstep s op = (s', .ok r) := by simp [cstep, h]

theorem cstep_of_err {s : CState} {op : COp} {e : CErr} {sen : Sentinel} (h : cexec s op = .error (.err e sen)) :
    cstep s op = ({ s with lastErr := some e }, .fail sen) := by simp [cstep, h]

/-- the sentinel every failing path of a function returns -/
def COp.sentinel : COp → Sentinel
  | .mk0 _ | .mkBool _ | .mkNum _ | .mkCoord _ _ => .none
  | .mkNumUnit _ _ _ | .mk1 _ _ | .mkRefDis _ _ | .mkXStr _ _ | .mkTime _ _ _ | .mkTimeMs _ _ _ _ | .mkDate _ _ _
  | .mkUtc _ _ _ | .mkTz _ _ _ _ => .null
  | .isKind _ _ => .false
  | .get g _ => g.sentinel
  | .lpush _ _ | .lget _ _ _ | .lset _ _ _ | .lrem _ _ | .dins _ _ _ | .dget _ _ _ | .drem _ _ | .dkeys _ _ => .err
  | .gfrom _ | .gfromMeta _ _ => .null
  | .grow _ _ _ | .dtDate _ _ _ _ | .dtTime _ _ _ _ => .err
  | .toZinc _ _ | .fromZinc _ _ | .toJson _ _ | .fromJson _ _ | .fparse _ _ => .null
  | .fmatch _ _ _ | .ffirst _ _ _ _ | .fall _ _ _ _ => .err
  | .fdestroy _ => .none
  | .takeErr => .null
  | .destroy _ | .sdestroy _ => .none

theorem text_err {c : CStr} {sen : Sentinel} {st : Stop} (h : c.text sen = .error st) :
    ∃ e, st = .err e sen := by
  cases c <;> simp [CStr.text] at h
  · exact ⟨_, h.symm⟩
  · exact ⟨_, h.symm⟩

theorem utcArgs_err {s : CState} {d t : Ptr} {st : Stop} (h : utcArgs s d t = .error st) :
    ∃ e, st = .err e .null := by
  unfold utcArgs at h
  split at h
  · split at h
    · split at h
      · rename_i hab
        simp only [Bool.and_eq_true] at hab
        simp [hab.1, hab.2] at h
      · exact ⟨_, (Except.error.inj h).symm⟩
    · exact ⟨_, (Except.error.inj h).symm⟩
  · exact ⟨_, (Except.error.inj h).symm⟩

theorem gridFromRows_err {s : CState} {rows : Ptr} {st : Stop} (h : gridFromRows s rows = .error st) :
    ∃ e, st = .err e .null := by
  unfold gridFromRows at h
  repeat' (split at h)
  all_goals first
    | (cases h; done)
    | exact ⟨_, (Except.error.inj h).symm⟩

/-- every way a call can stop is a failing path with the function's sentinel: never an abort -/
theorem cexec_err {s : CState} {op : COp} {st : Stop} (h : cexec s op = .error st) :
    ∃ e, st = .err e op.sentinel := by
  cases op <;> simp only [cexec, COp.sentinel] at h ⊢
  all_goals (repeat' (split at h))
  all_goals first
    | (cases h; done)
    | exact ⟨_, (Except.error.inj h).symm⟩
    | (cases (Except.error.inj h); rename_i hh; exact text_err hh)
    | (cases (Except.error.inj h); rename_i hh; exact utcArgs_err hh)
    | (cases (Except.error.inj h); rename_i hh; exact gridFromRows_err hh)

theorem cexec_no_abort (s : CState) (op : COp) : cexec s op ≠ .error .abort := by
  intro h
  obtain ⟨e, he⟩ := cexec_err h
  cases he

theorem cstep_cases (s : CState) (op : COp) :
    (∃ s' r, cexec s op = .ok (s', r) ∧ cstep s op = (s', .ok r)) ∨
    (∃ e, cexec s op = .error (.err e op.sentinel) ∧ cstep s op = ({ s with lastErr := some e }, .fail op.sentinel)) := by
  cases h : cexec s op with
  | ok p => exact .inl ⟨p.1, p.2, rfl, cstep_of_ok h⟩
  | error st =>
    obtain ⟨e, he⟩ := cexec_err h
    subst he
    exact .inr ⟨e, rfl, cstep_of_err h⟩

theorem text_ok {c : CStr} {sen : Sentinel} {t : List Char} (h : c.text sen = .ok t) : c = .ok t := by
  cases c <;> simp [CStr.text] at h
  rw [h]

theorem utcArgs_ok {s : CState} {d t : Ptr} {u : Unit} (h : utcArgs s d t = .ok u) :
    d.isNone = false ∧ t.isNone = false := by
  unfold utcArgs at h
  split at h
  · simp
  · cases h

theorem gridFromRows_ok {s : CState} {rows : Ptr} {rs : List Tags} (h : gridFromRows s rows = .ok rs) :
    rows.isNone = false := by
  unfold gridFromRows at h
  cases rows with
  | none => simp [CState.val?] at h
  | some k => rfl

/-- a null pointer argument (of a function other than the two exempt destroy functions) ends on a failing path -/
theorem cexec_null {s : CState} {op : COp} (hd : op.isExemptDestroy = false)
    (hn : op.nullFlags.any id = true) : ∃ e, cexec s op = .error (.err e op.sentinel) := by
  cases hx : cexec s op with
  | error st =>
    obtain ⟨e, he⟩ := cexec_err hx
    exact ⟨e, by rw [he]⟩
  | ok p =>
    exfalso
    cases op <;> simp only [COp.nullFlags, COp.isExemptDestroy, List.any, Bool.or_false, id] at hn hd
    all_goals simp only [cexec] at hx
    all_goals (repeat' (split at hx))
    all_goals (try (have htx := text_ok ‹CStr.text _ _ = Except.ok _›))
    all_goals (try (have hux := utcArgs_ok ‹utcArgs _ _ _ = Except.ok _›))
    all_goals (try (have hgx := gridFromRows_ok ‹gridFromRows _ _ = Except.ok _›))
    all_goals simp_all [CState.val?, CState.flt?, CStr.isNull]

end Hs.CApi
