/-
  Hs.Lemmas.UnitArith — general lemmas about the model `Hs.Model.UnitArith` (all units, all lists of
  entries, all rationals); no table facts here (those are in Hs.Lemmas.UnitArithTable).
-/
import Hs.Model.UnitArith
import Mathlib.Tactic.FieldSimp
import Mathlib.Tactic.Ring
import Mathlib.Tactic.Linarith
namespace Hs.UnitArith
open Hs

/-! ### conversion -/

theorem inconvertible_comm (a b : QUnit) : inconvertible b a = inconvertible a b := by
  unfold inconvertible
  rw [Bool.and_comm b.isByte a.isByte]
  congr 1
  exact decide_eq_decide.mpr ⟨fun h e => h e.symm, fun h e => h e.symm⟩

theorem inconvertible_eq_false (a b : QUnit) :
    inconvertible a b = false ↔ (a.dims = b.dims ∨ (a.isByte = true ∧ b.isByte = true)) := by
  unfold inconvertible
  by_cases hd : a.dims = b.dims <;> cases ha : a.isByte <;> cases hb : b.isByte <;> simp [hd]

theorem convertTo_ok_iff (a b : QUnit) (x : Rat) :
    (∃ y, convertTo a b x = .ok y) ↔ inconvertible a b = false := by
  unfold convertTo
  cases h : inconvertible a b <;> simp

theorem convertTo_ok (a b : QUnit) (x y : Rat) (h : convertTo a b x = .ok y) :
    inconvertible a b = false ∧ y = ((x * a.scale + a.offset) - b.offset) / b.scale := by
  unfold convertTo at h
  cases hi : inconvertible a b <;> simp [hi] at h
  exact ⟨rfl, h.symm⟩

/-- the algebra behind "converting back returns the original" -/
theorem convert_roundtrip_alg (x sa oa sb ob : Rat) (ha : sa ≠ 0) (hb : sb ≠ 0) :
    ((((x * sa + oa) - ob) / sb) * sb + ob - oa) / sa = x := by
  field_simp
  ring

/-! ### approx_eq -/

theorem le_qmin_iff (x p q : Rat) : x ≤ qmin p q ↔ x ≤ p ∧ x ≤ q := by
  unfold qmin
  split
  · constructor
    · intro h; exact ⟨h, le_trans h ‹_›⟩
    · intro h; exact h.1
  · rename_i hn
    have : q ≤ p := le_of_lt (not_le.mp hn)
    constructor
    · intro h; exact ⟨le_trans h this, h⟩
    · intro h; exact h.2

theorem qabs_nonneg (x : Rat) : 0 ≤ qabs x := by
  unfold qabs
  split <;> linarith

/-- what `approx_eq` decides -/
theorem approxEq_iff (a b : Rat) :
    approxEq a b = true ↔
      (a = b ∨ (qabs (a - b) ≤ qabs (a / 1000) ∧ qabs (a - b) ≤ qabs (b / 1000))) := by
  unfold approxEq
  by_cases h : a = b
  · simp [h]
  · simp [h, le_qmin_iff]

/-! ### match_units, products and quotients -/

theorem mem_matchUnits (es : List QUnit) (dim : Dims) (scale : Rat) (u : QUnit) :
    u ∈ matchUnits es dim scale ↔ (u ∈ es ∧ u.dims = some dim ∧ approxEq u.scale scale = true) := by
  unfold matchUnits
  simp [List.mem_filter]

/-- whatever `&a * b` returns comes out of `match_units(dim_a + dim_b, scale_a * scale_b)` -/
theorem mulUnits_ok (es : List QUnit) (a b u : QUnit) (h : mulUnits es a b = .ok u) :
    ∃ d1 d2, a.dims = some d1 ∧ b.dims = some d2 ∧
      u ∈ matchUnits es (d1.add d2) (a.scale * b.scale) := by
  unfold mulUnits at h
  split at h
  · rename_i d1 d2 h1 h2
    refine ⟨d1, d2, h1, h2, ?_⟩
    simp only at h
    split at h
    · rename_i v hv
      have : v = u := by simpa using h
      rw [← this, hv]; simp
    · split at h
      · rename_i v hv
        have : v = u := by simpa using h
        rw [← this]
        exact List.mem_of_find?_eq_some hv
      · simp at h
  · simp at h

theorem divUnits_ok (es : List QUnit) (a b u : QUnit) (h : divUnits es a b = .ok u) :
    ∃ d1 d2, a.dims = some d1 ∧ b.dims = some d2 ∧
      u ∈ matchUnits es (d1.sub d2) (a.scale / b.scale) := by
  unfold divUnits at h
  split at h
  · rename_i d1 d2 h1 h2
    refine ⟨d1, d2, h1, h2, ?_⟩
    simp only at h
    split at h
    · rename_i v hv
      have : v = u := by simpa using h
      rw [← this, hv]; simp
    · split at h
      · rename_i v hv
        have : v = u := by simpa using h
        rw [← this]
        exact List.mem_of_find?_eq_some hv
      · simp at h
  · simp at h

/-- a dimension-less operand makes the product fail -/
theorem mulUnits_dimless (es : List QUnit) (a b : QUnit) (h : a.dims = none ∨ b.dims = none) :
    mulUnits es a b = .err := by
  unfold mulUnits
  rcases h with h | h <;> cases ha : a.dims <;> cases hb : b.dims <;> simp_all

theorem divUnits_dimless (es : List QUnit) (a b : QUnit) (h : a.dims = none ∨ b.dims = none) :
    divUnits es a b = .err := by
  unfold divUnits
  rcases h with h | h <;> cases ha : a.dims <;> cases hb : b.dims <;> simp_all

/-! ### i8 exponents -/

theorem small_add_sub (x y : Int) (hx : small x = true) (hy : small y = true) :
    inI8 (x + y) = true ∧ inI8 (x - y) = true := by
  simp only [small, inI8, Bool.and_eq_true, decide_eq_true_eq] at *
  omega

theorem Dims.small_add_sub (d1 d2 : Dims) (h1 : d1.small = true) (h2 : d2.small = true) :
    (d1.add d2).inI8 = true ∧ (d1.sub d2).inI8 = true := by
  simp only [Dims.small, Bool.and_eq_true] at h1 h2
  obtain ⟨⟨⟨⟨⟨⟨a1, a2⟩, a3⟩, a4⟩, a5⟩, a6⟩, a7⟩ := h1
  obtain ⟨⟨⟨⟨⟨⟨b1, b2⟩, b3⟩, b4⟩, b5⟩, b6⟩, b7⟩ := h2
  simp only [Dims.inI8, Dims.add, Dims.sub, Bool.and_eq_true]
  have c1 := UnitArith.small_add_sub _ _ a1 b1
  have c2 := UnitArith.small_add_sub _ _ a2 b2
  have c3 := UnitArith.small_add_sub _ _ a3 b3
  have c4 := UnitArith.small_add_sub _ _ a4 b4
  have c5 := UnitArith.small_add_sub _ _ a5 b5
  have c6 := UnitArith.small_add_sub _ _ a6 b6
  have c7 := UnitArith.small_add_sub _ _ a7 b7
  exact ⟨⟨⟨⟨⟨⟨⟨c1.1, c2.1⟩, c3.1⟩, c4.1⟩, c5.1⟩, c6.1⟩, c7.1⟩,
         ⟨⟨⟨⟨⟨⟨c1.2, c2.2⟩, c3.2⟩, c4.2⟩, c5.2⟩, c6.2⟩, c7.2⟩⟩

/-! ### entries -/

theorem entryUnits_subset (units : List QUnit) (entries : List (String × Nat))
    (h : ∀ e ∈ entries, e.2 < units.length) : ∀ u ∈ entryUnits units entries, u ∈ units := by
  intro u hu
  unfold entryUnits at hu
  rw [List.mem_map] at hu
  obtain ⟨e, he, rfl⟩ := hu
  have hlt := h e he
  have : units.getD e.2 defaultUnit = units[e.2] := by
    simp [List.getD_eq_getElem?_getD, List.getElem?_eq_getElem hlt]
  rw [this]
  exact List.getElem_mem hlt

/-! ### Numbers -/

theorem makeWithUnit_of_ne (v : Rat) (u : QUnit) (h : u ≠ defaultUnit) :
    makeWithUnit v u = ⟨v, some u⟩ := by
  simp [makeWithUnit, h]

theorem makeWithUnit_default (v : Rat) : makeWithUnit v defaultUnit = ⟨v, none⟩ := by
  simp [makeWithUnit]

theorem addUnit_same (a b : QNum) (h : a.unit = b.unit) : addUnit a b = some a.unit := by
  simp [addUnit, h]

theorem addUnit_diff (x y : Rat) (u v : QUnit) (h : u ≠ v) :
    addUnit ⟨x, some u⟩ ⟨y, some v⟩ = none := by
  simp [addUnit, h]

theorem addUnit_none_left (x y : Rat) (v : Option QUnit) : addUnit ⟨x, none⟩ ⟨y, v⟩ = some v := by
  cases v <;> simp [addUnit]

theorem addUnit_none_right (x y : Rat) (u : Option QUnit) : addUnit ⟨x, u⟩ ⟨y, none⟩ = some u := by
  cases u <;> simp [addUnit]

end Hs.UnitArith
