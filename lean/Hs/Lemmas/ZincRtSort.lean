/-
  `dictOf` sorts: collecting any arrangement of the entries of a dict with strictly ascending keys
  rebuilds that dict (grid rows are read in column order).
-/
import Hs.Lemmas.ZincRtDictOf
namespace Hs.Zinc
open Hs

theorem leChars_total : ∀ (a b : List Char), leChars a b = true ∨ leChars b a = true
  | [], _ => Or.inl (by simp [leChars])
  | _ :: _, [] => Or.inr (by simp [leChars])
  | x :: xs, y :: ys => by
    simp only [leChars]
    by_cases c1 : x.toNat < y.toNat
    · left; simp [c1]
    · by_cases c2 : y.toNat < x.toNat
      · right; simp [c2]
      · have c1' : ¬ (x.toNat > y.toNat) := c2
        have c2' : ¬ (y.toNat > x.toNat) := c1
        simp only [c1, c2, if_false]
        exact leChars_total xs ys

theorem leChars_trans : ∀ (a b c : List Char), leChars a b = true → leChars b c = true → leChars a c = true
  | [], _, _, _, _ => by simp [leChars]
  | _ :: _, [], _, h, _ => by simp [leChars] at h
  | _ :: _, _ :: _, [], _, h => by simp [leChars] at h
  | x :: xs, y :: ys, z :: zs, h1, h2 => by
    simp only [leChars] at h1 h2 ⊢
    by_cases a1 : x.toNat < y.toNat
    · by_cases b1 : y.toNat < z.toNat
      · have : x.toNat < z.toNat := by omega
        simp [this]
      · by_cases b2 : y.toNat > z.toNat
        · simp [b1, b2] at h2
        · have : x.toNat < z.toNat := by omega
          simp [this]
    · by_cases a2 : x.toNat > y.toNat
      · simp [a1, a2] at h1
      · simp only [a1, a2, if_false] at h1
        by_cases b1 : y.toNat < z.toNat
        · have : x.toNat < z.toNat := by omega
          simp [this]
        · by_cases b2 : y.toNat > z.toNat
          · simp [b1, b2] at h2
          · simp only [b1, b2, if_false] at h2
            have e1 : ¬ (x.toNat < z.toNat) := by omega
            have e2 : ¬ (x.toNat > z.toNat) := by omega
            simp only [e1, e2, if_false]
            exact leChars_trans xs ys zs h1 h2

theorem ltKey_trans {a b c : List Char} (h1 : ltKey a b = true) (h2 : ltKey b c = true) : ltKey a c = true := by
  simp only [ltKey, Bool.and_eq_true, bne_iff_ne, ne_eq] at h1 h2 ⊢
  refine ⟨leChars_trans a b c h1.1 h2.1, ?_⟩
  intro e; subst e
  exact h1.2 (leChars_antisymm a b h1.1 h2.1)

theorem ltKey_asymm {a b : List Char} (h1 : ltKey a b = true) (h2 : ltKey b a = true) : False := by
  simp only [ltKey, Bool.and_eq_true, bne_iff_ne, ne_eq] at h1 h2
  exact h1.2 (leChars_antisymm a b h1.1 h2.1)

/-- entries in strictly ascending key order -/
def SortedKV (l : List (List Char × Val)) : Prop := l.Pairwise (fun p q => ltKey p.1 q.1 = true)

theorem insertSorted_spec (k : List Char) (v : Val) :
    ∀ l : List (List Char × Val), SortedKV l → (∀ x ∈ l, x.1 ≠ k) →
    SortedKV (insertSorted k v l) ∧ (insertSorted k v l).Perm ((k, v) :: l)
  | [], _, _ => by simp [insertSorted, SortedKV]
  | (k', v') :: rest, hs, hne => by
    have hk : k' ≠ k := hne (k', v') (by simp)
    have h1 : (k == k') = false := by simpa using fun e : k = k' => hk e.symm
    unfold SortedKV at hs
    rw [List.pairwise_cons] at hs
    by_cases hle : leChars k k' = true
    · simp only [insertSorted, h1, hle, Bool.false_eq_true, if_false, if_true]
      refine ⟨?_, List.Perm.refl _⟩
      unfold SortedKV
      rw [List.pairwise_cons]
      have hlt : ltKey k k' = true := by
        simp only [ltKey, Bool.and_eq_true, bne_iff_ne, ne_eq]; exact ⟨hle, fun e => hk e.symm⟩
      refine ⟨?_, List.pairwise_cons.mpr hs⟩
      intro x hx
      simp only [List.mem_cons] at hx
      rcases hx with rfl | hx
      · exact hlt
      · exact ltKey_trans hlt (hs.1 x hx)
    · simp only [insertSorted, h1, hle, Bool.false_eq_true, if_false]
      obtain ⟨ihs, ihp⟩ := insertSorted_spec k v rest hs.2 (fun x hx => hne x (by simp [hx]))
      have hlt : ltKey k' k = true := by
        simp only [ltKey, Bool.and_eq_true, bne_iff_ne, ne_eq]
        rcases leChars_total k k' with h | h
        · exact absurd h hle
        · exact ⟨h, hk⟩
      refine ⟨?_, ?_⟩
      · unfold SortedKV
        rw [List.pairwise_cons]
        refine ⟨?_, ihs⟩
        intro x hx
        have := ihp.subset hx
        simp only [List.mem_cons] at this
        rcases this with rfl | hx'
        · exact hlt
        · exact hs.1 x hx'
      · exact (List.Perm.cons _ ihp).trans (List.Perm.swap _ _ _)

theorem foldl_insertSorted_spec : ∀ (l acc : List (List Char × Val)), SortedKV acc →
    (acc ++ l).Pairwise (fun p q => p.1 ≠ q.1) →
    SortedKV (l.foldl (fun acc p => insertSorted p.1 p.2 acc) acc) ∧
      (l.foldl (fun acc p => insertSorted p.1 p.2 acc) acc).Perm (acc ++ l)
  | [], acc, hs, _ => by simpa using hs
  | (k, v) :: rest, acc, hs, hnd => by
    simp only [List.foldl_cons]
    have hne : ∀ x ∈ acc, x.1 ≠ k := by
      intro x hx
      rw [List.pairwise_append] at hnd
      exact hnd.2.2 x hx (k, v) (by simp)
    obtain ⟨s1, p1⟩ := insertSorted_spec k v acc hs hne
    have hnd' : (insertSorted k v acc ++ rest).Pairwise (fun p q => p.1 ≠ q.1) := by
      have hperm : (insertSorted k v acc ++ rest).Perm (acc ++ (k, v) :: rest) :=
        (List.Perm.append_right rest p1).trans (by simpa using List.perm_middle.symm)
      exact List.Pairwise.perm hnd hperm.symm (fun h => fun e => h e.symm)
    obtain ⟨s2, p2⟩ := foldl_insertSorted_spec rest (insertSorted k v acc) s1 hnd'
    refine ⟨s2, p2.trans ?_⟩
    exact (List.Perm.append_right rest p1).trans (by simpa using List.perm_middle.symm)

/-- `dictOf` of any arrangement (with distinct keys) of a sorted entry list is that list -/
theorem dictOf_perm (kvs sorted : List (List Char × Val)) (hs : SortedKV sorted) (hp : kvs.Perm sorted) :
    dictOf kvs = Tags.ofList sorted := by
  unfold dictOf
  have hnd : (([] : List (List Char × Val)) ++ kvs).Pairwise (fun p q => p.1 ≠ q.1) := by
    simp only [List.nil_append]
    have : sorted.Pairwise (fun (p q : List Char × Val) => p.1 ≠ q.1) := by
      refine List.Pairwise.imp ?_ hs
      intro a b h e
      simp only [ltKey, Bool.and_eq_true, bne_iff_ne, ne_eq] at h
      exact h.2 e
    exact List.Pairwise.perm this hp.symm (fun h => fun e => h e.symm)
  obtain ⟨s1, p1⟩ := foldl_insertSorted_spec kvs [] (by simp [SortedKV]) hnd
  simp only [List.nil_append] at p1
  congr 1
  refine List.Perm.eq_of_pairwise (le := fun (p q : List Char × Val) => ltKey p.1 q.1 = true) ?_ s1 hs (p1.trans hp)
  intro a b _ _ h1 h2
  exact absurd h2 (fun h2 => ltKey_asymm h1 h2)

end Hs.Zinc
