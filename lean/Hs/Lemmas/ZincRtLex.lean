/-
  C01 ladder: the lexer (`lexRead`) on writer output — one lemma per token kind, each for any following
  text that can follow a value in writer output (`Delim`).
-/
import Hs.Lemmas.ZincRtIds
import Hs.Lemmas.ZincRtUri
import Hs.Model.ZincParse
namespace Hs.Zinc
open Hs Hs.Scan

theorem all_u8 (P : UInt8 → Bool) (h : (List.range 256).all (fun n => P (UInt8.ofNat n)) = true) :
    ∀ b : UInt8, P b = true := by
  intro b
  rw [List.all_eq_true] at h
  have := h b.toNat (by simp; exact UInt8.toNat_lt b)
  simpa using this

/-- what follows a value in writer output: the end of the input, `,` `]` `}` newline, or a space followed
by the lower-case first letter of a tag name (grid / column meta) -/
def Delim (rest : List UInt8) : Prop :=
  rest = [] ∨ (∃ b r, rest = b :: r ∧ (b = 44 ∨ b = 93 ∨ b = 125 ∨ b = 10)) ∨
    (∃ x r, rest = 32 :: x :: r ∧ isLowerB x = true)

/-- state after a token: positioned at `rest`; the peek stash is empty unless a space follows (the Ref
reader peeks one byte past a space) -/
def Post (s : Scan) (rest : List UInt8) : Prop :=
  At s rest ∧ s.stash.length ≤ 1 ∧ (rest.head? ≠ some 32 → s.stash = [])

theorem Post.of_clean {s : Scan} {rest : List UInt8} (h : At s rest) (hs : s.stash = []) : Post s rest :=
  ⟨h, by simp [hs], fun _ => hs⟩

theorem Delim.stop {P : UInt8 → Bool} {rest : List UInt8} (h : Delim rest)
    (hP : P 44 = false ∧ P 93 = false ∧ P 125 = false ∧ P 10 = false ∧ P 32 = false) : Stop P rest := by
  rcases h with rfl | ⟨b, r, rfl, hb⟩ | ⟨x, r, rfl, _⟩
  · exact Stop_nil _
  · rcases hb with rfl | rfl | rfl | rfl
    · exact Stop_cons hP.1
    · exact Stop_cons hP.2.1
    · exact Stop_cons hP.2.2.1
    · exact Stop_cons hP.2.2.2.1
  · exact Stop_cons hP.2.2.2.2

theorem Delim.stop_ref {rest : List UInt8} (h : Delim rest) : Stop isRefB rest := h.stop (by decide)
theorem Delim.stop_lit {rest : List UInt8} (h : Delim rest) : Stop isLitB rest := h.stop (by decide)

theorem Delim.refEnd {rest : List UInt8} (h : Delim rest) : RefEnd rest := by
  rcases h with rfl | ⟨b, r, rfl, hb⟩ | ⟨x, r, rfl, hx⟩
  · exact Or.inl rfl
  · right; left
    refine ⟨b, r, rfl, ?_⟩
    rcases hb with rfl | rfl | rfl | rfl <;> decide
  · right; right
    refine ⟨x, r, rfl, ?_⟩
    intro e; subst e; revert hx; decide

/-- the head of `rest` is not `(` -/
theorem Delim.not_paren {rest : List UInt8} (h : Delim rest) : ∀ r, rest ≠ 40 :: r := by
  intro r e
  rcases h with rfl | ⟨b, r', rfl, hb⟩ | ⟨x, r', rfl, _⟩
  · cases e
  · cases e; rcases hb with hb | hb | hb | hb <;> cases hb
  · cases e

/-! ### Str, Uri, Ref, Symbol -/

theorem lexRead_str (cs : List Char) (s : Scan) (rest : List UInt8) (fuel : Nat)
    (h : At s (encQuoted cs ++ rest)) (hs : s.stash = []) (hf : (encQuoted cs).length + 1 ≤ fuel) :
    ∃ s', lexRead fuel s = .ok { sc := s', tok := .val (.str cs) } ∧ At s' rest ∧ s'.stash = [] := by
  obtain ⟨f, rfl⟩ : ∃ f, fuel = f + 1 := ⟨fuel - 1, by omega⟩
  obtain ⟨s', e, h', hs'⟩ := parseStr_rt cs s rest f h (by omega)
  refine ⟨s', ?_, h', hs' hs⟩
  have hq : encQuoted cs ++ rest = 34 :: (cs.flatMap encStrChar ++ 34 :: rest) := by simp [encQuoted]
  rw [hq] at h
  rw [lexRead]
  simp [h.eof, h.cur, e]

theorem lexRead_uri (cs : List Char) (s : Scan) (rest : List UInt8) (fuel : Nat)
    (h : At s (encUri cs ++ rest)) (hs : s.stash = []) (hf : (encUri cs).length + 1 ≤ fuel) :
    ∃ s', lexRead fuel s = .ok { sc := s', tok := .val (.uri cs) } ∧ At s' rest ∧ s'.stash = [] := by
  obtain ⟨f, rfl⟩ : ∃ f, fuel = f + 1 := ⟨fuel - 1, by omega⟩
  obtain ⟨s', e, h', hs'⟩ := parseUri_rt cs s rest f h hs (by omega)
  refine ⟨s', ?_, h', hs'⟩
  have hq : encUri cs ++ rest = 96 :: (cs.flatMap encUriChar ++ 96 :: rest) := by simp [encUri]
  rw [hq] at h
  rw [lexRead]
  simp [h.eof, h.cur, e]

theorem lexRead_ref_nodis (id : List Char) (hid : AllB isRefB id = true) (hne : id ≠ [])
    (s : Scan) (rest : List UInt8) (fuel : Nat) (h : At s (64 :: encChars id ++ rest)) (hs : s.stash = [])
    (hd : Delim rest) (hf : id.length + 2 ≤ fuel) :
    ∃ s', lexRead fuel s = .ok { sc := s', tok := .val (.ref id none) } ∧ Post s' rest := by
  obtain ⟨f, rfl⟩ : ∃ f, fuel = f + 1 := ⟨fuel - 1, by omega⟩
  obtain ⟨s', e, h', hs1, hs2⟩ := parseRef_nodis id hid hne s rest f h hs hd.refEnd (by omega)
  refine ⟨s', ?_, h', hs1, hs2⟩
  simp only [List.cons_append] at h
  rw [lexRead]
  simp [h.eof, h.cur, e]

theorem lexRead_ref_dis (id : List Char) (hid : AllB isRefB id = true) (hne : id ≠ []) (dis : List Char)
    (s : Scan) (rest : List UInt8) (fuel : Nat)
    (h : At s (64 :: encChars id ++ 32 :: encQuoted dis ++ rest)) (hs : s.stash = [])
    (hf : id.length + (encQuoted dis).length + 2 ≤ fuel) :
    ∃ s', lexRead fuel s = .ok { sc := s', tok := .val (.ref id (some dis)) } ∧ At s' rest ∧ s'.stash = [] := by
  obtain ⟨f, rfl⟩ : ∃ f, fuel = f + 1 := ⟨fuel - 1, by omega⟩
  obtain ⟨s', e, h', hs'⟩ := parseRef_dis id hid hne dis s rest f h hs (by omega)
  refine ⟨s', ?_, h', hs'⟩
  simp only [List.cons_append, List.append_assoc] at h
  rw [lexRead]
  simp [h.eof, h.cur, e]

theorem lexRead_sym (cs : List Char) (hcs : isSymBody cs = true)
    (s : Scan) (rest : List UInt8) (fuel : Nat) (h : At s (94 :: encChars cs ++ rest)) (hs : s.stash = [])
    (hd : Delim rest) (hf : cs.length + 2 ≤ fuel) :
    ∃ s', lexRead fuel s = .ok { sc := s', tok := .val (.sym cs) } ∧ At s' rest ∧ s'.stash = [] := by
  obtain ⟨f, rfl⟩ : ∃ f, fuel = f + 1 := ⟨fuel - 1, by omega⟩
  obtain ⟨e, h'⟩ := parseSymbol_rt cs hcs s rest f h hd.stop_ref (by omega)
  refine ⟨_, ?_, h', advN_stash_nil _ _ (by rw [At.advance_stash, hs]; rfl)⟩
  simp only [List.cons_append] at h
  rw [lexRead]
  simp [h.eof, h.cur, e]


/-! ### tokens that start with an upper-case letter: keywords, XStr -/

/-- an upper-case ASCII letter followed by ASCII letters, digits and `_` -/
def isUpperName (cs : List Char) : Bool :=
  match cs with
  | [] => false
  | c :: r => c.toNat < 128 && isUpperB (byteOf c) && AllB isLitB r

theorem isUpperName_lit {cs : List Char} (h : isUpperName cs = true) : AllB isLitB cs = true ∧ cs ≠ [] := by
  cases cs with
  | nil => simp [isUpperName] at h
  | cons c r =>
    simp only [isUpperName, Bool.and_eq_true, decide_eq_true_eq] at h
    refine ⟨AllB_cons.mpr ⟨⟨h.1.1, ?_⟩, h.2⟩, by simp⟩
    simp [isLitB, isAlnumB, h.1.2]

theorem upper_dispatch : ∀ b : UInt8, (!isUpperB b || (b != 32 && b != 9 && b != 34 && b != 96 && b != 64
    && b != 94 && !isSpecial b && !isDigitB b && b != 45)) = true :=
  all_u8 (fun b => (!isUpperB b || (b != 32 && b != 9 && b != 34 && b != 96 && b != 64
    && b != 94 && !isSpecial b && !isDigitB b && b != 45))) (by decide +kernel)

theorem lit_not_paren : ∀ b : UInt8, (!isLitB b || b != 40) = true :=
  all_u8 (fun b => (!isLitB b || b != 40)) (by decide +kernel)

/-- `lexRead` on a token starting with an upper-case letter: up to the literal -/
theorem lexRead_upper (cs : List Char) (hcs : isUpperName cs = true)
    (s : Scan) (rest : List UInt8) (fuel : Nat) (h : At s (encChars cs ++ rest)) (hst : Stop isLitB rest)
    (hf : cs.length + 1 ≤ fuel) :
    At (advN cs.length s) rest ∧
    lexRead (fuel + 1) s =
      (if (advN cs.length s).cur == 40 then
        if cs == ['C'] then
          match parseCoordBody fuel (advN cs.length s) with
          | .ok (v, s2) => .ok { sc := s2, tok := .val v }
          | .err => .err | .panic => .panic | .diverge => .diverge | .depth => .depth
        else
          match parseXStrBody fuel cs (advN cs.length s) with
          | .ok (v, s2) => .ok { sc := s2, tok := .val v }
          | .err => .err | .panic => .panic | .diverge => .diverge | .depth => .depth
      else
        match keyword cs with
        | some v => .ok { sc := advN cs.length s, tok := .val v }
        | Option.none => .err) := by
  obtain ⟨hl, hne⟩ := isUpperName_lit hcs
  obtain ⟨e, hat⟩ := parseLiteral_rt cs hl hne s rest fuel h hst (by omega)
  refine ⟨hat, ?_⟩
  cases cs with
  | nil => exact absurd rfl hne
  | cons c r =>
    simp only [isUpperName, Bool.and_eq_true, decide_eq_true_eq] at hcs
    rw [encChars_cons, encChar_ascii c hcs.1.1] at h
    simp only [List.cons_append, List.nil_append] at h
    have hd := upper_dispatch (byteOf c)
    simp only [hcs.1.2, Bool.not_true, Bool.false_or, Bool.and_eq_true, bne_iff_ne, ne_eq,
      Bool.not_eq_eq_eq_not] at hd
    obtain ⟨⟨⟨⟨⟨⟨⟨⟨d1, d2⟩, d3⟩, d4⟩, d5⟩, d6⟩, d7⟩, d8⟩, d9⟩ := hd
    have hcur : s.cur = byteOf c := h.cur
    rw [lexRead]
    simp only [h.eof, hcur, e]
    simp [d1, d2, d3, d4, d5, d6, d7, d8, d9, hcs.1.2]
    rfl


/-- keyword literals (`M R T F N NA NaN INF`) -/
theorem lexRead_kw (cs : List Char) (hcs : isUpperName cs = true) (v : Val) (hk : keyword cs = some v)
    (s : Scan) (rest : List UInt8) (fuel : Nat) (h : At s (encChars cs ++ rest)) (hs : s.stash = [])
    (hd : Delim rest) (hf : cs.length + 2 ≤ fuel) :
    ∃ s', lexRead fuel s = .ok { sc := s', tok := .val v } ∧ At s' rest ∧ s'.stash = [] := by
  obtain ⟨f, rfl⟩ : ∃ f, fuel = f + 1 := ⟨fuel - 1, by omega⟩
  obtain ⟨hat, e⟩ := lexRead_upper cs hcs s rest f h hd.stop_lit (by omega)
  refine ⟨advN cs.length s, ?_, hat, advN_stash_nil _ _ hs⟩
  have hcur : ((advN cs.length s).cur == 40) = false := by
    cases rest with
    | cons b r =>
      rw [hat.cur]
      have := hd.not_paren r
      simp only [ne_eq, List.cons.injEq, and_true] at this
      simpa using this
    | nil =>
      obtain ⟨hl, hne⟩ := isUpperName_lit hcs
      obtain ⟨e', hp⟩ := encChars_ascii hl
      rw [e', List.append_nil] at h
      have hne' : cs.map byteOf ≠ [] := by simpa using hne
      rcases List.eq_nil_or_concat (cs.map byteOf) with hnil | ⟨bs, b, hbs⟩
      · exact absurd hnil hne'
      · have hlen : cs.length = bs.length + 1 := by
          have := congrArg List.length hbs; simpa using this
        have hb : isLitB b = true := hp b (by rw [hbs]; simp)
        rw [hbs] at h
        have hc := advN_cur_last b (by simpa using h)
        rw [hlen, hc]
        have := lit_not_paren b
        simpa [hb] using this
  rw [e, hcur]
  simp [hk]

/-- **rt_xstr** (lexer level): a capitalised ASCII type name other than the reserved `C` -/
theorem lexRead_xstr (ty : List Char) (hty : isUpperName ty = true) (hC : ty ≠ ['C']) (v : List Char)
    (s : Scan) (rest : List UInt8) (fuel : Nat)
    (h : At s (encChars ty ++ 40 :: encQuoted v ++ 41 :: rest)) (hs : s.stash = [])
    (hf : ty.length + (encQuoted v).length + 3 ≤ fuel) :
    ∃ s', lexRead fuel s = .ok { sc := s', tok := .val (.xstr ty v) } ∧ At s' rest ∧ s'.stash = [] := by
  obtain ⟨f, rfl⟩ : ∃ f, fuel = f + 1 := ⟨fuel - 1, by omega⟩
  have h0 : At s (encChars ty ++ 40 :: (encQuoted v ++ 41 :: rest)) := by simpa using h
  obtain ⟨hat, e⟩ := lexRead_upper ty hty s (40 :: (encQuoted v ++ 41 :: rest)) f h0 (Stop_cons (by decide))
    (by omega)
  obtain ⟨s', e', h', hs'⟩ := parseXStrBody_rt ty v (advN ty.length s) rest f (by simpa using hat)
    (advN_stash_nil _ _ hs) (by omega)
  refine ⟨s', ?_, h', hs'⟩
  have hne : (ty == ['C']) = false := by simpa using hC
  rw [e, hat.cur, hne, e']
  simp

theorem upperFirst_of_upper {ty : List Char} (h : isUpperName ty = true) : upperFirst ty = ty := by
  cases ty with
  | nil => rfl
  | cons c r =>
    simp only [isUpperName, Bool.and_eq_true, decide_eq_true_eq] at h
    have hu := h.1.2
    simp only [isUpperB, byteOf, Bool.and_eq_true, decide_eq_true_eq, u8_le_iff, UInt8.reduceToNat] at hu
    rw [u8_ofNat_toNat (by omega)] at hu
    have : ¬ ('a' ≤ c) := by
      rw [Char.le_def, UInt32.le_iff_toNat_le]
      have : c.val.toNat = c.toNat := rfl
      simp only [this]
      have : ('a' : Char).val.toNat = 97 := rfl
      omega
    simp [upperFirst, this]


/-! ### punctuation, identifiers, spaces, end of input -/

theorem special_dispatch : ∀ b : UInt8, (!isSpecial b || (b != 32 && b != 9 && b != 34 && b != 96 && b != 64
    && b != 94)) = true :=
  all_u8 (fun b => (!isSpecial b || (b != 32 && b != 9 && b != 34 && b != 96 && b != 64 && b != 94)))
    (by decide +kernel)

theorem lexRead_special {s : Scan} {c : UInt8} {rest : List UInt8} (h : At s (c :: rest))
    (hc : isSpecial c = true) (h13 : c ≠ 13) (fuel : Nat) :
    lexRead (fuel + 1) s = .ok { sc := s.advance, tok := .ch c } := by
  have hd := special_dispatch c
  simp only [hc, Bool.not_true, Bool.false_or, Bool.and_eq_true, bne_iff_ne, ne_eq] at hd
  obtain ⟨⟨⟨⟨⟨d1, d2⟩, d3⟩, d4⟩, d5⟩, d6⟩ := hd
  rw [lexRead]
  simp only [h.eof, h.cur]
  cases rest with
  | nil =>
    rw [h.read_last]
    by_cases h10 : c = 10
    · subst h10; simp [show isSpecial 10 = true by decide]
    · simp [d1, d2, d3, d4, d5, d6, hc, h13, h10]
  | cons d r =>
    rw [h.read]
    by_cases h10 : c = 10
    · subst h10; simp [show isSpecial 10 = true by decide]
    · simp [d1, d2, d3, d4, d5, d6, hc, h13, h10]

theorem lower_dispatch : ∀ b : UInt8, (!isLowerB b || (b != 32 && b != 9 && b != 34 && b != 96 && b != 64
    && b != 94 && !isSpecial b && !isDigitB b && b != 45 && !isUpperB b)) = true :=
  all_u8 (fun b => (!isLowerB b || (b != 32 && b != 9 && b != 34 && b != 96 && b != 64
    && b != 94 && !isSpecial b && !isDigitB b && b != 45 && !isUpperB b))) (by decide +kernel)

theorem lexRead_id (cs : List Char) (hcs : isIdent cs = true)
    (s : Scan) (rest : List UInt8) (fuel : Nat) (h : At s (encChars cs ++ rest)) (hst : Stop isLitB rest)
    (hf : cs.length + 2 ≤ fuel) :
    lexRead fuel s = .ok { sc := advN cs.length s, tok := .id cs } ∧ At (advN cs.length s) rest := by
  obtain ⟨f, rfl⟩ : ∃ f, fuel = f + 1 := ⟨fuel - 1, by omega⟩
  obtain ⟨e, hat⟩ := parseId_rt cs hcs s rest f h hst (by omega)
  refine ⟨?_, hat⟩
  cases cs with
  | nil => simp [isIdent] at hcs
  | cons c r =>
    simp only [isIdent, Bool.and_eq_true, decide_eq_true_eq] at hcs
    rw [encChars_cons, encChar_ascii c hcs.1.1] at h
    simp only [List.cons_append, List.nil_append] at h
    have hd := lower_dispatch (byteOf c)
    simp only [hcs.1.2, Bool.not_true, Bool.false_or, Bool.and_eq_true, bne_iff_ne, ne_eq,
      Bool.not_eq_eq_eq_not] at hd
    obtain ⟨⟨⟨⟨⟨⟨⟨⟨⟨d1, d2⟩, d3⟩, d4⟩, d5⟩, d6⟩, d7⟩, d8⟩, d9⟩, d10⟩ := hd
    have hcur : s.cur = byteOf c := h.cur
    rw [lexRead]
    simp only [h.eof, hcur, e]
    simp [d1, d2, d3, d4, d5, d6, d7, d8, d9, d10, hcs.1.2]

/-- one separating space is skipped; the stash (at most one byte after a Ref) is empty afterwards -/
theorem lexRead_space {s : Scan} {b : UInt8} {r : List UInt8} (h : At s (32 :: b :: r))
    (hb : b ≠ 32 ∧ b ≠ 9) (hs : s.stash.length ≤ 1) (fuel : Nat) :
    lexRead (fuel + 2) s = lexRead (fuel + 1) s.advance ∧ At s.advance (b :: r) ∧ s.advance.stash = [] := by
  refine ⟨?_, h.advance, advance_stash_nil hs⟩
  have hsp : s.isSpace = true := by unfold Scan.isSpace; rw [h.cur]; rfl
  have hsp' : s.advance.isSpace = false := isSpace_of_cur h.advance.cur hb.1 hb.2
  rw [lexRead]
  simp only [h.eof, h.cur]
  rw [Scan.consumeSpaces]
  simp [hsp, h.read, consumeSpaces_none hsp']

theorem lexRead_eof {s : Scan} (h : At s []) (fuel : Nat) :
    lexRead (fuel + 1) s = .ok { sc := s, tok := .none } := by
  rw [lexRead]; simp [h.eof_nil]

end Hs.Zinc
