/-
  UTF-8 groundwork for C01: `lossy (encChars s) = s`, and the bytes of a non-ASCII character are all ≥ 0x80.
-/
import Hs.Model.Scan
namespace Hs
open Hs

theorem u8_ofNat_toNat {n : Nat} (h : n < 256) : (UInt8.ofNat n).toNat = n := by
  simp [UInt8.toNat_ofNat']; omega

theorem u8_lt_iff (a b : UInt8) : a < b ↔ a.toNat < b.toNat := UInt8.lt_iff_toNat_lt
theorem u8_le_iff (a b : UInt8) : a ≤ b ↔ a.toNat ≤ b.toNat := UInt8.le_iff_toNat_le
theorem u8_eq_iff (a b : UInt8) : a = b ↔ a.toNat = b.toNat := UInt8.toNat_inj.symm

theorem char_bounds (c : Char) : c.toNat < 0xD800 ∨ (0xDFFF < c.toNat ∧ c.toNat < 0x110000) := by
  have := c.valid
  simp [UInt32.isValidChar, Nat.isValidChar] at this
  have e : c.val.toNat = c.toNat := rfl
  omega

/-! ### the lossy decoder, one well-formed sequence at a time -/

theorem lossy1 (b0 : UInt8) (rest : List UInt8) (fuel : Nat) (h0 : b0.toNat < 128) :
    utf8Lossy (fuel+1) (b0 :: rest) = Char.ofNat b0.toNat :: utf8Lossy fuel rest := by
  simp only [utf8Lossy, u8_lt_iff, UInt8.reduceToNat]
  rw [if_pos (by omega)]

theorem lossy2 (b0 b1 : UInt8) (rest : List UInt8) (fuel : Nat)
    (h0 : 194 ≤ b0.toNat ∧ b0.toNat ≤ 223) (h1 : 128 ≤ b1.toNat ∧ b1.toNat ≤ 191) :
    utf8Lossy (fuel+1) (b0 :: b1 :: rest) =
      Char.ofNat ((b0.toNat - 192) * 64 + (b1.toNat - 128)) :: utf8Lossy fuel rest := by
  simp only [utf8Lossy, isCont, u8_lt_iff, u8_le_iff, UInt8.reduceToNat, Bool.and_eq_true, decide_eq_true_eq]
  rw [if_neg (by omega), if_pos (by omega), if_pos (by omega)]

theorem lossy3 (b0 b1 b2 : UInt8) (rest : List UInt8) (fuel : Nat)
    (h0 : 224 ≤ b0.toNat ∧ b0.toNat ≤ 239) (h1 : 128 ≤ b1.toNat ∧ b1.toNat ≤ 191)
    (h2 : 128 ≤ b2.toNat ∧ b2.toNat ≤ 191)
    (hE0 : b0.toNat = 224 → 160 ≤ b1.toNat) (hED : b0.toNat = 237 → b1.toNat ≤ 159) :
    utf8Lossy (fuel+1) (b0 :: b1 :: b2 :: rest) =
      Char.ofNat ((b0.toNat - 224) * 4096 + (b1.toNat - 128) * 64 + (b2.toNat - 128)) :: utf8Lossy fuel rest := by
  simp only [utf8Lossy, isCont, u8_lt_iff, u8_le_iff, beq_iff_eq, u8_eq_iff, UInt8.reduceToNat,
    Bool.and_eq_true, decide_eq_true_eq]
  rw [if_neg (by omega), if_neg (by omega), if_pos (by omega)]
  by_cases a : b0.toNat = 224 <;> by_cases b : b0.toNat = 237 <;>
    simp only [a, b, if_true, if_false, UInt8.reduceToNat, Nat.reduceEqDiff]
  all_goals first | omega | (rw [if_pos (by omega), if_pos (by omega)])

theorem lossy4 (b0 b1 b2 b3 : UInt8) (rest : List UInt8) (fuel : Nat)
    (h0 : 240 ≤ b0.toNat ∧ b0.toNat ≤ 244) (h1 : 128 ≤ b1.toNat ∧ b1.toNat ≤ 191)
    (h2 : 128 ≤ b2.toNat ∧ b2.toNat ≤ 191) (h3 : 128 ≤ b3.toNat ∧ b3.toNat ≤ 191)
    (hF0 : b0.toNat = 240 → 144 ≤ b1.toNat) (hF4 : b0.toNat = 244 → b1.toNat ≤ 143) :
    utf8Lossy (fuel+1) (b0 :: b1 :: b2 :: b3 :: rest) =
      Char.ofNat ((b0.toNat - 240) * 262144 + (b1.toNat - 128) * 4096 + (b2.toNat - 128) * 64
        + (b3.toNat - 128)) :: utf8Lossy fuel rest := by
  simp only [utf8Lossy, isCont, u8_lt_iff, u8_le_iff, beq_iff_eq, u8_eq_iff, UInt8.reduceToNat,
    Bool.and_eq_true, decide_eq_true_eq]
  rw [if_neg (by omega), if_neg (by omega), if_neg (by omega), if_pos (by omega)]
  by_cases a : b0.toNat = 240 <;> by_cases b : b0.toNat = 244 <;>
    simp only [a, b, if_true, if_false, UInt8.reduceToNat, Nat.reduceEqDiff]
  all_goals first | omega | (rw [if_pos (by omega), if_pos (by omega), if_pos (by omega)])

/-! ### shape of `encChar` -/

/-- the four shapes of an encoded character, bytes described by their values -/
theorem encChar_cases (c : Char) :
    (c.toNat ≤ 0x7f ∧ ∃ b0 : UInt8, encChar c = [b0] ∧ b0.toNat = c.toNat) ∨
    (0x7f < c.toNat ∧ c.toNat ≤ 0x7ff ∧ ∃ b0 b1 : UInt8, encChar c = [b0, b1] ∧
       b0.toNat = c.toNat / 64 % 32 + 192 ∧ b1.toNat = c.toNat % 64 + 128) ∨
    (0x7ff < c.toNat ∧ c.toNat ≤ 0xffff ∧ ∃ b0 b1 b2 : UInt8, encChar c = [b0, b1, b2] ∧
       b0.toNat = c.toNat / 4096 % 16 + 224 ∧ b1.toNat = c.toNat / 64 % 64 + 128 ∧
       b2.toNat = c.toNat % 64 + 128) ∨
    (0xffff < c.toNat ∧ ∃ b0 b1 b2 b3 : UInt8, encChar c = [b0, b1, b2, b3] ∧
       b0.toNat = c.toNat / 262144 % 8 + 240 ∧ b1.toNat = c.toNat / 4096 % 64 + 128 ∧
       b2.toNat = c.toNat / 64 % 64 + 128 ∧ b3.toNat = c.toNat % 64 + 128) := by
  have hv : c.val.toNat = c.toNat := rfl
  have hb := char_bounds c
  unfold encChar String.utf8EncodeChar
  simp only [hv]
  generalize c.toNat = v at *
  by_cases h1 : v ≤ 0x7f
  · left; rw [if_pos h1]; exact ⟨h1, _, rfl, u8_ofNat_toNat (by omega)⟩
  · rw [if_neg h1]
    by_cases h2 : v ≤ 0x7ff
    · right; left; rw [if_pos h2]
      exact ⟨by omega, h2, _, _, rfl, u8_ofNat_toNat (by omega), u8_ofNat_toNat (by omega)⟩
    · rw [if_neg h2]
      by_cases h3 : v ≤ 0xffff
      · right; right; left; rw [if_pos h3]
        exact ⟨by omega, h3, _, _, _, rfl, u8_ofNat_toNat (by omega), u8_ofNat_toNat (by omega),
          u8_ofNat_toNat (by omega)⟩
      · right; right; right; rw [if_neg h3]
        exact ⟨by omega, _, _, _, _, rfl, u8_ofNat_toNat (by omega), u8_ofNat_toNat (by omega),
          u8_ofNat_toNat (by omega), u8_ofNat_toNat (by omega)⟩

/-- one step of the lossy decoder on the encoding of a character -/
theorem utf8Lossy_encChar (c : Char) (rest : List UInt8) (fuel : Nat) :
    utf8Lossy (fuel + 1) (encChar c ++ rest) = c :: utf8Lossy fuel rest := by
  have hb := char_bounds c
  have hc : Char.ofNat c.toNat = c := Char.ofNat_toNat c
  rcases encChar_cases c with ⟨h, b0, e, e0⟩ | ⟨h, h', b0, b1, e, e0, e1⟩ |
      ⟨h, h', b0, b1, b2, e, e0, e1, e2⟩ | ⟨h, b0, b1, b2, b3, e, e0, e1, e2, e3⟩
  · rw [e]; simp only [List.cons_append, List.nil_append]
    rw [lossy1 _ _ _ (by omega), e0, hc]
  · rw [e]; simp only [List.cons_append, List.nil_append]
    rw [lossy2 _ _ _ _ (by omega) (by omega)]
    have : (b0.toNat - 192) * 64 + (b1.toNat - 128) = c.toNat := by omega
    rw [this, hc]
  · rw [e]; simp only [List.cons_append, List.nil_append]
    rw [lossy3 _ _ _ _ _ (by omega) (by omega) (by omega) (by omega) (by omega)]
    have : (b0.toNat - 224) * 4096 + (b1.toNat - 128) * 64 + (b2.toNat - 128) = c.toNat := by omega
    rw [this, hc]
  · rw [e]; simp only [List.cons_append, List.nil_append]
    rw [lossy4 _ _ _ _ _ _ (by omega) (by omega) (by omega) (by omega) (by omega) (by omega)]
    have : (b0.toNat - 240) * 262144 + (b1.toNat - 128) * 4096 + (b2.toNat - 128) * 64
        + (b3.toNat - 128) = c.toNat := by omega
    rw [this, hc]

theorem encChar_length_pos (c : Char) : 0 < (encChar c).length := by
  unfold encChar; rw [String.length_utf8EncodeChar]; exact Char.utf8Size_pos c

theorem encChars_append (a b : List Char) : encChars (a ++ b) = encChars a ++ encChars b := by
  simp [encChars]
theorem encChars_cons (c : Char) (s : List Char) : encChars (c :: s) = encChar c ++ encChars s := by
  simp [encChars]
@[simp] theorem encChars_nil : encChars [] = [] := rfl

theorem utf8Lossy_encChars (s : List Char) (rest : List UInt8) (fuel : Nat) (hf : s.length ≤ fuel) :
    utf8Lossy fuel (encChars s ++ rest) = s ++ utf8Lossy (fuel - s.length) rest := by
  induction s generalizing fuel with
  | nil => simp
  | cons c cs ih =>
    cases fuel with
    | zero => simp at hf
    | succ f =>
      rw [encChars_cons, List.append_assoc, utf8Lossy_encChar, ih f (by simpa using hf)]
      simp

theorem encChars_length_ge (s : List Char) : s.length ≤ (encChars s).length := by
  induction s with
  | nil => simp
  | cons c cs ih =>
    have := encChar_length_pos c
    rw [encChars_cons]; simp; omega

theorem utf8Lossy_nil (fuel : Nat) : utf8Lossy fuel [] = [] := by
  cases fuel <;> simp [utf8Lossy]

/-- the lossy decoder is the identity on encoder output -/
theorem lossy_encChars (s : List Char) : lossy (encChars s) = s := by
  unfold lossy
  have h := utf8Lossy_encChars s [] ((encChars s).length + 1) (by have := encChars_length_ge s; omega)
  simp only [List.append_nil] at h
  rw [h, utf8Lossy_nil]; simp

/-- an ASCII character is its own single byte -/
theorem encChar_ascii (c : Char) (h : c.toNat < 128) : encChar c = [UInt8.ofNat c.toNat] := by
  have hv : c.val.toNat = c.toNat := rfl
  unfold encChar String.utf8EncodeChar
  simp only [hv]
  rw [if_pos (by omega)]

theorem char_toNat_ofNat (n : Nat) (h : n < 0xD800) : (Char.ofNat n).toNat = n := by
  have hv : n.isValidChar := Or.inl h
  unfold Char.ofNat
  rw [dif_pos hv]
  simp [Char.ofNatAux, Char.toNat]

theorem encChar_ofNat_ascii (n : Nat) (h : n < 128) : encChar (Char.ofNat n) = [UInt8.ofNat n] := by
  have : (Char.ofNat n).toNat = n := char_toNat_ofNat n (by omega)
  rw [encChar_ascii _ (by omega), this]

/-- every byte of a non-ASCII character's encoding is ≥ 0x80 -/
theorem encChar_nonascii (c : Char) (h : 128 ≤ c.toNat) : ∀ b ∈ encChar c, 128 ≤ b.toNat := by
  intro b hb
  rcases encChar_cases c with ⟨h, b0, e, e0⟩ | ⟨h, h', b0, b1, e, e0, e1⟩ |
      ⟨h, h', b0, b1, b2, e, e0, e1, e2⟩ | ⟨h, b0, b1, b2, b3, e, e0, e1, e2, e3⟩
  · omega
  · rw [e] at hb; simp at hb; rcases hb with rfl | rfl <;> omega
  · rw [e] at hb; simp at hb; rcases hb with rfl | rfl | rfl <;> omega
  · rw [e] at hb; simp at hb; rcases hb with rfl | rfl | rfl | rfl <;> omega

/-- an ASCII byte value occurs in the encoding of a character only as that character itself -/
theorem encChar_bytes_ne (c : Char) (b0 : UInt8) (hb0 : b0.toNat < 128) (hc : c.toNat ≠ b0.toNat) :
    ∀ b ∈ encChar c, b ≠ b0 := by
  intro b hb e
  subst e
  by_cases h : c.toNat < 128
  · rw [encChar_ascii c h] at hb
    simp at hb
    rw [hb, u8_ofNat_toNat (by omega)] at hc
    exact hc rfl
  · have := encChar_nonascii c (by omega) b hb
    omega

end Hs
