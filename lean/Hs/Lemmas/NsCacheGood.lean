/-
  Hs.Lemmas.NsCacheGood — rely/guarantee reasoning for the cache programs of Hs.Model.NsCache.

  `Inv cs`     every cached value is the value of the cache-free function for its key.
  `Le cs cs'`  `cs'` has every binding of `cs` (caches only grow).
  `Good post cs p`  whatever the other threads do to the caches - as long as they keep `Inv` and only add
               bindings - program `p`, started when the caches are `cs`, only inserts correct values and
               returns a value satisfying `post`.
  Each program of the model is `Good` with `post` = "equals the cache-free function".
-/
import Hs.Model.NsCache
namespace Hs.NsCache
open Hs Hs.Ns

/-- the value of the cache-free function for a key -/
def Correct (cfg : Cfg) : CacheId → Name → V → Prop
  | .sup, k, v => v = supertypesOf cfg.ns.defs k
  | .inh, k, v => inheritance cfg.fuel cfg.ns k = .ok v

theorem correct_unique {cfg : Cfg} {c : CacheId} {k : Name} {v v' : V}
    (h : Correct cfg c k v) (h' : Correct cfg c k v') : v = v' := by
  cases c with
  | sup => simp only [Correct] at h h'; rw [h, h']
  | inh => simp only [Correct] at h h'; rw [h] at h'; exact Res.ok.inj h'

def Inv (cfg : Cfg) (cs : Caches) : Prop := ∀ c k v, look c k cs = some v → Correct cfg c k v

def Le (a b : Caches) : Prop := ∀ c k v, look c k a = some v → look c k b = some v

theorem le_refl (a : Caches) : Le a a := fun _ _ _ h => h
theorem le_trans {a b c : Caches} (h1 : Le a b) (h2 : Le b c) : Le a c := fun x k v h => h2 x k v (h1 x k v h)

theorem inv_cold (cfg : Cfg) : Inv cfg cold := by
  intro c k v h
  cases c <;> simp [look, cold, alook] at h

theorem look_put_same (c : CacheId) (k : Name) (v : V) (cs : Caches) : look c k (put c k v cs) = some v := by
  cases c <;> simp [look, put, alook]

theorem look_put_other {c c' : CacheId} {k k' : Name} (v : V) (cs : Caches) (h : ¬ (c' = c ∧ k' = k)) :
    look c' k' (put c k v cs) = look c' k' cs := by
  cases c <;> cases c' <;> simp only [look, put, alook]
  · by_cases hk : k = k'
    · exact absurd ⟨rfl, hk.symm⟩ h
    · simp [hk]
  · by_cases hk : k = k'
    · exact absurd ⟨rfl, hk.symm⟩ h
    · simp [hk]

theorem le_put {cfg : Cfg} {cs : Caches} (hinv : Inv cfg cs) {c : CacheId} {k : Name} {v : V}
    (hc : Correct cfg c k v) : Le cs (put c k v cs) := by
  intro c' k' v' h
  by_cases hck : c' = c ∧ k' = k
  · obtain ⟨rfl, rfl⟩ := hck
    rw [look_put_same, correct_unique hc (hinv _ _ _ h)]
  · rw [look_put_other v cs hck]; exact h

theorem inv_put {cfg : Cfg} {cs : Caches} (hinv : Inv cfg cs) {c : CacheId} {k : Name} {v : V}
    (hc : Correct cfg c k v) : Inv cfg (put c k v cs) := by
  intro c' k' v' h
  by_cases hck : c' = c ∧ k' = k
  · obtain ⟨rfl, rfl⟩ := hck
    rw [look_put_same] at h
    cases h; exact hc
  · rw [look_put_other v cs hck] at h; exact hinv _ _ _ h

theorem le_put_mono {a b : Caches} (h : Le a b) (c : CacheId) (k : Name) (v : V) :
    Le (put c k v a) (put c k v b) := by
  intro c' k' v' h'
  by_cases hck : c' = c ∧ k' = k
  · obtain ⟨rfl, rfl⟩ := hck
    rw [look_put_same] at h' ⊢; exact h'
  · rw [look_put_other v a hck] at h'
    rw [look_put_other v b hck]; exact h _ _ _ h'

/-- `p`, started at caches `cs`, is correct against every `Inv`-preserving, growing environment -/
inductive Good (cfg : Cfg) {α : Type} (post : α → Prop) : Caches → Prog α → Prop
  | ret {cs : Caches} {a : α} : post a → Good cfg post cs (.ret a)
  | get {cs : Caches} {c : CacheId} {k : Name} {cont : Option V → Prog α} :
      (∀ cs', Le cs cs' → Inv cfg cs' → Good cfg post cs' (cont (look c k cs'))) →
      Good cfg post cs (.get c k cont)
  | has {cs : Caches} {c : CacheId} {k : Name} {cont : Bool → Prog α} :
      (∀ cs', Le cs cs' → Inv cfg cs' → Good cfg post cs' (cont (look c k cs').isSome)) →
      Good cfg post cs (.has c k cont)
  | ins {cs : Caches} {c : CacheId} {k : Name} {v : V} {cont : Prog α} :
      Correct cfg c k v →
      (∀ cs', Le (put c k v cs) cs' → Inv cfg cs' → Good cfg post cs' cont) →
      Good cfg post cs (.ins c k v cont)
  | drop {cs : Caches} {cont : Prog α} : Good cfg post cs cont → Good cfg post cs (.drop cont)

variable {cfg : Cfg}

theorem good_mono {α : Type} {post : α → Prop} {cs : Caches} {p : Prog α} (h : Good cfg post cs p) :
    ∀ cs', Le cs cs' → Good cfg post cs' p := by
  induction h with
  | ret hp => intro cs' _; exact .ret hp
  | get hk _ => intro cs' hle; exact .get (fun cs'' hle' hinv => hk cs'' (le_trans hle hle') hinv)
  | has hk _ => intro cs' hle; exact .has (fun cs'' hle' hinv => hk cs'' (le_trans hle hle') hinv)
  | ins hc hk _ =>
    intro cs' hle
    exact .ins hc (fun cs'' hle' hinv => hk cs'' (le_trans (le_put_mono hle _ _ _) hle') hinv)
  | drop _ ih => intro cs' hle; exact .drop (ih cs' hle)

theorem good_weaken {α : Type} {post post' : α → Prop} (hw : ∀ a, post a → post' a) {cs : Caches} {p : Prog α}
    (h : Good cfg post cs p) : Good cfg post' cs p := by
  induction h with
  | ret hp => exact .ret (hw _ hp)
  | get _ ih => exact .get ih
  | has _ ih => exact .has ih
  | ins hc _ ih => exact .ins hc ih
  | drop _ ih => exact .drop ih

theorem good_bind {α β : Type} {post' : α → Prop} {post : β → Prop} {cs : Caches} {p : Prog α} {f : α → Prog β}
    (h : Good cfg post' cs p) (hf : ∀ a, post' a → ∀ cs', Good cfg post cs' (f a)) :
    Good cfg post cs (p.bind f) := by
  induction h with
  | ret hp => exact hf _ hp _
  | get _ ih => exact .get ih
  | has _ ih => exact .has ih
  | ins hc _ ih => exact .ins hc ih
  | drop _ ih => exact .drop ih

/-! ### the programs -/

theorem good_readP {c : CacheId} {k : Name} {cs : Caches} {v0 : V} (h : look c k cs = some v0) :
    Good cfg (fun r => ∃ v, r = Res.ok v ∧ Correct cfg c k v) cs (readP c k) := by
  refine .get (fun cs' hle hinv => ?_)
  rw [hle _ _ _ h]
  exact .drop (.ret ⟨v0, rfl, hinv _ _ _ (hle _ _ _ h)⟩)

theorem good_storeP {c : CacheId} {k : Name} {val : V} (hc : Correct cfg c k val) (cs : Caches) :
    Good cfg (fun r => ∃ v, r = Res.ok v ∧ Correct cfg c k v) cs (storeP c k val) := by
  refine .has (fun cs' _ _ => ?_)
  cases h : look c k cs' with
  | none =>
    simp only [Option.isSome_none, Bool.false_eq_true, if_false]
    exact .ins hc (fun cs'' hle' _ => good_readP (hle' _ _ _ (look_put_same c k val cs')))
  | some v =>
    simp only [Option.isSome_some, if_true]
    exact good_readP h

theorem good_supG (k : Name) (cs : Caches) :
    Good cfg (fun r => r = Res.ok (supertypesOf cfg.ns.defs k)) cs (supG cfg.ns.defs k) := by
  refine .get (fun cs' _ hinv => ?_)
  cases h : look .sup k cs' with
  | some v =>
    have : v = supertypesOf cfg.ns.defs k := hinv _ _ _ h
    exact .drop (.ret (by rw [this]))
  | none =>
    refine good_weaken ?_ (good_storeP (c := .sup) (by simp [Correct]) cs')
    rintro r ⟨v, rfl, hv⟩
    simp only [Correct] at hv
    rw [hv]

theorem forBody_cons_false_old (next : Name → List Name) (d : Name) (ds : List Name) (st : List (List Name))
    (acc : List Name) (h : d ∈ acc) :
    forBody next false (d :: ds) st acc = forBody next false ds st acc := by
  simp [forBody, h]

theorem forBody_cons_false_new (next : Name → List Name) (d : Name) (ds : List Name) (st : List (List Name))
    (acc : List Name) (h : ¬ d ∈ acc) :
    forBody next false (d :: ds) st acc =
      forBody next false ds (if (next d).isEmpty then st else next d :: st) (insertSet d acc) := by
  simp [forBody, h]

theorem good_forBodyP : ∀ (ds : List Name) (st : List (List Name)) (acc : List Name) (cs : Caches),
    Good cfg (fun r => r = Res.ok (forBody (supertypesOf cfg.ns.defs) false ds st acc)) cs
      (forBodyP cfg.ns.defs ds st acc) := by
  intro ds
  induction ds with
  | nil => intro st acc cs; exact .ret rfl
  | cons d ds ih =>
    intro st acc cs
    by_cases hd : d ∈ acc
    · simp only [forBodyP, hd, if_true]
      rw [forBody_cons_false_old _ d ds st acc hd]
      exact ih _ _ cs
    · simp only [forBodyP, hd, if_false]
      refine good_bind (good_supG d cs) ?_
      intro a ha cs'
      subst ha
      simp only
      rw [forBody_cons_false_new _ d ds st acc hd]
      exact ih _ _ cs'

theorem good_wlP : ∀ (fuel : Nat) (st : List (List Name)) (acc : List Name) (cs : Caches),
    Good cfg (fun r => r = wl (supertypesOf cfg.ns.defs) false fuel st acc) cs (wlP cfg.ns.defs fuel st acc) := by
  intro fuel
  induction fuel with
  | zero =>
    intro st acc cs
    cases st with
    | nil => exact .ret (by simp [wl])
    | cons v st => exact .ret (by simp [wl])
  | succ fuel ih =>
    intro st acc cs
    cases st with
    | nil => exact .ret (by simp [wl])
    | cons v st =>
      simp only [wlP]
      refine good_bind (good_forBodyP v st acc cs) ?_
      intro a ha cs'
      subst ha
      simp only [wl]
      exact ih _ _ cs'

theorem good_allSupP (s : Name) (cs : Caches) :
    Good cfg (fun r => r = allSupertypesOf cfg.fuel cfg.ns s) cs (allSupP cfg.fuel cfg.ns.defs s) := by
  simp only [allSupP]
  refine good_bind (good_supG s cs) ?_
  intro a ha cs'
  subst ha
  simp only [allSupertypesOf]
  exact good_wlP _ _ _ cs'

theorem good_computeInhP (k : Name) (cs : Caches) :
    Good cfg (fun r => r = inheritance cfg.fuel cfg.ns k) cs (computeInhP cfg.fuel cfg.ns k) := by
  unfold computeInhP inheritance
  by_cases hd : defined cfg.ns.defs k = true
  · simp only [hd, if_true]
    refine good_bind (good_allSupP k cs) ?_
    intro a ha cs'
    subst ha
    cases allSupertypesOf cfg.fuel cfg.ns k <;> exact .ret rfl
  · simp only [hd]
    exact .ret rfl

theorem good_inhG (k : Name) (cs : Caches) :
    Good cfg (fun r => r = inheritance cfg.fuel cfg.ns k) cs (inhG cfg.fuel cfg.ns k) := by
  refine .get (fun cs' _ hinv => ?_)
  cases h : look .inh k cs' with
  | some v =>
    have : inheritance cfg.fuel cfg.ns k = .ok v := hinv _ _ _ h
    exact .drop (.ret this.symm)
  | none =>
    simp only
    refine good_bind (good_computeInhP k cs') ?_
    intro a ha cs''
    subst ha
    cases hi : inheritance cfg.fuel cfg.ns k with
    | ok val =>
      simp only
      refine good_weaken ?_ (good_storeP (c := .inh) (k := k) (val := val) (by simp [Correct, hi]) cs'')
      rintro r ⟨v, rfl, hv⟩
      simp only [Correct] at hv
      rw [← hv, hi]
    | err => exact .ret rfl
    | panic => exact .ret rfl
    | diverge => exact .ret rfl
    | depth => exact .ret rfl

theorem good_fitsP (a b : Name) (cs : Caches) :
    Good cfg (fun r => r = fits cfg.fuel cfg.ns a b) cs (fitsP cfg.fuel cfg.ns a b) := by
  unfold fitsP fits
  by_cases hd : defined cfg.ns.defs b = true
  · simp only [hd, if_true]
    refine good_bind (good_inhG a cs) ?_
    intro r hr cs'
    subst hr
    cases inheritance cfg.fuel cfg.ns a <;> exact .ret rfl
  · simp only [hd]
    exact .ret rfl

theorem good_findSupP : ∀ (ds acc : List Name) (cs : Caches),
    Good cfg (fun r => r = findSupertypesFromDefs cfg.fuel cfg.ns ds acc) cs (findSupP cfg.fuel cfg.ns.defs ds acc) := by
  intro ds
  induction ds with
  | nil => intro acc cs; exact .ret rfl
  | cons d ds ih =>
    intro acc cs
    simp only [findSupP]
    refine good_bind (good_allSupP d cs) ?_
    intro a ha cs'
    subst ha
    simp only [findSupertypesFromDefs]
    cases allSupertypesOf cfg.fuel cfg.ns d with
    | ok all => exact ih _ cs'
    | err => exact .ret rfl
    | panic => exact .ret rfl
    | diverge => exact .ret rfl
    | depth => exact .ret rfl

theorem good_entityP : ∀ (ds : List Name) (cs : Caches),
    Good cfg (fun r => r = entityLoop cfg.fuel cfg.ns ds) cs (entityP cfg.fuel cfg.ns ds) := by
  intro ds
  induction ds with
  | nil => intro cs; exact .ret rfl
  | cons d ds ih =>
    intro cs
    simp only [entityP]
    refine good_bind (good_inhG d cs) ?_
    intro a ha cs'
    subst ha
    simp only [entityLoop]
    cases inheritance cfg.fuel cfg.ns d with
    | ok v => exact ih cs'
    | err => exact .ret rfl
    | panic => exact .ret rfl
    | diverge => exact .ret rfl
    | depth => exact .ret rfl

theorem good_reflectP (r : Rec) (cs : Caches) :
    Good cfg (fun x => x = reflectFull cfg.fuel cfg.ns r) cs (reflectP cfg.fuel cfg.ns r) := by
  unfold reflectP reflectFull reflect
  refine good_bind (good_findSupP _ _ cs) ?_
  intro a ha cs'
  subst ha
  cases findSupertypesFromDefs cfg.fuel cfg.ns
      (tagDefs cfg.ns r ++ findConjuncts cfg.ns (markerTags r)) [] with
  | ok ds =>
    simp only
    by_cases he : defined cfg.ns.defs entityName = true
    · simp only [he, if_true]
      refine good_bind (good_entityP ds cs') ?_
      intro e hee cs''
      subst hee
      cases entityLoop cfg.fuel cfg.ns ds <;> exact .ret rfl
    · simp only [he]
      exact .ret rfl
  | err => exact .ret rfl
  | panic => exact .ret rfl
  | diverge => exact .ret rfl
  | depth => exact .ret rfl

theorem good_anyFitsP (base : Name) : ∀ (ds : List Name) (cs : Caches),
    Good cfg (fun r => r = anyFits cfg.fuel cfg.ns base ds) cs (anyFitsP cfg.fuel cfg.ns base ds) := by
  intro ds
  induction ds with
  | nil => intro cs; exact .ret rfl
  | cons d ds ih =>
    intro cs
    simp only [anyFitsP]
    refine good_bind (good_fitsP d base cs) ?_
    intro a ha cs'
    subst ha
    simp only [anyFits]
    cases fits cfg.fuel cfg.ns d base with
    | ok b =>
      cases b with
      | true => exact .ret rfl
      | false => exact ih cs'
    | err => exact .ret rfl
    | panic => exact .ret rfl
    | diverge => exact .ret rfl
    | depth => exact .ret rfl

theorem good_reflFitsP (r : Rec) (base : Name) (cs : Caches) :
    Good cfg (fun x => x = reflFitsFull cfg.fuel cfg.ns r base) cs (reflFitsP cfg.fuel cfg.ns r base) := by
  unfold reflFitsP reflFitsFull
  refine good_bind (good_reflectP r cs) ?_
  intro a ha cs'
  subst ha
  cases reflectFull cfg.fuel cfg.ns r with
  | ok ds => exact good_anyFitsP base ds cs'
  | err => exact .ret rfl
  | panic => exact .ret rfl
  | diverge => exact .ret rfl
  | depth => exact .ret rfl


/-! ### the association / implementation / relationship programs -/
section assoc
open Hs.NsA

@[simp] theorem Cfg.x_ns (cfg : Cfg) : cfg.x.ns = cfg.ns := rfl
@[simp] theorem Cfg.x_xd (cfg : Cfg) : cfg.x.xd = cfg.xd := rfl

theorem good_findReciprocalP (p r : Name) (cs : Caches) :
    Good cfg (fun a => a = findReciprocal cfg.fuel cfg.x p r) cs (findReciprocalP cfg.fuel cfg.x p r) := by
  unfold findReciprocalP findReciprocal
  simp only [Cfg.x_ns, Cfg.x_xd]
  refine good_bind (good_inhG (cfg := cfg) p cs) ?_
  intro a ha cs'
  subst ha
  cases inheritance cfg.fuel cfg.ns p <;> exact .ret rfl

theorem good_associationsP (p a : Name) (cs : Caches) :
    Good cfg (fun r => r = associations cfg.fuel cfg.x p a) cs (associationsP cfg.fuel cfg.x p a) := by
  unfold associationsP associations
  simp only [Cfg.x_xd]
  cases getX cfg.xd a with
  | none => exact .ret rfl
  | some ad =>
    dsimp only
    by_cases h1 : (!isAssoc ad) = true
    · simp only [h1, if_true]; exact .ret rfl
    · simp only [h1]
      by_cases h2 : (!ad.has nComputed) = true
      · simp only [h2, if_true]
        cases getX cfg.xd p with
        | none => exact .ret rfl
        | some pd =>
          dsimp only
          cases pd.getList a <;> exact .ret rfl
      · simp only [h2]
        cases ad.getSymbol nReciprocalOf with
        | none => exact .ret rfl
        | some r =>
          dsimp only
          by_cases h3 : defined cfg.x.ns.defs r = true
          · simp only [h3, if_true]; exact good_findReciprocalP p r cs
          · simp only [h3]; exact .ret rfl

theorem good_supersOfAllP : ∀ (ds acc : List Name) (cs : Caches),
    Good cfg (fun r => r = supersOfAll cfg.fuel cfg.ns ds acc) cs (supersOfAllP cfg.fuel cfg.ns ds acc) := by
  intro ds
  induction ds with
  | nil => intro acc cs; exact .ret rfl
  | cons d ds ih =>
    intro acc cs
    simp only [supersOfAllP]
    refine good_bind (good_allSupP d cs) ?_
    intro a ha cs'
    subst ha
    simp only [supersOfAll]
    cases allSupertypesOf cfg.fuel cfg.ns d with
    | ok all => exact ih _ cs'
    | err => exact .ret rfl
    | panic => exact .ret rfl
    | diverge => exact .ret rfl
    | depth => exact .ret rfl

theorem good_implementationP (s : Name) (cs : Caches) :
    Good cfg (fun r => r = implementation cfg.fuel cfg.x s) cs (implementationP cfg.fuel cfg.x s) := by
  unfold implementationP implementation
  simp only [Cfg.x_ns, Cfg.x_xd]
  refine good_bind (good_supersOfAllP (cfg := cfg) _ _ cs) ?_
  intro a ha cs'
  subst ha
  cases supersOfAll cfg.fuel cfg.ns ((conjunctsDefs cfg.ns s).filter (fun n => !isFeature n)) [] <;> exact .ret rfl

theorem good_fitsTermP (term : Option Name) (s : Name) (cs : Caches) :
    Good cfg (fun r => r = fitsTermL cfg.fuel cfg.ns term s) cs (fitsTermP cfg.fuel cfg.ns term s) := by
  cases term with
  | none => exact .ret rfl
  | some tm => exact good_fitsP s tm cs

theorem good_relInnerP (recs : List RecX) (rel : Name) (recip term : Option Name) (tr : Bool) (id : Option Name) :
    ∀ (ts : List SubjTag) (q : List Name) (rt : Option Name) (cs : Caches),
      Good cfg (fun r => r = relInnerL cfg.fuel cfg.x recs rel recip term tr id ts q rt) cs
        (relInnerP cfg.fuel cfg.x recs rel recip term tr id ts q rt) := by
  intro ts
  induction ts with
  | nil => intro q rt cs; exact .ret rfl
  | cons t rest ih =>
    intro q rt cs
    simp only [relInnerP, relInnerL, Cfg.x_ns, Cfg.x_xd]
    split
    · -- the relationship value is a Symbol
      rename_i s hs
      refine good_bind (good_fitsTermP (cfg := cfg) term s cs) ?_
      intro fr hfr cs'
      subst hfr
      cases fitsTermL cfg.fuel cfg.ns term s with
      | ok f =>
        dsimp only
        cases hd : relDecide recs tr t q _ f with
        | inl st => exact .ret rfl
        | inr p =>
          obtain ⟨q', rt'⟩ := p
          exact ih _ _ cs'
      | err => exact .ret rfl
      | panic => exact .ret rfl
      | diverge => exact .ret rfl
      | depth => exact .ret rfl
    · exact ih _ _ cs

theorem good_relLoopP (recs : List RecX) (rel : Name) (recip term : Option Name) (tr : Bool) :
    ∀ (lf : Nat) (s : RecX) (q : List Name) (rt : Option Name) (cs : Caches),
      Good cfg (fun r => r = relLoopL cfg.fuel cfg.x recs rel recip term tr lf s q rt) cs
        (relLoopP cfg.fuel cfg.x recs rel recip term tr lf s q rt) := by
  intro lf
  induction lf with
  | zero => intro s q rt cs; exact .ret rfl
  | succ n ih =>
    intro s q rt cs
    simp only [relLoopP, relLoopL]
    refine good_bind (good_relInnerP recs rel recip term tr s.id s.tags q rt cs) ?_
    intro a ha cs'
    subst ha
    cases relInnerL cfg.fuel cfg.x recs rel recip term tr s.id s.tags q rt with
    | ok st =>
      cases st with
      | ret b => exact .ret rfl
      | done => exact .ret rfl
      | next s' q' rt' => exact ih _ _ _ cs'
    | err => exact .ret rfl
    | panic => exact .ret rfl
    | diverge => exact .ret rfl
    | depth => exact .ret rfl

theorem good_hasRelationshipP (lf : Nat) (recs : List RecX) (rel : Name) (term target : Option Name) (s : RecX)
    (cs : Caches) :
    Good cfg (fun r => r = hasRelationshipL cfg.fuel lf cfg.x recs rel term target s) cs
      (hasRelationshipP cfg.fuel lf cfg.x recs rel term target s) := by
  unfold hasRelationshipP hasRelationshipL
  simp only [Cfg.x_ns, Cfg.x_xd]
  cases getX cfg.xd rel with
  | none => exact .ret rfl
  | some rd =>
    dsimp only
    refine good_bind (good_inhG (cfg := cfg) rel cs) ?_
    intro a ha cs'
    subst ha
    cases inheritance cfg.fuel cfg.ns rel with
    | ok inh =>
      dsimp only
      by_cases hc : (!inh.contains nRelationship) = true
      · simp only [hc, if_true]; exact .ret rfl
      · simp only [hc]; exact good_relLoopP recs rel _ term _ lf s [] target cs'
    | err => exact .ret rfl
    | panic => exact .ret rfl
    | diverge => exact .ret rfl
    | depth => exact .ret rfl
end assoc

/-- every query program returns the cache-free answer -/
theorem good_queryP (q : Query) (cs : Caches) :
    Good cfg (fun a => a = pureAns cfg q) cs (queryP cfg q) := by
  cases q with
  | sup k => exact good_bind (good_supG k cs) (fun a ha cs' => .ret (by simp [pureAns, ha]))
  | allSup k => exact good_bind (good_allSupP k cs) (fun a ha cs' => .ret (by simp [pureAns, ha]))
  | inh k => exact good_bind (good_inhG k cs) (fun a ha cs' => .ret (by simp [pureAns, ha]))
  | fits a b => exact good_bind (good_fitsP a b cs) (fun x hx cs' => .ret (by simp [pureAns, hx]))
  | reflect r => exact good_bind (good_reflectP r cs) (fun x hx cs' => .ret (by simp [pureAns, hx]))
  | reflFits r b => exact good_bind (good_reflFitsP r b cs) (fun x hx cs' => .ret (by simp [pureAns, hx]))
  | assoc p a => exact good_bind (good_associationsP p a cs) (fun x hx cs' => .ret (by simp [pureAns, hx]))
  | impl k => exact good_bind (good_implementationP k cs) (fun x hx cs' => .ret (by simp [pureAns, hx]))
  | fitsRoot w k =>
    exact good_bind (good_fitsP k (NsA.rootName w) cs) (fun x hx cs' => .ret (by simp [pureAns, hx, NsA.fitsRoot, Cfg.x]))
  | rel recs r term target s =>
    exact good_bind (good_hasRelationshipP _ recs r term target s cs) (fun x hx cs' => .ret (by simp [pureAns, hx]))

/-- a thread's whole query sequence returns the cache-free answers, in order -/
theorem good_runQs : ∀ (qs : List Query) (cs : Caches),
    Good cfg (fun as => as = qs.map (pureAns cfg)) cs (runQs cfg qs) := by
  intro qs
  induction qs with
  | nil => intro cs; exact .ret rfl
  | cons q qs ih =>
    intro cs
    simp only [runQs]
    refine good_bind (good_queryP q cs) ?_
    intro a ha cs'
    refine good_bind (ih cs') ?_
    intro as has cs''
    exact .ret (by simp [ha, has])

end Hs.NsCache
