/-
  C11 (re-encode stability), model side.  The writer prints numbers, coordinates and timestamps from their
  texts, so it prints for the lexical image of a value (what the reader returns for the writer's output) the
  same bytes as for the value itself.  One modelling detail: the reader's timestamp is purely lexical (its
  `txt` is the whole token, `tzid`/`zone` are empty — chrono's formatting of the decoded instant is outside the
  model), while the writer prints `txt`, a space and `zone` unless `tzid` is "UTC".  `asRead` marks every
  timestamp of a decoded value as "print the text as it was read" (`tzid := "UTC"`); it is the identity on values
  without timestamps (`noDT`).
-/
import Hs.Lemmas.ZincRtWf
namespace Hs.Zinc
open Hs Hs.Scan

mutual
/-- every timestamp is printed as the token text it carries -/
def asRead : Val → Val
  | .dateTime t => .dateTime { t with tzid := "UTC".toList }
  | .list xs => .list (asReads xs)
  | .dict d => .dict (asReadT d)
  | .grid md cols rows ver => .grid (asReadO md) (asReadC cols) (asReadR rows) ver
  | v => v
def asReads : Vals → Vals
  | .nil => .nil
  | .cons v vs => .cons (asRead v) (asReads vs)
def asReadT : Tags → Tags
  | .nil => .nil
  | .cons k v t => .cons k (asRead v) (asReadT t)
def asReadO : OTags → OTags
  | .none => .none
  | .some t => .some (asReadT t)
def asReadC : Cols → Cols
  | .nil => .nil
  | .cons n m c => .cons n (asReadO m) (asReadC c)
def asReadR : Rows → Rows
  | .nil => .nil
  | .cons r rs => .cons (asReadT r) (asReadR rs)
end

mutual
/-- no timestamp anywhere in the value -/
def noDT : Val → Bool
  | .dateTime _ => false
  | .list xs => noDTs xs
  | .dict d => noDTT d
  | .grid md cols rows _ => noDTO md && noDTC cols && noDTR rows
  | _ => true
def noDTs : Vals → Bool
  | .nil => true
  | .cons v vs => noDT v && noDTs vs
def noDTT : Tags → Bool
  | .nil => true
  | .cons _ v t => noDT v && noDTT t
def noDTO : OTags → Bool
  | .none => true
  | .some t => noDTT t
def noDTC : Cols → Bool
  | .nil => true
  | .cons _ m c => noDTO m && noDTC c
def noDTR : Rows → Bool
  | .nil => true
  | .cons r rs => noDTT r && noDTR rs
end

/-! ### the writer on grids, in terms of `metaPart` -/

theorem enc_grid_eq (md : OTags) (cols : Cols) (rows : Rows) (ver : List Char) (nested : Bool) :
    enc (.grid md cols rows ver) nested =
      (if nested then [60, 60, 10] else []) ++ bytesOfAscii "ver:\"3.0\"" ++ metaPart md ++ [10]
        ++ (match cols with
            | .nil => bytesOfAscii "empty\n"
            | .cons _ _ _ => encCols cols ++ [10] ++ encRows rows cols.names (cols.length == 1))
        ++ (if nested then [62, 62] else [10]) := by
  cases md with
  | none => cases cols <;> simp [enc, metaPart]
  | some t => cases t <;> cases cols <;> simp [enc, metaPart, Tags.isEmpty]

theorem encCols_step (n : List Char) (md : OTags) (c : Cols) :
    encCols (.cons n md c) = encChars n ++ metaPart md ++
      (match c with | .nil => [] | .cons _ _ _ => 44 :: encCols c) := by
  cases c with
  | nil => rw [encCols_one]; simp
  | cons n2 md2 c2 => rw [encCols_cons2]

theorem encTags_step (k : List Char) (v : Val) (t : Tags) (sep : UInt8) :
    encTags (.cons k v t) sep = encChars k ++ valPart v ++
      (match t with | .nil => [] | .cons _ _ _ => sep :: encTags t sep) := by
  cases t with
  | nil => rw [encTags_one]; simp
  | cons k2 v2 t2 => rw [encTags_cons2]

theorem encVals_step (v : Val) (vs : Vals) :
    encVals (.cons v vs) = enc v true ++ (match vs with | .nil => [] | .cons _ _ => 44 :: encVals vs) := by
  cases vs with
  | nil => rw [encVals_one]; simp
  | cons w ws => rw [encVals_cons2]

/-! ### the image of the reader prints like the value -/

theorem encChars_append (a b : List Char) : encChars (a ++ b) = encChars a ++ encChars b := by
  simp [encChars]

theorem enc_dt_image (t : DateTime) (b : Bool) :
    enc (asRead (lexImg (.dateTime t))) b = enc (.dateTime t) b := by
  simp only [lexImg, asRead, enc, encDateTime]
  have hsp : ∀ z : List Char, encChars (' ' :: z) = 32 :: encChars z := by
    intro z
    have : encChars [' '] = [32] := by decide
    have h2 := encChars_append [' '] z
    rw [this] at h2
    simpa using h2
  by_cases h : t.tzid = ['U', 'T', 'C']
  · simp [h]
  · simp [h, encChars_append, hsp]

theorem encNum_image (n : Num) : encNum (lexNumI n) = encNum n := by
  unfold lexNumI
  by_cases h1 : Flt.isNaNBits n.v.bits = true
  · simp only [h1, if_true]
    have : Flt.isNaNBits nanBits = true := by decide
    simp [encNum, this, h1]
  · simp only [h1, Bool.false_eq_true, if_false]
    by_cases h2 : Flt.isInfBits n.v.bits = true
    · simp only [h2, if_true]
      by_cases h3 : Flt.signBit n.v.bits = true
      · simp only [h3, if_true]
        have a1 : Flt.isNaNBits negInfBits = false := by decide
        have a2 : Flt.isInfBits negInfBits = true := by decide
        have a3 : Flt.signBit negInfBits = true := by decide
        simp [encNum, a1, a2, a3, h1, h2, h3]
      · simp only [h3, Bool.false_eq_true, if_false]
        have a1 : Flt.isNaNBits posInfBits = false := by decide
        have a2 : Flt.isInfBits posInfBits = true := by decide
        have a3 : Flt.signBit posInfBits = false := by decide
        simp [encNum, a1, a2, a3, h1, h2, h3]
    · simp only [h2, Bool.false_eq_true, if_false]
      have a1 : Flt.isNaNBits lexBits = false := by decide
      have a2 : Flt.isInfBits lexBits = false := by decide
      simp [encNum, a1, a2, h1, h2]

theorem isMarker_image (v : Val) : isMarker (asRead (lexImg v)) = isMarker v := by
  cases v <;> simp [lexImg, asRead, isMarker]

theorem names_image : ∀ c : Cols, (asReadC (lexImgC c)).names = c.names
  | .nil => rfl
  | .cons n m c => by simp [lexImgC, asReadC, Cols.names, names_image c]

theorem length_image : ∀ c : Cols, (asReadC (lexImgC c)).length = c.length
  | .nil => rfl
  | .cons n m c => by simp [lexImgC, asReadC, Cols.length, length_image c]

mutual
/-- **the writer prints the reader's image of a value exactly like the value** (no hypothesis) -/
theorem enc_image : ∀ (v : Val) (b : Bool), enc (asRead (lexImg v)) b = enc v b
  | .dateTime t, b => enc_dt_image t b
  | .num n, b => by simp [lexImg, asRead, enc, encNum_image]
  | .coord x y, b => by simp [lexImg, asRead, enc]
  | .list xs, b => by simp [lexImg, asRead, enc, encVals_image xs]
  | .dict d, b => by simp [lexImg, asRead, enc, encTags_image d 44]
  | .grid md cols rows ver, b => by
    simp only [lexImg, asRead]
    rw [enc_grid_eq, enc_grid_eq, metaPart_image md]
    cases cols with
    | nil => simp [lexImgC, asReadC]
    | cons n m c =>
      have hn := names_image (.cons n m c)
      have hl := length_image (.cons n m c)
      have hc := encCols_image (.cons n m c)
      simp only [lexImgC, asReadC] at hn hl hc ⊢
      simp only [hn, hl, hc, encRows_image rows]
  | .null, _ => by simp [lexImg, asRead]
  | .remove, _ => by simp [lexImg, asRead]
  | .marker, _ => by simp [lexImg, asRead]
  | .bool _, _ => by simp [lexImg, asRead]
  | .na, _ => by simp [lexImg, asRead]
  | .str _, _ => by simp [lexImg, asRead]
  | .uri _, _ => by simp [lexImg, asRead]
  | .ref _ _, _ => by simp [lexImg, asRead]
  | .sym _, _ => by simp [lexImg, asRead]
  | .date _, _ => by simp [lexImg, asRead]
  | .time _, _ => by simp [lexImg, asRead]
  | .xstr _ _, _ => by simp [lexImg, asRead]
theorem encVals_image : ∀ xs : Vals, encVals (asReads (lexImgs xs)) = encVals xs
  | .nil => rfl
  | .cons v vs => by
    simp only [lexImgs, asReads]
    rw [encVals_step, encVals_step, enc_image v true]
    cases vs with
    | nil => simp [lexImgs, asReads]
    | cons w ws =>
      have := encVals_image (.cons w ws)
      simp only [lexImgs, asReads] at this ⊢
      rw [this]
theorem encTags_image : ∀ (t : Tags) (sep : UInt8), encTags (asReadT (lexImgT t)) sep = encTags t sep
  | .nil, _ => rfl
  | .cons k v t, sep => by
    simp only [lexImgT, asReadT]
    rw [encTags_step, encTags_step]
    have hv : valPart (asRead (lexImg v)) = valPart v := by
      simp only [valPart, isMarker_image, enc_image v true]
    rw [hv]
    cases t with
    | nil => simp [lexImgT, asReadT]
    | cons k2 v2 t2 =>
      have := encTags_image (.cons k2 v2 t2) sep
      simp only [lexImgT, asReadT] at this ⊢
      rw [this]
theorem metaPart_image : ∀ md : OTags, metaPart (asReadO (lexImgO md)) = metaPart md
  | .none => rfl
  | .some t => by
    simp only [lexImgO, asReadO, metaPart]
    have he : (asReadT (lexImgT t)).isEmpty = t.isEmpty := by cases t <;> simp [lexImgT, asReadT, Tags.isEmpty]
    rw [he, encTags_image t 32]
theorem encCols_image : ∀ c : Cols, encCols (asReadC (lexImgC c)) = encCols c
  | .nil => rfl
  | .cons n m c => by
    simp only [lexImgC, asReadC]
    rw [encCols_step, encCols_step, metaPart_image m]
    cases c with
    | nil => simp [lexImgC, asReadC]
    | cons n2 m2 c2 =>
      have := encCols_image (.cons n2 m2 c2)
      simp only [lexImgC, asReadC] at this ⊢
      rw [this]
theorem encCells_image : ∀ t : Tags, encCells (asReadT (lexImgT t)) = encCells t
  | .nil => rfl
  | .cons k v t => by simp [lexImgT, asReadT, encCells, enc_image v true, encCells_image t]
theorem encRows_image : ∀ (rows : Rows) (names : List (List Char)) (single : Bool),
    encRows (asReadR (lexImgR rows)) names single = encRows rows names single
  | .nil, _, _ => rfl
  | .cons r rs, names, single => by
    simp [lexImgR, asReadR, encRows, encCells_image r, encRows_image rs names single]
end

/-! ### values without timestamps: `asRead` changes nothing -/

mutual
theorem asRead_noDT : ∀ v : Val, noDT v = true → asRead (lexImg v) = lexImg v
  | .dateTime _, h => by simp [noDT] at h
  | .list xs, h => by simp only [noDT] at h; simp [lexImg, asRead, asReads_noDT xs h]
  | .dict d, h => by simp only [noDT] at h; simp [lexImg, asRead, asReadT_noDT d h]
  | .grid md cols rows ver, h => by
    simp only [noDT, Bool.and_eq_true] at h
    simp [lexImg, asRead, asReadO_noDT md h.1.1, asReadC_noDT cols h.1.2, asReadR_noDT rows h.2]
  | .num _, _ => by simp [lexImg, asRead]
  | .coord _ _, _ => by simp [lexImg, asRead]
  | .null, _ => by simp [lexImg, asRead]
  | .remove, _ => by simp [lexImg, asRead]
  | .marker, _ => by simp [lexImg, asRead]
  | .bool _, _ => by simp [lexImg, asRead]
  | .na, _ => by simp [lexImg, asRead]
  | .str _, _ => by simp [lexImg, asRead]
  | .uri _, _ => by simp [lexImg, asRead]
  | .ref _ _, _ => by simp [lexImg, asRead]
  | .sym _, _ => by simp [lexImg, asRead]
  | .date _, _ => by simp [lexImg, asRead]
  | .time _, _ => by simp [lexImg, asRead]
  | .xstr _ _, _ => by simp [lexImg, asRead]
theorem asReads_noDT : ∀ xs : Vals, noDTs xs = true → asReads (lexImgs xs) = lexImgs xs
  | .nil, _ => rfl
  | .cons v vs, h => by
    simp only [noDTs, Bool.and_eq_true] at h
    simp [lexImgs, asReads, asRead_noDT v h.1, asReads_noDT vs h.2]
theorem asReadT_noDT : ∀ t : Tags, noDTT t = true → asReadT (lexImgT t) = lexImgT t
  | .nil, _ => rfl
  | .cons k v t, h => by
    simp only [noDTT, Bool.and_eq_true] at h
    simp [lexImgT, asReadT, asRead_noDT v h.1, asReadT_noDT t h.2]
theorem asReadO_noDT : ∀ o : OTags, noDTO o = true → asReadO (lexImgO o) = lexImgO o
  | .none, _ => rfl
  | .some t, h => by simp only [noDTO] at h; simp [lexImgO, asReadO, asReadT_noDT t h]
theorem asReadC_noDT : ∀ c : Cols, noDTC c = true → asReadC (lexImgC c) = lexImgC c
  | .nil, _ => rfl
  | .cons n m c, h => by
    simp only [noDTC, Bool.and_eq_true] at h
    simp [lexImgC, asReadC, asReadO_noDT m h.1, asReadC_noDT c h.2]
theorem asReadR_noDT : ∀ r : Rows, noDTR r = true → asReadR (lexImgR r) = lexImgR r
  | .nil, _ => rfl
  | .cons r rs, h => by
    simp only [noDTR, Bool.and_eq_true] at h
    simp [lexImgR, asReadR, asReadT_noDT r h.1, asReadR_noDT rs h.2]
end

end Hs.Zinc
