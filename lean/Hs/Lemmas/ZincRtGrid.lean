/-
  C01 ladder, rung 5 (grids, part 4): the grid header (`<<`, `ver:"3.0"`, meta, column line) and `parse_grid`.
-/
import Hs.Lemmas.ZincRtCols
import Hs.Lemmas.ZincRtRows
namespace Hs.Zinc
open Hs Hs.Scan

/-- `ver:"3.0"` -/
def verBytes : List UInt8 := [118, 101, 114, 58, 34, 51, 46, 48, 34]

theorem verBytes_eq : bytesOfAscii "ver:\"3.0\"" = verBytes := by decide

/-- the text of a grid from `ver` on -/
def gridBody (md : OTags) (cols : Cols) (rows : Rows) (nested : Bool) (rest : List UInt8) : List UInt8 :=
  verBytes ++ (metaPart md ++ 10 :: (encCols cols ++ 10 ::
    (encRows rows cols.names (cols.length == 1) ++ tailR nested rest)))

theorem enc_grid_top (md : OTags) (n : List Char) (cm : OTags) (c : Cols) (rows : Rows) (ver : List Char) :
    enc (.grid md (.cons n cm c) rows ver) false = gridBody md (.cons n cm c) rows false [] := by
  cases md with
  | none => simp [enc, gridBody, verBytes_eq, metaPart, tailR]
  | some t => cases t <;> simp [enc, gridBody, verBytes_eq, metaPart, tailR, Tags.isEmpty]

theorem enc_grid_nested (md : OTags) (n : List Char) (cm : OTags) (c : Cols) (rows : Rows) (ver : List Char)
    (rest : List UInt8) :
    enc (.grid md (.cons n cm c) rows ver) true ++ rest = 60 :: 60 :: 10 :: gridBody md (.cons n cm c) rows true rest := by
  cases md with
  | none => simp [enc, gridBody, verBytes_eq, metaPart, tailR]
  | some t => cases t <;> simp [enc, gridBody, verBytes_eq, metaPart, tailR, Tags.isEmpty]

theorem enc_grid_length (md : OTags) (n : List Char) (cm : OTags) (c : Cols) (rows : Rows) (ver : List Char) :
    (enc (.grid md (.cons n cm c) rows ver) true).length =
      15 + (metaPart md).length + colsLen (.cons n cm c)
        + (encRows rows (Cols.names (.cons n cm c)) (Cols.length (.cons n cm c) == 1)).length := by
  have h := enc_grid_nested md n cm c rows ver []
  simp only [List.append_nil] at h
  rw [h]
  have := encCols_length n cm c
  simp only [gridBody, verBytes, tailR, List.length_cons, List.length_append, List.length_nil, if_true]
  omega

/-- grid meta as the reader needs it: absent, or non-empty with identifier keys in ascending order whose
tags frame with separator space and a newline at the end -/
def MetaOkG : OTags → Prop
  | .none => True
  | .some t => t.isEmpty = false ∧ keysIdent t = true ∧ keysSorted t.keys = true ∧ RdTags 32 10 t

theorem cws_one_nl {s : Scan} {b : UInt8} {r : List UInt8} (h : At s (10 :: b :: r))
    (hb : b ≠ 32 ∧ b ≠ 9 ∧ b ≠ 13 ∧ b ≠ 10) (fuel : Nat) :
    Scan.consumeWhiteSpaces (fuel + 2) s = .ok s.advance := by
  rw [Scan.consumeWhiteSpaces]
  simp only [Scan.isWhiteSpace, Scan.isSpace, Scan.isNewline, h.cur, h.read]
  rw [cws_none h.advance ⟨b, r, rfl, hb⟩ fuel]
  simp

theorem Cols.ofList_toList : ∀ c : Cols, Cols.ofList c.toList = c
  | .nil => rfl
  | .cons n md c => by simp [Cols.toList, Cols.ofList, Cols.ofList_toList c]

theorem Rows.ofList_toList : ∀ r : Rows, Rows.ofList r.toList = r
  | .nil => rfl
  | .cons r rs => by simp [Rows.toList, Rows.ofList, Rows.ofList_toList rs]

theorem lexImgC_names : ∀ c : Cols, (lexImgC c).toList.map (·.1) = c.names
  | .nil => rfl
  | .cons n md c => by simp [lexImgC, Cols.toList, Cols.names, lexImgC_names c]

theorem At_make_all' (bs : List UInt8) : At (Scan.make bs) bs := by
  cases bs with
  | nil => simp [Scan.make, At]
  | cons b r => exact At_make b r

/-- the reads from the `ver` identifier to the newline that ends the column line -/
theorem header_chain (md : OTags) (hmd : MetaOkG md)
    (n : List Char) (cm : OTags) (c : Cols) (hcok : ColsOk (.cons n cm c))
    (depth g : Nat) (s0 : Scan) (region : List UInt8)
    (hat : At s0 (58 :: 34 :: 51 :: 46 :: 48 :: 34 :: (metaPart md ++ 10 :: (encCols (.cons n cm c) ++ 10 :: region))))
    (hs : s0.stash = []) (hf : 4 * ((metaPart md).length + colsLen (.cons n cm c)) + 40 ≤ g)
    (hd : depth + nestO md ≤ 64 ∧ depth + nestC (.cons n cm c) ≤ 64) :
    ∃ (sQ : Scan) (p3 p4 p5 : PS) (mkvs : List (List Char × Val)),
      lexRead g s0 = .ok { sc := s0.advance, tok := .ch 58 } ∧
      lexRead g s0.advance = .ok { sc := sQ, tok := .val (.str ['3', '.', '0']) } ∧
      lexRead g sQ = .ok p3 ∧
      dictParts g depth p3 false [] = .ok (mkvs, p4) ∧ p4.tok = .ch 10 ∧
      (if mkvs.isEmpty then OTags.none else OTags.some (dictOf mkvs)) = lexImgO md ∧
      gridColumns g depth p4 [] = .ok ((lexImgC (.cons n cm c)).toList, p5) ∧ p5.tok = .ch 10 ∧
      At p5.sc region ∧ p5.sc.stash = [] := by
  obtain ⟨g', rfl⟩ : ∃ g', g = g' + 2 := ⟨g - 2, by omega⟩
  have h1 := hat.advance
  have hs1 : s0.advance.stash = [] := by rw [At.advance_stash, hs]; rfl
  have hq : encQuoted ['3', '.', '0'] = [34, 51, 46, 48, 34] := by decide
  obtain ⟨sQ, eQ, hQ, hsQ⟩ := lexRead_str ['3', '.', '0'] s0.advance
    (metaPart md ++ 10 :: (encCols (.cons n cm c) ++ 10 :: region)) (g' + 2) (by rw [hq]; simpa using h1) hs1
    (by rw [hq]; simp; omega)
  have hcolsne : ∃ b r, encCols (.cons n cm c) ++ 10 :: region = b :: r := by
    cases hx : encCols (.cons n cm c) ++ 10 :: region with
    | nil => simp at hx
    | cons b r => exact ⟨b, r, rfl⟩
  -- the meta part
  have hmeta : ∃ (p3 p4 : PS) (mkvs : List (List Char × Val)), lexRead (g' + 2) sQ = .ok p3 ∧
      dictParts (g' + 2) depth p3 false [] = .ok (mkvs, p4) ∧ p4.tok = .ch 10 ∧
      (if mkvs.isEmpty then OTags.none else OTags.some (dictOf mkvs)) = lexImgO md ∧
      At p4.sc (encCols (.cons n cm c) ++ 10 :: region) ∧ p4.sc.stash = [] := by
    cases md with
    | none =>
      simp only [metaPart, List.nil_append] at hQ
      refine ⟨{ sc := sQ.advance, tok := .ch 10 }, { sc := sQ.advance, tok := .ch 10 }, [],
        lexRead_special hQ (by decide) (by decide) (g' + 1), ?_, rfl, by simp [lexImgO], hQ.advance,
        by show sQ.advance.stash = []; rw [At.advance_stash, hsQ]; rfl⟩
      obtain ⟨b, r, hbr⟩ := hcolsne
      have := hQ.advance
      rw [hbr] at this
      rw [dictParts]
      simp [isEof_mk, this.eof]
    | some t =>
      obtain ⟨hne, hki, hks, hrt⟩ := hmd
      cases t with
      | nil => simp [Tags.isEmpty] at hne
      | cons k v t' =>
        simp only [metaPart, Tags.isEmpty, Bool.false_eq_true, if_false, List.length_cons] at hQ hf
        have hQ' : At sQ (32 :: (encChars k ++ (valPart v ++ tailOf 32 10 (encCols (.cons n cm c) ++ 10 :: region) t'))) := by
          rw [← encTags_split]; simpa using hQ
        have hki' := hki
        simp only [keysIdent, Bool.and_eq_true] at hki'
        obtain ⟨b, r, ek, hb⟩ := isIdent_head hki'.1
        have hbne : b ≠ 32 ∧ b ≠ 9 := by
          constructor <;> (intro e; subst e; revert hb; decide)
        have hlenk : k.length ≤ (encChars k).length := encChars_length_ge k
        have hlen := encTags_length k v t' 32
        have hQb := hQ'
        rw [ek] at hQb
        simp only [List.cons_append] at hQb
        obtain ⟨e2, h2, hs2⟩ := lexRead_space hQb hbne (by simp [hsQ]) g'
        have h2' : At sQ.advance (encChars k ++ (valPart v ++ tailOf 32 10 (encCols (.cons n cm c) ++ 10 :: region) t')) := by
          rw [ek]; simpa using h2
        obtain ⟨e3, h3⟩ := lexRead_id k hki'.1 _ _ (g' + 1) h2' (stop_lit_tail st_meta _ v t') (by omega)
        obtain ⟨p4, e4, ht4, h4, hs4⟩ := hrt k v t' rfl depth (g' + 2) { sc := advN k.length sQ.advance, tok := .id k }
          false [] (encCols (.cons n cm c) ++ 10 :: region) rfl h3 (advN_stash_nil _ _ hs2) (by omega)
          (by simpa [nestO] using hd.1)
        have hdict : dictOf (lexImgT (.cons k v t')).toList = lexImgT (.cons k v t') :=
          dictOf_toList _ (by rw [lexImgT_keys]; exact hks)
        refine ⟨_, p4, _, by rw [e2, e3], by simpa using e4, ht4, ?_, h4, hs4⟩
        have hdict' : dictOf ((k, lexImg v) :: (lexImgT t').toList) = Tags.cons k (lexImg v) (lexImgT t') := by
          simpa [lexImgT, Tags.toList] using hdict
        simp [lexImgT, Tags.toList, lexImgO, hdict']
  obtain ⟨p3, p4, mkvs, e3, e4, ht4, hmdeq, h4, hs4⟩ := hmeta
  obtain ⟨p5, e5, ht5, h5, hs5⟩ := gridColumns_rt n cm c hcok depth (g' + 2) p4 [] region h4 hs4 (by omega) hd.2
  exact ⟨sQ, p3, p4, p5, mkvs, lexRead_special hat (by decide) (by decide) (g' + 1), eQ, e3, e4, ht4, hmdeq,
    by simpa using e5, ht5, h5, hs5⟩


/-- all rows (possibly none) and the end of the grid -/
theorem rows_all (names : List (List Char)) (single nested : Bool) (rest : List UInt8)
    (hne : names ≠ []) (hsingle : names.length = 1 → single = true) (hnd : names.Nodup) (depth : Nat)
    (rows : Rows) (hok : RowsOk names single rows) (hdep : depth + nestR rows ≤ 64)
    (g : Nat) (sc6 : Scan) (hat : At sc6 (encRows rows names single ++ tailR nested rest)) (hs : sc6.stash = [])
    (hf : 4 * (encRows rows names single).length + 20 ≤ g) :
    ∃ p6 r', lexRead g sc6 = .ok p6 ∧
      rowsLoop (g + 1) depth { p := p6, nestedStart := nested, nestedEnd := false } names []
        = .ok ((lexImgR rows).toList, r') ∧
      At r'.p.sc (finalR nested rest) ∧ r'.p.sc.stash = [] := by
  cases rows with
  | cons r rs =>
    obtain ⟨p, r', e1, _, _, _, e2, h', hs'⟩ := rowsLoop_rt names single nested rest hne hsingle hnd depth r rs hok hdep
      g (g + 1) sc6 [] hat hs hf (by omega)
    exact ⟨p, r', e1, by simpa using e2, h', hs'⟩
  | nil =>
    simp only [encRows, List.nil_append] at hat
    obtain ⟨g', rfl⟩ : ∃ g', g = g' + 3 := ⟨g - 3, by omega⟩
    cases nested with
    | false =>
      simp only [tailR, Bool.false_eq_true, if_false] at hat
      refine ⟨{ sc := sc6.advance, tok := .ch 10 },
        { p := { sc := sc6.advance, tok := .ch 10 }, nestedStart := false, nestedEnd := false },
        lexRead_special hat (by decide) (by decide) _, ?_, ?_, ?_⟩
      · rw [rowsLoop, rowNext]
        simp [PS.isEof, hat.advance.eof_nil, lexImgR, Rows.toList]
      · simpa [finalR] using hat.advance
      · show sc6.advance.stash = []
        rw [At.advance_stash, hs]; rfl
    | true =>
      simp only [tailR, if_true] at hat
      refine ⟨{ sc := sc6.advance, tok := .ch 62 },
        { p := { sc := sc6.advance.advance, tok := .ch 62 }, nestedStart := true, nestedEnd := true },
        lexRead_special hat (by decide) (by decide) _, ?_, ?_, ?_⟩
      · rw [rowsLoop, rowNext]
        simp only [PS.isEof, hat.advance.eof, Bool.or_false, Bool.false_eq_true, if_false]
        rw [consumeEnd]
        simp [isChar_ch, PS.read, lexRead_special hat.advance (by decide) (by decide) g', lexImgR, Rows.toList]
      · simpa [finalR] using hat.advance.advance
      · show sc6.advance.advance.stash = []
        exact advN_stash_nil 2 _ hs

/-- what the grid reader needs of a grid -/
structure GridOk (md : OTags) (cols : Cols) (rows : Rows) (ver : List Char) : Prop where
  okVer : ver = ['3', '.', '0']
  okMeta : MetaOkG md
  okCols : ColsOk cols
  okNodup : cols.names.Nodup
  okRows : RowsOk cols.names (cols.length == 1) rows

theorem cols_single (n : List Char) (cm : OTags) (c : Cols) :
    (Cols.names (.cons n cm c)).length = 1 → ((Cols.length (.cons n cm c)) == 1) = true := by
  cases c <;> simp [Cols.names, Cols.length]

/-- `parse_grid` from the `ver` identifier on (both the nested and the top-level entry end up here) -/
theorem parseGrid_tail (md : OTags) (n : List Char) (cm : OTags) (c : Cols) (rows : Rows) (ver : List Char)
    (hok : GridOk md (.cons n cm c) rows ver) (nested : Bool) (rest : List UInt8) (D g : Nat) (s0 : Scan)
    (hat : At s0 (58 :: 34 :: 51 :: 46 :: 48 :: 34 :: (metaPart md ++ 10 :: (encCols (.cons n cm c) ++ 10 ::
      (encRows rows (Cols.names (.cons n cm c)) (Cols.length (.cons n cm c) == 1) ++ tailR nested rest)))))
    (hs : s0.stash = [])
    (hf : 4 * ((metaPart md).length + colsLen (.cons n cm c)
      + (encRows rows (Cols.names (.cons n cm c)) (Cols.length (.cons n cm c) == 1)).length) + 40 ≤ g)
    (hd : D + nestV (.grid md (.cons n cm c) rows ver) ≤ 64) :
    ∃ (sQ : Scan) (p3 p4 p5 p6 : PS) (mkvs : List (List Char × Val)) (r' : RowState),
      lexRead g s0 = .ok { sc := s0.advance, tok := .ch 58 } ∧
      lexRead g s0.advance = .ok { sc := sQ, tok := .val (.str ['3', '.', '0']) } ∧
      lexRead g sQ = .ok p3 ∧
      dictParts g D p3 false [] = .ok (mkvs, p4) ∧ PS.isChar p4 10 = true ∧
      (if mkvs.isEmpty then OTags.none else OTags.some (dictOf mkvs)) = lexImgO md ∧
      gridColumns g D p4 [] = .ok ((lexImgC (.cons n cm c)).toList, p5) ∧ PS.isChar p5 10 = true ∧
      lexRead g p5.sc = .ok p6 ∧
      rowsLoop (g + 1) D { p := p6, nestedStart := nested, nestedEnd := false } (Cols.names (.cons n cm c)) []
        = .ok ((lexImgR rows).toList, r') ∧
      At r'.p.sc (finalR nested rest) ∧ r'.p.sc.stash = [] := by
  simp only [nestV] at hd
  obtain ⟨sQ, p3, p4, p5, mkvs, e1, e2, e3, e4, ht4, hmd, e5, ht5, h5, hs5⟩ := header_chain md hok.okMeta n cm c hok.okCols
    D g s0 _ hat hs (by omega) (by omega)
  have hne : Cols.names (.cons n cm c) ≠ [] := by simp [Cols.names]
  obtain ⟨p6, r', e6, e7, h7, hs7⟩ := rows_all (Cols.names (.cons n cm c)) (Cols.length (.cons n cm c) == 1) nested rest
    hne (cols_single n cm c) hok.okNodup D rows hok.okRows (by omega) g p5.sc h5 hs5 (by omega)
  have i4 : PS.isChar p4 10 = true := by unfold PS.isChar; rw [ht4]; rfl
  have i5 : PS.isChar p5 10 = true := by unfold PS.isChar; rw [ht5]; rfl
  exact ⟨sQ, p3, p4, p5, p6, mkvs, r', e1, e2, e3, e4, i4, hmd, e5, i5, e6, e7, h7, hs7⟩


theorem isIdent_ver : isIdent ['v', 'e', 'r'] = true := by decide
theorem encChars_ver : encChars ['v', 'e', 'r'] = [118, 101, 114] := by decide

/-- **rt_grid** (nested): `<< … >>` through `parseValue` -/
theorem RdVal_grid (md : OTags) (n : List Char) (cm : OTags) (c : Cols) (rows : Rows) (ver : List Char)
    (hok : GridOk md (.cons n cm c) rows ver) : RdVal (.grid md (.cons n cm c) rows ver) := by
  intro depth f1 f2 s rest hat hs hd hf1 hf2 hn
  rw [enc_grid_nested] at hat
  rw [enc_grid_length] at hf1 hf2
  obtain ⟨g1, rfl⟩ : ∃ g, f1 = g + 1 := ⟨f1 - 1, by omega⟩
  obtain ⟨g, rfl⟩ : ∃ g, f2 = g + 3 := ⟨f2 - 3, by omega⟩
  have hndp : ¬ (depth ≥ maxNestingDepth) := by unfold maxNestingDepth; omega
  have h1 := hat.advance
  have h2 := h1.advance
  simp only [gridBody, verBytes, List.cons_append, List.nil_append] at h2
  have hcw := cws_one_nl h2 (by decide) (g - 1)
  have hg : g - 1 + 2 = g + 1 := by omega
  rw [hg] at hcw
  have h3 := h2.advance
  have hs3 : s.advance.advance.advance.stash = [] := advN_stash_nil 3 s hs
  obtain ⟨e0, h0⟩ := lexRead_id ['v', 'e', 'r'] isIdent_ver s.advance.advance.advance _ g
    (by rw [encChars_ver]; exact h3) (Stop_cons (by decide)) (by simp; omega)
  simp only [List.length_cons, List.length_nil] at e0 h0
  obtain ⟨sQ, p3, p4, p5, p6, mkvs, r', e1, e2, e3, e4, i4, hmd, e5, i5, e6, e7, h7, hs7⟩ :=
    parseGrid_tail md n cm c rows ver hok true rest (depth + 1) g _ h0 (advN_stash_nil _ _ hs3) (by omega) (by omega)
  refine ⟨{ sc := s.advance, tok := .ch 60 }, r'.p, lexRead_special hat (by decide) (by decide) g1,
    fun _ => h1.eof, Or.inr (Or.inr rfl), ?_, Post.of_clean (by simpa [finalR] using h7) hs7⟩
  rw [parseValue]
  simp only [hndp, if_false]
  have hsp1 : lexRead g s.advance = .ok { sc := s.advance.advance, tok := .ch 60 } := by
    obtain ⟨g', rfl⟩ : ∃ g', g = g' + 1 := ⟨g - 1, by omega⟩
    exact lexRead_special h1 (by decide) (by decide) g'
  have c1 : PS.isChar { sc := s.advance, tok := .ch 60 } 60 = true := rfl
  have c2 : PS.isChar { sc := s.advance.advance, tok := .ch 60 } 60 = true := rfl
  have c3 : PS.isChar { sc := s.advance, tok := .ch 60 } 91 = false := rfl
  rw [parseGrid, gridHeader]
  simp only [c1, if_true, PS.read, hsp1, c2, Bool.not_true,
    Bool.false_eq_true, if_false, hcw, e0]
  have c4 : ∀ sc : Scan, PS.isChar { sc := sc, tok := .ch 58 } 58 = true := fun _ => rfl
  simp only [e1, e2, e3, e4, i4, e5, i5, e6, hmd, c4]
  simp [lexImgC_names, e7, lexImg, Cols.ofList_toList, Rows.ofList_toList, hok.okVer]


/-- **rt_grid** (top level): `fromBytes ∘ encode` on a grid -/
theorem fromBytes_grid (md : OTags) (n : List Char) (cm : OTags) (c : Cols) (rows : Rows) (ver : List Char)
    (hok : GridOk md (.cons n cm c) rows ver) (hn : nestV (.grid md (.cons n cm c) rows ver) < 64) :
    fromBytes (encode (.grid md (.cons n cm c) rows ver)) = .ok (lexImg (.grid md (.cons n cm c) rows ver)) := by
  unfold encode fromBytes
  rw [enc_grid_top]
  have hlen : (gridBody md (.cons n cm c) rows false []).length =
      11 + (metaPart md).length + colsLen (.cons n cm c)
        + (encRows rows (Cols.names (.cons n cm c)) (Cols.length (.cons n cm c) == 1)).length := by
    have := encCols_length n cm c
    simp only [gridBody, verBytes, tailR, List.length_cons, List.length_append, List.length_nil,
      Bool.false_eq_true, if_false]
    omega
  generalize hfu : fuelFor (gridBody md (.cons n cm c) rows false []).length = fuel
  have hfuel : 8 * (11 + (metaPart md).length + colsLen (.cons n cm c)
      + (encRows rows (Cols.names (.cons n cm c)) (Cols.length (.cons n cm c) == 1)).length) + 64 = fuel := by
    rw [← hfu, hlen]; rfl
  obtain ⟨g, rfl⟩ : ∃ g, fuel = g + 3 := ⟨fuel - 3, by omega⟩
  have hat : At (Scan.make (gridBody md (.cons n cm c) rows false [])) (gridBody md (.cons n cm c) rows false []) :=
    At_make_all' _
  have hs : (Scan.make (gridBody md (.cons n cm c) rows false [])).stash = [] := by
    simp [gridBody, verBytes, Scan.make]
  generalize Scan.make (gridBody md (.cons n cm c) rows false []) = s at hat hs
  simp only [gridBody, verBytes, List.cons_append, List.nil_append] at hat
  obtain ⟨e0, h0⟩ := lexRead_id ['v', 'e', 'r'] isIdent_ver s _ (g + 3)
    (by rw [encChars_ver]; exact hat) (Stop_cons (by decide)) (by simp; omega)
  simp only [List.length_cons, List.length_nil] at e0 h0
  obtain ⟨sQ, p3, p4, p5, p6, mkvs, r', e1, e2, e3, e4, i4, hmd, e5, i5, e6, e7, h7, hs7⟩ :=
    parseGrid_tail md n cm c rows ver hok false [] 1 g _ h0 (advN_stash_nil _ _ hs) (by omega) (by omega)
  have hndp : ¬ (0 ≥ maxNestingDepth) := by unfold maxNestingDepth; omega
  have c0 : PS.isChar { sc := advN 3 s, tok := .id ['v', 'e', 'r'] } 60 = false := rfl
  have c4 : ∀ sc : Scan, PS.isChar { sc := sc, tok := .ch 58 } 58 = true := fun _ => rfl
  simp only [e0]
  rw [parseValue]
  simp only [hndp, if_false]
  rw [parseGrid, gridHeader]
  simp only [c0, Bool.false_eq_true, if_false, PS.read]
  simp only [e1, e2, e3, e4, i4, e5, i5, e6, hmd, c4]
  simp [lexImgC_names, e7, lexImg, Cols.ofList_toList, Rows.ofList_toList, hok.okVer]

end Hs.Zinc
