/-
  C04 (write direction), rung 0: the reference reader's elementary functions (`span`, `skipWs`, `nl`,
  `ident`, byte classes) on writer output.  Parsers of `Hs.Spec` are plain functions
  `In → Option (α × In)`: every lemma has the shape `p (text ++ rest) = some (x, rest)`.
-/
import Hs.Spec.ZincRead
import Hs.Lemmas.ZincRtWf
namespace Hs.Spec
open Hs Hs.Zinc Hs.Scan

/-! ### byte classes: the reference reader's are the library model's -/

theorem isDigit_eq (b : UInt8) : isDigit b = isDigitB b := rfl
theorem isLower_eq (b : UInt8) : isLower b = isLowerB b := rfl
theorem isUpper_eq (b : UInt8) : isUpper b = isUpperB b := rfl
theorem isAlnum_eq (b : UInt8) : isAlnum b = isAlnumB b := rfl
theorem isIdChar_eq (b : UInt8) : isIdChar b = isLitB b := rfl
theorem isRefChar_eq : ∀ b : UInt8, isRefChar b = isRefB b :=
  fun b => by
    have := all_u8 (fun b => isRefChar b == isRefB b) (by decide +kernel) b
    simpa using this
theorem isTzChar_eq (b : UInt8) : isTzChar b = isTzB b := rfl
theorem isHex_eq (b : UInt8) : isHex b = isHexB b := rfl
theorem hexVal_lower' (n : Nat) (h : n < 16) : isHex (hexDigitLower n) = true ∧ Hs.Spec.hexVal (hexDigitLower n) = n := by
  have : ∀ n : Fin 16, isHex (hexDigitLower n.1) = true ∧ Hs.Spec.hexVal (hexDigitLower n.1) = n.1 := by decide
  exact this ⟨n, h⟩

theorem chars_eq (bs : List UInt8) : chars bs = asciiChars bs := rfl

theorem chars_map_byteOf {cs : List Char} (h : ∀ c ∈ cs, c.toNat < 128) : chars (cs.map byteOf) = cs := by
  rw [chars_eq]; exact asciiChars_map_byteOf h

/-! ### `span` -/

theorem span_all (p : UInt8 → Bool) : ∀ (bs rest : List UInt8), (∀ b ∈ bs, p b = true) → Stop p rest →
    span p (bs ++ rest) = (bs, rest)
  | [], [], _, _ => by simp [span]
  | [], b :: r, _, hst => by simp [span, hst b r rfl]
  | b :: bs, rest, h, hst => by
    have ih := span_all p bs rest (fun x hx => h x (by simp [hx])) hst
    simp [span, h b (by simp), ih]

/-- `span` of a class on bytes of the class followed by a stop -/
theorem span_chars {P : UInt8 → Bool} {cs : List Char} (h : AllB P cs = true) (rest : List UInt8)
    (hst : Stop P rest) : span P (encChars cs ++ rest) = (cs.map byteOf, rest) := by
  obtain ⟨e, hp⟩ := encChars_ascii h
  rw [e]; exact span_all P _ rest hp hst

theorem AllB_ascii {P : UInt8 → Bool} {cs : List Char} (h : AllB P cs = true) : ∀ c ∈ cs, c.toNat < 128 := by
  intro c hc
  simp only [AllB, List.all_eq_true, Bool.and_eq_true, decide_eq_true_eq] at h
  exact (h c hc).1

/-! ### white space, newline -/

/-- the text does not start with a space or a tab -/
def NoWs (l : List UInt8) : Prop := ∀ b r, l = b :: r → b ≠ 32 ∧ b ≠ 9

theorem skipWs_noop : ∀ {l : List UInt8}, NoWs l → skipWs l = l
  | [], _ => by simp [skipWs]
  | b :: r, h => by
    obtain ⟨h1, h2⟩ := h b r rfl
    unfold skipWs
    split
    · rename_i heq; cases heq; exact absurd rfl h1
    · rename_i heq; cases heq; exact absurd rfl h2
    · rfl

theorem NoWs_cons {b : UInt8} {r : List UInt8} (h1 : b ≠ 32) (h2 : b ≠ 9) : NoWs (b :: r) := by
  intro b' r' e; cases e; exact ⟨h1, h2⟩

theorem NoWs_nil : NoWs [] := by intro b r e; cases e

theorem skipWs_cons {b : UInt8} {r : List UInt8} (h1 : b ≠ 32) (h2 : b ≠ 9) : skipWs (b :: r) = b :: r :=
  skipWs_noop (NoWs_cons h1 h2)

theorem skipWs_space (r : List UInt8) : skipWs (32 :: r) = skipWs r := by rw [skipWs]

theorem nl_lf (r : List UInt8) : nl (10 :: r) = some r := by simp [nl]

/-! ### identifiers -/

theorem ident_rt (k : List Char) (hk : isIdent k = true) (rest : List UInt8) (hst : Stop isLitB rest) :
    ident (encChars k ++ rest) = some (k, rest) := by
  obtain ⟨hl, hne⟩ := isIdent_lit hk
  have hsp := span_chars hl rest hst
  obtain ⟨b, r, e, hb⟩ := isIdent_head hk
  have hsp' : span isIdChar (b :: (r ++ rest)) = (k.map byteOf, rest) := by
    have : isIdChar = isLitB := funext isIdChar_eq
    rw [this, ← hsp, e]; rfl
  unfold ident
  rw [e]
  simp only [List.cons_append, isLower_eq, hb, if_true, hsp']
  rw [chars_map_byteOf (AllB_ascii hl)]

/-- `ident` fails on a text that does not start with a lower-case letter -/
theorem ident_none {l : List UInt8} (h : ∀ b r, l = b :: r → isLowerB b = false) : ident l = none := by
  cases l with
  | nil => rfl
  | cons b r => simp [ident, isLower_eq, h b r rfl]

end Hs.Spec
