/-
  C11 (lazy rows), part 6: the statements of parts 1–5 assembled for a grid that satisfies the decidable
  well-formedness predicate `wfV` of C01.
-/
import Hs.Lemmas.ZincLazyLayout
namespace Hs.Zinc
open Hs Hs.Scan

theorem lexImgR_length : ∀ rows : Rows, (lexImgR rows).toList.length = rows.length
  | .nil => rfl
  | .cons r rs => by simp [lexImgR, Rows.toList, Rows.length, lexImgR_length rs]

theorem rows_length_le (names : List (List Char)) (single : Bool) : ∀ rows : Rows,
    rows.length ≤ (encRows rows names single).length
  | .nil => by simp [Rows.length]
  | .cons r rs => by
    rw [encRows_length_cons]
    have := rows_length_le names single rs
    simp only [Rows.length]; omega

/-- the `i`-th number `pulls` reports is within one byte of the `i`-th token end -/
theorem zip_min_bound {α : Type} (total : Nat) : ∀ (l : List α) (es : List Nat) (i : Nat) (x : α × Nat),
    (List.zip l (es.map (fun e => min (e + 1) total)))[i]? = some x →
    ∃ e, es[i]? = some e ∧ l[i]? = some x.1 ∧ x.2 = min (e + 1) total
  | [], _, _, _, h => by simp at h
  | _ :: _, [], _, _, h => by simp at h
  | a :: l, e :: es, 0, x, h => by
    simp only [List.map_cons, List.zip_cons_cons, List.getElem?_cons_zero, Option.some.injEq] at h
    subst h
    exact ⟨e, rfl, rfl, rfl⟩
  | a :: l, e :: es, i + 1, x, h => by
    simp only [List.map_cons, List.zip_cons_cons, List.getElem?_cons_succ] at h
    simpa using zip_min_bound total l es i x h

/-- what `wfV` says about a grid, in the vocabulary of the grid lemmas -/
theorem gridOk_of_wf (md : OTags) (cols : Cols) (rows : Rows) (ver : List Char)
    (hwf : wfV (.grid md cols rows ver) = true) :
    ∃ n cm c, cols = .cons n cm c ∧ GridOk md (.cons n cm c) rows ver ∧ GoodR rows := by
  have h := good_of_wf _ hwf
  simp only [GoodV] at h
  obtain ⟨hver, hms, hcs, hrs, hgo, hgc, hgr⟩ := h
  cases cols with
  | nil => simp [colsShape] at hcs
  | cons n cm c =>
    simp only [colsShape, Bool.and_eq_true] at hcs
    exact ⟨n, cm, c, rfl, ⟨hver, rdOG md hgo hms, rdC (.cons n cm c) hgc hcs.1.2, nodupB_nodup _ hcs.2,
      rdR (Cols.names (.cons n cm c)) (Cols.length (.cons n cm c) == 1) rows hgr hrs⟩, hgr⟩

/-- **the lazy iterator on the writer's text of a well-formed top-level grid** -/
theorem lazy_of_wf (md : OTags) (cols : Cols) (rows : Rows) (ver : List Char)
    (hwf : wfV (.grid md cols rows ver) = true) (D F : Nat)
    (hD : D + nestV (.grid md cols rows ver) ≤ 64)
    (hF : 4 * (encode (.grid md cols rows ver)).length + 44 ≤ F) :
    ∃ p0 r0 r',
      lexRead F (Scan.make (encode (.grid md cols rows ver))) = .ok p0 ∧
      gridHeader F D p0 = .ok ((lexImgO md, (lexImgC cols).toList, ver), r0) ∧
      (∀ n, rows.length < n →
        pulls F D cols.names (encode (.grid md cols rows ver)).length n r0 =
          .ok (List.zip (lexImgR rows).toList
            ((tokEnds cols.names (cols.length == 1) (headerBytes md cols).length rows).map
              (fun e => min (e + 1) (encode (.grid md cols rows ver)).length)))) ∧
      rowsLoop F D r0 cols.names [] = .ok ((lexImgR rows).toList, r') ∧
      Layout (encode (.grid md cols rows ver)) cols.names (cols.length == 1) (headerBytes md cols).length rows := by
  obtain ⟨n, cm, c, rfl, hok, hgr⟩ := gridOk_of_wf md cols rows ver hwf
  obtain ⟨p0, r0, e0, eh, hh, r', el⟩ := lazy_top md n cm c rows ver hok hgr D F hD hF
  have hsplit := encode_grid_split md n cm c rows ver
  have hne : Cols.names (.cons n cm c) ≠ [] := by simp [Cols.names]
  refine ⟨p0, r0, r', e0, eh, ?_, el, ?_⟩
  · intro k hk
    rw [pulls_of_hands F D _ _ _ k r0 hh (by rw [rowTrace_length, lexImgR_length]; exact hk)]
    rw [rowTrace_counts _ _ rows (headerBytes md (.cons n cm c)).length _
      (by rw [hsplit]; simp only [List.length_append, List.length_cons, List.length_nil]; omega)]
  · refine layout_rows _ _ _ hne (cols_single n cm c) rows _ hok.okRows hgr ?_
    rw [hsplit, List.drop_left]

end Hs.Zinc
