/-
  C11, decoder image invariant: a value of the reader's shape (`decV`) whose lexical leaves are covered
  (`lexLeavesOk`) and that is not on the exclusion list satisfies the hypotheses of C01's round trip (`GoodVG`: as
  `wfV` of C01, after `asRead`, column names possibly repeated) and is its own lexical image.
-/
import Hs.Lemmas.ZincImageBase
import Hs.Lemmas.ZincImageDup3
namespace Hs.Zinc
open Hs Hs.Scan

/-! ### `asRead` changes nothing but the zone id of timestamps -/

theorem keys_asReadT : ∀ t : Tags, (asReadT t).keys = t.keys
  | .nil => rfl
  | .cons k v t => by simp [asReadT, Tags.keys, keys_asReadT t]

theorem isEmpty_asReadT (t : Tags) : (asReadT t).isEmpty = t.isEmpty := by
  cases t <;> simp [asReadT, Tags.isEmpty]

theorem keysIdent_asReadT : ∀ t : Tags, keysIdent (asReadT t) = keysIdent t
  | .nil => rfl
  | .cons k v t => by simp [asReadT, keysIdent, keysIdent_asReadT t]

theorem get?_asReadT : ∀ (t : Tags) (n : List Char), ((asReadT t).get? n).isSome = (t.get? n).isSome
  | .nil, _ => rfl
  | .cons k v t, n => by
    by_cases hk : k = n
    · simp [asReadT, Tags.get?, hk]
    · simp [asReadT, Tags.get?, hk, get?_asReadT t n]

theorem metaShape_asReadO : ∀ o : OTags, metaShape (asReadO o) = metaShape o
  | .none => rfl
  | .some t => by simp [asReadO, metaShape, isEmpty_asReadT, keysIdent_asReadT, keys_asReadT]

theorem colsShapeAux_asReadC : ∀ c : Cols, colsShapeAux (asReadC c) = colsShapeAux c
  | .nil => rfl
  | .cons n md c => by simp [asReadC, colsShapeAux, metaShape_asReadO, colsShapeAux_asReadC c]

theorem names_asReadC : ∀ c : Cols, (asReadC c).names = c.names
  | .nil => rfl
  | .cons n md c => by simp [asReadC, Cols.names, names_asReadC c]

theorem length_asReadC : ∀ c : Cols, (asReadC c).length = c.length
  | .nil => rfl
  | .cons n md c => by simp [asReadC, Cols.length, length_asReadC c]

theorem rowFull_asReadT (names : List (List Char)) (r : Tags) : rowFull names (asReadT r) = rowFull names r := by
  simp [rowFull, get?_asReadT]

/-- the rows' shape as C01 states it, from the reader's shape and the absence of Z4 -/
theorem rowsShape_asReadR (names : List (List Char)) (single : Bool) :
    ∀ rows : Rows, rowsDec names rows = true → (single = true → rowsFull names rows = true) →
      rowsShape names single (asReadR rows) = true
  | .nil, _, _ => rfl
  | .cons r rs, hd, hf => by
    simp only [rowsDec, rowDec, Bool.and_eq_true] at hd
    simp only [asReadR, rowsShape, rowShape, Bool.and_eq_true, keys_asReadT]
    refine ⟨⟨⟨hd.1.1, hd.1.2⟩, ?_⟩, rowsShape_asReadR names single rs hd.2 ?_⟩
    · cases single with
      | false => rfl
      | true =>
        have := hf rfl
        simp only [rowsFull, Bool.and_eq_true] at this
        have h1 := this.1
        rw [← rowFull_asReadT] at h1
        simpa [rowFull] using h1
    · intro hs
      have := hf hs
      simp only [rowsFull, Bool.and_eq_true] at this
      exact this.2

/-! ### nesting -/

mutual
theorem nest_asRead : ∀ v : Val, nestV (asRead v) = nestV v
  | .list xs => by simp [asRead, nestV, nest_asReads xs]
  | .dict d => by simp [asRead, nestV, nest_asReadT d]
  | .grid md cols rows _ => by simp [asRead, nestV, nest_asReadO md, nest_asReadC cols, nest_asReadR rows]
  | .null => rfl | .remove => rfl | .marker => rfl | .na => rfl | .bool _ => rfl | .num _ => rfl
  | .str _ => rfl | .uri _ => rfl | .ref _ _ => rfl | .sym _ => rfl | .date _ => rfl | .time _ => rfl
  | .dateTime _ => rfl | .coord _ _ => rfl | .xstr _ _ => rfl
theorem nest_asReads : ∀ xs : Vals, nestVs (asReads xs) = nestVs xs
  | .nil => rfl
  | .cons v vs => by simp [asReads, nestVs, nest_asRead v, nest_asReads vs]
theorem nest_asReadT : ∀ t : Tags, nestT (asReadT t) = nestT t
  | .nil => rfl
  | .cons _ v t => by simp [asReadT, nestT, nest_asRead v, nest_asReadT t]
theorem nest_asReadO : ∀ o : OTags, nestO (asReadO o) = nestO o
  | .none => rfl
  | .some t => by simp [asReadO, nestO, nest_asReadT t]
theorem nest_asReadC : ∀ c : Cols, nestC (asReadC c) = nestC c
  | .nil => rfl
  | .cons _ m c => by simp [asReadC, nestC, nest_asReadO m, nest_asReadC c]
theorem nest_asReadR : ∀ r : Rows, nestR (asReadR r) = nestR r
  | .nil => rfl
  | .cons r rs => by simp [asReadR, nestR, nest_asReadT r, nest_asReadR rs]
end

/-! ### the invariant implies the hypotheses of C01's round trip -/

/-- a leaf: `GoodVG` is `GoodV` is what `wfV` gives -/
theorem goodG_leaf (v : Val) (hs : Scalar v = true) (h : wfV v = true) : GoodVG v := by
  have := good_of_wf v h
  cases v <;> first | (simp [Scalar] at hs; done) | (simp only [GoodV] at this; simp only [GoodVG]; exact this)

mutual
theorem image_good : ∀ v : Val, decV v = true → lexLeavesOk v = true → anyGrid badNode v = false →
    GoodVG (asRead v) ∧ lexImg (asRead v) = v
  | .null, _, _, _ => ⟨goodG_leaf _ rfl rfl, rfl⟩
  | .remove, _, _, _ => ⟨goodG_leaf _ rfl rfl, rfl⟩
  | .marker, _, _, _ => ⟨goodG_leaf _ rfl rfl, rfl⟩
  | .na, _, _, _ => ⟨goodG_leaf _ rfl rfl, rfl⟩
  | .bool _, _, _, _ => ⟨goodG_leaf _ rfl rfl, rfl⟩
  | .str _, _, _, _ => ⟨goodG_leaf _ rfl rfl, rfl⟩
  | .uri _, _, _, _ => ⟨goodG_leaf _ rfl rfl, rfl⟩
  | .ref id dis, hd, _, _ => by
    simp only [decV] at hd; exact ⟨goodG_leaf _ rfl (by simpa [asRead, wfV] using hd), rfl⟩
  | .sym s, hd, _, _ => by
    simp only [decV] at hd; exact ⟨goodG_leaf _ rfl (by simpa [asRead, wfV] using hd), rfl⟩
  | .xstr ty x, hd, _, _ => by
    simp only [decV] at hd; exact ⟨goodG_leaf _ rfl (by simpa [asRead, wfV] using hd), rfl⟩
  | .num n, hd, hl, _ => by
    simp only [decV, decide_eq_true_eq] at hd
    simp only [lexLeavesOk] at hl
    exact ⟨goodG_leaf _ rfl (by simpa [asRead, wfV] using hl), by simp [asRead, lexImg, hd]⟩
  | .date d, hd, _, _ => by
    simp only [decV] at hd; exact ⟨goodG_leaf _ rfl (by simpa [asRead, wfV] using hd), rfl⟩
  | .time t, _, hl, _ => by
    simp only [lexLeavesOk] at hl; exact ⟨goodG_leaf _ rfl (by simpa [asRead, wfV] using hl), rfl⟩
  | .dateTime t, hd, hl, _ => by
    simp only [lexLeavesOk] at hl
    simp only [decV, Bool.and_eq_true, beq_iff_eq] at hd
    obtain ⟨⟨⟨⟨h1, h2⟩, h3⟩, h4⟩, h5⟩ := hd
    refine ⟨goodG_leaf _ rfl (by simpa [asRead, wfV] using hl), ?_⟩
    cases t
    simp only at h1 h2 h3 h4 h5
    subst h1 h2 h3 h4 h5
    simp [asRead, lexImg]
  | .coord a b, hd, _, _ => by
    simp only [decV, Bool.and_eq_true, beq_iff_eq] at hd
    refine ⟨goodG_leaf _ rfl (by simp [asRead, wfV, hd.1.2, hd.2]), ?_⟩
    cases a; cases b
    simp only at hd
    simp [asRead, lexImg, hd.1.1.1, hd.1.1.2]
  | .list xs, hd, hl, hx => by
    simp only [decV] at hd; simp only [lexLeavesOk] at hl; simp only [anyGrid] at hx
    obtain ⟨h1, h2⟩ := image_goods xs hd hl hx
    exact ⟨by simpa [asRead, GoodVG] using h1, by simp [asRead, lexImg, h2]⟩
  | .dict d, hd, hl, hx => by
    simp only [decV, Bool.and_eq_true] at hd; simp only [lexLeavesOk] at hl; simp only [anyGrid] at hx
    obtain ⟨h1, h2⟩ := image_goodT d hd.2 hl hx
    refine ⟨?_, by simp [asRead, lexImg, h2]⟩
    simp only [asRead, GoodVG, keysIdent_asReadT, keys_asReadT]
    exact ⟨hd.1.1, hd.1.2, h1⟩
  | .grid md cols rows ver, hd, hl, hx => by
    simp only [decV, Bool.and_eq_true] at hd
    simp only [lexLeavesOk, Bool.and_eq_true] at hl
    simp only [anyGrid, badNode, Bool.or_eq_false_iff] at hx
    obtain ⟨⟨⟨⟨⟨⟨dm, dne⟩, dcs⟩, drs⟩, dO⟩, dC⟩, dR⟩ := hd
    obtain ⟨⟨⟨⟨xver, xz4⟩, xO⟩, xC⟩, xR⟩ := hx
    obtain ⟨o1, o2⟩ := image_goodO md dO hl.1.1 xO
    obtain ⟨c1, c2⟩ := image_goodC cols dC hl.1.2 xC
    obtain ⟨r1, r2⟩ := image_goodR rows dR hl.2 xR
    refine ⟨?_, by simp [asRead, lexImg, o2, c2, r2]⟩
    simp only [asRead, GoodVG, metaShape_asReadO, names_asReadC, length_asReadC]
    have hver : ver = ['3', '.', '0'] := by simpa [exVer] using xver
    have hcs : colsShapeG (asReadC cols) = true := by
      simp only [colsShapeG, Bool.and_eq_true, colsShapeAux_asReadC]
      exact ⟨by cases cols <;> simp_all [asReadC, colsNE], dcs⟩
    have hrs : rowsShape cols.names (cols.length == 1) (asReadR rows) = true := by
      apply rowsShape_asReadR _ _ rows drs
      intro hs
      simpa [exZ4, hs] using xz4
    exact ⟨hver, dm, hcs, hrs, o1, c1, r1⟩
theorem image_goods : ∀ xs : Vals, decVs xs = true → lexLeavesOks xs = true → anyGridVs badNode xs = false →
    GoodVsG (asReads xs) ∧ lexImgs (asReads xs) = xs
  | .nil, _, _, _ => ⟨trivial, rfl⟩
  | .cons v vs, hd, hl, hx => by
    simp only [decVs, Bool.and_eq_true] at hd
    simp only [lexLeavesOks, Bool.and_eq_true] at hl
    simp only [anyGridVs, Bool.or_eq_false_iff] at hx
    obtain ⟨a1, a2⟩ := image_good v hd.1 hl.1 hx.1
    obtain ⟨b1, b2⟩ := image_goods vs hd.2 hl.2 hx.2
    exact ⟨by simp only [asReads, GoodVsG]; exact ⟨a1, b1⟩, by simp [asReads, lexImgs, a2, b2]⟩
theorem image_goodT : ∀ t : Tags, decT t = true → lexLeavesOkT t = true → anyGridT badNode t = false →
    GoodTG (asReadT t) ∧ lexImgT (asReadT t) = t
  | .nil, _, _, _ => ⟨trivial, rfl⟩
  | .cons k v t, hd, hl, hx => by
    simp only [decT, Bool.and_eq_true] at hd
    simp only [lexLeavesOkT, Bool.and_eq_true] at hl
    simp only [anyGridT, Bool.or_eq_false_iff] at hx
    obtain ⟨a1, a2⟩ := image_good v hd.1 hl.1 hx.1
    obtain ⟨b1, b2⟩ := image_goodT t hd.2 hl.2 hx.2
    exact ⟨by simp only [asReadT, GoodTG]; exact ⟨a1, b1⟩, by simp [asReadT, lexImgT, a2, b2]⟩
theorem image_goodO : ∀ o : OTags, decO o = true → lexLeavesOkO o = true → anyGridO badNode o = false →
    GoodOG (asReadO o) ∧ lexImgO (asReadO o) = o
  | .none, _, _, _ => ⟨trivial, rfl⟩
  | .some t, hd, hl, hx => by
    simp only [decO] at hd; simp only [lexLeavesOkO] at hl; simp only [anyGridO] at hx
    obtain ⟨a1, a2⟩ := image_goodT t hd hl hx
    exact ⟨by simp only [asReadO, GoodOG]; exact a1, by simp [asReadO, lexImgO, a2]⟩
theorem image_goodC : ∀ c : Cols, decC c = true → lexLeavesOkC c = true → anyGridC badNode c = false →
    GoodCG (asReadC c) ∧ lexImgC (asReadC c) = c
  | .nil, _, _, _ => ⟨trivial, rfl⟩
  | .cons n md c, hd, hl, hx => by
    simp only [decC, Bool.and_eq_true] at hd
    simp only [lexLeavesOkC, Bool.and_eq_true] at hl
    simp only [anyGridC, Bool.or_eq_false_iff] at hx
    obtain ⟨a1, a2⟩ := image_goodO md hd.1 hl.1 hx.1
    obtain ⟨b1, b2⟩ := image_goodC c hd.2 hl.2 hx.2
    exact ⟨by simp only [asReadC, GoodCG]; exact ⟨a1, b1⟩, by simp [asReadC, lexImgC, a2, b2]⟩
theorem image_goodR : ∀ r : Rows, decR r = true → lexLeavesOkR r = true → anyGridR badNode r = false →
    GoodRG (asReadR r) ∧ lexImgR (asReadR r) = r
  | .nil, _, _, _ => ⟨trivial, rfl⟩
  | .cons r rs, hd, hl, hx => by
    simp only [decR, Bool.and_eq_true] at hd
    simp only [lexLeavesOkR, Bool.and_eq_true] at hl
    simp only [anyGridR, Bool.or_eq_false_iff] at hx
    obtain ⟨a1, a2⟩ := image_goodT r hd.1 hl.1 hx.1
    obtain ⟨b1, b2⟩ := image_goodR rs hd.2 hl.2 hx.2
    exact ⟨by simp only [asReadR, GoodRG]; exact ⟨a1, b1⟩, by simp [asReadR, lexImgR, a2, b2]⟩
end

end Hs.Zinc
