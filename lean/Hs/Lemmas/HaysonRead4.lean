/-
  Hs.Lemmas.HaysonRead4 — the encoder's document is a Hayson document of the value (of its image
  `Hs.C02.jImage`: dates/times/timestamps as their texts, canonical NaN, `0.0` for a unit-less `-0.0`,
  an absent grid meta as the empty one the encoder writes): `Denotes (jImage v) (toJson v)` for every
  well-formed value.  This is the write direction of C05 and the non-vacuity of the read direction.
-/
import Hs.Lemmas.HaysonRead3
import Hs.Thm.C02
set_option linter.unusedSimpArgs false
namespace Hs.Spec.Hayson
open Hs Hs.Hayson Hs.C02

theorem jImageTags_keys' (t : Tags) : (jImageTags t).keys = t.keys := by
  rw [Tags.keys_eq, jImageTags_keys]

theorem tagKeys_image (t : Tags) (hw : wfTags t = true) (hs : strictSorted t.keys = true) :
    TagKeys (jImageTags t) := by
  refine ⟨by rw [jImageTags_keys']; exact hs, ?_⟩
  intro k hk
  rw [Tags.keys_eq] at hk
  obtain ⟨p, hp, e⟩ := List.mem_map.mp hk
  subst e
  exact wfTags_noKind t hw p hp

theorem denotesD_of_tags {t : Tags} (hm : DenotesM (jImageTags t) (tagsJson t).toList)
    (hw : wfTags t = true) (hs : strictSorted t.keys = true) : DenotesD (jImageTags t) (tagsJson t) :=
  .mk hm (tagKeys_image t hw hs) .absent (List.Perm.refl _)

/-- numbers: every case of `impl Serialize for Number` -/
theorem denotes_encNumber (n : Num) (hu : ∀ u, n.unit = some u → Hs.Zinc.unitSymbol u = some u) :
    Denotes (.num (numImage n)) (encNumber n) := by
  obtain ⟨v, unit⟩ := n
  cases unit with
  | some u =>
    have hu' := hu u rfl
    by_cases hN : isNaN v = true
    · have e : encNumber { v := v, unit := some u } = .obj (.cons (s "_kind") (.str (s "number"))
          (.cons (s "val") (.str (s "NaN")) (.cons (s "unit") (.str u) .nil))) := by
        simp [encNumber, hN]
      have e2 : numImage { v := v, unit := some u } = { v := mkFlt 0x7FF8000000000000 "NaN", unit := some u } := by
        simp [numImage, hN]
      rw [e, e2]
      exact .number .nan (.present u u hu') (List.Perm.refl _)
    · by_cases hI : isInf v = true
      · by_cases hS : isNeg v = true
        · have e : encNumber { v := v, unit := some u } = .obj (.cons (s "_kind") (.str (s "number"))
              (.cons (s "val") (.str (s "-INF")) (.cons (s "unit") (.str u) .nil))) := by
            simp [encNumber, hN, hI, hS]
          have e2 : numImage { v := v, unit := some u } = { v := mkFlt 0xFFF0000000000000 "-inf", unit := some u } := by
            simp [numImage, hN, hI, hS]
          rw [e, e2]
          exact .number .negInf (.present u u hu') (List.Perm.refl _)
        · have e : encNumber { v := v, unit := some u } = .obj (.cons (s "_kind") (.str (s "number"))
              (.cons (s "val") (.str (s "INF")) (.cons (s "unit") (.str u) .nil))) := by
            simp [encNumber, hN, hI, hS]
          have e2 : numImage { v := v, unit := some u } = { v := mkFlt 0x7FF0000000000000 "inf", unit := some u } := by
            simp [numImage, hN, hI, hS]
          rw [e, e2]
          exact .number .inf (.present u u hu') (List.Perm.refl _)
      · have e : encNumber { v := v, unit := some u } = .obj (.cons (s "_kind") (.str (s "number"))
            (.cons (s "val") (.flt v) (.cons (s "unit") (.str u) .nil))) := by
          simp [encNumber, hN, hI, jF64]
        have e2 : numImage { v := v, unit := some u } = { v := v, unit := some u } := by
          simp [numImage, hN, hI]
        rw [e, e2]
        exact .number (.tok (.flt v)) (.present u u hu') (List.Perm.refl _)
  | none =>
    by_cases hN : isNaN v = true
    · have e : encNumber { v := v, unit := none } = .obj (.cons (s "_kind") (.str (s "number"))
          (.cons (s "val") (.str (s "NaN")) .nil)) := by
        simp [encNumber, hN]
      have e2 : numImage { v := v, unit := none } = { v := mkFlt 0x7FF8000000000000 "NaN", unit := none } := by
        simp [numImage, hN]
      rw [e, e2]
      exact .number .nan .absent (List.Perm.refl _)
    · by_cases hI : isInf v = true
      · by_cases hS : isNeg v = true
        · have e : encNumber { v := v, unit := none } = .obj (.cons (s "_kind") (.str (s "number"))
              (.cons (s "val") (.str (s "-INF")) .nil)) := by
            simp [encNumber, hN, hI, hS]
          have e2 : numImage { v := v, unit := none } = { v := mkFlt 0xFFF0000000000000 "-inf", unit := none } := by
            simp [numImage, hN, hI, hS]
          rw [e, e2]
          exact .number .negInf .absent (List.Perm.refl _)
        · have e : encNumber { v := v, unit := none } = .obj (.cons (s "_kind") (.str (s "number"))
              (.cons (s "val") (.str (s "INF")) .nil)) := by
            simp [encNumber, hN, hI, hS]
          have e2 : numImage { v := v, unit := none } = { v := mkFlt 0x7FF0000000000000 "inf", unit := none } := by
            simp [numImage, hN, hI, hS]
          rw [e, e2]
          exact .number .inf .absent (List.Perm.refl _)
      · cases hE : exactInt v with
        | none =>
          have e : encNumber { v := v, unit := none } = .flt v := by simp [encNumber, hN, hI, hE]
          have e2 : numImage { v := v, unit := none } = { v := v, unit := none } := by
            simp [numImage, hN, hI, hE]
          rw [e, e2]
          exact .numTok (.flt v)
        | some i =>
          by_cases hR : (-9223372036854775808 ≤ i && i < 9223372036854775808) = true
          · by_cases h0 : i = 0
            · subst h0
              have e : encNumber { v := v, unit := none } = .int 0 { bits := 0, txt := ['0'] } := by
                simp [encNumber, hN, hI, hE]
              have e2 : numImage { v := v, unit := none } = { v := { bits := 0, txt := ['0'] }, unit := none } := by
                simp [numImage, hN, hI, hE]
              rw [e, e2]
              exact .numTok (.int 0 _)
            · have e : encNumber { v := v, unit := none } = .int i v := by
                simp [encNumber, hN, hI, hE, hR, h0]
              have e2 : numImage { v := v, unit := none } = { v := v, unit := none } := by
                simp [numImage, hN, hI, hE, h0]
              rw [e, e2]
              exact .numTok (.int i v)
          · have e : encNumber { v := v, unit := none } = .flt v := by
              simp [encNumber, hN, hI, hE, hR]
            have e2 : numImage { v := v, unit := none } = { v := v, unit := none } := by
              simp [numImage, hN, hI, hE]
              intro h0; subst h0; simp at hR
            rw [e, e2]
            exact .numTok (.flt v)

theorem numTok_jF64 (a : Flt) (h : finiteF a = true) : NumTok a (jF64 a) := by
  simp [finiteF] at h
  have : jF64 a = .flt a := by simp [jF64, h]
  rw [this]
  exact .flt a

mutual
theorem denotes_val : (v : Val) → wfj v = true → Denotes (jImage v) (toJson v)
  | .null, _ => by simp only [toJson, jImage]; exact .null
  | .remove, _ => by simp only [toJson, jImage, kindObj]; exact .remove
  | .marker, _ => by simp only [toJson, jImage, kindObj]; exact .marker
  | .na, _ => by simp only [toJson, jImage, kindObj]; exact .na
  | .bool b, _ => by simp only [toJson, jImage]; exact .bool b
  | .num n, h => by
    simp only [toJson, jImage]
    exact denotes_encNumber n (by
      intro u hu
      simp [wfj, hu] at h
      exact h)
  | .str x, _ => by simp only [toJson, jImage]; exact .str x
  | .uri x, _ => by simp only [toJson, jImage, kindObj]; exact .uri (List.Perm.refl _)
  | .ref id dis, _ => by
    simp only [toJson, jImage, kindObj]
    cases dis with
    | none => exact .ref .absent (List.Perm.refl _)
    | some d => exact .ref (.present d) (List.Perm.refl _)
  | .sym x, _ => by simp only [toJson, jImage, kindObj]; exact .symbol (List.Perm.refl _)
  | .date d, _ => by simp only [toJson, jImage, kindObj]; exact .date (List.Perm.refl _)
  | .time t, _ => by simp only [toJson, jImage, kindObj]; exact .time (List.Perm.refl _)
  | .dateTime t, _ => by
    simp only [toJson, jImage, kindObj]
    by_cases h : (t.tzid == s "UTC") = true
    · simp only [h, if_true]
      exact .dateTime .absent (List.Perm.refl _)
    · simp only [h]
      exact .dateTime (.present t.zone) (List.Perm.refl _)
  | .coord a b, h => by
    simp [wfj] at h
    simp only [toJson, jImage, kindObj]
    exact .coord (numTok_jF64 a h.1) (numTok_jF64 b h.2) (List.Perm.refl _)
  | .xstr ty v, _ => by simp only [toJson, jImage, kindObj]; exact .xstr (List.Perm.refl _)
  | .list xs, h => by
    simp only [toJson, jImage]
    exact .list (denotes_vals xs (by simpa [wfj] using h))
  | .dict d, h => by
    simp [wfj] at h
    simp only [toJson, jImage]
    exact .dict (denotesD_of_tags (denotes_tags d h.1) h.1 h.2)
  | .grid (.some t) cols rows ver, h => by
    simp [wfj] at h
    simp only [toJson, jImage, kindObj]
    refine .gridMeta (km := []) (vm := []) (denotes_tags t h.1.1.1.1) (tagKeys_image t h.1.1.1.1 h.1.1.1.2) ?_
      .absent .absent (List.Perm.refl _) (denotes_cols cols h.1.2) (denotes_rows rows h.2) (List.Perm.refl _)
    intro k hk e
    rw [jImageTags_keys'] at hk
    exact h.1.1.2 (e ▸ hk)
  | .grid .none cols rows ver, h => by
    simp [wfj] at h
    simp only [toJson, jImage, kindObj]
    exact .gridMeta (km := []) (vm := []) (tm := []) .nil ⟨rfl, by intro k hk; cases hk⟩
      (by intro k hk; cases hk) .absent .absent (List.Perm.refl _) (denotes_cols cols h.1)
      (denotes_rows rows h.2) (List.Perm.refl _)
theorem denotes_vals : (vs : Vals) → wfjs vs = true → DenotesL (jImages vs) (listJson vs)
  | .nil, _ => by simp only [listJson, jImages]; exact .nil
  | .cons v vs, h => by
    simp [wfjs] at h
    simp only [listJson, jImages]
    exact .cons (denotes_val v h.1) (denotes_vals vs h.2)
theorem denotes_tags : (t : Tags) → wfTags t = true → DenotesM (jImageTags t) (tagsJson t).toList
  | .nil, _ => by simp only [tagsJson, jImageTags, Members.toList]; exact .nil
  | .cons k v t, h => by
    simp [wfTags] at h
    simp only [tagsJson, jImageTags, Members.toList]
    exact .cons (denotes_val v h.1.2) (denotes_tags t h.2)
theorem denotes_cols : (c : Cols) → wfCols c = true → DenotesCols (jImageCols c) (colsJson c)
  | .nil, _ => by simp only [colsJson, jImageCols]; exact .nil
  | .cons n (.some t) c, h => by
    simp [wfCols] at h
    simp only [colsJson, jImageCols]
    exact .consMeta (denotesD_of_tags (denotes_tags t h.1.1) h.1.1 h.1.2) (List.Perm.refl _) (denotes_cols c h.2)
  | .cons n .none c, h => by
    simp [wfCols] at h
    simp only [colsJson, jImageCols]
    exact .consNoMeta (List.Perm.refl _) (denotes_cols c h)
theorem denotes_rows : (r : Rows) → wfRows r = true → DenotesRows (jImageRows r) (rowsJson r)
  | .nil, _ => by simp only [rowsJson, jImageRows]; exact .nil
  | .cons r rs, h => by
    simp [wfRows] at h
    simp only [rowsJson, jImageRows]
    exact .cons (denotesD_of_tags (denotes_tags r h.1.1) h.1.1 h.1.2) (denotes_rows rs h.2)
end

end Hs.Spec.Hayson
