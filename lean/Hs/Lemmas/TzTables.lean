/-
  Hs.Lemmas.TzTables — kernel-checked facts about the translated zone table and prefix list
  (`Hs.Gen.Zones`).  Every check is linear in the table (tree look-ups on numeric keys); Lake
  re-uses the compiled proofs while the generated file is byte-identical.
-/
import Hs.Model.Tz
namespace Hs.Tz
open Hs Hs.Gen.Zones

set_option maxRecDepth 100000

/-- the ids stored in the search tree are exactly the zone list -/
theorem tbl_tree_ids : ZTree.ids zoneTree = zones := by decide +kernel

/-- every zone id parses to itself -/
theorem tbl_parse_self : zones.all (fun z => parseTz z == some z) = true := by decide +kernel

/-- the city name of EVERY zone resolves, and to a zone with that same city name
(for an unambiguous city name that zone can only be the zone itself) -/
theorem tbl_short_resolves :
    zones.all (fun z => match findTimezone (shortName z) with
      | some w => shortName w == shortName z
      | none => false) = true := by decide +kernel

/-- every city name is in the lexing class of the Zinc reader -/
theorem tbl_short_lexable : zones.all (fun z => lexable (shortName z)) = true := by decide +kernel

/-- the hours for which a fixed `Etc/GMT` zone exists: −12 … +14 -/
def etcHours : List Int := [-12, -11, -10, -9, -8, -7, -6, -5, -4, -3, -2, -1, 0, 1, 2, 3, 4, 5, 6, 7, 8, 9, 10, 11, 12, 13, 14]

def natText (n : Nat) : List Char := if n < 10 then [digit n] else [digit (n / 10 % 10), digit (n % 10)]

/-- the fixed zone for a whole-hour offset of `n` hours EAST of Greenwich (POSIX sign: `Etc/GMT-n`) -/
def etcName (n : Int) : List Char :=
  if n = 0 then utcName else etcPrefix ++ (if 0 < n then '-' else '+') :: natText n.natAbs

/-- a whole-hour offset −12 … +14 h is given its `Etc/GMT∓N` zone (UTC for 0) -/
theorem tbl_rfc_hours : etcHours.all (fun n => decide (rfcZone (n * 3600) = .ok (etcName n))) = true := by
  decide +kernel

/-- an offset with minutes (|offset| < 24 h) is given UTC -/
theorem tbl_rfc_minutes :
    (List.range 24).all (fun hh => (List.range 60).all (fun mm =>
      mm == 0 || (decide (rfcZone (Int.ofNat (hh * 3600 + mm * 60)) = .ok utcName) &&
                  decide (rfcZone (-(Int.ofNat (hh * 3600 + mm * 60))) = .ok utcName)))) = true := by
  decide +kernel

theorem tbl_utc : utcName ∈ zones ∧ shortName utcName = utcName := by decide +kernel

end Hs.Tz
