/-
  C11, decoder image invariant, part 5: the grid functions of the parser on ARBITRARY input — columns, the row
  iterator (`consume_end`, `parse_row`, `RowIterator::next`, its collection), the header, `parse_grid`.
-/
import Hs.Lemmas.ZincImageParse1
namespace Hs.Zinc
open Hs Hs.Scan

/-- columns as the header parser collects them: identifier names, meta absent or a non-empty sorted dict -/
def ColsInv (D : Nat) (cols : List (List Char × OTags)) : Prop :=
  ∀ c ∈ cols, isIdent c.1 = true ∧ metaShape c.2 = true ∧ decO c.2 = true ∧ D + nestO c.2 ≤ 65

/-- the cells of one row: keyed by column names -/
def RowKV (D : Nat) (cols : List (List Char)) (kvs : List (List Char × Val)) : Prop :=
  ∀ q ∈ kvs, q.1 ∈ cols ∧ ValOk D q.2

def RowInv (D : Nat) (cols : List (List Char)) (row : Tags) : Prop :=
  rowDec cols row = true ∧ decT row = true ∧ D + nestT row ≤ 65

def S_gridColumns (f : Nat) : Prop :=
  ∀ D p acc cols p', D ≤ 64 → ColsInv D acc → gridColumns f D p acc = .ok (cols, p') →
    ColsInv D cols ∧ cols ≠ [] ∧ PSok p'

def S_rowLoop (f : Nat) : Prop :=
  ∀ D p cols n acc kvs p', PSok p → RowKV D cols acc → rowLoop f D p cols n acc = .ok (kvs, p') →
    RowKV D cols kvs ∧ PSok p'

def S_rowNext (f : Nat) : Prop :=
  ∀ D r cols o r', D ≤ 64 → PSok r.p → rowNext f D r cols = .ok (o, r') →
    PSok r'.p ∧ ∀ row, o = some row → RowInv D cols row

def S_rowsLoop (f : Nat) : Prop :=
  ∀ D r cols acc rows r', D ≤ 64 → PSok r.p → (∀ x ∈ acc, RowInv D cols x) →
    rowsLoop f D r cols acc = .ok (rows, r') → (∀ x ∈ rows, RowInv D cols x) ∧ PSok r'.p

def S_gridHeader (f : Nat) : Prop :=
  ∀ D p md cols ver r, D ≤ 64 → PSok p → gridHeader f D p = .ok ((md, cols, ver), r) →
    metaShape md = true ∧ decO md = true ∧ D + nestO md ≤ 65 ∧ ColsInv D cols ∧ cols ≠ [] ∧ PSok r.p

/-! ### meta dicts -/

theorem meta_of_KV {D : Nat} (hD : D ≤ 64) {kvs : List (List Char × Val)} (h : KV D kvs)
    (hne : kvs.isEmpty = false) :
    metaShape (.some (dictOf kvs)) = true ∧ decO (.some (dictOf kvs)) = true ∧ D + nestO (.some (dictOf kvs)) ≤ 65 := by
  obtain ⟨a, b, c, d⟩ := dict_of_KV hD h
  refine ⟨?_, by simpa [decO] using c, by simpa [nestO] using d⟩
  simp [metaShape, a, b, dictOf_nonempty kvs hne]

theorem ColsInv_snoc {D : Nat} {acc : List (List Char × OTags)} (h : ColsInv D acc) {n : List Char} {md : OTags}
    (hn : isIdent n = true) (hm : metaShape md = true ∧ decO md = true ∧ D + nestO md ≤ 65) :
    ColsInv D (acc ++ [(n, md)]) := by
  intro c hc
  rcases List.mem_append.mp hc with hc | hc
  · exact h c hc
  · simp only [List.mem_singleton] at hc
    subst hc; exact ⟨hn, hm⟩

theorem meta_none (D : Nat) (hD : D ≤ 64) :
    metaShape .none = true ∧ decO .none = true ∧ D + nestO .none ≤ 65 := ⟨rfl, rfl, by simp [nestO]; omega⟩

/-! ### `parse_grid_columns` -/

theorem gridColumns_step (f : Nat) (hCM : S_colMeta f) (hGC : S_gridColumns f) : S_gridColumns (f + 1) := by
  intro D p acc cols p' hD hacc h
  rw [gridColumns] at h
  split at h
  · rename_i p1 hr
    have hp1 := PSok_read hr
    split at h
    · rename_i name hk
      have hname : isIdent name = true := by
        have := hp1
        unfold PSok at this
        rw [hk] at this
        exact this
      split at h
      · rename_i p2 hr2
        have hp2 := PSok_read hr2
        by_cases c1 : p2.isChar 10 = true
        · rw [if_pos c1] at h
          simp only [Res.ok.injEq, Prod.mk.injEq] at h
          obtain ⟨rfl, rfl⟩ := h
          exact ⟨ColsInv_snoc hacc hname (meta_none D hD), by simp, hp2⟩
        rw [if_neg c1] at h
        by_cases c2 : p2.isChar 44 = true
        · rw [if_pos c2] at h
          exact hGC D p2 _ cols p' hD (ColsInv_snoc hacc hname (meta_none D hD)) h
        rw [if_neg c2] at h
        by_cases c3 : p2.isEof = true
        · rw [if_pos c3] at h; simp at h
        rw [if_neg c3] at h
        split at h
        · rename_i kvs p3 hcm
          obtain ⟨hkv, hp3⟩ := hCM D p2 [] kvs p3 hD hp2 (by intro q hq; simp at hq) hcm
          by_cases d1 : (!kvs.isEmpty) = true
          · rw [if_pos d1] at h
            have hne : kvs.isEmpty = false := by simpa using d1
            have hacc' := ColsInv_snoc hacc hname (meta_of_KV hD hkv hne)
            simp only [] at h
            by_cases e1 : p3.isChar 10 = true
            · rw [if_pos e1] at h
              simp only [Res.ok.injEq, Prod.mk.injEq] at h
              obtain ⟨rfl, rfl⟩ := h
              exact ⟨hacc', by simp, hp3⟩
            rw [if_neg e1] at h
            by_cases e2 : (!p3.isEof) = true
            · rw [if_pos e2] at h
              by_cases e3 : p3.isChar 44 = true
              · rw [if_pos e3] at h
                exact hGC D p3 _ cols p' hD hacc' h
              · rw [if_neg e3] at h; simp at h
            · rw [if_neg e2] at h; simp at h
          · rw [if_neg d1] at h
            exact hGC D p3 acc cols p' hD hacc h
        all_goals simp at h
      all_goals simp at h
    all_goals simp at h
  all_goals simp at h

/-! ### `consume_end` -/

theorem consumeEnd_ok : ∀ (f : Nat) (r r' : RowState), PSok r.p → consumeEnd f r = .ok r' → PSok r'.p
  | 0, _, _, _, h => by simp [consumeEnd] at h
  | f + 1, r, r', hp, h => by
    rw [consumeEnd] at h
    simp only [] at h
    split at h
    · rename_i p1 hs
      have hp1 : PSok p1 := by
        by_cases c1 : r.p.isChar 10 = true
        · rw [if_pos c1] at hs
          split at hs
          · rename_i sc' _
            by_cases c2 : (!PS.isEof { r.p with sc := sc' }) = true
            · rw [if_pos c2] at hs
              exact PSok_read hs
            · rw [if_neg c2] at hs
              simp only [Res.ok.injEq] at hs
              rw [← hs]; exact hp
          all_goals simp at hs
        · rw [if_neg c1] at hs
          simp only [Res.ok.injEq] at hs
          rw [← hs]; exact hp
      by_cases c3 : (r.nestedStart && p1.isChar 62) = true
      · rw [if_pos c3] at h
        split at h
        · rename_i p2 hr2
          split at h
          · simp only [Res.ok.injEq] at h
            rw [← h]; exact PSok_read hr2
          · simp at h
        all_goals simp at h
      · rw [if_neg c3] at h
        simp only [Res.ok.injEq] at h
        rw [← h]; exact hp1
    all_goals simp at h

/-! ### `parse_row`, `RowIterator::next`, collecting the rows -/

theorem rowLoop_step (f : Nat) (hV : S_value f) (hRL : S_rowLoop f) : S_rowLoop (f + 1) := by
  intro D p cols n acc kvs p' hp hacc h
  rw [rowLoop] at h
  by_cases c1 : p.isChar 44 = true
  · rw [if_pos c1] at h
    split at h
    · rename_i p1 hr
      exact hRL D p1 cols (n + 1) acc kvs p' (PSok_read hr) hacc h
    all_goals simp at h
  rw [if_neg c1] at h
  by_cases c2 : p.isChar 10 = true
  · rw [if_pos c2] at h
    simp only [Res.ok.injEq, Prod.mk.injEq] at h
    obtain ⟨rfl, rfl⟩ := h
    exact ⟨hacc, hp⟩
  rw [if_neg c2] at h
  by_cases c3 : p.tokNone = true
  · rw [if_pos c3] at h; simp at h
  rw [if_neg c3] at h
  split at h
  · rename_i w p1 hv
    obtain ⟨hw, _⟩ := hV D p w p1 hp hv
    split at h
    · rename_i name hn
      have hmem : name ∈ cols := List.mem_of_getElem? hn
      split at h
      · rename_i p2 hr2
        refine hRL D p2 cols n _ kvs p' (PSok_read hr2) ?_ h
        intro q hq
        rcases List.mem_append.mp hq with hq | hq
        · exact hacc q hq
        · simp only [List.mem_singleton] at hq
          subst hq; exact ⟨hmem, hw⟩
      all_goals simp at h
    · simp at h
  all_goals simp at h

theorem row_of_RowKV {D : Nat} (hD : D ≤ 64) {cols : List (List Char)} {kvs : List (List Char × Val)}
    (h : RowKV D cols kvs) : RowInv D cols (dictOf kvs) := by
  refine ⟨?_, decT_of_mem _ (fun p hp => (h p (dictOf_mem kvs p hp)).2.1), ?_⟩
  · simp only [rowDec, Bool.and_eq_true]
    exact ⟨dictOf_sorted kvs, keysAll_of_mem cols _ (fun p hp => (h p (dictOf_mem kvs p hp)).1)⟩
  · have := nestT_le_of_mem (65 - D) (dictOf kvs) (fun p hp => by
      have := (h p (dictOf_mem kvs p hp)).2.2
      omega)
    omega

theorem rowNext_step (f : Nat) (hRL : S_rowLoop f) : S_rowNext (f + 1) := by
  intro D r cols o r' hD hp h
  rw [rowNext] at h
  by_cases c1 : (r.p.isEof || r.nestedEnd) = true
  · rw [if_pos c1] at h
    simp only [Res.ok.injEq, Prod.mk.injEq] at h
    obtain ⟨rfl, rfl⟩ := h
    exact ⟨hp, fun row e => by cases e⟩
  rw [if_neg c1] at h
  split at h
  · rename_i r1 hce
    have hp1 := consumeEnd_ok f r r1 hp hce
    by_cases c2 : (r1.nestedEnd || r1.p.isEof) = true
    · rw [if_pos c2] at h
      simp only [Res.ok.injEq, Prod.mk.injEq] at h
      obtain ⟨rfl, rfl⟩ := h
      exact ⟨hp1, fun row e => by cases e⟩
    rw [if_neg c2] at h
    split at h
    · rename_i kvs p2 hrl
      obtain ⟨hkv, hp2⟩ := hRL D r1.p cols 0 [] kvs p2 hp1 (by intro q hq; simp at hq) hrl
      split at h
      · rename_i r3 hce3
        simp only [Res.ok.injEq, Prod.mk.injEq] at h
        obtain ⟨rfl, rfl⟩ := h
        refine ⟨consumeEnd_ok f _ r3 hp2 hce3, ?_⟩
        intro row e
        simp only [Option.some.injEq] at e
        subst e
        exact row_of_RowKV hD hkv
      all_goals simp at h
    all_goals simp at h
  all_goals simp at h

theorem rowsLoop_step' (f : Nat) (hRN : S_rowNext f) (hRS : S_rowsLoop f) : S_rowsLoop (f + 1) := by
  intro D r cols acc rows r' hD hp hacc h
  rw [rowsLoop] at h
  split at h
  · rename_i r1 hn
    obtain ⟨hp1, _⟩ := hRN D r cols _ r1 hD hp hn
    simp only [Res.ok.injEq, Prod.mk.injEq] at h
    obtain ⟨rfl, rfl⟩ := h
    exact ⟨hacc, hp1⟩
  · rename_i row r1 hn
    obtain ⟨hp1, hrow⟩ := hRN D r cols _ r1 hD hp hn
    refine hRS D r1 cols _ rows r' hD hp1 ?_ h
    intro x hx
    rcases List.mem_append.mp hx with hx | hx
    · exact hacc x hx
    · simp only [List.mem_singleton] at hx
      subst hx; exact hrow _ rfl
  all_goals simp at h

/-! ### the header -/

theorem gridHeader_step (f : Nat) (hDP : S_dictParts f) (hGC : S_gridColumns f) : S_gridHeader (f + 1) := by
  intro D p md cols ver r hD hp h
  rw [gridHeader] at h
  simp only [] at h
  split at h
  · rename_i nested p0 hs
    have hp0 : PSok p0 := by
      by_cases c1 : p.isChar 60 = true
      · rw [if_pos c1] at hs
        split at hs
        · split at hs
          · simp at hs
          · split at hs
            · split at hs
              · rename_i p2 hr2
                simp only [Res.ok.injEq, Prod.mk.injEq] at hs
                rw [← hs.2]; exact PSok_read hr2
              all_goals simp at hs
            all_goals simp at hs
        all_goals simp at hs
      · rw [if_neg c1] at hs
        simp only [Res.ok.injEq, Prod.mk.injEq] at hs
        rw [← hs.2]; exact hp
    split at h
    · split at h
      · simp at h
      · split at h
        · split at h
          · simp at h
          · split at h
            · split at h
              · split at h
                · rename_i p3 hr3
                  split at h
                  · rename_i mkvs p4 hdp
                    obtain ⟨hkv, hp4⟩ := hDP D p3 false [] mkvs p4 hD (PSok_read hr3) (by intro q hq; simp at hq) hdp
                    split at h
                    · simp at h
                    · split at h
                      · rename_i cs p5 hgc
                        obtain ⟨hcs, hne, _⟩ := hGC D p4 [] cs p5 hD (by intro c hc; simp at hc) hgc
                        split at h
                        · simp at h
                        · split at h
                          · rename_i p6 hr6
                            simp only [Res.ok.injEq, Prod.mk.injEq] at h
                            obtain ⟨⟨rfl, rfl, rfl⟩, rfl⟩ := h
                            have hmd : metaShape (if mkvs.isEmpty = true then OTags.none else OTags.some (dictOf mkvs)) = true ∧
                                decO (if mkvs.isEmpty = true then OTags.none else OTags.some (dictOf mkvs)) = true ∧
                                D + nestO (if mkvs.isEmpty = true then OTags.none else OTags.some (dictOf mkvs)) ≤ 65 := by
                              by_cases e : mkvs.isEmpty = true
                              · rw [if_pos e]; exact meta_none D hD
                              · rw [if_neg e]; exact meta_of_KV hD hkv (by simpa using e)
                            exact ⟨hmd.1, hmd.2.1, hmd.2.2, hcs, hne, PSok_read hr6⟩
                          all_goals simp at h
                      all_goals simp at h
                  all_goals simp at h
                all_goals simp at h
              all_goals simp at h
            all_goals simp at h
        all_goals simp at h
    · simp at h
  all_goals simp at h

end Hs.Zinc
