/-
  C11, decoder image invariant, part 4: the parser on ARBITRARY input — statements (one per function of the mutual
  block of `Hs.Model.ZincParse`, indexed by the fuel) and the induction steps for `parse_value`, `parse_list`,
  `parse_dict` / `parse_dict_parts` / `parse_grid_column_meta`.

  Depth: a value returned by `parseValue f d p` satisfies `d + nestV v ≤ 64` (`nestV` counts a tag as one level even
  when its value is the implicit Marker, which the parser reads without a recursive call: that is why the bound is
  `≤ 64` and not `< 64`).
-/
import Hs.Lemmas.ZincImageLex
import Hs.Lemmas.ZincImageDict
namespace Hs.Zinc
open Hs Hs.Scan

/-- the token under the cursor came out of the lexer -/
def PSok (p : PS) : Prop := tokInv p.tok

theorem PSok_read {f : Nat} {p p1 : PS} (h : PS.read f p = .ok p1) : PSok p1 := lexRead_img f p.sc p1 h

theorem PSok_sc {p : PS} (h : PSok p) (sc : Scan) : PSok { p with sc := sc } := h

/-- a value of the reader's shape, nested no deeper than the parser's counter allows -/
def ValOk (D : Nat) (v : Val) : Prop := decV v = true ∧ D + nestV v ≤ 64

/-- entries with identifier keys -/
def KV (D : Nat) (kvs : List (List Char × Val)) : Prop := ∀ q ∈ kvs, isIdent q.1 = true ∧ ValOk D q.2

def S_value (f : Nat) : Prop :=
  ∀ d p v p', PSok p → parseValue f d p = .ok (v, p') → ValOk d v ∧ PSok p'

/-- `parse_list`, `parse_dict`, `parse_grid`: called with the incremented counter -/
def S_coll (g : Nat → Nat → PS → Res (Val × PS)) (f : Nat) : Prop :=
  ∀ D p v p', D ≤ 64 → PSok p → g f D p = .ok (v, p') → decV v = true ∧ D + nestV v ≤ 65 ∧ PSok p'

def S_listLoop (f : Nat) : Prop :=
  ∀ D p ec acc v p', D ≤ 64 → (∀ x ∈ acc, ValOk D x) → listLoop f D p ec acc = .ok (v, p') →
    decV v = true ∧ D + nestV v ≤ 65 ∧ PSok p'

def S_dictParts (f : Nat) : Prop :=
  ∀ D p ec acc kvs p', D ≤ 64 → PSok p → KV D acc → dictParts f D p ec acc = .ok (kvs, p') → KV D kvs ∧ PSok p'

def S_colMeta (f : Nat) : Prop :=
  ∀ D p acc kvs p', D ≤ 64 → PSok p → KV D acc → colMeta f D p acc = .ok (kvs, p') → KV D kvs ∧ PSok p'

/-! ### small facts -/

theorem nestV_scalar : ∀ v : Val, Scalar v = true → nestV v = 0
  | .list _, h => by simp [Scalar] at h
  | .dict _, h => by simp [Scalar] at h
  | .grid _ _ _ _, h => by simp [Scalar] at h
  | .null, _ => rfl | .remove, _ => rfl | .marker, _ => rfl | .na, _ => rfl | .bool _, _ => rfl | .num _, _ => rfl
  | .str _, _ => rfl | .uri _, _ => rfl | .ref _ _, _ => rfl | .sym _, _ => rfl | .date _, _ => rfl
  | .time _, _ => rfl | .dateTime _, _ => rfl | .coord _ _, _ => rfl | .xstr _ _, _ => rfl

theorem decVs_ofList : ∀ l : List Val, (∀ x ∈ l, decV x = true) → decVs (Vals.ofList l) = true
  | [], _ => rfl
  | x :: l, h => by
    simp only [Vals.ofList, decVs, Bool.and_eq_true]
    exact ⟨h x (by simp), decVs_ofList l (fun y hy => h y (by simp [hy]))⟩

theorem nestVs_ofList_le (n : Nat) : ∀ l : List Val, (∀ x ∈ l, nestV x + 1 ≤ n) → nestVs (Vals.ofList l) ≤ n
  | [], _ => by simp [Vals.ofList, nestVs]
  | x :: l, h => by
    simp only [Vals.ofList, nestVs]
    have h1 := h x (by simp)
    have h2 := nestVs_ofList_le n l (fun y hy => h y (by simp [hy]))
    omega

theorem KV_snoc {D : Nat} {acc : List (List Char × Val)} (h : KV D acc) {k : List Char} {v : Val}
    (hk : isIdent k = true) (hv : ValOk D v) : KV D (acc ++ [(k, v)]) := by
  intro q hq
  rcases List.mem_append.mp hq with hq | hq
  · exact h q hq
  · simp only [List.mem_singleton] at hq
    subst hq; exact ⟨hk, hv⟩

theorem ValOk_marker {D : Nat} (h : D ≤ 64) : ValOk D .marker := ⟨rfl, by simp [nestV]; exact h⟩

/-- the dict collected from entries read at counter `D` -/
theorem dict_of_KV {D : Nat} (hD : D ≤ 64) {kvs : List (List Char × Val)} (h : KV D kvs) :
    keysIdent (dictOf kvs) = true ∧ keysSorted (dictOf kvs).keys = true ∧ decT (dictOf kvs) = true ∧
      D + nestT (dictOf kvs) ≤ 65 := by
  refine ⟨keysIdent_of_mem _ (fun p hp => (h p (dictOf_mem kvs p hp)).1), dictOf_sorted kvs,
    decT_of_mem _ (fun p hp => (h p (dictOf_mem kvs p hp)).2.1), ?_⟩
  have := nestT_le_of_mem (65 - D) (dictOf kvs) (fun p hp => by
    have := (h p (dictOf_mem kvs p hp)).2.2
    omega)
  omega

/-! ### `parse_value` -/

theorem value_step (f : Nat) (hL : S_coll parseList f) (hD : S_coll parseDict f) (hG : S_coll parseGrid f) :
    S_value (f + 1) := by
  intro d p v p' hp h
  rw [parseValue] at h
  by_cases hd : d ≥ maxNestingDepth
  · rw [if_pos hd] at h; simp at h
  rw [if_neg hd] at h
  have hd' : d + 1 ≤ 64 := by unfold maxNestingDepth at hd; omega
  have fin : ∀ {g : Nat → Nat → PS → Res (Val × PS)}, S_coll g f → g f (d + 1) p = .ok (v, p') →
      ValOk d v ∧ PSok p' := by
    intro g hg hh
    obtain ⟨a, b, c⟩ := hg (d + 1) p v p' hd' hp hh
    exact ⟨⟨a, by omega⟩, c⟩
  split at h
  · exact fin hG h
  · rename_i w hw
    simp only [Res.ok.injEq, Prod.mk.injEq] at h
    obtain ⟨rfl, rfl⟩ := h
    have := hp
    unfold PSok at this
    rw [hw] at this
    exact ⟨⟨this.2, by rw [nestV_scalar _ this.1]; omega⟩, hp⟩
  · repeat' (first | split at h | simp only [] at h)
    all_goals first
      | (simp at h; done)
      | exact fin hL h
      | exact fin hD h
      | exact fin hG h
  · simp only [Res.ok.injEq, Prod.mk.injEq] at h
    obtain ⟨rfl, rfl⟩ := h
    exact ⟨⟨rfl, by simp [nestV]; omega⟩, hp⟩

/-! ### `parse_list` -/

theorem list_step (f : Nat) (hLL : S_listLoop f) : S_coll parseList (f + 1) := by
  intro D p v p' hD hp h
  rw [parseList] at h
  split at h
  · simp at h
  · exact hLL D p false [] v p' hD (by simp) h

theorem listLoop_step (f : Nat) (hV : S_value f) (hLL : S_listLoop f) : S_listLoop (f + 1) := by
  intro D p ec acc v p' hD hacc h
  rw [listLoop] at h
  split at h
  · rename_i p1 hr
    have hp1 := PSok_read hr
    by_cases c1 : p1.isChar 93 = true
    · rw [if_pos c1] at h
      simp only [Res.ok.injEq, Prod.mk.injEq] at h
      obtain ⟨rfl, rfl⟩ := h
      refine ⟨?_, ?_, hp1⟩
      · simp only [decV]; exact decVs_ofList acc (fun x hx => (hacc x hx).1)
      · simp only [nestV]
        have := nestVs_ofList_le (65 - D) acc (fun x hx => by have := (hacc x hx).2; omega)
        omega
    · rw [if_neg c1] at h
      by_cases c2 : ec = true
      · rw [if_pos c2] at h
        split at h
        · exact hLL D p1 false acc v p' hD hacc h
        · simp at h
      · rw [if_neg c2] at h
        split at h
        · rename_i w p2 hv
          obtain ⟨hw, _⟩ := hV D p1 w p2 hp1 hv
          split at h
          · simp at h
          · refine hLL D p2 true (acc ++ [w]) v p' hD ?_ h
            intro x hx
            rcases List.mem_append.mp hx with hx | hx
            · exact hacc x hx
            · simp only [List.mem_singleton] at hx; subst hx; exact hw
        all_goals simp at h
  all_goals simp at h

/-! ### `parse_dict`, `parse_dict_parts`, `parse_grid_column_meta` -/

theorem dict_step (f : Nat) (hDP : S_dictParts f) : S_coll parseDict (f + 1) := by
  intro D p v p' hD hp h
  rw [parseDict] at h
  split at h
  · simp at h
  · split at h
    · rename_i p1 hr
      split at h
      · rename_i kvs p2 hdp
        obtain ⟨hkv, hp2⟩ := hDP D p1 false [] kvs p2 hD (PSok_read hr) (by intro q hq; simp at hq) hdp
        split at h
        · simp only [Res.ok.injEq, Prod.mk.injEq] at h
          obtain ⟨rfl, rfl⟩ := h
          obtain ⟨a, b, c, d⟩ := dict_of_KV hD hkv
          exact ⟨by simp [decV, a, b, c], by simpa [nestV] using d, hp2⟩
        · simp at h
      all_goals simp at h
    all_goals simp at h

theorem dictParts_step (f : Nat) (hV : S_value f) (hDP : S_dictParts f) : S_dictParts (f + 1) := by
  intro D p ec acc kvs p' hD hp hacc h
  rw [dictParts] at h
  by_cases c1 : p.isEof = true
  · rw [if_pos c1] at h
    simp only [Res.ok.injEq, Prod.mk.injEq] at h
    obtain ⟨rfl, rfl⟩ := h
    exact ⟨hacc, hp⟩
  rw [if_neg c1] at h
  by_cases c2 : (ec && p.isChar 44) = true
  · rw [if_pos c2] at h
    split at h
    · rename_i p1 hr
      exact hDP D p1 false acc kvs p' hD (PSok_read hr) hacc h
    all_goals simp at h
  rw [if_neg c2] at h
  split at h
  · rename_i key hk
    have hkey : isIdent key = true := by
      have := hp
      unfold PSok at this
      rw [hk] at this
      exact this
    split at h
    · rename_i p1 hr
      have hp1 := PSok_read hr
      by_cases d1 : p1.isEof = true
      · rw [if_pos d1] at h
        simp only [Res.ok.injEq, Prod.mk.injEq] at h
        obtain ⟨rfl, rfl⟩ := h
        exact ⟨KV_snoc hacc hkey (ValOk_marker hD), hp1⟩
      rw [if_neg d1] at h
      by_cases d2 : p1.isChar 58 = true
      · rw [if_pos d2] at h
        split at h
        · rename_i p2 hr2
          split at h
          · rename_i w p3 hv
            obtain ⟨hw, _⟩ := hV D p2 w p3 (PSok_read hr2) hv
            split at h
            · rename_i p4 hr4
              exact hDP D p4 true _ kvs p' hD (PSok_read hr4) (KV_snoc hacc hkey hw) h
            all_goals simp at h
          all_goals simp at h
        all_goals simp at h
      · rw [if_neg d2] at h
        exact hDP D p1 true _ kvs p' hD hp1 (KV_snoc hacc hkey (ValOk_marker hD)) h
    all_goals simp at h
  · simp only [Res.ok.injEq, Prod.mk.injEq] at h
    obtain ⟨rfl, rfl⟩ := h
    exact ⟨hacc, hp⟩

theorem colMeta_step (f : Nat) (hV : S_value f) (hCM : S_colMeta f) : S_colMeta (f + 1) := by
  intro D p acc kvs p' hD hp hacc h
  rw [colMeta] at h
  by_cases c1 : p.isEof = true
  · rw [if_pos c1] at h
    simp only [Res.ok.injEq, Prod.mk.injEq] at h
    obtain ⟨rfl, rfl⟩ := h
    exact ⟨hacc, hp⟩
  rw [if_neg c1] at h
  by_cases c2 : p.isChar 44 = true
  · rw [if_pos c2] at h
    simp only [Res.ok.injEq, Prod.mk.injEq] at h
    obtain ⟨rfl, rfl⟩ := h
    exact ⟨hacc, hp⟩
  rw [if_neg c2] at h
  split at h
  · rename_i key hk
    have hkey : isIdent key = true := by
      have := hp
      unfold PSok at this
      rw [hk] at this
      exact this
    split at h
    · rename_i p1 hr
      have hp1 := PSok_read hr
      by_cases d1 : p1.isEof = true
      · rw [if_pos d1] at h
        simp only [Res.ok.injEq, Prod.mk.injEq] at h
        obtain ⟨rfl, rfl⟩ := h
        exact ⟨KV_snoc hacc hkey (ValOk_marker hD), hp1⟩
      rw [if_neg d1] at h
      by_cases d2 : p1.isChar 58 = true
      · rw [if_pos d2] at h
        split at h
        · rename_i p2 hr2
          split at h
          · rename_i w p3 hv
            obtain ⟨hw, _⟩ := hV D p2 w p3 (PSok_read hr2) hv
            split at h
            · rename_i p4 hr4
              exact hCM D p4 _ kvs p' hD (PSok_read hr4) (KV_snoc hacc hkey hw) h
            all_goals simp at h
          all_goals simp at h
        all_goals simp at h
      · rw [if_neg d2] at h
        exact hCM D p1 _ kvs p' hD hp1 (KV_snoc hacc hkey (ValOk_marker hD)) h
    all_goals simp at h
  · simp only [Res.ok.injEq, Prod.mk.injEq] at h
    obtain ⟨rfl, rfl⟩ := h
    exact ⟨hacc, hp⟩

end Hs.Zinc
