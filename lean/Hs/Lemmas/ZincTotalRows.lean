/-
  Hs.Lemmas.ZincTotalRows — C03: the lazy row iterator (`parse_grid_iterator`, `RowIterator::next`).
  Every successful row strictly decreases `RowState.K`, which starts below the input length; the
  fuel `fuelFor n` is enough for every call.
-/
import Hs.Lemmas.ZincTotalParse
namespace Hs
open Scan
namespace Zinc

/-- `parse_grid_iterator`: lexer start-up and grid header; the result carries the iterator state -/
def rowsStart (bs : List UInt8) : Res ((OTags × List (List Char × OTags) × List Char) × RowState) :=
  let fuel := fuelFor bs.length
  match lexRead fuel (Scan.make bs) with
  | .ok p => gridHeader fuel 0 p
  | .err => .err | .panic => .panic | .diverge => .diverge | .depth => .depth

/-- the outcome of the `(k+1)`-th call of `next()` on a fresh iterator in state `r` (calls stop at the
first `None` or `Err`, which is then the outcome of every later call) -/
def nextN (fuel : Nat) (cols : List (List Char)) : Nat → RowState → Res (Option Tags × RowState)
  | 0, r => rowNext fuel 0 r cols
  | k + 1, r =>
    match rowNext fuel 0 r cols with
    | .ok (some _, r1) => nextN fuel cols k r1
    | .ok (Option.none, r1) => .ok (Option.none, r1)
    | .err => .err | .panic => .panic | .diverge => .diverge | .depth => .depth

theorem rowsStart_spec (bs : List UInt8) :
    (rowsStart bs).Sat 1 0 (fun o => o.2.K + 1 ≤ bs.length) := by
  unfold rowsStart
  dsimp only
  have hm := mu_make bs
  have hf : fuelFor bs.length = 8 * bs.length + 64 := rfl
  split
  · next p heq =>
    have h1 := (PS.read_spec (fuelFor bs.length) ⟨Scan.make bs, .none⟩).post heq
    dsimp only at h1
    res_auto
  · exact Res.Sat.err_intro
  · next heq => exact ((lexRead_spec _ _).ne_panic heq).elim
  · next heq =>
    have := Res.Sat.of_eq (lexRead_spec _ _) heq
    simp only [Res.Sat_diverge] at this
    omega
  · next heq => exact ((lexRead_spec _ _).ne_depth heq).elim

theorem nextN_spec (n : Nat) (cols : List (List Char)) : ∀ k r, r.K ≤ n →
    (nextN (8 * n + 64) cols k r).Sat 1 0 (fun o => o.2.K + (if o.1.isSome then k + 1 else 0) ≤ r.K) := by
  intro k
  induction k with
  | zero =>
    intro r hr
    rw [nextN]
    have hb := PS.M_bounds r.p
    have hK := RowState.K_def r
    res_from (rowNext_spec (8 * n + 64) 0 r cols)
  | succ k ih =>
    intro r hr
    rw [nextN]
    have hb := PS.M_bounds r.p
    have hK := RowState.K_def r
    split
    · next row r1 heq =>
      have h1 := (rowNext_spec _ _ _ _).post heq
      simp only [Option.isSome_some, if_true] at h1
      res_from (ih r1 (by omega))
    · next r1 heq =>
      have h1 := (rowNext_spec _ _ _ _).post heq
      refine Res.Sat.ok_intro ?_
      simpa using h1
    · exact Res.Sat.err_intro
    · next heq => exact ((rowNext_spec _ _ _ _).ne_panic heq).elim
    · next heq =>
      have := Res.Sat.of_eq (rowNext_spec _ _ _ _) heq
      simp only [Res.Sat_diverge] at this
      split at hK <;> omega
    · next heq => exact ((rowNext_spec _ _ _ _).ne_depth heq).elim

end Zinc
end Hs
