/-
  Lemmas for C17: `Tags` with `tInsert` / `tRemove` is a finite map with strictly ascending keys.
-/
import Hs.Model.CApi
namespace Hs.CApi
open Hs

/-! ### the key order -/

theorem ltKey_irrefl : (a : List Char) → ltKey a a = false
  | [] => rfl
  | c :: cs => by simp [ltKey, ltKey_irrefl cs]

theorem char_eq_of_toNat {a b : Char} (h : a.toNat = b.toNat) : a = b := by
  have ha := Char.ofNat_toNat a
  have hb := Char.ofNat_toNat b
  rw [← ha, ← hb, h]

theorem ltKey_trans : (a b c : List Char) → ltKey a b = true → ltKey b c = true → ltKey a c = true
  | [], [], _, h, _ => by simp [ltKey] at h
  | [], _ :: _, [], _, h => by simp [ltKey] at h
  | [], _ :: _, _ :: _, _, _ => by simp [ltKey]
  | _ :: _, [], _, h, _ => by simp [ltKey] at h
  | _ :: _, _ :: _, [], _, h => by simp [ltKey] at h
  | x :: xs, y :: ys, z :: zs, h1, h2 => by
    simp only [ltKey] at h1 h2 ⊢
    by_cases hxy : x.toNat < y.toNat
    · by_cases hyz : y.toNat < z.toNat
      · have : x.toNat < z.toNat := Nat.lt_trans hxy hyz
        simp [this]
      · simp only [hyz, if_false] at h2
        by_cases hzy : z.toNat < y.toNat
        · simp [hzy] at h2
        · have : y.toNat = z.toNat := Nat.le_antisymm (Nat.le_of_not_lt hzy) (Nat.le_of_not_lt hyz)
          have : x.toNat < z.toNat := this ▸ hxy
          simp [this]
    · simp only [hxy, if_false] at h1
      by_cases hyx : y.toNat < x.toNat
      · simp [hyx] at h1
      · simp only [hyx, if_false] at h1
        have hxy' : x.toNat = y.toNat := Nat.le_antisymm (Nat.le_of_not_lt hyx) (Nat.le_of_not_lt hxy)
        by_cases hyz : y.toNat < z.toNat
        · have : x.toNat < z.toNat := hxy' ▸ hyz
          simp [this]
        · simp only [hyz, if_false] at h2
          by_cases hzy : z.toNat < y.toNat
          · simp [hzy] at h2
          · simp only [hzy, if_false] at h2
            have hxz : ¬ x.toNat < z.toNat := hxy' ▸ hyz
            have hzx : ¬ z.toNat < x.toNat := hxy' ▸ hzy
            simp only [hxz, hzx, if_false]
            exact ltKey_trans xs ys zs h1 h2

theorem ltKey_total : (a b : List Char) → ltKey a b = false → a ≠ b → ltKey b a = true
  | [], [], _, h => absurd rfl h
  | [], _ :: _, h, _ => by simp [ltKey] at h
  | _ :: _, [], _, _ => by simp [ltKey]
  | x :: xs, y :: ys, h1, h2 => by
    simp only [ltKey] at h1 ⊢
    by_cases hxy : x.toNat < y.toNat
    · simp [hxy] at h1
    · simp only [hxy, if_false] at h1
      by_cases hyx : y.toNat < x.toNat
      · simp [hyx]
      · simp only [hyx, if_false] at h1 ⊢
        have hxy' : x = y := char_eq_of_toNat (Nat.le_antisymm (Nat.le_of_not_lt hyx) (Nat.le_of_not_lt hxy))
        subst hxy'
        have : xs ≠ ys := fun e => h2 (by rw [e])
        simp only [Nat.lt_irrefl, if_false]
        exact ltKey_total xs ys h1 this

theorem ltKey_ne {a b : List Char} (h : ltKey a b = true) : a ≠ b := by
  intro e
  subst e
  rw [ltKey_irrefl] at h
  exact Bool.noConfusion h

/-! ### sorted maps -/

/-- `k` is below every key of `t` -/
def Below (k : List Char) : Tags → Prop
  | .nil => True
  | .cons k' _ t => ltKey k k' = true ∧ Below k t

/-- strictly ascending keys (the `BTreeMap` invariant) -/
def Sorted : Tags → Prop
  | .nil => True
  | .cons k _ t => Below k t ∧ Sorted t

theorem below_trans {a b : List Char} (h : ltKey a b = true) : (t : Tags) → Below b t → Below a t
  | .nil, _ => trivial
  | .cons k _ t, ⟨h1, h2⟩ => ⟨ltKey_trans a b k h h1, below_trans h t h2⟩

theorem get?_of_below {k : List Char} : (t : Tags) → Below k t → t.get? k = none
  | .nil, _ => rfl
  | .cons k' v t, ⟨h1, h2⟩ => by
    have : k' ≠ k := fun e => ltKey_ne h1 e.symm
    simp [Tags.get?, this, get?_of_below t h2]

theorem get?_tInsert (k : List Char) (v : Val) (q : List Char) :
    (t : Tags) → (tInsert t k v).get? q = if q = k then some v else t.get? q
  | .nil => by
    by_cases h : q = k
    · simp [tInsert, Tags.get?, h]
    · have : ¬ k = q := fun e => h e.symm
      simp [tInsert, Tags.get?, h, this]
  | .cons k' v' t => by
    by_cases hk : k = k'
    · subst hk
      by_cases h : q = k
      · simp [tInsert, Tags.get?, h]
      · have : ¬ k = q := fun e => h e.symm
        simp [tInsert, Tags.get?, h, this]
    · by_cases hl : ltKey k k' = true
      · by_cases h : q = k
        · simp [tInsert, Tags.get?, h, hk, hl]
        · have : ¬ k = q := fun e => h e.symm
          simp [tInsert, Tags.get?, h, hk, hl, this]
      · have ih := get?_tInsert k v q t
        by_cases h : q = k
        · subst h
          have : ¬ k' = q := fun e => hk e.symm
          simp [tInsert, Tags.get?, hk, hl, this, ih]
        · simp [tInsert, Tags.get?, hk, hl, ih, h]

theorem below_tInsert {a k : List Char} (v : Val) (hak : ltKey a k = true) :
    (t : Tags) → Below a t → Below a (tInsert t k v)
  | .nil, _ => ⟨hak, trivial⟩
  | .cons k' v' t, ⟨h1, h2⟩ => by
    by_cases hk : k = k'
    · subst hk
      simp only [tInsert, if_true]
      exact ⟨h1, h2⟩
    · by_cases hl : ltKey k k' = true
      · simp only [tInsert, hk, hl, if_true, if_false]
        exact ⟨hak, h1, h2⟩
      · simp only [tInsert, hk, hl, if_false]
        exact ⟨h1, below_tInsert v hak t h2⟩

theorem sorted_tInsert (k : List Char) (v : Val) : (t : Tags) → Sorted t → Sorted (tInsert t k v)
  | .nil, _ => ⟨trivial, trivial⟩
  | .cons k' v' t, ⟨h1, h2⟩ => by
    by_cases hk : k = k'
    · subst hk
      simp only [tInsert, if_true]
      exact ⟨h1, h2⟩
    · by_cases hl : ltKey k k' = true
      · simp only [tInsert, hk, hl, if_true, if_false]
        exact ⟨⟨hl, below_trans hl t h1⟩, h1, h2⟩
      · simp only [tInsert, hk, hl, if_false]
        have hgt : ltKey k' k = true := ltKey_total k k' (by simpa using hl) hk
        exact ⟨below_tInsert v hgt t h1, sorted_tInsert k v t h2⟩

theorem below_tRemove {a : List Char} (k : List Char) : (t : Tags) → Below a t → Below a (tRemove t k)
  | .nil, _ => trivial
  | .cons k' v' t, ⟨h1, h2⟩ => by
    by_cases hk : k = k'
    · simp only [tRemove, hk, if_true]
      exact h2
    · simp only [tRemove, hk, if_false]
      exact ⟨h1, below_tRemove k t h2⟩

theorem sorted_tRemove (k : List Char) : (t : Tags) → Sorted t → Sorted (tRemove t k)
  | .nil, _ => trivial
  | .cons k' v' t, ⟨h1, h2⟩ => by
    by_cases hk : k = k'
    · simp only [tRemove, hk, if_true]
      exact h2
    · simp only [tRemove, hk, if_false]
      exact ⟨below_tRemove k t h1, sorted_tRemove k t h2⟩

theorem get?_tRemove (k q : List Char) :
    (t : Tags) → Sorted t → (tRemove t k).get? q = if q = k then none else t.get? q
  | .nil, _ => by simp [tRemove, Tags.get?]
  | .cons k' v' t, ⟨h1, h2⟩ => by
    by_cases hk : k = k'
    · subst hk
      by_cases h : q = k
      · subst h
        simp [tRemove, get?_of_below t h1]
      · have : ¬ k = q := fun e => h e.symm
        simp [tRemove, Tags.get?, h, this]
    · have ih := get?_tRemove k q t h2
      by_cases h : q = k
      · subst h
        have : ¬ k' = q := fun e => hk e.symm
        simp [tRemove, Tags.get?, hk, this, ih]
      · simp [tRemove, Tags.get?, hk, ih, h]

/-! ### keys -/

theorem mem_keys_iff (q : List Char) : (t : Tags) → (q ∈ t.keys ↔ (t.get? q).isSome = true)
  | .nil => by simp [Tags.keys, Tags.get?]
  | .cons k v t => by
    by_cases h : k = q
    · simp [Tags.keys, Tags.get?, h]
    · have : ¬ q = k := fun e => h e.symm
      simp [Tags.keys, Tags.get?, h, this, mem_keys_iff q t]

theorem length_keys : (t : Tags) → t.keys.length = t.length
  | .nil => rfl
  | .cons _ _ t => by simp [Tags.keys, Tags.length, length_keys t]

/-- strictly ascending list of keys -/
def Asc : List (List Char) → Prop
  | [] => True
  | k :: ks => (∀ x ∈ ks, ltKey k x = true) ∧ Asc ks

theorem below_iff_keys {a : List Char} : (t : Tags) → (Below a t ↔ ∀ x ∈ t.keys, ltKey a x = true)
  | .nil => by simp [Below, Tags.keys]
  | .cons k v t => by simp [Below, Tags.keys, below_iff_keys t]

theorem asc_keys : (t : Tags) → Sorted t → Asc t.keys
  | .nil, _ => trivial
  | .cons _ _ t, ⟨h1, h2⟩ => ⟨(below_iff_keys t).mp h1, asc_keys t h2⟩

theorem toList_keysList : (t : Tags) → (keysList t).toList = t.keys.map Val.str
  | .nil => rfl
  | .cons k v t => by simp [keysList, Vals.toList, Tags.keys, toList_keysList t]

/-! ### columns of a grid built from rows -/

theorem mem_insertName (q k : List Char) : (l : List (List Char)) → (q ∈ insertName l k ↔ q = k ∨ q ∈ l)
  | [] => by simp [insertName]
  | k' :: t => by
    by_cases hk : k = k'
    · subst hk
      simp [insertName]
    · cases hl : ltKey k k' with
      | true => simp [insertName, hk, hl]
      | false =>
        have ih := mem_insertName q k t
        simp [insertName, hk, hl, ih]
        exact or_left_comm

theorem asc_insertName (k : List Char) : (l : List (List Char)) → Asc l → Asc (insertName l k)
  | [], _ => ⟨by simp, trivial⟩
  | k' :: t, ⟨h1, h2⟩ => by
    by_cases hk : k = k'
    · subst hk
      simp only [insertName, if_true]
      exact ⟨h1, h2⟩
    · cases hl : ltKey k k' with
      | true =>
        simp only [insertName, hk, hl, if_true, if_false]
        refine ⟨?_, h1, h2⟩
        intro x hx
        rcases List.mem_cons.mp hx with hx | hx
        · rw [hx]; exact hl
        · exact ltKey_trans k k' x hl (h1 x hx)
      | false =>
        simp only [insertName, hk, hl, if_false, Bool.false_eq_true]
        have hgt : ltKey k' k = true := ltKey_total k k' hl hk
        refine ⟨?_, asc_insertName k t h2⟩
        intro x hx
        rcases (mem_insertName x k t).mp hx with hx | hx
        · rw [hx]; exact hgt
        · exact h1 x hx

theorem foldl_insertName (ks : List (List Char)) :
    ∀ acc : List (List Char), Asc acc →
      Asc (ks.foldl insertName acc) ∧ ∀ q, q ∈ ks.foldl insertName acc ↔ q ∈ acc ∨ q ∈ ks := by
  induction ks with
  | nil => intro acc h; exact ⟨h, by simp⟩
  | cons k ks ih =>
    intro acc h
    obtain ⟨h1, h2⟩ := ih (insertName acc k) (asc_insertName k acc h)
    refine ⟨h1, fun q => ?_⟩
    rw [List.foldl_cons, h2 q, mem_insertName]
    simp only [List.mem_cons]
    constructor
    · intro hx
      rcases hx with (hx | hx) | hx
      · exact .inr (.inl hx)
      · exact .inl hx
      · exact .inr (.inr hx)
    · intro hx
      rcases hx with hx | hx | hx
      · exact .inl (.inr hx)
      · exact .inl (.inl hx)
      · exact .inr hx

theorem unionKeys_spec_aux (rows : List Tags) :
    ∀ acc : List (List Char), Asc acc →
      Asc (rows.foldl (fun acc r => r.keys.foldl insertName acc) acc) ∧
      ∀ q, q ∈ rows.foldl (fun acc r => r.keys.foldl insertName acc) acc ↔ q ∈ acc ∨ ∃ r ∈ rows, q ∈ r.keys := by
  induction rows with
  | nil => intro acc h; exact ⟨h, by simp⟩
  | cons r rows ih =>
    intro acc h
    obtain ⟨a1, a2⟩ := foldl_insertName r.keys acc h
    obtain ⟨h1, h2⟩ := ih _ a1
    refine ⟨h1, fun q => ?_⟩
    rw [List.foldl_cons, h2 q, a2 q]
    constructor
    · intro hx
      rcases hx with (hx | hx) | ⟨r', hr', hq⟩
      · exact .inl hx
      · exact .inr ⟨r, List.mem_cons_self, hx⟩
      · exact .inr ⟨r', List.mem_cons_of_mem _ hr', hq⟩
    · intro hx
      rcases hx with hx | ⟨r', hr', hq⟩
      · exact .inl (.inl hx)
      · rcases List.mem_cons.mp hr' with e | e
        · subst e; exact .inl (.inr hq)
        · exact .inr ⟨r', e, hq⟩

/-- the columns of `Grid::make_from_dicts`: ascending, duplicate free, exactly the keys of the rows -/
theorem unionKeys_spec (rows : List Tags) :
    Asc (unionKeys rows) ∧ ∀ q, q ∈ unionKeys rows ↔ ∃ r ∈ rows, q ∈ r.keys := by
  obtain ⟨h1, h2⟩ := unionKeys_spec_aux rows [] trivial
  exact ⟨h1, fun q => by rw [unionKeys, h2 q]; simp⟩

theorem names_colsOfNames : (ns : List (List Char)) → (colsOfNames ns).names = ns
  | [] => rfl
  | n :: ns => by simp [colsOfNames, Cols.names, names_colsOfNames ns]

theorem rGet?_ofList : (l : List Tags) → (i : Nat) → rGet? (Rows.ofList l) i = l[i]?
  | [], _ => by simp [Rows.ofList, rGet?]
  | r :: rs, 0 => by simp [Rows.ofList, rGet?]
  | r :: rs, i + 1 => by simp [Rows.ofList, rGet?, rGet?_ofList rs i]

theorem length_rows_ofList : (l : List Tags) → (Rows.ofList l).length = l.length
  | [] => rfl
  | r :: rs => by simp [Rows.ofList, Rows.length, length_rows_ofList rs]

end Hs.CApi
