/-
  Hs.Lemmas.ZincTotalScan — C03 (totality of the Zinc decoder): the scanner measure `Scan.mu`
  ("bytes not yet consumed, counting the current one while `eof` is false") and how every scanner
  primitive changes it.
-/
import Hs.Model.Scan
namespace Hs
namespace Scan

/-- bytes still to be consumed: stash + unread input + the current byte (while `eof` is false) -/
def mu (s : Scan) : Nat := s.remaining + (if s.eof then 0 else 1)

theorem mu_le_remaining (s : Scan) : s.mu ≤ s.remaining + 1 := by
  unfold mu; split <;> omega

theorem remaining_le_mu (s : Scan) : s.remaining ≤ s.mu := by
  unfold mu; omega

theorem mu_eof {s : Scan} (h : s.eof = true) : s.mu = s.remaining := by
  simp [mu, h]

theorem mu_not_eof {s : Scan} (h : s.eof = false) : s.mu = s.remaining + 1 := by
  simp [mu, h]

theorem mu_make (bs : List UInt8) : (Scan.make bs).mu = bs.length := by
  cases bs <;> simp [make, mu, remaining]

/-! ### `read` -/

theorem read_some {s s' : Scan} {b : UInt8} (h : s.read = (some b, s')) :
    s'.remaining + 1 = s.remaining ∧ s'.eof = s.eof ∧ s'.cur = b := by
  obtain ⟨cur, stash, lp, eof, inp, pos⟩ := s
  cases stash with
  | cons b' r =>
    simp only [read, Prod.mk.injEq, Option.some.injEq] at h
    obtain ⟨rfl, rfl⟩ := h
    simp [remaining]; omega
  | nil =>
    cases inp with
    | nil => simp [read, readByte] at h
    | cons b' r =>
      simp only [read, readByte, Prod.mk.injEq, Option.some.injEq] at h
      obtain ⟨rfl, rfl⟩ := h
      simp [remaining]

theorem read_none {s s' : Scan} (h : s.read = (none, s')) :
    s'.remaining = s.remaining ∧ s'.eof = true ∧ s'.cur = s.cur ∧ s.remaining = 0 := by
  obtain ⟨cur, stash, lp, eof, inp, pos⟩ := s
  cases stash with
  | cons b' r => simp [read] at h
  | nil =>
    cases inp with
    | nil =>
      simp only [read, readByte, Prod.mk.injEq, true_and] at h
      subst h
      simp [remaining]
    | cons b' r => simp [read, readByte] at h

theorem read_mu_some {s s' : Scan} {b : UInt8} (h : s.read = (some b, s')) : s'.mu < s.mu := by
  have := read_some h
  unfold mu; rw [this.2.1]; omega

theorem read_mu_none {s s' : Scan} (h : s.read = (none, s')) :
    s'.mu ≤ s.mu ∧ (s.eof = false → s'.mu < s.mu) ∧ s'.eof = true := by
  have := read_none h
  unfold mu; rw [this.2.1]
  refine ⟨by simp; omega, ?_, rfl⟩
  intro he; simp [he]; omega

theorem read_mu {s s' : Scan} {o : Option UInt8} (h : s.read = (o, s')) :
    s'.mu ≤ s.mu ∧ (s.eof = false → s'.mu < s.mu) := by
  cases o with
  | none => exact ⟨(read_mu_none h).1, (read_mu_none h).2.1⟩
  | some b => exact ⟨Nat.le_of_lt (read_mu_some h), fun _ => read_mu_some h⟩

theorem advance_mu (s : Scan) : s.advance.mu ≤ s.mu :=
  (read_mu (s := s) (o := s.read.1) (s' := s.read.2) rfl).1

theorem advance_mu_lt {s : Scan} (h : s.eof = false) : s.advance.mu < s.mu :=
  (read_mu (s := s) (o := s.read.1) (s' := s.read.2) rfl).2 h

theorem readQ_mu {s s' : Scan} (h : s.readQ = .ok s') : s'.mu < s.mu := by
  unfold readQ at h
  split at h
  · next b s1 hr => cases h; exact read_mu_some hr
  · cases h

theorem readQ_eof {s s' : Scan} (h : s.readQ = .ok s') : s'.eof = s.eof := by
  unfold readQ at h
  split at h
  · next b s1 hr => cases h; exact (read_some hr).2.1
  · cases h

/-! ### `peek` -/

theorem peek_some {s s' : Scan} {b : UInt8} (h : s.peek = (some b, s')) :
    s'.remaining = s.remaining ∧ s'.eof = s.eof ∧ s'.cur = s.cur := by
  obtain ⟨cur, stash, lp, eof, inp, pos⟩ := s
  cases inp with
  | nil => simp [peek, readByte] at h
  | cons b' r =>
    simp only [peek, readByte, Prod.mk.injEq, Option.some.injEq] at h
    obtain ⟨rfl, rfl⟩ := h
    simp [remaining]; omega

theorem peek_none {s s' : Scan} (h : s.peek = (none, s')) :
    s'.remaining = s.remaining ∧ s'.eof = true ∧ s'.cur = s.cur := by
  obtain ⟨cur, stash, lp, eof, inp, pos⟩ := s
  cases inp with
  | nil =>
    simp only [peek, readByte, Prod.mk.injEq, true_and] at h
    subst h
    simp [remaining]
  | cons b' r => simp [peek, readByte] at h

theorem peek_mu_some {s s' : Scan} {b : UInt8} (h : s.peek = (some b, s')) : s'.mu = s.mu := by
  have := peek_some h
  unfold mu; rw [this.1, this.2.1]

theorem peek_mu {s s' : Scan} {o : Option UInt8} (h : s.peek = (o, s')) : s'.mu ≤ s.mu := by
  cases o with
  | some b => exact Nat.le_of_eq (peek_mu_some h)
  | none =>
    have := peek_none h
    unfold mu; rw [this.1, this.2.1]; simp

end Scan
end Hs
