/-
  Hs.Lemmas.HaysonGrid — `parse_grid` on the entries the visitor collects for a grid object, the
  `toList`/`ofList` views of the hand-rolled lists, arrays.
-/
import Hs.Lemmas.HaysonVisit
namespace Hs.Hayson
open Hs

/-! ### views -/

theorem Tags.ofList_toList : ∀ t : Tags, Tags.ofList t.toList = t
  | .nil => rfl
  | .cons k v t => by simp [Tags.toList, Tags.ofList, Tags.ofList_toList t]

theorem Tags.toList_ofList : ∀ l : List (List Char × Val), (Tags.ofList l).toList = l
  | [] => rfl
  | (k, v) :: l => by simp [Tags.toList, Tags.ofList, Tags.toList_ofList l]

theorem Tags.keys_eq : ∀ t : Tags, t.keys = t.toList.map (·.1)
  | .nil => rfl
  | .cons k v t => by simp [Tags.toList, Tags.keys, Tags.keys_eq t]

theorem Vals.ofList_toList : ∀ t : Vals, Vals.ofList t.toList = t
  | .nil => rfl
  | .cons v t => by simp [Vals.toList, Vals.ofList, Vals.ofList_toList t]

theorem Vals.toList_ofList : ∀ l : List Val, (Vals.ofList l).toList = l
  | [] => rfl
  | v :: l => by simp [Vals.toList, Vals.ofList, Vals.toList_ofList l]

theorem Cols.ofList_toList : ∀ t : Cols, Cols.ofList t.toList = t
  | .nil => rfl
  | .cons n md t => by simp [Cols.toList, Cols.ofList, Cols.ofList_toList t]

theorem Rows.ofList_toList : ∀ t : Rows, Rows.ofList t.toList = t
  | .nil => rfl
  | .cons r t => by simp [Rows.toList, Rows.ofList, Rows.ofList_toList t]

/-! ### arrays -/

theorem fromJson_arr (xs : Jsons) (vs : List Val) (h : seq xs = .ok vs) :
    fromJson (.arr xs) = .ok (.list (Vals.ofList vs)) := by
  simp [fromJson, h]

theorem seq_cons (j : Json) (js : Jsons) (v : Val) (vs : List Val)
    (h1 : fromJson j = .ok v) (h2 : seq js = .ok vs) : seq (.cons j js) = .ok (v :: vs) := by
  simp [seq, h1, h2]

/-! ### columns and rows as `parse_grid` sees them -/

/-- the dict a column object decodes to: `{meta?, name}` (key order) -/
def colVal (p : List Char × OTags) : Val :=
  match p.2 with
  | .some m => .dict (.cons (s "meta") (.dict m) (.cons (s "name") (.str p.1) .nil))
  | .none => .dict (.cons (s "name") (.str p.1) .nil)

theorem colOf_colVal (p : List Char × OTags) : colOf (colVal p) = some p := by
  obtain ⟨n, md⟩ := p
  cases md <;> simp [colVal, colOf, Tags.toList, getStr, getTag, s]

theorem mapM_colOf : ∀ cs : List (List Char × OTags), (cs.map colVal).mapM colOf = some cs
  | [] => rfl
  | c :: cs => by
    simp [List.mapM_cons, colOf_colVal, mapM_colOf cs]

theorem valsOfDicts_map : ∀ rs : List Tags, valsOfDicts (rs.map Val.dict) = some rs
  | [] => rfl
  | r :: rs => by
    have ih := valsOfDicts_map rs
    simp only [valsOfDicts] at ih ⊢
    simp [List.mapM_cons, ih]

/-- a column object `{"name": n}` / `{"name": n, "meta": {…}}` whose meta decodes to the dict `m` -/
theorem fromJson_col_none (n : List Char) :
    fromJson (.obj (.cons (s "name") (.str n) .nil)) = .ok (colVal (n, .none)) := by
  simp [fromJson, visitMap, s, insertTag, finish, colVal, Tags.ofList]

theorem fromJson_col_some (n : List Char) (jm : Json) (m : Tags) (h : fromJson jm = .ok (.dict m)) :
    fromJson (.obj (.cons (s "name") (.str n) (.cons (s "meta") jm .nil))) = .ok (colVal (n, .some m)) := by
  simp [fromJson, visitMap, h, s, insertTag, finish, colVal, Tags.ofList, leChars]

/-! ### the grid object -/

theorem getStr_none_of_not_mem (l : List (List Char × Val)) (k : String)
    (h : ∀ p ∈ l, p.1 ≠ s k) : getStr l k = none := by
  have : l.find? (fun p => p.1 == s k) = none := by
    rw [List.find?_eq_none]
    intro p hp
    simpa using h p hp
  simp [getStr, getTag, this]

theorem removeTag_of_not_mem (l : List (List Char × Val)) (k : String)
    (h : ∀ p ∈ l, p.1 ≠ s k) : removeTag l k = l := by
  unfold removeTag
  rw [List.filter_eq_self]
  intro p hp
  simpa using h p hp

/-- `parse_grid` on the collected entries `cols`, `meta`, `rows` (key order) -/
theorem finish_grid (m : Tags) (cs : List (List Char × OTags)) (rs : List Tags)
    (hver : ∀ p ∈ m.toList, p.1 ≠ s "ver") :
    finish (s "grid")
      [(s "cols", .list (Vals.ofList (cs.map colVal))), (s "meta", .dict m),
       (s "rows", .list (Vals.ofList (rs.map Val.dict)))]
      = .ok (.grid (.some m) (Cols.ofList cs) (Rows.ofList rs) (s "3.0")) := by
  have h1 := getStr_none_of_not_mem m.toList "ver" hver
  have h2 := removeTag_of_not_mem m.toList "ver" hver
  have e1 : (s "grid" == s "number") = false := by decide
  have e2 : (s "grid" == s "ref") = false := by decide
  have e3 : (s "grid" == s "symbol") = false := by decide
  have e4 : (s "grid" == s "uri") = false := by decide
  have e5 : (s "grid" == s "date") = false := by decide
  have e6 : (s "grid" == s "time") = false := by decide
  have e7 : (s "grid" == s "dateTime") = false := by decide
  have e8 : (s "grid" == s "coord") = false := by decide
  have e9 : (s "grid" == s "xstr") = false := by decide
  have g1 : getTag [(s "cols", Val.list (Vals.ofList (cs.map colVal))), (s "meta", .dict m),
       (s "rows", .list (Vals.ofList (rs.map Val.dict)))] "rows" = some (.list (Vals.ofList (rs.map Val.dict))) := by
    simp [getTag, s]
  have g2 : getTag [(s "cols", Val.list (Vals.ofList (cs.map colVal))), (s "meta", .dict m),
       (s "rows", .list (Vals.ofList (rs.map Val.dict)))] "cols" = some (.list (Vals.ofList (cs.map colVal))) := by
    simp [getTag, s]
  have g3 : getTag [(s "cols", Val.list (Vals.ofList (cs.map colVal))), (s "meta", .dict m),
       (s "rows", .list (Vals.ofList (rs.map Val.dict)))] "meta" = some (.dict m) := by
    simp [getTag, s]
  unfold finish
  simp only [e1, e2, e3, e4, e5, e6, e7, e8, e9, g1, g2, g3, h1, h2, Vals.toList_ofList,
    mapM_colOf, valsOfDicts_map, Tags.ofList_toList]
  simp

/-- the visitor on `{"_kind":"grid","meta":…,"cols":…,"rows":…}` (the encoder's member order) -/
theorem fromJson_gridObj (jm jc jr : Json) (vm vc vr : Val)
    (hm : fromJson jm = .ok vm) (hc : fromJson jc = .ok vc) (hr : fromJson jr = .ok vr) :
    fromJson (kindObj "grid" (.cons (s "meta") jm (.cons (s "cols") jc (.cons (s "rows") jr .nil))))
      = finish (s "grid") [(s "cols", vc), (s "meta", vm), (s "rows", vr)] := by
  simp [kindObj, fromJson, visitMap, hm, hc, hr, s, knownKinds, insertTag, leChars]

end Hs.Hayson
