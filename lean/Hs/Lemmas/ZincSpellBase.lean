/-
  C04 read direction, groundwork: what may follow a value in a sentence of the grammar (`DelimW`), the token
  and value framing statements for an arbitrary spelling (`TokW`, `RdB`), and the lexer on leading blanks,
  punctuation, identifiers and line endings.
-/
import Hs.Spec.ZincSpell
import Hs.Lemmas.ZincRtVal
import Hs.Lemmas.ZincRtNum
namespace Hs.Zinc
open Hs Hs.Scan Hs.Spell

/-! ### what follows a value -/

/-- `,` `]` `}` LF CR -/
def isEndB (b : UInt8) : Bool := b == 44 || b == 93 || b == 125 || b == 10 || b == 13

/-- what may follow a value in a sentence: nothing; `,` `]` `}` or a line ending; or a blank followed by a
blank, by one of these, or by the lower-case first letter of a tag name -/
def DelimW (rest : List UInt8) : Prop :=
  rest = [] ∨ (∃ b r, rest = b :: r ∧ isEndB b = true) ∨
    (∃ w x r, rest = w :: x :: r ∧ (w = 32 ∨ w = 9) ∧ (x = 32 ∨ x = 9 ∨ isEndB x = true ∨ isLowerB x = true))

theorem Delim.toW {rest : List UInt8} (h : Delim rest) : DelimW rest := by
  rcases h with rfl | ⟨b, r, rfl, hb⟩ | ⟨x, r, rfl, hx⟩
  · exact Or.inl rfl
  · right; left; refine ⟨b, r, rfl, ?_⟩
    rcases hb with rfl | rfl | rfl | rfl <;> decide
  · right; right; exact ⟨32, x, r, rfl, Or.inl rfl, Or.inr (Or.inr (Or.inr hx))⟩

theorem DelimW.stop {P : UInt8 → Bool} {rest : List UInt8} (h : DelimW rest)
    (hP : P 44 = false ∧ P 93 = false ∧ P 125 = false ∧ P 10 = false ∧ P 13 = false ∧ P 32 = false ∧ P 9 = false) :
    Stop P rest := by
  rcases h with rfl | ⟨b, r, rfl, hb⟩ | ⟨w, x, r, rfl, hw, _⟩
  · exact Stop_nil _
  · simp only [isEndB, Bool.or_eq_true, beq_iff_eq] at hb
    rcases hb with (((rfl | rfl) | rfl) | rfl) | rfl
    · exact Stop_cons hP.1
    · exact Stop_cons hP.2.1
    · exact Stop_cons hP.2.2.1
    · exact Stop_cons hP.2.2.2.1
    · exact Stop_cons hP.2.2.2.2.1
  · rcases hw with rfl | rfl
    · exact Stop_cons hP.2.2.2.2.2.1
    · exact Stop_cons hP.2.2.2.2.2.2

theorem DelimW.stop_ref {rest : List UInt8} (h : DelimW rest) : Stop isRefB rest := h.stop (by decide)
theorem DelimW.stop_lit {rest : List UInt8} (h : DelimW rest) : Stop isLitB rest := h.stop (by decide)
theorem DelimW.stop_digit {rest : List UInt8} (h : DelimW rest) : Stop isDigitB rest := h.stop (by decide)

theorem isEndB_cases {b : UInt8} (h : isEndB b = true) : b = 44 ∨ b = 93 ∨ b = 125 ∨ b = 10 ∨ b = 13 := by
  simp only [isEndB, Bool.or_eq_true, beq_iff_eq] at h
  rcases h with (((h | h) | h) | h) | h <;> simp [h]

theorem DelimW.refEnd {rest : List UInt8} (h : DelimW rest) : RefEnd rest := by
  rcases h with rfl | ⟨b, r, rfl, hb⟩ | ⟨w, x, r, rfl, hw, hx⟩
  · exact Or.inl rfl
  · right; left
    refine ⟨b, r, rfl, ?_⟩
    rcases isEndB_cases hb with rfl | rfl | rfl | rfl | rfl <;> decide
  · rcases hw with rfl | rfl
    · right; right
      refine ⟨x, r, rfl, ?_⟩
      intro e; subst e
      rcases hx with hx | hx | hx | hx <;> revert hx <;> decide
    · right; left
      exact ⟨9, x :: r, rfl, by decide⟩

/-- the head of `rest` is not `(` -/
theorem DelimW.not_paren {rest : List UInt8} (h : DelimW rest) : ∀ r, rest ≠ 40 :: r := by
  intro r e
  rcases h with rfl | ⟨b, r', rfl, hb⟩ | ⟨w, x, r', rfl, hw, _⟩
  · cases e
  · cases e; revert hb; decide
  · cases e; rcases hw with hw | hw <;> cases hw

/-- the head of `rest` is not the byte `c` (for a byte that is neither an end byte nor a blank) -/
theorem DelimW.head_ne {rest : List UInt8} (h : DelimW rest) (c : UInt8) (hc : isEndB c = false ∧ c ≠ 32 ∧ c ≠ 9) :
    ∀ r, rest ≠ c :: r := by
  intro r e
  rcases h with rfl | ⟨b, r', rfl, hb⟩ | ⟨w, x, r', rfl, hw, _⟩
  · cases e
  · cases e; rw [hc.1] at hb; cases hb
  · cases e; rcases hw with hw | hw
    · exact hc.2.1 hw
    · exact hc.2.2 hw

/-! ### framing statements for an arbitrary text -/

/-- the lexer returns the token `img` for the text `bs`, whatever legal text follows -/
def TokW (bs : List UInt8) (img : Val) : Prop :=
  ∀ (s : Scan) (rest : List UInt8) (fuel : Nat), At s (bs ++ rest) → s.stash = [] → DelimW rest →
    bs.length + 3 ≤ fuel → ∃ s', lexRead fuel s = .ok { sc := s', tok := .val img } ∧ Post s' rest

/-- framing statement for the text `bs` of a value with image `img` and nesting `n` -/
def RdB (bs : List UInt8) (img : Val) (n : Nat) : Prop :=
  ∀ (depth f1 f2 : Nat) (s : Scan) (rest : List UInt8), At s (bs ++ rest) → s.stash = [] → DelimW rest →
    4 * bs.length + 8 ≤ f1 → 4 * bs.length + 8 ≤ f2 → depth + n < 64 →
    ∃ p p', lexRead f1 s = .ok p ∧ (rest ≠ [] → p.sc.eof = false) ∧ Starts p ∧
      parseValue f2 depth p = .ok (img, p') ∧ Post p'.sc rest

theorem RdB_of_TokW {bs : List UInt8} {img : Val} (h : TokW bs img) : RdB bs img 0 := by
  intro depth f1 f2 s rest hat hs hd hf1 hf2 hn
  obtain ⟨s', e, hp⟩ := h s rest f1 hat hs hd (by omega)
  obtain ⟨f, rfl⟩ : ∃ f, f2 = f + 1 := ⟨f2 - 1, by omega⟩
  refine ⟨_, _, e, ?_, trivial, parseValue_val f depth (by omega) s' _, hp⟩
  intro hne
  cases rest with
  | nil => exact absurd rfl hne
  | cons b r => exact hp.1.eof

/-- first byte of a text: it exists and is neither a blank nor a line ending byte -/
def FirstW (bs : List UInt8) : Prop := ∃ b r, bs = b :: r ∧ b ≠ 32 ∧ b ≠ 9 ∧ b ≠ 13 ∧ b ≠ 10

/-! ### blanks -/

theorem Blanks.nil : Blanks [] := by intro b hb; cases hb
theorem Blanks.tail {b : UInt8} {ws : List UInt8} (h : Blanks (b :: ws)) : Blanks ws :=
  fun x hx => h x (by simp [hx])
theorem Blanks.head {b : UInt8} {ws : List UInt8} (h : Blanks (b :: ws)) : b = 32 ∨ b = 9 := h b (by simp)

theorem consumeSpaces_blanks (ws : List UInt8) (hws : Blanks ws) :
    ∀ (s : Scan) (b : UInt8) (r : List UInt8) (fuel : Nat), At s (ws ++ b :: r) → b ≠ 32 → b ≠ 9 →
    ws.length < fuel → Scan.consumeSpaces fuel s = .ok (advN ws.length s) := by
  induction ws with
  | nil =>
    intro s b r fuel h h1 h2 hf
    obtain ⟨f, rfl⟩ : ∃ f, fuel = f + 1 := ⟨fuel - 1, by omega⟩
    simp only [List.nil_append] at h
    rw [consumeSpaces_none (isSpace_of_cur h.cur h1 h2)]; rfl
  | cons w ws ih =>
    intro s b r fuel h h1 h2 hf
    obtain ⟨f, rfl⟩ : ∃ f, fuel = f + 1 := ⟨fuel - 1, by omega⟩
    simp only [List.cons_append] at h
    have hsp : s.isSpace = true := by
      unfold Scan.isSpace; rw [h.cur]
      rcases Blanks.head hws with rfl | rfl <;> rfl
    obtain ⟨x, r', hx⟩ : ∃ x r', ws ++ b :: r = x :: r' := by
      cases hx : ws ++ b :: r with
      | nil => simp at hx
      | cons x r' => exact ⟨x, r', rfl⟩
    have hrd : s.read = (some x, s.advance) := by rw [hx] at h; exact h.read
    rw [Scan.consumeSpaces]
    simp only [hsp, Bool.not_true, Bool.false_eq_true, if_false, hrd]
    rw [ih (Blanks.tail hws) s.advance b r f h.advance h1 h2 (by simpa using hf)]
    rfl

/-- leading blanks are skipped by the lexer; at most one unit of fuel is used for all of them -/
theorem lexRead_skip (ws : List UInt8) (hws : Blanks ws) (s : Scan) (b : UInt8) (r : List UInt8)
    (h : At s (ws ++ b :: r)) (h1 : b ≠ 32) (h2 : b ≠ 9) (hs : s.stash.length ≤ 1) (hs0 : ws = [] → s.stash = [])
    (fuel : Nat) (hf : ws.length + 1 ≤ fuel) :
    ∃ s' f', At s' (b :: r) ∧ s'.stash = [] ∧ fuel ≤ f' + 1 ∧ f' ≤ fuel ∧ lexRead (fuel + 1) s = lexRead (f' + 1) s' := by
  cases ws with
  | nil => exact ⟨s, fuel, by simpa using h, hs0 rfl, by omega, Nat.le_refl _, rfl⟩
  | cons w ws' =>
    obtain ⟨f, rfl⟩ : ∃ f, fuel = f + 1 := ⟨fuel - 1, by omega⟩
    have hat := h
    simp only [List.cons_append] at hat
    have hcs := consumeSpaces_blanks (w :: ws') hws s b r (f + 2) h h1 h2 (by simp at hf ⊢; omega)
    have hst : (advN (w :: ws').length s).stash = [] := by
      rw [advN_stash]; apply List.drop_eq_nil_of_le; simp; omega
    refine ⟨advN (w :: ws').length s, f, h.advN, hst, by omega, by omega, ?_⟩
    rw [lexRead]
    have hc : (s.cur == 32 || s.cur == 9) = true := by
      rw [hat.cur]; rcases Blanks.head hws with rfl | rfl <;> rfl
    simp only [hat.eof, Bool.false_eq_true, if_false, hc, if_true, hcs]

/-! ### punctuation, identifiers and line endings after blanks -/

/-- a punctuation byte other than CR, after blanks -/
theorem lexRead_specialW (ws : List UInt8) (hws : Blanks ws) (s : Scan) (c : UInt8) (rest : List UInt8)
    (h : At s (ws ++ c :: rest)) (hc : isSpecial c = true) (h13 : c ≠ 13) (hs : s.stash.length ≤ 1)
    (hs0 : ws = [] → s.stash = []) (fuel : Nat) (hf : ws.length + 2 ≤ fuel) :
    ∃ s', lexRead fuel s = .ok { sc := s', tok := .ch c } ∧ At s' rest ∧ s'.stash = [] := by
  obtain ⟨f, rfl⟩ : ∃ f, fuel = f + 1 := ⟨fuel - 1, by omega⟩
  have hc32 : c ≠ 32 := by intro e; subst e; revert hc; decide
  have hc9 : c ≠ 9 := by intro e; subst e; revert hc; decide
  obtain ⟨s', f', hat', hst', _, _, e⟩ := lexRead_skip ws hws s c rest h hc32 hc9 hs hs0 f (by omega)
  refine ⟨s'.advance, ?_, hat'.advance, by rw [At.advance_stash, hst']; rfl⟩
  rw [e, lexRead_special hat' hc h13 f']

/-- an identifier after blanks -/
theorem lexRead_idW (ws : List UInt8) (hws : Blanks ws) (cs : List Char) (hcs : isIdent cs = true)
    (s : Scan) (rest : List UInt8) (h : At s (ws ++ (encChars cs ++ rest))) (hst : Stop isLitB rest)
    (hs : s.stash.length ≤ 1) (hs0 : ws = [] → s.stash = []) (fuel : Nat) (hf : ws.length + cs.length + 3 ≤ fuel) :
    ∃ s', lexRead fuel s = .ok { sc := s', tok := .id cs } ∧ At s' rest ∧ s'.stash = [] := by
  obtain ⟨f, rfl⟩ : ∃ f, fuel = f + 1 := ⟨fuel - 1, by omega⟩
  obtain ⟨b, r, ek, hb⟩ : ∃ b r, encChars cs = b :: r ∧ isLowerB b = true := by
    cases cs with
    | nil => simp [isIdent] at hcs
    | cons c r =>
      have hcs' := hcs
      simp only [isIdent, Bool.and_eq_true, decide_eq_true_eq] at hcs'
      exact ⟨byteOf c, encChars r, by rw [encChars_cons, encChar_ascii c hcs'.1.1]; rfl, hcs'.1.2⟩
  have hb32 : b ≠ 32 := by intro e; subst e; revert hb; decide
  have hb9 : b ≠ 9 := by intro e; subst e; revert hb; decide
  have h' : At s (ws ++ b :: (r ++ rest)) := by rw [ek] at h; simpa using h
  obtain ⟨s', f', hat', hst', hf1, _, e⟩ := lexRead_skip ws hws s b (r ++ rest) h' hb32 hb9 hs hs0 f (by omega)
  have hat'' : At s' (encChars cs ++ rest) := by rw [ek]; simpa using hat'
  obtain ⟨e2, h2⟩ := lexRead_id cs hcs s' rest (f' + 1) hat'' hst (by omega)
  exact ⟨advN cs.length s', by rw [e, e2], h2, advN_stash_nil _ _ hst'⟩

/-- a lone CR is a line ending only when no LF follows it -/
def NoLF (nl rest : List UInt8) : Prop := nl = [13] → rest.head? ≠ some 10

theorem NoLF_of_ne {nl rest : List UInt8} (h : rest.head? ≠ some 10) : NoLF nl rest := fun _ => h

/-- a line ending: one `.ch 10` token -/
theorem lexRead_nl (nl : List UInt8) (hn : Nl nl) (s : Scan) (rest : List UInt8) (h : At s (nl ++ rest))
    (hcr : NoLF nl rest) (hs : s.stash.length ≤ 1) (fuel : Nat) :
    ∃ s', lexRead (fuel + 1) s = .ok { sc := s', tok := .ch 10 } ∧ At s' rest ∧ s'.stash = [] := by
  cases hn with
  | lf =>
    simp only [List.cons_append, List.nil_append] at h
    exact ⟨s.advance, lexRead_special h (by decide) (by decide) fuel, h.advance, advance_stash_nil hs⟩
  | crlf =>
    simp only [List.cons_append, List.nil_append] at h
    refine ⟨s.advance.advance, ?_, h.advance.advance, by
      rw [At.advance_stash, advance_stash_nil hs]; rfl⟩
    rw [lexRead]
    simp only [h.eof, h.cur, h.read]
    simp [isSpecial]
  | cr =>
    simp only [List.cons_append, List.nil_append] at h
    refine ⟨s.advance, ?_, h.advance, advance_stash_nil hs⟩
    rw [lexRead]
    simp only [h.eof, h.cur]
    cases rest with
    | nil => rw [h.read_last]; simp [isSpecial]
    | cons x r =>
      have hx : x ≠ 10 := by
        have := hcr rfl
        simpa using this
      rw [h.read]
      simp [isSpecial, hx]

/-! ### keyword literals before any legal continuation -/

theorem lexRead_kwW (cs : List Char) (hcs : isUpperName cs = true) (v : Val) (hk : keyword cs = some v)
    (s : Scan) (rest : List UInt8) (fuel : Nat) (h : At s (encChars cs ++ rest)) (hs : s.stash = [])
    (hd : DelimW rest) (hf : cs.length + 2 ≤ fuel) :
    ∃ s', lexRead fuel s = .ok { sc := s', tok := .val v } ∧ At s' rest ∧ s'.stash = [] := by
  obtain ⟨f, rfl⟩ : ∃ f, fuel = f + 1 := ⟨fuel - 1, by omega⟩
  obtain ⟨hat, e⟩ := lexRead_upper cs hcs s rest f h hd.stop_lit (by omega)
  refine ⟨advN cs.length s, ?_, hat, advN_stash_nil _ _ hs⟩
  have hcur : ((advN cs.length s).cur == 40) = false := by
    cases rest with
    | cons b r =>
      rw [hat.cur]
      have := hd.not_paren r
      simp only [ne_eq, List.cons.injEq, and_true] at this
      simpa using this
    | nil =>
      obtain ⟨hl, hne⟩ := isUpperName_lit hcs
      obtain ⟨e', hp⟩ := encChars_ascii hl
      rw [e', List.append_nil] at h
      have hne' : cs.map byteOf ≠ [] := by simpa using hne
      rcases List.eq_nil_or_concat (cs.map byteOf) with hnil | ⟨bs, b, hbs⟩
      · exact absurd hnil hne'
      · have hlen : cs.length = bs.length + 1 := by
          have := congrArg List.length hbs; simpa using this
        have hb : isLitB b = true := hp b (by rw [hbs]; simp)
        rw [hbs] at h
        have hc := advN_cur_last b (by simpa using h)
        rw [hlen, hc]
        have := lit_not_paren b
        simpa [hb] using this
  rw [e, hcur]
  simp [hk]

theorem tokW_kw (cs : List Char) (hcs : isUpperName cs = true) (v : Val) (hk : keyword cs = some v) :
    TokW (encChars cs) v := by
  intro s rest fuel hat hs hd hf
  have := encChars_length_ge cs
  obtain ⟨s', e, h', hs'⟩ := lexRead_kwW cs hcs v hk s rest fuel hat hs hd (by omega)
  exact ⟨s', e, Post.of_clean h' hs'⟩

/-! ### small bridges between the specification's vocabulary and the model's -/

theorem digitB_eq (b : UInt8) : Spell.digitB b = isDigitB b := rfl
theorem chars_eq (bs : List UInt8) : Spell.chars bs = asciiChars bs := rfl
theorem unitText_eq (uo : Option (List Char)) : Spell.unitText uo = unitBytes uo := by cases uo <;> rfl

/-- what the reader needs of a number beyond its spelling: the unit of a finite number is a symbol of the unit
table (made of unit characters, not starting with `_`, not the single letter `e`/`E`: `unitOk`) -/
def numOkS (n : Num) : Bool :=
  if Flt.isNaNBits n.v.bits then true
  else if Flt.isInfBits n.v.bits then true
  else unitOk n.unit

end Hs.Zinc
