/-
  C11, decoder image invariant, part 2: the lexer on ARBITRARY input.  Every token `Lexer::read` returns is an
  identifier, a scalar value of the reader's shape (`decV`), a punctuation byte or the end marker.
-/
import Hs.Lemmas.ZincImageLeaf
import Hs.Lemmas.ZincImageBase
namespace Hs.Zinc
open Hs Hs.Scan

/-- what the parser may rely on for the token under the cursor -/
def tokInv : Tok → Prop
  | .id i => isIdent i = true
  | .val v => Scalar v = true ∧ decV v = true
  | .ch _ => True
  | .none => True

/-! ### numbers, dates, times, timestamps: the reader's normal form -/

theorem decV_mkNum (dec : List UInt8) (exp : Option (List UInt8 × List UInt8)) (unit : Option (List Char)) :
    Scalar (mkNum dec exp unit) = true ∧ decV (mkNum dec exp unit) = true := by
  refine ⟨rfl, ?_⟩
  have a1 : Flt.isNaNBits lexBits = false := by decide
  have a2 : Flt.isInfBits lexBits = false := by decide
  simp [mkNum, decV, lexNumI, a1, a2]

theorem parseNumber_img (f : Nat) (s : Scan) (v : Val) (s' : Scan) (h : parseNumber f s = .ok (v, s')) :
    Scalar v = true ∧ decV v = true := by
  have : ∃ dec exp unit, v = mkNum dec exp unit := by
    unfold parseNumber at h
    repeat' (first | split at h | simp only [] at h)
    all_goals first
      | (simp at h; done)
      | (simp only [Res.ok.injEq, Prod.mk.injEq] at h; exact ⟨_, _, _, h.1.symm⟩)
  obtain ⟨dec, exp, unit, rfl⟩ := this
  exact decV_mkNum dec exp unit

theorem parseNegInf_img (s : Scan) (v : Val) (s' : Scan) (h : parseNegInf s = .ok (v, s')) :
    Scalar v = true ∧ decV v = true := by
  unfold parseNegInf at h
  repeat' (first | split at h | simp only [] at h)
  all_goals first
    | (simp at h; done)
    | (simp only [Res.ok.injEq, Prod.mk.injEq] at h; rw [← h.1]; exact ⟨rfl, by decide⟩)

theorem parseDateTime_img (f : Nat) (s : Scan) (v : Val) (s' : Scan) (h : parseDateTime f s = .ok (v, s')) :
    Scalar v = true ∧ decV v = true := by
  unfold parseDateTime at h
  repeat' (first | split at h | simp only [] at h)
  all_goals first
    | (simp at h; done)
    | (simp only [Res.ok.injEq, Prod.mk.injEq] at h; rw [← h.1]; exact ⟨rfl, rfl⟩)

theorem parseNumberDateTime_img (f : Nat) (s : Scan) (v : Val) (s' : Scan)
    (h : parseNumberDateTime f s = .ok (v, s')) : Scalar v = true ∧ decV v = true := by
  unfold parseNumberDateTime at h
  repeat' (first | split at h | simp only [] at h)
  all_goals first
    | (simp at h; done)
    | exact parseNumber_img _ _ _ _ h
    | exact parseNegInf_img _ _ _ h
    | exact parseDateTime_img _ _ _ _ h
    | (have hd := parseDate_img _ _ _ ‹parseDate _ = Res.ok _›
       simp only [Res.ok.injEq, Prod.mk.injEq] at h; rw [← h.1]; exact ⟨rfl, hd⟩)
    | (simp only [Res.ok.injEq, Prod.mk.injEq] at h; rw [← h.1]; exact ⟨rfl, rfl⟩)

/-! ### keywords, Coord, XStr -/

theorem keyword_img (lit : List Char) (v : Val) (h : keyword lit = some v) : Scalar v = true ∧ decV v = true := by
  unfold keyword at h
  repeat' (first | split at h | simp only [] at h)
  all_goals first
    | (simp at h; done)
    | (simp only [Option.some.injEq] at h; rw [← h]; exact ⟨rfl, by decide⟩)

theorem parseCoordBody_img (f : Nat) (s : Scan) (v : Val) (s' : Scan) (h : parseCoordBody f s = .ok (v, s')) :
    Scalar v = true ∧ decV v = true := by
  unfold parseCoordBody at h
  split at h
  · simp at h
  · split at h
    · split at h
      · rename_i lat s2 hlat
        split at h
        · split at h
          · simp at h
          · split at h
            · split at h
              · rename_i lng s5 hlng
                split at h
                · split at h
                  · simp at h
                  · simp only [Res.ok.injEq, Prod.mk.injEq] at h
                    rw [← h.1]
                    have h1 := decTextOk_of_bytes _ (parseDecimal_img _ _ _ _ hlat)
                    have h2 := decTextOk_of_bytes _ (parseDecimal_img _ _ _ _ hlng)
                    refine ⟨rfl, ?_⟩
                    simp only [mkCoordFlt] at h1 h2 ⊢
                    simp [decV, h1, h2]
                all_goals simp at h
              all_goals simp at h
            all_goals simp at h
        all_goals simp at h
      all_goals simp at h
    all_goals simp at h

theorem parseXStrBody_img (f : Nat) (name : List Char) (s : Scan) (v : Val) (s' : Scan)
    (h : parseXStrBody f name s = .ok (v, s')) : ∃ x, v = .xstr name x := by
  unfold parseXStrBody at h
  repeat' (first | split at h | simp only [] at h)
  all_goals first
    | (simp at h; done)
    | (simp only [Res.ok.injEq, Prod.mk.injEq] at h; exact ⟨_, h.1.symm⟩)

/-! ### `Lexer::read` -/

/-- **every token the lexer returns, on any input, satisfies `tokInv`** -/
theorem lexRead_img : ∀ (f : Nat) (s : Scan) (p : Lex), lexRead f s = .ok p → tokInv p.tok
  | 0, _, _, h => by simp [lexRead] at h
  | f + 1, s, p, h => by
    rw [lexRead] at h
    by_cases he : s.eof = true
    · rw [if_pos he] at h
      simp only [Res.ok.injEq] at h
      subst h; trivial
    rw [if_neg he] at h
    simp only [Bool.not_eq_true] at he
    simp only [] at h
    by_cases c1 : (s.cur == 32 || s.cur == 9) = true
    · rw [if_pos c1] at h
      split at h
      · exact lexRead_img f _ _ h
      all_goals simp at h
    rw [if_neg c1] at h
    by_cases c2 : (s.cur == 34) = true
    · rw [if_pos c2] at h
      split at h
      · simp only [Res.ok.injEq] at h; subst h; exact ⟨rfl, rfl⟩
      all_goals simp at h
    rw [if_neg c2] at h
    by_cases c3 : (s.cur == 96) = true
    · rw [if_pos c3] at h
      split at h
      · simp only [Res.ok.injEq] at h; subst h; exact ⟨rfl, rfl⟩
      all_goals simp at h
    rw [if_neg c3] at h
    by_cases c4 : (s.cur == 64) = true
    · rw [if_pos c4] at h
      split at h
      · obtain ⟨id, dis, rfl, hid⟩ := parseRef_img _ _ _ _ ‹parseRef _ _ = Res.ok _›
        simp only [Res.ok.injEq] at h; subst h; exact ⟨rfl, hid⟩
      all_goals simp at h
    rw [if_neg c4] at h
    by_cases c5 : (s.cur == 94) = true
    · rw [if_pos c5] at h
      split at h
      · obtain ⟨b, rfl, hb⟩ := parseSymbol_img _ _ _ _ ‹parseSymbol _ _ = Res.ok _›
        simp only [Res.ok.injEq] at h; subst h; exact ⟨rfl, hb⟩
      all_goals simp at h
    rw [if_neg c5] at h
    by_cases c6 : isSpecial s.cur = true
    · rw [if_pos c6] at h
      repeat' (first | split at h | simp only [] at h)
      all_goals (simp only [Res.ok.injEq] at h; subst h; trivial)
    rw [if_neg c6] at h
    by_cases c7 : (isDigitB s.cur || s.cur == 45) = true
    · rw [if_pos c7] at h
      split at h
      · have := parseNumberDateTime_img _ _ _ _ ‹parseNumberDateTime _ _ = Res.ok _›
        simp only [Res.ok.injEq] at h; subst h; exact this
      all_goals simp at h
    rw [if_neg c7] at h
    by_cases c8 : isUpperB s.cur = true
    · rw [if_pos c8] at h
      split at h
      · rename_i lit s1 hlit
        have hup := parseLiteral_upper_img _ _ _ _ he c8 hlit
        by_cases d1 : (s1.cur == 40) = true
        · rw [if_pos d1] at h
          by_cases d2 : (lit == ['C']) = true
          · rw [if_pos d2] at h
            split at h
            · have := parseCoordBody_img _ _ _ _ ‹parseCoordBody _ _ = Res.ok _›
              simp only [Res.ok.injEq] at h; subst h; exact this
            all_goals simp at h
          · rw [if_neg d2] at h
            split at h
            · obtain ⟨x, rfl⟩ := parseXStrBody_img _ _ _ _ _ ‹parseXStrBody _ _ _ = Res.ok _›
              simp only [Res.ok.injEq] at h; subst h
              refine ⟨rfl, ?_⟩
              simp only [decV, isXStrType, Bool.and_eq_true, bne_iff_ne, ne_eq]
              exact ⟨hup, by simpa using d2⟩
            all_goals simp at h
        · rw [if_neg d1] at h
          split at h
          · have := keyword_img _ _ ‹keyword _ = some _›
            simp only [Res.ok.injEq] at h; subst h; exact this
          · simp at h
      all_goals simp at h
    rw [if_neg c8] at h
    by_cases c9 : isLowerB s.cur = true
    · rw [if_pos c9] at h
      split at h
      · have hid := parseId_img _ _ _ _ he ‹parseId _ _ = Res.ok _›
        simp only [Res.ok.injEq] at h; subst h; exact hid
      all_goals simp at h
    rw [if_neg c9] at h
    simp at h

end Hs.Zinc
