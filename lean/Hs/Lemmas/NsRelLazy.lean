/-
  Hs.Lemmas.NsRelLazy — `has_relationship` two ways.

  Hs.Model.NsCache.hasRelationshipL follows the code: `fits` is called for a tag only when the loop gets there
  (each call is a cache access in the program version).  Hs.Model.NsAssoc.hasRelationship classifies every tag of
  every record up front and runs the abstract loop of Hs.Model.FilterLoops (the model of C09, whose termination
  proof it inherits).  On a namespace built by `makeX`, with enough fuel for `fits`, they are the same function
  (`hasRelationshipL_eq`): the abstraction C09 reasons about is exact.
-/
import Hs.Lemmas.NsAssoc
import Hs.Model.NsCache
namespace Hs.NsCache
open Hs Hs.Ns Hs.NsA

/-- does a relationship value fit the query's term (no term: everything does) -/
def fitTerm (fuel : Nat) (ns : Ns) (term : Option Name) (s : Name) : Bool :=
  match term with
  | some t => fitsB fuel ns s t
  | none => true

/-- how the abstract loop sees a raw value -/
def classify (fuel : Nat) (ns : Ns) (term : Option Name) : RawVal → FLoops.DefVal
  | .absent => .absent
  | .other => .other
  | .sym s => .sym (fitTerm fuel ns term s)

theorem fits_term (fuel : Nat) (ns : Ns) (hfit : ∀ s tm, fits fuel ns s tm = .ok (fitsB fuel ns s tm))
    (term : Option Name) (s : Name) :
    fitsTermL fuel ns term s = .ok (fitTerm fuel ns term s) := by
  cases term with
  | none => rfl
  | some tm => exact hfit s tm

theorem defVal_classify (fuel : Nat) (x : NsX) (term : Option Name) (k n : Name) :
    defVal fuel x term k n = classify fuel x.ns term (rawVal x.xd k n) := by
  unfold defVal rawVal
  cases getX x.xd k with
  | none => rfl
  | some d =>
    dsimp only
    cases d.tag n with
    | none => rfl
    | some tv => cases tv <;> cases term <;> rfl

theorem classify_isSome (fuel : Nat) (ns : Ns) (term : Option Name) (v : RawVal) :
    (classify fuel ns term v).isSome = v.isSome := by
  cases v <;> cases term <;> rfl

def toStep (fuel : Nat) (x : NsX) (term : Option Name) (rel : Name) (recip : Option Name) : StepX → FLoops.Step
  | .ret b => .ret b
  | .done => .done
  | .next s q rt => .next (viewRec fuel x term rel recip s) q rt

theorem resolve_view (fuel : Nat) (x : NsX) (term : Option Name) (rel : Name) (recip : Option Name)
    (recs : List RecX) (sv : Name) :
    FLoops.resolveRec (recs.map (viewRec fuel x term rel recip)) sv
      = (resolveRecX recs sv).map (viewRec fuel x term rel recip) := by
  unfold FLoops.resolveRec resolveRecX
  induction recs with
  | nil => rfl
  | cons r rs ih =>
    simp only [List.map_cons, List.find?_cons]
    have : (viewRec fuel x term rel recip r).key = r.key := rfl
    rw [this]
    cases (r.key == some sv) with
    | true => rfl
    | false => exact ih

theorem view_entries_isEmpty (fuel : Nat) (x : NsX) (term : Option Name) (rel : Name) (recip : Option Name) (r : RecX) :
    (viewRec fuel x term rel recip r).entries.isEmpty = r.tags.isEmpty := by
  unfold viewRec
  cases r.tags <;> rfl

/-- the entry the abstract loop gets for a tag -/
def entryOf (fuel : Nat) (x : NsX) (term : Option Name) (rel : Name) (recip : Option Name) (t : SubjTag) : FLoops.Entry :=
  { ref := t.ref,
    rel := defVal fuel x term t.key rel,
    recip := match recip with
      | some rc => defVal fuel x term t.key rc
      | none => .absent }

theorem view_entries (fuel : Nat) (x : NsX) (term : Option Name) (rel : Name) (recip : Option Name) (r : RecX) :
    (viewRec fuel x term rel recip r).entries = r.tags.map (entryOf fuel x term rel recip) := rfl

theorem entry_recip (fuel : Nat) (x : NsX) (term : Option Name) (rel : Name) (recip : Option Name) (t : SubjTag) :
    (entryOf fuel x term rel recip t).recip = classify fuel x.ns term (rawRecip x.xd t.key recip) := by
  unfold entryOf rawRecip
  cases recip with
  | none => rfl
  | some rc => exact defVal_classify fuel x term t.key rc

section
variable (fuel : Nat) (x : NsX) (recs : List RecX) (rel : Name) (recip term : Option Name) (tr : Bool)
variable (hfit : ∀ s tm, fits fuel x.ns s tm = .ok (fitsB fuel x.ns s tm))
include hfit

/-- one pass over the tags: the lazy function answers, and its answer is the abstract loop's -/
theorem relInnerL_eq (id : Option Name) : ∀ (ts : List SubjTag) (q : List Name) (rt : Option Name),
    ∃ st, relInnerL fuel x recs rel recip term tr id ts q rt = .ok st ∧
      toStep fuel x term rel recip st =
        FLoops.relInner (recs.map (viewRec fuel x term rel recip)) tr recip.isSome id
          (ts.map (entryOf fuel x term rel recip)) q rt := by
  intro ts
  induction ts with
  | nil => intro q rt; exact ⟨.done, rfl, rfl⟩
  | cons t rest ih =>
    intro q rt
    simp only [relInnerL, List.map_cons, FLoops.relInner]
    have hrel : (entryOf fuel x term rel recip t).rel = classify fuel x.ns term (rawVal x.xd t.key rel) :=
      defVal_classify fuel x term t.key rel
    have hrec := entry_recip fuel x term rel recip t
    have href : (entryOf fuel x term rel recip t).ref = t.ref := rfl
    rw [hrel, hrec, href, classify_isSome, classify_isSome]
    -- name the shared sub-terms
    generalize hu : (!(rawVal x.xd t.key rel).isSome && rt == id && t.ref.isSome && recip.isSome) = useRecip
    generalize hrt : (if (useRecip && (rawRecip x.xd t.key recip).isSome) = true then t.ref else rt) = rt1
    have hval : (if useRecip = true then classify fuel x.ns term (rawRecip x.xd t.key recip)
        else classify fuel x.ns term (rawVal x.xd t.key rel))
        = classify fuel x.ns term (if useRecip = true then rawRecip x.xd t.key recip else rawVal x.xd t.key rel) := by
      cases useRecip <;> rfl
    rw [hval]
    generalize (if useRecip = true then rawRecip x.xd t.key recip else rawVal x.xd t.key rel) = rv
    cases rv with
    | absent => simp only [classify]; exact ih q rt1
    | other => simp only [classify]; exact ih q rt1
    | sym s =>
      -- the value of `fits` the lazy version computes is the one the classification holds
      simp only [fits_term fuel x.ns hfit term s, classify]
      generalize fitTerm fuel x.ns term s = f
      -- the decision, case by case
      unfold relDecide
      by_cases h1 : (f && rt1.isSome) = true
      · simp only [h1, if_true]
        by_cases h2 : (t.ref.isSome && t.ref == rt1) = true
        · simp only [h2, if_true]; exact ⟨_, rfl, rfl⟩
        · simp only [h2]
          cases tr with
          | false => simp only [Bool.false_eq_true, if_false]; exact ih q rt1
          | true =>
            simp only [if_true]
            cases hr : t.ref with
            | none => exact ih q rt1
            | some sv =>
              dsimp only
              by_cases h3 : (!q.contains sv) = true
              · simp only [h3, if_true]
                rw [resolve_view]
                cases resolveRecX recs sv with
                | none => exact ih (sv :: q) rt1
                | some new =>
                  simp only [Option.map_some, view_entries_isEmpty]
                  by_cases h4 : (!new.tags.isEmpty) = true
                  · simp only [h4, if_true]; exact ⟨_, rfl, rfl⟩
                  · simp only [h4]; exact ih (sv :: q) rt1
              · simp only [h3]; exact ih q rt1
      · simp only [h1]
        by_cases h5 : f = true
        · simp only [h5, if_true]; exact ⟨_, rfl, rfl⟩
        · simp only [h5]; exact ih q rt1

/-- the `'search` loop -/
theorem relLoopL_eq : ∀ (lf : Nat) (s : RecX) (q : List Name) (rt : Option Name),
    relLoopL fuel x recs rel recip term tr lf s q rt =
      FLoops.relLoop (recs.map (viewRec fuel x term rel recip)) tr recip.isSome lf
        (viewRec fuel x term rel recip s) q rt := by
  intro lf
  induction lf with
  | zero => intro s q rt; rfl
  | succ n ih =>
    intro s q rt
    obtain ⟨st, h1, h2⟩ := relInnerL_eq fuel x recs rel recip term tr hfit s.id s.tags q rt
    simp only [relLoopL, FLoops.relLoop, h1]
    have hid : (viewRec fuel x term rel recip s).id = s.id := rfl
    rw [hid, view_entries, ← h2]
    cases st with
    | ret b => rfl
    | done => rfl
    | next s' q' rt' => exact ih s' q' rt'
end

/-- `has_relationship` as the code runs it (`fits` on demand) is the abstract loop over pre-classified records -/
theorem hasRelationshipL_eq (rows : List RowX) (fuel : Nat) (hf : fuelFor (makeX rows).ns.defs ≤ fuel)
    (lf : Nat) (recs : List RecX) (rel : Name) (term target : Option Name) (s : RecX) :
    hasRelationshipL fuel lf (makeX rows) recs rel term target s
      = NsA.hasRelationship fuel lf (makeX rows) recs rel term target s := by
  unfold hasRelationshipL NsA.hasRelationship
  cases getX (makeX rows).xd rel with
  | none => rfl
  | some rd =>
    dsimp only
    cases inheritance fuel (makeX rows).ns rel with
    | ok inh =>
      dsimp only
      unfold FLoops.hasRelationship
      by_cases hc : (!inh.contains nRelationship) = true
      · simp only [hc, if_true]
      · simp only [hc]
        exact relLoopL_eq fuel (makeX rows) recs rel _ term _ (fun a b => fitsB_spec rows fuel hf a b) lf s [] target
    | err => rfl
    | panic => rfl
    | diverge => rfl
    | depth => rfl

end Hs.NsCache
