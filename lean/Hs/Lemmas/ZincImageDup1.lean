/-
  C11: grids with two columns of the same name.  The reader keeps both columns; the cells of a row line are
  collected in column order into one dict, so a row carries ONE cell for the name (the last one read).  The writer
  looks cells up by column name and prints that cell under both columns; read back, the same value is inserted
  twice.  This file generalises the row lemma of C01 (`dictOf_cellsOf`, which asks for distinct column names) and
  repeats the row-iterator theorem without that hypothesis.
-/
import Hs.Lemmas.ZincRtGrid
import Hs.Lemmas.ZincImageDict
namespace Hs.Zinc
open Hs Hs.Scan

theorem insertSorted_keeps (k : List Char) (v : Val) :
    ∀ (l : List (List Char × Val)) (p : List Char × Val), p ∈ l → ∃ q ∈ insertSorted k v l, q.1 = p.1
  | [], p, h => by simp at h
  | (k', v') :: rest, p, h => by
    unfold insertSorted
    by_cases h1 : (k == k') = true
    · have e : k = k' := by simpa using h1
      simp only [h1, if_true]
      rcases List.mem_cons.mp h with rfl | h
      · exact ⟨(k, v), by simp, e⟩
      · exact ⟨p, by simp [h], rfl⟩
    · simp only [h1, Bool.false_eq_true, if_false]
      by_cases h2 : leChars k k' = true
      · simp only [h2, if_true]
        exact ⟨p, by simp only [List.mem_cons] at h ⊢; rcases h with h | h <;> simp [h], rfl⟩
      · simp only [h2, Bool.false_eq_true, if_false]
        rcases List.mem_cons.mp h with rfl | h
        · exact ⟨_, by simp, rfl⟩
        · obtain ⟨q, hq, e⟩ := insertSorted_keeps k v rest p h
          exact ⟨q, by simp [hq], e⟩

theorem insertSorted_has (k : List Char) (v : Val) :
    ∀ l : List (List Char × Val), ∃ q ∈ insertSorted k v l, q.1 = k
  | [] => ⟨(k, v), by simp [insertSorted], rfl⟩
  | (k', v') :: rest => by
    unfold insertSorted
    by_cases h1 : (k == k') = true
    · simp only [h1, if_true]; exact ⟨(k, v), by simp, rfl⟩
    · simp only [h1, Bool.false_eq_true, if_false]
      by_cases h2 : leChars k k' = true
      · simp only [h2, if_true]; exact ⟨(k, v), by simp, rfl⟩
      · simp only [h2, Bool.false_eq_true, if_false]
        obtain ⟨q, hq, e⟩ := insertSorted_has k v rest
        exact ⟨q, by simp [hq], e⟩

/-- every key collected is a key of the result -/
theorem foldl_insertSorted_keys : ∀ (l acc : List (List Char × Val)) (p : List Char × Val), p ∈ acc ∨ p ∈ l →
    ∃ q ∈ l.foldl (fun acc p => insertSorted p.1 p.2 acc) acc, q.1 = p.1
  | [], acc, p, h => by
    rcases h with h | h
    · exact ⟨p, h, rfl⟩
    · simp at h
  | (k, v) :: rest, acc, p, h => by
    simp only [List.foldl_cons]
    rcases h with h | h
    · obtain ⟨q, hq, e⟩ := insertSorted_keeps k v acc p h
      obtain ⟨q', hq', e'⟩ := foldl_insertSorted_keys rest (insertSorted k v acc) q (Or.inl hq)
      exact ⟨q', hq', by rw [e', e]⟩
    · rcases List.mem_cons.mp h with rfl | h
      · obtain ⟨q, hq, e⟩ := insertSorted_has k v acc
        obtain ⟨q', hq', e'⟩ := foldl_insertSorted_keys rest (insertSorted k v acc) q (Or.inl hq)
        exact ⟨q', hq', by rw [e', e]⟩
      · exact foldl_insertSorted_keys rest (insertSorted k v acc) p (Or.inr h)

/-- **the row is rebuilt, whatever the column names**: the reader's cells, in column order and with a cell repeated
for every column of its name, collect into the (image of the) row -/
theorem dictOf_cellsOf_gen (r : Tags) (names : List (List Char))
    (hsub : ∀ k ∈ r.keys, k ∈ names) (hsort : keysSorted r.keys = true) :
    dictOf (cellsOf r names) = lexImgT r := by
  have hnd := keysSorted_nodup r.keys hsort
  obtain ⟨hs, hmem, _⟩ := foldl_insertSorted_gen (cellsOf r names) [] (by simp [SortedKV])
  have hkeys := foldl_insertSorted_keys (cellsOf r names) []
  have hs2 := sortedKV_lexImgT r hsort
  -- what a collected cell is
  have hcell : ∀ p ∈ cellsOf r names, ∃ v, r.get? p.1 = some v ∧ p.2 = lexImg v := by
    intro p hp
    simp only [cellsOf, List.mem_filterMap, Option.map_eq_some_iff] at hp
    obtain ⟨n, _, v, hg, rfl⟩ := hp
    exact ⟨v, hg, rfl⟩
  have hperm : (List.foldl (fun acc p => insertSorted p.1 p.2 acc) [] (cellsOf r names)).Perm (lexImgT r).toList := by
    have nd1 : (List.foldl (fun acc p => insertSorted p.1 p.2 acc) [] (cellsOf r names)).Nodup := by
      refine List.Pairwise.imp ?_ hs
      intro a b hab e
      subst e
      simp [ltKey] at hab
    have nd2 : (lexImgT r).toList.Nodup := by
      refine List.Pairwise.imp ?_ hs2
      intro a b hab e
      subst e
      simp [ltKey] at hab
    rw [List.perm_ext_iff_of_nodup nd1 nd2]
    intro x
    constructor
    · intro hx
      rcases hmem x hx with h | h
      · simp at h
      · obtain ⟨v, hg, e⟩ := hcell x h
        rw [lexImgT_toList, List.mem_map]
        exact ⟨(x.1, v), (get?_eq_some_iff r hnd x.1 v).mp hg, by obtain ⟨xk, xv⟩ := x; simp only at e; simp [e]⟩
    · intro hx
      rw [lexImgT_toList, List.mem_map] at hx
      obtain ⟨⟨k, v⟩, hkv, rfl⟩ := hx
      have hk : k ∈ r.keys := by
        rw [← Tags.keys_toList]; exact List.mem_map.mpr ⟨(k, v), hkv, rfl⟩
      have hg : r.get? k = some v := (get?_eq_some_iff r hnd k v).mpr hkv
      have hin : (k, lexImg v) ∈ cellsOf r names := by
        simp only [cellsOf, List.mem_filterMap, Option.map_eq_some_iff]
        exact ⟨k, hsub k hk, v, hg, rfl⟩
      obtain ⟨q, hq, e⟩ := hkeys (k, lexImg v) (Or.inr hin)
      rcases hmem q hq with h | h
      · simp at h
      · obtain ⟨v', hg', e'⟩ := hcell q h
        simp only at e
        rw [e, hg] at hg'
        simp only [Option.some.injEq] at hg'
        have : q = (k, lexImg v) := by
          obtain ⟨qk, qv⟩ := q
          simp only at e e'
          rw [e, e', ← hg']
        rw [← this]; exact hq
  unfold dictOf
  have := List.Perm.eq_of_pairwise (le := fun (p q : List Char × Val) => ltKey p.1 q.1 = true)
    (fun a b _ _ h1 h2 => (ltKey_asymm h1 h2).elim) hs hs2 hperm
  rw [this, Tags.ofList_toList]

/-! ### the row iterator (as `rowsLoop_rt`, `rows_all` of C01, without the hypothesis on the column names) -/

/-- the row iterator on one or more rows -/
theorem rowsLoop_rtG (names : List (List Char)) (single nested : Bool) (rest : List UInt8)
    (hne : names ≠ []) (hsingle : names.length = 1 → single = true) (depth : Nat) :
    ∀ (r : Tags) (rs : Rows), RowsOk names single (.cons r rs) → depth + nestR (.cons r rs) ≤ 64 →
    ∀ (f1 f2 : Nat) (sc : Scan) (acc : List Tags),
    At sc (encRows (.cons r rs) names single ++ tailR nested rest) → sc.stash = [] →
    4 * (encRows (.cons r rs) names single).length + 20 ≤ f1 →
    4 * (encRows (.cons r rs) names single).length + 20 ≤ f2 →
    ∃ p r', lexRead f1 sc = .ok p ∧ p.sc.eof = false ∧ PS.isChar p 10 = false ∧ PS.isChar p 62 = false ∧
      rowsLoop f2 depth { p := p, nestedStart := nested, nestedEnd := false } names acc
        = .ok (acc ++ (lexImgR (.cons r rs)).toList, r') ∧
      At r'.p.sc (finalR nested rest) ∧ r'.p.sc.stash = []
  | r, rs, hok, hdep, f1, f2, sc, acc, hat, hs, hf1, hf2 => by
    obtain ⟨hrow, hrest⟩ := hok
    simp only [nestR] at hdep
    rw [encRows_cons] at hat hf1 hf2
    simp only [List.append_assoc, List.cons_append, List.length_append, List.length_cons] at hat hf1 hf2
    obtain ⟨g, rfl⟩ : ∃ g, f2 = g + 4 := ⟨f2 - 4, by omega⟩
    obtain ⟨p, p2, e1, e2, ht2, h2, hs2, hfirst⟩ := rowLoop_rt r names single names 0 hne rfl depth f1 (g + 2) sc []
      (encRows rs names single ++ tailR nested rest) hrow.cells (by omega) hat hs (by omega) (by omega)
    have hsz : 2 ≤ names.length ∨ single = true := by
      cases names with
      | nil => exact absurd rfl hne
      | cons n ns =>
        cases ns with
        | nil => exact Or.inr (hsingle rfl)
        | cons _ _ => left; simp
    obtain ⟨heof, h10, h62⟩ := hfirst hsz
    have hdict : dictOf (cellsOf r names) = lexImgT r := dictOf_cellsOf_gen r names hrow.sub hrow.sorted
    simp only [List.nil_append] at e2
    -- one row through `rowNext`, up to the `consumeEnd` after its newline
    have hnext : rowNext (g + 3) depth { p := p, nestedStart := nested, nestedEnd := false } names =
        (match consumeEnd (g + 2) { p := p2, nestedStart := nested, nestedEnd := false } with
          | .ok r3 => .ok (some (lexImgT r), r3)
          | .err => .err | .panic => .panic | .diverge => .diverge | .depth => .depth) := by
      rw [rowNext]
      simp only [PS.isEof, heof, Bool.or_false, Bool.false_eq_true, if_false]
      rw [consumeEnd_noop (g + 1) p nested false h10 h62]
      simp only [heof, Bool.or_false, Bool.false_eq_true, if_false, e2, hdict]
      rfl
    cases rs with
    | cons r2 rs2 =>
      -- another row follows
      have hrest' := hrest
      obtain ⟨hrow2, _⟩ := hrest'
      have hfo : FirstOk (encRows (.cons r2 rs2) names single ++ tailR nested rest) := by
        rw [encRows_cons]
        simp only [List.append_assoc, List.cons_append]
        exact firstOk_row r2 names single _ hne hsingle hrow2.first (fun h n hn => (hrow2.cells n hn).2 h)
      obtain ⟨q, r', eq, hqe, hq10, hq62, eloop, hfin, hsfin⟩ := rowsLoop_rtG names single nested rest hne hsingle depth
        r2 rs2 hrest (by omega) (g + 1) (g + 3) p2.sc (acc ++ [lexImgT r]) h2 hs2 (by omega) (by omega)
      refine ⟨p, r', e1, heof, h10, h62, ?_, hfin, hsfin⟩
      rw [rowsLoop, hnext, consumeEnd_next (g + 1) p2 q nested _ ht2 h2 hfo eq hq62]
      simp only [eloop, lexImgR_toList_cons]
      simp
    | nil =>
      simp only [encRows, List.nil_append] at h2
      cases nested with
      | true =>
        simp only [tailR, if_true] at h2
        refine ⟨p, { p := { sc := p2.sc.advance.advance, tok := .ch 62 }, nestedStart := true, nestedEnd := true },
          e1, heof, h10, h62, ?_, ?_, ?_⟩
        · rw [rowsLoop, hnext, consumeEnd_nested g p2 rest ht2 h2]
          simp only []
          rw [rowsLoop, rowNext]
          simp [lexImgR, Rows.toList]
        · simpa [finalR] using h2.advance.advance
        · show p2.sc.advance.advance.stash = []
          exact advN_stash_nil 2 _ hs2
      | false =>
        simp only [tailR, Bool.false_eq_true, if_false] at h2
        refine ⟨p, { p := { sc := p2.sc.advance, tok := p2.tok }, nestedStart := false, nestedEnd := false },
          e1, heof, h10, h62, ?_, ?_, ?_⟩
        · rw [rowsLoop, hnext, consumeEnd_top (g + 1) p2 ht2 h2]
          simp only []
          rw [rowsLoop, rowNext]
          simp [PS.isEof, h2.advance.eof_nil, lexImgR, Rows.toList]
        · simpa [finalR] using h2.advance
        · show p2.sc.advance.stash = []
          exact advN_stash_nil 1 _ hs2

/-- all rows (possibly none) and the end of the grid -/
theorem rows_allG (names : List (List Char)) (single nested : Bool) (rest : List UInt8)
    (hne : names ≠ []) (hsingle : names.length = 1 → single = true) (depth : Nat)
    (rows : Rows) (hok : RowsOk names single rows) (hdep : depth + nestR rows ≤ 64)
    (g : Nat) (sc6 : Scan) (hat : At sc6 (encRows rows names single ++ tailR nested rest)) (hs : sc6.stash = [])
    (hf : 4 * (encRows rows names single).length + 20 ≤ g) :
    ∃ p6 r', lexRead g sc6 = .ok p6 ∧
      rowsLoop (g + 1) depth { p := p6, nestedStart := nested, nestedEnd := false } names []
        = .ok ((lexImgR rows).toList, r') ∧
      At r'.p.sc (finalR nested rest) ∧ r'.p.sc.stash = [] := by
  cases rows with
  | cons r rs =>
    obtain ⟨p, r', e1, _, _, _, e2, h', hs'⟩ := rowsLoop_rtG names single nested rest hne hsingle depth r rs hok hdep
      g (g + 1) sc6 [] hat hs hf (by omega)
    exact ⟨p, r', e1, by simpa using e2, h', hs'⟩
  | nil =>
    simp only [encRows, List.nil_append] at hat
    obtain ⟨g', rfl⟩ : ∃ g', g = g' + 3 := ⟨g - 3, by omega⟩
    cases nested with
    | false =>
      simp only [tailR, Bool.false_eq_true, if_false] at hat
      refine ⟨{ sc := sc6.advance, tok := .ch 10 },
        { p := { sc := sc6.advance, tok := .ch 10 }, nestedStart := false, nestedEnd := false },
        lexRead_special hat (by decide) (by decide) _, ?_, ?_, ?_⟩
      · rw [rowsLoop, rowNext]
        simp [PS.isEof, hat.advance.eof_nil, lexImgR, Rows.toList]
      · simpa [finalR] using hat.advance
      · show sc6.advance.stash = []
        rw [At.advance_stash, hs]; rfl
    | true =>
      simp only [tailR, if_true] at hat
      refine ⟨{ sc := sc6.advance, tok := .ch 62 },
        { p := { sc := sc6.advance.advance, tok := .ch 62 }, nestedStart := true, nestedEnd := true },
        lexRead_special hat (by decide) (by decide) _, ?_, ?_, ?_⟩
      · rw [rowsLoop, rowNext]
        simp only [PS.isEof, hat.advance.eof, Bool.or_false, Bool.false_eq_true, if_false]
        rw [consumeEnd]
        simp [isChar_ch, PS.read, lexRead_special hat.advance (by decide) (by decide) g', lexImgR, Rows.toList]
      · simpa [finalR] using hat.advance.advance
      · show sc6.advance.advance.stash = []
        exact advN_stash_nil 2 _ hs

end Hs.Zinc
