/-
  C11 (lazy rows), part 7: the shape of one `RowIterator::next` call on ARBITRARY input (no hypothesis on the text).
  Whenever `rowNext` hands out a row, the row was completed by its newline token, and everything the call reads
  after that newline is done by the final `consume_end`: skip white space, read ONE token, and one more token
  exactly when that token is `>` inside a nested grid (`>>`).
-/
import Hs.Model.ZincParse
namespace Hs.Zinc
open Hs Hs.Scan

/-- the cell loop of `parse_row` returns only on the newline token -/
theorem rowLoop_ends_at_newline : ∀ (f d : Nat) (p : PS) (cols : List (List Char)) (k : Nat)
    (acc kvs : List (List Char × Val)) (p' : PS),
    rowLoop f d p cols k acc = .ok (kvs, p') → p'.isChar 10 = true := by
  intro f
  induction f with
  | zero => intro d p cols k acc kvs p' h; simp [rowLoop] at h
  | succ f ih =>
    intro d p cols k acc kvs p' h
    rw [rowLoop] at h
    by_cases h44 : p.isChar 44 = true
    · simp only [h44, if_true] at h
      cases hr : p.read f with
      | ok p1 => rw [hr] at h; exact ih d p1 cols (k + 1) acc kvs p' h
      | err => rw [hr] at h; cases h
      | panic => rw [hr] at h; cases h
      | diverge => rw [hr] at h; cases h
      | depth => rw [hr] at h; cases h
    · simp only [h44, Bool.false_eq_true, if_false] at h
      by_cases h10 : p.isChar 10 = true
      · simp only [h10, if_true] at h
        cases h; exact h10
      · simp only [h10, Bool.false_eq_true, if_false] at h
        by_cases hn : p.tokNone = true
        · simp [hn] at h
        · simp only [hn, Bool.false_eq_true, if_false] at h
          cases hv : parseValue f d p with
          | ok vp =>
            obtain ⟨v, p1⟩ := vp
            rw [hv] at h
            simp only at h
            cases hc : cols[k]? with
            | none => rw [hc] at h; cases h
            | some name =>
              rw [hc] at h
              simp only at h
              cases hr : p1.read f with
              | ok p2 => rw [hr] at h; exact ih d p2 cols k _ kvs p' h
              | err => rw [hr] at h; cases h
              | panic => rw [hr] at h; cases h
              | diverge => rw [hr] at h; cases h
              | depth => rw [hr] at h; cases h
          | err => rw [hv] at h; cases h
          | panic => rw [hv] at h; cases h
          | diverge => rw [hv] at h; cases h
          | depth => rw [hv] at h; cases h

/-- **one call of the iterator, any input**: a row handed out = leading `consume_end`, the cells up to the row's
newline token, the trailing `consume_end` — nothing else touches the scanner -/
theorem rowNext_shape (f d : Nat) (r : RowState) (cols : List (List Char)) (row : Tags) (r3 : RowState)
    (h : rowNext (f + 1) d r cols = .ok (some row, r3)) :
    ∃ (r1 : RowState) (kvs : List (List Char × Val)) (p2 : PS),
      consumeEnd f r = .ok r1 ∧ rowLoop f d r1.p cols 0 [] = .ok (kvs, p2) ∧ p2.isChar 10 = true ∧
      row = dictOf kvs ∧ consumeEnd f { r1 with p := p2 } = .ok r3 := by
  rw [rowNext] at h
  by_cases h0 : (r.p.isEof || r.nestedEnd) = true
  · simp [h0] at h
  · simp only [h0, Bool.false_eq_true, if_false] at h
    cases h1 : consumeEnd f r with
    | ok r1 =>
      rw [h1] at h
      simp only at h
      by_cases h2 : (r1.nestedEnd || r1.p.isEof) = true
      · simp [h2] at h
      · simp only [h2, Bool.false_eq_true, if_false] at h
        cases h3 : rowLoop f d r1.p cols 0 [] with
        | ok kp =>
          obtain ⟨kvs, p2⟩ := kp
          rw [h3] at h
          simp only at h
          cases h4 : consumeEnd f { r1 with p := p2 } with
          | ok r3' =>
            rw [h4] at h
            simp only [Res.ok.injEq, Prod.mk.injEq, Option.some.injEq] at h
            obtain ⟨hrow, hr3⟩ := h
            subst hr3
            exact ⟨r1, kvs, p2, rfl, h3, rowLoop_ends_at_newline f d r1.p cols 0 [] kvs p2 h3, hrow.symm, h4⟩
          | err => rw [h4] at h; cases h
          | panic => rw [h4] at h; cases h
          | diverge => rw [h4] at h; cases h
          | depth => rw [h4] at h; cases h
        | err => rw [h3] at h; cases h
        | panic => rw [h3] at h; cases h
        | diverge => rw [h3] at h; cases h
        | depth => rw [h3] at h; cases h
    | err => rw [h1] at h; cases h
    | panic => rw [h1] at h; cases h
    | diverge => rw [h1] at h; cases h
    | depth => rw [h1] at h; cases h

/-- **what `consume_end` reads after a row's newline token, any input**: the white space that follows, then — unless
the input ends there — exactly one token; and a second token only when the first is `>` inside a nested grid
(the closing `>>`) -/
theorem consumeEnd_reads (f : Nat) (r r3 : RowState) (h10 : r.p.isChar 10 = true)
    (h : consumeEnd (f + 1) r = .ok r3) :
    ∃ sc', consumeWhiteSpaces (f + 1) r.p.sc = .ok sc' ∧
      ((sc'.eof = true ∧ r3.p = { r.p with sc := sc' }) ∨
       (sc'.eof = false ∧ ∃ p1, lexRead f sc' = .ok p1 ∧
          (r3.p = p1 ∨
           (r.nestedStart = true ∧ PS.isChar p1 62 = true ∧ lexRead f p1.sc = .ok r3.p ∧ r3.nestedEnd = true)))) := by
  rw [consumeEnd] at h
  simp only [h10, if_true] at h
  cases hw : consumeWhiteSpaces (f + 1) r.p.sc with
  | ok sc' =>
    rw [hw] at h
    simp only at h
    refine ⟨sc', rfl, ?_⟩
    by_cases he : sc'.eof = true
    · left
      have hisEof : PS.isEof { r.p with sc := sc' } = true := he
      simp only [hisEof, Bool.not_true, Bool.false_eq_true, if_false] at h
      have h62 : PS.isChar { r.p with sc := sc' } 62 = false := by
        have : PS.isChar { r.p with sc := sc' } 62 = r.p.isChar 62 := rfl
        rw [this]
        unfold PS.isChar at h10 ⊢
        split at h10 <;> simp_all
      simp only [h62, Bool.and_false, Bool.false_eq_true, if_false, Res.ok.injEq] at h
      exact ⟨he, by rw [← h]⟩
    · right
      have he' : sc'.eof = false := by simpa using he
      have hisEof : PS.isEof { r.p with sc := sc' } = false := he'
      simp only [hisEof, Bool.not_false, if_true, PS.read] at h
      refine ⟨he', ?_⟩
      cases h1 : lexRead f sc' with
      | ok p1 =>
        rw [h1] at h
        simp only at h
        refine ⟨p1, rfl, ?_⟩
        by_cases hc : (r.nestedStart && PS.isChar p1 62) = true
        · right
          simp only [hc, if_true] at h
          simp only [Bool.and_eq_true] at hc
          cases h2 : lexRead f p1.sc with
          | ok p2 =>
            rw [h2] at h
            simp only at h
            by_cases hc2 : PS.isChar p2 62 = true
            · simp only [hc2, if_true, Res.ok.injEq] at h
              subst h
              exact ⟨hc.1, hc.2, rfl, rfl⟩
            · simp [hc2] at h
          | err => rw [h2] at h; cases h
          | panic => rw [h2] at h; cases h
          | diverge => rw [h2] at h; cases h
          | depth => rw [h2] at h; cases h
        · left
          simp only [hc, Bool.false_eq_true, if_false, Res.ok.injEq] at h
          rw [← h]
      | err => rw [h1] at h; cases h
      | panic => rw [h1] at h; cases h
      | diverge => rw [h1] at h; cases h
      | depth => rw [h1] at h; cases h
  | err => rw [hw] at h; cases h
  | panic => rw [hw] at h; cases h
  | diverge => rw [hw] at h; cases h
  | depth => rw [hw] at h; cases h

end Hs.Zinc
