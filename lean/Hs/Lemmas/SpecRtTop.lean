/-
  C04 (write direction), rung 6: the mutual induction over `Val` (from `wfV` and `strictV` to the framing statement
  `Rd`), and the whole document through `Hs.Spec.read`.
-/
import Hs.Lemmas.SpecRtGrid
namespace Hs.Spec
open Hs Hs.Zinc Hs.Scan

def RdR : Rows → Prop
  | .nil => True
  | .cons r rs => RdT r ∧ RdR rs

theorem RdT_get : ∀ (t : Tags), RdT t → ∀ (n : List Char) (v : Val), t.get? n = some v → Rd v
  | .nil, _, n, v, hg => by simp [Tags.get?] at hg
  | .cons k w t, h, n, v, hg => by
    by_cases hk : k = n
    · simp only [Tags.get?, hk, if_true, Option.some.injEq] at hg
      subst hg; exact h.1
    · simp only [Tags.get?, hk, if_false] at hg
      exact RdT_get t h.2 n v hg

theorem rowOkS_of_shape (names : List (List Char)) (single : Bool) (r : Tags)
    (hs : rowShape names single r = true) (hr : RdT r) : RowOkS r names single := by
  simp only [rowShape, Bool.and_eq_true, List.all_eq_true, Bool.or_eq_true, Bool.not_eq_eq_eq_not, Bool.not_true] at hs
  obtain ⟨⟨h1, h2⟩, h3⟩ := hs
  refine ⟨?_, h1, ?_⟩
  · intro n hn
    refine ⟨fun v hv => RdT_get r hr n v hv, ?_⟩
    intro hsingle
    rcases h3 with h3 | h3
    · rw [hsingle] at h3; cases h3
    · have := h3 n hn
      intro e; rw [e] at this; cases this
  · intro k hk
    have := h2 k hk
    simpa using this

theorem rowsOkS_of_shape (names : List (List Char)) (single : Bool) : ∀ rws : Rows,
    rowsShape names single rws = true → RdR rws → RowsOkS names single rws
  | .nil, _, _ => trivial
  | .cons r rs, hs, hr => by
    simp only [rowsShape, Bool.and_eq_true] at hs
    exact ⟨rowOkS_of_shape names single r hs.1 hr.1, rowsOkS_of_shape names single rs hs.2 hr.2⟩

theorem colsOkS_of_shape : ∀ c : Cols, colsShapeAux c = true → ColsOkS c
  | .nil, _ => trivial
  | .cons n md c, hs => by
    obtain ⟨h1, h2, h3⟩ := colsShapeAux_tail hs
    exact ⟨h1, h2, colsOkS_of_shape c h3⟩

theorem gridOkS_of (md : OTags) (cols : Cols) (rws : Rows) (ver : List Char)
    (hw : (ver == ['3', '.', '0'] && metaShape md && colsShape cols && rowsShape cols.names (cols.length == 1) rws) = true)
    (hmd : RdO md) (hc : RdC cols) (hr : RdR rws) : GridOkS md cols rws ver := by
  simp only [Bool.and_eq_true, beq_iff_eq] at hw
  obtain ⟨⟨⟨hver, hms⟩, hcs⟩, hrs⟩ := hw
  simp only [colsShape, Bool.and_eq_true] at hcs
  exact ⟨hver, hms, hmd, colsOkS_of_shape cols hcs.1.2, hc, nodupB_nodup _ hcs.2, rowsOkS_of_shape _ _ rws hrs hr⟩

mutual
/-- every well-formed value with grammar decimals frames through the reference reader's `value` -/
theorem rdV : ∀ v : Val, wfV v = true → strictV v = true → Rd v
  | .null, _, _ => rd_null
  | .remove, _, _ => rd_remove
  | .marker, _, _ => rd_marker
  | .bool b, _, _ => rd_bool b
  | .na, _, _ => rd_na
  | .num n, h, hs => rd_num n (by simpa [wfV] using h) (by simpa [strictV] using hs)
  | .str s, _, _ => rd_str s
  | .uri s, _, _ => rd_uri s
  | .ref id dis, h, _ => rd_ref id dis (by simpa [wfV] using h)
  | .sym s, h, _ => rd_sym s (by simpa [wfV] using h)
  | .date d, h, _ => rd_date d (by simpa [wfV] using h)
  | .time t, h, _ => rd_time t (by simpa [wfV] using h)
  | .dateTime t, h, _ => rd_datetime t (by simpa [wfV] using h)
  | .coord a b, h, hs => by
    simp only [wfV, Bool.and_eq_true] at h
    simp only [strictV, Bool.and_eq_true] at hs
    exact rd_coord a b h.1 h.2 hs.1 hs.2
  | .xstr ty v, h, _ => rd_xstr ty v (by simpa [wfV] using h)
  | .list xs, h, hs => Rd_list xs (rdVs xs (by simpa [wfV] using h) (by simpa [strictV] using hs))
  | .dict d, h, hs => by
    simp only [wfV, Bool.and_eq_true] at h
    exact Rd_dict d h.1.1 h.1.2 (rdT d h.2 (by simpa [strictV] using hs))
  | .grid md cols rws ver, h, hs => by
    simp only [wfV, Bool.and_eq_true] at h
    simp only [strictV, Bool.and_eq_true] at hs
    obtain ⟨⟨⟨hshape, ho⟩, hc⟩, hr⟩ := h
    have hok := gridOkS_of md cols rws ver (by simpa [Bool.and_eq_true] using hshape) (rdO md ho hs.1.1) (rdC cols hc hs.1.2)
      (rdR rws hr hs.2)
    cases cols with
    | nil => simp [colsShape] at hshape
    | cons n cm c => exact Rd_grid md n cm c rws ver hok
theorem rdVs : ∀ xs : Vals, wfVs xs = true → strictVs xs = true → RdVs xs
  | .nil, _, _ => trivial
  | .cons v vs, h, hs => by
    simp only [wfVs, Bool.and_eq_true] at h
    simp only [strictVs, Bool.and_eq_true] at hs
    exact ⟨rdV v h.1 hs.1, rdVs vs h.2 hs.2⟩
theorem rdT : ∀ t : Tags, wfT t = true → strictT t = true → RdT t
  | .nil, _, _ => trivial
  | .cons _ v t, h, hs => by
    simp only [wfT, Bool.and_eq_true] at h
    simp only [strictT, Bool.and_eq_true] at hs
    exact ⟨rdV v h.1 hs.1, rdT t h.2 hs.2⟩
theorem rdO : ∀ o : OTags, wfO o = true → strictO o = true → RdO o
  | .none, _, _ => trivial
  | .some t, h, hs => by
    simp only [wfO] at h
    simp only [strictO] at hs
    exact rdT t h hs
theorem rdC : ∀ c : Cols, wfC c = true → strictC c = true → RdC c
  | .nil, _, _ => trivial
  | .cons _ md c, h, hs => by
    simp only [wfC, Bool.and_eq_true] at h
    simp only [strictC, Bool.and_eq_true] at hs
    exact ⟨rdO md h.1 hs.1, rdC c h.2 hs.2⟩
theorem rdR : ∀ r : Rows, wfR r = true → strictR r = true → RdR r
  | .nil, _, _ => trivial
  | .cons r rs, h, hs => by
    simp only [wfR, Bool.and_eq_true] at h
    simp only [strictR, Bool.and_eq_true] at hs
    exact ⟨rdT r h.1 hs.1, rdR rs h.2 hs.2⟩
end

/-! ### the whole document -/

/-- the top level: a value whose framing statement holds and whose top-level text is its nested text
(everything except a grid) is read back by `read` -/
theorem read_of_Rd {v : Val} (h : Rd v) (he : enc v false = enc v true) : read (encode v) = some (specImg v) := by
  unfold encode read
  rw [he]
  obtain ⟨b, r, e, hb⟩ := h.1
  have hv := h.2 (4 * (enc v true).length + 16) [] (Or.inl rfl) (by omega)
  simp only [List.append_nil] at hv
  have hl : isLower b = false := (start_class hb).2.2.2.2.2.2.2.2
  rw [e] at hv ⊢
  simp only [hl, Bool.false_eq_true, if_false, hv]
  simp

theorem read_grid (md : OTags) (n : List Char) (cm : OTags) (c : Cols) (rws : Rows) (ver : List Char)
    (hok : GridOkS md (.cons n cm c) rws ver) :
    read (encode (.grid md (.cons n cm c) rws ver)) = some (specImg (.grid md (.cons n cm c) rws ver)) := by
  unfold encode read
  rw [enc_grid_top]
  have hlen : (gridBody md (.cons n cm c) rws false []).length =
      11 + (metaPart md).length + colsLen (.cons n cm c)
        + (encRows rws (Cols.names (.cons n cm c)) (Cols.length (.cons n cm c) == 1)).length := by
    have := encCols_length n cm c
    simp only [gridBody, verBytes, tailR, List.length_cons, List.length_append, List.length_nil,
      Bool.false_eq_true, if_false]
    omega
  have hg := grid_rt md n cm c rws ver hok false [] (4 * (gridBody md (.cons n cm c) rws false []).length + 16)
    (by rw [hlen]; omega)
  have hfirst : ∃ t, gridBody md (.cons n cm c) rws false [] = 118 :: t := by
    simp only [gridBody, verBytes, List.cons_append]; exact ⟨_, rfl⟩
  obtain ⟨t, e⟩ := hfirst
  rw [e] at hg ⊢
  simp only [show isLower 118 = true by decide, if_true, hg, afterRows]
  simp

/-- **C04, write direction, for the model**: the reference reader reads the writer's text of every well-formed
value with grammar decimals back as the image of the value -/
theorem read_of_wf : ∀ (v : Val), wfV v = true → strictV v = true → read (encode v) = some (specImg v)
  | .grid md cols rws ver, h, hs => by
    have hrd := rdV _ h hs
    simp only [wfV, Bool.and_eq_true] at h
    simp only [strictV, Bool.and_eq_true] at hs
    obtain ⟨⟨⟨hshape, ho⟩, hc⟩, hr⟩ := h
    have hok := gridOkS_of md cols rws ver (by simpa [Bool.and_eq_true] using hshape) (rdO md ho hs.1.1) (rdC cols hc hs.1.2)
      (rdR rws hr hs.2)
    cases cols with
    | nil => simp [colsShape] at hshape
    | cons n cm c => exact read_grid md n cm c rws ver hok
  | .list xs, h, hs => read_of_Rd (rdV _ h hs) (by rw [enc, enc])
  | .dict d, h, hs => read_of_Rd (rdV _ h hs) (by rw [enc, enc])
  | .null, h, hs => read_of_Rd (rdV _ h hs) (by simp [enc])
  | .remove, h, hs => read_of_Rd (rdV _ h hs) (by simp [enc])
  | .marker, h, hs => read_of_Rd (rdV _ h hs) (by simp [enc])
  | .bool _, h, hs => read_of_Rd (rdV _ h hs) (by simp [enc])
  | .na, h, hs => read_of_Rd (rdV _ h hs) (by simp [enc])
  | .num _, h, hs => read_of_Rd (rdV _ h hs) (by simp [enc])
  | .str _, h, hs => read_of_Rd (rdV _ h hs) (by simp [enc])
  | .uri _, h, hs => read_of_Rd (rdV _ h hs) (by simp [enc])
  | .ref _ _, h, hs => read_of_Rd (rdV _ h hs) (by simp [enc])
  | .sym _, h, hs => read_of_Rd (rdV _ h hs) (by simp [enc])
  | .date _, h, hs => read_of_Rd (rdV _ h hs) (by simp [enc])
  | .time _, h, hs => read_of_Rd (rdV _ h hs) (by simp [enc])
  | .dateTime _, h, hs => read_of_Rd (rdV _ h hs) (by simp [enc])
  | .coord _ _, h, hs => read_of_Rd (rdV _ h hs) (by simp [enc])
  | .xstr _ _, h, hs => read_of_Rd (rdV _ h hs) (by simp [enc])

end Hs.Spec
