/-
  C11, decoder image invariant, part 6: `parse_grid`, the induction on the fuel over the whole mutual block, and the
  statement for `decode::from_str`:

      fromBytes t = .ok v   ⟹   decV v = true  ∧  nestV v ≤ 64          (ANY text t)
-/
import Hs.Lemmas.ZincImageParse2
import Hs.Lemmas.ZincImageWf
namespace Hs.Zinc
open Hs Hs.Scan

/-! ### `Cols.ofList`, `Rows.ofList` -/

theorem names_ofList : ∀ l : List (List Char × OTags), (Cols.ofList l).names = l.map (·.1)
  | [] => rfl
  | (n, md) :: l => by simp [Cols.ofList, Cols.names, names_ofList l]

theorem colsNE_ofList (l : List (List Char × OTags)) (h : l ≠ []) : colsNE (Cols.ofList l) = true := by
  cases l with
  | nil => exact absurd rfl h
  | cons c l => obtain ⟨n, md⟩ := c; rfl

theorem cols_ofList {D : Nat} (hD : D ≤ 64) : ∀ l : List (List Char × OTags), ColsInv D l →
    colsShapeAux (Cols.ofList l) = true ∧ decC (Cols.ofList l) = true ∧ D + nestC (Cols.ofList l) ≤ 65
  | [], _ => ⟨rfl, rfl, by simp [Cols.ofList, nestC]; omega⟩
  | (n, md) :: l, h => by
    obtain ⟨a, b, c⟩ := cols_ofList hD l (fun x hx => h x (by simp [hx]))
    obtain ⟨h1, h2, h3, h4⟩ := h (n, md) (by simp)
    simp only at h1 h2 h3 h4
    refine ⟨by simp [Cols.ofList, colsShapeAux, h1, h2, a], by simp [Cols.ofList, decC, h3, b], ?_⟩
    simp only [Cols.ofList, nestC]
    omega

theorem rows_ofList {D : Nat} (hD : D ≤ 64) (names : List (List Char)) : ∀ l : List Tags, (∀ x ∈ l, RowInv D names x) →
    rowsDec names (Rows.ofList l) = true ∧ decR (Rows.ofList l) = true ∧ D + nestR (Rows.ofList l) ≤ 65
  | [], _ => ⟨rfl, rfl, by simp [Rows.ofList, nestR]; omega⟩
  | r :: l, h => by
    obtain ⟨a, b, c⟩ := rows_ofList hD names l (fun x hx => h x (by simp [hx]))
    obtain ⟨h1, h2, h3⟩ := h r (by simp)
    refine ⟨by simp [Rows.ofList, rowsDec, h1, a], by simp [Rows.ofList, decR, h2, b], ?_⟩
    simp only [Rows.ofList, nestR]
    omega

/-! ### `parse_grid` -/

theorem grid_step (f : Nat) (hGH : S_gridHeader f) (hRS : S_rowsLoop f) : S_coll parseGrid (f + 1) := by
  intro D p v p' hD hp h
  rw [parseGrid] at h
  split at h
  · rename_i md cols ver r hgh
    obtain ⟨m1, m2, m3, hcs, hne, hpr⟩ := hGH D p md cols ver r hD hp hgh
    split at h
    · rename_i rows r1 hrl
      obtain ⟨hrows, hp1⟩ := hRS D r (cols.map (·.1)) [] rows r1 hD hpr (by intro x hx; simp at hx) hrl
      simp only [Res.ok.injEq, Prod.mk.injEq] at h
      obtain ⟨rfl, rfl⟩ := h
      obtain ⟨c1, c2, c3⟩ := cols_ofList hD cols hcs
      obtain ⟨r1', r2, r3⟩ := rows_ofList hD _ rows hrows
      refine ⟨?_, ?_, hp1⟩
      · simp only [decV, Bool.and_eq_true, names_ofList]
        exact ⟨⟨⟨⟨⟨⟨m1, colsNE_ofList cols hne⟩, c1⟩, r1'⟩, m2⟩, c2⟩, r2⟩
      · simp only [nestV]
        omega
    all_goals simp at h
  all_goals simp at h

/-! ### all functions of the mutual block, by induction on the fuel -/

structure AllInv (f : Nat) : Prop where
  value : S_value f
  list : S_coll parseList f
  listLoop : S_listLoop f
  dict : S_coll parseDict f
  dictParts : S_dictParts f
  colMeta : S_colMeta f
  gridColumns : S_gridColumns f
  rowLoop : S_rowLoop f
  rowNext : S_rowNext f
  rowsLoop : S_rowsLoop f
  gridHeader : S_gridHeader f
  grid : S_coll parseGrid f

theorem allInv : ∀ f : Nat, AllInv f
  | 0 => by
    refine ⟨?_, ?_, ?_, ?_, ?_, ?_, ?_, ?_, ?_, ?_, ?_, ?_⟩
    · intro d p v p' _ h; simp [parseValue] at h
    · intro D p v p' _ _ h; simp [parseList] at h
    · intro D p ec acc v p' _ _ h; simp [listLoop] at h
    · intro D p v p' _ _ h; simp [parseDict] at h
    · intro D p ec acc kvs p' _ _ _ h; simp [dictParts] at h
    · intro D p acc kvs p' _ _ _ h; simp [colMeta] at h
    · intro D p acc cols p' _ _ h; simp [gridColumns] at h
    · intro D p cols n acc kvs p' _ _ h; simp [rowLoop] at h
    · intro D r cols o r' _ _ h; simp [rowNext] at h
    · intro D r cols acc rows r' _ _ _ h; simp [rowsLoop] at h
    · intro D p md cols ver r _ _ h; simp [gridHeader] at h
    · intro D p v p' _ _ h; simp [parseGrid] at h
  | f + 1 => by
    have ih := allInv f
    exact {
      value := value_step f ih.list ih.dict ih.grid
      list := list_step f ih.listLoop
      listLoop := listLoop_step f ih.value ih.listLoop
      dict := dict_step f ih.dictParts
      dictParts := dictParts_step f ih.value ih.dictParts
      colMeta := colMeta_step f ih.value ih.colMeta
      gridColumns := gridColumns_step f ih.colMeta ih.gridColumns
      rowLoop := rowLoop_step f ih.value ih.rowLoop
      rowNext := rowNext_step f ih.rowLoop
      rowsLoop := rowsLoop_step' f ih.rowNext ih.rowsLoop
      gridHeader := gridHeader_step f ih.dictParts ih.gridColumns
      grid := grid_step f ih.gridHeader ih.rowsLoop }

/-- **the image invariant of `decode::from_str`**: whatever the text, an accepted text decodes to a value of the
reader's shape, nested at most 64 deep -/
theorem fromBytes_image (t : List UInt8) (v : Val) (h : fromBytes t = .ok v) : decV v = true ∧ nestV v ≤ 64 := by
  unfold fromBytes at h
  simp only [] at h
  split at h
  · rename_i p hl
    have hp : PSok p := lexRead_img _ _ _ hl
    split at h
    · rename_i w p' hv
      simp only [Res.ok.injEq] at h
      subst h
      obtain ⟨⟨a, b⟩, _⟩ := (allInv _).value 0 p w p' hp hv
      exact ⟨a, by omega⟩
    all_goals simp at h
  all_goals simp at h

/-- **re-encode stability from the image invariant**: a decoded value that is not on the exclusion list and is
nested less than 64 deep is the value the reader returns for its own re-encoding, provided its lexical leaves are
lexemes C01's round trip covers -/
theorem fromBytes_stable (t : List UInt8) (v : Val) (h : fromBytes t = .ok v) (hl : lexLeavesOk v = true)
    (hx : excluded v = false) (hn : depthOk v = true) : fromBytes (encode (asRead v)) = .ok v := by
  obtain ⟨hd, _⟩ := fromBytes_image t v h
  obtain ⟨a, b⟩ := image_good v hd hl (badNode_false v hx)
  have hn' : nestV (asRead v) < 64 := by
    rw [nest_asRead]; simpa [depthOk] using hn
  rw [fromBytes_of_GoodVG (asRead v) a hn', b]

end Hs.Zinc
