/-
  C01 ladder, rung 5 (grids, part 1): one row line through `rowLoop` (`parse_row`): cells in column order,
  missing cells are empty, separated by `,`.
-/
import Hs.Lemmas.ZincRtDict
namespace Hs.Zinc
open Hs Hs.Scan

/-- the bytes of the cell of column `n` in row `r` -/
def cellBytes (r : Tags) (n : List Char) (single : Bool) : List UInt8 :=
  match r.get? n with
  | some v => enc v true
  | none => if single then [78] else []

theorem cellOf_encCells : ∀ (r : Tags) (n : List Char) (single : Bool),
    cellOf (encCells r) n single = cellBytes r n single
  | .nil, n, single => by simp [cellOf, encCells, cellBytes, Tags.get?]
  | .cons k v t, n, single => by
    have ih := cellOf_encCells t n single
    by_cases hk : k = n
    · simp [cellOf, encCells, cellBytes, Tags.get?, hk]
    · have hk' : (k == n) = false := by simpa using hk
      simp only [cellOf, encCells, cellBytes, Tags.get?, hk, if_false, List.find?_cons, hk'] at ih ⊢
      exact ih

/-- the row line in terms of `cellBytes` -/
def rowBytes (r : Tags) : List (List Char) → Bool → List UInt8
  | [], _ => []
  | [n], single => cellBytes r n single
  | n :: n2 :: ns, single => cellBytes r n single ++ 44 :: rowBytes r (n2 :: ns) single

theorem rowLine_encCells (r : Tags) (single : Bool) : ∀ ns : List (List Char),
    rowLine (encCells r) ns single = rowBytes r ns single
  | [] => rfl
  | [n] => by simp [rowLine, rowBytes, cellOf_encCells]
  | n :: n2 :: ns => by
    have ih := rowLine_encCells r single (n2 :: ns)
    simp [rowLine, rowBytes, cellOf_encCells, ih]

/-- the `(column, value)` pairs the reader collects for a row -/
def cellsOf (r : Tags) (ns : List (List Char)) : List (List Char × Val) :=
  ns.filterMap (fun n => (r.get? n).map (fun v => (n, lexImg v)))

/-- every present cell of the columns `ns` satisfies its framing statement; in a single-column grid the
cell is present -/
def CellsOk (r : Tags) (ns : List (List Char)) (single : Bool) : Prop :=
  ∀ n ∈ ns, (∀ v, r.get? n = some v → RdVal v) ∧ (single = true → r.get? n ≠ none)

theorem nest_get? : ∀ (r : Tags) (n : List Char) (v : Val), r.get? n = some v → nestV v + 1 ≤ nestT r
  | .nil, _, _, h => by simp [Tags.get?] at h
  | .cons k w t, n, v, h => by
    simp only [nestT]
    by_cases hk : k = n
    · simp only [Tags.get?, hk, if_true, Option.some.injEq] at h
      subst h; omega
    · simp only [Tags.get?, hk, if_false] at h
      have := nest_get? t n v h
      omega

theorem tokNone_ch (s : Scan) (c : UInt8) : PS.tokNone { sc := s, tok := .ch c } = false := rfl

theorem rowLoop_rt (r : Tags) (names : List (List Char)) (single : Bool) :
    ∀ (ns : List (List Char)) (c : Nat), ns ≠ [] → names.drop c = ns →
    ∀ (depth f1 f2 : Nat) (sc : Scan) (acc : List (List Char × Val)) (rest : List UInt8),
    CellsOk r ns single → depth + nestT r ≤ 64 →
    At sc (rowBytes r ns single ++ 10 :: rest) → sc.stash = [] →
    4 * (rowBytes r ns single).length + 12 ≤ f1 → 4 * (rowBytes r ns single).length + 12 ≤ f2 →
    ∃ p p', lexRead f1 sc = .ok p ∧ rowLoop f2 depth p names c acc = .ok (acc ++ cellsOf r ns, p') ∧
      p'.tok = .ch 10 ∧ At p'.sc rest ∧ p'.sc.stash = [] ∧
      ((2 ≤ ns.length ∨ single = true) → p.sc.eof = false ∧ PS.isChar p 10 = false ∧ PS.isChar p 62 = false) := by
  intro ns
  induction ns with
  | nil => intro c h; exact absurd rfl h
  | cons n ns' ih =>
    intro c _ hdrop depth f1 f2 sc acc rest hok hdepth hat hs hf1 hf2
    have hname : names[c]? = some n := by
      have := congrArg List.head? hdrop
      simpa [List.head?_drop] using this
    have hdrop' : names.drop (c + 1) = ns' := by
      have := congrArg List.tail hdrop
      simpa [List.tail_drop] using this
    obtain ⟨hcell, hsingle⟩ := hok n (by simp)
    obtain ⟨g1, rfl⟩ : ∃ g, f1 = g + 1 := ⟨f1 - 1, by omega⟩
    obtain ⟨g2, rfl⟩ : ∃ g, f2 = g + 2 := ⟨f2 - 2, by omega⟩
    cases ns' with
    | nil =>
      -- last column
      simp only [rowBytes] at hat hf1 hf2
      cases hget : r.get? n with
      | none =>
        have hsf : single = false := by
          cases single with
          | false => rfl
          | true => exact absurd hget (hsingle rfl)
        simp only [cellBytes, hget, hsf, Bool.false_eq_true, if_false, List.nil_append] at hat
        refine ⟨{ sc := sc.advance, tok := .ch 10 }, { sc := sc.advance, tok := .ch 10 },
          lexRead_special hat (by decide) (by decide) g1, ?_, rfl, hat.advance,
          by rw [At.advance_stash, hs]; rfl, ?_⟩
        · rw [rowLoop]
          simp [isChar_ch, cellsOf, hget]
        · intro h; rcases h with h | h
          · simp at h
          · rw [hsf] at h; cases h
      | some v =>
        simp only [cellBytes, hget] at hat hf1 hf2
        have hrd := hcell v hget
        have hnest : depth + nestV v < 64 := by have := nest_get? r n v hget; omega
        obtain ⟨p, p1, e1, hne1, hst, e2, hp1⟩ := hrd depth (g1 + 1) (g2 + 1) sc (10 :: rest) hat hs
          (Or.inr (Or.inl ⟨_, _, rfl, by simp⟩)) (by omega) (by omega) hnest
        refine ⟨p, { sc := p1.sc.advance, tok := .ch 10 }, e1, ?_, rfl, hp1.1.advance,
          by rw [At.advance_stash, hp1.clean (by decide)]; rfl,
          fun _ => ⟨hne1 (by simp), hst.isChar 10 (by decide), hst.isChar 62 (by decide)⟩⟩
        rw [rowLoop]
        simp only [hst.isChar 44 (by decide), hst.isChar 10 (by decide), hst.tokNone, Bool.false_eq_true, if_false,
          e2, hname, PS.read, lexRead_special hp1.1 (by decide) (by decide) g2]
        rw [rowLoop]
        simp [isChar_ch, cellsOf, hget]
    | cons n2 ns'' =>
      simp only [rowBytes, List.append_assoc, List.cons_append, List.length_append, List.length_cons] at hat hf1 hf2
      have hok' : CellsOk r (n2 :: ns'') single := fun x hx => hok x (by simp [hx])
      cases hget : r.get? n with
      | none =>
        have hsf : single = false := by
          cases single with
          | false => rfl
          | true => exact absurd hget (hsingle rfl)
        simp only [cellBytes, hget, hsf, Bool.false_eq_true, if_false, List.nil_append, List.length_nil] at hat hf1 hf2
        rw [← hsf] at hat hf1 hf2
        obtain ⟨p, p', e1, e2, ht, h', hs', _⟩ := ih (c + 1) (by simp) hdrop' depth (g2 + 1) (g2 + 1) sc.advance acc rest
          hok' hdepth hat.advance (by rw [At.advance_stash, hs]; rfl) (by omega) (by omega)
        have heof : sc.advance.eof = false := by
          cases hx : rowBytes r (n2 :: ns'') single ++ 10 :: rest with
          | nil => simp at hx
          | cons b rr => have := hat.advance; rw [hx] at this; exact this.eof
        refine ⟨{ sc := sc.advance, tok := .ch 44 }, p', lexRead_special hat (by decide) (by decide) g1, ?_, ht, h', hs',
          fun _ => ⟨heof, by simp [isChar_ch], by simp [isChar_ch]⟩⟩
        rw [rowLoop]
        simp only [isChar_ch, PS.read, e1]
        simp [e2, cellsOf, hget]
      | some v =>
        simp only [cellBytes, hget] at hat hf1 hf2
        have hrd := hcell v hget
        have hnest : depth + nestV v < 64 := by have := nest_get? r n v hget; omega
        obtain ⟨p, p1, e1, hne1, hst, e2, hp1⟩ := hrd depth (g1 + 1) (g2 + 1) sc (44 :: (rowBytes r (n2 :: ns'') single ++ 10 :: rest))
          hat hs (Or.inr (Or.inl ⟨_, _, rfl, by simp⟩)) (by omega) (by omega) hnest
        obtain ⟨g3, rfl⟩ : ∃ g, g2 = g + 1 := ⟨g2 - 1, by omega⟩
        obtain ⟨q, p', e3, e4, ht, h', hs', _⟩ := ih (c + 1) (by simp) hdrop' depth (g3 + 1) (g3 + 1) p1.sc.advance
          (acc ++ [(n, lexImg v)]) rest hok' hdepth hp1.1.advance
          (by rw [At.advance_stash, hp1.clean (by decide)]; rfl) (by omega) (by omega)
        refine ⟨p, p', e1, ?_, ht, h', hs',
          fun _ => ⟨hne1 (by simp), hst.isChar 10 (by decide), hst.isChar 62 (by decide)⟩⟩
        rw [rowLoop]
        simp only [hst.isChar 44 (by decide), hst.isChar 10 (by decide), hst.tokNone, Bool.false_eq_true, if_false,
          e2, hname, PS.read, lexRead_special hp1.1 (by decide) (by decide) (g3 + 1)]
        rw [rowLoop]
        simp only [isChar_ch, PS.read, e3]
        simp [e4, cellsOf, hget]

end Hs.Zinc
