/-
  Hs.Lemmas.CmpOrd — `Val.cmp` (the model of `Ord for Value`) behaves like a total preorder at
  every NaN-free value, against all NaN-free values.  Structural induction on the first argument.
-/
import Hs.Model.Cmp
import Hs.Lemmas.Ord
namespace Hs

theorem OrdAt.congrOn {α} {P : α → Prop} {c c' : α → α → Ordering} {a : α}
    (h : OrdAt P c a) (ha : P a) (hc : ∀ x y, P x → P y → c' x y = c x y) : OrdAt P c' a := by
  refine ⟨?_, ?_, ?_, ?_, ?_, ?_⟩
  · intro b hb; rw [hc b a hb ha, hc a b ha hb]; exact h.swap b hb
  all_goals intro b d hb hd; rw [hc a b ha hb, hc a d ha hd, hc b d hb hd]
  · exact h.eq_l b d hb hd
  · exact h.lt_lt b d hb hd
  · exact h.lt_eq b d hb hd
  · exact h.gt_gt b d hb hd
  · exact h.gt_eq b d hb hd

/-! ### generic lists -/

def unconsL {α} : List α → Option (α × List α)
  | [] => none
  | a :: as => some (a, as)

theorem cmpList_eq {α} (c : α → α → Ordering) (x y : List α) :
    cmpList c x y =
      cmpOptG (fun p q : α × List α => (c p.1 q.1).then (cmpList c p.2 q.2)) (unconsL x) (unconsL y) := by
  cases x <;> cases y <;> rfl

theorem OrdAt.list {α} {P : α → Prop} {c : α → α → Ordering} :
    ∀ (l : List α), (∀ x ∈ l, OrdAt P c x) → OrdAt (fun l' => ∀ y ∈ l', P y) (cmpList c) l
  | [], _ => by
    have h := (OrdAt.opt (P := fun p : α × List α => P p.1 ∧ ∀ y ∈ p.2, P y)
      (c := fun p q => (c p.1 q.1).then (cmpList c p.2 q.2)) (o := none)
      (fun a h => by cases h)).comap unconsL (a := ([] : List α))
    refine (h.congr (cmpList_eq c)).mono ?_
    intro x hx; cases x with
    | nil => trivial
    | cons a as => exact ⟨hx a (by simp), fun y hy => hx y (by simp [hy])⟩
  | a :: as, hl => by
    have ih := OrdAt.list as (fun x hx => hl x (by simp [hx]))
    have h := (OrdAt.opt (o := some (a, as))
      (fun p hp => by cases hp; exact OrdAt.lex (hl a (by simp)) ih)).comap unconsL (a := a :: as)
    refine (h.congr (cmpList_eq c)).mono ?_
    intro x hx; cases x with
    | nil => trivial
    | cons b bs => exact ⟨hx b (by simp), fun y hy => hx y (by simp [hy])⟩

theorem cmpChars_eq : ∀ x y, cmpChars x y = cmpList (fun a b : Char => compare a.toNat b.toNat) x y
  | [], [] => rfl
  | [], _ :: _ => rfl
  | _ :: _, [] => rfl
  | a :: as, b :: bs => by simp [cmpChars, cmpList, cmpChars_eq as bs]

theorem ordAt_chars {P : List Char → Prop} (s : List Char) : OrdAt P cmpChars s :=
  (((OrdAt.list (P := fun _ => True) s (fun x _ => OrdAt.ofNatKey Char.toNat x)).congr cmpChars_eq).mono
    (fun _ _ _ _ => trivial))

theorem cmpOpt_eq {α} (c : α → α → Ordering) (x y : Option α) : cmpOpt c x y = cmpOptG c x y := by
  cases x <;> cases y <;> rfl

theorem ordAt_optChars {P : Option (List Char) → Prop} (s : Option (List Char)) :
    OrdAt P (cmpOpt cmpChars) s :=
  (((OrdAt.opt (P := fun _ => True) (o := s) (fun a _ => ordAt_chars a)).congr (cmpOpt_eq _)).mono
    (fun _ _ => by cases ‹Option (List Char)› <;> trivial))

theorem ordAt_keysList {P : List (List Char) → Prop} (l : List (List Char)) :
    OrdAt P (cmpList cmpChars) l :=
  ((OrdAt.list (P := fun _ => True) l (fun x _ => ordAt_chars x)).mono (fun _ _ _ _ => trivial))

/-! ### scalars -/

theorem Flt.flt_of (x y : Flt) (hx : x.isNaN = false) (hy : y.isNaN = false) :
    x.flt y = decide (x.key < y.key) := by simp [Flt.flt, hx, hy]
theorem Flt.feq_of (x y : Flt) (hx : x.isNaN = false) (hy : y.isNaN = false) :
    x.feq y = decide (x.key = y.key) := by simp [Flt.feq, hx, hy]

theorem Num.cmp_of (a b : Num) (ha : a.v.isNaN = false) (hb : b.v.isNaN = false) :
    a.cmp b = (compare a.v.key b.v.key).then (cmpOpt cmpChars a.unit b.unit) := by
  unfold Num.cmp
  rw [Flt.flt_of _ _ ha hb, Flt.feq_of _ _ ha hb]
  rcases Int.lt_trichotomy a.v.key b.v.key with h | h | h
  · simp [h, Int.compare_eq_lt.2 h, Ordering.then]
  · simp [h, Ordering.then]
  · have h1 : ¬ a.v.key < b.v.key := by omega
    have h2 : ¬ a.v.key = b.v.key := by omega
    simp [h1, h2, Int.compare_eq_gt.2 h, Ordering.then]

theorem ordAt_num (a : Num) (ha : a.v.isNaN = false) :
    OrdAt (fun n : Num => n.v.isNaN = false) Num.cmp a := by
  have h := (OrdAt.lex (P1 := fun _ => True) (P2 := fun _ => True)
      (OrdAt.ofIntKey (fun k : Int => k) a.v.key) (ordAt_optChars a.unit)).comap
      (fun n : Num => (n.v.key, n.unit)) (a := a)
  exact (h.mono (fun _ _ => ⟨trivial, trivial⟩)).congrOn ha (fun x y hx hy => Num.cmp_of x y hx hy)

theorem coordCmp_of (a1 a2 b1 b2 : Flt) (h1 : a1.isNaN = false) (h2 : a2.isNaN = false)
    (h3 : b1.isNaN = false) (h4 : b2.isNaN = false) :
    coordCmp a1 a2 b1 b2 = (compare a1.key b1.key).then (compare a2.key b2.key) := by
  unfold coordCmp
  rw [Flt.flt_of _ _ h1 h3, Flt.flt_of _ _ h3 h1, Flt.flt_of _ _ h2 h4, Flt.flt_of _ _ h4 h2]
  rcases Int.lt_trichotomy a1.key b1.key with h | h | h
  · simp [h, Int.compare_eq_lt.2 h, Ordering.then]
  · rcases Int.lt_trichotomy a2.key b2.key with h' | h' | h'
    · simp [h, h', Int.compare_eq_lt.2 h', Ordering.then]
    · simp [h, h', Ordering.then]
    · have : ¬ a2.key < b2.key := by omega
      simp [h, h', this, Int.compare_eq_gt.2 h', Ordering.then]
  · have : ¬ a1.key < b1.key := by omega
    simp [h, this, Int.compare_eq_gt.2 h, Ordering.then]

theorem ordAt_coord (a : Flt × Flt) (ha : a.1.isNaN = false ∧ a.2.isNaN = false) :
    OrdAt (fun p : Flt × Flt => p.1.isNaN = false ∧ p.2.isNaN = false)
      (fun p q => coordCmp p.1 p.2 q.1 q.2) a := by
  have h := (OrdAt.lex (P1 := fun _ => True) (P2 := fun _ => True)
      (OrdAt.ofIntKey (fun k : Int => k) a.1.key) (OrdAt.ofIntKey (fun k : Int => k) a.2.key)).comap
      (fun p : Flt × Flt => (p.1.key, p.2.key)) (a := a)
  exact (h.mono (fun _ _ => ⟨trivial, trivial⟩)).congrOn ha
    (fun x y hx hy => coordCmp_of _ _ _ _ hx.1 hx.2 hy.1 hy.2)

theorem ordAt_date {P : Date → Prop} (a : Date) : OrdAt P Date.cmp a := by
  have h := (OrdAt.lex (P1 := fun _ => True) (P2 := fun _ => True)
      (OrdAt.ofIntKey (fun k : Int => k) a.y)
      ((OrdAt.lex (P1 := fun _ => True) (P2 := fun _ => True)
        (OrdAt.ofNatKey (fun k : Nat => k) a.m) (OrdAt.ofNatKey (fun k : Nat => k) a.d)).mono
        (Q := fun _ => True) (fun _ _ => ⟨trivial, trivial⟩))).comap
      (fun d : Date => (d.y, (d.m, d.d))) (a := a)
  exact (h.mono (fun _ _ => ⟨trivial, trivial⟩)).congr (fun _ _ => rfl)

theorem ordAt_time {P : Time → Prop} (a : Time) : OrdAt P Time.cmp a := by
  have h := (OrdAt.lex (P1 := fun _ => True) (P2 := fun _ => True)
      (OrdAt.ofNatKey (fun k : Nat => k) a.secs) (OrdAt.ofNatKey (fun k : Nat => k) a.ns)).comap
      (fun d : Time => (d.secs, d.ns)) (a := a)
  exact (h.mono (fun _ _ => ⟨trivial, trivial⟩)).congr (fun _ _ => rfl)

theorem ordAt_dateTime {P : DateTime → Prop} (a : DateTime) : OrdAt P DateTime.cmp a := by
  have h := (OrdAt.lex (P1 := fun _ => True) (P2 := fun _ => True)
      (OrdAt.ofIntKey (fun k : Int => k) a.secs) (OrdAt.ofNatKey (fun k : Nat => k) a.ns)).comap
      (fun d : DateTime => (d.secs, d.ns)) (a := a)
  exact (h.mono (fun _ _ => ⟨trivial, trivial⟩)).congr (fun _ _ => rfl)

theorem ordAt_xstr {P : List Char × List Char → Prop} (a : List Char × List Char) :
    OrdAt P (fun p q => (cmpChars p.1 q.1).then (cmpChars p.2 q.2)) a :=
  (OrdAt.lex (P1 := fun _ => True) (P2 := fun _ => True) (ordAt_chars a.1) (ordAt_chars a.2)).mono
    (fun _ _ => ⟨trivial, trivial⟩)

/-! ### the mutual family -/

def Vals.uncons : Vals → Option (Val × Vals)
  | .nil => none
  | .cons v vs => some (v, vs)
def Tags.unconsV : Tags → Option (Val × Tags)
  | .nil => none
  | .cons _ v t => some (v, t)
def Cols.uncons : Cols → Option ((List Char × OTags) × Cols)
  | .nil => none
  | .cons n m c => some ((n, m), c)
def Rows.uncons : Rows → Option (Tags × Rows)
  | .nil => none
  | .cons r rs => some (r, rs)

theorem Vals.cmp_eq (x y : Vals) : Vals.cmp x y =
    cmpOptG (fun p q : Val × Vals => (Val.cmp p.1 q.1).then (Vals.cmp p.2 q.2)) x.uncons y.uncons := by
  cases x <;> cases y <;> simp [Vals.cmp, Vals.uncons, cmpOptG]
theorem Tags.cmpVals_eq (x y : Tags) : Tags.cmpVals x y =
    cmpOptG (fun p q : Val × Tags => (Val.cmp p.1 q.1).then (Tags.cmpVals p.2 q.2)) x.unconsV y.unconsV := by
  cases x <;> cases y <;> simp [Tags.cmpVals, Tags.unconsV, cmpOptG]
theorem OTags.cmp_eq (x y : OTags) : OTags.cmp x y = cmpOptG Tags.cmp x.toOption y.toOption := by
  cases x <;> cases y <;> simp [OTags.cmp, OTags.toOption, cmpOptG]
theorem Cols.cmp_eq (x y : Cols) : Cols.cmp x y =
    cmpOptG (fun p q : (List Char × OTags) × Cols =>
      ((cmpChars p.1.1 q.1.1).then (OTags.cmp p.1.2 q.1.2)).then (Cols.cmp p.2 q.2)) x.uncons y.uncons := by
  cases x <;> cases y <;> simp [Cols.cmp, Cols.uncons, cmpOptG]
theorem Rows.cmp_eq (x y : Rows) : Rows.cmp x y =
    cmpOptG (fun p q : Tags × Rows => (Tags.cmp p.1 q.1).then (Rows.cmp p.2 q.2)) x.uncons y.uncons := by
  cases x <;> cases y <;> simp [Rows.cmp, Rows.uncons, cmpOptG]

abbrev NF (v : Val) : Prop := v.nanFree = true
abbrev NFs (v : Vals) : Prop := v.nanFree = true
abbrev NFt (v : Tags) : Prop := v.nanFree = true
abbrev NFo (v : OTags) : Prop := v.nanFree = true
abbrev NFc (v : Cols) : Prop := v.nanFree = true
abbrev NFr (v : Rows) : Prop := v.nanFree = true

/-- `Tags.cmp` from `Tags.cmpVals` (not part of the recursion: same argument). -/
theorem ordAt_tags_of (t : Tags) (h : OrdAt NFt Tags.cmpVals t) : OrdAt NFt Tags.cmp t := by
  have h' := (OrdAt.lex (P1 := fun _ => True) (ordAt_keysList t.keys) h).comap
    (fun t : Tags => (t.keys, t)) (a := t)
  exact (h'.mono (fun _ hx => ⟨trivial, hx⟩)).congr (fun _ _ => by simp only [Tags.cmp])

theorem ordAt_case {β} (mk : β → Val) (c' : β → β → Ordering) (P' : β → Prop) (s : β)
    (hrep : ∀ b, (NF b ∧ b.kindIdx = (mk s).kindIdx) → ∃ b', b = mk b' ∧ P' b')
    (hc : ∀ x y, Val.cmpSame (mk x) (mk y) = c' x y)
    (h : OrdAt P' c' s) : OrdAt NF Val.cmp (mk s) :=
  (OrdAt.keyThen (P := NF) Val.kindIdx (c2 := Val.cmpSame)
    (OrdAt.of_mk (P := fun b => NF b ∧ b.kindIdx = (mk s).kindIdx) mk c' P' hrep hc h)).congr
    (fun x y => by rw [Val.cmp])

set_option hygiene false in
macro "hrep" : tactic => `(tactic|
  (intro b hb; obtain ⟨hn, hk⟩ := hb
   cases b <;> simp [Val.kindIdx] at hk))

mutual
theorem ordAt_val : (a : Val) → NF a → OrdAt NF Val.cmp a
  | .null, _ => ordAt_case (fun _ : Unit => Val.null) (fun _ _ => .eq) (fun _ => True) ()
        (by hrep; exact ⟨(), rfl, trivial⟩) (fun _ _ => by simp only [Val.cmpSame]) (OrdAt.const ())
  | .remove, _ => ordAt_case (fun _ : Unit => Val.remove) (fun _ _ => .eq) (fun _ => True) ()
        (by hrep; exact ⟨(), rfl, trivial⟩) (fun _ _ => by simp only [Val.cmpSame]) (OrdAt.const ())
  | .marker, _ => ordAt_case (fun _ : Unit => Val.marker) (fun _ _ => .eq) (fun _ => True) ()
        (by hrep; exact ⟨(), rfl, trivial⟩) (fun _ _ => by simp only [Val.cmpSame]) (OrdAt.const ())
  | .na, _ => ordAt_case (fun _ : Unit => Val.na) (fun _ _ => .eq) (fun _ => True) ()
        (by hrep; exact ⟨(), rfl, trivial⟩) (fun _ _ => by simp only [Val.cmpSame]) (OrdAt.const ())
  | .bool x, _ => ordAt_case Val.bool (fun a b => compare a.toNat b.toNat) (fun _ => True) x
        (by hrep; exact ⟨_, rfl, trivial⟩) (fun _ _ => by simp only [Val.cmpSame]) (OrdAt.ofNatKey Bool.toNat x)
  | .num x, hx => ordAt_case Val.num Num.cmp (fun n => n.v.isNaN = false) x
        (by hrep; exact ⟨_, rfl, by simpa [NF, Val.nanFree] using hn⟩) (fun _ _ => by simp only [Val.cmpSame])
        (ordAt_num x (by simpa [NF, Val.nanFree] using hx))
  | .str x, _ => ordAt_case Val.str cmpChars (fun _ => True) x
        (by hrep; exact ⟨_, rfl, trivial⟩) (fun _ _ => by simp only [Val.cmpSame]) (ordAt_chars x)
  | .uri x, _ => ordAt_case Val.uri cmpChars (fun _ => True) x
        (by hrep; exact ⟨_, rfl, trivial⟩) (fun _ _ => by simp only [Val.cmpSame]) (ordAt_chars x)
  | .ref x d, _ => ordAt_case (fun p : List Char × Option (List Char) => Val.ref p.1 p.2)
        (fun p q => cmpChars p.1 q.1) (fun _ => True) (x, d)
        (by hrep; exact ⟨(_, _), rfl, trivial⟩) (fun _ _ => by simp only [Val.cmpSame])
        (OrdAt.comap (P := fun _ => True) (c := cmpChars) (Prod.fst : List Char × Option (List Char) → List Char)
          (a := (x, d)) (ordAt_chars x))
  | .sym x, _ => ordAt_case Val.sym cmpChars (fun _ => True) x
        (by hrep; exact ⟨_, rfl, trivial⟩) (fun _ _ => by simp only [Val.cmpSame]) (ordAt_chars x)
  | .date x, _ => ordAt_case Val.date Date.cmp (fun _ => True) x
        (by hrep; exact ⟨_, rfl, trivial⟩) (fun _ _ => by simp only [Val.cmpSame]) (ordAt_date x)
  | .time x, _ => ordAt_case Val.time Time.cmp (fun _ => True) x
        (by hrep; exact ⟨_, rfl, trivial⟩) (fun _ _ => by simp only [Val.cmpSame]) (ordAt_time x)
  | .dateTime x, _ => ordAt_case Val.dateTime DateTime.cmp (fun _ => True) x
        (by hrep; exact ⟨_, rfl, trivial⟩) (fun _ _ => by simp only [Val.cmpSame]) (ordAt_dateTime x)
  | .coord x y, hx => ordAt_case (fun p : Flt × Flt => Val.coord p.1 p.2)
        (fun p q => coordCmp p.1 p.2 q.1 q.2) (fun p => p.1.isNaN = false ∧ p.2.isNaN = false) (x, y)
        (by hrep; exact ⟨(_, _), rfl, by simpa [NF, Val.nanFree] using hn⟩)
        (fun _ _ => by simp only [Val.cmpSame])
        (ordAt_coord (x, y) (by simpa [NF, Val.nanFree] using hx))
  | .xstr x y, _ => ordAt_case (fun p : List Char × List Char => Val.xstr p.1 p.2)
        (fun p q => (cmpChars p.1 q.1).then (cmpChars p.2 q.2)) (fun _ => True) (x, y)
        (by hrep; exact ⟨(_, _), rfl, trivial⟩) (fun _ _ => by simp only [Val.cmpSame])
        (ordAt_xstr (x, y))
  | .list xs, hx => ordAt_case Val.list Vals.cmp NFs xs
        (by hrep; exact ⟨_, rfl, by simpa [NF, NFs, Val.nanFree] using hn⟩)
        (fun _ _ => by simp only [Val.cmpSame])
        (ordAt_vals xs (by simpa [NF, NFs, Val.nanFree] using hx))
  | .dict d, hx => ordAt_case Val.dict Tags.cmp NFt d
        (by hrep; exact ⟨_, rfl, by simpa [NF, NFt, Val.nanFree] using hn⟩)
        (fun _ _ => by simp only [Val.cmpSame])
        (ordAt_tags_of d (ordAt_tagsVals d (by simpa [NF, NFt, Val.nanFree] using hx)))
  | .grid md cols rows ver, hx => by
    have hx' : md.nanFree = true ∧ cols.nanFree = true ∧ rows.nanFree = true := by
      simpa [NF, Val.nanFree, Bool.and_eq_true, and_assoc] using hx
    exact ordAt_case (fun p : OTags × Cols × Rows × List Char => Val.grid p.1 p.2.1 p.2.2.1 p.2.2.2)
        (fun p q => (OTags.cmp p.1 q.1).then ((Cols.cmp p.2.1 q.2.1).then
          ((Rows.cmp p.2.2.1 q.2.2.1).then (cmpChars p.2.2.2 q.2.2.2))))
        (fun p => NFo p.1 ∧ NFc p.2.1 ∧ NFr p.2.2.1 ∧ True) (md, cols, rows, ver)
        (by hrep
            exact ⟨(_, _, _, _), rfl, by
              simpa [NF, NFo, NFc, NFr, Val.nanFree, Bool.and_eq_true, and_assoc] using hn⟩)
        (fun _ _ => by simp only [Val.cmpSame])
        (OrdAt.lex (ordAt_otags md hx'.1) (OrdAt.lex (ordAt_cols cols hx'.2.1)
          (OrdAt.lex (ordAt_rows rows hx'.2.2) (ordAt_chars (P := fun _ => True) ver))))
theorem ordAt_vals : (xs : Vals) → NFs xs → OrdAt NFs Vals.cmp xs
  | .nil, _ => by
    have h := (OrdAt.opt (P := fun p : Val × Vals => NF p.1 ∧ NFs p.2)
      (c := fun p q => (Val.cmp p.1 q.1).then (Vals.cmp p.2 q.2)) (o := none)
      (fun a h => by cases h)).comap Vals.uncons (a := Vals.nil)
    refine (h.congr Vals.cmp_eq).mono ?_
    intro x hx; cases x with
    | nil => trivial
    | cons a as => simpa [NF, NFs, NFt, NFo, NFc, NFr, Vals.uncons, optP, Vals.nanFree] using hx
  | .cons a as, hx => by
    have hx' : a.nanFree = true ∧ as.nanFree = true := by simpa [NF, NFs, NFt, NFo, NFc, NFr, Vals.nanFree] using hx
    have h := (OrdAt.opt (o := some (a, as))
      (fun p hp => by cases hp; exact OrdAt.lex (ordAt_val a hx'.1) (ordAt_vals as hx'.2))).comap
      Vals.uncons (a := Vals.cons a as)
    refine (h.congr Vals.cmp_eq).mono ?_
    intro x hx; cases x with
    | nil => trivial
    | cons b bs => simpa [NF, NFs, NFt, NFo, NFc, NFr, Vals.uncons, optP, Vals.nanFree] using hx
theorem ordAt_tagsVals : (t : Tags) → NFt t → OrdAt NFt Tags.cmpVals t
  | .nil, _ => by
    have h := (OrdAt.opt (P := fun p : Val × Tags => NF p.1 ∧ NFt p.2)
      (c := fun p q => (Val.cmp p.1 q.1).then (Tags.cmpVals p.2 q.2)) (o := none)
      (fun a h => by cases h)).comap Tags.unconsV (a := Tags.nil)
    refine (h.congr Tags.cmpVals_eq).mono ?_
    intro x hx; cases x with
    | nil => trivial
    | cons k a as => simpa [NF, NFs, NFt, NFo, NFc, NFr, Tags.unconsV, optP, Tags.nanFree] using hx
  | .cons k a as, hx => by
    have hx' : a.nanFree = true ∧ as.nanFree = true := by simpa [NF, NFs, NFt, NFo, NFc, NFr, Tags.nanFree] using hx
    have h := (OrdAt.opt (o := some (a, as))
      (fun p hp => by cases hp; exact OrdAt.lex (ordAt_val a hx'.1) (ordAt_tagsVals as hx'.2))).comap
      Tags.unconsV (a := Tags.cons k a as)
    refine (h.congr Tags.cmpVals_eq).mono ?_
    intro x hx; cases x with
    | nil => trivial
    | cons l b bs => simpa [NF, NFs, NFt, NFo, NFc, NFr, Tags.unconsV, optP, Tags.nanFree] using hx
theorem ordAt_otags : (o : OTags) → NFo o → OrdAt NFo OTags.cmp o
  | .none, _ => by
    have h := (OrdAt.opt (P := NFt) (c := Tags.cmp) (o := none) (fun a h => by cases h)).comap
      OTags.toOption (a := OTags.none)
    refine (h.congr OTags.cmp_eq).mono ?_
    intro x hx; cases x with
    | none => trivial
    | some t => simpa [NF, NFs, NFt, NFo, NFc, NFr, OTags.toOption, optP, OTags.nanFree] using hx
  | .some t, hx => by
    have h := (OrdAt.opt (o := some t)
      (fun p hp => by
        cases hp
        exact ordAt_tags_of t (ordAt_tagsVals t (by simpa [NF, NFs, NFt, NFo, NFc, NFr, OTags.nanFree] using hx)))).comap
      OTags.toOption (a := OTags.some t)
    refine (h.congr OTags.cmp_eq).mono ?_
    intro x hx; cases x with
    | none => trivial
    | some t => simpa [NF, NFs, NFt, NFo, NFc, NFr, OTags.toOption, optP, OTags.nanFree] using hx
theorem ordAt_cols : (c : Cols) → NFc c → OrdAt NFc Cols.cmp c
  | .nil, _ => by
    have h := (OrdAt.opt (P := fun p : (List Char × OTags) × Cols => (True ∧ NFo p.1.2) ∧ NFc p.2)
      (c := fun p q => ((cmpChars p.1.1 q.1.1).then (OTags.cmp p.1.2 q.1.2)).then (Cols.cmp p.2 q.2))
      (o := none) (fun a h => by cases h)).comap Cols.uncons (a := Cols.nil)
    refine (h.congr Cols.cmp_eq).mono ?_
    intro x hx; cases x with
    | nil => trivial
    | cons n m c => simpa [NF, NFs, NFt, NFo, NFc, NFr, Cols.uncons, optP, Cols.nanFree] using hx
  | .cons n m c, hx => by
    have hx' : m.nanFree = true ∧ c.nanFree = true := by simpa [NF, NFs, NFt, NFo, NFc, NFr, Cols.nanFree] using hx
    have h := (OrdAt.opt (o := some ((n, m), c))
      (fun p hp => by
        cases hp
        exact OrdAt.lex
          ((OrdAt.lex (ordAt_chars (P := fun _ => True) n) (ordAt_otags m hx'.1)).congr (fun _ _ => rfl))
          (ordAt_cols c hx'.2))).comap Cols.uncons (a := Cols.cons n m c)
    refine (h.congr Cols.cmp_eq).mono ?_
    intro x hx; cases x with
    | nil => trivial
    | cons n' m' c' => simpa [NF, NFs, NFt, NFo, NFc, NFr, Cols.uncons, optP, Cols.nanFree] using hx
theorem ordAt_rows : (r : Rows) → NFr r → OrdAt NFr Rows.cmp r
  | .nil, _ => by
    have h := (OrdAt.opt (P := fun p : Tags × Rows => NFt p.1 ∧ NFr p.2)
      (c := fun p q => (Tags.cmp p.1 q.1).then (Rows.cmp p.2 q.2)) (o := none)
      (fun a h => by cases h)).comap Rows.uncons (a := Rows.nil)
    refine (h.congr Rows.cmp_eq).mono ?_
    intro x hx; cases x with
    | nil => trivial
    | cons a as => simpa [NF, NFs, NFt, NFo, NFc, NFr, Rows.uncons, optP, Rows.nanFree] using hx
  | .cons a as, hx => by
    have hx' : a.nanFree = true ∧ as.nanFree = true := by simpa [NF, NFs, NFt, NFo, NFc, NFr, Rows.nanFree] using hx
    have h := (OrdAt.opt (o := some (a, as))
      (fun p hp => by
        cases hp
        exact OrdAt.lex (ordAt_tags_of a (ordAt_tagsVals a hx'.1)) (ordAt_rows as hx'.2))).comap
      Rows.uncons (a := Rows.cons a as)
    refine (h.congr Rows.cmp_eq).mono ?_
    intro x hx; cases x with
    | nil => trivial
    | cons b bs => simpa [NF, NFs, NFt, NFo, NFc, NFr, Rows.uncons, optP, Rows.nanFree] using hx
end

end Hs
