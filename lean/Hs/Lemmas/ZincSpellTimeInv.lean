/-
  C04 read direction: every legal spelling of a Time (`TimeSp`) has the shape `dd:dd:dd[.d+]` and `mkTime` maps
  it to the time (`TimeInv`).
-/
import Hs.Lemmas.ZincSpellBase
import Hs.Lemmas.ZincRtTok2
namespace Hs.Zinc
open Hs Hs.Scan Hs.Spell

/-! ### the fraction only matters through its first nine digits -/

theorem digitsNat_snoc (fr : List UInt8) (b : UInt8) : digitsNat (fr ++ [b]) = digitsNat fr * 10 + (b.toNat - 48) := by
  simp [digitsNat, List.foldl_append]

theorem fracNanos_snoc_zero (fr : List UInt8) : fracNanos (fr ++ [48]) = fracNanos fr := by
  unfold fracNanos
  by_cases hl : 9 ≤ fr.length
  · rw [List.take_append_of_le_length hl]
  · have hl' : fr.length < 9 := by omega
    have e1 : (fr ++ [48]).take 9 = fr ++ [48] := List.take_of_length_le (by simp; omega)
    have e2 : fr.take 9 = fr := List.take_of_length_le (by omega)
    simp only [e1, e2, digitsNat_snoc, List.length_append, List.length_cons, List.length_nil]
    have e3 : 9 - fr.length = (9 - (fr.length + 0 + 1)) + 1 := by omega
    rw [e3, Nat.pow_succ]
    simp only [UInt8.reduceToNat, Nat.sub_self, Nat.add_zero]
    rw [Nat.mul_assoc, Nat.mul_comm 10]

theorem fracNanos_zero : fracNanos [48] = 0 := by decide

theorem mkTime_frac_congr (hms f g : List UInt8) (hf : f ≠ []) (hg : g ≠ []) (e : fracNanos f = fracNanos g) :
    mkTime hms (some f) = mkTime hms (some g) := by
  cases f with
  | nil => exact absurd rfl hf
  | cons a f =>
    cases g with
    | nil => exact absurd rfl hg
    | cons b g =>
      unfold mkTime
      simp only [List.isEmpty_cons, e]

theorem mkTime_frac_zero (hms f : List UInt8) (hf : f ≠ []) (e : fracNanos f = 0) :
    mkTime hms (some f) = mkTime hms none := by
  cases f with
  | nil => exact absurd rfl hf
  | cons a f =>
    unfold mkTime
    simp only [List.isEmpty_cons, e, Bool.not_false]

/-! ### the invariant -/

/-- `bs` is `dd:dd:dd` or `dd:dd:dd.d+` and `mkTime` maps it to `t` -/
def TimeInv (t : Time) (bs : List UInt8) : Prop :=
  ∃ h0 h1 m0 m1 s0 s1 tl, bs = h0 :: h1 :: 58 :: m0 :: m1 :: 58 :: s0 :: s1 :: tl ∧
    isDigitB h0 = true ∧ isDigitB h1 = true ∧ isDigitB m0 = true ∧ isDigitB m1 = true ∧
    isDigitB s0 = true ∧ isDigitB s1 = true ∧
    ((tl = [] ∧ mkTime [h0, h1, 58, m0, m1, 58, s0, s1] none = some t) ∨
     (∃ f0 fr, tl = 46 :: f0 :: fr ∧ (∀ b ∈ f0 :: fr, isDigitB b = true) ∧
        mkTime [h0, h1, 58, m0, m1, 58, s0, s1] (some (f0 :: fr)) = some t))

theorem timeInv_canon (t : Time) (hok : timeOk t = true) : TimeInv t (encChars t.txt) := by
  simp only [timeOk, Bool.and_eq_true] at hok
  obtain ⟨hasc, hm⟩ := hok
  rw [encChars_all_ascii hasc]
  split at hm
  · rename_i h0 h1 m0 m1 s0 s1 tl heq
    simp only [Bool.and_eq_true] at hm
    obtain ⟨⟨⟨⟨⟨⟨hh0, hh1⟩, hm0⟩, hm1⟩, hs0⟩, hs1⟩, htl⟩ := hm
    refine ⟨h0, h1, m0, m1, s0, s1, tl, heq, hh0, hh1, hm0, hm1, hs0, hs1, ?_⟩
    split at htl
    · simp only [beq_iff_eq] at htl
      exact Or.inl ⟨rfl, htl⟩
    · rename_i f0 fr
      simp only [Bool.and_eq_true, beq_iff_eq, List.all_eq_true] at htl
      exact Or.inr ⟨f0, fr, rfl, htl.1, htl.2⟩
    · simp at htl
  · simp at hm

theorem timeInv_of_sp (t : Time) (hok : timeOk t = true) (bs : List UInt8) (hsp : TimeSp t bs) : TimeInv t bs := by
  induction hsp with
  | canon => exact timeInv_canon t hok
  | dot0 bs _ hl ih =>
    obtain ⟨h0, h1, m0, m1, s0, s1, tl, rfl, hh0, hh1, hm0, hm1, hs0, hs1, htl⟩ := ih
    have htl0 : tl = [] := by
      simp only [List.length_cons] at hl
      exact List.eq_nil_of_length_eq_zero (by omega)
    subst htl0
    refine ⟨h0, h1, m0, m1, s0, s1, [46, 48], rfl, hh0, hh1, hm0, hm1, hs0, hs1, Or.inr ⟨48, [], rfl, ?_, ?_⟩⟩
    · intro b hb; simp only [List.mem_cons, List.not_mem_nil, or_false] at hb; subst hb; decide
    · rcases htl with ⟨_, hmk⟩ | ⟨f0, fr, e, _⟩
      · rw [mkTime_frac_zero _ [48] (by simp) fracNanos_zero]; exact hmk
      · cases e
  | pad bs _ h1 h2 ih =>
    obtain ⟨h0, h1', m0, m1, s0, s1, tl, rfl, hh0, hh1, hm0, hm1, hs0, hs1, htl⟩ := ih
    rcases htl with ⟨rfl, _⟩ | ⟨f0, fr, rfl, hdig, hmk⟩
    · simp at h1
    · refine ⟨h0, h1', m0, m1, s0, s1, 46 :: f0 :: (fr ++ [48]), by simp, hh0, hh1, hm0, hm1, hs0, hs1,
        Or.inr ⟨f0, fr ++ [48], rfl, ?_, ?_⟩⟩
      · intro b hb
        simp only [List.mem_cons, List.mem_append, List.not_mem_nil, or_false] at hb
        rcases hb with rfl | hb | rfl
        · exact hdig _ (by simp)
        · exact hdig _ (by simp [hb])
        · decide
      · rw [← hmk]
        exact mkTime_frac_congr _ _ _ (by simp) (by simp) (fracNanos_snoc_zero (f0 :: fr))
  | unpad bs _ h1 ih =>
    obtain ⟨h0, h1', m0, m1, s0, s1, tl, e, hh0, hh1, hm0, hm1, hs0, hs1, htl⟩ := ih
    have hlen := congrArg List.length e
    simp only [List.length_append, List.length_cons, List.length_nil] at hlen
    rcases htl with ⟨rfl, _⟩ | ⟨f0, fr, rfl, hdig, hmk⟩
    · simp at hlen; omega
    · simp only [List.length_cons] at hlen
      rcases List.eq_nil_or_concat fr with rfl | ⟨fr', x, hfr⟩
      · simp at hlen; omega
      · rw [List.concat_eq_append] at hfr
        subst hfr
        have e' : bs ++ [48] = (h0 :: h1' :: 58 :: m0 :: m1 :: 58 :: s0 :: s1 :: 46 :: f0 :: fr') ++ [x] := by
          rw [e]; simp
        have hbs := List.append_inj_left' e' rfl
        have hx := List.append_inj_right' e' rfl
        simp only [List.cons.injEq, and_true] at hx
        subst hx
        refine ⟨h0, h1', m0, m1, s0, s1, 46 :: f0 :: fr', hbs, hh0, hh1, hm0, hm1, hs0, hs1,
          Or.inr ⟨f0, fr', rfl, ?_, ?_⟩⟩
        · intro b hb
          apply hdig
          simp only [List.mem_cons, List.mem_append] at hb ⊢
          rcases hb with rfl | hb
          · exact Or.inl rfl
          · exact Or.inr (Or.inl hb)
        · rw [← hmk]
          exact mkTime_frac_congr _ _ _ (by simp) (by simp) (fracNanos_snoc_zero (f0 :: fr')).symm

end Hs.Zinc
