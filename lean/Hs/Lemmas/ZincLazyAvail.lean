/-
  C11 (lazy rows), part 10: rows are available as soon as they have been received.  For a well-formed top-level grid
  whose rows are `rowsP` followed by `rn` and `more`: cut the writer's text one byte after the first token of the
  line of `rn` and append ANY bytes; the first `rowsP.length` calls of the iterator still hand out the rows `rowsP`,
  with the same byte counts.
-/
import Hs.Lemmas.ZincLazyPrefixGrid
namespace Hs.Zinc
open Hs Hs.Scan

/-- concatenation of row lists -/
def Rows.app : Rows → Rows → Rows
  | .nil, b => b
  | .cons r rs, b => .cons r (Rows.app rs b)

theorem encRows_app (names : List (List Char)) (single : Bool) : ∀ a b : Rows,
    encRows (Rows.app a b) names single = encRows a names single ++ encRows b names single
  | .nil, b => by simp [Rows.app, encRows]
  | .cons r rs, b => by
    simp only [Rows.app]
    rw [encRows_cons, encRows_cons, encRows_app names single rs b]; simp

theorem rowsOk_app (names : List (List Char)) (single : Bool) : ∀ a b : Rows,
    RowsOk names single (Rows.app a b) → RowsOk names single a ∧ RowsOk names single b
  | .nil, b, h => ⟨trivial, h⟩
  | .cons r rs, b, h => by
    simp only [Rows.app, RowsOk] at h ⊢
    obtain ⟨h1, h2⟩ := rowsOk_app names single rs b h.2
    exact ⟨⟨h.1, h1⟩, h2⟩

theorem goodR_app : ∀ a b : Rows, GoodR (Rows.app a b) → GoodR a ∧ GoodR b
  | .nil, b, h => ⟨by simp [GoodR], h⟩
  | .cons r rs, b, h => by
    simp only [Rows.app, GoodR] at h ⊢
    obtain ⟨h1, h2⟩ := goodR_app rs b h.2
    exact ⟨⟨h.1, h1⟩, h2⟩

theorem nestR_app_le : ∀ a b : Rows, nestR a ≤ nestR (Rows.app a b)
  | .nil, b => by simp [nestR]
  | .cons r rs, b => by
    have := nestR_app_le rs b
    simp only [Rows.app, nestR]; omega

theorem lexImgR_app : ∀ a b : Rows, lexImgR (Rows.app a b) = Rows.app (lexImgR a) (lexImgR b)
  | .nil, b => rfl
  | .cons r rs, b => by simp [Rows.app, lexImgR, lexImgR_app rs b]

/-- the first token of every line is inside the line -/
def FirstLenOk (names : List (List Char)) (single : Bool) : Rows → Prop
  | .nil => True
  | .cons r rs => rowFirstLen r names ≤ (rowBytes r names single).length ∧ FirstLenOk names single rs

theorem rowFirstLen_le (r : Tags) (names : List (List Char)) (single : Bool)
    (hne : names ≠ []) (hsingle : names.length = 1 → single = true)
    (hrow : RowOk r names single) (hg : GoodT r) :
    1 ≤ rowFirstLen r names ∧ rowFirstLen r names ≤ (rowBytes r names single).length := by
  have hmk := At_make_all' (rowBytes r names single ++ 10 :: [])
  have hmks : (Scan.make (rowBytes r names single ++ 10 :: [])).stash = [] := by
    cases hx : rowBytes r names single ++ 10 :: [] <;> simp [Scan.make]
  obtain ⟨_, _, _, _, hk1, hk2⟩ := rowFirst_at r names single [] hne hsingle
    (fun n v hv => (rdCell r hg n v hv).2) (fun h n hn => (hrow.cells n hn).2 h) _
    ((rowBytes r names single).length + 3) hmk hmks (Nat.le_refl _)
  exact ⟨hk1, hk2⟩

theorem firstLenOk_of (names : List (List Char)) (single : Bool)
    (hne : names ≠ []) (hsingle : names.length = 1 → single = true) : ∀ rows : Rows,
    RowsOk names single rows → GoodR rows → FirstLenOk names single rows
  | .nil, _, _ => trivial
  | .cons r rs, hok, hg => by
    simp only [GoodR] at hg
    exact ⟨(rowFirstLen_le r names single hne hsingle hok.1 hg.1).2,
      firstLenOk_of names single hne hsingle rs hok.2 hg.2⟩

/-- every token end listed by `tokEndsP` lies at or before the end of the first token of the line of `rn` -/
theorem tokEndsP_le (names : List (List Char)) (single : Bool) (rn : Tags) : ∀ (rows : Rows) (off : Nat),
    FirstLenOk names single rows →
    ∀ x ∈ tokEndsP names single rn off rows, x ≤ off + (encRows rows names single).length + rowFirstLen rn names
  | .nil, _, _, x, hx => by simp [tokEndsP] at hx
  | .cons r rs, off, hok, x, hx => by
    rw [encRows_length_cons]
    simp only [tokEndsP, List.mem_cons] at hx
    rcases hx with rfl | hx
    · cases rs with
      | nil => simp only [encRows, List.length_nil]; omega
      | cons r2 rs2 =>
        have := hok.2.1
        rw [encRows_length_cons]; simp only; omega
    · have := tokEndsP_le names single rn rs (off + (rowBytes r names single).length + 1) hok.2 x hx
      omega

theorem map_min_eq (total : Nat) : ∀ es : List Nat, (∀ x ∈ es, x + 1 ≤ total) →
    es.map (fun e => min (e + 1) total) = es.map (· + 1)
  | [], _ => rfl
  | e :: es, h => by
    simp only [List.map_cons]
    rw [map_min_eq total es (fun x hx => h x (by simp [hx])), Nat.min_eq_left (h e (by simp))]

/-- the writer's line of `rn`, cut one byte after its first token -/
theorem line_cut (rn : Tags) (names : List (List Char)) (single : Bool) (tl : List UInt8)
    (hne : names ≠ []) (hsingle : names.length = 1 → single = true)
    (hrow : RowOk rn names single) (hg : GoodT rn) :
    ∃ d, (rowBytes rn names single ++ 10 :: tl).take (rowFirstLen rn names + 1) = rowFirstBytes rn names single ++ [d] ∧
      ∀ junk, FirstEnds rn names (d :: junk) := by
  obtain ⟨hk1, hk2⟩ := rowFirstLen_le rn names single hne hsingle hrow hg
  have hlt : rowFirstLen rn names < (rowBytes rn names single ++ 10 :: tl).length := by simp; omega
  refine ⟨(rowBytes rn names single ++ 10 :: tl)[rowFirstLen rn names], ?_, ?_⟩
  · rw [List.take_add_one, List.getElem?_eq_getElem hlt]
    simp only [Option.toList_some, rowFirstBytes]
    rw [List.take_append_of_le_length hk2, List.take_append_of_le_length hk2]
  · intro junk n v hn hget hsc
    refine ⟨_, junk, rfl, ?_⟩
    -- a scalar first cell is the whole first token; the byte after it is the `,` or the newline of the line
    cases names with
    | nil => exact absurd rfl hne
    | cons n0 ns =>
      simp only [List.head?_cons, Option.some.injEq] at hn
      subst hn
      have hkv : rowFirstLen rn (n0 :: ns) = (enc v true).length := by
        simp only [rowFirstLen, hget]
        cases v <;> simp_all [firstTokLen, Scalar]
      cases ns with
      | nil =>
        have : rowBytes rn [n0] single ++ 10 :: tl = enc v true ++ 10 :: tl := by simp [rowBytes, cellBytes, hget]
        simp only [this, hkv]
        right; simp
      | cons n2 ns2 =>
        have : rowBytes rn (n0 :: n2 :: ns2) single ++ 10 :: tl
            = enc v true ++ 44 :: (rowBytes rn (n2 :: ns2) single ++ 10 :: tl) := by
          simp [rowBytes, cellBytes, hget]
        simp only [this, hkv]
        left; simp

/-- **rows of a still-arriving grid**: `e` is the offset at which the first token of the line of `rn` ends; the
writer's text cut after `e + 1` bytes and continued by ANY bytes `junk` still makes the iterator hand out the rows
`rowsP` in its first `rowsP.length` calls, the `j`-th having pulled exactly `e_j + 1` bytes -/
theorem avail_of_wf (md : OTags) (cols : Cols) (rowsP : Rows) (rn : Tags) (more : Rows) (ver : List Char)
    (hwf : wfV (.grid md cols (Rows.app rowsP (.cons rn more)) ver) = true) (D : Nat)
    (hD : D + nestV (.grid md cols (Rows.app rowsP (.cons rn more)) ver) ≤ 64) :
    (headerBytes md cols).length + (encRows rowsP cols.names (cols.length == 1)).length + rowFirstLen rn cols.names + 1
      ≤ (encode (.grid md cols (Rows.app rowsP (.cons rn more)) ver)).length ∧
    ∀ (junk : List UInt8) (F : Nat),
      4 * ((headerBytes md cols).length + (encRows rowsP cols.names (cols.length == 1)).length
        + rowFirstLen rn cols.names + 1) + 44 ≤ F →
      ∃ p0 r0,
        lexRead F (Scan.make ((encode (.grid md cols (Rows.app rowsP (.cons rn more)) ver)).take
          ((headerBytes md cols).length + (encRows rowsP cols.names (cols.length == 1)).length
            + rowFirstLen rn cols.names + 1) ++ junk)) = .ok p0 ∧
        gridHeader F D p0 = .ok ((lexImgO md, (lexImgC cols).toList, ver), r0) ∧
        pullsN F D cols.names ((headerBytes md cols).length + (encRows rowsP cols.names (cols.length == 1)).length
            + rowFirstLen rn cols.names + 1 + junk.length) rowsP.length r0 =
          .ok (List.zip (lexImgR rowsP).toList
            ((tokEndsP cols.names (cols.length == 1) rn (headerBytes md cols).length rowsP).map (· + 1))) := by
  obtain ⟨n, cm, c, rfl, hok, hgr⟩ := gridOk_of_wf md cols _ ver hwf
  have hne : Cols.names (.cons n cm c) ≠ [] := by simp [Cols.names]
  have hsg := cols_single n cm c
  obtain ⟨hokP, hokN⟩ := rowsOk_app _ _ rowsP (.cons rn more) hok.okRows
  obtain ⟨hgP, hgN⟩ := goodR_app rowsP (.cons rn more) hgr
  obtain ⟨hrn, _⟩ := hokN
  simp only [GoodR] at hgN
  have hgn := hgN.1
  simp only [nestV] at hD
  have hnest := nestR_app_le rowsP (.cons rn more)
  obtain ⟨hk1, hk2⟩ := rowFirstLen_le rn _ _ hne hsg hrn hgn
  -- the text and its cut
  have hsplit := encode_grid_split md n cm c (Rows.app rowsP (.cons rn more)) ver
  rw [encRows_app, encRows_cons] at hsplit
  obtain ⟨d, hcut, hfe⟩ := line_cut rn (Cols.names (.cons n cm c)) (Cols.length (.cons n cm c) == 1)
    (encRows more (Cols.names (.cons n cm c)) (Cols.length (.cons n cm c) == 1) ++ [10]) hne hsg hrn hgn
  have htake : (encode (.grid md (.cons n cm c) (Rows.app rowsP (.cons rn more)) ver)).take
      ((headerBytes md (.cons n cm c)).length
        + (encRows rowsP (Cols.names (.cons n cm c)) (Cols.length (.cons n cm c) == 1)).length
        + rowFirstLen rn (Cols.names (.cons n cm c)) + 1)
      = headerBytes md (.cons n cm c) ++ (encRows rowsP (Cols.names (.cons n cm c)) (Cols.length (.cons n cm c) == 1)
          ++ (rowFirstBytes rn (Cols.names (.cons n cm c)) (Cols.length (.cons n cm c) == 1) ++ [d])) := by
    rw [hsplit, ← hcut]
    have e1 : (headerBytes md (.cons n cm c)).length
        + (encRows rowsP (Cols.names (.cons n cm c)) (Cols.length (.cons n cm c) == 1)).length
        + rowFirstLen rn (Cols.names (.cons n cm c)) + 1
        = (headerBytes md (.cons n cm c)).length
          + ((encRows rowsP (Cols.names (.cons n cm c)) (Cols.length (.cons n cm c) == 1)).length
            + (rowFirstLen rn (Cols.names (.cons n cm c)) + 1)) := by omega
    rw [e1]
    simp only [List.append_assoc, List.cons_append]
    rw [List.take_length_add_append, List.take_length_add_append]
  constructor
  · rw [hsplit]
    simp only [List.length_append, List.length_cons, List.length_nil]
    omega
  · intro junk F hF
    rw [htake]
    have hX := hfe junk
    obtain ⟨p0, r0, e0, eh, hh, hk⟩ := lazy_prefix md n cm c hok.okMeta hok.okCols hok.okNodup rowsP rn (d :: junk)
      hokP hgP hrn hgn hX D F ⟨by omega, by omega, by omega⟩ (by omega)
    refine ⟨p0, r0, ?_, ?_, ?_⟩
    · simpa using e0
    · rw [eh, hok.okVer]
    · have hpn := pullsN_of_handsP F D (Cols.names (.cons n cm c))
        ((headerBytes md (.cons n cm c)).length
          + (encRows rowsP (Cols.names (.cons n cm c)) (Cols.length (.cons n cm c) == 1)).length
          + rowFirstLen rn (Cols.names (.cons n cm c)) + 1 + junk.length) _ r0 hh
      rw [rowTraceP_length] at hpn
      rw [hpn, rowTraceP_counts _ _ rn (d :: junk) hk rowsP (headerBytes md (.cons n cm c)).length _
        (by simp only [List.length_cons]; omega)]
      rw [map_min_eq]
      intro x hx
      have := tokEndsP_le _ _ rn rowsP (headerBytes md (.cons n cm c)).length
        (firstLenOk_of _ _ hne hsg rowsP hokP hgP) x hx
      omega

end Hs.Zinc
