/-
  C01 ladder, rung 5 (grids, part 2): the row iterator (`consume_end`, `RowIterator::next`, collected by
  `rowsLoop`) on one or more row lines followed by the grid's end (`>>` nested, blank line at top level).
-/
import Hs.Lemmas.ZincRtRowDict
namespace Hs.Zinc
open Hs Hs.Scan

/-- the first byte exists and is not white space -/
def FirstOk (bs : List UInt8) : Prop := ∃ b r, bs = b :: r ∧ b ≠ 32 ∧ b ≠ 9 ∧ b ≠ 13 ∧ b ≠ 10

theorem cws_none {s : Scan} {bs : List UInt8} (h : At s bs) (hb : FirstOk bs) (fuel : Nat) :
    Scan.consumeWhiteSpaces (fuel + 1) s = .ok s := by
  obtain ⟨b, r, rfl, h1, h2, h3, h4⟩ := hb
  rw [Scan.consumeWhiteSpaces]
  simp [Scan.isWhiteSpace, Scan.isSpace, Scan.isNewline, h.cur, h1, h2, h3, h4]

theorem cws_last_nl {s : Scan} (h : At s [10]) (fuel : Nat) :
    Scan.consumeWhiteSpaces (fuel + 1) s = .ok s.advance := by
  rw [Scan.consumeWhiteSpaces]
  simp [Scan.isWhiteSpace, Scan.isSpace, Scan.isNewline, h.cur, h.read_last]

theorem encRows_cons (r : Tags) (rs : Rows) (names : List (List Char)) (single : Bool) :
    encRows (.cons r rs) names single = rowBytes r names single ++ 10 :: encRows rs names single := by
  rw [encRows, rowLine_encCells]; simp

/-- the end of the rows: `>>` and the following text, or the blank line that ends a top-level grid -/
def tailR (nested : Bool) (rest : List UInt8) : List UInt8 := if nested then 62 :: 62 :: rest else [10]
/-- where the scanner is left -/
def finalR (nested : Bool) (rest : List UInt8) : List UInt8 := if nested then rest else []

/-- what a row needs: cells frame, first bytes are not white space, keys are ascending column names -/
structure RowOk (r : Tags) (names : List (List Char)) (single : Bool) : Prop where
  cells : CellsOk r names single
  first : ∀ n ∈ names, ∀ v, r.get? n = some v → FirstOk (enc v true)
  sorted : keysSorted r.keys = true
  sub : ∀ k ∈ r.keys, k ∈ names

def RowsOk (names : List (List Char)) (single : Bool) : Rows → Prop
  | .nil => True
  | .cons r rs => RowOk r names single ∧ RowsOk names single rs

theorem firstOk_row (r : Tags) (names : List (List Char)) (single : Bool) (tl : List UInt8)
    (hne : names ≠ []) (hsingle : names.length = 1 → single = true)
    (hfirst : ∀ n ∈ names, ∀ v, r.get? n = some v → FirstOk (enc v true))
    (hpres : single = true → ∀ n ∈ names, r.get? n ≠ none) :
    FirstOk (rowBytes r names single ++ 10 :: tl) := by
  cases names with
  | nil => exact absurd rfl hne
  | cons n ns =>
    cases ns with
    | nil =>
      have hs : single = true := hsingle rfl
      cases hget : r.get? n with
      | none => exact absurd hget (hpres hs n (by simp))
      | some v =>
        obtain ⟨b, rr, e, hb⟩ := hfirst n (by simp) v hget
        exact ⟨b, rr ++ 10 :: tl, by simp [rowBytes, cellBytes, hget, e], hb⟩
    | cons n2 ns2 =>
      cases hget : r.get? n with
      | none =>
        cases single with
        | true => exact absurd hget (hpres rfl n (by simp))
        | false =>
          exact ⟨44, _, by simp [rowBytes, cellBytes, hget]; rfl, by decide, by decide, by decide, by decide⟩
      | some v =>
        obtain ⟨b, rr, e, hb⟩ := hfirst n (by simp) v hget
        exact ⟨b, rr ++ 44 :: (rowBytes r (n2 :: ns2) single ++ 10 :: tl), by simp [rowBytes, cellBytes, hget, e], hb⟩

theorem lexImgR_toList_cons (r : Tags) (rs : Rows) : (lexImgR (.cons r rs)).toList = lexImgT r :: (lexImgR rs).toList := by
  simp [lexImgR, Rows.toList]

/-! ### `consume_end` -/

theorem consumeEnd_noop (g : Nat) (p : PS) (nested ne : Bool) (h10 : PS.isChar p 10 = false)
    (h62 : PS.isChar p 62 = false) :
    consumeEnd (g + 1) { p := p, nestedStart := nested, nestedEnd := ne }
      = .ok { p := p, nestedStart := nested, nestedEnd := ne } := by
  rw [consumeEnd]
  simp [h10, h62]

/-- after a row's newline, another row follows: its first token is read -/
theorem consumeEnd_next (g : Nat) (p2 q : PS) (nested : Bool) (text : List UInt8) (ht2 : p2.tok = .ch 10)
    (h2 : At p2.sc text) (hfo : FirstOk text) (eq : lexRead g p2.sc = .ok q) (hq : PS.isChar q 62 = false) :
    consumeEnd (g + 1) { p := p2, nestedStart := nested, nestedEnd := false }
      = .ok { p := q, nestedStart := nested, nestedEnd := false } := by
  have hp2_10 : PS.isChar p2 10 = true := by unfold PS.isChar; rw [ht2]; rfl
  have heof : p2.sc.eof = false := by
    obtain ⟨b, r, rfl, _⟩ := hfo; exact h2.eof
  rw [consumeEnd]
  simp [hp2_10, cws_none h2 hfo, PS.isEof, heof, PS.read, eq, hq]

/-- after the last row of a nested grid: `>>` -/
theorem consumeEnd_nested (g : Nat) (p2 : PS) (rest : List UInt8) (ht2 : p2.tok = .ch 10)
    (h2 : At p2.sc (62 :: 62 :: rest)) :
    consumeEnd (g + 2) { p := p2, nestedStart := true, nestedEnd := false }
      = .ok { p := { sc := p2.sc.advance.advance, tok := .ch 62 }, nestedStart := true, nestedEnd := true } := by
  have hp2_10 : PS.isChar p2 10 = true := by unfold PS.isChar; rw [ht2]; rfl
  have hfo : FirstOk (62 :: 62 :: rest) := ⟨62, _, rfl, by decide, by decide, by decide, by decide⟩
  rw [consumeEnd]
  simp [hp2_10, cws_none h2 hfo, PS.isEof, h2.eof, PS.read, lexRead_special h2 (by decide) (by decide) g,
    isChar_ch, lexRead_special h2.advance (by decide) (by decide) g]

/-- after the last row of a top-level grid: the blank line, then the end of the input -/
theorem consumeEnd_top (g : Nat) (p2 : PS) (ht2 : p2.tok = .ch 10) (h2 : At p2.sc [10]) :
    consumeEnd (g + 1) { p := p2, nestedStart := false, nestedEnd := false }
      = .ok { p := { sc := p2.sc.advance, tok := p2.tok }, nestedStart := false, nestedEnd := false } := by
  have hp2_10 : PS.isChar p2 10 = true := by unfold PS.isChar; rw [ht2]; rfl
  have := h2.advance
  rw [consumeEnd]
  simp [hp2_10, cws_last_nl h2, PS.isEof, this.eof_nil]

/-- the row iterator on one or more rows -/
theorem rowsLoop_rt (names : List (List Char)) (single nested : Bool) (rest : List UInt8)
    (hne : names ≠ []) (hsingle : names.length = 1 → single = true) (hnd : names.Nodup) (depth : Nat) :
    ∀ (r : Tags) (rs : Rows), RowsOk names single (.cons r rs) → depth + nestR (.cons r rs) ≤ 64 →
    ∀ (f1 f2 : Nat) (sc : Scan) (acc : List Tags),
    At sc (encRows (.cons r rs) names single ++ tailR nested rest) → sc.stash = [] →
    4 * (encRows (.cons r rs) names single).length + 20 ≤ f1 →
    4 * (encRows (.cons r rs) names single).length + 20 ≤ f2 →
    ∃ p r', lexRead f1 sc = .ok p ∧ p.sc.eof = false ∧ PS.isChar p 10 = false ∧ PS.isChar p 62 = false ∧
      rowsLoop f2 depth { p := p, nestedStart := nested, nestedEnd := false } names acc
        = .ok (acc ++ (lexImgR (.cons r rs)).toList, r') ∧
      At r'.p.sc (finalR nested rest) ∧ r'.p.sc.stash = []
  | r, rs, hok, hdep, f1, f2, sc, acc, hat, hs, hf1, hf2 => by
    obtain ⟨hrow, hrest⟩ := hok
    simp only [nestR] at hdep
    rw [encRows_cons] at hat hf1 hf2
    simp only [List.append_assoc, List.cons_append, List.length_append, List.length_cons] at hat hf1 hf2
    obtain ⟨g, rfl⟩ : ∃ g, f2 = g + 4 := ⟨f2 - 4, by omega⟩
    obtain ⟨p, p2, e1, e2, ht2, h2, hs2, hfirst⟩ := rowLoop_rt r names single names 0 hne rfl depth f1 (g + 2) sc []
      (encRows rs names single ++ tailR nested rest) hrow.cells (by omega) hat hs (by omega) (by omega)
    have hsz : 2 ≤ names.length ∨ single = true := by
      cases names with
      | nil => exact absurd rfl hne
      | cons n ns =>
        cases ns with
        | nil => exact Or.inr (hsingle rfl)
        | cons _ _ => left; simp
    obtain ⟨heof, h10, h62⟩ := hfirst hsz
    have hdict : dictOf (cellsOf r names) = lexImgT r := dictOf_cellsOf r names hnd hrow.sub hrow.sorted
    simp only [List.nil_append] at e2
    -- one row through `rowNext`, up to the `consumeEnd` after its newline
    have hnext : rowNext (g + 3) depth { p := p, nestedStart := nested, nestedEnd := false } names =
        (match consumeEnd (g + 2) { p := p2, nestedStart := nested, nestedEnd := false } with
          | .ok r3 => .ok (some (lexImgT r), r3)
          | .err => .err | .panic => .panic | .diverge => .diverge | .depth => .depth) := by
      rw [rowNext]
      simp only [PS.isEof, heof, Bool.or_false, Bool.false_eq_true, if_false]
      rw [consumeEnd_noop (g + 1) p nested false h10 h62]
      simp only [heof, Bool.or_false, Bool.false_eq_true, if_false, e2, hdict]
      rfl
    cases rs with
    | cons r2 rs2 =>
      -- another row follows
      have hrest' := hrest
      obtain ⟨hrow2, _⟩ := hrest'
      have hfo : FirstOk (encRows (.cons r2 rs2) names single ++ tailR nested rest) := by
        rw [encRows_cons]
        simp only [List.append_assoc, List.cons_append]
        exact firstOk_row r2 names single _ hne hsingle hrow2.first (fun h n hn => (hrow2.cells n hn).2 h)
      obtain ⟨q, r', eq, hqe, hq10, hq62, eloop, hfin, hsfin⟩ := rowsLoop_rt names single nested rest hne hsingle hnd depth
        r2 rs2 hrest (by omega) (g + 1) (g + 3) p2.sc (acc ++ [lexImgT r]) h2 hs2 (by omega) (by omega)
      refine ⟨p, r', e1, heof, h10, h62, ?_, hfin, hsfin⟩
      rw [rowsLoop, hnext, consumeEnd_next (g + 1) p2 q nested _ ht2 h2 hfo eq hq62]
      simp only [eloop, lexImgR_toList_cons]
      simp
    | nil =>
      simp only [encRows, List.nil_append] at h2
      cases nested with
      | true =>
        simp only [tailR, if_true] at h2
        refine ⟨p, { p := { sc := p2.sc.advance.advance, tok := .ch 62 }, nestedStart := true, nestedEnd := true },
          e1, heof, h10, h62, ?_, ?_, ?_⟩
        · rw [rowsLoop, hnext, consumeEnd_nested g p2 rest ht2 h2]
          simp only []
          rw [rowsLoop, rowNext]
          simp [lexImgR, Rows.toList]
        · simpa [finalR] using h2.advance.advance
        · show p2.sc.advance.advance.stash = []
          exact advN_stash_nil 2 _ hs2
      | false =>
        simp only [tailR, Bool.false_eq_true, if_false] at h2
        refine ⟨p, { p := { sc := p2.sc.advance, tok := p2.tok }, nestedStart := false, nestedEnd := false },
          e1, heof, h10, h62, ?_, ?_, ?_⟩
        · rw [rowsLoop, hnext, consumeEnd_top (g + 1) p2 ht2 h2]
          simp only []
          rw [rowsLoop, rowNext]
          simp [PS.isEof, h2.advance.eof_nil, lexImgR, Rows.toList]
        · simpa [finalR] using h2.advance
        · show p2.sc.advance.stash = []
          exact advN_stash_nil 1 _ hs2

end Hs.Zinc
