/-
  C04 read direction: tags — `parse_dict_parts` (inside `{}` and for grid meta) and `parse_grid_column_meta` — on
  every legal spelling: `name`, `name:` blanks value; tags separated by a space and blanks, or (inside `{}`) by
  a comma with blanks around it.  Both loops are handled at once through the equations they share (`TagLoop`).
-/
import Hs.Lemmas.ZincSpellList
import Hs.Lemmas.ZincRtDict
namespace Hs.Zinc
open Hs Hs.Scan Hs.Spell

abbrev KVs := List (List Char × Val)

/-- the equations shared by `dictParts` and `colMeta`; `term` is a token that ends the loop -/
structure TagLoop (loop : Nat → Nat → PS → Bool → KVs → Res (KVs × PS)) (term : UInt8) : Prop where
  idStep : ∀ (f d : Nat) (sc : Scan) (key : List Char) (ec : Bool) (acc : KVs), sc.eof = false →
    loop (f + 1) d { sc := sc, tok := .id key } ec acc =
      (match lexRead f sc with
       | .ok p1 =>
         if PS.isEof p1 then .ok (acc ++ [(key, Val.marker)], p1)
         else if PS.isChar p1 58 then
           match PS.read f p1 with
           | .ok p2 =>
             match parseValue f d p2 with
             | .ok (v, p3) =>
               match PS.read f p3 with
               | .ok p4 => loop f d p4 true (acc ++ [(key, v)])
               | .err => .err | .panic => .panic | .diverge => .diverge | .depth => .depth
             | .err => .err | .panic => .panic | .diverge => .diverge | .depth => .depth
           | .err => .err | .panic => .panic | .diverge => .diverge | .depth => .depth
         else loop f d p1 true (acc ++ [(key, Val.marker)])
       | .err => .err | .panic => .panic | .diverge => .diverge | .depth => .depth)
  termStep : ∀ (f d : Nat) (sc : Scan) (acc : KVs), loop (f + 1) d { sc := sc, tok := .ch term } true acc =
    .ok (acc, { sc := sc, tok := .ch term })
  eofStep : ∀ (f d : Nat) (p : PS) (ec : Bool) (acc : KVs), p.sc.eof = true → loop (f + 1) d p ec acc = .ok (acc, p)

/-- a comma separates tags (only `dictParts`) -/
def CommaLoop (loop : Nat → Nat → PS → Bool → KVs → Res (KVs × PS)) : Prop :=
  ∀ (f d : Nat) (sc : Scan) (acc : KVs), sc.eof = false →
    loop (f + 1) d { sc := sc, tok := .ch 44 } true acc =
      (match lexRead f sc with
       | .ok p1 => loop f d p1 false acc
       | .err => .err | .panic => .panic | .diverge => .diverge | .depth => .depth)

def colMetaL (f d : Nat) (p : PS) (_ : Bool) (acc : KVs) : Res (KVs × PS) := colMeta f d p acc

theorem tagLoop_dict {term : UInt8} (h44 : term ≠ 44) : TagLoop dictParts term where
  idStep := by
    intro f d sc key ec acc heof
    rw [dictParts]
    simp only [PS.isEof, heof, PS.isChar, PS.read, Bool.false_eq_true, if_false, Bool.and_false]
    cases lexRead f sc <;> rfl
  termStep := by
    intro f d sc acc
    rw [dictParts]
    have : (term == 44) = false := by simpa using h44
    by_cases he : sc.eof = true <;> simp [PS.isEof, he, PS.isChar, this]
  eofStep := by
    intro f d p ec acc he
    rw [dictParts]; simp [PS.isEof, he]

theorem commaLoop_dict : CommaLoop dictParts := by
  intro f d sc acc heof
  rw [dictParts]
  simp only [PS.isEof, heof, PS.isChar, PS.read, Bool.false_eq_true, if_false, Bool.and_self, beq_self_eq_true, if_true]
  cases lexRead f sc <;> rfl

theorem tagLoop_col (term : UInt8) : TagLoop colMetaL term where
  idStep := by
    intro f d sc key ec acc heof
    unfold colMetaL
    rw [colMeta]
    simp only [PS.isEof, heof, PS.isChar, PS.read, Bool.false_eq_true, if_false]
    cases lexRead f sc <;> rfl
  termStep := by
    intro f d sc acc
    unfold colMetaL
    rw [colMeta]
    by_cases he : sc.eof = true <;> by_cases h44 : (term == 44) = true <;> simp [PS.isEof, he, PS.isChar, h44]
  eofStep := by
    intro f d p ec acc he
    unfold colMetaL
    rw [colMeta]; simp [PS.isEof, he]

/-! ### what ends the tags -/

/-- `EndOk term ending rest`: the text `ending` yields the token `term` and leaves `rest` -/
inductive EndOk : UInt8 → List UInt8 → List UInt8 → Prop
  | brace (w rest : List UInt8) (hw : Blanks w) : EndOk 125 (w ++ 125 :: rest) rest
  | nl (w nl rest : List UInt8) (hw : Blanks w) (hn : Nl nl) (hcr : NoLF nl rest) : EndOk 10 (w ++ (nl ++ rest)) rest
  | comma (rest : List UInt8) : EndOk 44 (44 :: rest) rest

theorem nl_head {nl : List UInt8} (h : Nl nl) (rest : List UInt8) :
    ∃ b r, nl ++ rest = b :: r ∧ (b = 10 ∨ b = 13) := by
  cases h with
  | lf => exact ⟨10, rest, rfl, Or.inl rfl⟩
  | crlf => exact ⟨13, 10 :: rest, rfl, Or.inr rfl⟩
  | cr => exact ⟨13, rest, rfl, Or.inr rfl⟩

/-- blanks, then a line ending: one `.ch 10` token -/
theorem lexRead_nlW (ws : List UInt8) (hws : Blanks ws) (nl : List UInt8) (hn : Nl nl) (s : Scan) (rest : List UInt8)
    (h : At s (ws ++ (nl ++ rest))) (hcr : NoLF nl rest) (hs : s.stash.length ≤ 1) (hs0 : ws = [] → s.stash = [])
    (fuel : Nat) (hf : ws.length + 2 ≤ fuel) :
    ∃ s', lexRead fuel s = .ok { sc := s', tok := .ch 10 } ∧ At s' rest ∧ s'.stash = [] := by
  obtain ⟨f, rfl⟩ : ∃ f, fuel = f + 1 := ⟨fuel - 1, by omega⟩
  obtain ⟨b, r, e, hb⟩ := nl_head hn rest
  have hb32 : b ≠ 32 := by rcases hb with rfl | rfl <;> decide
  have hb9 : b ≠ 9 := by rcases hb with rfl | rfl <;> decide
  obtain ⟨s1, f', h1, hs1, _, _, e1⟩ := lexRead_skip ws hws s b r (by rw [← e]; exact h) hb32 hb9 hs hs0 f (by omega)
  obtain ⟨s', e2, h2, hs2⟩ := lexRead_nl nl hn s1 rest (by rw [e]; exact h1) hcr (by simp [hs1]) f'
  exact ⟨s', by rw [e1, e2], h2, hs2⟩

theorem EndOk.delim {term : UInt8} {ending rest : List UInt8} (h : EndOk term ending rest) : DelimW ending := by
  cases h with
  | brace w rest hw => exact DelimW_blanks_end hw (by decide) rest
  | nl w nl rest hw hn hcr =>
    obtain ⟨b, r, e, hb⟩ := nl_head hn rest
    rw [e]; exact DelimW_blanks_end hw (by rcases hb with rfl | rfl <;> decide) r
  | comma rest => exact Or.inr (Or.inl ⟨44, rest, rfl, by decide⟩)

theorem EndOk.ne {term : UInt8} {ending rest : List UInt8} (h : EndOk term ending rest) : ending ≠ [] := by
  cases h with
  | brace w rest hw => simp
  | nl w nl rest hw hn hcr => obtain ⟨b, r, e, _⟩ := nl_head hn rest; rw [e]; simp
  | comma rest => simp

theorem EndOk.stopLit {term : UInt8} {ending rest : List UInt8} (h : EndOk term ending rest) : Stop isLitB ending :=
  h.delim.stop_lit

theorem EndOk.term_ne58 {term : UInt8} {ending rest : List UInt8} (h : EndOk term ending rest) : (term == 58) = false := by
  cases h <;> rfl

theorem EndOk.lex {term : UInt8} {ending rest : List UInt8} (h : EndOk term ending rest) (s : Scan)
    (hat : At s ending) (hs : s.stash.length ≤ 1) (hs0 : ending.head? ≠ some 32 → s.stash = []) (fuel : Nat)
    (hf : (ending.length - rest.length) + 2 ≤ fuel) :
    ∃ s', lexRead fuel s = .ok { sc := s', tok := .ch term } ∧ At s' rest ∧ s'.stash = [] := by
  cases h with
  | brace w rest hw =>
    simp only [List.length_append, List.length_cons] at hf
    exact lexRead_specialW w hw s 125 rest hat (by decide) (by decide) hs
      (by intro e; subst e; exact hs0 (by simp)) fuel (by omega)
  | nl w nl rest hw hn hcr =>
    simp only [List.length_append] at hf
    refine lexRead_nlW w hw nl hn s rest hat hcr hs ?_ fuel (by omega)
    intro e; subst e
    obtain ⟨b, r, e, hb⟩ := nl_head hn rest
    apply hs0
    simp only [List.nil_append, e, List.head?_cons, ne_eq, Option.some.injEq]
    rcases hb with rfl | rfl <;> decide
  | comma rest =>
    exact lexRead_specialW [] Blanks.nil s 44 rest hat (by decide) (by decide) hs (fun _ => hs0 (by simp)) fuel
      (by simp at hf ⊢; omega)

/-! ### from the end of one tag to the end of all tags -/

variable {loop : Nat → Nat → PS → Bool → KVs → Res (KVs × PS)} {term : UInt8}

/-- `tl` is the text between the end of a tag and the end of the tags `t'` that follow it -/
structure NextOk (loop : Nat → Nat → PS → Bool → KVs → Res (KVs × PS)) (term : UInt8) (t' : Tags)
    (tl : List UInt8) : Prop where
  delim : ∀ ending rest, EndOk term ending rest → DelimW (tl ++ ending)
  run : ∀ (depth f g : Nat) (sc : Scan) (acc : KVs) (ending rest : List UInt8), EndOk term ending rest →
    Post sc (tl ++ ending) → 4 * tl.length + (ending.length - rest.length) + 10 ≤ f → 4 * tl.length + (ending.length - rest.length) + 10 ≤ g →
    depth + nestT t' ≤ 64 →
    ∃ p4 p', lexRead f sc = .ok p4 ∧ PS.isChar p4 58 = false ∧
      loop g depth p4 true acc = .ok (acc ++ (lexImgT t').toList, p') ∧ p'.tok = .ch term ∧
      At p'.sc rest ∧ p'.sc.stash = []

/-- the loop positioned on the name of the first tag of `t`, whose spelled text is `body` -/
def RdTagsW (loop : Nat → Nat → PS → Bool → KVs → Res (KVs × PS)) (term : UInt8) (t : Tags) (body : List UInt8) :
    Prop :=
  ∀ (k : List Char) (v : Val) (t' : Tags), t = .cons k v t' →
  ∃ afterK, body = encChars k ++ afterK ∧ isIdent k = true ∧
    (∀ ending rest, EndOk term ending rest → Stop isLitB (afterK ++ ending)) ∧
    ∀ (depth fuel : Nat) (sc : Scan) (ec : Bool) (acc : KVs) (ending rest : List UInt8), EndOk term ending rest →
      At sc (afterK ++ ending) → sc.stash = [] → 4 * body.length + (ending.length - rest.length) + 12 ≤ fuel →
      depth + nestT t ≤ 64 →
      ∃ p', loop fuel depth { sc := sc, tok := .id k } ec acc = .ok (acc ++ (lexImgT t).toList, p') ∧
        p'.tok = .ch term ∧ At p'.sc rest ∧ p'.sc.stash = []

theorem NextOk_nil (hL : TagLoop loop term) : NextOk loop term .nil [] where
  delim := by intro ending rest h; simpa using h.delim
  run := by
    intro depth f g sc acc ending rest hE hp hf hg hn
    simp only [List.nil_append] at hp
    obtain ⟨s', e, h', hs'⟩ := hE.lex sc hp.1 hp.2.1 hp.2.2 f (by simp at hf; omega)
    obtain ⟨g', rfl⟩ : ∃ g', g = g' + 1 := ⟨g - 1, by omega⟩
    refine ⟨{ sc := s', tok := .ch term }, { sc := s', tok := .ch term }, e, by simp [isChar_ch, hE.term_ne58], ?_, rfl,
      h', hs'⟩
    rw [hL.termStep]; simp [lexImgT, Tags.toList]

theorem ident_head {k : List Char} (h : isIdent k = true) : ∃ b r, encChars k = b :: r ∧ isLowerB b = true :=
  isIdent_head h

theorem NextOk_space {k2 : List Char} {v2 : Val} {t2 : Tags} {w body2 : List UInt8} (hw : Blanks w) (hne : w ≠ [])
    (ih : RdTagsW loop term (.cons k2 v2 t2) body2) : NextOk loop term (.cons k2 v2 t2) (w ++ body2) := by
  obtain ⟨afterK, hb, hk, hstop, hrun⟩ := ih k2 v2 t2 rfl
  obtain ⟨b, r, ek, hlow⟩ := ident_head hk
  constructor
  · intro ending rest hE
    right; right
    cases w with
    | nil => exact absurd rfl hne
    | cons x w' =>
      cases w' with
      | nil =>
        refine ⟨x, b, r ++ afterK ++ ending, ?_, Blanks.head hw, Or.inr (Or.inr (Or.inr hlow))⟩
        rw [hb, ek]; simp
      | cons y w'' =>
        refine ⟨x, y, w'' ++ body2 ++ ending, by simp, Blanks.head hw, ?_⟩
        rcases Blanks.head (Blanks.tail hw) with h | h
        · exact Or.inl h
        · exact Or.inr (Or.inl h)
  · intro depth f g sc acc ending rest hE hp hf hg hn
    have hlenk := encChars_length_ge k2
    have hwl : 1 ≤ w.length := by cases w with | nil => exact absurd rfl hne | cons _ _ => simp
    simp only [List.length_append, hb] at hf hg
    have hat : At sc (w ++ (encChars k2 ++ (afterK ++ ending))) := by
      have := hp.1; rw [hb] at this; simpa using this
    obtain ⟨s', e, h', hs'⟩ := lexRead_idW w hw k2 hk sc (afterK ++ ending) hat (hstop ending rest hE)
      hp.2.1 (fun e => absurd e hne) f (by omega)
    obtain ⟨p', e', ht', hat', hst'⟩ := hrun depth g s' true acc ending rest hE h' hs'
      (by simp only [hb, List.length_append]; omega) hn
    exact ⟨_, p', e, rfl, e', ht', hat', hst'⟩

theorem NextOk_comma (hC : CommaLoop loop) {k2 : List Char} {v2 : Val} {t2 : Tags} {w w' body2 : List UInt8}
    (hw : Blanks w) (hw' : Blanks w') (ih : RdTagsW loop term (.cons k2 v2 t2) body2) :
    NextOk loop term (.cons k2 v2 t2) (w ++ 44 :: (w' ++ body2)) := by
  obtain ⟨afterK, hb, hk, hstop, hrun⟩ := ih k2 v2 t2 rfl
  obtain ⟨b, r, ek, hlow⟩ := ident_head hk
  constructor
  · intro ending rest hE
    have := DelimW_blanks_end hw (c := 44) (by decide) (w' ++ body2 ++ ending)
    simpa using this
  · intro depth f g sc acc ending rest hE hp hf hg hn
    have hlenk := encChars_length_ge k2
    simp only [List.length_cons, List.length_append, hb] at hf hg
    have hat : At sc (w ++ 44 :: (w' ++ (encChars k2 ++ (afterK ++ ending)))) := by
      have := hp.1; rw [hb] at this; simpa using this
    have hs0 : w = [] → sc.stash = [] := by
      intro e; subst e; exact hp.2.2 (by simp)
    obtain ⟨s1, e1, h1, hs1⟩ := lexRead_specialW w hw sc 44 _ hat (by decide) (by decide) hp.2.1 hs0 f (by omega)
    obtain ⟨g', rfl⟩ : ∃ g', g = g' + 1 := ⟨g - 1, by omega⟩
    obtain ⟨s2, e2, h2, hs2⟩ := lexRead_idW w' hw' k2 hk s1 (afterK ++ ending) h1 (hstop ending rest hE)
      (by simp [hs1]) (fun _ => hs1) g' (by omega)
    obtain ⟨p', e', ht', hat', hst'⟩ := hrun depth g' s2 false acc ending rest hE h2 hs2
      (by simp only [hb, List.length_append]; omega) hn
    have heof : s1.eof = false := by
      cases hx : w' ++ (encChars k2 ++ (afterK ++ ending)) with
      | nil => rw [ek] at hx; simp at hx
      | cons x y => rw [hx] at h1; exact h1.eof
    refine ⟨_, p', e1, by simp [isChar_ch], ?_, ht', hat', hst'⟩
    rw [hC g' depth s1 acc heof, e2]
    exact e'

/-! ### one tag -/

theorem lexImg_marker' : lexImg .marker = .marker := by simp [lexImg]

/-- a bare name: a Marker tag -/
theorem RdTagsW_marker (hL : TagLoop loop term) {k : List Char} (hk : isIdent k = true) {t' : Tags} {tl : List UInt8}
    (hnext : NextOk loop term t' tl) : RdTagsW loop term (.cons k .marker t') (encChars k ++ tl) := by
  intro k0 v0 t0 e0
  cases e0
  refine ⟨tl, rfl, hk, fun ending rest hE => (hnext.delim ending rest hE).stop_lit, ?_⟩
  intro depth fuel sc ec acc ending rest hE hat hs hf hn
  obtain ⟨f, rfl⟩ : ∃ f, fuel = f + 1 := ⟨fuel - 1, by omega⟩
  simp only [nestT] at hn
  simp only [List.length_append] at hf
  have hpost : Post sc (tl ++ ending) := Post.of_clean hat hs
  obtain ⟨p4, p', e4, h58, e', ht', h', hs'⟩ := hnext.run depth f f sc (acc ++ [(k, .marker)]) ending rest hE hpost
    (by omega) (by omega) (by omega)
  have heof : sc.eof = false := by
    cases hx : tl ++ ending with
    | nil => exact absurd (List.append_eq_nil_iff.mp hx).2 hE.ne
    | cons b r => rw [hx] at hat; exact hat.eof
  refine ⟨p', ?_, ht', h', hs'⟩
  rw [hL.idStep f depth sc k ec acc heof, e4]
  by_cases he : p4.sc.eof = true
  · obtain ⟨f', rfl⟩ : ∃ f', f = f' + 1 := ⟨f - 1, by omega⟩
    rw [hL.eofStep f' depth p4 true _ he] at e'
    simp only [PS.isEof, he, if_true]
    rw [e']; simp [lexImgT, Tags.toList, lexImg]
  · simp only [PS.isEof, he, Bool.false_eq_true, if_false, h58, e']
    simp [lexImgT, Tags.toList, lexImg]

/-- `name:` blanks value -/
theorem RdTagsW_val (hL : TagLoop loop term) {k : List Char} (hk : isIdent k = true) {v : Val} {bs w : List UInt8}
    (hv : SpOk v bs) (hw : Blanks w) {t' : Tags} {tl : List UInt8} (hnext : NextOk loop term t' tl) :
    RdTagsW loop term (.cons k v t') (encChars k ++ 58 :: (w ++ bs) ++ tl) := by
  intro k0 v0 t0 e0
  cases e0
  refine ⟨58 :: (w ++ bs) ++ tl, by simp, hk, fun ending rest hE => Stop_cons (by decide), ?_⟩
  intro depth fuel sc ec acc ending rest hE hat hs hf hn
  obtain ⟨f, rfl⟩ : ∃ f, fuel = f + 2 := ⟨fuel - 2, by omega⟩
  simp only [nestT] at hn
  simp only [List.length_append, List.length_cons] at hf
  have hat0 : At sc (58 :: (w ++ (bs ++ (tl ++ ending)))) := by simpa using hat
  have h1 := hat0.advance
  have hs1 : sc.advance.stash = [] := by rw [At.advance_stash, hs]; rfl
  obtain ⟨p2, p3, e2, _, hst, e3, hp3⟩ := hv.rd.skip hv.first w hw depth (f + 1) (f + 1) sc.advance (tl ++ ending) h1
    (by simp [hs1]) (fun _ => hs1) (hnext.delim ending rest hE) (by omega) (by omega) (by omega)
  obtain ⟨p4, p', e4, _, e', ht', h', hs'⟩ := hnext.run depth (f + 1) (f + 1) p3.sc (acc ++ [(k, lexImg v)]) ending rest hE
    hp3 (by omega) (by omega) (by omega)
  have heof1 : sc.advance.eof = false := by
    obtain ⟨b, r, eb, _, _, _, _⟩ := hv.first
    cases hx : w ++ (bs ++ (tl ++ ending)) with
    | nil => rw [eb] at hx; simp at hx
    | cons x y => rw [hx] at h1; exact h1.eof
  refine ⟨p', ?_, ht', h', hs'⟩
  rw [hL.idStep (f + 1) depth sc k ec acc hat0.eof, lexRead_special hat0 (by decide) (by decide) f]
  simp only [PS.isEof, heof1, Bool.false_eq_true, if_false, isChar_ch, beq_self_eq_true, if_true, PS.read, e2, e3, e4, e']
  simp [lexImgT, Tags.toList]

end Hs.Zinc
