/-
  C04 read direction: the well-formedness predicate `wfS` (C01's `wfV` with lexical numerals of any legal
  shape), the mutual induction over values and their spellings, and the top level: every sentence that spells a
  well-formed value is decoded to the lexical image of that value.
-/
import Hs.Lemmas.ZincSpellGrid
import Hs.Lemmas.ZincSpellStr2
import Hs.Lemmas.ZincSpellNum3
import Hs.Lemmas.ZincSpellTokTime
import Hs.Lemmas.ZincSpellTokDateTime
import Hs.Lemmas.ZincRtWf
namespace Hs.Zinc
open Hs Hs.Scan Hs.Spell

/-! ### well-formedness for spelled values -/

mutual
/-- `wfV` of C01 without its conditions on the numeral of a number / coordinate (the spelling relation itself
says what the numeral is: the sentence's digits, sign, fraction and exponent) -/
def wfS : Val → Bool
  | .null => true
  | .remove => true
  | .marker => true
  | .bool _ => true
  | .na => true
  | .num n => numOkS n
  | .str _ => true
  | .uri _ => true
  | .ref id _ => isRefId id
  | .sym s => isSymBody s
  | .date d => dateOk d
  | .time t => timeOk t
  | .dateTime t => dtOk t
  | .coord _ _ => true
  | .xstr ty _ => isXStrType ty
  | .list xs => wfSs xs
  | .dict d => keysIdent d && keysSorted d.keys && wfST d
  | .grid md cols rows ver =>
    ver == ['3', '.', '0'] && metaShape md && colsShape cols && rowsShape cols.names (cols.length == 1) rows
      && wfSO md && wfSC cols && wfSR rows
def wfSs : Vals → Bool
  | .nil => true
  | .cons v vs => wfS v && wfSs vs
def wfST : Tags → Bool
  | .nil => true
  | .cons _ v t => wfS v && wfST t
def wfSO : OTags → Bool
  | .none => true
  | .some t => wfST t
def wfSC : Cols → Bool
  | .nil => true
  | .cons _ md c => wfSO md && wfSC c
def wfSR : Rows → Bool
  | .nil => true
  | .cons r rs => wfST r && wfSR rs
end

theorem numOkS_of_numOk {n : Num} (h : numOk n = true) : numOkS n = true := by
  unfold numOk at h
  unfold numOkS
  by_cases h1 : Flt.isNaNBits n.v.bits = true
  · simp [h1]
  · by_cases h2 : Flt.isInfBits n.v.bits = true
    · simp [h1, h2]
    · simp only [h1, h2, Bool.false_eq_true, if_false] at h ⊢
      simp only [finiteNumOk, Bool.and_eq_true] at h
      exact h.2

mutual
theorem wfS_of_wfV : ∀ v : Val, wfV v = true → wfS v = true
  | .null, _ => rfl
  | .remove, _ => rfl
  | .marker, _ => rfl
  | .bool _, _ => rfl
  | .na, _ => rfl
  | .num n, h => by simp only [wfV] at h; simp only [wfS]; exact numOkS_of_numOk h
  | .str _, _ => rfl
  | .uri _, _ => rfl
  | .ref _ _, h => by simpa [wfV, wfS] using h
  | .sym _, h => by simpa [wfV, wfS] using h
  | .date _, h => by simpa [wfV, wfS] using h
  | .time _, h => by simpa [wfV, wfS] using h
  | .dateTime _, h => by simpa [wfV, wfS] using h
  | .coord _ _, _ => rfl
  | .xstr _ _, h => by simpa [wfV, wfS] using h
  | .list xs, h => by simp only [wfV] at h; simp only [wfS]; exact wfSs_of_wfVs xs h
  | .dict d, h => by
    simp only [wfV, Bool.and_eq_true] at h
    simp only [wfS, Bool.and_eq_true]
    exact ⟨h.1, wfST_of_wfT d h.2⟩
  | .grid md cols rows ver, h => by
    simp only [wfV, Bool.and_eq_true] at h
    simp only [wfS, Bool.and_eq_true]
    exact ⟨⟨⟨h.1.1.1, wfSO_of_wfO md h.1.1.2⟩, wfSC_of_wfC cols h.1.2⟩, wfSR_of_wfR rows h.2⟩
theorem wfSs_of_wfVs : ∀ xs : Vals, wfVs xs = true → wfSs xs = true
  | .nil, _ => rfl
  | .cons v vs, h => by
    simp only [wfVs, Bool.and_eq_true] at h
    simp only [wfSs, Bool.and_eq_true]
    exact ⟨wfS_of_wfV v h.1, wfSs_of_wfVs vs h.2⟩
theorem wfST_of_wfT : ∀ t : Tags, wfT t = true → wfST t = true
  | .nil, _ => rfl
  | .cons _ v t, h => by
    simp only [wfT, Bool.and_eq_true] at h
    simp only [wfST, Bool.and_eq_true]
    exact ⟨wfS_of_wfV v h.1, wfST_of_wfT t h.2⟩
theorem wfSO_of_wfO : ∀ o : OTags, wfO o = true → wfSO o = true
  | .none, _ => rfl
  | .some t, h => by simp only [wfO] at h; simp only [wfSO]; exact wfST_of_wfT t h
theorem wfSC_of_wfC : ∀ c : Cols, wfC c = true → wfSC c = true
  | .nil, _ => rfl
  | .cons _ md c, h => by
    simp only [wfC, Bool.and_eq_true] at h
    simp only [wfSC, Bool.and_eq_true]
    exact ⟨wfSO_of_wfO md h.1, wfSC_of_wfC c h.2⟩
theorem wfSR_of_wfR : ∀ r : Rows, wfR r = true → wfSR r = true
  | .nil, _ => rfl
  | .cons r rs, h => by
    simp only [wfR, Bool.and_eq_true] at h
    simp only [wfSR, Bool.and_eq_true]
    exact ⟨wfST_of_wfT r h.1, wfSR_of_wfR rs h.2⟩
end

/-! ### scalars -/

theorem SpOk_of_tok {v : Val} {bs : List UInt8} (hsc : Scalar v = true) (h : TokW bs (lexImg v)) (hf : FirstW bs) :
    SpOk v bs := by
  refine ⟨?_, hf⟩
  have : nestV v = 0 := by cases v <;> simp [nestV] <;> simp [Scalar] at hsc
  rw [this]
  exact RdB_of_TokW h

theorem firstW_cons (b : UInt8) (r : List UInt8) (h : b ≠ 32 ∧ b ≠ 9 ∧ b ≠ 13 ∧ b ≠ 10) : FirstW (b :: r) :=
  ⟨b, r, rfl, h⟩

theorem encDateTime_sp (t : DateTime) :
    encChars t.txt ++ (if t.tzid == "UTC".toList then [] else 32 :: encChars t.zone) = encDateTime t := by
  unfold encDateTime
  by_cases h : t.tzid = ['U', 'T', 'C'] <;> simp [h]

theorem firstW_xstr {ty : List Char} (h : isXStrType ty = true) (x : List UInt8) : FirstW (encChars ty ++ x) := by
  simp only [isXStrType, Bool.and_eq_true] at h
  cases ty with
  | nil => simp [isUpperName] at h
  | cons c r =>
    have h1 := h.1
    simp only [isUpperName, Bool.and_eq_true, decide_eq_true_eq] at h1
    rw [encChars_cons, encChar_ascii c h1.1.1]
    have hu : isUpperB (byteOf c) = true := h1.1.2
    refine ⟨byteOf c, encChars r ++ x, by simp [byteOf], ?_⟩
    refine ⟨?_, ?_, ?_, ?_⟩ <;> (intro e; rw [e] at hu; revert hu; decide)

/-! ### what a spelled tag needs -/

inductive TagOkW : List Char → Val → List UInt8 → Prop
  | marker (k : List Char) : TagOkW k .marker (encChars k)
  | val (k : List Char) (v : Val) (w vb : List UInt8) (hw : Blanks w) (hv : SpOk v vb) :
      TagOkW k v (encChars k ++ 58 :: (w ++ vb))

theorem RdTagsW_ofTag {loop : Nat → Nat → PS → Bool → KVs → Res (KVs × PS)} {term : UInt8} (hL : TagLoop loop term)
    {k : List Char} {v : Val} {bs : List UInt8} (hk : isIdent k = true) (h : TagOkW k v bs) {t' : Tags}
    {tl : List UInt8} (hnext : NextOk loop term t' tl) : RdTagsW loop term (.cons k v t') (bs ++ tl) := by
  cases h
  · exact RdTagsW_marker hL hk hnext
  · rename_i w vb hw hv
    exact RdTagsW_val hL hk hv hw hnext

theorem rowShape_parts {names : List (List Char)} {single : Bool} {r : Tags} (hs : rowShape names single r = true) :
    keysSorted r.keys = true ∧ (∀ k ∈ r.keys, k ∈ names) ∧ (single = true → ∀ n ∈ names, r.get? n ≠ none) := by
  simp only [rowShape, Bool.and_eq_true, List.all_eq_true, Bool.or_eq_true, Bool.not_eq_eq_eq_not, Bool.not_true] at hs
  obtain ⟨⟨h1, h2⟩, h3⟩ := hs
  refine ⟨h1, fun k hk => by simpa using h2 k hk, ?_⟩
  intro hsingle n hn
  rcases h3 with h3 | h3
  · rw [hsingle] at h3; cases h3
  · have := h3 n hn
    intro e; rw [e] at this; cases this

theorem getLast?_append_ne (a b : List UInt8) (hb : b ≠ []) : (a ++ b).getLast? = b.getLast? := by
  rw [List.getLast?_append]
  cases h : b.getLast? with
  | none => exact absurd (List.getLast?_eq_none_iff.mp h) hb
  | some x => rfl

/-! ### the mutual induction -/

mutual
theorem spV : ∀ (v : Val) (bs : List UInt8), wfS v = true → Spells v bs → SpOk v bs
  | .null, _, _, .null => SpOk_of_tok rfl (tokW_kw ['N'] (by decide) _ (by simp [keyword, lexImg])) (firstW_cons _ _ (by decide))
  | .marker, _, _, .marker =>
    SpOk_of_tok rfl (tokW_kw ['M'] (by decide) _ (by simp [keyword, lexImg])) (firstW_cons _ _ (by decide))
  | .remove, _, _, .remove =>
    SpOk_of_tok rfl (tokW_kw ['R'] (by decide) _ (by simp [keyword, lexImg])) (firstW_cons _ _ (by decide))
  | .na, _, _, .na =>
    SpOk_of_tok rfl (tokW_kw ['N', 'A'] (by decide) _ (by simp [keyword, lexImg])) (firstW_cons _ _ (by decide))
  | .bool true, _, _, .true_ =>
    SpOk_of_tok rfl (tokW_kw ['T'] (by decide) _ (by simp [keyword, lexImg])) (firstW_cons _ _ (by decide))
  | .bool false, _, _, .false_ =>
    SpOk_of_tok rfl (tokW_kw ['F'] (by decide) _ (by simp [keyword, lexImg])) (firstW_cons _ _ (by decide))
  | .num n, bs, hwf, .num _ _ h => by
    simp only [wfS] at hwf
    exact SpOk_of_tok rfl (by simpa [lexImg] using tokW_num n bs h hwf) (firstW_num n bs h)
  | .str s, bs, _, .str _ _ h => by
    obtain ⟨t, e⟩ := quoted_shape h
    exact SpOk_of_tok rfl (by simpa [lexImg] using tokW_str s bs h) (by rw [e]; exact firstW_cons _ _ (by decide))
  | .uri s, _, _, .uri _ body h =>
    SpOk_of_tok rfl (by simpa [lexImg] using tokW_uri s body h) (firstW_cons _ _ (by decide))
  | .ref id .none, _, hwf, .ref _ => by
    simp only [wfS] at hwf
    exact SpOk_of_tok rfl (by simpa [lexImg] using tokW_ref id hwf) (firstW_cons _ _ (by decide))
  | .ref id (.some dis), _, hwf, .refDis _ _ q h => by
    simp only [wfS] at hwf
    exact SpOk_of_tok rfl (by simpa [lexImg] using tokW_refDis id dis hwf q h) (firstW_cons _ _ (by decide))
  | .sym s, _, hwf, .sym _ => by
    simp only [wfS] at hwf
    exact SpOk_of_tok rfl (by simpa [lexImg] using tokW_sym s hwf) (firstW_cons _ _ (by decide))
  | .date d, _, hwf, .date _ => by
    simp only [wfS] at hwf
    exact SpOk_of_tok rfl (by simpa [lexImg] using tokW_date d hwf) (firstW_date d hwf)
  | .time t, bs, hwf, .time _ _ h => by
    simp only [wfS] at hwf
    exact SpOk_of_tok rfl (by simpa [lexImg] using tokW_time t hwf bs h) (firstW_time t hwf bs h)
  | .dateTime t, _, hwf, .dateTime _ => by
    simp only [wfS] at hwf
    rw [encDateTime_sp]
    exact SpOk_of_tok rfl (tokW_datetime t hwf) (firstW_datetime t hwf)
  | .coord a b, _, _, .coord _ _ la las lo los w1 w2 w3 w4 ha hb hta htb h1 h2 h3 h4 => by
    refine SpOk_of_tok rfl ?_ (firstW_cons _ _ (by decide))
    have := tokW_coord la las lo los w1 w2 w3 w4 ha hb h1 h2 h3 h4
    simpa [lexImg, hta, htb] using this
  | .xstr ty v, _, hwf, .xstr _ _ q w1 w2 h h1 h2 => by
    simp only [wfS] at hwf
    exact SpOk_of_tok rfl (by simpa [lexImg] using tokW_xstr ty v hwf q w1 w2 h h1 h2) (firstW_xstr hwf _)
  | .list xs, _, hwf, .list _ w body hw h => by
    simp only [wfS] at hwf
    exact SpOk_list hw (spItems xs body hwf h)
  | .dict d, _, hwf, .dict _ w1 body w2 h1 h h2 => by
    simp only [wfS, Bool.and_eq_true] at hwf
    refine SpOk_dict h1 h2 hwf.1.2 (spTags (tagLoop_dict (by decide)) true d body (fun _ => commaLoop_dict) hwf.2 hwf.1.1 h) ?_
    intro e; subst e; cases h; rfl
  | .grid md cols rows ver, _, hwf, .grid _ _ _ _ w nl _ hw hn (.mk _ _ _ _ m w1 nl1 cl w2 nl2 rw hm hw1 hn1 hc hw2 hn2 hr) => by
    simp only [wfS, Bool.and_eq_true, beq_iff_eq] at hwf
    obtain ⟨⟨⟨⟨⟨⟨hver, hms⟩, hcs⟩, hrs⟩, hwo⟩, hwc⟩, hwr⟩ := hwf
    simp only [colsShape, Bool.and_eq_true] at hcs
    exact SpOk_grid (m := m) (w1 := w1) (nl1 := nl1) (cl := cl) (w2 := w2) (nl2 := nl2) (rw := rw)
      ⟨hver, spMeta (tagLoop_dict (by decide)) md m hwo hms hm, spCols cols cl hwc hcs.1.2 hc, nodupB_nodup _ hcs.2,
       spRows cols.names (cols.length == 1) false rows rw hwr hrs hr (fun e => by cases e), hw1, hn1, hw2, hn2,
       fun _ _ => rfl⟩ hw hn
theorem spItems : ∀ (xs : Vals) (body : List UInt8), wfSs xs = true → SpItems xs body → RdItems xs body
  | .nil, _, _, .nil => RdItems_nil
  | .cons v .nil, _, hwf, .last _ bs w h hw => by
    simp only [wfSs, Bool.and_eq_true] at hwf
    exact RdItems_last (spV v bs hwf.1 h) hw
  | .cons v .nil, _, hwf, .lastComma _ bs w w' h hw hw' => by
    simp only [wfSs, Bool.and_eq_true] at hwf
    exact RdItems_lastComma (spV v bs hwf.1 h) hw hw'
  | .cons v (.cons v2 vs), _, hwf, .cons _ _ _ bs w w' rest h hw hw' t => by
    have hwf' := hwf
    simp only [wfSs, Bool.and_eq_true] at hwf'
    exact RdItems_cons (spV v bs hwf'.1 h) hw hw' (spItems (.cons v2 vs) rest (by simp only [wfSs, Bool.and_eq_true]; exact hwf'.2) t)
theorem spTag : ∀ (k : List Char) (v : Val) (bs : List UInt8), wfS v = true → SpTag k v bs → TagOkW k v bs
  | _, .marker, _, _, .marker k => TagOkW.marker k
  | _, v, _, hwf, .val k _ w vb hw h => TagOkW.val k v w vb hw (spV v vb hwf h)
theorem spTags {loop : Nat → Nat → PS → Bool → KVs → Res (KVs × PS)} {term : UInt8} (hL : TagLoop loop term) :
    ∀ (br : Bool) (t : Tags) (body : List UInt8), (br = true → CommaLoop loop) → wfST t = true → keysIdent t = true →
      SpTags br t body → RdTagsW loop term t body
  | _, .nil, _, _, _, _, .nil _ => by intro k v t' e; cases e
  | _, .cons k v .nil, _, _, hwf, hk, .one _ _ _ bs h => by
    simp only [wfST, Bool.and_eq_true] at hwf
    simp only [keysIdent, Bool.and_eq_true] at hk
    have := RdTagsW_ofTag hL hk.1 (spTag k v bs hwf.1 h) (NextOk_nil hL)
    simpa using this
  | br, .cons k v (.cons k2 v2 t), _, hC, hwf, hk, .space _ _ _ _ _ _ bs w rest h hw hne ht => by
    have hwf' := hwf
    have hk' := hk
    simp only [wfST, Bool.and_eq_true] at hwf'
    simp only [keysIdent, Bool.and_eq_true] at hk'
    have ih := spTags hL br (.cons k2 v2 t) rest hC (by simp only [wfST, Bool.and_eq_true]; exact hwf'.2)
      (by simp only [keysIdent, Bool.and_eq_true]; exact hk'.2) ht
    have := RdTagsW_ofTag hL hk'.1 (spTag k v bs hwf'.1 h) (NextOk_space hw hne ih)
    simpa using this
  | _, .cons k v (.cons k2 v2 t), _, hC, hwf, hk, .comma _ _ _ _ _ bs w w' rest h hw hw' ht => by
    have hwf' := hwf
    have hk' := hk
    simp only [wfST, Bool.and_eq_true] at hwf'
    simp only [keysIdent, Bool.and_eq_true] at hk'
    have ih := spTags hL true (.cons k2 v2 t) rest hC (by simp only [wfST, Bool.and_eq_true]; exact hwf'.2)
      (by simp only [keysIdent, Bool.and_eq_true]; exact hk'.2) ht
    have := RdTagsW_ofTag hL hk'.1 (spTag k v bs hwf'.1 h) (NextOk_comma (hC rfl) hw hw' ih)
    simpa using this
theorem spMeta {loop : Nat → Nat → PS → Bool → KVs → Res (KVs × PS)} {term : UInt8} (hL : TagLoop loop term) :
    ∀ (md : OTags) (m : List UInt8), wfSO md = true → metaShape md = true → SpMeta md m →
      MetaOkW (RdTagsW loop term) md m
  | .none, _, _, _, .none => MetaOkW.none
  | .some .nil, _, _, hs, .some _ w body hw hne h => by simp [metaShape, Tags.isEmpty] at hs
  | .some (.cons k v t'), _, hwf, hs, .some _ w body hw hne h => by
    simp only [metaShape, Bool.and_eq_true] at hs
    simp only [wfSO] at hwf
    exact MetaOkW.some k v t' w body hw hne hs.2 (spTags hL false (.cons k v t') body (fun e => by cases e) hwf hs.1.2 h)
theorem spCols : ∀ (cols : Cols) (cl : List UInt8), wfSC cols = true → colsShapeAux cols = true → SpCols cols cl →
    ColsOkW cols cl
  | .cons n md .nil, _, hwf, hs, .one _ _ m h => by
    simp only [wfSC, Bool.and_eq_true] at hwf
    obtain ⟨h1, h2, _⟩ := colsShapeAux_tail hs
    exact ColsOkW.one n md m h1 (spMeta (tagLoop_col 10) md m hwf.1 h2 h)
  | .cons n md (.cons n2 md2 c), _, hwf, hs, .cons _ _ _ _ _ m w rest h hw t => by
    have hwf' := hwf
    simp only [wfSC, Bool.and_eq_true] at hwf'
    obtain ⟨h1, h2, h3⟩ := colsShapeAux_tail hs
    exact ColsOkW.cons n md n2 md2 c m w rest h1 (spMeta (tagLoop_col 44) md m hwf'.1 h2 h) hw
      (spCols (.cons n2 md2 c) rest (by simp only [wfSC, Bool.and_eq_true]; exact hwf'.2) h3 t)
theorem spCells : ∀ (r : Tags) (cells : List (List Char × List UInt8)), wfST r = true → SpCells r cells → CellsW r cells
  | .nil, _, _, .nil => CellsW_nil
  | .cons k v t, _, hwf, .cons _ _ _ bs cells h ht => by
    simp only [wfST, Bool.and_eq_true] at hwf
    exact CellsW_cons (spV v bs hwf.1 h) (spCells t cells hwf.2 ht)
theorem spRows (names : List (List Char)) (single tlf : Bool) : ∀ (rows : Rows) (rw : List UInt8), wfSR rows = true →
    rowsShape names single rows = true → SpRows names rows rw → (tlf = true → rw ≠ [] → rw.getLast? ≠ some 13) →
    RowsOkW names single tlf rows rw
  | .nil, _, _, _, .nil _, _ => RowsOkW.nil
  | .cons r rs, _, hwf, hs, .cons _ _ _ cells line w nl rest hc hl hw hn t, hT => by
    simp only [wfSR, Bool.and_eq_true] at hwf
    simp only [rowsShape, Bool.and_eq_true] at hs
    obtain ⟨p1, p2, p3⟩ := rowShape_parts hs.1
    have hcr : CrOk nl rest tlf := by
      intro e hr
      cases tlf with
      | false => rfl
      | true =>
        exfalso
        subst e; subst hr
        exact hT rfl (by simp) (by simp)
    have hT' : tlf = true → rest ≠ [] → rest.getLast? ≠ some 13 := by
      intro e hr
      have := hT e (by simp [hr])
      rwa [getLast?_append_ne _ _ hr] at this
    exact RowsOkW.cons r rs line w nl rest ⟨⟨cells, spCells r cells hwf.1 hc, hl⟩, p3, p1, p2⟩ hw hn hcr
      (spRows names single tlf rs rest hwf.2 hs.2 t hT')
end

/-! ### the top level -/

theorem DelimW_of_trailer {t : List UInt8} (h : Trailer t) : DelimW t := by
  obtain ⟨hw, h1⟩ := h
  cases t with
  | nil => exact Or.inl rfl
  | cons b r =>
    have hb := hw b (by simp)
    by_cases hnl : b = 13 ∨ b = 10
    · exact Or.inr (Or.inl ⟨b, r, rfl, by rcases hnl with rfl | rfl <;> decide⟩)
    · have hbl : b = 32 ∨ b = 9 := by
        rcases hb with h | h | h | h
        · exact Or.inl h
        · exact Or.inr h
        · exact absurd (Or.inl h) hnl
        · exact absurd (Or.inr h) hnl
      cases r with
      | nil => exact absurd (h1 b rfl) hnl
      | cons x r' =>
        right; right
        refine ⟨b, x, r', rfl, hbl, ?_⟩
        rcases hw x (by simp) with h | h | h | h
        · exact Or.inl h
        · exact Or.inr (Or.inl h)
        · exact Or.inr (Or.inr (Or.inl (by rw [h]; decide)))
        · exact Or.inr (Or.inr (Or.inl (by rw [h]; decide)))

/-- a document that is not a grid: blanks, the value, blanks and line endings -/
theorem fromBytes_of_SpOk {v : Val} {bs lead trail : List UInt8} (h : SpOk v bs) (hl : Blanks lead) (ht : Trailer trail)
    (hn : nestV v < 64) : fromBytes (lead ++ bs ++ trail) = .ok (lexImg v) := by
  have e : lead ++ bs ++ trail = lead ++ (bs ++ trail) := by simp
  rw [e]
  unfold fromBytes fuelFor
  have hat : At (Scan.make (lead ++ (bs ++ trail))) (lead ++ (bs ++ trail)) := At_make_all _
  have hs : (Scan.make (lead ++ (bs ++ trail))).stash = [] := by cases hx : lead ++ (bs ++ trail) <;> simp [Scan.make]
  have hlen : (lead ++ (bs ++ trail)).length = lead.length + bs.length + trail.length := by simp; omega
  obtain ⟨p, p', e1, _, _, e2, _⟩ := h.rd.skip h.first lead hl 0 (8 * (lead ++ (bs ++ trail)).length + 64)
    (8 * (lead ++ (bs ++ trail)).length + 64) (Scan.make (lead ++ (bs ++ trail))) trail hat (by rw [hs]; simp) (fun _ => hs)
    (DelimW_of_trailer ht) (by omega) (by omega) (by omega)
  simp only [e1, e2]

theorem gridOkW_of {tlf : Bool} {md : OTags} {cols : Cols} {rows : Rows} {ver : List Char}
    {m w1 nl1 cl w2 nl2 rw : List UInt8}
    (hwf : wfS (.grid md cols rows ver) = true) (hm : SpMeta md m) (hw1 : Blanks w1) (hn1 : Nl nl1) (hc : SpCols cols cl)
    (hw2 : Blanks w2) (hn2 : Nl nl2) (hr : SpRows cols.names rows rw)
    (hT : tlf = true → (nl2 ++ rw).getLast? ≠ some 13) : GridOkW tlf md cols rows ver m w1 nl1 cl w2 nl2 rw := by
  simp only [wfS, Bool.and_eq_true, beq_iff_eq] at hwf
  obtain ⟨⟨⟨⟨⟨⟨hver, hms⟩, hcs⟩, hrs⟩, hwo⟩, hwc⟩, hwr⟩ := hwf
  simp only [colsShape, Bool.and_eq_true] at hcs
  refine ⟨hver, spMeta (tagLoop_dict (by decide)) md m hwo hms hm, spCols cols cl hwc hcs.1.2 hc, nodupB_nodup _ hcs.2,
    spRows cols.names (cols.length == 1) tlf rows rw hwr hrs hr ?_, hw1, hn1, hw2, hn2, ?_⟩
  · intro e hr'
    have := hT e
    rwa [getLast?_append_ne _ _ hr'] at this
  · intro e hr'
    cases tlf with
    | false => rfl
    | true =>
      exfalso
      subst e; subst hr'
      exact hT rfl (by simp)

theorem SpGrid_inv : ∀ {md : OTags} {cols : Cols} {rows : Rows} {ver : List Char} {body : List UInt8},
    SpGrid md cols rows ver body →
    ∃ m w1 nl1 cl w2 nl2 rw, body = gridText m w1 nl1 cl w2 nl2 rw ∧ SpMeta md m ∧ Blanks w1 ∧ Nl nl1 ∧ SpCols cols cl ∧
      Blanks w2 ∧ Nl nl2 ∧ SpRows cols.names rows rw
  | _, _, _, _, _, .mk _ _ _ _ m w1 nl1 cl w2 nl2 rw hm hw1 hn1 hc hw2 hn2 hr =>
    ⟨m, w1, nl1, cl, w2, nl2, rw, rfl, hm, hw1, hn1, hc, hw2, hn2, hr⟩

theorem tail_head_lf {w nl trail : List UInt8} (hw : Blanks w) (hn : Nl nl) (h : (w ++ (nl ++ trail)).head? = some 10) :
    w = [] ∧ nl = [10] := by
  cases w with
  | cons b w' =>
    simp only [List.cons_append, List.head?_cons, Option.some.injEq] at h
    rcases Blanks.head hw with e | e <;> (rw [e] at h; cases h)
  | nil =>
    refine ⟨rfl, ?_⟩
    cases hn with
    | lf => rfl
    | crlf => simp at h
    | cr => simp at h

theorem SpellsTop_inv : ∀ {v : Val} {bs : List UInt8}, SpellsTop v bs →
    (∃ lead bs' trail, bs = lead ++ bs' ++ trail ∧ Blanks lead ∧ Spells v bs' ∧ Trailer trail) ∨
    ∃ md cols rows ver lead body tail, v = .grid md cols rows ver ∧ bs = lead ++ body ++ tail ∧ Blanks lead ∧
      SpGrid md cols rows ver body ∧ GridEnd false tail [] ∧ (tail.head? = some 10 → body.getLast? ≠ some 13)
  | _, _, .other _ lead bs' trail _ hl h ht => Or.inl ⟨lead, bs', trail, rfl, hl, h, ht⟩
  | .grid md cols rows ver, _, .grid _ _ _ _ lead body hl h =>
    Or.inr ⟨md, cols, rows, ver, lead, body, [], rfl, by simp, hl, h, GridEnd.top, by simp⟩
  | .grid md cols rows ver, _, .gridNl _ _ _ _ lead body w nl trail hl h hw hn ht hcr =>
    Or.inr ⟨md, cols, rows, ver, lead, body, w ++ (nl ++ trail), rfl, by simp, hl, h, GridEnd.topNl w nl trail hw hn ht,
      fun h10 => hcr (tail_head_lf hw hn h10).1 (tail_head_lf hw hn h10).2⟩

/-- **C04, read direction, for the model** (in the lemma files' vocabulary) -/
theorem read_of_spells (v : Val) (bs : List UInt8) (hwf : wfS v = true) (hn : nestV v < 64) (h : SpellsTop v bs) :
    fromBytes bs = .ok (lexImg v) := by
  rcases SpellsTop_inv h with ⟨lead, bs', trail, rfl, hl, h', ht⟩ |
      ⟨md, cols, rows, ver, lead, body, tail, rfl, rfl, hl, h', hE, hcr⟩
  · exact fromBytes_of_SpOk (spV v bs' hwf h') hl ht hn
  · obtain ⟨m, w1, nl1, cl, w2, nl2, rw, rfl, hm, hw1, hn1, hc, hw2, hn2, hr⟩ := SpGrid_inv h'
    have hnl2 : nl2 ++ rw ≠ [] := by cases hn2 <;> simp
    have hlast : (gridText m w1 nl1 cl w2 nl2 rw).getLast? = (nl2 ++ rw).getLast? := by
      have : gridText m w1 nl1 cl w2 nl2 rw = ([118, 101, 114, 58, 34, 51, 46, 48, 34] ++ m ++ w1 ++ nl1 ++ cl ++ w2) ++ (nl2 ++ rw) := by
        simp [gridText]
      rw [this, getLast?_append_ne _ _ hnl2]
    by_cases h10 : tail.head? = some 10
    · exact fromBytes_gridW (tlf := true) (gridOkW_of hwf hm hw1 hn1 hc hw2 hn2 hr (fun _ => by rw [← hlast]; exact hcr h10))
        hl hE (fun e => by cases e) hn
    · exact fromBytes_gridW (tlf := false) (gridOkW_of hwf hm hw1 hn1 hc hw2 hn2 hr (fun e => by cases e))
        hl hE (fun _ => h10) hn

end Hs.Zinc
