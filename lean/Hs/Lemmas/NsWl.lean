/-
  Hs.Lemmas.NsWl — the stack-of-vectors work-list loop `wl` (model of `all_supertypes_of` / `all_subtypes_of`)
  computes exactly the transitive closure of `next`, and terminates on ranked (acyclic) relations within an
  explicit fuel bound.  Generic in the node type and the successor function.
-/
import Hs.Model.Ns
import Mathlib.Logic.Relation
namespace Hs.Ns
open Relation
set_option linter.unusedSectionVars false

section sets
variable {α : Type} [DecidableEq α]

theorem mem_insertSet {a x : α} {l : List α} : x ∈ insertSet a l ↔ x = a ∨ x ∈ l := by
  unfold insertSet
  by_cases h : a ∈ l
  · simp only [h, if_true]
    constructor
    · exact Or.inr
    · rintro (rfl | h')
      · exact h
      · exact h'
  · simp only [h, if_false, List.mem_append, List.mem_singleton]
    exact Or.comm

theorem mem_extendSet {x : α} {l xs : List α} : x ∈ extendSet l xs ↔ x ∈ l ∨ x ∈ xs := by
  unfold extendSet
  induction xs generalizing l with
  | nil => simp
  | cons y ys ih =>
    simp only [List.foldl_cons, List.mem_cons]
    rw [ih, mem_insertSet]
    constructor
    · rintro ((h | h) | h)
      · exact Or.inr (Or.inl h)
      · exact Or.inl h
      · exact Or.inr (Or.inr h)
    · rintro (h | h | h)
      · exact Or.inl (Or.inr h)
      · exact Or.inl (Or.inl h)
      · exact Or.inr h

theorem nodup_insertSet {a : α} {l : List α} (h : l.Nodup) : (insertSet a l).Nodup := by
  unfold insertSet
  by_cases ha : a ∈ l
  · simpa [ha] using h
  · simp only [ha, if_false]
    refine List.nodup_append.2 ⟨h, by simp, ?_⟩
    intro x hx y hy
    simp only [List.mem_singleton] at hy
    subst hy
    intro hxy
    subst hxy
    exact ha hx

end sets

section wl
variable {α : Type} [DecidableEq α] (next : α → List α) (pe : Bool)

/-- successor relation of the loop -/
def Succ (a b : α) : Prop := b ∈ next a

/-- stack after one step of the `for` body -/
def push1 (d : α) (st : List (List α)) : List (List α) :=
  if (next d).isEmpty && !pe then st else next d :: st

theorem forBody_cons (d : α) (ds : List α) (st : List (List α)) (acc : List α) :
    forBody next pe (d :: ds) st acc = forBody next pe ds (push1 next pe d st) (insertSet d acc) := rfl

theorem mem_push1 {d : α} {st : List (List α)} {v : List α} (h : v ∈ push1 next pe d st) :
    v = next d ∨ v ∈ st := by
  unfold push1 at h
  split at h
  · exact Or.inr h
  · simpa using h

theorem sub_push1 {d : α} {st : List (List α)} {v : List α} (h : v ∈ st) : v ∈ push1 next pe d st := by
  unfold push1; split
  · exact h
  · exact List.mem_cons_of_mem _ h

theorem next_in_push1 {d y : α} {st : List (List α)} (hy : y ∈ next d) : next d ∈ push1 next pe d st := by
  unfold push1
  split
  · rename_i h
    simp only [Bool.and_eq_true, List.isEmpty_iff] at h
    rw [h.1] at hy; cases hy
  · exact List.mem_cons_self

/-- The loop invariant: everything seen is a target; every start node and every successor of a collected node
is collected or still on the stack. -/
structure WInv (T : α → Prop) (v0 : List α) (st : List (List α)) (acc : List α) : Prop where
  accT : ∀ x ∈ acc, T x
  stT : ∀ v ∈ st, ∀ x ∈ v, T x
  cover0 : ∀ x ∈ v0, x ∈ acc ∨ ∃ v ∈ st, x ∈ v
  closed : ∀ x ∈ acc, ∀ y ∈ next x, y ∈ acc ∨ ∃ v ∈ st, y ∈ v

theorem forBody_inv {T : α → Prop} (hT : ∀ x, T x → ∀ y ∈ next x, T y) (v0 : List α) :
    ∀ (ds : List α) (st : List (List α)) (acc : List α), WInv next T v0 (ds :: st) acc →
      WInv next T v0 (forBody next pe ds st acc).1 (forBody next pe ds st acc).2 := by
  intro ds
  induction ds with
  | nil =>
    intro st acc h
    refine ⟨h.accT, fun v hv => h.stT v (List.mem_cons_of_mem _ hv), ?_, ?_⟩
    · intro x hx
      rcases h.cover0 x hx with h1 | ⟨v, hv, hxv⟩
      · exact Or.inl h1
      · rcases List.mem_cons.1 hv with rfl | hv
        · cases hxv
        · exact Or.inr ⟨v, hv, hxv⟩
    · intro x hx y hy
      rcases h.closed x hx y hy with h1 | ⟨v, hv, hxv⟩
      · exact Or.inl h1
      · rcases List.mem_cons.1 hv with rfl | hv
        · cases hxv
        · exact Or.inr ⟨v, hv, hxv⟩
  | cons d ds ih =>
    intro st acc h
    rw [forBody_cons]
    apply ih
    have hTd : T d := h.stT _ List.mem_cons_self d List.mem_cons_self
    -- re-home a node that was covered before
    have rehome : ∀ y, (y ∈ acc ∨ ∃ v ∈ (d :: ds) :: st, y ∈ v) →
        (y ∈ insertSet d acc ∨ ∃ v ∈ ds :: push1 next pe d st, y ∈ v) := by
      intro y hy
      rcases hy with h1 | ⟨v, hv, hyv⟩
      · exact Or.inl (mem_insertSet.2 (Or.inr h1))
      · rcases List.mem_cons.1 hv with rfl | hv
        · rcases List.mem_cons.1 hyv with rfl | hyv
          · exact Or.inl (mem_insertSet.2 (Or.inl rfl))
          · exact Or.inr ⟨ds, List.mem_cons_self, hyv⟩
        · exact Or.inr ⟨v, List.mem_cons_of_mem _ (sub_push1 next pe hv), hyv⟩
    refine ⟨?_, ?_, ?_, ?_⟩
    · intro x hx
      rcases mem_insertSet.1 hx with rfl | hx
      · exact hTd
      · exact h.accT x hx
    · intro v hv x hx
      rcases List.mem_cons.1 hv with rfl | hv
      · exact h.stT _ List.mem_cons_self x (List.mem_cons_of_mem _ hx)
      · rcases mem_push1 next pe hv with rfl | hv
        · exact hT d hTd x hx
        · exact h.stT v (List.mem_cons_of_mem _ hv) x hx
    · intro x hx
      exact rehome x (h.cover0 x hx)
    · intro x hx y hy
      rcases mem_insertSet.1 hx with rfl | hx
      · exact Or.inr ⟨next x, List.mem_cons_of_mem _ (next_in_push1 next pe hy), hy⟩
      · exact rehome y (h.closed x hx y hy)

/-- the nodes the loop started from `v0` has to collect -/
def Target (v0 : List α) (x : α) : Prop := ∃ s ∈ v0, ReflTransGen (Succ next) s x

theorem target_closed (v0 : List α) : ∀ x, Target next v0 x → ∀ y ∈ next x, Target next v0 y := by
  rintro x ⟨s, hs, hsx⟩ y hy
  exact ⟨s, hs, hsx.tail hy⟩

theorem winv_init (v0 : List α) : WInv next (Target next v0) v0 [v0] [] := by
  refine ⟨by simp, ?_, ?_, by simp⟩
  · intro v hv x hx
    simp only [List.mem_singleton] at hv
    subst hv
    exact ⟨x, hx, ReflTransGen.refl⟩
  · intro x hx
    exact Or.inr ⟨v0, List.mem_singleton.2 rfl, hx⟩

/-- Partial correctness, for EVERY relation (cyclic or not) and every fuel: when the loop ends, the result is
exactly the set of nodes reachable from the start vector. -/
theorem wl_exact (v0 : List α) : ∀ (fuel : Nat) (st : List (List α)) (acc res : List α),
    WInv next (Target next v0) v0 st acc → wl next pe fuel st acc = .ok res →
    ∀ x, x ∈ res ↔ Target next v0 x := by
  intro fuel
  induction fuel with
  | zero =>
    intro st acc res h hw x
    cases st with
    | nil =>
      simp only [wl, Res.ok.injEq] at hw
      subst hw
      constructor
      · exact h.accT x
      · rintro ⟨s, hs, hsx⟩
        have hs' : s ∈ acc := by
          rcases h.cover0 s hs with h1 | ⟨v, hv, _⟩
          · exact h1
          · cases hv
        induction hsx with
        | refl => exact hs'
        | tail _ hbc ih =>
          rcases h.closed _ ih _ hbc with h1 | ⟨v, hv, _⟩
          · exact h1
          · cases hv
    | cons v st => simp [wl] at hw
  | succ fuel ih =>
    intro st acc res h hw x
    cases st with
    | nil =>
      simp only [wl, Res.ok.injEq] at hw
      subst hw
      constructor
      · exact h.accT x
      · rintro ⟨s, hs, hsx⟩
        have hs' : s ∈ acc := by
          rcases h.cover0 s hs with h1 | ⟨v, hv, _⟩
          · exact h1
          · cases hv
        induction hsx with
        | refl => exact hs'
        | tail _ hbc ih =>
          rcases h.closed _ ih _ hbc with h1 | ⟨v, hv, _⟩
          · exact h1
          · cases hv
    | cons v st =>
      simp only [wl] at hw
      exact ih _ _ res (forBody_inv next pe (target_closed next v0) v0 v st acc h) hw x

theorem wl_nodup : ∀ (fuel : Nat) (st : List (List α)) (acc res : List α),
    acc.Nodup → wl next pe fuel st acc = .ok res → res.Nodup := by
  have hfb : ∀ (ds : List α) (st : List (List α)) (acc : List α), acc.Nodup →
      (forBody next pe ds st acc).2.Nodup := by
    intro ds
    induction ds with
    | nil => intro st acc h; exact h
    | cons d ds ih => intro st acc h; rw [forBody_cons]; exact ih _ _ (nodup_insertSet h)
  intro fuel
  induction fuel with
  | zero =>
    intro st acc res h hw
    cases st with
    | nil => simp only [wl, Res.ok.injEq] at hw; subst hw; exact h
    | cons v st => simp [wl] at hw
  | succ fuel ih =>
    intro st acc res h hw
    cases st with
    | nil => simp only [wl, Res.ok.injEq] at hw; subst hw; exact h
    | cons v st =>
      simp only [wl] at hw
      exact ih _ _ res (hfb v st acc h) hw

/-! ### termination on ranked relations -/

variable (r : α → Nat) (B : Nat)

/-- potential of one stacked vector / of the stack -/
def phi (v : List α) : Nat := 1 + (v.map (fun d => B ^ r d)).sum
def mu (st : List (List α)) : Nat := (st.map (phi r B)).sum

theorem sum_map_le_mul {β : Type} (l : List β) (f : β → Nat) (c : Nat) (h : ∀ x ∈ l, f x ≤ c) :
    (l.map f).sum ≤ l.length * c := by
  induction l with
  | nil => simp
  | cons a l ih =>
    simp only [List.map_cons, List.sum_cons, List.length_cons]
    have h1 := h a List.mem_cons_self
    have h2 := ih (fun x hx => h x (List.mem_cons_of_mem _ hx))
    rw [Nat.succ_mul]
    omega

theorem phi_next_le (hr : ∀ a b, b ∈ next a → r b < r a) (hB : ∀ a, (next a).length + 1 ≤ B) (d : α) :
    phi r B (next d) ≤ B ^ r d := by
  have hB1 : 1 ≤ B := by have := hB d; omega
  unfold phi
  cases hnx : next d with
  | nil => simpa using Nat.one_le_pow _ _ hB1
  | cons b bs =>
    have hb : r b < r d := hr d b (by rw [hnx]; exact List.mem_cons_self)
    obtain ⟨k, hk⟩ : ∃ k, r d = k + 1 := ⟨r d - 1, by omega⟩
    have hle : ∀ x ∈ b :: bs, B ^ r x ≤ B ^ k := by
      intro x hx
      have : r x < r d := hr d x (by rw [hnx]; exact hx)
      exact Nat.pow_le_pow_right hB1 (by omega)
    have h1 := sum_map_le_mul (b :: bs) (fun d => B ^ r d) (B ^ k) hle
    have h2 : (b :: bs).length + 1 ≤ B := by rw [← hnx]; exact hB d
    have h3 : 1 ≤ B ^ k := Nat.one_le_pow _ _ hB1
    have h4 : ((b :: bs).length + 1) * B ^ k ≤ B * B ^ k := Nat.mul_le_mul_right _ h2
    rw [hk, Nat.pow_succ, Nat.mul_comm (B ^ k) B]
    rw [Nat.succ_mul] at h4
    generalize (b :: bs).length * B ^ k = L at *
    generalize B * B ^ k = Q at *
    omega

theorem mu_push1_le (hr : ∀ a b, b ∈ next a → r b < r a) (hB : ∀ a, (next a).length + 1 ≤ B)
    (d : α) (st : List (List α)) : mu r B (push1 next pe d st) ≤ mu r B st + B ^ r d := by
  unfold push1
  split
  · omega
  · have := phi_next_le next r B hr hB d
    simp only [mu, List.map_cons, List.sum_cons] at *
    omega

theorem forBody_mu (hr : ∀ a b, b ∈ next a → r b < r a) (hB : ∀ a, (next a).length + 1 ≤ B) :
    ∀ (ds : List α) (st : List (List α)) (acc : List α),
      mu r B (forBody next pe ds st acc).1 ≤ mu r B st + (ds.map (fun d => B ^ r d)).sum := by
  intro ds
  induction ds with
  | nil => intro st acc; simp [forBody]
  | cons d ds ih =>
    intro st acc
    rw [forBody_cons]
    have h1 := ih (push1 next pe d st) (insertSet d acc)
    have h2 := mu_push1_le next pe r B hr hB d st
    simp only [List.map_cons, List.sum_cons]
    omega

/-- Termination: fuel at least the potential of the stack is enough. -/
theorem wl_terminates (hr : ∀ a b, b ∈ next a → r b < r a) (hB : ∀ a, (next a).length + 1 ≤ B) :
    ∀ (fuel : Nat) (st : List (List α)) (acc : List α), mu r B st ≤ fuel →
      ∃ res, wl next pe fuel st acc = .ok res := by
  intro fuel
  induction fuel with
  | zero =>
    intro st acc h
    cases st with
    | nil => exact ⟨acc, rfl⟩
    | cons v st =>
      simp only [mu, phi, List.map_cons, List.sum_cons] at h
      omega
  | succ fuel ih =>
    intro st acc h
    cases st with
    | nil => exact ⟨acc, rfl⟩
    | cons v st =>
      simp only [wl]
      apply ih
      have h1 := forBody_mu next pe r B hr hB v st acc
      simp only [mu, phi, List.map_cons, List.sum_cons] at h h1 ⊢
      omega

/-- The loop started on the successors of `s`, on a relation ranked below `K`, with fuel `≥ B^K`:
it ends, and returns exactly the nodes reachable from `s` in one or more steps. -/
theorem wl_spec (hr : ∀ a b, b ∈ next a → r b < r a) (hB : ∀ a, (next a).length + 1 ≤ B)
    (K : Nat) (hK : ∀ a, r a ≤ K) (fuel : Nat) (hf : B ^ K ≤ fuel) (s : α) :
    ∃ res, wl next pe fuel [next s] [] = .ok res ∧ res.Nodup ∧ ∀ x, x ∈ res ↔ TransGen (Succ next) s x := by
  have hB1 : 1 ≤ B := by have := hB s; omega
  have hmu : mu r B [next s] ≤ fuel := by
    have h1 := phi_next_le next r B hr hB s
    have h2 : B ^ r s ≤ B ^ K := Nat.pow_le_pow_right hB1 (hK s)
    simp only [mu, List.map_cons, List.map_nil, List.sum_cons, List.sum_nil]
    omega
  obtain ⟨res, hres⟩ := wl_terminates next pe r B hr hB fuel [next s] [] hmu
  refine ⟨res, hres, wl_nodup next pe fuel _ _ res List.nodup_nil hres, fun x => ?_⟩
  rw [wl_exact next pe (next s) fuel _ _ res (winv_init next (next s)) hres x]
  rw [TransGen.head'_iff]
  constructor
  · rintro ⟨b, hb, hbx⟩; exact ⟨b, hb, hbx⟩
  · rintro ⟨b, hb, hbx⟩; exact ⟨b, hb, hbx⟩

/-- the same without ranking hypotheses: IF the loop ends its answer is the closure -/
theorem wl_exact_of_ok (fuel : Nat) (s : α) (res : List α) (h : wl next pe fuel [next s] [] = .ok res) :
    ∀ x, x ∈ res ↔ TransGen (Succ next) s x := by
  intro x
  rw [wl_exact next pe (next s) fuel _ _ res (winv_init next (next s)) h x, TransGen.head'_iff]
  constructor
  · rintro ⟨b, hb, hbx⟩; exact ⟨b, hb, hbx⟩
  · rintro ⟨b, hb, hbx⟩; exact ⟨b, hb, hbx⟩

end wl
end Hs.Ns
