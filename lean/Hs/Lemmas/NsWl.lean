/-
  Hs.Lemmas.NsWl — the stack-of-vectors work-list loop `wl` (model of `all_supertypes_of` / `all_subtypes_of`,
  which expand a def only the first time it is inserted into the result set) computes exactly the transitive
  closure of `next`, and terminates on EVERY relation over a finite universe - cyclic or not - within an explicit
  fuel bound (`wl_terminates`: stack height + number of nodes of the universe not yet collected).
  Generic in the node type and the successor function.
-/
import Hs.Model.Ns
import Mathlib.Logic.Relation
namespace Hs.Ns
open Relation
set_option linter.unusedSectionVars false

section sets
variable {α : Type} [DecidableEq α]

theorem mem_insertSet {a x : α} {l : List α} : x ∈ insertSet a l ↔ x = a ∨ x ∈ l := by
  unfold insertSet
  by_cases h : a ∈ l
  · simp only [h, if_true]
    constructor
    · exact Or.inr
    · rintro (rfl | h')
      · exact h
      · exact h'
  · simp only [h, if_false, List.mem_append, List.mem_singleton]
    exact Or.comm

theorem mem_extendSet {x : α} {l xs : List α} : x ∈ extendSet l xs ↔ x ∈ l ∨ x ∈ xs := by
  unfold extendSet
  induction xs generalizing l with
  | nil => simp
  | cons y ys ih =>
    simp only [List.foldl_cons, List.mem_cons]
    rw [ih, mem_insertSet]
    constructor
    · rintro ((h | h) | h)
      · exact Or.inr (Or.inl h)
      · exact Or.inl h
      · exact Or.inr (Or.inr h)
    · rintro (h | h | h)
      · exact Or.inl (Or.inr h)
      · exact Or.inl (Or.inl h)
      · exact Or.inr h

theorem nodup_insertSet {a : α} {l : List α} (h : l.Nodup) : (insertSet a l).Nodup := by
  unfold insertSet
  by_cases ha : a ∈ l
  · simpa [ha] using h
  · simp only [ha, if_false]
    refine List.nodup_append.2 ⟨h, by simp, ?_⟩
    intro x hx y hy
    simp only [List.mem_singleton] at hy
    subst hy
    intro hxy
    subst hxy
    exact ha hx

end sets

section wl
variable {α : Type} [DecidableEq α] (next : α → List α) (pe : Bool)

/-- successor relation of the loop -/
def Succ (a b : α) : Prop := b ∈ next a

/-- stack after one step of the `for` body -/
def push1 (d : α) (st : List (List α)) : List (List α) :=
  if (next d).isEmpty && !pe then st else next d :: st

/-- the def was already collected: `insert` answers `false`, nothing is pushed -/
theorem forBody_cons_old (d : α) (ds : List α) (st : List (List α)) (acc : List α) (h : d ∈ acc) :
    forBody next pe (d :: ds) st acc = forBody next pe ds st acc := by
  simp only [forBody, h, if_true]

/-- the def is new: it is collected and the vector of its successors is pushed -/
theorem forBody_cons_new (d : α) (ds : List α) (st : List (List α)) (acc : List α) (h : ¬ d ∈ acc) :
    forBody next pe (d :: ds) st acc = forBody next pe ds (push1 next pe d st) (insertSet d acc) := by
  simp only [forBody, h, if_false, push1]

theorem insertSet_of_mem {d : α} {acc : List α} (h : d ∈ acc) : insertSet d acc = acc := by
  simp [insertSet, h]

theorem mem_push1 {d : α} {st : List (List α)} {v : List α} (h : v ∈ push1 next pe d st) :
    v = next d ∨ v ∈ st := by
  unfold push1 at h
  split at h
  · exact Or.inr h
  · simpa using h

theorem sub_push1 {d : α} {st : List (List α)} {v : List α} (h : v ∈ st) : v ∈ push1 next pe d st := by
  unfold push1; split
  · exact h
  · exact List.mem_cons_of_mem _ h

theorem next_in_push1 {d y : α} {st : List (List α)} (hy : y ∈ next d) : next d ∈ push1 next pe d st := by
  unfold push1
  split
  · rename_i h
    simp only [Bool.and_eq_true, List.isEmpty_iff] at h
    rw [h.1] at hy; cases hy
  · exact List.mem_cons_self

/-- The loop invariant: everything seen is a target; every start node and every successor of a collected node
is collected or still on the stack. -/
structure WInv (T : α → Prop) (v0 : List α) (st : List (List α)) (acc : List α) : Prop where
  accT : ∀ x ∈ acc, T x
  stT : ∀ v ∈ st, ∀ x ∈ v, T x
  cover0 : ∀ x ∈ v0, x ∈ acc ∨ ∃ v ∈ st, x ∈ v
  closed : ∀ x ∈ acc, ∀ y ∈ next x, y ∈ acc ∨ ∃ v ∈ st, y ∈ v

theorem forBody_inv {T : α → Prop} (hT : ∀ x, T x → ∀ y ∈ next x, T y) (v0 : List α) :
    ∀ (ds : List α) (st : List (List α)) (acc : List α), WInv next T v0 (ds :: st) acc →
      WInv next T v0 (forBody next pe ds st acc).1 (forBody next pe ds st acc).2 := by
  intro ds
  induction ds with
  | nil =>
    intro st acc h
    refine ⟨h.accT, fun v hv => h.stT v (List.mem_cons_of_mem _ hv), ?_, ?_⟩
    · intro x hx
      rcases h.cover0 x hx with h1 | ⟨v, hv, hxv⟩
      · exact Or.inl h1
      · rcases List.mem_cons.1 hv with rfl | hv
        · cases hxv
        · exact Or.inr ⟨v, hv, hxv⟩
    · intro x hx y hy
      rcases h.closed x hx y hy with h1 | ⟨v, hv, hxv⟩
      · exact Or.inl h1
      · rcases List.mem_cons.1 hv with rfl | hv
        · cases hxv
        · exact Or.inr ⟨v, hv, hxv⟩
  | cons d ds ih =>
    intro st acc h
    have hTd : T d := h.stT _ List.mem_cons_self d List.mem_cons_self
    by_cases hd : d ∈ acc
    · -- already collected: the def leaves the stack and stays in the result set
      rw [forBody_cons_old next pe d ds st acc hd]
      apply ih
      have rehome : ∀ y, (y ∈ acc ∨ ∃ v ∈ (d :: ds) :: st, y ∈ v) → (y ∈ acc ∨ ∃ v ∈ ds :: st, y ∈ v) := by
        intro y hy
        rcases hy with h1 | ⟨v, hv, hyv⟩
        · exact Or.inl h1
        · rcases List.mem_cons.1 hv with rfl | hv
          · rcases List.mem_cons.1 hyv with rfl | hyv
            · exact Or.inl hd
            · exact Or.inr ⟨ds, List.mem_cons_self, hyv⟩
          · exact Or.inr ⟨v, List.mem_cons_of_mem _ hv, hyv⟩
      refine ⟨h.accT, ?_, fun x hx => rehome x (h.cover0 x hx), fun x hx y hy => rehome y (h.closed x hx y hy)⟩
      intro v hv x hx
      rcases List.mem_cons.1 hv with rfl | hv
      · exact h.stT _ List.mem_cons_self x (List.mem_cons_of_mem _ hx)
      · exact h.stT v (List.mem_cons_of_mem _ hv) x hx
    · -- new: collected, and its successors are stacked
      rw [forBody_cons_new next pe d ds st acc hd]
      apply ih
      -- re-home a node that was covered before
      have rehome : ∀ y, (y ∈ acc ∨ ∃ v ∈ (d :: ds) :: st, y ∈ v) →
          (y ∈ insertSet d acc ∨ ∃ v ∈ ds :: push1 next pe d st, y ∈ v) := by
        intro y hy
        rcases hy with h1 | ⟨v, hv, hyv⟩
        · exact Or.inl (mem_insertSet.2 (Or.inr h1))
        · rcases List.mem_cons.1 hv with rfl | hv
          · rcases List.mem_cons.1 hyv with rfl | hyv
            · exact Or.inl (mem_insertSet.2 (Or.inl rfl))
            · exact Or.inr ⟨ds, List.mem_cons_self, hyv⟩
          · exact Or.inr ⟨v, List.mem_cons_of_mem _ (sub_push1 next pe hv), hyv⟩
      refine ⟨?_, ?_, ?_, ?_⟩
      · intro x hx
        rcases mem_insertSet.1 hx with rfl | hx
        · exact hTd
        · exact h.accT x hx
      · intro v hv x hx
        rcases List.mem_cons.1 hv with rfl | hv
        · exact h.stT _ List.mem_cons_self x (List.mem_cons_of_mem _ hx)
        · rcases mem_push1 next pe hv with rfl | hv
          · exact hT d hTd x hx
          · exact h.stT v (List.mem_cons_of_mem _ hv) x hx
      · intro x hx
        exact rehome x (h.cover0 x hx)
      · intro x hx y hy
        rcases mem_insertSet.1 hx with rfl | hx
        · exact Or.inr ⟨next x, List.mem_cons_of_mem _ (next_in_push1 next pe hy), hy⟩
        · exact rehome y (h.closed x hx y hy)

/-- the nodes the loop started from `v0` has to collect -/
def Target (v0 : List α) (x : α) : Prop := ∃ s ∈ v0, ReflTransGen (Succ next) s x

theorem target_closed (v0 : List α) : ∀ x, Target next v0 x → ∀ y ∈ next x, Target next v0 y := by
  rintro x ⟨s, hs, hsx⟩ y hy
  exact ⟨s, hs, hsx.tail hy⟩

theorem winv_init (v0 : List α) : WInv next (Target next v0) v0 [v0] [] := by
  refine ⟨by simp, ?_, ?_, by simp⟩
  · intro v hv x hx
    simp only [List.mem_singleton] at hv
    subst hv
    exact ⟨x, hx, ReflTransGen.refl⟩
  · intro x hx
    exact Or.inr ⟨v0, List.mem_singleton.2 rfl, hx⟩

/-- Partial correctness, for EVERY relation (cyclic or not) and every fuel: when the loop ends, the result is
exactly the set of nodes reachable from the start vector. -/
theorem wl_exact (v0 : List α) : ∀ (fuel : Nat) (st : List (List α)) (acc res : List α),
    WInv next (Target next v0) v0 st acc → wl next pe fuel st acc = .ok res →
    ∀ x, x ∈ res ↔ Target next v0 x := by
  intro fuel
  induction fuel with
  | zero =>
    intro st acc res h hw x
    cases st with
    | nil =>
      simp only [wl, Res.ok.injEq] at hw
      subst hw
      constructor
      · exact h.accT x
      · rintro ⟨s, hs, hsx⟩
        have hs' : s ∈ acc := by
          rcases h.cover0 s hs with h1 | ⟨v, hv, _⟩
          · exact h1
          · cases hv
        induction hsx with
        | refl => exact hs'
        | tail _ hbc ih =>
          rcases h.closed _ ih _ hbc with h1 | ⟨v, hv, _⟩
          · exact h1
          · cases hv
    | cons v st => simp [wl] at hw
  | succ fuel ih =>
    intro st acc res h hw x
    cases st with
    | nil =>
      simp only [wl, Res.ok.injEq] at hw
      subst hw
      constructor
      · exact h.accT x
      · rintro ⟨s, hs, hsx⟩
        have hs' : s ∈ acc := by
          rcases h.cover0 s hs with h1 | ⟨v, hv, _⟩
          · exact h1
          · cases hv
        induction hsx with
        | refl => exact hs'
        | tail _ hbc ih =>
          rcases h.closed _ ih _ hbc with h1 | ⟨v, hv, _⟩
          · exact h1
          · cases hv
    | cons v st =>
      simp only [wl] at hw
      exact ih _ _ res (forBody_inv next pe (target_closed next v0) v0 v st acc h) hw x

theorem wl_nodup : ∀ (fuel : Nat) (st : List (List α)) (acc res : List α),
    acc.Nodup → wl next pe fuel st acc = .ok res → res.Nodup := by
  have hfb : ∀ (ds : List α) (st : List (List α)) (acc : List α), acc.Nodup →
      (forBody next pe ds st acc).2.Nodup := by
    intro ds
    induction ds with
    | nil => intro st acc h; exact h
    | cons d ds ih =>
      intro st acc h
      by_cases hd : d ∈ acc
      · rw [forBody_cons_old next pe d ds st acc hd]; exact ih _ _ h
      · rw [forBody_cons_new next pe d ds st acc hd]; exact ih _ _ (nodup_insertSet h)
  intro fuel
  induction fuel with
  | zero =>
    intro st acc res h hw
    cases st with
    | nil => simp only [wl, Res.ok.injEq] at hw; subst hw; exact h
    | cons v st => simp [wl] at hw
  | succ fuel ih =>
    intro st acc res h hw
    cases st with
    | nil => simp only [wl, Res.ok.injEq] at hw; subst hw; exact h
    | cons v st =>
      simp only [wl] at hw
      exact ih _ _ res (hfb v st acc h) hw

/-! ### termination on EVERY relation over a finite universe

The measure is `stack height + number of nodes of the universe that are not yet collected`: an iteration of the
`while` loop pops one vector, and the `for` body pushes a vector only for a node that was not yet collected. -/

/-- how many nodes of the universe `U` (a list, repetitions counted) are not yet in `acc` -/
def unv (acc : List α) : List α → Nat
  | [] => 0
  | u :: us => (if u ∈ acc then 0 else 1) + unv acc us

theorem unv_nil (U : List α) : unv ([] : List α) U = U.length := by
  induction U with
  | nil => rfl
  | cons u us ih => simp only [unv, List.not_mem_nil, if_false, ih, List.length_cons]; omega

theorem unv_insert_le (d : α) (acc : List α) : ∀ U : List α, unv (insertSet d acc) U ≤ unv acc U := by
  intro U
  induction U with
  | nil => exact Nat.le_refl _
  | cons u us ih =>
    simp only [unv]
    by_cases hu : u ∈ acc
    · have hu' : u ∈ insertSet d acc := mem_insertSet.2 (Or.inr hu)
      simp only [hu, hu', if_true]; omega
    · simp only [hu, if_false]
      split <;> omega

/-- collecting a NEW node of the universe lowers the count -/
theorem unv_insert_lt {d : α} {acc : List α} (hd : ¬ d ∈ acc) :
    ∀ U : List α, d ∈ U → unv (insertSet d acc) U + 1 ≤ unv acc U := by
  intro U
  induction U with
  | nil => intro h; cases h
  | cons u us ih =>
    intro hdu
    simp only [unv]
    by_cases hud : u = d
    · subst hud
      have h1 : u ∈ insertSet u acc := mem_insertSet.2 (Or.inl rfl)
      have h2 := unv_insert_le u acc us
      simp only [h1, hd, if_true, if_false]; omega
    · have hdus : d ∈ us := by
        rcases List.mem_cons.1 hdu with h | h
        · exact absurd h.symm hud
        · exact h
      have h2 := ih hdus
      by_cases hu : u ∈ acc
      · have hu' : u ∈ insertSet d acc := mem_insertSet.2 (Or.inr hu)
        simp only [hu, hu', if_true]; omega
      · have hu' : ¬ u ∈ insertSet d acc := by
          intro h; rcases mem_insertSet.1 h with h | h
          · exact hud h
          · exact hu h
        simp only [hu, hu', if_false]; omega

variable (U : List α)

/-- every stacked node belongs to the universe -/
def InU (st : List (List α)) : Prop := ∀ v ∈ st, ∀ x ∈ v, x ∈ U

theorem inU_push1 (hU : ∀ a, ∀ b ∈ next a, b ∈ U) (d : α) {st : List (List α)} (h : InU U st) :
    InU U (push1 next pe d st) := by
  intro v hv x hx
  rcases mem_push1 next pe hv with rfl | hv
  · exact hU d x hx
  · exact h v hv x hx

theorem length_push1_le (d : α) (st : List (List α)) : (push1 next pe d st).length ≤ st.length + 1 := by
  unfold push1; split
  · omega
  · simp

/-- the `for` body keeps the stack inside the universe and does not raise the measure -/
theorem forBody_measure (hU : ∀ a, ∀ b ∈ next a, b ∈ U) :
    ∀ (ds : List α) (st : List (List α)) (acc : List α), (∀ x ∈ ds, x ∈ U) → InU U st →
      InU U (forBody next pe ds st acc).1 ∧
      (forBody next pe ds st acc).1.length + unv (forBody next pe ds st acc).2 U ≤ st.length + unv acc U := by
  intro ds
  induction ds with
  | nil => intro st acc _ h; exact ⟨h, Nat.le_refl _⟩
  | cons d ds ih =>
    intro st acc hds hst
    have hds' : ∀ x ∈ ds, x ∈ U := fun x hx => hds x (List.mem_cons_of_mem _ hx)
    by_cases hd : d ∈ acc
    · rw [forBody_cons_old next pe d ds st acc hd]
      exact ih st acc hds' hst
    · rw [forBody_cons_new next pe d ds st acc hd]
      obtain ⟨h1, h2⟩ := ih (push1 next pe d st) (insertSet d acc) hds' (inU_push1 next pe U hU d hst)
      refine ⟨h1, ?_⟩
      have h3 := length_push1_le next pe d st
      have h4 := unv_insert_lt hd U (hds d List.mem_cons_self)
      omega

/-- Termination, whatever the relation: fuel at least `stack height + uncollected nodes` is enough. -/
theorem wl_terminates (hU : ∀ a, ∀ b ∈ next a, b ∈ U) :
    ∀ (fuel : Nat) (st : List (List α)) (acc : List α), InU U st → st.length + unv acc U ≤ fuel →
      ∃ res, wl next pe fuel st acc = .ok res := by
  intro fuel
  induction fuel with
  | zero =>
    intro st acc _ h
    cases st with
    | nil => exact ⟨acc, rfl⟩
    | cons v st => simp only [List.length_cons] at h; omega
  | succ fuel ih =>
    intro st acc hst h
    cases st with
    | nil => exact ⟨acc, rfl⟩
    | cons v st =>
      simp only [wl]
      have hv : ∀ x ∈ v, x ∈ U := hst v List.mem_cons_self
      have hst' : InU U st := fun w hw => hst w (List.mem_cons_of_mem _ hw)
      obtain ⟨h1, h2⟩ := forBody_measure next pe U hU v st acc hv hst'
      apply ih _ _ h1
      simp only [List.length_cons] at h
      omega

/-- The loop started on the successors of `s`, on ANY relation whose successors lie in the finite universe `U`
(cycles, self loops, diamonds - no ranking), with fuel `≥ |U| + 1`: it ends, and returns exactly the nodes
reachable from `s` in one or more steps. -/
theorem wl_spec (hU : ∀ a, ∀ b ∈ next a, b ∈ U) (fuel : Nat) (hf : U.length + 1 ≤ fuel) (s : α) :
    ∃ res, wl next pe fuel [next s] [] = .ok res ∧ res.Nodup ∧ ∀ x, x ∈ res ↔ TransGen (Succ next) s x := by
  have hst : InU U [next s] := by
    intro v hv x hx
    simp only [List.mem_singleton] at hv
    subst hv
    exact hU s x hx
  have hmu : [next s].length + unv ([] : List α) U ≤ fuel := by
    rw [unv_nil]; simp only [List.length_singleton]; omega
  obtain ⟨res, hres⟩ := wl_terminates next pe U hU fuel [next s] [] hst hmu
  refine ⟨res, hres, wl_nodup next pe fuel _ _ res List.nodup_nil hres, fun x => ?_⟩
  rw [wl_exact next pe (next s) fuel _ _ res (winv_init next (next s)) hres x]
  rw [TransGen.head'_iff]
  constructor
  · rintro ⟨b, hb, hbx⟩; exact ⟨b, hb, hbx⟩
  · rintro ⟨b, hb, hbx⟩; exact ⟨b, hb, hbx⟩

/-- the loop never reports divergence when it has that much fuel -/
theorem wl_never_diverges (hU : ∀ a, ∀ b ∈ next a, b ∈ U) (fuel : Nat) (hf : U.length + 1 ≤ fuel) (s : α) :
    wl next pe fuel [next s] [] ≠ .diverge := by
  obtain ⟨res, h, _⟩ := wl_spec next pe U hU fuel hf s
  rw [h]; intro hc; cases hc

/-- the same for any fuel and without a universe: IF the loop ends its answer is the closure -/
theorem wl_exact_of_ok (fuel : Nat) (s : α) (res : List α) (h : wl next pe fuel [next s] [] = .ok res) :
    ∀ x, x ∈ res ↔ TransGen (Succ next) s x := by
  intro x
  rw [wl_exact next pe (next s) fuel _ _ res (winv_init next (next s)) h x, TransGen.head'_iff]
  constructor
  · rintro ⟨b, hb, hbx⟩; exact ⟨b, hb, hbx⟩
  · rintro ⟨b, hb, hbx⟩; exact ⟨b, hb, hbx⟩

end wl
end Hs.Ns
