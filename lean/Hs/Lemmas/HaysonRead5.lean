/-
  Hs.Lemmas.HaysonRead5 — the side conditions of `Denotes` on dicts (tags in ascending key order) do not
  exclude any document: every JSON object with pairwise distinct member names, none of them `_kind`, whose
  member values are Hayson documents, is a Hayson document of a dict (its tags sorted by name).
-/
import Hs.Lemmas.HaysonRead3
namespace Hs.Spec.Hayson
open Hs Hs.Hayson

theorem denotesM_exists : ∀ tm : Mems, (∀ p ∈ tm, ∃ w, Denotes w p.2) →
    ∃ t : Tags, DenotesM t tm ∧ t.keys = tm.map (·.1)
  | [], _ => ⟨.nil, .nil, rfl⟩
  | (k, j) :: tm, h => by
    obtain ⟨w, hw⟩ := h (k, j) (by simp)
    obtain ⟨t, ht, hk⟩ := denotesM_exists tm (fun p hp => h p (List.mem_cons_of_mem _ hp))
    exact ⟨.cons k w t, .cons hw ht, by simp [Tags.keys, hk]⟩

/-- every object with distinct member names other than `_kind` and Hayson member values is a dict document -/
theorem denotes_dict_exists (ms : Members) (hd : (ms.toList.map (·.1)).Nodup)
    (hk : ∀ p ∈ ms.toList, p.1 ≠ s "_kind") (hv : ∀ p ∈ ms.toList, ∃ w, Denotes w p.2) :
    ∃ t : Tags, Denotes (.dict t) (.obj ms) := by
  let le : List Char × Json → List Char × Json → Bool := fun a b => leChars a.1 b.1
  have hperm : (ms.toList.mergeSort le).Perm ms.toList := List.mergeSort_perm _ _
  have hsorted : (ms.toList.mergeSort le).Pairwise (fun a b => le a b = true) :=
    List.pairwise_mergeSort (fun a b c h1 h2 => leChars_trans a.1 b.1 c.1 h1 h2)
      (fun a b => by
        rcases leChars_total a.1 b.1 with h | h <;> simp [le, h]) _
  have hnd : ((ms.toList.mergeSort le).map (·.1)).Nodup := (hperm.map (·.1)).nodup_iff.mpr hd
  obtain ⟨t, ht, hkeys⟩ := denotesM_exists (ms.toList.mergeSort le)
    (fun p hp => hv p (hperm.mem_iff.mp hp))
  refine ⟨t, .dict (.mk ht ⟨?_, ?_⟩ .absent (by simpa using hperm.symm))⟩
  · apply pairwise_strictSorted
    rw [hkeys, List.pairwise_map]
    have hne : (ms.toList.mergeSort le).Pairwise (fun a b => a.1 ≠ b.1) := by
      rw [← List.pairwise_map (f := fun p : List Char × Json => p.1) (R := fun a b => a ≠ b)]
      exact hnd
    refine (hsorted.and hne).imp ?_
    intro a b h
    simp only [ltChars, Bool.and_eq_true, bne_iff_ne, ne_eq]
    exact ⟨h.1, h.2⟩
  · intro k hk'
    rw [hkeys] at hk'
    obtain ⟨p, hp, e⟩ := List.mem_map.mp hk'
    subst e
    exact hk p (hperm.mem_iff.mp hp)

end Hs.Spec.Hayson
