/-
  Hs.Lemmas.FilterTotal2Parse — C09: fuel sufficiency of the filter parser (filter/parser.rs).

  Measure: `FLex.M l` = bytes the scanner has not consumed (`Scan.mu`) + one unit for a pending token
  (`cur ≠ none`).  A lexer `read` never increases it — the token it returns is paid for by the bytes it consumed;
  after a swallowed lexer error the token is unchanged and the scanner measure did not grow
  (`Hs.Lemmas.FilterTotal2Err`).  For every function of the parser's `mutual` block, by induction on the fuel:
  no `panic`/`depth`, the measure does not grow, and `diverge` is only possible when `fuel ≤ 8 * measure + c`
  with a per-function constant `c ≤ 13`.

  Why the budgets close: an iteration of `orLoop`/`andLoop` consumes the `or`/`and` token, a nested group consumes
  its `(` token, a token costs one unit of `M`, and one unit of measure buys 8 units of fuel — more than the longest
  chain of calls between two `read`s (`parseTerm → parseParens → parseOr → parseAnd → parseTerm`).
-/
import Hs.Lemmas.FilterTotal2Lex
namespace Hs.FText
open Hs Hs.Scan Hs.Zinc

/-- bytes not yet consumed plus one for the token in hand -/
def FLex.M (l : FLex) : Nat := l.sc.mu + (if l.cur.isNone then 0 else 1)

theorem FLex.M_def (l : FLex) : l.M = l.sc.mu + (if l.cur.isNone then 0 else 1) := rfl

theorem FLex.M_bounds (l : FLex) : l.sc.mu ≤ l.M ∧ l.M ≤ l.sc.mu + 1 := by
  unfold FLex.M; split <;> omega

theorem FLex.M_mk (s : Scan) (t : FTok) :
    FLex.M { sc := s, cur := t } = s.mu + (if t.isNone then 0 else 1) := rfl

theorem FTok.isNone_of_isPath {t : FTok} {p : Path} (h : t.isPath p = true) : t.isNone = false := by
  cases t <;> simp_all [FTok.isPath, FTok.isNone]
theorem FLex.isNone_of_lparen {l : FLex} (h : l.cur = FTok.lparen) : l.cur.isNone = false := by
  simp [h, FTok.isNone]
theorem FLex.isNone_of_path {l : FLex} {p} (h : l.cur = FTok.path p) : l.cur.isNone = false := by
  simp [h, FTok.isNone]
theorem FLex.isNone_of_val {l : FLex} {v} (h : l.cur = FTok.val v) : l.cur.isNone = false := by
  simp [h, FTok.isNone]
theorem FLex.isNone_of_rel {l : FLex} {r} (h : l.cur = FTok.rel r) : l.cur.isNone = false := by
  simp [h, FTok.isNone]

grind_pattern FLex.M_def => FLex.M l
grind_pattern FTok.isNone_of_isPath => FTok.isPath t p
grind_pattern FLex.isNone_of_lparen => l.cur, FTok.lparen
grind_pattern FLex.isNone_of_path => l.cur, FTok.path p
grind_pattern FLex.isNone_of_val => l.cur, FTok.val v
grind_pattern FLex.isNone_of_rel => l.cur, FTok.rel r

/-- at the end of the input `read` returns the token `none` and leaves the scanner alone -/
theorem lexRead_at_eof (fuel : Nat) (s : Scan) (he : s.eof = true) : lexRead (fuel + 1) s = .ok s .none := by
  rw [lexRead]; simp only [he, if_true]

/-! ### the three ways the parser calls the lexer -/

/-- `self.lexer.read()?`: the new state's measure (token included) is at most the bytes that were left before -/
theorem FLex.read_spec (fuel : Nat) (l : FLex) :
    (l.read fuel).Sat fuel (l.sc.mu + 1) (fun l1 => l1.M ≤ l.sc.mu) := by
  unfold FLex.read
  cases he : l.sc.eof with
  | true =>
    cases fuel with
    | zero => exact Nat.zero_le _
    | succ n =>
      rw [lexRead_at_eof n l.sc he]
      refine Res.Sat.ok_intro ?_
      simp [FLex.M, FTok.isNone]
  | false =>
    have h := lexRead_spec fuel l.sc
    cases hr : lexRead fuel l.sc with
    | ok s t =>
      rw [hr] at h
      simp only [TokR.Sat_ok] at h
      refine Res.Sat.ok_intro ?_
      have := h.2.1 he
      rw [FLex.M_mk]; split <;> omega
    | err s => exact Res.Sat.err_intro
    | panic => rw [hr] at h; exact h
    | depth => rw [hr] at h; exact h
    | diverge => rw [hr] at h; exact h

/-- `self.lexer.read()` with the `Result` inspected: after an `Err` the token in hand stays -/
theorem FLex.readTry_spec (fuel : Nat) (l : FLex) :
    (l.readTry fuel).Sat fuel (l.sc.mu + 1) (fun o => o.2.M ≤ l.M ∧ (o.1 = true → o.2.M ≤ l.sc.mu)) := by
  have h1 := FLex.read_spec fuel l
  have h2 := lexRead_spec fuel l.sc
  have hb := FLex.M_bounds l
  unfold FLex.read at h1
  unfold FLex.readTry
  cases hr : lexRead fuel l.sc with
  | ok s t =>
    rw [hr] at h1
    simp only [Res.Sat_ok] at h1
    refine Res.Sat.ok_intro ⟨?_, fun _ => h1⟩
    show FLex.M { sc := s, cur := t } ≤ l.M
    omega
  | err s =>
    rw [hr] at h2
    simp only [TokR.Sat_err] at h2
    refine Res.Sat.ok_intro ⟨?_, fun h => by cases h⟩
    show FLex.M { sc := s, cur := l.cur } ≤ l.M
    rw [FLex.M_mk, FLex.M_def]; omega
  | panic => rw [hr] at h1; exact h1
  | depth => rw [hr] at h1; exact h1
  | diverge => rw [hr] at h1; exact h1

/-- `self.lexer.read().ok()` -/
theorem FLex.readOk_spec (fuel : Nat) (l : FLex) :
    (l.readOk fuel).Sat fuel (l.sc.mu + 1) (fun l1 => l1.M ≤ l.M) := by
  unfold FLex.readOk; res_auto

/-! ### the parser functions outside the `mutual` block -/

theorem parseCmp_spec (fuel : Nat) (l : FLex) (p : Path) (op : CmpOp) :
    (parseCmp fuel l p op).Sat fuel (l.sc.mu + 1) (fun o => o.2.M ≤ l.sc.mu) := by
  unfold parseCmp; res_auto

theorem parseWeq_spec (fuel : Nat) (l : FLex) (p : Path) :
    (parseWeq fuel l p).Sat fuel (l.sc.mu + 1) (fun o => o.2.M ≤ l.sc.mu) := by
  unfold parseWeq; res_auto

theorem parseCmpOrWeq_spec (fuel : Nat) (l : FLex) (next : FTok) (p : Path) :
    (parseCmpOrWeq fuel l next p).Sat fuel (l.sc.mu + 1) (fun o => o.2.M ≤ l.M) := by
  unfold parseCmpOrWeq; res_auto

theorem parseNot_spec (fuel : Nat) (l : FLex) :
    (parseNot fuel l).Sat fuel (l.sc.mu + 1) (fun o => o.2.M ≤ l.M) := by
  unfold parseNot; res_auto

theorem parseRel_spec (fuel : Nat) (l : FLex) (rel : List Char) :
    (parseRel fuel l rel).Sat fuel (l.sc.mu + 1) (fun o => o.2.M ≤ l.M) := by
  unfold parseRel; res_auto

/-! ### the `mutual` block -/

/-- the statements proved together by induction on the fuel -/
structure Specs (fuel : Nat) : Prop where
  parseOr : ∀ d l, (parseOr fuel d l).Sat fuel (8 * l.M + 12) (fun o => o.2.M ≤ l.M)
  orLoop : ∀ d l, (orLoop fuel d l).Sat fuel (8 * l.M + 6) (fun o => o.2.M ≤ l.M)
  parseAnd : ∀ d l, (parseAnd fuel d l).Sat fuel (8 * l.M + 11) (fun o => o.2.M ≤ l.M)
  andLoop : ∀ d l, (andLoop fuel d l).Sat fuel (8 * l.M + 5) (fun o => o.2.M ≤ l.M)
  parseTerm : ∀ d l, (parseTerm fuel d l).Sat fuel (8 * l.M + 10) (fun o => o.2.M ≤ l.M)
  parseParens : ∀ d l, (parseParens fuel d l).Sat fuel (8 * l.sc.mu + 13) (fun o => o.2.M ≤ l.M)

theorem parseOr_step {n} (ih : Specs n) : ∀ d l,
    (parseOr (n + 1) d l).Sat (n + 1) (8 * l.M + 12) (fun o => o.2.M ≤ l.M) := by
  intro d l; rw [parseOr]; res_auto

theorem orLoop_step {n} (ih : Specs n) : ∀ d l,
    (orLoop (n + 1) d l).Sat (n + 1) (8 * l.M + 6) (fun o => o.2.M ≤ l.M) := by
  intro d l; rw [orLoop]; res_auto

theorem parseAnd_step {n} (ih : Specs n) : ∀ d l,
    (parseAnd (n + 1) d l).Sat (n + 1) (8 * l.M + 11) (fun o => o.2.M ≤ l.M) := by
  intro d l; rw [parseAnd]; res_auto

theorem andLoop_step {n} (ih : Specs n) : ∀ d l,
    (andLoop (n + 1) d l).Sat (n + 1) (8 * l.M + 5) (fun o => o.2.M ≤ l.M) := by
  intro d l; rw [andLoop]; res_auto

theorem parseTerm_step {n} (ih : Specs n) : ∀ d l,
    (parseTerm (n + 1) d l).Sat (n + 1) (8 * l.M + 10) (fun o => o.2.M ≤ l.M) := by
  intro d l; rw [parseTerm]; res_auto

theorem parseParens_step {n} (ih : Specs n) : ∀ d l,
    (parseParens (n + 1) d l).Sat (n + 1) (8 * l.sc.mu + 13) (fun o => o.2.M ≤ l.M) := by
  intro d l; rw [parseParens]; res_auto

theorem specsAll : ∀ fuel, Specs fuel := by
  intro fuel
  induction fuel with
  | zero =>
    constructor <;> intros
    · rw [parseOr]; exact Nat.zero_le _
    · rw [orLoop]; exact Nat.zero_le _
    · rw [parseAnd]; exact Nat.zero_le _
    · rw [andLoop]; exact Nat.zero_le _
    · rw [parseTerm]; exact Nat.zero_le _
    · rw [parseParens]; exact Nat.zero_le _
  | succ n ih =>
    exact {
      parseOr := parseOr_step ih
      orLoop := orLoop_step ih
      parseAnd := parseAnd_step ih
      andLoop := andLoop_step ih
      parseTerm := parseTerm_step ih
      parseParens := parseParens_step ih }

/-! ### the specs as stand-alone lemmas -/

theorem parseOr_spec (fuel d l) : (parseOr fuel d l).Sat fuel (8 * l.M + 12) (fun o => o.2.M ≤ l.M) :=
  (specsAll fuel).parseOr d l
theorem orLoop_spec (fuel d l) : (orLoop fuel d l).Sat fuel (8 * l.M + 6) (fun o => o.2.M ≤ l.M) :=
  (specsAll fuel).orLoop d l
theorem parseAnd_spec (fuel d l) : (parseAnd fuel d l).Sat fuel (8 * l.M + 11) (fun o => o.2.M ≤ l.M) :=
  (specsAll fuel).parseAnd d l
theorem andLoop_spec (fuel d l) : (andLoop fuel d l).Sat fuel (8 * l.M + 5) (fun o => o.2.M ≤ l.M) :=
  (specsAll fuel).andLoop d l
theorem parseTerm_spec (fuel d l) : (parseTerm fuel d l).Sat fuel (8 * l.M + 10) (fun o => o.2.M ≤ l.M) :=
  (specsAll fuel).parseTerm d l
theorem parseParens_spec (fuel d l) :
    (parseParens fuel d l).Sat fuel (8 * l.sc.mu + 13) (fun o => o.2.M ≤ l.M) :=
  (specsAll fuel).parseParens d l

/-- `Parser::parse` with an explicit fuel: `8 * length + 12 < fuel` is enough -/
theorem parseFilter_fuel_spec (fuel : Nat) (bs : List UInt8) :
    (parseFilter fuel bs).Sat fuel (8 * bs.length + 12) (fun _ => True) := by
  unfold parseFilter
  dsimp only
  have hm := mu_make bs
  res_auto

/-- `Filter::try_from(&str)` is total: `fuelFor n = 8 n + 64` is enough for every input of `n` bytes -/
theorem parseFilter_spec (bs : List UInt8) : (parseFilter (fuelFor bs.length) bs).Sat 1 0 (fun _ => True) := by
  have hf : fuelFor bs.length = 8 * bs.length + 64 := rfl
  res_from (parseFilter_fuel_spec (fuelFor bs.length) bs)

end Hs.FText
