/-
  C04 read direction: dicts `{ tags }` with blanks after `{` and before `}`.
-/
import Hs.Lemmas.ZincSpellTags
namespace Hs.Zinc
open Hs Hs.Scan Hs.Spell

theorem Blanks.append {a b : List UInt8} (ha : Blanks a) (hb : Blanks b) : Blanks (a ++ b) := by
  intro x hx
  rcases List.mem_append.mp hx with h | h
  · exact ha x h
  · exact hb x h

/-- `{` blanks tags blanks `}` -/
theorem SpOk_dict {d : Tags} {w1 body w2 : List UInt8} (h1 : Blanks w1) (h2 : Blanks w2)
    (hsort : keysSorted d.keys = true) (h : RdTagsW dictParts 125 d body) (hnil : d = .nil → body = []) :
    SpOk (.dict d) (123 :: (w1 ++ body ++ w2 ++ [125])) := by
  refine ⟨?_, ⟨123, _, rfl, by decide, by decide, by decide, by decide⟩⟩
  intro depth f1 f2 s rest hat hs hd hf1 hf2 hn
  simp only [List.cons_append, List.append_assoc, List.length_cons, List.length_append, List.length_nil,
    List.nil_append] at hat hf1 hf2
  simp only [nestV] at hn
  obtain ⟨g1, rfl⟩ : ∃ g, f1 = g + 1 := ⟨f1 - 1, by omega⟩
  obtain ⟨g2, rfl⟩ : ∃ g, f2 = g + 3 := ⟨f2 - 3, by omega⟩
  have hnd : ¬ (depth ≥ maxNestingDepth) := by unfold maxNestingDepth; omega
  have hat1 := hat.advance
  have hs1 : s.advance.stash = [] := by rw [At.advance_stash, hs]; rfl
  have hfin : dictOf (lexImgT d).toList = lexImgT d := dictOf_toList _ (by rw [lexImgT_keys]; exact hsort)
  have heof1 : s.advance.eof = false := by
    cases hx : w1 ++ (body ++ (w2 ++ 125 :: rest)) with
    | nil => simp at hx
    | cons b r => rw [hx] at hat1; exact hat1.eof
  cases d with
  | nil =>
    have hb := hnil rfl
    subst hb
    have hat1' : At s.advance ((w1 ++ w2) ++ 125 :: rest) := by simpa using hat1
    obtain ⟨s', e, h', hs'⟩ := lexRead_specialW (w1 ++ w2) (Blanks.append h1 h2) s.advance 125 rest hat1' (by decide) (by decide)
      (by simp [hs1]) (fun _ => hs1) (g2 + 1) (by simp at hf2 ⊢; omega)
    refine ⟨_, { sc := s', tok := .ch 125 }, lexRead_special hat (by decide) (by decide) g1, fun _ => heof1,
      Or.inr (Or.inl rfl), ?_, Post.of_clean h' hs'⟩
    rw [parseValue]
    simp only [hnd, if_false]
    rw [parseDict]
    simp only [isChar_ch, PS.read, e]
    rw [dictParts]
    simp only [isEof_mk, isChar_ch]
    by_cases he : s'.eof = true <;> simp [he, lexImg, lexImgT, dictOf, Tags.ofList, isChar_ch]
  | cons k v t' =>
    obtain ⟨afterK, hb, hk, hstop, hrun⟩ := h k v t' rfl
    have hlenk : k.length ≤ (encChars k).length := encChars_length_ge k
    have hE : EndOk 125 (w2 ++ 125 :: rest) rest := EndOk.brace w2 rest h2
    have hat1' : At s.advance (w1 ++ (encChars k ++ (afterK ++ (w2 ++ 125 :: rest)))) := by
      rw [hb] at hat1; simpa using hat1
    have hlb : body.length = (encChars k).length + afterK.length := by rw [hb]; simp
    obtain ⟨s', e5, h5, hs5⟩ := lexRead_idW w1 h1 k hk s.advance _ hat1' (hstop _ rest hE) (by simp [hs1])
      (fun _ => hs1) (g2 + 1) (by omega)
    obtain ⟨p', e', ht', h', hs'⟩ := hrun (depth + 1) (g2 + 1) s' false [] _ rest hE h5 hs5
      (by simp only [List.length_append, List.length_cons]; omega) (by omega)
    refine ⟨_, p', lexRead_special hat (by decide) (by decide) g1, fun _ => heof1, Or.inr (Or.inl rfl), ?_,
      Post.of_clean h' hs'⟩
    rw [parseValue]
    simp only [hnd, if_false]
    rw [parseDict]
    simp only [isChar_ch, PS.read, e5, e']
    have : PS.isChar p' 125 = true := by unfold PS.isChar; rw [ht']; rfl
    simp [this, lexImg, hfin]

end Hs.Zinc
