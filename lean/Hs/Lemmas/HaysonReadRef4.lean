/-
  Hs.Lemmas.HaysonReadRef4 — the encoder's documents carry no `_kind` member in a grid meta or a column meta
  (`MetaUntagged (toJson v)` for well-formed `v`), so the reference reader reads the encoder's document of
  EVERY well-formed value (any kind, any nesting) as the value.
-/
import Hs.Lemmas.HaysonReadRef3
import Hs.Lemmas.HaysonRead4
set_option linter.unusedSimpArgs false
namespace Hs.Spec.Hayson
open Hs Hs.Hayson Hs.C02

theorem tagsJson_keys_toList : ∀ t : Tags, (tagsJson t).toList.map (·.1) = t.keys
  | .nil => by simp [tagsJson, Members.toList, Tags.keys]
  | .cons k v t => by simp [tagsJson, Members.toList, Tags.keys, tagsJson_keys_toList t]

theorem wfTags_keys_noKind : ∀ t : Tags, wfTags t = true → ∀ k ∈ t.keys, k ≠ s "_kind"
  | .nil, _, k, hk => by simp [Tags.keys] at hk
  | .cons k' v t, h, k, hk => by
    simp [wfTags] at h
    simp only [Tags.keys, List.mem_cons] at hk
    rcases hk with e | hk
    · subst e; exact h.1.1
    · exact wfTags_keys_noKind t h.2 k hk

theorem untagged_tagsJson (t : Tags) (hw : wfTags t = true) : Untagged (.obj (tagsJson t)) := by
  intro mm e p hp
  cases e
  exact wfTags_keys_noKind t hw p.1 (by rw [← tagsJson_keys_toList]; exact List.mem_map_of_mem hp)

/-- a dict object written from `_kind`-free tags is not a grid object -/
theorem metaUntagged_obj_tags (t : Tags) (hw : wfTags t = true) (hm : MetaUntaggedM (tagsJson t)) :
    MetaUntagged (.obj (tagsJson t)) := by
  simp only [MetaUntagged]
  refine ⟨?_, hm⟩
  intro hg
  exact absurd rfl (untagged_tagsJson t hw _ rfl _ hg)

theorem metaUntagged_encNumber (n : Num) : MetaUntagged (encNumber n) := by
  obtain ⟨v, unit⟩ := n
  unfold encNumber
  by_cases hN : isNaN v = true
  · cases unit <;> simp [hN, MetaUntagged, MetaUntaggedM, Members.toList, s]
  · by_cases hI : isInf v = true
    · cases unit <;> by_cases hS : isNeg v = true <;>
        simp [hN, hI, hS, MetaUntagged, MetaUntaggedM, Members.toList, s]
    · cases unit with
      | some u =>
        simp [hN, hI, jF64, MetaUntagged, MetaUntaggedM, Members.toList, s]
      | none =>
        simp only [hN, hI]
        simp
        repeat' split
        all_goals simp [MetaUntagged]

theorem metaUntagged_jF64 (f : Flt) : MetaUntagged (jF64 f) := by
  unfold jF64; split <;> simp [MetaUntagged]

mutual
theorem metaUntagged_val : (v : Val) → wfj v = true → MetaUntagged (toJson v)
  | .null, _ => by simp [toJson, MetaUntagged]
  | .remove, _ => by simp [toJson, kindObj, MetaUntagged, MetaUntaggedM, Members.toList, s]
  | .marker, _ => by simp [toJson, kindObj, MetaUntagged, MetaUntaggedM, Members.toList, s]
  | .na, _ => by simp [toJson, kindObj, MetaUntagged, MetaUntaggedM, Members.toList, s]
  | .bool _, _ => by simp [toJson, MetaUntagged]
  | .num n, _ => by simp only [toJson]; exact metaUntagged_encNumber n
  | .str _, _ => by simp [toJson, MetaUntagged]
  | .uri _, _ => by simp [toJson, kindObj, MetaUntagged, MetaUntaggedM, Members.toList, s]
  | .ref _ dis, _ => by
    cases dis <;> simp [toJson, kindObj, MetaUntagged, MetaUntaggedM, Members.toList, s]
  | .sym _, _ => by simp [toJson, kindObj, MetaUntagged, MetaUntaggedM, Members.toList, s]
  | .date _, _ => by simp [toJson, kindObj, MetaUntagged, MetaUntaggedM, Members.toList, s]
  | .time _, _ => by simp [toJson, kindObj, MetaUntagged, MetaUntaggedM, Members.toList, s]
  | .dateTime t, _ => by
    by_cases h : (t.tzid == s "UTC") = true
    · simp only [toJson, kindObj, h, if_true]
      simp [MetaUntagged, MetaUntaggedM, Members.toList, s]
    · simp only [toJson, kindObj, h]
      simp [MetaUntagged, MetaUntaggedM, Members.toList, s]
  | .coord a b, _ => by
    simp only [toJson, kindObj, MetaUntagged, MetaUntaggedM]
    refine ⟨?_, by simp [MetaUntagged], metaUntagged_jF64 a, metaUntagged_jF64 b, trivial⟩
    intro hg
    simp [Members.toList, s] at hg
  | .xstr _ _, _ => by simp [toJson, kindObj, MetaUntagged, MetaUntaggedM, Members.toList, s]
  | .list xs, h => by
    simp only [toJson, MetaUntagged]
    exact metaUntagged_vals xs (by simpa [wfj] using h)
  | .dict d, h => by
    simp [wfj] at h
    simp only [toJson]
    exact metaUntagged_obj_tags d h.1 (metaUntagged_tags d h.1)
  | .grid (.some t) cols rows ver, h => by
    simp [wfj] at h
    simp only [toJson, kindObj, MetaUntagged, MetaUntaggedM]
    refine ⟨fun _ => ⟨?_, ?_⟩, by simp [MetaUntagged],
      metaUntagged_obj_tags t h.1.1.1.1 (metaUntagged_tags t h.1.1.1.1),
      metaUntagged_cols cols h.1.2, metaUntagged_rows rows h.2, trivial⟩
    · intro p hp hk
      simp [Members.toList] at hp
      rcases hp with e | e | e | e <;> subst e
      · simp [s] at hk
      · exact untagged_tagsJson t h.1.1.1.1
      · simp [s] at hk
      · simp [s] at hk
    · intro p hp hk cs hcs c hc
      simp [Members.toList] at hp
      rcases hp with e | e | e | e <;> subst e
      · simp [s] at hk
      · simp [s] at hk
      · cases hcs
        exact colUntagged_cols cols h.1.2 c hc
      · simp [s] at hk
  | .grid .none cols rows ver, h => by
    simp [wfj] at h
    simp only [toJson, kindObj, MetaUntagged, MetaUntaggedM]
    refine ⟨fun _ => ⟨?_, ?_⟩, by simp [MetaUntagged], by simp [MetaUntagged, MetaUntaggedM, Members.toList],
      metaUntagged_cols cols h.1, metaUntagged_rows rows h.2, trivial⟩
    · intro p hp hk
      simp [Members.toList] at hp
      rcases hp with e | e | e | e <;> subst e
      · simp [s] at hk
      · intro mm e p hp; cases e; simp [Members.toList] at hp
      · simp [s] at hk
      · simp [s] at hk
    · intro p hp hk cs hcs c hc
      simp [Members.toList] at hp
      rcases hp with e | e | e | e <;> subst e
      · simp [s] at hk
      · simp [s] at hk
      · cases hcs
        exact colUntagged_cols cols h.1 c hc
      · simp [s] at hk
theorem metaUntagged_vals : (vs : Vals) → wfjs vs = true → MetaUntaggeds (listJson vs)
  | .nil, _ => by simp [listJson, MetaUntaggeds]
  | .cons v vs, h => by
    simp [wfjs] at h
    simp only [listJson, MetaUntaggeds]
    exact ⟨metaUntagged_val v h.1, metaUntagged_vals vs h.2⟩
theorem metaUntagged_tags : (t : Tags) → wfTags t = true → MetaUntaggedM (tagsJson t)
  | .nil, _ => by simp [tagsJson, MetaUntaggedM]
  | .cons k v t, h => by
    simp [wfTags] at h
    simp only [tagsJson, MetaUntaggedM]
    exact ⟨metaUntagged_val v h.1.2, metaUntagged_tags t h.2⟩
theorem metaUntagged_cols : (c : Cols) → wfCols c = true → MetaUntaggeds (colsJson c)
  | .nil, _ => by simp [colsJson, MetaUntaggeds]
  | .cons n (.some t) c, h => by
    simp [wfCols] at h
    simp only [colsJson, MetaUntaggeds, MetaUntagged, MetaUntaggedM]
    refine ⟨⟨?_, by simp [MetaUntagged], metaUntagged_obj_tags t h.1.1 (metaUntagged_tags t h.1.1), trivial⟩,
      metaUntagged_cols c h.2⟩
    intro hg
    simp [Members.toList, s] at hg
  | .cons n .none c, h => by
    simp [wfCols] at h
    simp only [colsJson, MetaUntaggeds, MetaUntagged, MetaUntaggedM]
    refine ⟨⟨?_, by simp [MetaUntagged], trivial⟩, metaUntagged_cols c h⟩
    intro hg
    simp [Members.toList, s] at hg
theorem colUntagged_cols : (c : Cols) → wfCols c = true → ∀ cj ∈ (colsJson c).toList, ColUntagged cj
  | .nil, _, cj, hc => by simp [colsJson, Jsons.toList] at hc
  | .cons n (.some t) c, h, cj, hc => by
    simp [wfCols] at h
    simp only [colsJson, Jsons.toList, List.mem_cons] at hc
    rcases hc with e | hc
    · subst e
      intro cm e p hp hk
      cases e
      simp [Members.toList] at hp
      rcases hp with e | e <;> subst e
      · simp [s] at hk
      · exact untagged_tagsJson t h.1.1
    · exact colUntagged_cols c h.2 cj hc
  | .cons n .none c, h, cj, hc => by
    simp [wfCols] at h
    simp only [colsJson, Jsons.toList, List.mem_cons] at hc
    rcases hc with e | hc
    · subst e
      intro cm e p hp hk
      cases e
      simp [Members.toList] at hp
      subst hp
      simp [s] at hk
    · exact colUntagged_cols c h cj hc
theorem metaUntagged_rows : (r : Rows) → wfRows r = true → MetaUntaggeds (rowsJson r)
  | .nil, _ => by simp [rowsJson, MetaUntaggeds]
  | .cons r rs, h => by
    simp [wfRows] at h
    simp only [rowsJson, MetaUntaggeds]
    exact ⟨metaUntagged_obj_tags r h.1.1 (metaUntagged_tags r h.1.1), metaUntagged_rows rs h.2⟩
end

/-- **writer conformance, every value**: the reference reader reads the encoder's document of every
well-formed value as the value (`jImage`; an empty meta as an absent one) -/
theorem reader_reads_writer (v : Val) (h : wfj v = true) :
    readDoc (toJson v) = some (readerImage (jImage v)) :=
  reader_denotes (denotes_val v h) (metaUntagged_val v h)

end Hs.Spec.Hayson
