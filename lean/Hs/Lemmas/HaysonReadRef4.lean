/-
  Hs.Lemmas.HaysonReadRef4 — the reference reader reads the encoder's document of EVERY well-formed value
  (any kind, any nesting) as the value: `reader_denotes` applied to `denotes_val`.
-/
import Hs.Lemmas.HaysonReadRef3
import Hs.Lemmas.HaysonRead4
namespace Hs.Spec.Hayson
open Hs Hs.Hayson Hs.C02

/-- **writer conformance, every value**: the reference reader reads the encoder's document of every
well-formed value as the value (`jImage`; an empty meta as an absent one) -/
theorem reader_reads_writer (v : Val) (h : wfj v = true) :
    readDoc (toJson v) = some (readerImage (jImage v)) :=
  reader_denotes (denotes_val v h)

end Hs.Spec.Hayson
