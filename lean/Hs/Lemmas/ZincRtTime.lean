/-
  C01 ladder, rung 4f: times `hh:mm:ss[.fff]` (the 2-digits-then-colon look-ahead rule).
-/
import Hs.Lemmas.ZincRtDate
namespace Hs.Zinc
open Hs Hs.Scan

theorem fracLoop_rt (bs : List UInt8) (hbs : ∀ b ∈ bs, isDigitB b = true) :
    ∀ (s : Scan) (rest : List UInt8) (fuel : Nat) (acc : List UInt8), At s (bs ++ rest) → Stop isDigitB rest →
    bs.length < fuel → fracLoop fuel s acc = .ok (acc ++ bs, advN bs.length s) := by
  induction bs with
  | nil =>
    intro s rest fuel acc h hst hf
    obtain ⟨f, rfl⟩ : ∃ f, fuel = f + 1 := ⟨fuel - 1, by omega⟩
    rw [fracLoop]
    cases rest with
    | nil => simp [At.eof_nil h, advN]
    | cons b r =>
      have := hst b r rfl
      simp [h.eof, h.cur, Scan.isDigit, this, advN]
  | cons b bs ih =>
    intro s rest fuel acc h hst hf
    obtain ⟨f, rfl⟩ : ∃ f, fuel = f + 1 := ⟨fuel - 1, by omega⟩
    have hb := hbs b (by simp)
    simp only [List.cons_append] at h
    rw [fracLoop]
    simp only [h.eof, h.cur, Scan.isDigit, hb, Bool.not_false, Bool.and_self, if_true]
    rw [ih (fun x hx => hbs x (by simp [hx])) s.advance rest f _ h.advance hst (by simpa using hf)]
    simp [advN]

theorem delim_stop_digit {rest : List UInt8} (h : Delim rest) : Stop isDigitB rest := h.stop (by decide)

/-- no fraction, something follows -/
theorem ndt_time (h0 h1 m0 m1 s0 s1 : UInt8)
    (hh0 : isDigitB h0 = true) (hh1 : isDigitB h1 = true) (hm0 : isDigitB m0 = true) (hm1 : isDigitB m1 = true)
    (hs0 : isDigitB s0 = true) (hs1 : isDigitB s1 = true)
    (t : Time) (hmk : mkTime [h0, h1, 58, m0, m1, 58, s0, s1] none = some t)
    (x : UInt8) (r : List UInt8) (hx : x ≠ 46) (lp : UInt8) (pos fuel : Nat) :
    ∃ s', parseNumberDateTime fuel (Scan.at h0 (h1 :: 58 :: m0 :: m1 :: 58 :: s0 :: s1 :: x :: r) lp pos)
      = .ok (.time t, s') ∧ At s' (x :: r) ∧ s'.stash = [] := by
  refine ⟨Scan.at x r 58 (pos + 8), ?_, At_at .., rfl⟩
  unfold parseNumberDateTime
  simp only [Scan.at, digit_ne_minus hh0, Bool.false_eq_true, if_false]
  simp [ndtPeeks, Scan.peek, Scan.readByte, hh0, hh1, hm0, hm1, hs0, hs1, hx,
    parseTime, parseTimeRaw, takeDigits, Scan.advance, Scan.read, show isDigitB 58 = false by decide, hmk]

/-- no fraction, end of input: `cur` keeps the last digit -/
theorem ndt_time_eof (h0 h1 m0 m1 s0 s1 : UInt8)
    (hh0 : isDigitB h0 = true) (hh1 : isDigitB h1 = true) (hm0 : isDigitB m0 = true) (hm1 : isDigitB m1 = true)
    (hs0 : isDigitB s0 = true) (hs1 : isDigitB s1 = true)
    (t : Time) (hmk : mkTime [h0, h1, 58, m0, m1, 58, s0, s1] none = some t) (lp : UInt8) (pos fuel : Nat) :
    ∃ s', parseNumberDateTime fuel (Scan.at h0 (h1 :: 58 :: m0 :: m1 :: 58 :: s0 :: [s1]) lp pos)
      = .ok (.time t, s') ∧ At s' [] ∧ s'.stash = [] := by
  have hne : s1 ≠ 46 := by
    intro hb; subst hb; revert hs1; decide
  refine ⟨{ cur := s1, stash := [], lastPeek := 58, eof := true, inp := [], pos := pos + 7 }, ?_, by simp [At], rfl⟩
  unfold parseNumberDateTime
  simp only [Scan.at, digit_ne_minus hh0, Bool.false_eq_true, if_false]
  simp [ndtPeeks, Scan.peek, Scan.readByte, hh0, hh1, hm0, hm1, hs0, hs1,
    parseTime, parseTimeRaw, takeDigits, Scan.advance, Scan.read, show isDigitB 58 = false by decide, hne, hmk]

/-- with a fraction -/
theorem ndt_time_frac (h0 h1 m0 m1 s0 s1 : UInt8)
    (hh0 : isDigitB h0 = true) (hh1 : isDigitB h1 = true) (hm0 : isDigitB m0 = true) (hm1 : isDigitB m1 = true)
    (hs0 : isDigitB s0 = true) (hs1 : isDigitB s1 = true)
    (f0 : UInt8) (fr : List UInt8) (hfr : ∀ b ∈ f0 :: fr, isDigitB b = true)
    (t : Time) (hmk : mkTime [h0, h1, 58, m0, m1, 58, s0, s1] (some (f0 :: fr)) = some t)
    (rest : List UInt8) (hst : Stop isDigitB rest) (lp : UInt8) (pos fuel : Nat) (hf : fr.length + 1 < fuel) :
    ∃ s', parseNumberDateTime fuel (Scan.at h0 (h1 :: 58 :: m0 :: m1 :: 58 :: s0 :: s1 :: 46 :: f0 :: (fr ++ rest)) lp pos)
      = .ok (.time t, s') ∧ At s' rest ∧ s'.stash = [] := by
  have hat : At (Scan.at f0 (fr ++ rest) 58 (pos + 1 + 1 + 1 + 1 + 1 + 1 + 1 + 1 + 1)) ((f0 :: fr) ++ rest) := At_at ..
  have e := fracLoop_rt (f0 :: fr) hfr _ rest fuel [] hat hst (by simpa using hf)
  simp only [Scan.at, List.nil_append] at e
  refine ⟨_, ?_, hat.advN, advN_stash_nil _ _ rfl⟩
  unfold parseNumberDateTime
  simp only [Scan.at, digit_ne_minus hh0, Bool.false_eq_true, if_false]
  simp [ndtPeeks, Scan.peek, Scan.readByte, hh0, hh1, hm0, hm1, hs0, hs1,
    parseTime, parseTimeRaw, takeDigits, Scan.advance, Scan.read, Scan.readQ, show isDigitB 58 = false by decide,
    e, hmk]


/-- time text: `dd:dd:dd` or `dd:dd:dd.d+` that chrono accepts, and the value is what the text says -/
def timeOk (t : Time) : Bool :=
  t.txt.all (fun c => c.toNat < 128) &&
  match t.txt.map byteOf with
  | h0 :: h1 :: 58 :: m0 :: m1 :: 58 :: s0 :: s1 :: tl =>
    isDigitB h0 && isDigitB h1 && isDigitB m0 && isDigitB m1 && isDigitB s0 && isDigitB s1 &&
    (match tl with
     | [] => mkTime [h0, h1, 58, m0, m1, 58, s0, s1] none == some t
     | 46 :: f0 :: fr => (f0 :: fr).all isDigitB && mkTime [h0, h1, 58, m0, m1, 58, s0, s1] (some (f0 :: fr)) == some t
     | _ => false)
  | _ => false

theorem delim_not_dot {rest : List UInt8} (hd : Delim rest) : ∀ r, rest ≠ 46 :: r := by
  intro r e
  rcases hd with rfl | ⟨b, r', rfl, hb⟩ | ⟨y, r', rfl, _⟩
  · cases e
  · cases e; rcases hb with hb | hb | hb | hb <;> cases hb
  · cases e

theorem lexRead_time (t : Time) (hok : timeOk t = true) (s : Scan) (rest : List UInt8) (fuel : Nat)
    (h : At s (encChars t.txt ++ rest)) (hs : s.stash = []) (hd : Delim rest) (hf : t.txt.length + 2 ≤ fuel) :
    ∃ s', lexRead fuel s = .ok { sc := s', tok := .val (.time t) } ∧ At s' rest ∧ s'.stash = [] := by
  obtain ⟨f, rfl⟩ : ∃ f, fuel = f + 1 := ⟨fuel - 1, by omega⟩
  simp only [timeOk, Bool.and_eq_true] at hok
  obtain ⟨hasc, hm⟩ := hok
  rw [encChars_all_ascii hasc] at h
  have hlen : (t.txt.map byteOf).length = t.txt.length := by simp
  split at hm
  · rename_i h0 h1 m0 m1 s0 s1 tl heq
    simp only [Bool.and_eq_true] at hm
    obtain ⟨⟨⟨⟨⟨⟨hh0, hh1⟩, hm0⟩, hm1⟩, hs0⟩, hs1⟩, htl⟩ := hm
    rw [heq] at h hlen
    simp only [List.cons_append] at h
    have hseq := eq_at_of_At h hs
    rw [pk_zero] at hseq
    rw [lexRead_ndt h (by simp [hh0])]
    split at htl
    · -- no fraction
      simp only [beq_iff_eq] at htl
      simp only [List.nil_append] at hseq
      cases rest with
      | nil =>
        obtain ⟨s', e, h', hs'⟩ := ndt_time_eof h0 h1 m0 m1 s0 s1 hh0 hh1 hm0 hm1 hs0 hs1 t htl s.lastPeek s.pos f
        exact ⟨s', by rw [hseq, e], h', hs'⟩
      | cons x r =>
        obtain ⟨s', e, h', hs'⟩ := ndt_time h0 h1 m0 m1 s0 s1 hh0 hh1 hm0 hm1 hs0 hs1 t htl x r
          (fun e => delim_not_dot hd r (by rw [e])) s.lastPeek s.pos f
        exact ⟨s', by rw [hseq, e], h', hs'⟩
    · rename_i f0 fr
      simp only [Bool.and_eq_true, beq_iff_eq, List.all_eq_true] at htl
      simp only [List.cons_append] at hseq
      simp only [List.length_cons] at hlen
      obtain ⟨s', e, h', hs'⟩ := ndt_time_frac h0 h1 m0 m1 s0 s1 hh0 hh1 hm0 hm1 hs0 hs1 f0 fr htl.1 t htl.2 rest
        (delim_stop_digit hd) s.lastPeek s.pos f (by omega)
      exact ⟨s', by rw [hseq, e], h', hs'⟩
    · simp at htl
  · simp at hm

end Hs.Zinc
