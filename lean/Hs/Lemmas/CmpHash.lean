/-
  Hs.Lemmas.CmpHash — equal values make the same writes to a hasher; `partial_cmp`, when it
  answers, answers what `cmp` answers.
-/
import Hs.Model.Cmp
import Hs.Lemmas.CmpEq
namespace Hs

theorem Flt.hashBits_of_key (x y : Flt) (hx : x.isNaN = false) (hy : y.isNaN = false)
    (h : x.key = y.key) : x.hashBits = y.hashBits := by
  unfold Flt.hashBits
  simp only [hx, hy, Bool.false_eq_true, if_false]
  unfold Flt.key at h
  split at h <;> split at h <;> split <;> split <;> omega

theorem Flt.feq_hash (x y : Flt) (h : x.feq y = true) : x.hashBits = y.hashBits := by
  simp [Flt.feq] at h
  exact Flt.hashBits_of_key x y h.1.1 h.1.2 h.2

theorem Date.cmp_eq (a b : Date) (h : a.cmp b = .eq) : a.y = b.y ∧ a.m = b.m ∧ a.d = b.d := by
  simpa [Date.cmp, Ordering.then_eq_eq, Int.compare_eq_eq, Nat.compare_eq_eq] using h
theorem Time.cmp_eq (a b : Time) (h : a.cmp b = .eq) : a.secs = b.secs ∧ a.ns = b.ns := by
  simpa [Time.cmp, Ordering.then_eq_eq, Nat.compare_eq_eq] using h
theorem DateTime.cmp_eq (a b : DateTime) (h : a.cmp b = .eq) : a.secs = b.secs ∧ a.ns = b.ns := by
  simpa [DateTime.cmp, Ordering.then_eq_eq, Int.compare_eq_eq, Nat.compare_eq_eq] using h

mutual
theorem hash_val : (a b : Val) → Val.eqv a b = true → a.hashSeq = b.hashSeq
  | a, b, h => by
    cases a <;> cases b <;> simp only [Val.eqv, Bool.false_eq_true] at h <;>
      simp only [Val.hashSeq]
    case bool.bool x y => simp at h; rw [h]
    case num.num x y =>
      simp only [Num.eqv, Bool.and_eq_true, beq_iff_eq] at h
      rw [Flt.feq_hash _ _ h.1, h.2]
    case str.str x y => simp at h; rw [h]
    case uri.uri x y => simp at h; rw [h]
    case ref.ref x _ y _ => simp at h; rw [h]
    case sym.sym x y => simp at h; rw [h]
    case date.date x y =>
      simp at h; obtain ⟨h1, h2, h3⟩ := Date.cmp_eq x y h; rw [h1, h2, h3]
    case time.time x y =>
      simp at h; obtain ⟨h1, h2⟩ := Time.cmp_eq x y h; rw [h1, h2]
    case dateTime.dateTime x y =>
      simp at h; obtain ⟨h1, h2⟩ := DateTime.cmp_eq x y h; rw [h1, h2]
    case coord.coord x1 x2 y1 y2 =>
      simp only [coordEq, Bool.and_eq_true] at h
      rw [Flt.feq_hash _ _ h.1, Flt.feq_hash _ _ h.2]
    case xstr.xstr x1 x2 y1 y2 => simp at h; rw [h.1, h.2]
    case list.list xs ys =>
      obtain ⟨h1, h2⟩ := hash_vals xs ys h; rw [h1, h2]
    case dict.dict x y =>
      obtain ⟨h1, h2⟩ := hash_tags x y h; rw [h1, h2]
    case grid.grid m1 c1 r1 v1 m2 c2 r2 v2 =>
      simp only [Bool.and_eq_true, beq_iff_eq] at h
      obtain ⟨⟨⟨hm, hc⟩, hr⟩, hv⟩ := h
      obtain ⟨hc1, hc2⟩ := hash_cols c1 c2 hc
      obtain ⟨hr1, hr2⟩ := hash_rows r1 r2 hr
      rw [hash_otags m1 m2 hm, hc1, hc2, hr1, hr2, hv]
theorem hash_vals : (a b : Vals) → Vals.eqv a b = true → a.length = b.length ∧ a.hashSeq = b.hashSeq
  | .nil, .nil, _ => ⟨rfl, rfl⟩
  | .nil, .cons _ _, h => by simp [Vals.eqv] at h
  | .cons _ _, .nil, h => by simp [Vals.eqv] at h
  | .cons a as, .cons b bs, h => by
    simp only [Vals.eqv, Bool.and_eq_true] at h
    obtain ⟨h1, h2⟩ := hash_vals as bs h.2
    simp only [Vals.length, Vals.hashSeq, hash_val a b h.1, h1, h2, and_self]
theorem hash_tags : (a b : Tags) → Tags.eqv a b = true → a.length = b.length ∧ a.hashSeq = b.hashSeq
  | .nil, .nil, _ => ⟨rfl, rfl⟩
  | .nil, .cons _ _ _, h => by simp [Tags.eqv] at h
  | .cons _ _ _, .nil, h => by simp [Tags.eqv] at h
  | .cons k a as, .cons l b bs, h => by
    simp only [Tags.eqv, Bool.and_eq_true, beq_iff_eq] at h
    obtain ⟨h1, h2⟩ := hash_tags as bs h.2
    simp only [Tags.length, Tags.hashSeq, hash_val a b h.1.2, h.1.1, h1, h2, and_self]
theorem hash_otags : (a b : OTags) → OTags.eqv a b = true → a.hashSeq = b.hashSeq
  | .none, .none, _ => rfl
  | .none, .some _, h => by simp [OTags.eqv] at h
  | .some _, .none, h => by simp [OTags.eqv] at h
  | .some a, .some b, h => by
    simp only [OTags.eqv] at h
    obtain ⟨h1, h2⟩ := hash_tags a b h
    simp only [OTags.hashSeq, h1, h2]
theorem hash_cols : (a b : Cols) → Cols.eqv a b = true → a.length = b.length ∧ a.hashSeq = b.hashSeq
  | .nil, .nil, _ => ⟨rfl, rfl⟩
  | .nil, .cons _ _ _, h => by simp [Cols.eqv] at h
  | .cons _ _ _, .nil, h => by simp [Cols.eqv] at h
  | .cons n m c, .cons n' m' c', h => by
    simp only [Cols.eqv, Bool.and_eq_true, beq_iff_eq] at h
    obtain ⟨h1, h2⟩ := hash_cols c c' h.2
    simp only [Cols.length, Cols.hashSeq, hash_otags m m' h.1.2, h.1.1, h1, h2, and_self]
theorem hash_rows : (a b : Rows) → Rows.eqv a b = true → a.length = b.length ∧ a.hashSeq = b.hashSeq
  | .nil, .nil, _ => ⟨rfl, rfl⟩
  | .nil, .cons _ _, h => by simp [Rows.eqv] at h
  | .cons _ _, .nil, h => by simp [Rows.eqv] at h
  | .cons a as, .cons b bs, h => by
    simp only [Rows.eqv, Bool.and_eq_true] at h
    obtain ⟨h1, h2⟩ := hash_rows as bs h.2
    obtain ⟨h3, h4⟩ := hash_tags a b h.1
    simp only [Rows.length, Rows.hashSeq, h1, h2, h3, h4, and_self]
end

/-! ### partial_cmp agrees with cmp -/

theorem pThen_then {p : Option Ordering} {k : Unit → Option Ordering} {c1 c2 o : Ordering}
    (h1 : ∀ r, p = some r → c1 = r) (h2 : ∀ r, k () = some r → c2 = r) :
    pThen p k = some o → c1.then c2 = o := by
  intro h
  cases p with
  | none => simp [pThen] at h
  | some r =>
    have := h1 r rfl; subst this
    cases c1 <;> simp [pThen] at h <;> simp [Ordering.then]
    · exact h
    · exact h2 o h
    · exact h

theorem Flt.pcmp_of (x y : Flt) (hx : x.isNaN = false) (hy : y.isNaN = false) :
    x.pcmp y = some (compare x.key y.key) := by simp [Flt.pcmp, hx, hy]

theorem Num.pcmp_cmp (a b : Num) (ha : a.v.isNaN = false) (hb : b.v.isNaN = false) (o : Ordering) :
    a.pcmp b = some o → a.cmp b = o := by
  unfold Num.pcmp
  split
  · rename_i hu
    have hu' : a.unit = b.unit := by simpa using hu
    rw [Flt.pcmp_of _ _ ha hb, Num.cmp_of a b ha hb, hu', (cmpOptChars_eq_iff b.unit b.unit).2 rfl]
    intro h; cases h; cases compare a.v.key b.v.key <;> rfl
  · intro h; cases h

theorem coordPcmp_cmp (a1 a2 b1 b2 : Flt) (h1 : a1.isNaN = false) (h2 : a2.isNaN = false)
    (h3 : b1.isNaN = false) (h4 : b2.isNaN = false) (o : Ordering) :
    coordPcmp a1 a2 b1 b2 = some o → coordCmp a1 a2 b1 b2 = o := by
  rw [coordCmp_of _ _ _ _ h1 h2 h3 h4]
  unfold coordPcmp
  rw [Flt.pcmp_of _ _ h1 h3, Flt.pcmp_of _ _ h2 h4]
  cases compare a1.key b1.key <;> simp [Ordering.then] <;> intro h <;> exact h

mutual
theorem pcmp_val : (a b : Val) → NF a → NF b → (o : Ordering) → Val.pcmp a b = some o → Val.cmp a b = o
  | a, b, ha, hb, o => by
    rw [Val.pcmp, Val.cmp]
    by_cases hk : a.kindIdx = b.kindIdx
    · simp only [hk, Nat.compare_eq_eq.2 rfl, Ordering.then]
      cases a <;> cases b <;> simp [Val.kindIdx] at hk <;>
        simp only [Val.pcmpSame, Val.cmpSame]
      case num.num x y =>
        exact Num.pcmp_cmp x y (by simpa [NF, Val.nanFree] using ha) (by simpa [NF, Val.nanFree] using hb) o
      case coord.coord x1 x2 y1 y2 =>
        have ha' : x1.isNaN = false ∧ x2.isNaN = false := by simpa [NF, Val.nanFree] using ha
        have hb' : y1.isNaN = false ∧ y2.isNaN = false := by simpa [NF, Val.nanFree] using hb
        exact coordPcmp_cmp _ _ _ _ ha'.1 ha'.2 hb'.1 hb'.2 o
      case list.list xs ys =>
        exact pcmp_vals xs ys (by simpa [NF, Val.nanFree] using ha) (by simpa [NF, Val.nanFree] using hb) o
      case dict.dict x y =>
        exact pcmp_tags x y (by simpa [NF, Val.nanFree] using ha) (by simpa [NF, Val.nanFree] using hb) o
      case grid.grid m1 c1 r1 v1 m2 c2 r2 v2 =>
        have ha' : m1.nanFree = true ∧ c1.nanFree = true ∧ r1.nanFree = true := by
          simpa [NF, Val.nanFree, Bool.and_eq_true, and_assoc] using ha
        have hb' : m2.nanFree = true ∧ c2.nanFree = true ∧ r2.nanFree = true := by
          simpa [NF, Val.nanFree, Bool.and_eq_true, and_assoc] using hb
        exact pThen_then (pcmp_otags m1 m2 ha'.1 hb'.1) fun r =>
          pThen_then (pcmp_cols c1 c2 ha'.2.1 hb'.2.1) fun r =>
            pThen_then (pcmp_rows r1 r2 ha'.2.2 hb'.2.2) fun r h => by cases h; rfl
      all_goals (intro h; cases h; rfl)
    · have hne : compare a.kindIdx b.kindIdx ≠ .eq := by
        intro h; exact hk (Nat.compare_eq_eq.1 h)
      cases hc : compare a.kindIdx b.kindIdx <;> simp [hc] at hne ⊢ <;> intro h <;>
        simp [Ordering.then] <;> exact h
theorem pcmp_vals : (a b : Vals) → NFs a → NFs b → (o : Ordering) → Vals.pcmp a b = some o → Vals.cmp a b = o
  | .nil, .nil, _, _, o => by simp [Vals.pcmp, Vals.cmp]
  | .nil, .cons _ _, _, _, o => by simp [Vals.pcmp, Vals.cmp]
  | .cons _ _, .nil, _, _, o => by simp [Vals.pcmp, Vals.cmp]
  | .cons a as, .cons b bs, ha, hb, o => by
    have ha' : a.nanFree = true ∧ as.nanFree = true := by simpa [NFs, Vals.nanFree] using ha
    have hb' : b.nanFree = true ∧ bs.nanFree = true := by simpa [NFs, Vals.nanFree] using hb
    simp only [Vals.pcmp, Vals.cmp]
    exact pThen_then (pcmp_val a b ha'.1 hb'.1) (pcmp_vals as bs ha'.2 hb'.2)
theorem pcmp_tagsVals : (a b : Tags) → NFt a → NFt b → (o : Ordering) →
    Tags.pcmpVals a b = some o → Tags.cmpVals a b = o
  | .nil, .nil, _, _, o => by simp [Tags.pcmpVals, Tags.cmpVals]
  | .nil, .cons _ _ _, _, _, o => by simp [Tags.pcmpVals, Tags.cmpVals]
  | .cons _ _ _, .nil, _, _, o => by simp [Tags.pcmpVals, Tags.cmpVals]
  | .cons k a as, .cons l b bs, ha, hb, o => by
    have ha' : a.nanFree = true ∧ as.nanFree = true := by simpa [NFt, Tags.nanFree] using ha
    have hb' : b.nanFree = true ∧ bs.nanFree = true := by simpa [NFt, Tags.nanFree] using hb
    simp only [Tags.pcmpVals, Tags.cmpVals]
    exact pThen_then (pcmp_val a b ha'.1 hb'.1) (pcmp_tagsVals as bs ha'.2 hb'.2)
theorem pcmp_tags : (a b : Tags) → NFt a → NFt b → (o : Ordering) → Tags.pcmp a b = some o → Tags.cmp a b = o
  | a, b, ha, hb, o => by
    rw [Tags.pcmp, Tags.cmp]
    cases hc : cmpList cmpChars a.keys b.keys <;> simp [Ordering.then]
    cases a with
    | nil => cases b <;> simp [Tags.pcmpVals, Tags.cmpVals]
    | cons k x as =>
      cases b with
      | nil => simp [Tags.pcmpVals, Tags.cmpVals]
      | cons l y bs =>
        have ha' : x.nanFree = true ∧ as.nanFree = true := by simpa [NFt, Tags.nanFree] using ha
        have hb' : y.nanFree = true ∧ bs.nanFree = true := by simpa [NFt, Tags.nanFree] using hb
        simp only [Tags.pcmpVals, Tags.cmpVals]
        exact pThen_then (pcmp_val x y ha'.1 hb'.1) (pcmp_tagsVals as bs ha'.2 hb'.2)
theorem pcmp_otags : (a b : OTags) → NFo a → NFo b → (o : Ordering) → OTags.pcmp a b = some o → OTags.cmp a b = o
  | .none, .none, _, _, o => by simp [OTags.pcmp, OTags.cmp]
  | .none, .some _, _, _, o => by simp [OTags.pcmp, OTags.cmp]
  | .some _, .none, _, _, o => by simp [OTags.pcmp, OTags.cmp]
  | .some a, .some b, ha, hb, o => by
    simp only [OTags.pcmp, OTags.cmp]
    exact pcmp_tags a b (by simpa [NFo, OTags.nanFree] using ha) (by simpa [NFo, OTags.nanFree] using hb) o
theorem pcmp_cols : (a b : Cols) → NFc a → NFc b → (o : Ordering) → Cols.pcmp a b = some o → Cols.cmp a b = o
  | .nil, .nil, _, _, o => by simp [Cols.pcmp, Cols.cmp]
  | .nil, .cons _ _ _, _, _, o => by simp [Cols.pcmp, Cols.cmp]
  | .cons _ _ _, .nil, _, _, o => by simp [Cols.pcmp, Cols.cmp]
  | .cons n m c, .cons n' m' c', ha, hb, o => by
    have ha' : m.nanFree = true ∧ c.nanFree = true := by simpa [NFc, Cols.nanFree] using ha
    have hb' : m'.nanFree = true ∧ c'.nanFree = true := by simpa [NFc, Cols.nanFree] using hb
    simp only [Cols.pcmp, Cols.cmp]
    exact pThen_then
      (fun r => pThen_then (fun r h => by cases h; rfl) (pcmp_otags m m' ha'.1 hb'.1) (o := r))
      (pcmp_cols c c' ha'.2 hb'.2)
theorem pcmp_rows : (a b : Rows) → NFr a → NFr b → (o : Ordering) → Rows.pcmp a b = some o → Rows.cmp a b = o
  | .nil, .nil, _, _, o => by simp [Rows.pcmp, Rows.cmp]
  | .nil, .cons _ _, _, _, o => by simp [Rows.pcmp, Rows.cmp]
  | .cons _ _, .nil, _, _, o => by simp [Rows.pcmp, Rows.cmp]
  | .cons a as, .cons b bs, ha, hb, o => by
    have ha' : a.nanFree = true ∧ as.nanFree = true := by simpa [NFr, Rows.nanFree] using ha
    have hb' : b.nanFree = true ∧ bs.nanFree = true := by simpa [NFr, Rows.nanFree] using hb
    simp only [Rows.pcmp, Rows.cmp]
    exact pThen_then (pcmp_tags a b ha'.1 hb'.1) (pcmp_rows as bs ha'.2 hb'.2)
end

end Hs
