/-
  The reader's row dict: `dictOf` of the cells collected in column order is the (image of the) row, when the
  row's keys are strictly ascending column names and the column names are distinct.
-/
import Hs.Lemmas.ZincRtSort
import Hs.Lemmas.ZincRtRow
namespace Hs.Zinc
open Hs

theorem get?_none_of_not_mem : ∀ (r : Tags) (n : List Char), n ∉ r.keys → r.get? n = none
  | .nil, _, _ => rfl
  | .cons k v t, n, h => by
    simp only [Tags.keys, List.mem_cons, not_or] at h
    simp only [Tags.get?, fun e : k = n => h.1 e.symm, if_false]
    have hk : ¬ (k = n) := fun e => h.1 e.symm
    simp [hk, get?_none_of_not_mem t n h.2]

theorem get?_eq_some_iff : ∀ (r : Tags), r.keys.Nodup → ∀ (n : List Char) (v : Val),
    r.get? n = some v ↔ (n, v) ∈ r.toList
  | .nil, _, n, v => by simp [Tags.get?, Tags.toList]
  | .cons k w t, hnd, n, v => by
    simp only [Tags.keys, List.nodup_cons] at hnd
    have ih := get?_eq_some_iff t hnd.2 n v
    by_cases hk : k = n
    · subst hk
      simp only [Tags.get?, if_true, Option.some.injEq, Tags.toList, List.mem_cons, Prod.mk.injEq, true_and]
      constructor
      · intro e; exact Or.inl e.symm
      · intro h
        rcases h with e | h
        · exact e.symm
        · exfalso
          have : k ∈ t.keys := by
            rw [← Tags.keys_toList]; exact List.mem_map.mpr ⟨(k, v), h, rfl⟩
          exact hnd.1 this
    · simp only [Tags.get?, hk, if_false, Tags.toList, List.mem_cons, Prod.mk.injEq]
      rw [ih]
      constructor
      · intro h; exact Or.inr h
      · intro h
        rcases h with ⟨e, _⟩ | h
        · exact absurd e.symm hk
        · exact h

theorem lexImgT_toList : ∀ t : Tags, (lexImgT t).toList = t.toList.map (fun p => (p.1, lexImg p.2))
  | .nil => rfl
  | .cons k v t => by simp [lexImgT, Tags.toList, lexImgT_toList t]

theorem keysSorted_pairwise : ∀ ks : List (List Char), keysSorted ks = true → ks.Pairwise (fun a b => ltKey a b = true)
  | [], _ => List.Pairwise.nil
  | k :: ks, h => by
    simp only [keysSorted, Bool.and_eq_true, List.all_eq_true] at h
    exact List.pairwise_cons.mpr ⟨h.1, keysSorted_pairwise ks h.2⟩

theorem keysSorted_nodup (ks : List (List Char)) (h : keysSorted ks = true) : ks.Nodup := by
  refine List.Pairwise.imp ?_ (keysSorted_pairwise ks h)
  intro a b hab e
  simp only [ltKey, Bool.and_eq_true, bne_iff_ne, ne_eq] at hab
  exact hab.2 e

theorem sortedKV_lexImgT (r : Tags) (h : keysSorted r.keys = true) : SortedKV (lexImgT r).toList := by
  unfold SortedKV
  rw [lexImgT_toList, List.pairwise_map]
  have := keysSorted_pairwise r.keys h
  rw [← Tags.keys_toList, List.pairwise_map] at this
  exact this

/-- the reader's cells, in column order, are an arrangement of the row's entries -/
theorem cellsOf_perm (r : Tags) (names : List (List Char)) (hnames : names.Nodup)
    (hsub : ∀ k ∈ r.keys, k ∈ names) (hsort : keysSorted r.keys = true) :
    (cellsOf r names).Perm (lexImgT r).toList := by
  have hnd := keysSorted_nodup r.keys hsort
  have nd1 : (cellsOf r names).Nodup := by
    unfold cellsOf
    rw [List.nodup_iff_pairwise_ne, List.pairwise_filterMap]
    refine List.Pairwise.imp ?_ hnames
    intro a a' hne b hb b' hb' e
    simp only [Option.mem_def, Option.map_eq_some_iff] at hb hb'
    obtain ⟨v, _, rfl⟩ := hb
    obtain ⟨v', _, rfl⟩ := hb'
    simp only [Prod.mk.injEq] at e
    exact hne e.1
  have nd2 : (lexImgT r).toList.Nodup := by
    have := sortedKV_lexImgT r hsort
    refine List.Pairwise.imp ?_ this
    intro a b hab e
    subst e
    simp [ltKey] at hab
  rw [List.perm_ext_iff_of_nodup nd1 nd2]
  intro x
  obtain ⟨n, w⟩ := x
  simp only [cellsOf, List.mem_filterMap, Option.map_eq_some_iff, Prod.mk.injEq, lexImgT_toList, List.mem_map]
  constructor
  · rintro ⟨n', _, v, hget, rfl, rfl⟩
    exact ⟨(n', v), (get?_eq_some_iff r hnd n' v).mp hget, rfl, rfl⟩
  · rintro ⟨⟨n', v⟩, hmem, rfl, rfl⟩
    have hk : n' ∈ r.keys := by
      rw [← Tags.keys_toList]; exact List.mem_map.mpr ⟨(n', v), hmem, rfl⟩
    exact ⟨n', hsub n' hk, v, (get?_eq_some_iff r hnd n' v).mpr hmem, rfl, rfl⟩

/-- **the row is rebuilt** -/
theorem dictOf_cellsOf (r : Tags) (names : List (List Char)) (hnames : names.Nodup)
    (hsub : ∀ k ∈ r.keys, k ∈ names) (hsort : keysSorted r.keys = true) :
    dictOf (cellsOf r names) = lexImgT r := by
  rw [dictOf_perm _ _ (sortedKV_lexImgT r hsort) (cellsOf_perm r names hnames hsub hsort), Tags.ofList_toList]

end Hs.Zinc
