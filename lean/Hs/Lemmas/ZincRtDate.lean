/-
  C01 ladder, rung 4e: dates and times through `parse_number_date_time` (the 4-digits-then-dash and the
  2-digits-then-colon look-ahead rules).  The fixed-width parts are evaluated on the explicit scanner state.
-/
import Hs.Lemmas.ZincRtNum2
namespace Hs.Zinc
open Hs Hs.Scan

theorem digit_ne_minus {b : UInt8} (h : isDigitB b = true) : (b == 45) = false := by
  cases hb : b == 45 with
  | false => rfl
  | true => simp at hb; subst hb; revert h; decide

/-! ### Date -/

theorem ndt_date (y0 y1 y2 y3 m0 m1 d0 d1 : UInt8)
    (hy0 : isDigitB y0 = true) (hy1 : isDigitB y1 = true) (hy2 : isDigitB y2 = true) (hy3 : isDigitB y3 = true)
    (hm0 : isDigitB m0 = true) (hm1 : isDigitB m1 = true) (hd0 : isDigitB d0 = true) (hd1 : isDigitB d1 = true)
    (d : Date) (hmk : mkDate [y0, y1, y2, y3, 45, m0, m1, 45, d0, d1] = some d)
    (x : UInt8) (r : List UInt8) (hx : x ≠ 84) (lp : UInt8) (pos fuel : Nat) :
    ∃ s', parseNumberDateTime fuel (Scan.at y0 (y1 :: y2 :: y3 :: 45 :: m0 :: m1 :: 45 :: d0 :: d1 :: x :: r) lp pos)
      = .ok (.date d, s') ∧ At s' (x :: r) ∧ s'.stash = [] := by
  refine ⟨Scan.at x r x (pos + 10), ?_, At_at .., rfl⟩
  unfold parseNumberDateTime
  simp only [Scan.at, digit_ne_minus hy0, Bool.false_eq_true, if_false]
  simp [ndtPeeks, Scan.peek, Scan.readByte, hy0, hy1, hy2, hy3, isPartialDate, hm0, hm1, hd0, hd1, hx,
    parseDate, parseDateRaw, takeDigits, Scan.advance, Scan.read, hmk]

theorem ndt_date_eof (y0 y1 y2 y3 m0 m1 d0 d1 : UInt8)
    (hy0 : isDigitB y0 = true) (hy1 : isDigitB y1 = true) (hy2 : isDigitB y2 = true) (hy3 : isDigitB y3 = true)
    (hm0 : isDigitB m0 = true) (hm1 : isDigitB m1 = true) (hd0 : isDigitB d0 = true) (hd1 : isDigitB d1 = true)
    (d : Date) (hmk : mkDate [y0, y1, y2, y3, 45, m0, m1, 45, d0, d1] = some d)
    (lp : UInt8) (pos fuel : Nat) :
    ∃ s', parseNumberDateTime fuel (Scan.at y0 (y1 :: y2 :: y3 :: 45 :: m0 :: m1 :: 45 :: d0 :: [d1]) lp pos)
      = .ok (.date d, s') ∧ At s' [] ∧ s'.stash = [] := by
  refine ⟨{ cur := d1, stash := [], lastPeek := d1, eof := true, inp := [], pos := pos + 9 }, ?_, by simp [At], rfl⟩
  unfold parseNumberDateTime
  simp only [Scan.at, digit_ne_minus hy0, Bool.false_eq_true, if_false]
  simp [ndtPeeks, Scan.peek, Scan.readByte, hy0, hy1, hy2, hy3, isPartialDate, hm0, hm1, hd0, hd1,
    parseDate, parseDateRaw, takeDigits, Scan.advance, Scan.read, hmk]

/-- date text: `dddd-dd-dd` that chrono accepts, and the value's fields are what the text says -/
def dateOk (d : Date) : Bool :=
  d.txt.all (fun c => c.toNat < 128) &&
  match d.txt.map byteOf with
  | [y0, y1, y2, y3, 45, m0, m1, 45, d0, d1] =>
    isDigitB y0 && isDigitB y1 && isDigitB y2 && isDigitB y3 && isDigitB m0 && isDigitB m1 && isDigitB d0
      && isDigitB d1 && mkDate [y0, y1, y2, y3, 45, m0, m1, 45, d0, d1] == some d
  | _ => false

theorem encChars_all_ascii {cs : List Char} (h : cs.all (fun c => c.toNat < 128) = true) :
    encChars cs = cs.map byteOf := by
  have : AllB (fun _ => true) cs = true := by
    simp only [AllB, List.all_eq_true, Bool.and_true] at h ⊢; exact h
  exact (encChars_ascii this).1

theorem delim_not_T {rest : List UInt8} (hd : Delim rest) : ∀ r, rest ≠ 84 :: r := by
  intro r e
  rcases hd with rfl | ⟨b, r', rfl, hb⟩ | ⟨y, r', rfl, _⟩
  · cases e
  · cases e; rcases hb with hb | hb | hb | hb <;> cases hb
  · cases e

theorem lexRead_date (d : Date) (hok : dateOk d = true) (s : Scan) (rest : List UInt8) (fuel : Nat)
    (h : At s (encChars d.txt ++ rest)) (hs : s.stash = []) (hd : Delim rest) (hf : 2 ≤ fuel) :
    ∃ s', lexRead fuel s = .ok { sc := s', tok := .val (.date d) } ∧ At s' rest ∧ s'.stash = [] := by
  obtain ⟨f, rfl⟩ : ∃ f, fuel = f + 1 := ⟨fuel - 1, by omega⟩
  simp only [dateOk, Bool.and_eq_true] at hok
  obtain ⟨hasc, hm⟩ := hok
  rw [encChars_all_ascii hasc] at h
  split at hm
  · rename_i y0 y1 y2 y3 m0 m1 d0 d1 heq
    simp only [Bool.and_eq_true, beq_iff_eq] at hm
    obtain ⟨⟨⟨⟨⟨⟨⟨⟨hy0, hy1⟩, hy2⟩, hy3⟩, hm0⟩, hm1⟩, hd0⟩, hd1⟩, hmk⟩ := hm
    rw [heq] at h
    simp only [List.cons_append, List.nil_append] at h
    have hseq := eq_at_of_At h hs
    rw [pk_zero] at hseq
    rw [lexRead_ndt h (by simp [hy0])]
    cases rest with
    | nil =>
      obtain ⟨s', e, h', hs'⟩ := ndt_date_eof y0 y1 y2 y3 m0 m1 d0 d1 hy0 hy1 hy2 hy3 hm0 hm1 hd0 hd1 d hmk
        s.lastPeek s.pos f
      refine ⟨s', ?_, h', hs'⟩
      rw [hseq, e]
    | cons x r =>
      obtain ⟨s', e, h', hs'⟩ := ndt_date y0 y1 y2 y3 m0 m1 d0 d1 hy0 hy1 hy2 hy3 hm0 hm1 hd0 hd1 d hmk
        x r (fun e => delim_not_T hd r (by rw [e])) s.lastPeek s.pos f
      refine ⟨s', ?_, h', hs'⟩
      rw [hseq, e]
  · simp at hm

end Hs.Zinc
