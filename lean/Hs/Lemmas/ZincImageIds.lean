/-
  C11, decoder image invariant, part 1: the id-like readers on ARBITRARY input.  Whatever bytes the scanner
  holds, what `parse_literal` / `parse_id` / the Ref and Symbol readers RETURN satisfies the side condition the
  round trip of C01 asks of it (`isIdent`, `isUpperName`, `isRefId`, `isSymBody`).
-/
import Hs.Lemmas.ZincRtWf
namespace Hs.Zinc
open Hs Hs.Scan

/-! ### ASCII bytes as characters -/

theorem chr_toNat (b : UInt8) (h : b.toNat < 128) : (chr b).toNat = b.toNat := by
  unfold chr
  exact char_toNat_ofNat b.toNat (by omega)

theorem byteOf_chr (b : UInt8) (h : b.toNat < 128) : byteOf (chr b) = b := by
  unfold byteOf
  rw [chr_toNat b h]
  exact UInt8.ofNat_toNat

theorem utf8Lossy_asciiZ (w : List UInt8) (hw : ∀ b ∈ w, b.toNat < 128) :
    ∀ fuel, w.length < fuel → utf8Lossy fuel w = w.map chr := by
  induction w with
  | nil => intro fuel hf; cases fuel <;> simp [utf8Lossy]
  | cons a w ih =>
    intro fuel hf
    cases fuel with
    | zero => omega
    | succ n =>
      have ha : a.toNat < 128 := hw a (by simp)
      have : a < 0x80 := by rw [u8_lt_iff]; exact ha
      unfold utf8Lossy
      simp only [this, if_true, List.map_cons, chr]
      rw [ih (fun b hb => hw b (by simp [hb])) n (by simp at hf; omega)]

theorem lossy_asciiZ (w : List UInt8) (hw : ∀ b ∈ w, b.toNat < 128) : lossy w = w.map chr := by
  unfold lossy
  exact utf8Lossy_asciiZ w hw _ (by omega)

/-- a text read off ASCII bytes of class `P` -/
theorem AllB_map_chr {P : UInt8 → Bool} (hP : ∀ b, P b = true → b.toNat < 128) :
    ∀ bs : List UInt8, (∀ b ∈ bs, P b = true) → AllB P (bs.map chr) = true
  | [], _ => rfl
  | b :: bs, h => by
    have hb := h b (by simp)
    rw [List.map_cons, AllB_cons]
    refine ⟨⟨by rw [chr_toNat b (hP b hb)]; exact hP b hb, by rw [byteOf_chr b (hP b hb)]; exact hb⟩, ?_⟩
    exact AllB_map_chr hP bs (fun x hx => h x (by simp [hx]))

theorem isLitB_ascii : ∀ b : UInt8, isLitB b = true → b.toNat < 128 := by
  have h := all_u8 (fun b => !isLitB b || decide (b.toNat < 128)) (by decide +kernel)
  intro b hb
  have := h b
  simpa [hb] using this

theorem isRefB_ascii : ∀ b : UInt8, isRefB b = true → b.toNat < 128 := by
  have h := all_u8 (fun b => !isRefB b || decide (b.toNat < 128)) (by decide +kernel)
  intro b hb
  have := h b
  simpa [hb] using this

/-! ### `parse_literal`, `parse_id` -/

theorem litCond (s : Scan) : (s.isAlphaNum || s.cur == 95) = isLitB s.cur := by
  simp [Scan.isAlphaNum, Scan.isDigit, Scan.isLower, Scan.isUpper, isLitB, isAlnumB]

theorem refCond (s : Scan) : (s.isAlphaNum || isRefPunct s.cur) = isRefB s.cur := by
  simp [Scan.isAlphaNum, Scan.isDigit, Scan.isLower, Scan.isUpper, isRefB, isAlnumB]

/-- the loop only ever appends bytes of the literal alphabet -/
theorem literalLoop_img : ∀ (f : Nat) (s : Scan) (acc acc' : List UInt8) (s' : Scan),
    literalLoop f s acc = .ok (acc', s') → ∃ bs, acc' = acc ++ bs ∧ ∀ b ∈ bs, isLitB b = true
  | 0, _, _, _, _, h => by simp [literalLoop] at h
  | f + 1, s, acc, acc', s', h => by
    rw [literalLoop, litCond] at h
    by_cases hc : (!s.eof && isLitB s.cur) = true
    · simp only [hc, if_true] at h
      obtain ⟨bs, e, hb⟩ := literalLoop_img f _ _ _ _ h
      simp only [Bool.and_eq_true] at hc
      refine ⟨s.cur :: bs, by rw [e]; simp, ?_⟩
      intro b hm
      rcases List.mem_cons.mp hm with rfl | hm
      · exact hc.2
      · exact hb b hm
    · simp only [hc, Bool.false_eq_true, if_false, Res.ok.injEq, Prod.mk.injEq] at h
      exact ⟨[], by simp [h.1], by simp⟩

/-- started on a byte of the alphabet that is not past the end, the first byte collected is that byte -/
theorem literalLoop_first (f : Nat) (s : Scan) (acc' : List UInt8) (s' : Scan) (he : s.eof = false)
    (hc : isLitB s.cur = true) (h : literalLoop f s [] = .ok (acc', s')) :
    ∃ bs, acc' = s.cur :: bs ∧ ∀ b ∈ bs, isLitB b = true := by
  cases f with
  | zero => simp [literalLoop] at h
  | succ f =>
    rw [literalLoop, litCond] at h
    simp only [he, hc, Bool.not_false, Bool.and_self, if_true, List.nil_append] at h
    obtain ⟨bs, e, hb⟩ := literalLoop_img f _ _ _ _ h
    exact ⟨bs, by simpa using e, hb⟩

theorem isLower_lit : ∀ b : UInt8, isLowerB b = true → isLitB b = true := by
  intro b h; simp [isLitB, isAlnumB, h]
theorem isUpper_lit : ∀ b : UInt8, isUpperB b = true → isLitB b = true := by
  intro b h; simp [isLitB, isAlnumB, h]

/-- **`parse_id` returns identifiers only** (any input) -/
theorem parseId_img (f : Nat) (s : Scan) (i : List Char) (s' : Scan) (he : s.eof = false)
    (h : parseId f s = .ok (i, s')) : isIdent i = true := by
  unfold parseId at h
  by_cases hl : s.isLower = true
  · simp only [hl, Bool.not_true, Bool.false_eq_true, if_false] at h
    unfold parseLiteral at h
    have hlc : isLowerB s.cur = true := hl
    cases hx : literalLoop f s [] with
    | ok r =>
      obtain ⟨acc, s1⟩ := r
      rw [hx] at h
      obtain ⟨bs, e, hb⟩ := literalLoop_first f s acc s1 he (isLower_lit _ hlc) hx
      subst e
      simp only [List.isEmpty_cons, Bool.false_eq_true, if_false, Res.ok.injEq, Prod.mk.injEq] at h
      have hall : ∀ b ∈ s.cur :: bs, isLitB b = true := by
        intro b hm
        rcases List.mem_cons.mp hm with rfl | hm
        · exact isLower_lit _ hlc
        · exact hb b hm
      rw [lossy_asciiZ _ (fun b hm => isLitB_ascii b (hall b hm))] at h
      rw [← h.1, List.map_cons]
      have h128 := isLitB_ascii _ (isLower_lit _ hlc)
      simp only [isIdent, Bool.and_eq_true, decide_eq_true_eq]
      exact ⟨⟨by rw [chr_toNat _ h128]; exact h128, by rw [byteOf_chr _ h128]; exact hlc⟩,
        AllB_map_chr isLitB_ascii bs hb⟩
    | err => rw [hx] at h; simp at h
    | panic => rw [hx] at h; simp at h
    | diverge => rw [hx] at h; simp at h
    | depth => rw [hx] at h; simp at h
  · simp [hl] at h

/-- **`parse_literal` started on an upper-case letter returns a capitalised name** (any input) -/
theorem parseLiteral_upper_img (f : Nat) (s : Scan) (lit : List Char) (s' : Scan) (he : s.eof = false)
    (hu : isUpperB s.cur = true) (h : parseLiteral f s = .ok (lit, s')) : isUpperName lit = true := by
  unfold parseLiteral at h
  cases hx : literalLoop f s [] with
  | ok r =>
    obtain ⟨acc, s1⟩ := r
    rw [hx] at h
    obtain ⟨bs, e, hb⟩ := literalLoop_first f s acc s1 he (isUpper_lit _ hu) hx
    subst e
    simp only [List.isEmpty_cons, Bool.false_eq_true, if_false, Res.ok.injEq, Prod.mk.injEq] at h
    have hall : ∀ b ∈ s.cur :: bs, isLitB b = true := by
      intro b hm
      rcases List.mem_cons.mp hm with rfl | hm
      · exact isUpper_lit _ hu
      · exact hb b hm
    rw [lossy_asciiZ _ (fun b hm => isLitB_ascii b (hall b hm))] at h
    rw [← h.1, List.map_cons]
    have h128 := isLitB_ascii _ (isUpper_lit _ hu)
    simp only [isUpperName, Bool.and_eq_true, decide_eq_true_eq]
    exact ⟨⟨by rw [chr_toNat _ h128]; exact h128, by rw [byteOf_chr _ h128]; exact hu⟩,
      AllB_map_chr isLitB_ascii bs hb⟩
  | err => rw [hx] at h; simp at h
  | panic => rw [hx] at h; simp at h
  | diverge => rw [hx] at h; simp at h
  | depth => rw [hx] at h; simp at h

/-! ### Ref, Symbol -/

theorem refLoop_img : ∀ (f : Nat) (s : Scan) (acc acc' : List UInt8) (s' : Scan),
    refLoop f s acc = .ok (acc', s') → ∃ bs, acc' = acc ++ bs ∧ ∀ b ∈ bs, isRefB b = true
  | 0, _, _, _, _, h => by simp [refLoop] at h
  | f + 1, s, acc, acc', s', h => by
    rw [refLoop, refCond] at h
    by_cases hc : (!s.eof && isRefB s.cur) = true
    · simp only [hc, if_true] at h
      obtain ⟨bs, e, hb⟩ := refLoop_img f _ _ _ _ h
      simp only [Bool.and_eq_true] at hc
      refine ⟨s.cur :: bs, by rw [e]; simp, ?_⟩
      intro b hm
      rcases List.mem_cons.mp hm with rfl | hm
      · exact hc.2
      · exact hb b hm
    · simp only [hc, Bool.false_eq_true, if_false, Res.ok.injEq, Prod.mk.injEq] at h
      exact ⟨[], by simp [h.1], by simp⟩

/-- a non-empty run of id bytes, read as text, is a Ref id -/
theorem isRefId_of_bytes (bs : List UInt8) (hne : bs.isEmpty = false) (hb : ∀ b ∈ bs, isRefB b = true) :
    isRefId (lossy bs) = true := by
  rw [lossy_asciiZ _ (fun b hm => isRefB_ascii b (hb b hm))]
  simp only [isRefId, Bool.and_eq_true, Bool.not_eq_eq_eq_not, Bool.not_true]
  refine ⟨?_, AllB_map_chr isRefB_ascii bs hb⟩
  cases bs <;> simp_all

/-- **`parse_ref` returns a Ref whose id is over the id alphabet and non-empty** (any input, any display name) -/
theorem parseRef_img (f : Nat) (s : Scan) (v : Val) (s' : Scan) (h : parseRef f s = .ok (v, s')) :
    ∃ id dis, v = .ref id dis ∧ isRefId id = true := by
  unfold parseRef at h
  split at h
  · simp at h
  · cases hx : refLoop f s.advance [] with
    | ok r =>
      obtain ⟨acc, s1⟩ := r
      rw [hx] at h
      obtain ⟨bs, e, hb⟩ := refLoop_img f _ _ _ _ hx
      simp only [List.nil_append] at e
      subst e
      by_cases hne : acc.isEmpty = true
      · simp [hne] at h
      · simp only [Bool.not_eq_true] at hne
        have hid := isRefId_of_bytes acc hne hb
        simp only [hne, Bool.false_eq_true, if_false] at h
        split at h
        · split at h
          · simp only [Res.ok.injEq, Prod.mk.injEq] at h
            exact ⟨_, _, h.1.symm, hid⟩
          · split at h
            · split at h
              · split at h
                · simp only [Res.ok.injEq, Prod.mk.injEq] at h
                  exact ⟨_, _, h.1.symm, hid⟩
                all_goals simp at h
              · simp at h
            · simp only [Res.ok.injEq, Prod.mk.injEq] at h
              exact ⟨_, _, h.1.symm, hid⟩
        · simp only [Res.ok.injEq, Prod.mk.injEq] at h
          exact ⟨_, _, h.1.symm, hid⟩
    | err => rw [hx] at h; simp at h
    | panic => rw [hx] at h; simp at h
    | diverge => rw [hx] at h; simp at h
    | depth => rw [hx] at h; simp at h

theorem isLower_ref : ∀ b : UInt8, isLowerB b = true → isRefB b = true := by
  intro b h; simp [isRefB, isAlnumB, h]

/-- **`parse_symbol` returns a Symbol whose body starts with a lower-case letter and continues over the id
alphabet** (any input) -/
theorem parseSymbol_img (f : Nat) (s : Scan) (v : Val) (s' : Scan) (h : parseSymbol f s = .ok (v, s')) :
    ∃ b, v = .sym b ∧ isSymBody b = true := by
  unfold parseSymbol at h
  split at h
  · simp at h
  · by_cases hl : s.advance.isLower = true
    · simp only [hl, Bool.not_true, Bool.false_eq_true, if_false] at h
      have hlc : isLowerB s.advance.cur = true := hl
      cases f with
      | zero => simp [refLoop] at h
      | succ f =>
        rw [refLoop, refCond] at h
        by_cases he : s.advance.eof = true
        · simp [he] at h
        · simp only [Bool.not_eq_true] at he
          simp only [he, isLower_ref _ hlc, Bool.not_false, Bool.and_self, if_true, List.nil_append] at h
          cases hx : refLoop f s.advance.advance [s.advance.cur] with
          | ok r =>
            obtain ⟨acc, s1⟩ := r
            rw [hx] at h
            obtain ⟨bs, e, hb⟩ := refLoop_img f _ _ _ _ hx
            subst e
            simp only [List.cons_append, List.nil_append, List.isEmpty_cons, Bool.false_eq_true, if_false,
              Res.ok.injEq, Prod.mk.injEq] at h
            refine ⟨_, h.1.symm, ?_⟩
            have hall : ∀ b ∈ s.advance.cur :: bs, isRefB b = true := by
              intro b hm
              rcases List.mem_cons.mp hm with rfl | hm
              · exact isLower_ref _ hlc
              · exact hb b hm
            rw [lossy_asciiZ _ (fun b hm => isRefB_ascii b (hall b hm)), List.map_cons]
            have h128 := isRefB_ascii _ (isLower_ref _ hlc)
            simp only [isSymBody, Bool.and_eq_true, decide_eq_true_eq]
            exact ⟨⟨by rw [chr_toNat _ h128]; exact h128, by rw [byteOf_chr _ h128]; exact hlc⟩,
              AllB_map_chr isRefB_ascii bs hb⟩
          | err => rw [hx] at h; simp at h
          | panic => rw [hx] at h; simp at h
          | diverge => rw [hx] at h; simp at h
          | depth => rw [hx] at h; simp at h
    · simp [hl] at h

end Hs.Zinc
